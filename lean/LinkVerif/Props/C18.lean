/-
C18 — Peer connections deliver each channel's messages intact, in order, authenticated.

Theorems about `Model.Conn` (the model of libs/p2p/conn as it is today) and about the constants / structural facts the
extractor regenerates from the tree on every check (`Gen.ConnFacts`).  Cryptographic and compression laws are explicit
hypotheses (`Good`, `Unforgeable`), never axioms.

The authentication clause holds at full strength since 57b5264 (`C18_auth_holds : C18_auth_statement`: the signer is the
*peer*, a session other than ourselves, or the attacker under a key of its own): `MakeSecretConnection` now rejects a peer
that presents our own public key, which is what the reflection of our own handshake bytes amounted to.  The identity
clause one layer up holds since 7463840 (`C18_identity_holds : C18_identity_statement`: for every sequence of connection
attempts every peer of the switch is registered under the ID of the key its connection authenticated; `no_id_squatting`,
`honest_not_blocked`; T2 `identity_guard_present`).  The blacklist clause holds since faaf6b9
(`C18_blacklist_holds : C18_blacklist_statement`, `blacklisted_never_joins`; T2 `cache_cleared_before_id_tests`): the
peer-supplied `CachePeerID` is cleared before any test that calls `ID()`.
-/
import LinkVerif.Model.ConnCfg
import LinkVerif.Props.C18Mux

namespace Props.C18
open Model.Conn

/-! ## 0. facts regenerated from the tree -/

/-- header(1) + length(4) -/
theorem header_layout :
    Gen.ConnFacts.leadingSize = 1 ∧ Gen.ConnFacts.dataLenSize = 4 ∧
    Gen.ConnFacts.headerSize = Gen.ConnFacts.leadingSize + Gen.ConnFacts.dataLenSize := by decide

/-- the compiled-in frame mode is `version00 | typeCompress`, and the reader's masks recognise it -/
theorem frame_mode :
    Gen.ConnFacts.leadingType = Gen.ConnFacts.typeCompress ∧ Gen.ConnFacts.leadingVersion = Gen.ConnFacts.version00 ∧
    (genCfg.leading &&& genCfg.versionMask) = genCfg.version00 ∧ (genCfg.leading &&& genCfg.typeMask) = genCfg.typeCompress ∧
    genCfg.typeCompress ≠ genCfg.typeEncrypt := by decide

/-- **frame_fits**: any chunk `Write` cuts (≤ dataMaxSize) yields, under snappy's bound, a frame within `frameCapacity`
and a length field the reader accepts; constants as generated from the tree -/
theorem frame_fits (n : Nat) (h : n ≤ Gen.ConnFacts.dataMaxSize) :
    Gen.ConnFacts.headerSize + maxEncodedLen n ≤ Gen.ConnFacts.frameCapacity ∧
    maxEncodedLen n ≤ Gen.ConnFacts.frameCapacity - Gen.ConnFacts.headerSize := by
  simp only [Gen.ConnFacts.dataMaxSize] at h
  simp only [maxEncodedLen, Gen.ConnFacts.headerSize, Gen.ConnFacts.frameCapacity]
  omega

example : Gen.ConnFacts.headerSize + maxEncodedLen Gen.ConnFacts.dataMaxSize = 38266 := by decide

/-- the frame length always fits the 4-byte big-endian field -/
theorem capacity_fits_u32 : Gen.ConnFacts.frameCapacity < 4294967296 := by decide

/-- `Read` keeps exactly the unread remainder: the only assignments to `recvBuffer` are the two `[n:]` slices -/
theorem read_keeps_remainder : Gen.ConnFacts.readRecvBufferAssigns = ["sc.recvBuffer[n:]", "chunk[n:]"] := by decide

/-- `Write` cuts at `dataMaxSize` and tests the frame against `frameCapacity` -/
theorem write_guards :
    "dataMaxSize < len(data)" ∈ Gen.ConnFacts.writeConds ∧ "len(frame) > frameCapacity" ∈ Gen.ConnFacts.writeConds := by decide

/-- `nextPacketMsg` sets EOF = 1 exactly in the branch `len(ch.sending) <= maxSize`, 0 in the other -/
theorem eof_only_on_last_fragment :
    Gen.ConnFacts.nextPacketEOF = [("len(ch.sending) <= maxSize", true, 1), ("len(ch.sending) <= maxSize", false, 0)] := by decide

/-- `recvPacketMsg` tests the capacity before it appends, and delivers only on EOF == 1 -/
theorem capacity_test_precedes_append :
    Gen.ConnFacts.recvPacketSteps.take 4 =
      ["var recvCap, recvReceived = ch.desc.RecvMessageCapacity, len(ch.recving) + len(packet.Bytes)",
       "if recvCap < recvReceived", "ch.recving = append(ch.recving, packet.Bytes...)", "if packet.EOF == byte(0x01)"] := by decide

/-- the handshake rejects a nil key, OUR OWN key (both ends sign the same challenge: without this test our own signature
reflected back authenticates a key-less attacker) and a signature that does not verify on the challenge, in this order -/
theorem handshake_checks :
    Gen.ConnFacts.handshakeConds = ["err != nil", "err != nil", "remPubKey == nil", "remPubKey.Equals(locPubKey)",
      "!remPubKey.VerifyBytes(challenge[:], remSignature)"] := by decide

/-- the plaintext key exchange reads exactly one encoded key (`io.ReadFull` + `DecodeBytesWithType`); it does not decode
through `ser.DecodeReaderWithType`, whose throw-away buffered reader would swallow the peer's next handshake message -/
theorem eph_key_read_exact :
    "io.ReadFull" ∈ Gen.ConnFacts.ephKeyCalls ∧ "ser.DecodeBytesWithType" ∈ Gen.ConnFacts.ephKeyCalls ∧
    "ser.DecodeReaderWithType" ∉ Gen.ConnFacts.ephKeyCalls := by decide

/-! ## 1. stream -/

theorem be32_length (n : Nat) : (be32 n).length = 4 := rfl

/-- the 4-byte length field round-trips for every frame length that can occur -/
theorem be32dec_be32 (n : Nat) (h : n < 4294967296) :
    be32dec (UInt8.ofNat (n / 16777216)) (UInt8.ofNat (n / 65536)) (UInt8.ofNat (n / 256)) (UInt8.ofNat n) = n := by
  simp only [be32dec, UInt8.toNat_ofNat']
  omega

/-- what the stream theorems assume about the configuration and the compressor -/
structure Good (cfg : FrameCfg) (cd : Codec) : Prop where
  dec_enc : ∀ x, cd.dec (cd.enc x) = some x
  enc_len : ∀ x, (cd.enc x).length ≤ maxEncodedLen x.length
  /-- the length a snappy block announces is the length of what it encodes -/
  ann_enc : ∀ x, cd.announced (cd.enc x) = x.length
  hdr_ver : (cfg.leading &&& cfg.versionMask) = cfg.version00
  hdr_type : (cfg.leading &&& cfg.typeMask) = cfg.typeCompress
  fits : cfg.headerSize + maxEncodedLen cfg.dataMaxSize ≤ cfg.frameCapacity
  cap32 : cfg.frameCapacity < 4294967296
  hs5 : cfg.headerSize = 5
  max_pos : 0 < cfg.dataMaxSize

/-- the configuration generated from the tree satisfies every non-codec assumption -/
theorem genCfg_good (cd : Codec) (h1 : ∀ x, cd.dec (cd.enc x) = some x)
    (h2 : ∀ x, (cd.enc x).length ≤ maxEncodedLen x.length) (h3 : ∀ x, cd.announced (cd.enc x) = x.length) : Good genCfg cd :=
  { dec_enc := h1, enc_len := h2, ann_enc := h3, hdr_ver := by decide, hdr_type := by decide, fits := by decide, cap32 := by decide,
    hs5 := by decide, max_pos := by decide }

/-- the assumptions are satisfiable: the identity codec -/
example : Good genCfg { enc := id, dec := some, announced := List.length } :=
  genCfg_good _ (fun _ => rfl) (fun x => by simp only [maxEncodedLen, id]; omega) (fun _ => rfl)

theorem maxEncodedLen_mono {a b : Nat} (h : a ≤ b) : maxEncodedLen a ≤ maxEncodedLen b := by
  simp only [maxEncodedLen]
  have : a / 6 ≤ b / 6 := Nat.div_le_div_right h
  omega

/-- cutting loses nothing and reorders nothing -/
theorem chunksAux_flatten (max : Nat) (hm : 0 < max) :
    ∀ (fuel : Nat) (d : Bytes), d.length ≤ fuel → (chunksAux max fuel d).flatten = d := by
  intro fuel
  induction fuel with
  | zero => intro d h; have : d = [] := List.length_eq_zero_iff.mp (by omega); subst this; rfl
  | succ k ih =>
    intro d h
    simp only [chunksAux]
    cases d with
    | nil => rfl
    | cons x xs =>
      simp only [List.isEmpty_cons, Bool.false_eq_true, ↓reduceIte, List.flatten_cons]
      rw [ih _ (by simp only [List.length_drop, List.length_cons] at *; omega), List.take_append_drop]

theorem chunks_flatten (max : Nat) (hm : 0 < max) (d : Bytes) : (chunks max d).flatten = d :=
  chunksAux_flatten max hm _ d (Nat.le_refl _)

/-- every chunk is non-empty and at most `max` long -/
theorem chunksAux_bound (max : Nat) (hm : 0 < max) :
    ∀ (fuel : Nat) (d : Bytes) (c : Bytes), c ∈ chunksAux max fuel d → 0 < c.length ∧ c.length ≤ max := by
  intro fuel
  induction fuel with
  | zero => intro d c h; simp [chunksAux] at h
  | succ k ih =>
    intro d c h
    simp only [chunksAux] at h
    cases d with
    | nil => simp at h
    | cons x xs =>
      simp only [List.isEmpty_cons, Bool.false_eq_true, ↓reduceIte, List.mem_cons] at h
      rcases h with rfl | h
      · simp only [List.length_take, List.length_cons]; omega
      · exact ih _ _ h

/-- **read_frame**: with an empty `recvBuffer` and a whole frame of a legal chunk at the head of the wire, `Read` returns the
first `n` bytes of that chunk, keeps exactly the rest, and consumes exactly that frame -/
theorem read_frame {cfg : FrameCfg} {cd : Codec} (g : Good cfg cd) (c rest : Bytes) (n : Nat)
    (hc : c.length ≤ cfg.dataMaxSize) :
    read cfg cd { recvBuffer := [], wire := frameOf cfg cd c ++ rest } n
      = ({ recvBuffer := c.drop n, wire := rest }, .ok (c.take n)) := by
  have hlen : (cd.enc c).length ≤ cfg.frameCapacity - cfg.headerSize := by
    have := g.enc_len c
    have := maxEncodedLen_mono hc
    have := g.fits
    omega
  have h32 : (cd.enc c).length < 4294967296 := by have := g.cap32; omega
  simp only [Model.Conn.read, frameOf, be32, List.isEmpty_nil, Bool.not_true, Bool.false_eq_true, ↓reduceIte, List.cons_append,
    List.nil_append, List.append_assoc]
  rw [be32dec_be32 _ h32]
  simp only [g.hdr_ver, g.hdr_type, bne_self_eq_false, Bool.false_or, beq_self_eq_true, Bool.and_false,
    Bool.false_eq_true, ↓reduceIte, List.length_append]
  rw [if_neg (by omega), if_neg (by omega)]
  simp only [List.take_left', List.drop_left', g.dec_enc, g.ann_enc]
  rw [if_neg (by omega), if_neg (by omega)]

/-- serving from `recvBuffer` -/
theorem read_buffered (cfg : FrameCfg) (cd : Codec) (b : UInt8) (bs wire : Bytes) (n : Nat) :
    read cfg cd { recvBuffer := b :: bs, wire := wire } n
      = ({ recvBuffer := (b :: bs).drop n, wire := wire }, .ok ((b :: bs).take n)) := by
  simp [Model.Conn.read]

/-- the wire image of a list of chunks -/
def wireOf (cfg : FrameCfg) (cd : Codec) : List Bytes → Bytes
  | [] => []
  | c :: cs => frameOf cfg cd c ++ wireOf cfg cd cs

/-- a reader whose transport holds whole frames of legal chunks; `pending` is what it has yet to return -/
def pending (buf : Bytes) (cs : List Bytes) : Bytes := buf ++ cs.flatten

/-- one `Read` on a faithful transport: it returns a prefix of what is pending, keeps the rest pending, and fails only
with EOF, only when nothing is pending -/
theorem read_step {cfg : FrameCfg} {cd : Codec} (g : Good cfg cd) (buf : Bytes) (cs : List Bytes) (n : Nat)
    (hcs : ∀ c ∈ cs, c.length ≤ cfg.dataMaxSize) :
    (∃ buf' cs' out, read cfg cd { recvBuffer := buf, wire := wireOf cfg cd cs } n
          = ({ recvBuffer := buf', wire := wireOf cfg cd cs' }, .ok out)
        ∧ out ++ pending buf' cs' = pending buf cs ∧ out.length ≤ n ∧ (∀ c ∈ cs', c.length ≤ cfg.dataMaxSize))
    ∨ (buf = [] ∧ cs = [] ∧ read cfg cd { recvBuffer := buf, wire := wireOf cfg cd cs } n
          = ({ recvBuffer := [], wire := [] }, .error .eof)) := by
  cases buf with
  | cons b bs =>
    left
    refine ⟨(b :: bs).drop n, cs, (b :: bs).take n, read_buffered _ _ _ _ _ _, ?_, ?_, hcs⟩
    · simp only [pending, ← List.append_assoc, List.take_append_drop]
    · simp only [List.length_take]; omega
  | nil =>
    cases cs with
    | nil => right; exact ⟨rfl, rfl, by simp [Model.Conn.read, wireOf]⟩
    | cons c cs =>
      left
      refine ⟨c.drop n, cs, c.take n, ?_, ?_, ?_, fun x hx => hcs x (List.mem_cons_of_mem _ hx)⟩
      · simp only [wireOf]; exact read_frame g c _ n (hcs c List.mem_cons_self)
      · simp only [pending, List.nil_append, List.flatten_cons, ← List.append_assoc, List.take_append_drop]
      · simp only [List.length_take]; omega

/-- **stream_identity** (invariant form): for any read sizes, on a faithful transport holding whole frames, the bytes
returned so far followed by what is still pending are exactly what was pending at the start; the only possible error is
EOF, and then everything has been returned -/
theorem readMany_inv {cfg : FrameCfg} {cd : Codec} (g : Good cfg cd) (ns : List Nat) :
    ∀ (buf : Bytes) (cs : List Bytes), (∀ c ∈ cs, c.length ≤ cfg.dataMaxSize) →
      ∃ buf' cs' out err, readMany cfg cd { recvBuffer := buf, wire := wireOf cfg cd cs } ns
          = ({ recvBuffer := buf', wire := wireOf cfg cd cs' }, out, err)
        ∧ out ++ pending buf' cs' = pending buf cs
        ∧ (err = none ∨ (err = some .eof ∧ out = pending buf cs)) := by
  induction ns with
  | nil => intro buf cs _; exact ⟨buf, cs, [], none, rfl, rfl, Or.inl rfl⟩
  | cons n ns ih =>
    intro buf cs hcs
    rcases read_step g buf cs n hcs with ⟨buf1, cs1, o1, hr, hp, _, hcs1⟩ | ⟨hb, hc, hr⟩
    · obtain ⟨buf2, cs2, o2, err, hr2, hp2, he⟩ := ih buf1 cs1 hcs1
      refine ⟨buf2, cs2, o1 ++ o2, err, ?_, ?_, ?_⟩
      · simp only [readMany, hr, hr2]
      · rw [List.append_assoc, hp2, hp]
      · rcases he with he | ⟨he, ho⟩
        · exact Or.inl he
        · exact Or.inr ⟨he, by rw [ho, hp]⟩
    · subst hb; subst hc
      refine ⟨[], [], [], some .eof, ?_, rfl, Or.inr ⟨rfl, rfl⟩⟩
      simp only [wireOf] at hr ⊢
      simp only [readMany, hr]

/-- `Write` on a good configuration never fails and puts exactly the frames of the chunks on the wire -/
theorem writeChunks_ok {cfg : FrameCfg} {cd : Codec} (g : Good cfg cd) :
    ∀ cs : List Bytes, (∀ c ∈ cs, c.length ≤ cfg.dataMaxSize) → writeChunks cfg cd cs = (wireOf cfg cd cs, true) := by
  intro cs
  induction cs with
  | nil => intro _; rfl
  | cons c cs ih =>
    intro h
    have hc := h c List.mem_cons_self
    have hfit : ¬ (frameOf cfg cd c).length > cfg.frameCapacity := by
      have := g.enc_len c
      have := maxEncodedLen_mono hc
      have := g.fits
      have := g.hs5
      simp only [frameOf, List.length_cons, List.length_append, be32_length]
      omega
    simp only [writeChunks, if_neg hfit, ih (fun x hx => h x (List.mem_cons_of_mem _ hx)), wireOf]

theorem write_ok {cfg : FrameCfg} {cd : Codec} (g : Good cfg cd) (data : Bytes) :
    write cfg cd data = (wireOf cfg cd (chunks cfg.dataMaxSize data), data.length, true) := by
  have h := writeChunks_ok g (chunks cfg.dataMaxSize data) (fun c hc => (chunksAux_bound _ g.max_pos _ _ c hc).2)
  simp only [write, h, ↓reduceIte]

theorem wireOf_append (cfg : FrameCfg) (cd : Codec) (a b : List Bytes) :
    wireOf cfg cd (a ++ b) = wireOf cfg cd a ++ wireOf cfg cd b := by
  induction a with
  | nil => rfl
  | cons x xs ih => simp only [List.cons_append, wireOf, ih, List.append_assoc]

/-- what a sequence of writes puts on the wire -/
def wireOfWrites (cfg : FrameCfg) (cd : Codec) (writes : List Bytes) : Bytes :=
  (writes.map (fun d => (write cfg cd d).1)).flatten

theorem wireOfWrites_eq {cfg : FrameCfg} {cd : Codec} (g : Good cfg cd) (writes : List Bytes) :
    wireOfWrites cfg cd writes = wireOf cfg cd (writes.map (chunks cfg.dataMaxSize)).flatten := by
  induction writes with
  | nil => rfl
  | cons d ds ih =>
    simp only [wireOfWrites, List.map_cons, List.flatten_cons, wireOf_append] at *
    rw [ih, write_ok g]

/-- **stream_identity**: FOR ALL writes (any sizes) and ALL read buffer sizes, what the far side reads is a prefix of the
concatenation of what was written, in order; a read fails only with EOF and only after everything written has been
returned (so: equal once enough is read) -/
theorem stream_identity {cfg : FrameCfg} {cd : Codec} (g : Good cfg cd) (writes : List Bytes) (reads : List Nat) :
    ∃ r out err, readMany cfg cd { recvBuffer := [], wire := wireOfWrites cfg cd writes } reads = (r, out, err)
      ∧ out <+: writes.flatten
      ∧ (err = none ∨ (err = some .eof ∧ out = writes.flatten)) := by
  have hall : ∀ c ∈ (writes.map (chunks cfg.dataMaxSize)).flatten, c.length ≤ cfg.dataMaxSize := by
    intro c hc
    simp only [List.mem_flatten, List.mem_map] at hc
    obtain ⟨l, ⟨d, _, rfl⟩, hcl⟩ := hc
    exact (chunksAux_bound _ g.max_pos _ _ c hcl).2
  have hflat : ((writes.map (chunks cfg.dataMaxSize)).flatten).flatten = writes.flatten := by
    induction writes with
    | nil => rfl
    | cons d ds ih =>
      simp only [List.map_cons, List.flatten_cons, List.flatten_append, chunks_flatten _ g.max_pos]
      rw [ih]
      intro c hc
      exact hall c (by simp only [List.map_cons, List.flatten_cons, List.mem_append]; exact Or.inr hc)
  obtain ⟨buf', cs', out, err, hr, hp, he⟩ := readMany_inv g reads [] _ hall
  rw [wireOfWrites_eq g]
  refine ⟨_, out, err, hr, ?_, ?_⟩
  · refine ⟨pending buf' cs', ?_⟩
    rw [hp, pending, List.nil_append, hflat]
  · rcases he with he | ⟨he, ho⟩
    · exact Or.inl he
    · exact Or.inr ⟨he, by rw [ho, pending, List.nil_append, hflat]⟩

/-- non-vacuity: a 3-byte write read back with 2-byte buffers through the model, identity codec -/
example : (readMany genCfg { enc := id, dec := some, announced := List.length } { recvBuffer := [], wire := wireOfWrites genCfg { enc := id, dec := some, announced := List.length } [[1, 2, 3]] } [2, 2, 2]).2
    = ([1, 2, 3], some .eof) := by decide

/-! ## 2. mux -/

/-- **capacity_guard**: nothing longer than the channel's `RecvMessageCapacity` is ever delivered — a message over
capacity ends in the `capacity` error, never in a truncated or oversized delivery -/
theorem capacity_guard (r r' : Receiver) (p : Packet) (c : Chan) (m : Bytes)
    (h : recvPacket r p = .ok (r', some (c, m))) : m.length ≤ r.cap c := by
  obtain ⟨ch, eof, bytes, over⟩ := p
  cases over with
  | true =>
    by_cases hk : r.known 0 = true
    · simp only [recvPacket, ↓reduceIte, hk, Bool.not_true, Bool.false_eq_true] at h
      split at h <;> cases h
    · simp [recvPacket, hk] at h
  | false =>
    by_cases hk : r.known ch = true
    · by_cases hc : r.cap ch < (r.recving ch).length + bytes.length
      · simp [recvPacket, hk, hc] at h
      · by_cases he : eof = 1
        · simp only [recvPacket, Bool.false_eq_true, ↓reduceIte, hk, Bool.not_true, hc, he, Except.ok.injEq,
            Prod.mk.injEq, Option.some.injEq] at h
          obtain ⟨_, rfl, rfl⟩ := h
          simp only [List.length_append]
          omega
        · simp [recvPacket, hk, hc, he] at h
    · simp [recvPacket, hk] at h

/-- receiving never changes a channel's capacity -/
theorem recvPacket_cap (r r' : Receiver) (p : Packet) (d : Option (Chan × Bytes))
    (h : recvPacket r p = .ok (r', d)) : r'.cap = r.cap := by
  obtain ⟨ch, eof, bytes, over⟩ := p
  cases over with
  | true =>
    by_cases hk : r.known 0 = true
    · simp only [recvPacket, ↓reduceIte, hk, Bool.not_true, Bool.false_eq_true] at h
      split at h <;> cases h
    · simp [recvPacket, hk] at h
  | false =>
    by_cases hk : r.known ch = true
    · by_cases hc : r.cap ch < (r.recving ch).length + bytes.length
      · simp [recvPacket, hk, hc] at h
      · by_cases he : eof = 1
        · simp only [recvPacket, Bool.false_eq_true, ↓reduceIte, hk, Bool.not_true, hc, he, Except.ok.injEq,
            Prod.mk.injEq] at h
          obtain ⟨rfl, _⟩ := h
          rfl
        · simp only [recvPacket, Bool.false_eq_true, ↓reduceIte, hk, Bool.not_true, hc, he, Except.ok.injEq,
            Prod.mk.injEq] at h
          obtain ⟨rfl, _⟩ := h
          rfl
    · simp [recvPacket, hk] at h

/-- … and it holds along every packet sequence -/
theorem capacity_guard_all : ∀ (ps : List Packet) (r r' : Receiver) (ds : List (Chan × Bytes)) (e : Option MErr),
    recvAll r ps = (r', ds, e) → r'.cap = r.cap ∧ ∀ d ∈ ds, d.2.length ≤ r.cap d.1 := by
  intro ps
  induction ps with
  | nil => intro r r' ds e h; simp only [recvAll, Prod.mk.injEq] at h; obtain ⟨rfl, rfl, _⟩ := h; simp
  | cons p ps ih =>
    intro r r' ds e h
    simp only [recvAll] at h
    cases hp : recvPacket r p with
    | error x => simp only [hp, Prod.mk.injEq] at h; obtain ⟨rfl, rfl, _⟩ := h; simp
    | ok v =>
      obtain ⟨r1, d⟩ := v
      simp only [hp] at h
      have hcap1 := recvPacket_cap r r1 p d hp
      cases hrest : recvAll r1 ps with
      | mk r2 rest =>
        obtain ⟨ds2, e2⟩ := rest
        simp only [hrest, Prod.mk.injEq] at h
        obtain ⟨rfl, rfl, _⟩ := h
        obtain ⟨hc2, hd2⟩ := ih r1 r2 ds2 e2 hrest
        refine ⟨by rw [hc2, hcap1], ?_⟩
        intro x hx
        cases d with
        | none => simp only at hx; rw [← hcap1]; exact hd2 x hx
        | some y =>
          simp only [List.mem_cons] at hx
          rcases hx with rfl | hx
          · obtain ⟨c, m⟩ := x; exact capacity_guard r r1 p c m hp
          · rw [← hcap1]; exact hd2 x hx

/-- a fragment that would take the buffer over the capacity is an error (not a delivery, not a silent drop) -/
theorem over_capacity_is_error (r : Receiver) (p : Packet) (hk : r.known p.ch = true) (ho : p.over = false)
    (h : r.cap p.ch < (r.recving p.ch).length + p.bytes.length) : recvPacket r p = .error .capacity := by
  simp [recvPacket, ho, hk, h]

/-- the ordering / wholeness theorems are in `Props.C18Mux`; restated here as the property clause:
FOR EVERY schedule and fragment size, on every channel the delivered messages are a prefix of the sent ones (each whole,
in order), no error occurs, and once the sender has nothing pending everything sent has been delivered -/
theorem mux_order (maxPay : Nat) (known : Chan → Bool) (cap : Chan → Nat) (msgs : Chan → List Bytes)
    (hk : ∀ c, msgs c ≠ [] → known c = true) (hcap : ∀ c m, m ∈ msgs c → m.length ≤ cap c) (sched : List Chan) :
    let S0 : Sender := { maxPay := maxPay, known := known, chans := fun c => { queue := msgs c, sending := [] } }
    let R0 : Receiver := { known := known, cap := cap, recving := fun _ => [] }
    ∃ S' R' ds, (runSched S0 sched).1 = S' ∧ recvAll R0 (runSched S0 sched).2 = (R', ds, none)
      ∧ (∀ c, delsOf ds c <+: msgs c)
      ∧ ((∀ c, (S'.chans c).sending = [] ∧ (S'.chans c).queue = []) → ∀ c, delsOf ds c = msgs c) :=
  Props.C18Mux.mux_order maxPay known cap msgs hk hcap sched

/-! ## 3. handshake -/

/-- tampering with either ephemeral key changes the challenge -/
theorem challenge_binds_remote (e x y : Nat) (h : mkChal e x = mkChal e y) : x = y := by
  unfold mkChal at h
  by_cases h1 : e < x <;> by_cases h2 : e < y <;> simp only [h1, h2, ↓reduceIte, Chal.mk.injEq] at h <;> omega

theorem challenge_binds_local (x y e : Nat) (h : mkChal x e = mkChal y e) : x = y := by
  unfold mkChal at h
  by_cases h1 : x < e <;> by_cases h2 : y < e <;> simp only [h1, h2, ↓reduceIte, Chal.mk.injEq] at h <;> omega

/-- both ends of an untampered exchange compute the same challenge -/
theorem challenge_symmetric (a b : Nat) : mkChal a b = mkChal b a := by
  unfold mkChal
  by_cases h1 : a < b <;> by_cases h2 : b < a <;> simp only [h1, h2, ↓reduceIte, Chal.mk.injEq] <;> omega

/-- **auth (local form)**: a connection is established with presented key `pk` only if the auth message carried `pk`, `pk`
is not our own key, and the signature is BY `pk` ON THIS SESSION'S CHALLENGE (own ephemeral key + the one received) -/
theorem auth_local (myKey : Key) (myEph : Eph) (remEph : Option Eph) (auth : Option AuthMsg) (pk : Key)
    (h : establish myKey myEph remEph auth = some pk) :
    pk ≠ myKey ∧ ∃ e, remEph = some e ∧ auth = some ⟨some pk, .good ⟨pk, mkChal myEph e⟩⟩ := by
  unfold establish respond at h
  cases remEph with
  | none => simp at h
  | some e =>
    simp only at h
    unfold finish at h
    split at h
    · cases h
    · cases h
    · rename_i k s
      split at h
      · cases h
      · rename_i hself
        split at h
        · rename_i hv
          simp only [Option.some.injEq] at h
          subst h
          refine ⟨by simpa using hself, e, rfl, ?_⟩
          unfold verify at hv
          split at hv
          · rename_i sg
            simp only [Bool.and_eq_true, beq_iff_eq] at hv
            obtain ⟨sk, sc⟩ := sg
            simp only at hv
            obtain ⟨rfl, rfl⟩ := hv
            rfl
          · cases hv
        · cases h

/-- an honest session as the environment sees it: its key, its ephemeral key, the ephemeral key it received -/
structure Session where
  key : Key
  eph : Eph
  rem : Eph
deriving DecidableEq

/-- the one signature an honest session produces -/
def Session.sig (s : Session) : Sig := ⟨s.key, mkChal s.eph s.rem⟩

/-- UNFORGEABILITY (hypothesis, not axiom): every valid signature term an attacker can deliver was either produced by an
honest session or is under a key the attacker owns -/
def Unforgeable (sessions : List Session) (advKeys : List Key) (delivered : Sig) : Prop :=
  (∃ q ∈ sessions, q.sig = delivered) ∨ delivered.signer ∈ advKeys

/-- **auth**: if honest session `P` ends established with key `pk` that the attacker does not own, then some honest
session holding `pk` signed exactly `P`'s challenge, i.e. ran with the same pair of ephemeral keys — the key holder took
part in *this* exchange (no replay from another session, no substituted ephemeral key) -/
theorem auth (sessions : List Session) (advKeys : List Key) (P : Session) (authMsg : Option AuthMsg) (pk : Key)
    (hest : establish P.key P.eph (some P.rem) authMsg = some pk)
    (hunf : ∀ s, authMsg = some ⟨some pk, .good s⟩ → Unforgeable sessions advKeys s)
    (hadv : pk ∉ advKeys) :
    ∃ Q ∈ sessions, Q.key = pk ∧ mkChal Q.eph Q.rem = mkChal P.eph P.rem := by
  obtain ⟨_, e, he, ha⟩ := auth_local _ _ _ _ _ hest
  simp only [Option.some.injEq] at he
  subst he
  rcases hunf _ ha with ⟨q, hq, hs⟩ | hs
  · refine ⟨q, hq, ?_, ?_⟩
    · have := congrArg Sig.signer hs; exact this
    · have := congrArg Sig.chal hs; exact this
  · exact absurd hs hadv

/-- non-vacuity of `auth`: the honest two-party run -/
example : establish 1 11 (some 12) (some ⟨some 2, .good (Session.sig ⟨2, 12, 11⟩)⟩) = some 2 := by decide

/-- reflection is rejected: our own key with our own (valid) signature on the shared challenge does not establish -/
example : establish 1 11 (some 11) (some ⟨some 1, .good (Session.sig ⟨1, 11, 11⟩)⟩) = none := by decide

/-- … also when only the auth frames are swapped by a man in the middle (ephemeral keys untouched) -/
example : establish 1 11 (some 12) (some ⟨some 1, .good (Session.sig ⟨1, 11, 12⟩)⟩) = none := by decide

/-- FULL STATEMENT of the authentication clause: the key holder that signed is the PEER — an honest session other than
`P` itself (or the attacker with a key of its own). -/
def C18_auth_statement : Prop :=
  ∀ (sessions : List Session) (advKeys : List Key) (P : Session) (authMsg : Option AuthMsg) (pk : Key),
    P ∈ sessions →
    establish P.key P.eph (some P.rem) authMsg = some pk →
    (∀ s, authMsg = some ⟨some pk, .good s⟩ → Unforgeable sessions advKeys s) →
    pk ∈ advKeys ∨ ∃ Q ∈ sessions, Q ≠ P ∧ Q.key = pk ∧ mkChal Q.eph Q.rem = mkChal P.eph P.rem

/-- the clause holds of the current code (own-key test of 57b5264): the signer has key `pk ≠ P.key`, hence is not `P` -/
theorem C18_auth_holds : C18_auth_statement := by
  intro sessions advKeys P authMsg pk _ hest hunf
  by_cases hadv : pk ∈ advKeys
  · exact Or.inl hadv
  · obtain ⟨Q, hQ, hk, hc⟩ := auth sessions advKeys P authMsg pk hest hunf hadv
    have hself := (auth_local _ _ _ _ _ hest).1
    exact Or.inr ⟨Q, hQ, fun h => hself (by rw [← hk, h]), hk, hc⟩

/-! ## 4. identity one layer up (libs/p2p/switch.go addPeer) -/

/-- the guard added by 7463840, as the extractor prints it -/
def identityGuard : String :=
  "sc, ok := pc.conn.(*conn.SecretConnection); ok && !sc.RemotePubKey().Equals(peerNodeInfo.PubKey)"

/-- T2: the authenticated key IS consulted outside conn/, by a guard of `addPeer` that compares it with the claimed
`NodeInfo.PubKey`, and that guard comes before the duplicate-ID test and before the peer is put into the peer set -/
theorem identity_guard_present :
    Gen.ConnFacts.remotePubKeyUses ≠ [] ∧ identityGuard ∈ Gen.ConnFacts.addPeerGuards ∧
    Gen.ConnFacts.addPeerGuards.idxOf identityGuard < Gen.ConnFacts.addPeerGuards.idxOf "sw.peers.HasID(peerNodeInfo.ID())" ∧
    Gen.ConnFacts.addPeerGuards.idxOf identityGuard < Gen.ConnFacts.addPeerGuards.idxOf "err := sw.peers.Add(peer); err != nil" ∧
    "err := sw.peers.Add(peer); err != nil" ∈ Gen.ConnFacts.addPeerGuards := by decide

/-- T2: the peer-supplied `CachePeerID` is cleared before the first test that calls `ID()` (blacklist), hence before the
duplicate test too: `NodeInfo.ID()` returns a non-empty cache unchecked, so without this the peer picks the ID those tests see -/
theorem cache_cleared_before_id_tests :
    "peerNodeInfo.CachePeerID = \"\"" ∈ Gen.ConnFacts.addPeerGuards ∧
    Gen.ConnFacts.addPeerGuards.idxOf "peerNodeInfo.CachePeerID = \"\"" < Gen.ConnFacts.addPeerGuards.idxOf "sw.blackListHasID(peerNodeInfo.ID())" ∧
    Gen.ConnFacts.addPeerGuards.idxOf "sw.blackListHasID(peerNodeInfo.ID())" < Gen.ConnFacts.addPeerGuards.idxOf "sw.peers.HasID(peerNodeInfo.ID())" ∧
    "sw.blackListHasID(peerNodeInfo.ID())" ∈ Gen.ConnFacts.addPeerGuards := by decide

/-- what a successful admission looks like: the remote is not ourselves, the claimed key is the authenticated key, and
exactly one peer is appended, under the ID of the authenticated key, which was free -/
theorem admit_ok {auth : Key} {ni : Option NodeInfoM} {s s' : SwitchState} (h : admitPeer auth ni s = .ok s') :
    auth ≠ s.self ∧ (∃ n, ni = some n ∧ n.pubKey = auth) ∧
    s' = { s with peers := s.peers ++ [⟨idOf auth, auth⟩] } ∧
    (s.peers.any (fun p => p.id == idOf auth)) = false ∧ s.blacklist.contains (idOf auth) = false := by
  unfold admitPeer at h
  split at h
  next => cases h
  next hself =>
    split at h
    next => cases h
    next n =>
      split at h
      next => cases h
      next hblk =>
        split at h
        next => cases h
        next =>
          split at h
          next => cases h
          next hkey =>
            split at h
            next => cases h
            next =>
              split at h
              next => cases h
              next hdup =>
                split at h
                next => cases h
                next =>
                  have hk : n.pubKey = auth := by simpa using hkey
                  simp only [Except.ok.injEq] at h
                  subst hk
                  refine ⟨by simpa using hself, ⟨n, rfl, rfl⟩, h.symm, by simpa using hdup, by simpa using hblk⟩

/-- every peer carries the ID of the key its connection authenticated, and is not ourselves -/
def Wf (s : SwitchState) : Prop := ∀ p ∈ s.peers, p.id = idOf p.authKey ∧ p.authKey ≠ s.self

theorem step_wf (s : SwitchState) (op : SwOp) (h : Wf s) : Wf (s.step op) ∧ (s.step op).self = s.self := by
  cases op with
  | conn auth ni =>
    simp only [SwitchState.step]
    cases ha : admitPeer auth ni s with
    | error e => exact ⟨h, rfl⟩
    | ok s' =>
      obtain ⟨hself, _, rfl, _, _⟩ := admit_ok ha
      refine ⟨?_, rfl⟩
      intro p hp
      simp only [List.mem_append, List.mem_singleton] at hp
      rcases hp with hp | rfl
      · exact h p hp
      · exact ⟨rfl, hself⟩
  | black k => exact ⟨h, rfl⟩
  | drop a =>
    refine ⟨?_, rfl⟩
    intro p hp
    simp only [SwitchState.step, List.mem_filter] at hp
    exact h p hp.1

theorem run_wf (ops : List SwOp) : ∀ s : SwitchState, Wf s → Wf (s.run ops) ∧ (s.run ops).self = s.self := by
  induction ops with
  | nil => intro s h; exact ⟨h, rfl⟩
  | cons op ops ih =>
    intro s h
    obtain ⟨h1, h2⟩ := step_wf s op h
    obtain ⟨h3, h4⟩ := ih (s.step op) h1
    exact ⟨h3, by rw [← h2]; exact h4⟩

/-- FULL STATEMENT of the identity clause: FOR EVERY sequence of connection attempts (any authenticated keys, any
self-reported NodeInfo, blacklisting, disconnects), every peer in the switch's peer set is registered under the ID of the
key its connection authenticated. -/
def C18_identity_statement : Prop :=
  ∀ (self : Key) (ops : List SwOp), ∀ p ∈ (SwitchState.run { self := self } ops).peers, p.id = idOf p.authKey

/-- holds of the current code (guard of 7463840) -/
theorem C18_identity_holds : C18_identity_statement := by
  intro self ops p hp
  exact ((run_wf ops { self := self } (by intro q hq; simp at hq)).1 p hp).1

/-- **no_id_squatting** (one step): whatever NodeInfo it sends, the holder of `auth` can only ever occupy the ID of `auth` -/
theorem no_id_squatting {auth : Key} {ni : Option NodeInfoM} {s s' : SwitchState} (h : admitPeer auth ni s = .ok s') :
    ∀ p ∈ s'.peers, p ∉ s.peers → p.id = idOf auth ∧ p.authKey = auth := by
  obtain ⟨_, _, rfl, _, _⟩ := admit_ok h
  intro p hp hnot
  simp only [List.mem_append, List.mem_singleton] at hp
  rcases hp with hp | rfl
  · exact absurd hp hnot
  · exact ⟨rfl, rfl⟩

/-- an operation that does not involve key `v`: no connection authenticated as `v`, no blacklisting of `v` -/
def avoids (v : Key) : SwOp → Prop
  | .conn a _ => a ≠ v
  | .black k => k ≠ v
  | .drop _ => True

/-- **no_id_squatting** (denial-of-service form): after ANY sequence of attempts by other key holders — whatever identities
they claimed — the honest holder of `v` is admitted -/
theorem honest_not_blocked (self v : Key) (hv : v ≠ self) (ops : List SwOp) (hops : ∀ op ∈ ops, avoids v op) :
    ∃ s', admitPeer v (some { pubKey := v }) (SwitchState.run { self := self } ops) = .ok s' := by
  have inv : ∀ (ops : List SwOp) (s : SwitchState), (∀ op ∈ ops, avoids v op) →
      (Wf s ∧ (∀ p ∈ s.peers, p.authKey ≠ v) ∧ idOf v ∉ s.blacklist ∧ s.self = self) →
      (Wf (s.run ops) ∧ (∀ p ∈ (s.run ops).peers, p.authKey ≠ v) ∧ idOf v ∉ (s.run ops).blacklist ∧ (s.run ops).self = self) := by
    intro ops
    induction ops with
    | nil => intro s _ h; exact h
    | cons op ops ih =>
      intro s hav h
      apply ih (s.step op) (fun o ho => hav o (List.mem_cons_of_mem _ ho))
      obtain ⟨hw, hp, hb, hs⟩ := h
      have hop := hav op List.mem_cons_self
      obtain ⟨hw', hs'⟩ := step_wf s op hw
      refine ⟨hw', ?_, ?_, by rw [hs', hs]⟩
      · cases op with
        | conn a ni =>
          simp only [SwitchState.step]
          cases ha : admitPeer a ni s with
          | error e => exact hp
          | ok s' =>
            obtain ⟨_, _, rfl, _, _⟩ := admit_ok ha
            intro p hpm
            simp only [List.mem_append, List.mem_singleton] at hpm
            rcases hpm with hpm | rfl
            · exact hp p hpm
            · exact hop
        | black k => exact hp
        | drop a =>
          intro p hpm
          simp only [SwitchState.step, List.mem_filter] at hpm
          exact hp p hpm.1
      · cases op with
        | conn a ni =>
          simp only [SwitchState.step]
          cases ha : admitPeer a ni s with
          | error e => exact hb
          | ok s' => obtain ⟨_, _, rfl, _, _⟩ := admit_ok ha; exact hb
        | black k =>
          simp only [SwitchState.step, List.mem_cons, not_or]
          exact ⟨fun h => hop (by simpa [idOf] using h.symm), hb⟩
        | drop a => exact hb
  obtain ⟨hw, hp, hb, hs⟩ := inv ops { self := self } hops
    ⟨by intro q hq; simp at hq, by intro q hq; simp at hq, by simp, rfl⟩
  have hany : ((SwitchState.run { self := self } ops).peers.any (fun p => p.id == idOf v)) = false := by
    rw [List.any_eq_false]
    intro p hpm
    have h1 := (hw p hpm).1
    have h2 := hp p hpm
    intro h
    rw [h1] at h
    exact h2 (beq_iff_eq.mp h)
  have hbl : (SwitchState.run { self := self } ops).blacklist.contains (idOf v) = false := by
    simpa using hb
  refine ⟨{ (SwitchState.run { self := self } ops) with
            peers := (SwitchState.run { self := self } ops).peers ++ [⟨idOf v, v⟩] }, ?_⟩
  simp only [admitPeer, hs, hbl, hany, bne_self_eq_false, Bool.not_true,
    Bool.false_eq_true, ↓reduceIte, beq_iff_eq, hv]

/-- non-vacuity and the scenarios of the harness corpus, through the model -/
example : admitPeer 2 (some { pubKey := 3 }) { self := 0 } = .error .keyMismatch := rfl
example : (SwitchState.run { self := 0 } [.conn 2 (some { pubKey := 3 }), .conn 1 (some { pubKey := 3 }), .conn 3 (some { pubKey := 3 })]).peers
    = [⟨3, 3⟩] := by decide
example : admitPeer 1 (some { pubKey := 0 }) { self := 0 } = .error .keyMismatch := rfl

/-- FULL STATEMENT (blacklist): in EVERY state, whatever NodeInfo it sends (any `CachePeerID`), a key holder whose node ID
the switch blacklisted is not admitted. -/
def C18_blacklist_statement : Prop :=
  ∀ (auth : Key) (ni : Option NodeInfoM) (s s' : SwitchState), idOf auth ∈ s.blacklist → admitPeer auth ni s ≠ .ok s'

/-- holds of the current code (faaf6b9: the peer-supplied cache is cleared before the blacklist test) -/
theorem C18_blacklist_holds : C18_blacklist_statement := by
  intro auth ni s s' hb h
  obtain ⟨_, _, _, _, hnb⟩ := admit_ok h
  have : s.blacklist.contains (idOf auth) = true := by simpa using hb
  rw [this] at hnb
  cases hnb

/-- a forged cache ID no longer helps: the corpus witness through the model -/
example : admitPeer 4 (some { pubKey := 4, cacheId := some 5 }) { self := 0, blacklist := [4] } = .error .blacklisted := rfl

theorem step_blacklist_mono (s : SwitchState) (op : SwOp) (i : NodeId) (h : i ∈ s.blacklist) : i ∈ (s.step op).blacklist := by
  cases op with
  | conn a ni =>
    simp only [SwitchState.step]
    cases ha : admitPeer a ni s with
    | error e => exact h
    | ok s' => obtain ⟨_, _, rfl, _, _⟩ := admit_ok ha; exact h
  | black k => exact List.mem_cons_of_mem _ h
  | drop a => exact h

/-- over every op sequence: once the switch has blacklisted `k` (the model's blacklist never shrinks; the 600 s expiry timer
of `MarkBadNode` is not modelled), no later connection attempt — whatever it claims — brings a connection authenticated as `k`
into the peer set: every such peer was already connected before -/
theorem blacklisted_never_joins (k : Key) (ops : List SwOp) :
    ∀ s : SwitchState, idOf k ∈ s.blacklist → ∀ p ∈ (s.run ops).peers, p.authKey = k → p ∈ s.peers := by
  induction ops with
  | nil => intro s _ p hp _; exact hp
  | cons op ops ih =>
    intro s hb p hp hk
    have hp1 := ih (s.step op) (step_blacklist_mono s op _ hb) p hp hk
    cases op with
    | conn a ni =>
      simp only [SwitchState.step] at hp1
      cases ha : admitPeer a ni s with
      | error e => simpa [ha] using hp1
      | ok s' =>
        rw [ha] at hp1
        obtain ⟨_, _, rfl, _, hnb⟩ := admit_ok ha
        simp only [List.mem_append, List.mem_singleton] at hp1
        rcases hp1 with hp1 | rfl
        · exact hp1
        · simp only at hk
          subst hk
          exact absurd ha (C18_blacklist_holds _ ni s _ hb)
    | black j => exact hp1
    | drop a =>
      simp only [SwitchState.step, List.mem_filter] at hp1
      exact hp1.1

end Props.C18
