/-
C12 — Block identity commits to its content; part sets reassemble only the original.

Property theorems about `Model.PartSet` (types/part_set.go as it is: index check of fix 22a07c6; the header total is bounded by the callers, fix 1b2bd5e),
`Model.BlockId` and the facts regenerated from the Go source (`Gen.BlockId`).
The Merkle-tree theorems (`verify_sound`, `verify_complete`, `root_inj_same_length`) are in `C12Merkle`.
Cryptographic laws are hypotheses: `Inj2 H2` (two-hash) and `Function.Injective LH` (part hash).
-/
import LinkVerif.Model.PartSet
import LinkVerif.Model.BlockId
import LinkVerif.Gen.BlockId
import LinkVerif.Props.C12Merkle

namespace Props.C12
open Model.Merkle Model.PartSet

/-! ## 1. Part admission never panics (fix 22a07c6); a part-set header from a peer is bounded at the two
entry points before it sizes an allocation (fix 1b2bd5e) -/

/-- FULL STATEMENT: on a well-formed part set (`len(parts) = total`) `AddPart` never panics, whatever
part a peer sends (any index incl. negative, any bytes, any proof). -/
def C12_addpart_total_statement : Prop :=
  ∀ (D : Type) [DecidableEq D] (H2 : D → D → D) (LH : Bytes → D) (ps : PS D) (p : Part D),
    (ps.parts.length : Int) = ps.total → ∃ r, addPart H2 LH ps p = .ok r

/-- holds for the repaired `AddPart` (`part.Index < 0 || part.Index >= ps.total`); before the repair
`Index = -1` was a counterexample (`ps.parts[-1]`).  The guard itself is pinned to the source by
`addPart_guards_vetted`. -/
theorem C12_addpart_total : C12_addpart_total_statement := by
  intro D _ H2 LH ps p hwf
  unfold addPart
  split
  · exact ⟨_, rfl⟩
  · rename_i hlt
    have hi : p.index.toNat < ps.parts.length := by omega
    rw [List.getElem?_eq_getElem hi]
    cases ps.parts[p.index.toNat] with
    | some b => exact ⟨_, rfl⟩
    | none =>
      simp only
      split <;> exact ⟨_, rfl⟩

/-- a negative index is answered with `ErrPartSetUnexpectedIndex` and changes nothing -/
theorem addPart_negative_index {D : Type} [DecidableEq D] (H2 : D → D → D) (LH : Bytes → D) (ps : PS D) (p : Part D)
    (h : p.index < 0) : addPart H2 LH ps p = .ok (ps, false, .unexpectedIndex) := by
  unfold addPart
  rw [if_pos (Or.inl h)]

/-- the guard fix 1b2bd5e put at BOTH entry points that take a part-set header from a peer
(`ConsensusState.defaultSetProposal`, before the signature check, and `ConsensusReactor.Receive`, before
`PeerState.SetHasProposal`): `Total <= 0 || Total > maxBlockParts()` rejects the proposal -/
def totalGuardOK (total maxParts : Int) : Bool := !(decide (total ≤ 0) || decide (total > maxParts))

/-- `ConsensusState.maxBlockParts`: `BlockSize.MaxBytes / BlockPartSizeBytes + 1` (0 for a non-positive part size) -/
def maxBlockParts (maxBytes partSize : Int) : Int := if partSize ≤ 0 then 0 else maxBytes / partSize + 1

/-- `types.MaxBlockSizeBytes` (ConsensusParams.Validate rejects a larger `BlockSize.MaxBytes`) -/
def maxBlockSizeBytes : Int := 104857600

/-- FULL STATEMENT: a part-set header that passed the entry-point guard never makes `NewPartSetFromHeader`
panic (for validated consensus parameters: `MaxBytes ≤ 100 MB`). -/
def C12_header_total_statement : Prop :=
  ∀ (D : Type) (total maxBytes partSize : Int) (hash : D), maxBytes ≤ maxBlockSizeBytes →
    totalGuardOK total (maxBlockParts maxBytes partSize) = true →
    newFromHeader total hash = .ok (emptyPS total hash)

theorem C12_header_total : C12_header_total_statement := by
  intro D total maxBytes partSize hash hmax hg
  unfold totalGuardOK maxBlockParts at hg
  simp only [Bool.not_eq_true', Bool.or_eq_false_iff, decide_eq_false_iff_not] at hg
  unfold newFromHeader maxSliceLen
  unfold maxBlockSizeBytes at hmax
  split at hg
  · omega
  · rename_i hp
    have hdiv : maxBytes / partSize ≤ maxBytes ∨ maxBytes < 0 := by
      by_cases h0 : 0 ≤ maxBytes
      · left
        exact Int.ediv_le_self _ h0
      · right; omega
    have hle : maxBytes / partSize + 1 ≤ 104857601 := by
      rcases hdiv with h | h
      · omega
      · have : maxBytes / partSize ≤ 0 := by
          have := Int.ediv_neg_of_neg_of_pos h (by omega : 0 < partSize)
          omega
        omega
    rw [if_neg (by omega)]

/-- the bare function keeps its precondition (function-level partiality, NOT a finding since 1b2bd5e:
no caller passes a peer-supplied total that did not go through the guard): outside `0 ≤ Total ≤ 2^45`
`make([]*Part, Total)` panics -/
theorem newFromHeader_precondition {D : Type} (total : Int) (hash : D) :
    (0 ≤ total ∧ total ≤ maxSliceLen → newFromHeader total hash = .ok (emptyPS total hash)) ∧
    (total < 0 ∨ total > maxSliceLen → newFromHeader total hash = .error .makeSlice) := by
  unfold newFromHeader
  constructor
  · intro h; rw [if_neg (by omega)]
  · intro h; rw [if_pos h]

/-- T2: in the CURRENT source both entry points compare `BlockPartsHeader.Total` with 0 and with the bound
before the sized operation, and the bound is `MaxBytes / BlockPartSizeBytes + 1`.  Reverting fix 1b2bd5e
(or weakening either comparison) breaks this obligation. -/
theorem parts_total_guards_vetted :
    Gen.BlockId.partsTotalGuards =
      [("defaultSetProposal", true, ["proposal.BlockPartsHeader.Total <= 0", "proposal.BlockPartsHeader.Total > cs.maxBlockParts()"]),
       ("ConsensusReactor.Receive", true, ["msg.Proposal.BlockPartsHeader.Total <= 0", "msg.Proposal.BlockPartsHeader.Total > maxParts"])] ∧
    Gen.BlockId.maxBlockPartsReturns =
      ["return 0", "return params.BlockSize.MaxBytes/params.BlockGossip.BlockPartSizeBytes + 1"] := by decide

/-- non-vacuity: the default parameters (21 MB blocks, 32 kB parts) admit totals 1..673 and nothing else -/
example : totalGuardOK 673 (maxBlockParts 22020096 32768) = true ∧ totalGuardOK 674 (maxBlockParts 22020096 32768) = false ∧
    totalGuardOK 0 (maxBlockParts 22020096 32768) = false ∧ totalGuardOK (-1) (maxBlockParts 22020096 32768) = false := by decide

/-! ## 2. Reassembly -/

/-- the invariant of a receiving part set for the proposer's chunk list `orig` -/
structure Inv {D : Type} [Inhabited D] (H2 : D → D → D) (LH : Bytes → D) (orig : List Bytes) (ps : PS D) : Prop where
  total : ps.total = orig.length
  hash : ps.hash = root H2 (orig.map LH)
  len : ps.parts.length = orig.length
  stored : ∀ (i : Nat) (b : Bytes), ps.parts[i]? = some (some b) → orig[i]? = some b
  count : ps.count = (ps.parts.countP Option.isSome : Nat)

theorem inv_empty {D : Type} [Inhabited D] (H2 : D → D → D) (LH : Bytes → D) (orig : List Bytes) :
    Inv H2 LH orig (emptyPS orig.length (root H2 (orig.map LH))) := by
  refine ⟨rfl, rfl, by simp [emptyPS], ?_, ?_⟩
  · intro i b h
    simp only [emptyPS, Int.toNat_natCast, List.getElem?_replicate] at h
    split at h <;> simp at h
  · simp only [emptyPS, Int.toNat_natCast]
    rw [List.countP_replicate]
    simp

theorem countP_set_some {α : Type} (l : List (Option α)) (i : Nat) (b : α) (h : l[i]? = some none) :
    (l.set i (some b)).countP Option.isSome = l.countP Option.isSome + 1 := by
  induction l generalizing i with
  | nil => simp at h
  | cons x xs ih =>
    cases i with
    | zero =>
      simp only [List.getElem?_cons_zero, Option.some.injEq] at h
      subst h
      simp
    | succ j =>
      simp only [List.getElem?_cons_succ] at h
      simp only [List.set_cons_succ, List.countP_cons, ih j h]
      omega

/-- one step: no part makes `AddPart` panic, the invariant is kept, and a part is ADDED only if its
index is in range and its bytes are the original bytes of that index -/
theorem addPart_step {D : Type} [Inhabited D] [DecidableEq D] (H2 : D → D → D) (LH : Bytes → D)
    (hinj : Inj2 H2) (hleaf : Function.Injective LH) (orig : List Bytes) (ps : PS D) (p : Part D)
    (hinv : Inv H2 LH orig ps) :
    ∃ ps' added e, addPart H2 LH ps p = .ok (ps', added, e) ∧ Inv H2 LH orig ps' ∧
      (added = true → 0 ≤ p.index ∧ orig[p.index.toNat]? = some p.bytes) ∧ (added = false → ps' = ps) := by
  unfold addPart
  split
  · exact ⟨ps, false, _, rfl, hinv, by simp, by simp⟩
  · rename_i hlt
    have hi : p.index.toNat < ps.parts.length := by have := hinv.total; have := hinv.len; omega
    rw [List.getElem?_eq_getElem hi]
    cases hslot : ps.parts[p.index.toNat] with
    | some b => exact ⟨ps, false, _, rfl, hinv, by simp, by simp⟩
    | none =>
      simp only
      split
      · rename_i hv
        rw [hinv.total, hinv.hash] at hv
        have hlen : ((orig.map LH).length : Int) = (orig.length : Int) := by simp
        rw [← hlen] at hv
        have hs := (verify_sound H2 hinj (orig.map LH) p.index (LH p.bytes) p.aunts hv).2
        rw [List.getElem?_map] at hs
        have horig : orig[p.index.toNat]? = some p.bytes := by
          cases ho : orig[p.index.toNat]? with
          | none => rw [ho] at hs; cases hs
          | some b' =>
            rw [ho] at hs
            simp only [Option.map_some, Option.some.injEq] at hs
            rw [hleaf hs]
        have hslot' : ps.parts[p.index.toNat]? = some none := by rw [List.getElem?_eq_getElem hi, hslot]
        refine ⟨_, true, _, rfl, ⟨hinv.total, hinv.hash, by simp [hinv.len], ?_, ?_⟩, fun _ => ⟨by omega, horig⟩, by simp⟩
        · intro i b h
          simp only [List.getElem?_set] at h
          split at h
          · rename_i heq
            simp only [Option.some.injEq] at h
            rw [← heq, ← h]; exact horig
          · exact hinv.stored i b h
        · simp only
          rw [countP_set_some _ _ _ hslot', hinv.count]
          omega
      · exact ⟨ps, false, _, rfl, hinv, by simp, by simp⟩

/-- any arrival sequence of arbitrary parts (duplicates, forgeries, shifted and negative indices,
truncated bytes, garbage proofs): no panic, and the invariant holds at the end -/
theorem addAll_inv {D : Type} [Inhabited D] [DecidableEq D] (H2 : D → D → D) (LH : Bytes → D)
    (hinj : Inj2 H2) (hleaf : Function.Injective LH) (orig : List Bytes) (seq : List (Part D)) :
    ∀ (ps : PS D), Inv H2 LH orig ps →
      ∃ ps', addAll H2 LH ps seq = .ok ps' ∧ Inv H2 LH orig ps' := by
  induction seq with
  | nil => intro ps hinv; exact ⟨ps, rfl, hinv⟩
  | cons p rest ih =>
    intro ps hinv
    obtain ⟨ps1, a, e, h1, hinv1, _, _⟩ := addPart_step H2 LH hinj hleaf orig ps p hinv
    simp only [addAll, h1]
    exact ih ps1 hinv1

theorem allBytes_map_some (bs : List Bytes) : allBytes (bs.map some) = some bs := by
  induction bs with
  | nil => rfl
  | cons b rest ih => simp [allBytes, ih]

/-- a complete set holds exactly the original chunks -/
theorem complete_parts {D : Type} [Inhabited D] (H2 : D → D → D) (LH : Bytes → D) (orig : List Bytes) (ps : PS D)
    (hinv : Inv H2 LH orig ps) (hc : isComplete ps = true) : ps.parts = orig.map some := by
  have hcount : ps.parts.countP Option.isSome = ps.parts.length := by
    have := hinv.count; have := hinv.total; have := hinv.len
    simp only [isComplete, decide_eq_true_eq] at hc
    omega
  have hall := List.countP_eq_length.mp hcount
  apply List.ext_getElem?
  intro i
  rw [List.getElem?_map]
  by_cases hi : i < ps.parts.length
  · have hx := hall ps.parts[i] (List.getElem_mem hi)
    cases hslot : ps.parts[i] with
    | none => rw [hslot] at hx; cases hx
    | some b =>
      have h1 : ps.parts[i]? = some (some b) := by rw [List.getElem?_eq_getElem hi, hslot]
      rw [h1, hinv.stored i b h1]
      rfl
  · have h1 : ps.parts[i]? = none := List.getElem?_eq_none (by omega)
    have h2 : orig[i]? = none := List.getElem?_eq_none (by have := hinv.len; omega)
    rw [h1, h2]
    rfl

/-- **reassembly**: start from the signed header of the proposer's chunk list `orig`; feed ANY sequence
of parts.  Nothing panics; every stored part is the original one; and if the
set becomes complete the reader yields the proposer's bytes exactly — otherwise it yields nothing. -/
theorem reassembly {D : Type} [Inhabited D] [DecidableEq D] (H2 : D → D → D) (LH : Bytes → D)
    (hinj : Inj2 H2) (hleaf : Function.Injective LH) (orig : List Bytes) (hne : orig ≠ [])
    (seq : List (Part D)) :
    ∃ ps, addAll H2 LH (emptyPS orig.length (root H2 (orig.map LH))) seq = .ok ps ∧
      (∀ (i : Nat) (b : Bytes), ps.parts[i]? = some (some b) → orig[i]? = some b) ∧
      (isComplete ps = true → assemble ps = .ok orig.flatten) ∧
      (isComplete ps = false → assemble ps = .error .sanity) := by
  obtain ⟨ps, hrun, hinv⟩ := addAll_inv H2 LH hinj hleaf orig seq _ (inv_empty H2 LH orig)
  refine ⟨ps, hrun, hinv.stored, ?_, ?_⟩
  · intro hc
    have hp := complete_parts H2 LH orig ps hinv hc
    unfold assemble
    rw [if_neg (by simp [hc]), hp, if_neg (by simpa using hne), allBytes_map_some]
  · intro hc
    unfold assemble
    rw [if_pos (by simp [hc])]

/-- a forged part (bytes different from the original chunk of its index) is never stored -/
theorem forgery_rejected {D : Type} [Inhabited D] [DecidableEq D] (H2 : D → D → D) (LH : Bytes → D)
    (hinj : Inj2 H2) (hleaf : Function.Injective LH) (orig : List Bytes) (ps : PS D) (p : Part D)
    (hinv : Inv H2 LH orig ps) (hforged : orig[p.index.toNat]? ≠ some p.bytes) :
    ∃ e, addPart H2 LH ps p = .ok (ps, false, e) := by
  obtain ⟨ps', added, e, h1, _, hadd, hsame⟩ := addPart_step H2 LH hinj hleaf orig ps p hinv
  cases added with
  | true => exact absurd (hadd rfl).2 hforged
  | false => rw [hsame rfl] at h1; exact ⟨e, h1⟩

/-- liveness side: whatever was received before, the honest part of a missing index is admitted -/
theorem honest_accepted {D : Type} [Inhabited D] [DecidableEq D] (H2 : D → D → D) (LH : Bytes → D)
    (orig : List Bytes) (ps : PS D) (hinv : Inv H2 LH orig ps) (i : Nat) (hi : i < orig.length)
    (hmiss : ps.parts[i]? = some none) (pr : List D) (hpr : (proofs H2 (orig.map LH))[i]? = some pr) :
    addPart H2 LH ps { index := (i : Int), bytes := orig[i], aunts := pr } =
      .ok ({ ps with parts := ps.parts.set i (some orig[i]), count := ps.count + 1 }, true, .none) := by
  unfold addPart
  simp only
  rw [if_neg (by have := hinv.total; omega)]
  simp only [Int.toNat_natCast, hmiss]
  have hi' : i < (orig.map LH).length := by simpa using hi
  have hv := verify_complete H2 (orig.map LH) i hi' pr hpr
  simp only [List.length_map, List.getElem_map] at hv
  rw [hinv.total, hinv.hash, hv]
  simp

/-! ## 3. The signed part-set header commits to the serialised block -/

theorem chunks_flatten (sz : Nat) (hsz : 0 < sz) : ∀ (n : Nat) (data : Bytes), data.length = n → (chunks sz data).flatten = data := by
  intro n
  induction n using Nat.strongRecOn with
  | _ n ih =>
    intro data hn
    rw [chunks]
    split
    · rename_i h
      rcases h with h | h
      · omega
      · simp [h]
    · rename_i h
      have hne : data.length ≠ 0 := fun h0 => h (Or.inr (List.length_eq_zero_iff.mp h0))
      rw [List.flatten_cons, ih (data.drop sz).length (by rw [List.length_drop]; omega) _ rfl, List.take_append_drop]

theorem map_inj_of_injective {α β : Type} (f : α → β) (hf : Function.Injective f) :
    ∀ (xs ys : List α), xs.map f = ys.map f → xs = ys := by
  intro xs
  induction xs with
  | nil => intro ys h; cases ys with
    | nil => rfl
    | cons y ys => simp at h
  | cons x xs ih => intro ys h; cases ys with
    | nil => simp at h
    | cons y ys =>
      simp only [List.map_cons, List.cons.injEq] at h
      rw [hf h.1, ih ys h.2]

theorem newFromData_ok {D : Type} [Inhabited D] (H2 : D → D → D) (LH : Bytes → D) (d : Bytes) (sz : Int) (ps : PS D)
    (h : newFromData H2 LH d sz = .ok ps) :
    0 < sz ∧ ps.total = (chunks sz.toNat d).length ∧ ps.hash = root H2 ((chunks sz.toNat d).map LH) := by
  unfold newFromData at h
  split at h
  · cases h
  · split at h
    · cases h
    · split at h
      · cases h
      · simp only [Except.ok.injEq] at h
        subst h
        exact ⟨by omega, rfl, rfl⟩

/-- two byte strings cut with the same part size whose part-set headers (total, root) are equal are the
same byte string: `BlockID.PartsHeader` commits to `ser(block)`, hence (ser being injective) to every
serialised field of the block, `Recover`, the ordered transactions, the evidence and the last commit. -/
theorem partset_header_commits {D : Type} [Inhabited D] (H2 : D → D → D) (LH : Bytes → D)
    (hinj : Inj2 H2) (hleaf : Function.Injective LH) (d1 d2 : Bytes) (sz : Int) (ps1 ps2 : PS D)
    (h1 : newFromData H2 LH d1 sz = .ok ps1) (h2 : newFromData H2 LH d2 sz = .ok ps2)
    (hh : ps1.header = ps2.header) : d1 = d2 := by
  obtain ⟨hsz, ht1, hr1⟩ := newFromData_ok H2 LH d1 sz ps1 h1
  obtain ⟨_, ht2, hr2⟩ := newFromData_ok H2 LH d2 sz ps2 h2
  simp only [PS.header, Header.mk.injEq] at hh
  obtain ⟨ht, hr⟩ := hh
  rw [hr1, hr2] at hr
  have hlen : (chunks sz.toNat d1).length = (chunks sz.toNat d2).length := by omega
  have hm := root_inj_same_length H2 hinj (chunks sz.toNat d1).length _ _ (by simp) (by simp [hlen]) hr
  have hc : chunks sz.toNat d1 = chunks sz.toNat d2 := map_inj_of_injective LH hleaf _ _ hm
  have hsz' : 0 < sz.toNat := by omega
  rw [← chunks_flatten sz.toNat hsz' _ d1 rfl, ← chunks_flatten sz.toNat hsz' _ d2 rfl, hc]

/-! ## 4. Identity coverage of the header fields (facts regenerated from types/block.go) -/

/-- the map literal of `Header.Hash` in the source is exactly the vetted list: same keys, each key hashes
the field of the same name -/
theorem hash_keys_match_source :
    Gen.BlockId.headerHashKeys = Model.BlockId.hashedFields.map (fun kf => (kf.1, kf.1)) := by decide

/-- **id_covers**: every field of struct `Header` is classified: it is a key of the `Header.Hash` map
(hashing that very field), or it is vetted as parts-only AND serialised (covered by the part-set hash),
or it is vetted as local-only AND not serialised (never leaves the node).  Removing a key from the map,
or adding a header field without classifying it, breaks this theorem. -/
theorem id_covers :
    ∀ f ∈ Gen.BlockId.headerFields,
      ((f.1, f.1) ∈ Gen.BlockId.headerHashKeys ∧ f.2 = true)
      ∨ (f.1 ∈ Model.BlockId.partsOnlyFields ∧ f.2 = true ∧ (f.1, f.1) ∉ Gen.BlockId.headerHashKeys)
      ∨ (f.1 ∈ Model.BlockId.localOnlyFields ∧ f.2 = false) := by decide

/-- no key of the map is hashed twice or refers to a missing field -/
theorem hash_keys_nodup_and_real :
    (Gen.BlockId.headerHashKeys.map (·.1)).Nodup ∧
    ∀ k ∈ Gen.BlockId.headerHashKeys, (k.2, true) ∈ Gen.BlockId.headerFields := by decide

/-- the block parts that carry content are serialised (so `partset_header_commits` covers them); the
unserialised fields of Block/Data/Commit/EvidenceData are the vetted caches -/
theorem block_content_serialised :
    Gen.BlockId.blockFields.filter (·.2) = [("Header", true), ("Data", true), ("Evidence", true), ("LastCommit", true)] ∧
    Gen.BlockId.blockFields.filter (! ·.2) = [("mtx", false), ("hash", false)] ∧
    Gen.BlockId.dataFields = [("Txs", true), ("hash", false)] ∧
    Gen.BlockId.commitFields.filter (·.2) = [("BlockID", true), ("Precommits", true)] ∧
    Gen.BlockId.evidenceDataFields = [("Evidence", true), ("hash", false)] ∧
    Gen.BlockId.partSetHeaderFields = [("Total", true), ("Hash", true)] ∧
    Gen.BlockId.blockIDFields = [("Hash", true), ("PartsHeader", true)] := by decide

/-- the guards of `PartSet.AddPart` in the source are the ones the model has, in this order: both index
bounds (removing the lower one again re-opens the negative-index panic), duplicate, Merkle proof -/
theorem addPart_guards_vetted :
    Gen.BlockId.addPartGuards =
      [("part.Index < 0 || part.Index >= ps.total", "return false, ErrPartSetUnexpectedIndex"),
       ("ps.parts[part.Index] != nil", "return false, nil"),
       ("!part.Proof.Verify(part.Index, ps.total, part.Hash(), ps.Hash())", "return false, ErrPartSetInvalidProof")] := by decide

/-! ## 5. Non-vacuity -/

/-- a concrete model of the hypotheses: trees as digests, `LH b = leaf |b|` on chunks of distinct length -/
example : Inj2 Tree.node := tree_inj2

example : ∃ ps, addAll Tree.node (fun b => Tree.leaf b.length) (emptyPS 2 (Tree.node (.leaf 1) (.leaf 2)))
    [⟨1, [7, 7], [.leaf 1]⟩, ⟨0, [9, 9], [.leaf 2]⟩, ⟨5, [], []⟩, ⟨-1, [9], [.leaf 2]⟩, ⟨0, [9], [.leaf 2]⟩, ⟨1, [7, 7], [.leaf 1]⟩] = .ok ps
    ∧ isComplete ps = true ∧ assemble ps = .ok [9, 7, 7] := by
  exact ⟨_, rfl, by decide, rfl⟩

example : (chunks 2 [1, 2, 3, 4, 5]) = [[1, 2], [3, 4], [5]] := by
  simp [chunks]

end Props.C12
