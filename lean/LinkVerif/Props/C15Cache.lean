import LinkVerif.Props.C15More
import LinkVerif.Gen.MempoolLocks

/-!
# C15 — part 6: a cache hit means "basic-checked"; block verdicts do not depend on the cache

`AddTx` is not atomic for the dedup cache: the entry is put with `BasicChecked = false` before the basic check and other
operations (the consensus goroutine's `CheckBlock`, reaps, commits, other submissions) run in between (`Model.Mempool.PoolC`,
`putC` / `finishC`, `runC`).
* `cache_hit_implies_basic_checked`: along every such history, an entry `GetTxFromCache` returns passed the basic check;
* `block_verdict_cache_independent`: the validator-path verdict of a block of registered transactions is the verdict of a
  node with an empty cache on the same committed ledger — acceptance never depends on mempool contents;
* `getTxFromCache_uses_CheckAndGet`: T2 fact regenerated from mempool/mempool.go.
-/
namespace Props.C15
open Model.Ledger Model.Mempool

/-! ## the pool functions only remove ids from the cache; `addTx` adds the submitted id only after its basic check passed -/

theorem dropIds_sub (xs : List Nat) (es : List E) : ∀ x ∈ dropIds xs es, x ∈ xs := fun _ hx => (List.mem_filter.mp hx).1

theorem promoteLoop_cache : ∀ (l : List E) (acc : Acc) (good : List E) (cache : List Nat),
    ∀ x ∈ (promoteLoop acc good cache l).2.2, x ∈ cache := by
  intro l
  induction l with
  | nil => intro acc good cache x hx; exact hx
  | cons e r ih =>
    intro acc good cache x hx
    unfold promoteLoop at hx
    split at hx
    · exact ih _ _ _ x hx
    · exact (List.mem_filter.mp (ih _ _ _ x hx)).1

theorem promote_cache (p : Pool) (a : Nat) : ∀ x ∈ (promote p a).cache, x ∈ p.cache := by
  unfold promote
  simp only []
  split
  · exact fun x hx => dropIds_sub _ _ x hx
  · intro x hx
    have := promoteLoop_cache
      (readyRun (p.fut.filter (fun e => !(e.t.from_ == a && decide (e.t.nonce < getn p.acc.nonce a)))) a (getn p.acc.nonce a) (p.cfg.size - p.good.length))
      p.acc p.good (dropIds p.cache (p.fut.filter (fun e => e.t.from_ == a && decide (e.t.nonce < getn p.acc.nonce a)))) x hx
    exact dropIds_sub _ _ x this

theorem promoteAll_cache (p : Pool) : ∀ k, ∀ x ∈ (promoteAll p k).cache, x ∈ p.cache := by
  intro k
  induction k with
  | zero => exact fun x hx => hx
  | succ k ih => intro x hx; unfold promoteAll at hx; exact ih x (promote_cache _ k x hx)

theorem addFuture_cache (p : Pool) (e : E) : (addFuture p e).2.cache = p.cache := by
  unfold addFuture; split
  · rfl
  · split <;> rfl

theorem addAccount_cache (p : Pool) (e : E) : ∀ x ∈ (addAccount p e).2.cache, x ∈ p.cache := by
  unfold addAccount addGood
  simp only []
  split
  · split
    · intro x hx; have h1 := promote_cache _ _ x hx; exact h1
    · rw [addFuture_cache]; exact fun x hx => hx
  · split
    · rw [addFuture_cache]; exact fun x hx => hx
    · exact fun x hx => hx

theorem addPure_cache (p : Pool) (e : E) : (addPure p e).2.cache = p.cache := by
  unfold addPure; split
  · rfl
  · split <;> rfl

/-- `AddTx`: the cache afterwards holds old ids, and the submitted id only if its basic check passed -/
theorem addTx_cache (p : Pool) (e : E) : ∀ x ∈ (addTx p e).2.cache, x ∈ p.cache ∨ (x = e.id ∧ basic e.t = .ok) := by
  unfold addTx
  split
  · exact fun x hx => Or.inl hx
  · split
    · rename_i hb
      split
      · exact fun x hx => Or.inl hx
      · simp only []
        have key : ∀ x ∈ p.cache ++ [e.id], x ∈ p.cache ∨ (x = e.id ∧ basic e.t = .ok) := by
          intro x hx
          rcases List.mem_append.mp hx with h1 | h1
          · exact Or.inl h1
          · simp at h1; exact Or.inr ⟨h1, hb⟩
        by_cases hk : e.t.kind = .uin
        · simp only [hk, if_true]
          split
          · intro x hx; rw [addPure_cache] at hx; exact key x hx
          · intro x hx
            have := (List.mem_filter.mp hx).1
            rw [addPure_cache] at this; exact key x this
        · simp only [hk, if_false]
          split
          · intro x hx; exact key x (addAccount_cache _ _ x hx)
          · intro x hx
            exact key x (addAccount_cache _ _ x (List.mem_filter.mp hx).1)
    · exact fun x hx => Or.inl hx

theorem recheckGood_cache : ∀ (l : List E) (p : Pool), ∀ x ∈ (recheckGood p l).cache, x ∈ p.cache := by
  intro l
  induction l with
  | nil => intro p x hx; exact hx
  | cons e r ih =>
    intro p x hx
    unfold recheckGood at hx
    split at hx
    · have h1 := ih _ x hx; exact h1
    · split at hx
      · split at hx
        · have := ih _ x hx; rw [addFuture_cache] at this; exact this
        · have := (List.mem_filter.mp (ih _ x hx)).1; rw [addFuture_cache] at this; exact this
      · exact (List.mem_filter.mp (ih _ x hx)).1

theorem recheckUtxo_cache : ∀ (l : List E) (p : Pool), ∀ x ∈ (recheckUtxo p l).cache, x ∈ p.cache := by
  intro l
  induction l with
  | nil => intro p x hx; exact hx
  | cons e r ih =>
    intro p x hx
    unfold recheckUtxo at hx
    split at hx
    · have h1 := ih _ x hx; exact h1
    · exact (List.mem_filter.mp (ih _ x hx)).1

theorem update_cache (p : Pool) (c' : St) (ids : List Nat) : ∀ x ∈ (update p c' ids).cache, x ∈ p.cache := by
  intro x hx
  unfold update promoteEvery at hx
  simp only [] at hx
  have h1 := promoteAll_cache _ _ x hx
  have h2 := recheckUtxo_cache _ _ x h1
  have h3 := recheckGood_cache _ _ x h2
  exact h3

/-- the transaction registered under `id` (if any) passes the basic check -/
def BasicOK (reg : List TxRec) (id : Nat) : Prop := ∀ t, reg[id]? = some t → basic t = .ok

theorem step_cache (reg : List TxRec) (p : Pool) (op : Op) : ∀ x ∈ (step reg p op).cache, x ∈ p.cache ∨ BasicOK reg x := by
  cases op with
  | submit id =>
    simp only [step]
    cases ht : reg[id]? with
    | none => exact fun x hx => Or.inl hx
    | some t =>
      intro x hx
      rcases addTx_cache p { id := id, t := t } x hx with h1 | h1
      · exact Or.inl h1
      · right; intro t' ht'; rw [h1.1] at ht'; rw [ht] at ht'; cases ht'; exact h1.2
  | reap max => exact fun x hx => Or.inl hx
  | commit max =>
    simp only [step, commitEntries]
    cases execX p.c [] ((reap p max).map (·.t)) with
    | none => exact fun x hx => Or.inl hx
    | some c' => exact fun x hx => Or.inl (update_cache _ _ _ x hx)
  | force ids =>
    simp only [step, forceEntries, commitEntries]
    split
    · exact fun x hx => Or.inl hx
    · cases execX p.c [] ((entries reg ids).map (·.t)) with
      | none => exact fun x hx => Or.inl hx
      | some c' => exact fun x hx => Or.inl (update_cache _ _ _ x hx)

/-! ## the invariant over histories with non-atomic AddTx -/

/-- every cache entry that is not in flight passed the basic check -/
def CacheOK (reg : List TxRec) (pc : PoolC) : Prop := ∀ id ∈ pc.p.cache, id ∉ pc.inflight → BasicOK reg id

theorem putC_cacheOK {reg : List TxRec} {pc : PoolC} (h : CacheOK reg pc) (e : E) : CacheOK reg (putC pc e) := by
  unfold putC
  by_cases hc : pc.p.cache.contains e.id = true
  · rw [if_pos hc]; exact h
  · rw [if_neg hc]
    intro x hx hin
    have hx' : x ∈ pc.p.cache ++ [e.id] := hx
    have hin' : x ∉ pc.inflight ++ [e.id] := hin
    rcases List.mem_append.mp hx' with h1 | h1
    · exact h x h1 (fun h2 => hin' (List.mem_append_left _ h2))
    · exact absurd (List.mem_append_right _ h1) hin'

theorem finishC_cacheOK {reg : List TxRec} {pc : PoolC} (h : CacheOK reg pc) (e : E) (hreg : reg[e.id]? = some e.t) :
    CacheOK reg (finishC pc e).2 := by
  unfold finishC
  by_cases hc : pc.inflight.contains e.id = true
  · rw [if_pos hc]
    intro x hx hin
    have hx' : x ∈ (addTx { pc.p with cache := pc.p.cache.filter (· != e.id) } e).2.cache := hx
    have hin' : x ∉ pc.inflight.filter (· != e.id) := hin
    rcases addTx_cache _ _ x hx' with h1 | h1
    · have hm := List.mem_filter.mp h1
      exact h x hm.1 (fun h2 => hin' (List.mem_filter.mpr ⟨h2, hm.2⟩))
    · intro t' ht'
      rw [h1.1, hreg] at ht'; cases ht'; exact h1.2
  · rw [if_neg hc]; exact h

theorem stepC_cacheOK (reg : List TxRec) {pc : PoolC} (h : CacheOK reg pc) (op : OpC) : CacheOK reg (stepC reg pc op) := by
  cases op with
  | seq op =>
    intro id hid hin
    rcases step_cache reg pc.p op id hid with h1 | h1
    · exact h id h1 hin
    · exact h1
  | put id =>
    simp only [stepC]
    cases ht : reg[id]? with
    | none => exact h
    | some t => exact putC_cacheOK h _
  | finish id =>
    simp only [stepC]
    cases ht : reg[id]? with
    | none => exact h
    | some t => exact finishC_cacheOK h { id := id, t := t } ht

theorem runC_cacheOK (reg : List TxRec) : ∀ (ops : List OpC) (pc : PoolC), CacheOK reg pc → CacheOK reg (runC reg pc ops) := by
  intro ops
  induction ops with
  | nil => intro pc h; exact h
  | cons op r ih => intro pc h; exact ih _ (stepC_cacheOK reg h op)

theorem getTxFromCache_true {pc : PoolC} {id : Nat} (h : getTxFromCache pc id = true) : id ∈ pc.p.cache ∧ id ∉ pc.inflight := by
  unfold getTxFromCache at h
  simp at h
  exact h

def initC (cfg : Cfg) (w : Nat) (bal tbal : Int) : PoolC := { p := Model.Mempool.init cfg w bal tbal }

/-- **cache_hit_implies_basic_checked**: after every history in which submissions are split into their two halves and
interleaved with anything else, whatever `GetTxFromCache` returns passed the basic check -/
theorem cache_hit_implies_basic_checked (reg : List TxRec) (cfg : Cfg) (w : Nat) (bal tbal : Int) (ops : List OpC) (id : Nat) (t : TxRec)
    (hit : getTxFromCache (runC reg (initC cfg w bal tbal) ops) id = true) (ht : reg[id]? = some t) : basic t = .ok := by
  have h := runC_cacheOK reg ops (initC cfg w bal tbal) (by intro x hx; simp [initC, Model.Mempool.init] at hx)
  obtain ⟨h1, h2⟩ := getTxFromCache_true hit
  exact h id h1 h2 t ht

/-- the pre-check of a block of registered transactions does not depend on the cache -/
theorem precheck_cache_independent {reg : List TxRec} {pc : PoolC} (h : CacheOK reg pc) (es : List E) (hes : ∀ e ∈ es, Created reg e) :
    precheck (getTxFromCache pc) es = precheck (fun _ => false) es := by
  unfold precheck
  induction es with
  | nil => rfl
  | cons e r ih =>
    have hr : ∀ x ∈ r, Created reg x := fun x hx => hes x (List.mem_cons_of_mem _ hx)
    simp only [List.all_cons, ih hr]
    congr 1
    cases hhit : getTxFromCache pc e.id with
    | false => rfl
    | true =>
      obtain ⟨h1, h2⟩ := getTxFromCache_true hhit
      have hb : basic e.t = .ok := h e.id h1 h2 e.t (hes e (List.mem_cons_self ..))
      simp [hb]

/-- **block_verdict_cache_independent**: on every node state reachable by any history (non-atomic submissions included) the
validator-path verdict of a block of registered transactions equals the verdict of a node that never saw a submission and
has the same committed ledger: acceptance does not depend on mempool contents -/
theorem block_verdict_cache_independent (reg : List TxRec) (cfg : Cfg) (w : Nat) (bal tbal : Int) (ops : List OpC) (ids : List Nat) :
    verdict (runC reg (initC cfg w bal tbal) ops) (entries reg ids) =
      verdictCold (runC reg (initC cfg w bal tbal) ops).p.c (entries reg ids) := by
  have h := runC_cacheOK reg ops (initC cfg w bal tbal) (by intro x hx; simp [initC, Model.Mempool.init] at hx)
  unfold verdict verdictCold
  rw [precheck_cache_independent h _ (entries_created reg ids)]

/-- T2 (regenerated from mempool/mempool.go): `GetTxFromCache` looks the transaction up with `CheckAndGet` and nothing else -/
theorem getTxFromCache_uses_CheckAndGet : Gen.MempoolLocks.getTxFromCacheCalls = ["CheckAndGet"] := by decide

/-! ## non-vacuity: inside the window the tampered transaction is in the cache but is not returned; a checked one is -/

def tamperedReg : List TxRec :=
  [ { kind := .uin, spends := 0, outs := [(0, 5)], gas := utxoGas, broken := some "proof" },
    { kind := .xfer, from_ := 0, to := 1, amount := 5, nonce := 0, gas := calGas 5 } ]

example :
    let pc := runC tamperedReg (initC {} 1 1000000000 1000) [.put 0, .seq (.submit 1)]
    pc.p.cache = [0, 1] ∧ getTxFromCache pc 0 = false ∧ getTxFromCache pc 1 = true ∧
    verdict pc (entries tamperedReg [0]) = false ∧
    (runC tamperedReg pc [.finish 0]).p.cache = [1] ∧ (runC tamperedReg pc [.finish 0]).inflight = [] := by decide

/-- what the seeded defect does (`Get` instead of `CheckAndGet`: every cached id is a hit) flips that verdict -/
example :
    let pc := runC tamperedReg (initC {} 1 1000000000 1000) [.put 0]
    (execOk pc.p.c (entries tamperedReg [0]) && precheck (fun id => pc.p.cache.contains id) (entries tamperedReg [0])) = true ∧
    verdict pc (entries tamperedReg [0]) = false := by decide

end Props.C15
