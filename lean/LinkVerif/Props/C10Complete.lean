/-
C10: completeness of proofs — the proof built by `Prove` (`proofNodes`) verifies to the true claim.
-/
import LinkVerif.Props.C10Proof

namespace Props.C10
open Model.Trie

/-- like `StepOK`, plus what the walk needs: the next node is a hashed (≥ 32 bytes) node further down `Prove`'s path,
and the key gets shorter -/
def StepOK2 (H : Bytes → Bytes) (s : Node) (key : List Nib) : Step → Prop
  | .found x => Model.Trie.get s key = some x
  | .absent => Model.Trie.get s key = none
  | .goto h rest => ∃ s', WF s' ∧ s'.isValue = false ∧ KeyAt false rest ∧ h = H (enc H s') ∧
      Model.Trie.get s key = Model.Trie.get s' rest ∧ 32 ≤ (enc H s').length ∧
      (∀ t ∈ path s' rest, t ∈ path s key) ∧ rest.length < key.length
  | .panic => False

theorem path_short_cons (k : List Nib) (c : Node) (a : Nib) (as r : List Nib) (h : strip k (a :: as) = some r) :
    path (.short k c) (a :: as) = .short k c :: path c r := by
  simp [path, h]

theorem path_full_cons (c : Nib → Node) (i : Nib) (r : List Nib) : path (.full c) (i :: r) = .full c :: path (c i) r := rfl

theorem strip_length {k key r : List Nib} (h : strip k key = some r) : key.length = k.length + r.length := by
  rw [strip_eq_some.mp h, List.length_append]

theorem cget_collapse2 (H : Bytes → Bytes) : ∀ (s : Node) (v : Bool) (key : List Nib), Pos v s → KeyAt v key →
    StepOK2 H s key (cget (collapse H s) key)
  | .nil, _, _, _, _ => by simp [collapse, cget, StepOK2, Model.Trie.get]
  | .value w, _, _, _, _ => by simp [collapse, cget, StepOK2, Model.Trie.get]
  | .short k c, v, key, hp, hk => by
    rcases hp with h | ⟨hw, hvn⟩
    · simp [Node.isNil] at h
    · have hv : v = false := by rw [← hvn]; rfl
      subst hv
      obtain ⟨hkk, _, hwc⟩ := hw
      cases key with
      | nil => exact absurd (hk.2.mp rfl) (by simp)
      | cons a as =>
      simp only [collapse, cget]
      cases hst : strip k (a :: as) with
      | none => simp [StepOK2, get_short_bind, hst]
      | some r =>
        have e := strip_eq_some.mp hst
        have hr : KeyAt c.isValue r := suf_of_append hkk (by rw [← e]; exact hk.1)
        have hg : Model.Trie.get (.short k c) (a :: as) = Model.Trie.get c r := by rw [get_short_bind, hst]; rfl
        have hlen : r.length < (a :: as).length := by
          have := strip_length hst
          have hk0 : 0 < k.length := List.length_pos_iff.mpr (keyOK_ne_nil hkk)
          omega
        have hpath := path_short_cons k c a as r hst
        simp only
        by_cases hc : (c.isValue || decide ((enc H c).length < 32)) = true
        · simp only [hc, if_true]
          have ih := cget_collapse2 H c c.isValue r (Or.inr ⟨hwc, rfl⟩) hr
          revert ih
          cases cget (collapse H c) r with
          | found x => simp only [StepOK2, hg]; exact id
          | absent => simp only [StepOK2, hg]; exact id
          | panic => simp only [StepOK2]; exact id
          | goto h rest =>
            simp only [StepOK2, hg]
            rintro ⟨s', h1, h2, h3, h4, h5, h6, h7, h8⟩
            exact ⟨s', h1, h2, h3, h4, h5, h6, fun t ht => by rw [hpath]; exact List.mem_cons_of_mem _ (h7 t ht), by omega⟩
        · simp only [hc]
          simp only [Bool.or_eq_true, decide_eq_true_eq, not_or, Bool.not_eq_true] at hc
          simp only [Bool.false_eq_true, if_false, cget, StepOK2]
          rw [hc.1] at hr
          exact ⟨c, hwc, hc.1, hr, rfl, hg, by omega, fun t ht => by rw [hpath]; exact List.mem_cons_of_mem _ ht, hlen⟩
  | .full c, v, key, hp, hk => by
    cases key with
    | nil =>
      exfalso
      have hv : v = true := hk.2.mp rfl
      rcases hp with h | ⟨_, h⟩
      · simp [Node.isNil] at h
      · rw [hv] at h; simp [Node.isValue] at h
    | cons i r =>
      have hv := false_of_keyAt_cons hk
      subst hv
      rcases hp with h | ⟨hw, _⟩
      · simp [Node.isNil] at h
      · obtain ⟨hall, _⟩ := hw
        have hpos : Pos (decide (i = term)) (c i) := by
          rcases hall i with h0 | ⟨hw', hv'⟩
          · exact Or.inl h0
          · exact Or.inr ⟨hw', isValue_eq_decide hv'⟩
        have hr := keyAt_of_cons hk
        have hpath := path_full_cons c i r
        simp only [collapse, cget]
        by_cases hc : (decide (i = term) || decide ((enc H (c i)).length < 32)) = true
        · simp only [hc, if_true]
          have ih := cget_collapse2 H (c i) _ r hpos hr
          revert ih
          cases cget (collapse H (c i)) r with
          | found x => simp only [StepOK2, get_full_cons]; exact id
          | absent => simp only [StepOK2, get_full_cons]; exact id
          | panic => simp only [StepOK2]; exact id
          | goto h rest =>
            simp only [StepOK2, get_full_cons]
            rintro ⟨s', h1, h2, h3, h4, h5, h6, h7, h8⟩
            exact ⟨s', h1, h2, h3, h4, h5, h6, fun t ht => by rw [hpath]; exact List.mem_cons_of_mem _ (h7 t ht),
              by simp only [List.length_cons]; omega⟩
        · simp only [hc]
          simp only [Bool.or_eq_true, decide_eq_true_eq, not_or] at hc
          simp only [Bool.false_eq_true, if_false, cget, StepOK2, get_full_cons]
          rcases hall i with h0 | ⟨hw', hv'⟩
          · exfalso; rw [isNil_eq h0] at hc; exact hc.2 (enc_nil_short H)
          · have hiv : (c i).isValue = false := by
              cases h : (c i).isValue
              · rfl
              · exact absurd (hv'.mp h) hc.1
            have : decide (i = term) = false := by simp [hc.1]
            rw [this] at hr
            exact ⟨c i, hw', hiv, hr, rfl, rfl, by omega, fun t ht => by rw [hpath]; exact List.mem_cons_of_mem _ ht,
              by simp⟩

theorem dbOf_mem (H : Bytes → Bytes) (Hinj : Function.Injective H) (nodes : List Bytes) (b : Bytes) (hb : b ∈ nodes) :
    dbOf H nodes (H b) = some b := by
  unfold dbOf
  cases hf : nodes.find? (fun x => H x == H b) with
  | none =>
    have := List.find?_eq_none.mp hf b hb
    simp at this
  | some x =>
    have := List.find?_some hf
    simp only [beq_iff_eq] at this
    rw [Hinj this]

theorem self_mem_path {s : Node} {key : List Nib} (hw : WF s) (hv : s.isValue = false) (hk : KeyAt false key) :
    s ∈ path s key := by
  cases key with
  | nil => exact absurd (hk.2.mp rfl) (by simp)
  | cons a as =>
    cases s with
    | nil => exact absurd hw (by simp [WF])
    | value w => simp [Node.isValue] at hv
    | short k c => simp [path]
    | full c => simp [path]

/-- the walk over any node list that contains the current node and every hashed node of `Prove`'s path -/
theorem verify_complete_aux (H : Bytes → Bytes) (Hinj : Function.Injective H) (decode : Bytes → Dec CNode)
    (nodes : List Bytes) :
    ∀ (fuel : Nat) (s : Node) (key : List Nib), WF s → s.isValue = false → KeyAt false key → key.length < fuel →
      (∀ t ∈ path s key, WF t → decode (enc H t) = .ok (collapse H t)) →
      enc H s ∈ nodes → (∀ t ∈ path s key, 32 ≤ (enc H t).length → enc H t ∈ nodes) →
      verify H decode (dbOf H nodes) fuel (H (enc H s)) key =
        (match Model.Trie.get s key with | some x => VRes.value x | none => VRes.absent)
  | 0, _, _, _, _, _, hf, _, _, _ => by omega
  | f + 1, s, key, hw, hv, hk, hf, hdec, hin, hall => by
    simp only [verify, dbOf_mem H Hinj nodes _ hin, hdec s (self_mem_path hw hv hk) hw]
    have hstep := cget_collapse2 H s false key (Or.inr ⟨hw, hv⟩) hk
    revert hstep
    cases cget (collapse H s) key with
    | found x => simp only [StepOK2]; intro h; simp [h]
    | absent => simp only [StepOK2]; intro h; simp [h]
    | panic => simp [StepOK2]
    | goto h rest =>
      simp only [StepOK2]
      rintro ⟨s', hw', hv', hk', rfl, hg, h32, hsub, hlen⟩
      rw [hg]
      have hs' : s' ∈ path s key := hsub s' (self_mem_path hw' hv' hk')
      exact verify_complete_aux H Hinj decode nodes f s' rest hw' hv' hk' (by omega)
        (fun t ht => hdec t (hsub t ht)) (hall s' hs' h32) (fun t ht h => hall t (hsub t ht) h)

/-- `verify_sound` with the decoder hypothesis restricted to the honest nodes on the way to `key` -/
theorem verify_sound2 (H : Bytes → Bytes) (Hinj : Function.Injective H) (decode : Bytes → Dec CNode)
    (db : Bytes → Option Bytes) (hdb : ∀ h b, db h = some b → H b = h) :
    ∀ (fuel : Nat) (s : Node) (key : List Nib), WF s → s.isValue = false → KeyAt false key →
      (∀ t ∈ path s key, WF t → decode (enc H t) = .ok (collapse H t)) →
      (∀ x, verify H decode db fuel (H (enc H s)) key = .value x → Model.Trie.get s key = some x) ∧
      (verify H decode db fuel (H (enc H s)) key = .absent → Model.Trie.get s key = none) ∧
      verify H decode db fuel (H (enc H s)) key ≠ .panic
  | 0, _, _, _, _, _, _ => by simp [verify]
  | f + 1, s, key, hw, hv, hk, hdec => by
    simp only [verify]
    cases hdbq : db (H (enc H s)) with
    | none => simp
    | some buf =>
      have hb : buf = enc H s := Hinj (hdb _ _ hdbq)
      subst hb
      simp only [hdec s (self_mem_path hw hv hk) hw]
      have hstep := cget_collapse2 H s false key (Or.inr ⟨hw, hv⟩) hk
      revert hstep
      cases cget (collapse H s) key with
      | found x => simp only [StepOK2]; intro h; simp [h]
      | absent => simp only [StepOK2]; intro h; simp [h]
      | panic => simp [StepOK2]
      | goto h rest =>
        simp only [StepOK2]
        rintro ⟨s', hw', hv', hk', rfl, hg, _, hsub, _⟩
        rw [hg]
        exact verify_sound2 H Hinj decode db hdb f s' rest hw' hv' hk' (fun t ht => hdec t (hsub t ht))

end Props.C10
