/-
C12 (part 7): the `PartSetReader` (the reader consensus decodes the proposal block from) never invents,
reorders or skips a byte, for ANY sequence of buffer sizes (zero-length buffers and empty parts included):
what it has delivered so far, followed by what it still holds, is always the concatenation of the parts.
-/
import LinkVerif.Model.BlockApi

namespace Props.C12
open Model.Merkle Model.BlockApi

/-- the bytes the reader still holds at a position -/
def remaining (parts : List Bytes) (s : RState) : Bytes :=
  (parts.getD s.i []).drop s.off ++ (parts.drop (s.i + 1)).flatten

theorem remaining_start (parts : List Bytes) : remaining parts {} = parts.flatten := by
  cases parts with
  | nil => rfl
  | cons p ps => simp [remaining]

theorem remaining_next (parts : List Bytes) (i : Nat) :
    remaining parts { i := i + 1, off := 0 } = (parts.drop (i + 1)).flatten := by
  unfold remaining
  simp only [List.drop_zero]
  by_cases h : i + 1 < parts.length
  · rw [List.drop_eq_getElem_cons h, List.flatten_cons, List.getD_eq_getElem?_getD, List.getElem?_eq_getElem h]
    rfl
  · have h1 : parts.drop (i + 1) = [] := List.drop_eq_nil_of_le (by omega)
    have h2 : parts.drop (i + 1 + 1) = [] := List.drop_eq_nil_of_le (by omega)
    have h3 : parts.getD (i + 1) [] = [] := by
      rw [List.getD_eq_getElem?_getD, List.getElem?_eq_none (by omega)]
      rfl
    rw [h1, h2, h3]
    rfl

/-- one `Read` call: delivered bytes ++ what is left afterwards = what was left before -/
theorem readCall_conserves (parts : List Bytes) : ∀ (f : Nat) (s : RState) (n : Nat),
    remaining parts s = (readCall parts f s n).2.1 ++ remaining parts (readCall parts f s n).1 := by
  intro f
  induction f with
  | zero => intro s n; simp [readCall]
  | succ f ih =>
    intro s n
    simp only [readCall]
    split
    · split
      · simp
      · simp only [remaining]
        have hd : List.drop (s.off + n) (parts.getD s.i []) = List.drop n (List.drop s.off (parts.getD s.i [])) := by
          rw [List.drop_drop]
        rw [← List.append_assoc, hd, List.take_append_drop]
    · split
      · rename_i hrl
        have h1 := ih s ((parts.getD s.i []).length - s.off)
        generalize hr1 : readCall parts f s ((parts.getD s.i []).length - s.off) = r1 at h1 ⊢
        obtain ⟨s1, d1, e1⟩ := r1
        cases e1 with
        | true => exact h1
        | false =>
          simp only at h1 ⊢
          have h2 := ih s1 (n - ((parts.getD s.i []).length - s.off))
          generalize hr2 : readCall parts f s1 (n - ((parts.getD s.i []).length - s.off)) = r2 at h2 ⊢
          obtain ⟨s2, d2, e2⟩ := r2
          simp only at h2 ⊢
          rw [h1, h2, List.append_assoc]
      · rename_i hge hrl
        have hcur : (parts.getD s.i []).drop s.off = [] := List.drop_eq_nil_of_le (by omega)
        have hrem : remaining parts s = (parts.drop (s.i + 1)).flatten := by
          unfold remaining; rw [hcur]; rfl
        split
        · rename_i hend
          simp only [List.nil_append]
          rw [hrem, remaining_next]
        · rw [hrem, ← remaining_next]
          exact ih _ n

/-- a whole sequence of `Read` calls -/
theorem readSeq_conserves (parts : List Bytes) : ∀ (sizes : List Nat) (s : RState),
    ∃ s', remaining parts s = (readSeq parts s sizes).2 ++ remaining parts s' := by
  intro sizes
  induction sizes with
  | nil => intro s; exact ⟨s, by simp [readSeq]⟩
  | cons n rest ih =>
    intro s
    have h1 := readCall_conserves parts (readFuel parts) s n
    simp only [readSeq]
    generalize readCall parts (readFuel parts) s n = r1 at h1 ⊢
    obtain ⟨s1, d1, e1⟩ := r1
    obtain ⟨s', h2⟩ := ih s1
    simp only at h1 ⊢
    generalize readSeq parts s1 rest = r2 at h2 ⊢
    obtain ⟨rs, ds⟩ := r2
    simp only at h2 ⊢
    exact ⟨s', by rw [h1, h2, List.append_assoc]⟩

/-- **reader_delivers_prefix**: from a fresh reader, whatever buffer sizes the caller uses, the bytes delivered
are a prefix of the concatenation of the parts (and the rest is still there, in order) -/
theorem reader_delivers_prefix (parts : List Bytes) (sizes : List Nat) :
    (readSeq parts {} sizes).2 <+: parts.flatten := by
  obtain ⟨s', h⟩ := readSeq_conserves parts sizes {}
  rw [remaining_start] at h
  exact ⟨_, h.symm⟩

/-- non-vacuity, with an empty part, a zero-length buffer and reads after the end: everything is delivered -/
example : readSeq [[1, 2], [], [3]] {} [1, 0, 5, 2, 0] = ([(1, false), (0, false), (2, true), (0, true), (0, true)], [1, 2, 3]) := by
  decide

/-- the quirk the model mirrors: a ZERO-length buffer at an exhausted part answers EOF although parts follow
(`bytes.Reader.Read` checks for exhaustion before the length of the buffer); nothing is lost, the next read continues -/
example : readSeq [[1], [2]] {} [1, 0, 1] = ([(1, false), (0, true), (1, false)], [1, 2]) := by decide

end Props.C12
