/-
C09, part 10: "snapshots revert exactly" at BLOCK granularity on the flat key-value backend, `Reset`, `GetCommittedState`.
* `kv_rebuild_exact`: replaying the undo log written by a commit restores the database EXACTLY, provided the updated keys are
  distinct (they are the keys of Go maps, one map per trie, tries use disjoint key prefixes) and the database holds no empty
  value (`kv_noEmpty_commit`: commits preserve that).  `kv_rebuild_exact_dup_counterexample`: with a key updated twice in one
  commit the log would restore the intermediate value — the distinctness is what the code relies on.
* `kv_rollback_exact`: commit block h+1, roll the block store back (`kvCanRollBack`), reopen at h: the database is the one before
  the block; `kv_rebuild_idempotent`: a second start at the same height replays the same log to the same database;
  `kv_open_same_height`: a start without rollback changes nothing; `kv_open_panics`: any other height mismatch panics.
* `reset_eq_new`, `reset_revert_panics`: `Reset(root)` leaves a state that answers every getter like `New(root)`, with no journal,
  no revisions: a revision id from before the Reset cannot revert anything (RevertToSnapshot panics).
* `committed_setState`, `committed_undo_storage`: `GetCommittedState` is unaffected by pending `SetState` and by its undo.
-/
import LinkVerif.Props.C09World

namespace Props.C09
open Model.StateDB

/-! ### the undo log -/

def NoEmpty (db : Flat) : Prop := ∀ k v, db k = some v → v ≠ []

def encV (v : Bytes) : Option Bytes := if v.isEmpty then none else some v

theorem encV_getD {db : Flat} (h : NoEmpty db) (k : Nat) : encV ((db k).getD []) = db k := by
  cases hk : db k with
  | none => simp [encV]
  | some v =>
    have := h k v hk
    simp [encV, this]

theorem kvRebuild_append (db : Flat) (w1 w2 : List (Nat × Bytes)) : kvRebuild db (w1 ++ w2) = kvRebuild (kvRebuild db w1) w2 := by
  simp [kvRebuild, List.foldl_append]

/-- state of the fold: `s.db` is `db0` updated at the keys `done`, the log restores it -/
theorem kv_fold_exact (db0 : Flat) (h0 : NoEmpty db0) (ups : List (Nat × Bytes)) :
    ∀ (s : KvStore) (done : List Nat), (ups.map (·.1)).Nodup → (∀ k ∈ ups.map (·.1), k ∉ done) →
      (∀ k, k ∉ done → s.db k = db0 k) → kvRebuild s.db s.wal = db0 →
      kvRebuild (ups.foldl kvApply s).db (ups.foldl kvApply s).wal = db0 := by
  induction ups with
  | nil => intro s done _ _ _ h; exact h
  | cons u rest ih =>
    intro s done hnd hfresh hsame hreb
    simp only [List.foldl_cons]
    have hu : u.1 ∉ done := hfresh u.1 (by simp)
    simp only [List.map_cons, List.nodup_cons] at hnd
    refine ih (kvApply s u) (u.1 :: done) hnd.2 ?_ ?_ ?_
    · intro k hk hmem
      rcases List.mem_cons.mp hmem with h | h
      · subst h; exact hnd.1 hk
      · exact hfresh k (by simp [hk]) h
    · intro k hk
      have hne : k ≠ u.1 := fun h => hk (by simp [h])
      simp only [kvApply, upd_other _ _ _ _ hne]
      exact hsame k (fun h => hk (List.mem_cons_of_mem _ h))
    · simp only [kvApply, kvRebuild_append]
      -- first replay the old log on the updated database, then the new record
      funext k
      by_cases hk : k = u.1
      · subst hk
        simp only [kvRebuild, List.foldl_cons, List.foldl_nil, upd_same]
        rw [hsame _ hu]
        exact encV_getD h0 _
      · simp only [kvRebuild, List.foldl_cons, List.foldl_nil, upd_other _ _ _ _ hk]
        -- the old log does not care about the value at u.1 … except at u.1 itself
        have : ∀ (w : List (Nat × Bytes)) (d d' : Flat), (∀ x, x ≠ u.1 → d x = d' x) →
            ∀ x, x ≠ u.1 → w.foldl (fun d r => upd d r.1 (if r.2.isEmpty then none else some r.2)) d x =
                          w.foldl (fun d r => upd d r.1 (if r.2.isEmpty then none else some r.2)) d' x := by
          intro w
          induction w with
          | nil => intro d d' h x hx; exact h x hx
          | cons r w ihw =>
            intro d d' h x hx
            simp only [List.foldl_cons]
            apply ihw _ _ _ x hx
            intro y hy
            by_cases hyr : y = r.1
            · subst hyr; simp
            · simp [hyr, h y hy]
        have h2 := this s.wal (upd s.db u.1 (if u.2.isEmpty then none else some u.2)) s.db
          (fun x hx => by simp [hx]) k hk
        rw [h2]
        exact congrFun hreb k

/-- **the undo log is exact**: replaying the log of a commit on the committed database gives back the database before it -/
theorem kv_rebuild_exact (s : KvStore) (height : Nat) (ups : List (Nat × Bytes)) (h0 : NoEmpty s.db)
    (hnd : (ups.map (·.1)).Nodup) :
    kvRebuild (kvCommit s height ups).db (kvCommit s height ups).wal = s.db := by
  unfold kvCommit
  exact kv_fold_exact s.db h0 ups { s with wal := [], kvh := height } [] hnd (fun _ _ h => by cases h) (fun _ _ => rfl) rfl

theorem kvApply_kvh (s : KvStore) (u : Nat × Bytes) : (kvApply s u).kvh = s.kvh := rfl

theorem kvCommit_kvh (s : KvStore) (height : Nat) (ups : List (Nat × Bytes)) : (kvCommit s height ups).kvh = height := by
  unfold kvCommit
  suffices h : ∀ (l : List (Nat × Bytes)) (t : KvStore), (l.foldl kvApply t).kvh = t.kvh from h ups _
  intro l
  induction l with
  | nil => intro t; rfl
  | cons u rest ih => intro t; simp only [List.foldl_cons]; rw [ih]; rfl

theorem kv_noEmpty_apply (s : KvStore) (u : Nat × Bytes) (h : NoEmpty s.db) : NoEmpty (kvApply s u).db := by
  intro k v hk
  by_cases hku : k = u.1
  · subst hku
    simp only [kvApply, upd_same] at hk
    split at hk
    · cases hk
    · next hne => cases hk; intro he; simp [he] at hne
  · simp only [kvApply, upd_other _ _ _ _ hku] at hk
    exact h k v hk

/-- commits never store an empty value -/
theorem kv_noEmpty_commit (s : KvStore) (height : Nat) (ups : List (Nat × Bytes)) (h : NoEmpty s.db) :
    NoEmpty (kvCommit s height ups).db := by
  unfold kvCommit
  suffices hh : ∀ (l : List (Nat × Bytes)) (t : KvStore), NoEmpty t.db → NoEmpty (l.foldl kvApply t).db from hh ups _ h
  intro l
  induction l with
  | nil => intro t ht; exact ht
  | cons u rest ih => intro t ht; exact ih _ (kv_noEmpty_apply t u ht)

/-- **block-granular revert**: commit block `h+1`; `CanRollBackOneBlock` holds; reopening at `h` yields exactly the database before the block -/
theorem kv_rollback_exact (s : KvStore) (h : Nat) (ups : List (Nat × Bytes)) (h0 : NoEmpty s.db) (hnd : (ups.map (·.1)).Nodup) :
    kvCanRollBack (kvCommit s (h + 1) ups) (h + 1) = true ∧
    ∃ s', kvOpen (kvCommit s (h + 1) ups) h = some s' ∧ s'.db = s.db := by
  refine ⟨by simp [kvCanRollBack, kvCommit_kvh], ?_⟩
  have hk := kvCommit_kvh s (h + 1) ups
  refine ⟨{ kvCommit s (h + 1) ups with db := kvRebuild (kvCommit s (h + 1) ups).db (kvCommit s (h + 1) ups).wal }, by simp [kvOpen, hk], kv_rebuild_exact s (h + 1) ups h0 hnd⟩

/-- a start at the height of the last commit changes nothing -/
theorem kv_open_same_height (s : KvStore) (h : Nat) (ups : List (Nat × Bytes)) :
    kvOpen (kvCommit s h ups) h = some (kvCommit s h ups) := by
  simp [kvOpen, kvCommit_kvh]

/-- any other mismatch between the two stores panics -/
theorem kv_open_panics (s : KvStore) (h : Nat) (h1 : s.kvh ≠ h) (h2 : s.kvh ≠ h + 1) (h3 : s.kvh ≠ 0) : kvOpen s h = none := by
  simp [kvOpen, h1, h2, h3]

/-- replaying a log twice (a second start before the next commit) is the same as replaying it once -/
theorem kv_rebuild_idempotent (db : Flat) (wal : List (Nat × Bytes)) (hnd : (wal.map (·.1)).Nodup) :
    kvRebuild (kvRebuild db wal) wal = kvRebuild db wal := by
  -- after one replay every logged key holds its logged value; other keys are untouched by either replay
  have key : ∀ (w : List (Nat × Bytes)) (d : Flat), (w.map (·.1)).Nodup →
      (∀ r ∈ w, kvRebuild d w r.1 = encV r.2) ∧ (∀ k, k ∉ w.map (·.1) → kvRebuild d w k = d k) := by
    intro w
    induction w with
    | nil => intro d _; exact ⟨fun r hr => (by cases hr), fun k _ => rfl⟩
    | cons r w ih =>
      intro d hn
      simp only [List.map_cons, List.nodup_cons] at hn
      obtain ⟨h1, h2⟩ := ih (upd d r.1 (if r.2.isEmpty then none else some r.2)) hn.2
      refine ⟨?_, ?_⟩
      · intro q hq
        rcases List.mem_cons.mp hq with hq | hq
        · subst hq
          simp only [kvRebuild, List.foldl_cons] at h2 ⊢
          rw [h2 _ hn.1]; simp [encV]
        · simpa [kvRebuild] using h1 q hq
      · intro k hk
        simp only [List.map_cons, List.mem_cons, not_or] at hk
        simp only [kvRebuild, List.foldl_cons] at h2 ⊢
        rw [h2 k hk.2]; simp [hk.1]
  obtain ⟨h1, h2⟩ := key wal db hnd
  obtain ⟨h3, h4⟩ := key wal (kvRebuild db wal) hnd
  funext k
  by_cases hk : k ∈ wal.map (·.1)
  · obtain ⟨r, hr, rfl⟩ := List.mem_map.mp hk
    rw [h3 r hr, h1 r hr]
  · rw [h4 k hk]

/-- why distinct keys matter: the same key updated twice inside one commit would be restored to the intermediate value -/
theorem kv_rebuild_exact_dup_counterexample :
    ¬ (∀ (s : KvStore) (height : Nat) (ups : List (Nat × Bytes)), NoEmpty s.db →
        kvRebuild (kvCommit s height ups).db (kvCommit s height ups).wal = s.db) := by
  intro h
  have := h KvStore.fresh 1 [(7, [1]), (7, [2])] (by intro k v hk; simp [KvStore.fresh] at hk)
  have h7 := congrFun this 7
  revert h7
  decide

/-- non-vacuity: a block that updates key 1, deletes key 2 and creates key 3 over a database holding keys 1 and 2 -/
def demoKv : KvStore := kvCommit KvStore.fresh 1 [(1, [10]), (2, [20])]
example : (kvCommit demoKv 2 [(1, [11]), (2, []), (3, [30])]).db 2 = none := by decide
example : (kvOpen (kvCommit demoKv 2 [(1, [11]), (2, []), (3, [30])]) 1).map (fun s => [s.db 1, s.db 2, s.db 3]) =
    some [some [10], some [20], none] := by decide

/-! ### Reset -/

/-- `Reset(root)` answers every getter like `New(root)` -/
theorem reset_eq_new (heap : Ref → TokMap) (n : Nat) (t : Addr → Option Account) (s : State) :
    obs { heap := heap, nextRef := n, st := resetTo t s } = obs { heap := heap, nextRef := n, st := openAt t } := rfl

/-- after `Reset` nothing is pending: no journal, no revisions, no refund, no logs, no dirty object -/
theorem reset_clean (t : Addr → Option Account) (s : State) :
    (resetTo t s).journal = [] ∧ (resetTo t s).revs = [] ∧ (resetTo t s).refund = 0 ∧ (resetTo t s).logSize = 0 ∧
    (∀ a, (resetTo t s).objs a = none) ∧ (∀ a, isDirtyJ (resetTo t s) a = false) := by
  simp [resetTo, State.empty, isDirtyJ]

/-- a revision id from before the `Reset` cannot revert anything: `RevertToSnapshot` panics -/
theorem reset_revert_panics (c : Ctx) (t : Addr → Option Account) (id : Nat) :
    revertTo { c with st := resetTo t c.st } id = none := by
  simp [revertTo, resetTo, State.empty, findRev]

/-- … and the same for Finalise/Commit (`clearJournalAndRefund`): reverting ACROSS them is a panic, never a partial undo -/
theorem finalise_revert_panics (del : Bool) (c : Ctx) (id : Nat) : revertTo (finalise del c) id = none := by
  simp [revertTo, finalise, clearJournal, findRev]

theorem commit_revert_panics (del : Bool) (c : Ctx) (id : Nat) : revertTo (commit del c) id = none := by
  simp [revertTo, commit, clearJournal, findRev]

/-! ### GetCommittedState -/

/-- a pending `SetState` does not move the committed value -/
theorem committed_dirty (o : Obj) (k : Key) (v : Option Bytes) (k' : Key) :
    committed { o with dirty := upd o.dirty k v } k' = committed o k' := rfl

/-- `SetState` on an existing account leaves `GetCommittedState` of every key as it was -/
theorem committed_setState (cfg : Cfg) (c : Ctx) (a : Addr) (k : Key) (v : Bytes) (o : Obj) (h : peek c.st a = some o) :
    ∃ o', peek (applyOp cfg c (.setState a k v)).st a = some o' ∧ ∀ k', committed o' k' = committed o k' := by
  have hnd := peek_not_deleted h
  simp only [applyOp, ensure, h]
  split
  · exact ⟨o, by simp [hnd], fun _ => rfl⟩
  · exact ⟨{ o with dirty := upd o.dirty k (some v) }, by simp [hnd], fun _ => rfl⟩

/-- the undo of a storage change leaves it too -/
theorem committed_undo_storage (c : Ctx) (a : Addr) (k : Key) (prev : Bytes) (o : Obj) (h : peek c.st a = some o) :
    ∃ o', peek (undo (.storage a k prev) c).st a = some o' ∧ ∀ k', committed o' k' = committed o k' := by
  have hnd := peek_not_deleted h
  simp only [undo, modObj, h]
  exact ⟨{ o with dirty := upd o.dirty k (some prev) }, by simp [hnd], fun _ => rfl⟩

end Props.C09
