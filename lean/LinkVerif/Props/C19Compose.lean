/-
C19 (part 4): composed refinements.
  * `prefixdb_over_memdb_refines` : PrefixDB over the MemDB model = the restricted, stripped reference, for every op sequence
    (lookups, writes, forward/reverse iteration, batches).
  * `prefix_batch_atomic_ordered` : a batch built through a view applies exactly its ops, in order, under the prefix, nothing else.
  * `engines_agree` : the four engine models on ANY op sequence, with the exact empty-key behaviour of bolt and badger
    (no "no empty key" hypothesis any more).
Precondition made explicit (contract of `types.go`: "No writes may happen within a domain while an iterator exists over it"):
every `Op.iter`/`Op.riter` is an iterator that is created, drained and closed with no write in between.  `IterTrace` below
states that for step-wise traces and `memdb_stepwise_iter` shows the step-wise MemDB iterator then delivers exactly the drained
answer; what each engine does when the precondition is violated is recorded there too.
-/
import LinkVerif.Model.KV
import LinkVerif.Props.C19

namespace Props.C19
open Model.KV

/-! ## sorted maps are determined by their lookups -/

theorem sorted_keys {m : Ref} (hs : Sorted m) : KSorted (keysOf m) := by
  unfold KSorted keysOf
  rw [List.pairwise_map]
  exact hs

theorem sorted_as_map {m : Ref} (hs : Sorted m) : m = (keysOf m).map (fun k => (k, (Ref.get m k).getD [])) := by
  unfold keysOf
  rw [List.map_map]
  have : ∀ kv ∈ m, ((fun k => (k, (Ref.get m k).getD [])) ∘ (·.1)) kv = kv := by
    intro kv hkv
    obtain ⟨k, v⟩ := kv
    simp [Function.comp, Ref.get_of_mem hs hkv]
  rw [List.map_congr_left this]
  simp

theorem sorted_eq_of_get {a b : Ref} (ha : Sorted a) (hb : Sorted b) (h : ∀ k, Ref.get a k = Ref.get b k) : a = b := by
  have hk : keysOf a = keysOf b := by
    apply ksorted_ext (sorted_keys ha) (sorted_keys hb)
    intro x
    rw [mem_keys_iff_get, mem_keys_iff_get, h]
  rw [sorted_as_map ha, sorted_as_map hb, hk]
  apply List.map_congr_left
  intro k _
  rw [h]

theorem restrict_sorted (p : Bytes) {m : Ref} (hs : Sorted m) : Sorted (restrict p m) := by
  unfold restrict Sorted
  rw [List.pairwise_map]
  have h1 : (m.filter (fun kv => hasPrefix p kv.1)).Pairwise (fun a b => blt a.1 b.1 = true) := List.Pairwise.filter _ hs
  apply List.Pairwise.imp_of_mem _ h1
  intro a b ha hb hab
  obtain ⟨ta, hta⟩ := (hasPrefix_iff p a.1).mp (List.mem_filter.mp ha).2
  obtain ⟨tb, htb⟩ := (hasPrefix_iff p b.1).mp (List.mem_filter.mp hb).2
  simp only [strip, hta, htb, List.drop_left]
  rw [hta, htb, blt_append_left] at hab
  exact hab

theorem restrict_set (p : Bytes) {m : Ref} (hs : Sorted m) (k v : Bytes) :
    restrict p (Ref.set m (p ++ k) v) = Ref.set (restrict p m) k v :=
  sorted_eq_of_get (restrict_sorted p (Ref.set_sorted hs _ _)) (Ref.set_sorted (restrict_sorted p hs) _ _)
    (fun k' => prefixdb_set_refines p m k v k')

theorem restrict_del (p : Bytes) {m : Ref} (hs : Sorted m) (k : Bytes) :
    restrict p (Ref.del m (p ++ k)) = Ref.del (restrict p m) k :=
  sorted_eq_of_get (restrict_sorted p (Ref.del_sorted hs _)) (Ref.del_sorted (restrict_sorted p hs) _)
    (fun k' => prefixdb_del_refines p m k k')

/-- writing a view's batch = writing the prefixed ops into the store -/
theorem writeBatch_pfx {σ : Type} (I : DBI σ) (p : Bytes) (db : σ) (ops : List BOp) :
    writeBatch (pfxI I p) db ops = writeBatch I db (prefixBatch p ops) := by
  unfold writeBatch prefixBatch
  rw [List.foldl_map]
  congr 1
  funext d o
  cases o <;> rfl

theorem restrict_writeBatch (p : Bytes) {m : Ref} (hs : Sorted m) (ops : List BOp) :
    restrict p (writeBatch refI m (prefixBatch p ops)) = writeBatch refI (restrict p m) ops := by
  unfold writeBatch prefixBatch
  induction ops generalizing m with
  | nil => rfl
  | cons o os ih =>
    simp only [List.map_cons, List.foldl_cons]
    cases o with
    | set k v =>
      show restrict p (List.foldl (applyBOp refI) (Ref.set m (p ++ k) v) _) = List.foldl (applyBOp refI) (Ref.set (restrict p m) k v) os
      rw [ih (Ref.set_sorted hs _ _), restrict_set p hs]
    | del k =>
      show restrict p (List.foldl (applyBOp refI) (Ref.del m (p ++ k)) _) = List.foldl (applyBOp refI) (Ref.del (restrict p m) k) os
      rw [ih (Ref.del_sorted hs _), restrict_del p hs]

/-! ## (a) PrefixDB over MemDB -/

/-- PREFIXDB OVER MEMDB REFINES: for a non-empty prefix, ANY store content (`Sim db ref`: the MemDB's Go map and its sorted
reference) and EVERY sequence of view operations - Set/Delete, Get/Has, Iterator/ReverseIterator with any bounds, written batches -
the view over the MemDB model answers exactly like the reference map `restrict p ref` (the entries under the prefix, stripped).
PRECONDITION (types.go): each iterator is created, drained and closed with no write in between - `Op.iter`/`Op.riter` are atomic. -/
theorem prefixdb_over_memdb_refines (p : Bytes) (hp : p ≠ []) {db : MemDB} {ref : Ref} (h : Sim db ref) (ops : List Op) :
    runI (pfxI memI p) db ops = runI refI (restrict p ref) ops := by
  induction ops generalizing db ref with
  | nil => rfl
  | cons op rest ih =>
    cases op with
    | set k v =>
      show Out.unit :: runI (pfxI memI p) (db.set (p ++ k) v) rest = Out.unit :: runI refI (Ref.set (restrict p ref) k v) rest
      rw [ih (sim_set h (p ++ k) v), restrict_set p h.sorted]
    | del k =>
      show Out.unit :: runI (pfxI memI p) (db.del (p ++ k)) rest = Out.unit :: runI refI (Ref.del (restrict p ref) k) rest
      rw [ih (sim_del h (p ++ k)), restrict_del p h.sorted]
    | get k =>
      show Out.val (db.get (p ++ k)) :: runI (pfxI memI p) db rest = Out.val (Ref.get (restrict p ref) k) :: runI refI (restrict p ref) rest
      rw [ih h, h.get, get_append_restrict]
    | has k =>
      show Out.bool (db.get (p ++ k)).isSome :: runI (pfxI memI p) db rest
         = Out.bool (Ref.get (restrict p ref) k).isSome :: runI refI (restrict p ref) rest
      rw [ih h, h.get, get_append_restrict]
    | iter s e =>
      show Out.kvs (prefixTake p (db.iter (pfxBoundsFwd p s e).1 (pfxBoundsFwd p s e).2)) :: runI (pfxI memI p) db rest
         = Out.kvs (Ref.iter (restrict p ref) s e) :: runI refI (restrict p ref) rest
      rw [ih h, memdb_iter_spec h, ← prefixdb_iter_refines]
      rfl
    | riter s e =>
      have h1 : pfxRIter memI db p s e = pfxRIter refI ref p s e := by
        unfold pfxRIter
        congr 1
        funext b
        show _ = _
        simp only [memI, refI, memdb_riter_spec h]
      show Out.kvs ((pfxRIter memI db p s e).getD []) :: runI (pfxI memI p) db rest
         = Out.kvs (Ref.riter (restrict p ref) s e) :: runI refI (restrict p ref) rest
      rw [ih h, h1, prefixdb_riter_refines p ref s e h.sorted hp]
      rfl
    | write b =>
      show Out.unit :: runI (pfxI memI p) (writeBatch (pfxI memI p) db b) rest
         = Out.unit :: runI refI (writeBatch refI (restrict p ref) b) rest
      rw [writeBatch_pfx, ih (sim_write h (prefixBatch p b)), restrict_writeBatch p h.sorted]

/-- the keys outside the prefix are never touched, whatever the view does -/
theorem writeBatch_pfx_isolated (p : Bytes) (m : Ref) (ops : List BOp) (k' : Bytes) (h : hasPrefix p k' = false) :
    Ref.get (writeBatch refI m (prefixBatch p ops)) k' = Ref.get m k' := by
  unfold writeBatch prefixBatch
  induction ops generalizing m with
  | nil => rfl
  | cons o os ih =>
    simp only [List.map_cons, List.foldl_cons]
    rw [ih]
    cases o with
    | set k v => exact (prefixdb_isolated p m k v k' h).1
    | del k => exact (prefixdb_isolated p m k k k' h).2

/-! ## (b) batches built through a view -/

/-- PREFIX BATCH, ATOMIC AND ORDERED: writing a batch that was built through a view (`prefixBatch p ops` = the calls `ops` in call
order, each under `p ++ key`) (1) changes the view exactly as the plain batch `ops` changes the view's reference map - every key
ends with the value of the LAST op on it, in the batch's own order - and (2) changes nothing outside the prefix. -/
theorem prefix_batch_atomic_ordered (p : Bytes) {m : Ref} (hs : Sorted m) (ops : List BOp) :
    restrict p (writeBatch refI m (prefixBatch p ops)) = writeBatch refI (restrict p m) ops ∧
    (∀ k, Ref.get (restrict p (writeBatch refI m (prefixBatch p ops))) k = batchEffect ops k (Ref.get (restrict p m) k)) ∧
    (∀ k', hasPrefix p k' = false → Ref.get (writeBatch refI m (prefixBatch p ops)) k' = Ref.get m k') := by
  refine ⟨restrict_writeBatch p hs ops, ?_, fun k' h => writeBatch_pfx_isolated p m ops k' h⟩
  intro k
  rw [restrict_writeBatch p hs ops]
  exact (batch_atomic_ordered (restrict p m) ops k).2

/-- after `Reset` the view's batch is empty and writes nothing -/
theorem prefix_batch_reset (p : Bytes) (m : Ref) : writeBatch refI m (prefixBatch p []) = m := rfl

/-- NO ALIASING: recording one more op appends exactly one op and leaves every earlier recorded op (key included) as it was;
the i-th recorded op is the i-th call under the prefix.  Go-level law behind it: `prefixBatch.Set/Delete` hands the source batch
`append(cp(prefix), key...)`, a slice no later call writes to; the harness observation `batch-keeps-only-last-key` (views built on a
prefix slice WITH spare capacity, several keys per batch, two batches interleaved) is the run-time tie of this law. -/
theorem prefix_batch_no_alias (p : Bytes) (ops : List BOp) (op : BOp) (i : Nat) :
    prefixBatch p (ops ++ [op]) = prefixBatch p ops ++ [prefixOp p op] ∧
    (prefixBatch p ops)[i]? = (ops[i]?).map (prefixOp p) := by
  unfold prefixBatch
  exact ⟨by simp, by simp⟩

theorem prefixOp_injective (p : Bytes) : Function.Injective (prefixOp p) := by
  intro a b h
  cases a <;> cases b <;> simp [prefixOp] at h ⊢ <;> exact h

/-- two batches of one view recorded in ANY interleaving: each holds exactly its own calls, in its own order -/
def recordTwo (p : Bytes) : List (Bool × BOp) → List BOp × List BOp
  | [] => ([], [])
  | (which, op) :: rest =>
    let (b1, b2) := recordTwo p rest
    if which then (prefixOp p op :: b1, b2) else (b1, prefixOp p op :: b2)

theorem prefix_batches_interleaved (p : Bytes) (calls : List (Bool × BOp)) :
    recordTwo p calls = (prefixBatch p ((calls.filter (·.1)).map (·.2)), prefixBatch p ((calls.filter (fun c => !c.1)).map (·.2))) := by
  induction calls with
  | nil => rfl
  | cons c rest ih =>
    obtain ⟨w, op⟩ := c
    simp only [recordTwo, ih]
    cases w <;> simp [prefixBatch]

example : recordTwo [0x70] [(true, .set [1] [1]), (false, .set [0x0a] [0x0a]), (true, .set [2] [2])]
    = ([.set [0x70, 1] [1], .set [0x70, 2] [2]], [.set [0x70, 0x0a] [0x0a]]) := by decide
example : restrict [0x70] (writeBatch refI [([0x6f], [9])] (prefixBatch [0x70] [.set [1] [1], .set [2] [2], .del [1]]))
    = [([2], [2])] := by decide

/-! ## (c) the engines on ANY op sequence: the empty key -/

/-- one op on an engine, with its empty-key rules (`Model.KV.Engine`) -/
def stepE (e : Engine) (I : DBI Ref) (m : Ref) : Op → Ref × Out
  | .set k v => if e.stores k then (I.set m k v, .unit) else (m, .unit)
  | .del k => if e.panicsOnDelete k then (m, .panic) else (I.del m k, .unit)
  | .get k => if e.panicsOnRead k then (m, .panic) else (m, .val (I.get m k))
  | .has k => if e.panicsOnRead k then (m, .panic) else (m, .bool (I.get m k).isSome)
  | .iter s t => (m, .kvs (I.iter m s t))
  | .riter s t => (m, .kvs (I.riter m s t))
  | .write b => (writeBatch I m (e.batchOps b), .unit)

def runE (e : Engine) (I : DBI Ref) : Ref → List Op → List Out
  | _, [] => []
  | m, op :: rest => let (m', o) := stepE e I m op; o :: runE e I m' rest

/-- the op the reference sees instead: a refused write becomes a delete of that (absent) key, a batch loses its refused ops -/
def sanitize (e : Engine) : Op → Op
  | .set k v => if e.stores k then .set k v else .del k
  | .write b => .write (e.batchOps b)
  | op => op

def panics (e : Engine) : Op → Bool
  | .del k => e.panicsOnDelete k
  | .get k => e.panicsOnRead k
  | .has k => e.panicsOnRead k
  | _ => false

def markPanics (e : Engine) : List Op → List Out → List Out
  | op :: ops, o :: outs => (if panics e op then Out.panic else o) :: markPanics e ops outs
  | _, _ => []

/-- no entry under the empty key -/
def NoEmpty (m : Ref) : Prop := Ref.get m [] = none

theorem del_absent {m : Ref} {k : Bytes} (h : Ref.get m k = none) : Ref.del m k = m := by
  unfold Ref.del
  rw [List.filter_eq_self]
  intro kv hkv
  by_cases hk : kv.1 = k
  · exfalso
    have : k ∈ keysOf m := by unfold keysOf; exact List.mem_map.mpr ⟨kv, hkv, hk⟩
    rw [mem_keys_iff_get, h] at this
    cases this
  · simp [hk]

theorem stores_false_iff {e : Engine} {k : Bytes} (h : e.stores k = false) : k = [] ∧ e.stores [] = false := by
  cases e <;> simp [Engine.stores] at h ⊢ <;> (cases k <;> simp_all)

theorem panics_key {e : Engine} {k : Bytes} (h : e.panicsOnRead k = true ∨ e.panicsOnDelete k = true) : k = [] := by
  cases e <;> cases k <;> simp [Engine.panicsOnRead, Engine.panicsOnDelete] at h ⊢

theorem batchEffect_batchOps_noEmpty (e : Engine) (he : e.stores [] = false) (b : List BOp) :
    batchEffect (e.batchOps b) [] none = none := by
  apply batchEffect_noEmpty
  intro op hop
  unfold Engine.batchOps at hop
  have := (List.mem_filter.mp hop).2
  cases op with
  | set k v =>
    show k ≠ []
    intro hk; subst hk
    simp only at this
    rw [he] at this; cases this
  | del k => trivial

theorem writeBatch_congr (I : DBI Ref) (hset : I.set = Ref.set) (hdel : I.del = Ref.del) (m : Ref) (b : List BOp) :
    writeBatch I m b = writeBatch refI m b := by
  unfold writeBatch
  congr 1
  funext d o
  cases o with
  | set k v => show I.set d k v = Ref.set d k v; rw [hset]
  | del k => show I.del d k = Ref.del d k; rw [hdel]

/-- one engine step = the reference step on the sanitized op, with the engine's panic marked -/
theorem stepE_eq (e : Engine) (I : DBI Ref) (hdel : I.del = Ref.del) {m : Ref} (h0 : NoEmpty m) (op : Op) :
    stepE e I m op = ((stepI I m (sanitize e op)).1, if panics e op then Out.panic else (stepI I m (sanitize e op)).2) := by
  cases op with
  | set k v =>
    by_cases hk : e.stores k = true
    · simp [stepE, sanitize, stepI, panics, hk]
    · have hk' : e.stores k = false := by simpa using hk
      obtain ⟨hke, _⟩ := stores_false_iff hk'
      subst hke
      simp [stepE, sanitize, stepI, panics, hk', hdel, del_absent h0]
  | del k =>
    by_cases hp : e.panicsOnDelete k = true
    · have hk : k = [] := panics_key (Or.inr hp)
      subst hk
      simp [stepE, sanitize, stepI, panics, hp, hdel, del_absent h0]
    · have hp' : e.panicsOnDelete k = false := by simpa using hp
      simp [stepE, sanitize, stepI, panics, hp']
  | get k => by_cases hp : e.panicsOnRead k = true <;> simp [stepE, sanitize, stepI, panics, hp]
  | has k => by_cases hp : e.panicsOnRead k = true <;> simp [stepE, sanitize, stepI, panics, hp]
  | iter s t => simp [stepE, sanitize, stepI, panics]
  | riter s t => simp [stepE, sanitize, stepI, panics]
  | write b => simp [stepE, sanitize, stepI, panics]

/-- an engine that refuses the empty key never holds it -/
theorem stepE_noEmpty (e : Engine) (I : DBI Ref) (hset : I.set = Ref.set) (hdel : I.del = Ref.del)
    (he : e.stores [] = false) {m : Ref} (h0 : NoEmpty m) (op : Op) : NoEmpty (stepE e I m op).1 := by
  unfold NoEmpty at *
  cases op with
  | set k v =>
    by_cases hk : e.stores k = true
    · have hne : k ≠ [] := by intro hk'; subst hk'; rw [he] at hk; cases hk
      simp only [stepE, hk, if_true, hset]
      rw [Ref.get_set]; simp [hne, h0]
    · have hk' : e.stores k = false := by simpa using hk
      simp [stepE, hk', h0]
  | del k =>
    by_cases hp : e.panicsOnDelete k = true
    · simp [stepE, hp, h0]
    · have hp' : e.panicsOnDelete k = false := by simpa using hp
      simp only [stepE, hp', Bool.false_eq_true, if_false, hdel]
      rw [Ref.get_del]; by_cases hk : k = [] <;> simp [hk, h0]
  | get k => by_cases hp : e.panicsOnRead k = true <;> simp [stepE, hp, h0]
  | has k => by_cases hp : e.panicsOnRead k = true <;> simp [stepE, hp, h0]
  | iter s t => exact h0
  | riter s t => exact h0
  | write b =>
    simp only [stepE]
    rw [writeBatch_congr I hset hdel, (batch_atomic_ordered m (e.batchOps b) []).2, h0]
    exact batchEffect_batchOps_noEmpty e he b

/-- ENGINE RUN: for an engine that refuses the empty key, ANY op sequence answers like the reference on the sanitized sequence,
with the engine's panics marked; the store never holds the empty key.  `I` is the engine's `DBI`. -/
theorem engine_run (e : Engine) (I : DBI Ref) (hset : I.set = Ref.set) (hdel : I.del = Ref.del)
    (he : e.stores [] = false) {m : Ref} (h0 : NoEmpty m) (ops : List Op) :
    runE e I m ops = markPanics e ops (runI I m (ops.map (sanitize e))) := by
  induction ops generalizing m with
  | nil => rfl
  | cons op rest ih =>
    have h1 := stepE_eq e I hdel h0 op
    have h2 := stepE_noEmpty e I hset hdel he h0 op
    show (stepE e I m op).2 :: runE e I (stepE e I m op).1 rest
       = markPanics e (op :: rest) ((stepI I m (sanitize e op)).2 :: runI I (stepI I m (sanitize e op)).1 (rest.map (sanitize e)))
    rw [ih h2, h1]
    rfl

/-- every sanitized op writes no empty key -/
theorem sanitize_noEmptyKey (e : Engine) (he : e.stores [] = false) (op : Op) : (sanitize e op).noEmptyKey := by
  cases op with
  | set k v =>
    by_cases hk : e.stores k = true
    · have hne : k ≠ [] := by intro hk'; subst hk'; rw [he] at hk; cases hk
      simp [sanitize, hk, Op.noEmptyKey, hne]
    · have hk' : e.stores k = false := by simpa using hk
      simp [sanitize, hk', Op.noEmptyKey]
  | write b =>
    simp only [sanitize, Op.noEmptyKey]
    intro op hop
    have := (List.mem_filter.mp hop).2
    cases op with
    | set k v =>
      show k ≠ []
      intro hk; subst hk
      simp only at this
      rw [he] at this; cases this
    | del k => trivial
  | del k => simp [sanitize, Op.noEmptyKey]
  | get k => simp [sanitize, Op.noEmptyKey]
  | has k => simp [sanitize, Op.noEmptyKey]
  | iter s t => simp [sanitize, Op.noEmptyKey]
  | riter s t => simp [sanitize, Op.noEmptyKey]

/-- ALL ENGINES, ANY OP SEQUENCE (no hypothesis on keys): memdb and goleveldb answer like the reference; bolt answers like the
reference on the sequence in which every refused (empty-key) write is a no-op; badger likewise, except that `Get`/`Has`/`Delete` of
the empty key panic.  Consequently all four agree on every sequence that does not touch the empty key (`backends_agree`). -/
theorem engines_agree (ops : List Op) :
    runI memI ⟨[]⟩ ops = runI refI [] ops ∧
    runI ldbI [] ops = runI refI [] ops ∧
    runE .bolt refI [] ops = runI refI [] (ops.map (sanitize .bolt)) ∧
    runE .bdg bdgI [] ops = markPanics .bdg ops (runI refI [] (ops.map (sanitize .bdg))) := by
  refine ⟨memdb_refines_ref ops, rfl, ?_, ?_⟩
  · rw [engine_run .bolt refI rfl rfl rfl (show NoEmpty [] from rfl) ops]
    have : ∀ (os : List Op) (outs : List Out), os.length = outs.length → markPanics .bolt os outs = outs := by
      intro os
      induction os with
      | nil => intro outs h; cases outs <;> simp_all [markPanics]
      | cons o os ih =>
        intro outs h
        cases outs with
        | nil => simp at h
        | cons x xs =>
          have hp : panics .bolt o = false := by
            cases o <;> simp [panics, Engine.panicsOnDelete, Engine.panicsOnRead]
          simp only [markPanics, hp, Bool.false_eq_true, if_false]
          rw [ih xs (by simpa using h)]
    apply this
    clear this
    generalize ([] : Ref) = m
    induction ops generalizing m with
    | nil => rfl
    | cons o os ih => simp only [List.map_cons, runI, List.length_cons]; rw [← ih]
  · rw [engine_run .bdg bdgI rfl rfl rfl (show NoEmpty [] from rfl) ops]
    congr 1
    apply bdg_run_eq_ref (by simp [Sorted]) rfl
    intro op hop
    obtain ⟨o, _, rfl⟩ := List.mem_map.mp hop
    exact sanitize_noEmptyKey .bdg rfl o

/-! ## (d) iterators and writes between their steps

Contract (`libs/db/types.go`): "No writes may happen within a domain while an iterator exists over it."  In `Op`, an iteration is
one atomic op, i.e. the contract is built into `runI`; `memdb_stepwise_iter` states it as an explicit precondition for the step-wise
iterator of the MemDB model.  What the engines do when the contract is BROKEN (observed on the real adapters, not a guarantee):
  goleveldb, badger : full snapshot taken at creation (keys and values);
  memdb             : keys as of creation, values as of the `Value()` call; a key deleted meanwhile is still delivered, with a nil value
                      (`memdb_stepwise_keys_snapshot`);
  bolt              : no snapshot - every `Next` re-seeks the stored current key in the live bucket: later inserts ahead of the cursor are
                      seen, the current item is the one fetched by the previous `Next` (old value, even if deleted), and deleting the
                      current key makes a forward iterator SKIP the next key.
Within the contract all four deliver the content as of creation; the harness stream `stepwise` (iterators stepped between reads and
writes outside their domains) ties that to the engines. -/

/-- PRECONDITION: during the life of the iterator no map state differs from the creation state on a key the iterator will deliver -/
def NoWriteInDomain (it : MemIt) (db0 : MemDB) (history : List MemDB) : Prop :=
  ∀ now ∈ history, ∀ k ∈ it.keys, now.get k = db0.get k

theorem memit_run_eq (keys : List Bytes) (db0 : MemDB) (history : List MemDB)
    (h : NoWriteInDomain ⟨keys⟩ db0 history) (hlen : keys.length ≤ history.length) :
    MemIt.run ⟨keys⟩ history = db0.drain keys := by
  induction keys generalizing history with
  | nil => cases history <;> simp [MemIt.run, MemIt.step, MemDB.drain]
  | cons k ks ih =>
    cases history with
    | nil => simp at hlen
    | cons now later =>
      have hk : now.get k = db0.get k := h now List.mem_cons_self k List.mem_cons_self
      have h' : NoWriteInDomain ⟨ks⟩ db0 later :=
        fun n hn x hx => h n (List.mem_cons_of_mem _ hn) x (List.mem_cons_of_mem _ hx)
      simp only [MemIt.run, MemIt.step, hk]
      rw [ih later h' (by simpa using hlen)]
      simp [MemDB.drain]

/-- STEP-WISE = DRAINED, under the contract: a MemDB iterator that is stepped while the map changes only outside its domain
delivers exactly `Iterator(s, e)` resp. `ReverseIterator(s, e)` of the creation state, i.e. (with `Sim`) the reference iteration -/
theorem memdb_stepwise_iter {db0 : MemDB} {ref : Ref} (hsim : Sim db0 ref) (s e : Bound) (rev : Bool) (history : List MemDB)
    (h : NoWriteInDomain (db0.openIt s e rev) db0 history) (hlen : (db0.openIt s e rev).keys.length ≤ history.length) :
    (db0.openIt s e rev).run history = (if rev then Ref.riter ref s e else Ref.iter ref s e) := by
  have := memit_run_eq (db0.openIt s e rev).keys db0 history h hlen
  show MemIt.run ⟨(db0.openIt s e rev).keys⟩ history = _
  rw [this]
  cases rev with
  | false => exact memdb_iter_spec hsim s e
  | true => exact memdb_riter_spec hsim s e

/-- outside the contract: the delivered KEYS are still those of the creation state, whatever happened to the map -/
theorem memdb_stepwise_keys_snapshot (keys : List Bytes) (history : List MemDB) (hlen : keys.length ≤ history.length) :
    (MemIt.run ⟨keys⟩ history).map (·.1) = keys := by
  induction keys generalizing history with
  | nil => cases history <;> simp [MemIt.run, MemIt.step]
  | cons k ks ih =>
    cases history with
    | nil => simp at hlen
    | cons now later =>
      simp only [MemIt.run, MemIt.step, List.map_cons]
      rw [ih later (by simpa using hlen)]

/-- ... and a key deleted meanwhile is delivered with the nil (empty) value -/
example : MemIt.run (MemDB.openIt ⟨[([1], [1]), ([5], [5])]⟩ none none false) [⟨[([1], [1]), ([5], [5])]⟩, ⟨[([1], [1])]⟩]
    = [([1], [1]), ([5], [])] := by decide

example : runE .bdg bdgI [] [.set [] [1], .set [1] [1], .get [], .del [], .write [.set [] [2], .set [2] [2]], .iter none none]
    = [.unit, .unit, .panic, .panic, .unit, .kvs [([1], [1]), ([2], [2])]] := by decide
example : runE .bolt refI [] [.set [] [1], .get [], .del [], .write [.set [] [2], .set [2] [2]], .iter none none]
    = [.unit, .val none, .unit, .unit, .kvs [([2], [2])]] := by decide

/-! ## (e) `Seek`, `Domain`, `ValueSize` (coverage round) -/

/-- SEEK (store adapters): after `Seek(k)` a forward iterator delivers exactly the reference iteration of `[k, end)` - every
delivered key is at or above `k` and below the end bound, in ascending order - and the answer says whether there is any -/
theorem seek_forward_spec {m : Ref} (hs : Sorted m) (c : Cursor) (hc : c.rev = false) (k : Bound) :
    (seekStore refI m c k).1.rest = Ref.iter m k c.e ∧
    (seekStore refI m c k).2 = !(Ref.iter m k c.e).isEmpty ∧
    (seekStore refI m c k).1.s = k ∧ (seekStore refI m c k).1.e = c.e ∧
    Sorted (seekStore refI m c k).1.rest ∧ ∀ kv ∈ (seekStore refI m c k).1.rest, inFwd kv.1 k c.e = true := by
  have h : (seekStore refI m c k).1.rest = Ref.iter m k c.e := by simp [seekStore, hc, refI]
  refine ⟨h, by simp [seekStore, hc, refI], rfl, rfl, ?_, ?_⟩
  · rw [h]; exact (Ref.iter_spec hs k c.e).1
  · rw [h]; intro kv hkv; exact (List.mem_filter.mp hkv).2

theorem seek_reverse_spec (m : Ref) (c : Cursor) (hc : c.rev = true) (k : Bound) :
    (seekStore refI m c k).1.rest = Ref.riter m k c.e ∧ (seekStore refI m c k).1.s = k := by
  simp [seekStore, hc, refI]

/-- FULL STATEMENT: `Seek` on an iterator of a PrefixDB view repositions it like `Seek` on the view's reference map -/
def prefix_seek_statement : Prop :=
  ∀ (m : Ref) (p : Bytes) (c : Cursor) (k : Bound), p ≠ [] → c.rev = false →
    (seekView refI m p c k).1.rest = Ref.iter (restrict p m) k c.e

/-- FALSE of the current code (KNOWN FINDING prefix-seek-no-effect): `prefixIterator.Seek` has a value receiver, the caller's iterator
is not moved at all: view {01, 03}, a fresh iterator, Seek(03), and the next item is still 01 -/
theorem prefix_seek_counterexample : ¬ prefix_seek_statement := by
  intro h
  have := h [([0x70, 1], [1]), ([0x70, 3], [3])] [0x70]
    { rest := [([1], [1]), ([3], [3])], s := none, e := none, rev := false } (some [3]) (by decide) rfl
  revert this
  decide

/-- PARTIAL: what it does instead - nothing -/
theorem prefix_seek_partial {σ : Type} (I : DBI σ) (db : σ) (p : Bytes) (c : Cursor) (k : Bound) :
    (seekView I db p c k).1 = c := rfl

/-- ALL FOUR ADAPTERS' `Seek` AGREE (86092ca included: badger's Seek with the empty key on a reverse iterator is invalid, like its
constructor): on related stores - `Sim db ref` for memdb, the reference itself for goleveldb and bolt, a sorted reference without the
empty key for badger (it cannot hold one) - `Seek(k)` leaves every adapter's iterator with the same items, the same `Domain()` and
the same answer, for every key incl. nil and the empty key, forward and reverse -/
theorem seek_adapters_agree {db : MemDB} {ref : Ref} (h : Sim db ref) (h0 : NoEmpty ref) (c : Cursor) (k : Bound) :
    seekStore memI db c k = seekStore refI ref c k ∧
    seekStore ldbI ref c k = seekStore refI ref c k ∧
    seekStore bdgI ref c k = seekStore refI ref c k := by
  refine ⟨?_, rfl, ?_⟩
  · unfold seekStore
    cases hc : c.rev with
    | false =>
      have : memI.iter db k c.e = refI.iter ref k c.e := memdb_iter_spec h k c.e
      simp [this]
    | true =>
      have : memI.riter db k c.e = refI.riter ref k c.e := memdb_riter_spec h k c.e
      simp [this]
  · unfold seekStore
    cases hc : c.rev with
    | false => rfl
    | true =>
      have : bdgI.riter ref k c.e = refI.riter ref k c.e := bdg_riter_eq_ref h.sorted h0 k c.e
      simp [this]

/-- the empty key on a reverse iterator: nothing at or below it, on every adapter -/
example : (seekStore bdgI [([1], [1]), ([3], [3])] { rest := [([3], [3])], s := none, e := none, rev := true } (some [])).1.rest = []
    ∧ (seekStore refI [([1], [1]), ([3], [3])] { rest := [([3], [3])], s := none, e := none, rev := true } (some [])).1.rest = [] := by decide

/-- FULL STATEMENT: nothing of a batch is visible before `Write`, whatever its size -/
def big_batch_atomic_statement : Prop := ∀ (e : Engine) (n : Nat), bigBatchEarly e n = 0

/-- FALSE of the current code (KNOWN FINDING big-batch-split): 100001 ops on bolt, 40000 on badger -/
theorem big_batch_atomic_counterexample : ¬ big_batch_atomic_statement := by
  intro h
  have := h .bdg 40000
  revert this
  decide

/-- PARTIAL: memBatch and goleveldb at every size; bolt up to 100000 ops; badger below the pinned 40000 -/
theorem big_batch_atomic_partial (n : Nat) :
    bigBatchEarly .mem n = 0 ∧ bigBatchEarly .ldb n = 0 ∧ (n ≤ 100000 → bigBatchEarly .bolt n = 0) ∧ (n < 40000 → bigBatchEarly .bdg n = 0) := by
  refine ⟨rfl, rfl, ?_, ?_⟩
  · intro hn; simp [bigBatchEarly]; omega
  · intro hn; simp [bigBatchEarly]; omega

/-- `ValueSize()`: 0 after Reset on every adapter; memBatch counts the bytes of the values (+1 per delete) -/
theorem valueSize_reset (e : Engine) (sz : Nat) : e.valueSize sz .reset = 0 := rfl
theorem valueSize_mem (sz n : Nat) : Engine.valueSize .mem sz (.set n) = sz + n ∧ Engine.valueSize .mem sz .del = sz + 1 := ⟨rfl, rfl⟩

/-- FULL STATEMENT (what `libs/trie/database.go` relies on when it flushes at `ValueSize() >= IdealBatchSize`): the counter is at
least the number of value bytes queued -/
def valuesize_counts_bytes_statement : Prop :=
  ∀ (e : Engine) (sz n : Nat), sz + n ≤ e.valueSize sz (.set n)

/-- FALSE - a fact about the adapters, NOT a clause of C19 (a flush-threshold/performance matter, recorded as an observation):
goleveldb never counts (always 0), bolt and badger count ops -/
theorem valuesize_counts_bytes_counterexample : ¬ valuesize_counts_bytes_statement := by
  intro h
  have := h .ldb 0 1
  revert this
  decide

theorem valuesize_counts_bytes_partial (sz n : Nat) : sz + n ≤ Engine.valueSize .mem sz (.set n) := Nat.le_refl _

example : (seekStore refI [([2], [2]), ([4], [4]), ([6], [6])] { rest := [], s := some [3], e := some [7], rev := false } (some [1])).1.rest
    = [([2], [2]), ([4], [4]), ([6], [6])] := by decide

end Props.C19
