/-
C10 — The state trie root is a canonical commitment and its proofs are sound.

Property theorems about `Model.Trie` (the transcription of libs/trie; helper lemmas in C10Basic / C10Canon / C10Insert).

Proved here (kernel-checked, no hash assumption anywhere):
  * `insert_no_panic`, `insert_keeps_normal_form`, `get_insert_same`, `get_insert_other`  (lookups return the last written value)
  * `canonical`            two normal-form tries with the same lookups are the same tree, hence have the same root for ANY hash `H`
  * `history_free`         two update histories (inserts/overwrites, any order, any length) with the same final content
                           produce the same tree and the same root
  * `secure_history_free`  the same for the secure trie (keys mapped through any `hk`, e.g. Keccak)
False of the current code (kept at full strength, kernel-checked counterexample + true part):
  * `C10_iter_byte_order_statement`   (iteration in bytes.Compare key order) — known finding iterator-prefix-key-order
  * `C10_honest_proof_statement`      (every trie, incl. the empty one, yields a non-empty proof) — known finding empty-trie-proof-unverifiable
  * `C10_delete` (delete never panics, keeps the normal form, removes exactly the key), `get_delete_same/other`,
    `C10_history_free_with_deletes` (any two insert/overwrite/delete histories with the same final content give the same tree)
  * `C10_iter` (iteration enumerates exactly the content, HEX keys only, strictly increasing in path order),
    `C10_iter_byte_order_partial` (path order = bytes.Compare order on keys of equal length)
  * `C10_proof_sound`, `tamper_detected`: under `Function.Injective H` (hypothesis) and "the decoder inverts the honest
    encoder" (hypothesis), VerifyProof over ANY content-addressed database returns the true claim or fails, never panics
  * `C10_proof_complete`: the proof built by `Prove` (`proofNodes`) verifies to the true claim within `len(key)+1` nodes
  * executable verifier (`verifyExec` = VerifyProof with the executable `decodeNode`), NO decoder hypothesis:
    `decode_enc` (C10Decode: decodeNode (enc H s ++ rest) = collapse H s), `C10_proof_sound_exec`, `tamper_detected_exec`,
    `C10_proof_complete_exec` (present and absent keys); hypotheses: 32-byte hash outputs, no collision between database
    entries and honest path-node encodings (`NoColl`, implied by injectivity), data precondition `Sane`
  * `root_canonical` (API level: same key → value map ⇒ same tree and root, inserts/updates/deletes in any order),
    `encC_collapse` (hashed and unhashed node forms encode to the same bytes), `root_binding` / `enc_injective`
    (same root ⇒ same tree, under collision-freeness on the node encodings of the two tries)
  * C10Reload.`C10_reload`: commit + reopen (full resolution of the root hash through the node database and the executable
    decoder) gives back the same tree; `expand_collapse`
  * `sane_runB` (with C10Sane.`sane_of_content`): the data precondition `Sane` holds for every trie built through `update`
    from keys < 2^31 bytes and values < 2^32 bytes
-/
import LinkVerif.Props.C10Reload

namespace Props.C10
open Model.Trie

/-- a HEX key as produced by `keybytesToHex`: non-empty, the terminator exactly at the end -/
def HexKey (key : List Nib) : Prop := KeyAt false key

/-- the state of a trie: empty, or a normal-form node that is not a bare value -/
def RootWF (n : Node) : Prop := Pos false n

theorem rootWF_nil : RootWF .nil := Or.inl rfl

theorem fin17_ne_term (n : Nat) (h : n < 16) : Fin.ofNat 17 n ≠ term := by
  intro e
  have := congrArg Fin.val e
  simp [Fin.ofNat, term] at this
  omega

/-- `keybytesToHex` always produces a HEX key (so every API call addresses the trie with one) -/
theorem keybytesToHex_hex (bs : Bytes) : HexKey (keybytesToHex bs) := by
  refine ⟨?_, ?_⟩
  · induction bs with
    | nil => simp [keybytesToHex, Suf]
    | cons b bs ih =>
      have h1 : Fin.ofNat 17 (b.toNat / 16) ≠ term := fin17_ne_term _ (by have := b.toNat_lt; omega)
      have h2 : Fin.ofNat 17 (b.toNat % 16) ≠ term := fin17_ne_term _ (by omega)
      have hne : keybytesToHex bs ≠ [] := by cases bs <;> simp [keybytesToHex]
      show Suf (_ :: _ :: keybytesToHex bs)
      exact ⟨by simp [h1], by simp [h2, hne], ih⟩
  · cases bs <;> simp [keybytesToHex]

/-! ## 1. Lookups return the last written value; insertion never panics and keeps the normal form -/

theorem insert_no_panic (n : Node) (key : List Nib) (x : Bytes) (hn : RootWF n) (hk : HexKey key) :
    ∃ n', Model.Trie.insert n key (.value x) = some n' :=
  let ⟨n', h, _⟩ := insert_spec x n false key hn hk
  ⟨n', h⟩

theorem insert_keeps_normal_form (n n' : Node) (key : List Nib) (x : Bytes) (hn : RootWF n) (hk : HexKey key)
    (h : Model.Trie.insert n key (.value x) = some n') : RootWF n' := by
  obtain ⟨n'', h', hw, hv, _⟩ := insert_spec x n false key hn hk
  rw [h] at h'; cases h'
  exact Or.inr ⟨hw, hv⟩

theorem get_insert_same (n n' : Node) (key : List Nib) (x : Bytes) (hn : RootWF n) (hk : HexKey key)
    (h : Model.Trie.insert n key (.value x) = some n') : Model.Trie.get n' key = some x := by
  obtain ⟨n'', h', _, _, _, hg⟩ := insert_spec x n false key hn hk
  rw [h] at h'; cases h'
  simpa using hg key hk

theorem get_insert_other (n n' : Node) (key key' : List Nib) (x : Bytes) (hn : RootWF n) (hk : HexKey key)
    (hk' : HexKey key') (hne : key' ≠ key)
    (h : Model.Trie.insert n key (.value x) = some n') : Model.Trie.get n' key' = Model.Trie.get n key' := by
  obtain ⟨n'', h', _, _, _, hg⟩ := insert_spec x n false key hn hk
  rw [h] at h'; cases h'
  simpa [hne] using hg key' hk'

/-- the API level: `Update(key, value)` with a non-empty value, then `Get(key)` -/
theorem lookup_update_same (n : Node) (key v : Bytes) (hn : RootWF n) (hv : v ≠ []) :
    ∃ n', update n key v = some n' ∧ lookup n' key = some v := by
  obtain ⟨n', h⟩ := insert_no_panic n (keybytesToHex key) v hn (keybytesToHex_hex key)
  refine ⟨n', ?_, get_insert_same n n' _ v hn (keybytesToHex_hex key) h⟩
  cases v with
  | nil => exact absurd rfl hv
  | cons a v => simpa [update] using h

/-- non-vacuity: a concrete update on a concrete trie -/
example : ∃ n', update (.short (keybytesToHex [1]) (.value [7])) [2] [9] = some n' ∧ lookup n' [2] = some [9] := by
  apply lookup_update_same
  · exact Or.inr ⟨⟨keyOK_of_suf (keybytesToHex_hex [1]).1 (by simp [keybytesToHex]), rfl, trivial⟩, rfl⟩
  · simp

/-! ## 2. Canonical form: the tree (hence the root, for any hash) is a function of the content -/

/-- CANONICAL: no hash assumption -/
theorem canonical (a b : Node) (ha : RootWF a) (hb : RootWF b)
    (h : ∀ key, HexKey key → Model.Trie.get a key = Model.Trie.get b key) : a = b := by
  rcases ha with ha | ⟨ha, hva⟩ <;> rcases hb with hb | ⟨hb, hvb⟩
  · rw [isNil_eq ha, isNil_eq hb]
  · exfalso
    obtain ⟨key, hk, hg⟩ := exists_key b hb
    rw [hvb] at hk
    rw [← h key hk, isNil_eq ha] at hg
    simp [Model.Trie.get] at hg
  · exfalso
    obtain ⟨key, hk, hg⟩ := exists_key a ha
    rw [hva] at hk
    rw [h key hk, isNil_eq hb] at hg
    simp [Model.Trie.get] at hg
  · exact canon a b ha hb (by rw [hva, hvb]) (by rw [hva]; exact h)

theorem canonical_root (H : Bytes → Bytes) (a b : Node) (ha : RootWF a) (hb : RootWF b)
    (h : ∀ key, HexKey key → Model.Trie.get a key = Model.Trie.get b key) : root H a = root H b := by
  rw [canonical a b ha hb h]

/-! ## 3. History independence (insert / overwrite histories) -/

/-- a history of updates with non-empty values, on HEX keys -/
def run : List (List Nib × Bytes) → Node → Option Node
  | [], n => some n
  | (k, v) :: ops, n => (Model.Trie.insert n k (.value v)).bind (run ops)

/-- the content a history writes (last write wins), as a function -/
def content : List (List Nib × Bytes) → (List Nib → Option Bytes) → List Nib → Option Bytes
  | [], f => f
  | (k, v) :: ops, f => content ops (fun key => if key = k then some v else f key)

theorem run_spec : ∀ (ops : List (List Nib × Bytes)) (n : Node), RootWF n → (∀ kv ∈ ops, HexKey kv.1) →
    ∃ n', run ops n = some n' ∧ RootWF n' ∧ ∀ key, HexKey key → Model.Trie.get n' key = content ops (Model.Trie.get n) key
  | [], n, hn, _ => ⟨n, rfl, hn, fun _ _ => rfl⟩
  | (k, v) :: ops, n, hn, hk => by
    have hk0 : HexKey k := hk (k, v) (by simp)
    obtain ⟨n1, h1, hw, hv, _, hg⟩ := insert_spec v n false k hn hk0
    obtain ⟨n', h2, hw', hg'⟩ := run_spec ops n1 (Or.inr ⟨hw, hv⟩) (fun kv h => hk kv (by simp [h]))
    refine ⟨n', by simp [run, h1, h2], hw', ?_⟩
    intro key hkey
    rw [hg' key hkey]
    simp only [content]
    -- the two start functions agree on HEX keys, and `content` only ever looks at the queried key
    have : ∀ (ops : List (List Nib × Bytes)) (f g : List Nib → Option Bytes), f key = g key → content ops f key = content ops g key := by
      intro ops
      induction ops with
      | nil => intro f g h; exact h
      | cons o ops ih => intro f g h; exact ih _ _ (by simp only [h])
    exact this ops _ _ (hg key hkey)

/-- HISTORY FREE: two histories from the empty trie that write the same content produce the same tree and the same root
(for any hash function; in particular all permutations of the insertion order, with arbitrary overwrites) -/
theorem history_free (H : Bytes → Bytes) (ops₁ ops₂ : List (List Nib × Bytes))
    (h₁ : ∀ kv ∈ ops₁, HexKey kv.1) (h₂ : ∀ kv ∈ ops₂, HexKey kv.1)
    (hc : ∀ key, HexKey key → content ops₁ (fun _ => none) key = content ops₂ (fun _ => none) key) :
    ∃ n, run ops₁ .nil = some n ∧ run ops₂ .nil = some n ∧
      ∀ n₁ n₂, run ops₁ .nil = some n₁ → run ops₂ .nil = some n₂ → root H n₁ = root H n₂ := by
  obtain ⟨n1, r1, w1, g1⟩ := run_spec ops₁ .nil rootWF_nil h₁
  obtain ⟨n2, r2, w2, g2⟩ := run_spec ops₂ .nil rootWF_nil h₂
  have : n1 = n2 := canonical n1 n2 w1 w2 (fun key hk => by
    rw [g1 key hk, g2 key hk]
    have e : Model.Trie.get .nil = fun _ => none := by funext k; simp [Model.Trie.get]
    rw [e]; exact hc key hk)
  subst this
  refine ⟨n1, r1, r2, ?_⟩
  intro a b ha hb
  rw [r1] at ha; rw [r2] at hb; cases ha; cases hb; rfl

/-- non-vacuity: two different orders of the same two writes -/
example : ∃ n, run [(keybytesToHex [1], [7]), (keybytesToHex [2], [9])] .nil = some n ∧
    run [(keybytesToHex [2], [9]), (keybytesToHex [1], [5]), (keybytesToHex [1], [7])] .nil = some n := by
  obtain ⟨n, h1, h2, _⟩ := history_free id [(keybytesToHex [1], [7]), (keybytesToHex [2], [9])]
    [(keybytesToHex [2], [9]), (keybytesToHex [1], [5]), (keybytesToHex [1], [7])]
    (by intro kv h; simp at h; rcases h with h | h <;> (rw [h]; exact keybytesToHex_hex _))
    (by intro kv h; simp at h; rcases h with h | h | h <;> (rw [h]; exact keybytesToHex_hex _))
    (by
      have d : keybytesToHex [1] ≠ keybytesToHex [2] := by decide
      intro key _; simp only [content]
      by_cases a : key = keybytesToHex [1] <;> by_cases b : key = keybytesToHex [2] <;> simp [a, b, d, Ne.symm d])
  exact ⟨n, h1, h2⟩

/-- SECURE TRIE = plain trie under `k ↦ hk k` (Keccak in the code; any function here): same history independence -/
theorem secure_history_free (H : Bytes → Bytes) (hk : Bytes → Bytes) (ops₁ ops₂ : List (Bytes × Bytes))
    (hc : ∀ key, HexKey key →
      content (ops₁.map fun kv => (keybytesToHex (hk kv.1), kv.2)) (fun _ => none) key =
      content (ops₂.map fun kv => (keybytesToHex (hk kv.1), kv.2)) (fun _ => none) key) :
    ∃ n, run (ops₁.map fun kv => (keybytesToHex (hk kv.1), kv.2)) .nil = some n ∧
         run (ops₂.map fun kv => (keybytesToHex (hk kv.1), kv.2)) .nil = some n := by
  obtain ⟨n, h1, h2, _⟩ := history_free H _ _
    (by intro kv h; simp only [List.mem_map] at h; obtain ⟨a, _, e⟩ := h; rw [← e]; exact keybytesToHex_hex _)
    (by intro kv h; simp only [List.mem_map] at h; obtain ⟨a, _, e⟩ := h; rw [← e]; exact keybytesToHex_hex _)
    hc
  exact ⟨n, h1, h2⟩

/-! ## 4. Deletion and histories with deletions -/

/-- FULL STATEMENT: `delete` on a HEX key never panics, keeps the normal form, removes exactly that key -/
def C10_delete_statement : Prop :=
  ∀ (n : Node) (key : List Nib), RootWF n → HexKey key →
    ∃ n', Model.Trie.delete n key = some n' ∧ RootWF n' ∧
      ∀ key', HexKey key' → Model.Trie.get n' key' = if key' = key then none else Model.Trie.get n key'

theorem C10_delete : C10_delete_statement := by
  intro n key hn hk
  obtain ⟨n', h, hp, _, hg⟩ := delete_spec n false key hn hk
  exact ⟨n', h, hp, hg⟩

theorem delete_no_panic (n : Node) (key : List Nib) (hn : RootWF n) (hk : HexKey key) :
    ∃ n', Model.Trie.delete n key = some n' :=
  let ⟨n', h, _⟩ := C10_delete n key hn hk
  ⟨n', h⟩

theorem delete_keeps_normal_form (n n' : Node) (key : List Nib) (hn : RootWF n) (hk : HexKey key)
    (h : Model.Trie.delete n key = some n') : RootWF n' := by
  obtain ⟨n'', h', hw, _⟩ := C10_delete n key hn hk
  rw [h] at h'; cases h'; exact hw

theorem get_delete_same (n n' : Node) (key : List Nib) (hn : RootWF n) (hk : HexKey key)
    (h : Model.Trie.delete n key = some n') : Model.Trie.get n' key = none := by
  obtain ⟨n'', h', _, hg⟩ := C10_delete n key hn hk
  rw [h] at h'; cases h'
  simpa using hg key hk

theorem get_delete_other (n n' : Node) (key key' : List Nib) (hn : RootWF n) (hk : HexKey key) (hk' : HexKey key')
    (hne : key' ≠ key) (h : Model.Trie.delete n key = some n') : Model.Trie.get n' key' = Model.Trie.get n key' := by
  obtain ⟨n'', h', _, hg⟩ := C10_delete n key hn hk
  rw [h] at h'; cases h'
  simpa [hne] using hg key' hk'

/-- non-vacuity: deleting one of two keys -/
example : ∃ n, run [(keybytesToHex [1], [7]), (keybytesToHex [2], [9])] .nil = some n ∧
    ∃ n', Model.Trie.delete n (keybytesToHex [1]) = some n' ∧ Model.Trie.get n' (keybytesToHex [1]) = none := by
  obtain ⟨n, h, hw, _⟩ := run_spec [(keybytesToHex [1], [7]), (keybytesToHex [2], [9])] .nil rootWF_nil
    (by intro kv h; simp at h; rcases h with h | h <;> (rw [h]; exact keybytesToHex_hex _))
  obtain ⟨n', h'⟩ := delete_no_panic n (keybytesToHex [1]) hw (keybytesToHex_hex _)
  exact ⟨n, h, n', h', get_delete_same n n' _ hw (keybytesToHex_hex _) h'⟩

/-- histories with deletions (`none` = delete) -/
def runD : List (List Nib × Option Bytes) → Node → Option Node
  | [], n => some n
  | (k, some v) :: ops, n => (Model.Trie.insert n k (.value v)).bind (runD ops)
  | (k, none) :: ops, n => (Model.Trie.delete n k).bind (runD ops)

def contentD : List (List Nib × Option Bytes) → (List Nib → Option Bytes) → List Nib → Option Bytes
  | [], f => f
  | (k, v) :: ops, f => contentD ops (fun key => if key = k then v else f key)

/-- FULL STATEMENT: history independence including deletions (root equality for every `H` follows by `congrArg (root H)`) -/
def C10_history_free_with_deletes_statement : Prop :=
  ∀ (ops₁ ops₂ : List (List Nib × Option Bytes)), (∀ kv ∈ ops₁, HexKey kv.1) → (∀ kv ∈ ops₂, HexKey kv.1) →
    (∀ key, HexKey key → contentD ops₁ (fun _ => none) key = contentD ops₂ (fun _ => none) key) →
    ∃ n, runD ops₁ .nil = some n ∧ runD ops₂ .nil = some n

/-- HISTORY FREE with deletions: any two histories of inserts, overwrites and deletes from the empty trie that leave the
same content produce the same tree (hence the same root for any hash) -/
theorem runD_spec : ∀ (ops : List (List Nib × Option Bytes)) (n : Node), RootWF n → (∀ kv ∈ ops, HexKey kv.1) →
    ∃ n', runD ops n = some n' ∧ RootWF n' ∧
      ∀ key, HexKey key → Model.Trie.get n' key = contentD ops (Model.Trie.get n) key := by
  have hd := C10_delete
  have cong : ∀ (key : List Nib) (ops : List (List Nib × Option Bytes)) (f g : List Nib → Option Bytes), f key = g key →
      contentD ops f key = contentD ops g key := by
    intro key ops
    induction ops with
    | nil => intro f g h; exact h
    | cons o ops ih => intro f g h; exact ih _ _ (by simp only [h])
  intro ops
  induction ops with
  | nil => intro n hn _; exact ⟨n, rfl, hn, fun _ _ => rfl⟩
  | cons o ops ih =>
    intro n hn hk
    obtain ⟨k, ov⟩ := o
    have hk0 : HexKey k := hk (k, ov) (by simp)
    cases ov with
    | some v =>
      obtain ⟨n1, h1, hw, hv, _, hg⟩ := insert_spec v n false k hn hk0
      obtain ⟨n', h2, hw', hg'⟩ := ih n1 (Or.inr ⟨hw, hv⟩) (fun kv h => hk kv (by simp [h]))
      refine ⟨n', by simp [runD, h1, h2], hw', fun key hkey => ?_⟩
      rw [hg' key hkey]; exact cong key ops _ _ (hg key hkey)
    | none =>
      obtain ⟨n1, h1, hw, hg⟩ := hd n k hn hk0
      obtain ⟨n', h2, hw', hg'⟩ := ih n1 hw (fun kv h => hk kv (by simp [h]))
      refine ⟨n', by simp [runD, h1, h2], hw', fun key hkey => ?_⟩
      rw [hg' key hkey]; exact cong key ops _ _ (hg key hkey)

theorem C10_history_free_with_deletes : C10_history_free_with_deletes_statement := by
  have spec := runD_spec
  intro ops₁ ops₂ h₁ h₂ hc
  obtain ⟨n1, r1, w1, g1⟩ := spec ops₁ .nil rootWF_nil h₁
  obtain ⟨n2, r2, w2, g2⟩ := spec ops₂ .nil rootWF_nil h₂
  have : n1 = n2 := canonical n1 n2 w1 w2 (fun key hk => by
    rw [g1 key hk, g2 key hk]
    have e : Model.Trie.get .nil = fun _ => none := by funext k; simp [Model.Trie.get]
    rw [e]; exact hc key hk)
  subst this
  exact ⟨n1, r1, r2⟩

/-! ## 5. Iteration -/

def bytesLt : Bytes → Bytes → Bool
  | [], [] => false
  | [], _ :: _ => true
  | _ :: _, [] => false
  | a :: as, b :: bs => a < b || (a == b && bytesLt as bs)

def sortedBy (lt : Bytes → Bytes → Bool) : List Bytes → Bool
  | a :: b :: r => lt a b && sortedBy lt (b :: r)
  | _ => true

def runB : List (Bytes × Bytes) → Node → Option Node
  | [], n => some n
  | (k, v) :: ops, n => (update n k v).bind (runB ops)

/-- FULL STATEMENT (false of the code): iteration enumerates the keys in `bytes.Compare` order -/
def C10_iter_byte_order_statement : Prop :=
  ∀ (ops : List (Bytes × Bytes)),
    (runB ops .nil).all (fun n => sortedBy bytesLt ((toMap n).map fun kv => hexToKeybytes kv.1)) = true

/-- "do" ↦ "verb", "dog" ↦ "puppy": the iterator yields "dog" before "do" (the value slot 16 of a full node comes last) -/
theorem C10_iter_byte_order_counterexample : ¬ C10_iter_byte_order_statement := by
  intro h
  have := h [([0x64, 0x6f], [1]), ([0x64, 0x6f, 0x67], [2])]
  revert this
  decide

/-- FULL STATEMENT: iteration enumerates exactly the content (a pair is enumerated iff the lookup returns it), only HEX
keys, strictly increasing in path order (so no key twice) -/
def C10_iter_statement : Prop :=
  ∀ (n : Node), RootWF n →
    (∀ key x, HexKey key → ((key, x) ∈ toMap n ↔ Model.Trie.get n key = some x)) ∧
    (∀ kv ∈ toMap n, HexKey kv.1) ∧
    (toMap n).Pairwise (fun a b => pathLt a.1 b.1)

theorem C10_iter : C10_iter_statement :=
  fun n hn => ⟨fun key x hk => toMap_mem_iff n false hn key x hk, toMap_keys n false hn, toMap_sorted n⟩

theorem keybytesToHex_cons (x : UInt8) (a : Bytes) :
    keybytesToHex (x :: a) = Fin.ofNat 17 (x.toNat / 16) :: Fin.ofNat 17 (x.toNat % 16) :: keybytesToHex a := rfl

/-- the true part of the byte-order clause: on keys of equal byte length (secure tries: 32 bytes) path order IS
`bytes.Compare` order, so `toMap_sorted` gives iteration in key order there -/
theorem C10_iter_byte_order_partial : ∀ (a b : Bytes), a.length = b.length →
    (pathLt (keybytesToHex a) (keybytesToHex b) ↔ bytesLt a b = true)
  | [], [], _ => by simp [keybytesToHex, pathLt, bytesLt]
  | [], _ :: _, h => by simp at h
  | _ :: _, [], h => by simp at h
  | x :: a, y :: b, h => by
    have ih := C10_iter_byte_order_partial a b (by simpa using h)
    rw [keybytesToHex_cons, keybytesToHex_cons]
    simp only [pathLt, bytesLt, ih, Bool.or_eq_true, Bool.and_eq_true, decide_eq_true_eq, beq_iff_eq]
    have hx := x.toNat_lt
    have hy := y.toNat_lt
    have e1 : ∀ (m n : Nat), m < 17 → n < 17 → ((Fin.ofNat 17 m < Fin.ofNat 17 n) ↔ m < n) := by
      intro m n hm hn; simp [Fin.lt_def, Fin.ofNat, Nat.mod_eq_of_lt hm, Nat.mod_eq_of_lt hn]
    have e2 : ∀ (m n : Nat), m < 17 → n < 17 → ((Fin.ofNat 17 m = Fin.ofNat 17 n) ↔ m = n) := by
      intro m n hm hn; simp [Fin.ext_iff, Fin.ofNat, Nat.mod_eq_of_lt hm, Nat.mod_eq_of_lt hn]
    rw [e1 _ _ (by omega) (by omega), e1 _ _ (by omega) (by omega), e2 _ _ (by omega) (by omega), e2 _ _ (by omega) (by omega)]
    rw [UInt8.lt_iff_toNat_lt, ← UInt8.toNat_inj]
    constructor
    · rintro (h1 | ⟨h1, h2 | ⟨h2, h3⟩⟩)
      · left; omega
      · left; omega
      · right; exact ⟨by omega, h3⟩
    · rintro (h1 | ⟨h1, h3⟩)
      · by_cases hq : x.toNat / 16 < y.toNat / 16
        · left; exact hq
        · right; exact ⟨by omega, Or.inl (by omega)⟩
      · right; exact ⟨by omega, Or.inr ⟨by omega, h3⟩⟩

/-! ## 6. Proofs -/

/-- FULL STATEMENT (false of the code): `Prove` yields at least the root node, for every trie and key -/
def C10_honest_proof_statement : Prop :=
  ∀ (H : Bytes → Bytes) (n : Node) (key : List Nib), RootWF n → HexKey key → proofNodes H n key ≠ []

/-- the empty trie has no proof node, and `VerifyProof` needs one for the root hash -/
theorem C10_honest_proof_counterexample : ¬ C10_honest_proof_statement := by
  intro h
  exact h id .nil (keybytesToHex []) rootWF_nil (keybytesToHex_hex []) (by simp [proofNodes, path, keybytesToHex])

/-- the true part: every non-empty trie yields a proof that starts with the root node's encoding -/
theorem C10_honest_proof_partial (H : Bytes → Bytes) (n : Node) (key : List Nib) (hn : RootWF n) (hne : n.isNil = false)
    (hk : HexKey key) : ∃ rest, proofNodes H n key = enc H n :: rest := by
  cases key with
  | nil => exact absurd (hk.2.mp rfl) (by simp)
  | cons a as =>
    rcases hn with h | ⟨_, hv⟩
    · rw [h] at hne; cases hne
    · cases n with
      | nil => simp [Node.isNil] at hne
      | value v => simp [Node.isValue] at hv
      | short k c => exact ⟨_, rfl⟩
      | full c => exact ⟨_, rfl⟩

/-- the claim the content of `s` makes about `key`, in `VerifyProof`'s vocabulary -/
def claimOf (s : Node) (key : List Nib) : VRes :=
  match Model.Trie.get s key with
  | some x => .value x
  | none => .absent

/-- FULL STATEMENT (soundness): against the root of a non-empty normal-form trie, with ANY content-addressed proof
database, `VerifyProof` either reports an error (or, in the model, runs out of fuel) or returns exactly the claim that is
true of the content; it never panics.  `H` collision-free and "the decoder inverts the honest encoder on the nodes on the way to `key`" are hypotheses. -/
def C10_proof_sound_statement : Prop :=
  ∀ (H : Bytes → Bytes), Function.Injective H →
  ∀ (decode : Bytes → Dec CNode) (db : Bytes → Option Bytes), (∀ h b, db h = some b → H b = h) →
  ∀ (fuel : Nat) (s : Node) (key : List Nib), RootWF s → s.isNil = false → HexKey key →
    (∀ t ∈ path s key, WF t → decode (enc H t) = .ok (collapse H t)) →
    verify H decode db fuel (root H s) key = claimOf s key ∨
    verify H decode db fuel (root H s) key = .error ∨
    verify H decode db fuel (root H s) key = .fuel

theorem C10_proof_sound : C10_proof_sound_statement := by
  intro H Hinj decode db hdb fuel s key hs hne hk hdec
  rcases hs with h | ⟨hw, hv⟩
  · rw [h] at hne; cases hne
  · obtain ⟨h1, h2, h3⟩ := verify_sound2 H Hinj decode db hdb fuel s key hw hv hk hdec
    unfold root claimOf
    cases hr : verify H decode db fuel (H (enc H s)) key with
    | value x => left; rw [h1 x hr]
    | absent => left; rw [h2 hr]
    | error => right; left; rfl
    | fuel => right; right; rfl
    | panic => exact absurd hr h3

/-- TAMPER DETECTED: take the honest proof, alter / drop / add any nodes, store every node under the hash of its own
bytes (`dbOf`, the convention of the in-tree TestBadProof): verification fails or returns the same, true claim -/
theorem tamper_detected (H : Bytes → Bytes) (Hinj : Function.Injective H)
    (decode : Bytes → Dec CNode) (nodes : List Bytes) (fuel : Nat) (s : Node) (key : List Nib)
    (hs : RootWF s) (hne : s.isNil = false) (hk : HexKey key)
    (hdec : ∀ t ∈ path s key, WF t → decode (enc H t) = .ok (collapse H t)) :
    verify H decode (dbOf H nodes) fuel (root H s) key = claimOf s key ∨
    verify H decode (dbOf H nodes) fuel (root H s) key = .error ∨
    verify H decode (dbOf H nodes) fuel (root H s) key = .fuel :=
  C10_proof_sound H Hinj decode (dbOf H nodes) (dbOf_content_addressed H nodes) fuel s key hs hne hk hdec

/-- FULL STATEMENT (completeness): the proof built by `Prove` verifies to the true claim (non-empty trie) -/
def C10_proof_complete_statement : Prop :=
  ∀ (H : Bytes → Bytes), Function.Injective H →
  ∀ (decode : Bytes → Dec CNode) (s : Node) (key : List Nib), RootWF s → s.isNil = false → HexKey key →
    (∀ t ∈ path s key, WF t → decode (enc H t) = .ok (collapse H t)) →
    verify H decode (dbOf H (proofNodes H s key)) (key.length + 1) (root H s) key = claimOf s key

theorem proofNodes_mem (H : Bytes → Bytes) (s : Node) (key : List Nib) (t : Node) (ht : t ∈ path s key)
    (h : 32 ≤ (enc H t).length ∨ (path s key).head? = some t) : enc H t ∈ proofNodes H s key := by
  unfold proofNodes
  cases hp : path s key with
  | nil => rw [hp] at ht; cases ht
  | cons p ps =>
    rw [hp] at ht h
    simp only [List.map_cons]
    rcases List.mem_cons.mp ht with e | hm
    · subst e; exact List.mem_cons_self
    · rcases h with h | h
      · refine List.mem_cons_of_mem _ (List.mem_filter.mpr ⟨List.mem_map.mpr ⟨t, hm, rfl⟩, ?_⟩)
        simpa using h
      · simp only [List.head?_cons, Option.some.injEq] at h
        subst h; exact List.mem_cons_self

theorem C10_proof_complete : C10_proof_complete_statement := by
  intro H Hinj decode s key hs hne hk hdec
  rcases hs with h | ⟨hw, hv⟩
  · rw [h] at hne; cases hne
  · have hself := self_mem_path hw hv hk
    have hhead : (path s key).head? = some s := by
      cases key with
      | nil => exact absurd (hk.2.mp rfl) (by simp)
      | cons a as =>
        cases s with
        | nil => exact absurd hw (by simp [WF])
        | value w => simp [Node.isValue] at hv
        | short k c => simp [path]
        | full c => simp [path]
    unfold root claimOf
    exact verify_complete_aux H Hinj decode (proofNodes H s key) (key.length + 1) s key hw hv hk (by omega) hdec
      (proofNodes_mem H s key s hself (Or.inr hhead))
      (fun t ht h32 => proofNodes_mem H s key t ht (Or.inl h32))

/-- non-vacuity of the proof theorems: `H = id` is injective, a one-leaf trie, and a decoder that knows exactly that leaf;
the honest proof verifies to the stored value, and every content-addressed database yields that claim or an error -/
example :
    let s : Node := .short (keybytesToHex [1]) (.value [7])
    let decode : Bytes → Dec CNode := fun b => if b = enc id s then .ok (collapse id s) else .err
    verify id decode (dbOf id (proofNodes id s (keybytesToHex [1]))) ((keybytesToHex [1]).length + 1) (root id s) (keybytesToHex [1])
      = .value [7] := by
  intro s decode
  have hw : RootWF s := Or.inr ⟨⟨keyOK_of_suf (keybytesToHex_hex [1]).1 (by simp [keybytesToHex]), rfl, trivial⟩, rfl⟩
  have hk := keybytesToHex_hex [1]
  have hdec : ∀ t ∈ path s (keybytesToHex [1]), WF t → decode (enc id t) = .ok (collapse id t) := by
    intro t ht _
    have : t = s := by simpa [path, s, keybytesToHex, strip] using ht
    subst this; simp [decode]
  have := C10_proof_complete id Function.injective_id decode s (keybytesToHex [1]) hw rfl hk hdec
  rw [this]
  have hg : Model.Trie.get s (keybytesToHex [1]) = some [7] := by
    simp [s, strip_eq_some.mpr (List.append_nil _).symm, Model.Trie.get]
  simp [claimOf, hg]


/-! ## 7. The executable verifier: no decoder hypothesis -/

/-- FULL STATEMENT (soundness of the executable VerifyProof model, `decodeNode` included).  Hypotheses: 32-byte hash
outputs; no collision between a database entry and an honest node encoding on the way to the key (implied by
`Function.Injective H`); data precondition `Sane` (node encodings shorter than 2^64 bytes, no empty stored value). -/
def C10_proof_sound_exec_statement : Prop :=
  ∀ (H : Bytes → Bytes), H32 H →
  ∀ (db : Bytes → Option Bytes), (∀ h b, db h = some b → H b = h) →
  ∀ (fuel : Nat) (s : Node) (key : List Nib), RootWF s → s.isNil = false → Sane H s → HexKey key → NoColl H db s key →
    verifyExec H db fuel (root H s) key = claimOf s key ∨
    verifyExec H db fuel (root H s) key = .error ∨
    verifyExec H db fuel (root H s) key = .fuel

theorem C10_proof_sound_exec : C10_proof_sound_exec_statement := by
  intro H h32 db hdb fuel s key hs hne hsane hk hcoll
  rcases hs with h | ⟨hw, hv⟩
  · rw [h] at hne; cases hne
  · obtain ⟨h1, h2, h3⟩ := verifyExec_sound H h32 db hdb fuel s key hw hv hk hsane hcoll
    unfold root claimOf
    cases hr : verifyExec H db fuel (H (enc H s)) key with
    | value x => left; rw [h1 x hr]
    | absent => left; rw [h2 hr]
    | error => right; left; rfl
    | fuel => right; right; rfl
    | panic => exact absurd hr h3

/-- TAMPER DETECTED, executable verifier: any list of node bytes stored under their own hashes -/
theorem tamper_detected_exec (H : Bytes → Bytes) (h32 : H32 H) (nodes : List Bytes) (fuel : Nat) (s : Node)
    (key : List Nib) (hs : RootWF s) (hne : s.isNil = false) (hsane : Sane H s) (hk : HexKey key)
    (hcoll : NoColl H (dbOf H nodes) s key) :
    verifyExec H (dbOf H nodes) fuel (root H s) key = claimOf s key ∨
    verifyExec H (dbOf H nodes) fuel (root H s) key = .error ∨
    verifyExec H (dbOf H nodes) fuel (root H s) key = .fuel :=
  C10_proof_sound_exec H h32 (dbOf H nodes) (dbOf_content_addressed H nodes) fuel s key hs hne hsane hk hcoll

/-- FULL STATEMENT (completeness, executable verifier): for every key, present or absent, of a non-empty trie the proof
emitted by `Prove` is accepted with the true claim (value, or absence) -/
def C10_proof_complete_exec_statement : Prop :=
  ∀ (H : Bytes → Bytes), H32 H → ∀ (s : Node) (key : List Nib), RootWF s → s.isNil = false → Sane H s → HexKey key →
    (∀ x ∈ proofNodes H s key, ∀ t ∈ path s key, H x = H (enc H t) → x = enc H t) →
    verifyExec H (dbOf H (proofNodes H s key)) (key.length + 1) (root H s) key = claimOf s key

theorem C10_proof_complete_exec : C10_proof_complete_exec_statement := by
  intro H h32 s key hs hne hsane hk hcoll
  rcases hs with h | ⟨hw, hv⟩
  · rw [h] at hne; cases hne
  · have hself := self_mem_path hw hv hk
    have hhead : (path s key).head? = some s := by
      cases key with
      | nil => exact absurd (hk.2.mp rfl) (by simp)
      | cons a as =>
        cases s with
        | nil => exact absurd hw (by simp [WF])
        | value w => simp [Node.isValue] at hv
        | short k c => simp [path]
        | full c => simp [path]
    unfold root claimOf
    exact verifyExec_complete_aux H h32 (proofNodes H s key) (key.length + 1) s key hw hv hk (by omega) hsane hcoll
      (proofNodes_mem H s key s hself (Or.inr hhead))
      (fun t ht h32' => proofNodes_mem H s key t ht (Or.inl h32'))

/-- a toy 32-byte "hash": pad with zeros / cut to 32 bytes -/
def pad32 (b : Bytes) : Bytes := (b ++ List.replicate 32 0).take 32

theorem pad32_h32 : H32 pad32 := by intro b; simp [pad32]

/-- non-vacuity of the executable theorems: `pad32` has 32-byte outputs, a one-leaf trie is `Sane`, its one-node proof has
no collision with itself; the honest proof is accepted with the stored value -/
example :
    verifyExec pad32 (dbOf pad32 (proofNodes pad32 (.short (keybytesToHex [1]) (.value [7])) (keybytesToHex [1])))
      ((keybytesToHex [1]).length + 1) (root pad32 (.short (keybytesToHex [1]) (.value [7]))) (keybytesToHex [1])
      = .value [7] := by
  have hw : RootWF (.short (keybytesToHex [1]) (.value [7])) :=
    Or.inr ⟨⟨keyOK_of_suf (keybytesToHex_hex [1]).1 (by simp [keybytesToHex]), rfl, trivial⟩, rfl⟩
  have hsane : Sane pad32 (.short (keybytesToHex [1]) (.value [7])) := by
    refine ⟨?_, by simp, by simp [Sz]⟩
    have : (enc pad32 (.short (keybytesToHex [1]) (.value [7]))).length = 5 := by decide
    rw [this]; simp [Sz]
  have hp : path (.short (keybytesToHex [1]) (.value [7])) (keybytesToHex [1]) = [.short (keybytesToHex [1]) (.value [7])] := by
    simp [path, keybytesToHex, strip]
  have := C10_proof_complete_exec pad32 pad32_h32 _ (keybytesToHex [1]) hw rfl hsane (keybytesToHex_hex [1]) (by
    intro x hx t ht _
    rw [hp] at ht
    simp only [List.mem_singleton] at ht
    subst ht
    simpa [proofNodes, hp] using hx)
  rw [this]
  have hg : Model.Trie.get (.short (keybytesToHex [1]) (.value [7])) (keybytesToHex [1]) = some [7] := by
    simp [strip_eq_some.mpr (List.append_nil _).symm, Model.Trie.get]
  simp [claimOf, hg]


/-! ## 8. `root_canonical`: the root is a function of the key → value map alone (API level, bytes) -/

theorem keybytesToHex_injective : ∀ (a b : Bytes), keybytesToHex a = keybytesToHex b → a = b
  | [], [], _ => rfl
  | [], y :: b, h => by
    have := congrArg List.length h
    cases b <;> simp [keybytesToHex] at this
  | x :: a, [], h => by
    have := congrArg List.length h
    cases a <;> simp [keybytesToHex] at this
  | x :: a, y :: b, h => by
    rw [kbh_cons, kbh_cons] at h
    simp only [List.cons.injEq] at h
    obtain ⟨h1, h2, h3⟩ := h
    have hx := x.toNat_lt
    have hy := y.toNat_lt
    have e1 : x.toNat / 16 = y.toNat / 16 := by
      have := congrArg Fin.val h1
      simp [Fin.ofNat] at this; omega
    have e2 : x.toNat % 16 = y.toNat % 16 := by
      have := congrArg Fin.val h2
      simp [Fin.ofNat] at this; omega
    have : x = y := UInt8.toNat_inj.mp (by omega)
    rw [this, keybytesToHex_injective a b h3]

/-- the key → value map an API history leaves (`Update` with an empty value deletes) -/
def contentB : List (Bytes × Bytes) → (Bytes → Option Bytes) → Bytes → Option Bytes
  | [], f => f
  | (k, v) :: ops, f => contentB ops (fun key => if key = k then (if v.isEmpty then none else some v) else f key)

/-- an API history as a HEX-key history with deletions -/
def toD (ops : List (Bytes × Bytes)) : List (List Nib × Option Bytes) :=
  ops.map fun kv => (keybytesToHex kv.1, if kv.2.isEmpty then none else some kv.2)

theorem runB_eq_runD : ∀ (ops : List (Bytes × Bytes)) (n : Node), runB ops n = runD (toD ops) n
  | [], _ => rfl
  | (k, v) :: ops, n => by
    simp only [runB, toD, List.map_cons, update]
    by_cases hv : v.isEmpty = true
    · simp only [hv, if_true, runD]
      cases Model.Trie.delete n (keybytesToHex k) with
      | none => rfl
      | some n' => exact runB_eq_runD ops n'
    · simp only [hv, Bool.false_eq_true, if_false, runD]
      cases Model.Trie.insert n (keybytesToHex k) (.value v) with
      | none => rfl
      | some n' => exact runB_eq_runD ops n'

theorem contentD_toD_in : ∀ (ops : List (Bytes × Bytes)) (F : List Nib → Option Bytes) (G : Bytes → Option Bytes),
    (∀ bs, F (keybytesToHex bs) = G bs) → ∀ bs, contentD (toD ops) F (keybytesToHex bs) = contentB ops G bs
  | [], _, _, h, bs => h bs
  | (k, v) :: ops, F, G, h, bs => by
    simp only [toD, List.map_cons, contentD, contentB]
    apply contentD_toD_in ops
    intro bs'
    by_cases e : bs' = k
    · simp [e]
    · have : keybytesToHex bs' ≠ keybytesToHex k := fun e' => e (keybytesToHex_injective _ _ e')
      simp [e, this, h bs']

theorem contentD_toD_out : ∀ (ops : List (Bytes × Bytes)) (F : List Nib → Option Bytes) (key : List Nib),
    (∀ bs, key ≠ keybytesToHex bs) → contentD (toD ops) F key = F key
  | [], _, _, _ => rfl
  | (k, v) :: ops, F, key, h => by
    show contentD (toD ops) (fun key' => if key' = keybytesToHex k then (if v.isEmpty then none else some v) else F key') key = F key
    rw [contentD_toD_out ops _ key h]
    simp [h k]

/-- FULL STATEMENT: any two API histories (insert / update / delete in any order and number) from the empty trie that
leave the same key → value map produce the same tree, hence the same root for every hash function.  (Commit, reopen and
cache unloading do not change the model's tree: they are identity in the model and tied by the differential run; what the
database holds for a committed node re-encodes to the same bytes: `encC_collapse`, and decodes back: `decodeExec_enc`.) -/
def C10_root_canonical_statement : Prop :=
  ∀ (H : Bytes → Bytes) (ops₁ ops₂ : List (Bytes × Bytes)),
    (∀ key, contentB ops₁ (fun _ => none) key = contentB ops₂ (fun _ => none) key) →
    ∃ n, runB ops₁ .nil = some n ∧ runB ops₂ .nil = some n ∧
      ∀ n₁ n₂, runB ops₁ .nil = some n₁ → runB ops₂ .nil = some n₂ → root H n₁ = root H n₂

theorem root_canonical : C10_root_canonical_statement := by
  intro H ops₁ ops₂ hc
  have hhex : ∀ (ops : List (Bytes × Bytes)), ∀ kv ∈ toD ops, HexKey kv.1 := by
    intro ops kv h
    simp only [toD, List.mem_map] at h
    obtain ⟨a, _, rfl⟩ := h
    exact keybytesToHex_hex _
  obtain ⟨n, h1, h2⟩ := C10_history_free_with_deletes (toD ops₁) (toD ops₂) (hhex ops₁) (hhex ops₂) (by
    intro key _
    by_cases hk : ∃ bs, key = keybytesToHex bs
    · obtain ⟨bs, rfl⟩ := hk
      rw [contentD_toD_in ops₁ _ (fun _ => none) (fun _ => rfl), contentD_toD_in ops₂ _ (fun _ => none) (fun _ => rfl)]
      exact hc bs
    · have hk' : ∀ bs, key ≠ keybytesToHex bs := fun bs e => hk ⟨bs, e⟩
      rw [contentD_toD_out ops₁ _ key hk', contentD_toD_out ops₂ _ key hk'])
  rw [← runB_eq_runD] at h1 h2
  refine ⟨n, h1, h2, ?_⟩
  intro a b ha hb
  rw [h1] at ha; rw [h2] at hb; cases ha; cases hb; rfl

/-- non-vacuity: insert two keys, delete a third that was inserted in between / overwrite: same map, same tree -/
example : ∃ n, runB [([1], [7]), ([3], [8]), ([2], [9]), ([3], [])] .nil = some n ∧
    runB [([2], [5]), ([1], [7]), ([2], [9])] .nil = some n := by
  obtain ⟨n, h1, h2, _⟩ := root_canonical id [([1], [7]), ([3], [8]), ([2], [9]), ([3], [])]
    [([2], [5]), ([1], [7]), ([2], [9])] (by
      intro key
      simp only [contentB]
      by_cases a : key = [1] <;> by_cases b : key = [2] <;> by_cases c : key = [3] <;> simp_all)
  exact ⟨n, h1, h2⟩

/-- the encoding of a decoded / database-resident ("hashed") node: hash references are written as they are -/
def encC : CNode → Bytes
  | .nil => [0x80]
  | .value v => rlpStr v
  | .hash h => rlpStr h
  | .short k c => rlpList (rlpStr (hexToCompact k) ++ encC c)
  | .full c => rlpList ((List.finRange 17).flatMap (fun i => encC (c i)))

/-- hashed and unhashed forms commit to the same bytes: re-encoding the collapsed (committed, reloaded) form of a node
gives exactly the encoding of the in-memory node, for every node and every hash function — so hashing after a
commit / reload / unload yields the same root -/
theorem encC_collapse (H : Bytes → Bytes) : ∀ (n : Node), encC (collapse H n) = enc H n
  | .nil => rfl
  | .value _ => rfl
  | .short k c => by
    have ih := encC_collapse H c
    simp only [collapse, enc]
    by_cases hv : c.isValue = true
    · simp [hv, encC, ih]
    · by_cases hs : (enc H c).length < 32
      · simp [hv, hs, encC, ih, embed]
      · simp [hv, hs, encC, embed]
  | .full c => by
    simp only [collapse, enc, encC]
    congr 1
    rw [List.flatMap_def, List.flatMap_def]
    congr 1
    apply List.map_congr_left
    intro i _
    have ih := encC_collapse H (c i)
    by_cases hi : i = term
    · subst hi; simp [ih]
    · by_cases hs : (enc H (c i)).length < 32
      · simp [hi, hs, ih, embed]
      · simp [hi, hs, encC, embed]


/-! ## 9. Root binding: the root determines the content (the converse of `root_canonical`) -/

theorem proofNodes_sub (H : Bytes → Bytes) (s : Node) (key : List Nib) (x : Bytes) (hx : x ∈ proofNodes H s key) :
    ∃ t ∈ path s key, x = enc H t := by
  unfold proofNodes at hx
  cases hp : path s key with
  | nil => rw [hp] at hx; simp at hx
  | cons p ps =>
    rw [hp] at hx
    simp only [List.map_cons, List.mem_cons, List.mem_filter, List.mem_map] at hx
    rcases hx with rfl | ⟨⟨t, ht, rfl⟩, _⟩
    · exact ⟨p, by simp, rfl⟩
    · exact ⟨t, by simp [ht], rfl⟩

theorem claimOf_inj {a b : Node} {key : List Nib} (h : claimOf a key = claimOf b key) :
    Model.Trie.get a key = Model.Trie.get b key := by
  unfold claimOf at h
  cases ha : Model.Trie.get a key <;> cases hb : Model.Trie.get b key <;> simp_all

/-- ROOT BINDING: two non-empty normal-form tries with the same root are the same tree (so the root commits to exactly one
key → value map), provided the hash does not collide on the node encodings of the two tries (on the paths to any key).
Proved through the proof system: `Prove` on `a` is accepted against the common root (completeness), and what is accepted
against `b`'s root is true of `b` (soundness); equal lookups give equal trees (`canonical`). -/
theorem root_binding (H : Bytes → Bytes) (h32 : H32 H) (a b : Node) (ha : RootWF a) (hb : RootWF b)
    (hna : a.isNil = false) (hnb : b.isNil = false) (hsa : Sane H a) (hsb : Sane H b)
    (hcf : ∀ key, ∀ t1 ∈ path a key ++ path b key, ∀ t2 ∈ path a key ++ path b key,
      H (enc H t1) = H (enc H t2) → enc H t1 = enc H t2)
    (hroot : root H a = root H b) : a = b := by
  apply canonical a b ha hb
  intro key hk
  have hc := C10_proof_complete_exec H h32 a key ha hna hsa hk (by
    intro x hx t ht e
    obtain ⟨t', ht', rfl⟩ := proofNodes_sub H a key x hx
    exact hcf key t' (by simp [ht']) t (by simp [ht]) e)
  have hs := C10_proof_sound_exec H h32 (dbOf H (proofNodes H a key)) (dbOf_content_addressed H _)
    (key.length + 1) b key hb hnb hsb hk (by
      intro h x t hd ht e
      have hx : x ∈ proofNodes H a key := List.mem_of_find?_eq_some hd
      obtain ⟨t', ht', rfl⟩ := proofNodes_sub H a key x hx
      exact hcf key t' (by simp [ht']) t (by simp [ht]) e)
  rw [← hroot, hc] at hs
  rcases hs with h | h | h
  · exact claimOf_inj h
  · unfold claimOf at h; cases hg : Model.Trie.get a key <;> rw [hg] at h <;> cases h
  · unfold claimOf at h; cases hg : Model.Trie.get a key <;> rw [hg] at h <;> cases h

/-- injectivity of the node encoding on canonical (normal-form, non-empty) tries, under the same collision-freeness -/
theorem enc_injective (H : Bytes → Bytes) (h32 : H32 H) (a b : Node) (ha : RootWF a) (hb : RootWF b)
    (hna : a.isNil = false) (hnb : b.isNil = false) (hsa : Sane H a) (hsb : Sane H b)
    (hcf : ∀ key, ∀ t1 ∈ path a key ++ path b key, ∀ t2 ∈ path a key ++ path b key,
      H (enc H t1) = H (enc H t2) → enc H t1 = enc H t2)
    (h : enc H a = enc H b) : a = b :=
  root_binding H h32 a b ha hb hna hnb hsa hsb hcf (by unfold root; rw [h])


/-- non-vacuity of `root_binding`: two different one-leaf tries satisfy every hypothesis (toy hash `pad32`), so their
roots differ -/
example : root pad32 (.short (keybytesToHex [1]) (.value [7])) ≠ root pad32 (.short (keybytesToHex [1]) (.value [8])) := by
  intro hroot
  have hw : ∀ v : Bytes, RootWF (.short (keybytesToHex [1]) (.value v)) := fun v =>
    Or.inr ⟨⟨keyOK_of_suf (keybytesToHex_hex [1]).1 (by simp [keybytesToHex]), rfl, trivial⟩, rfl⟩
  have hp : ∀ (v : Bytes) (key : List Nib) (t : Node), t ∈ path (.short (keybytesToHex [1]) (.value v)) key →
      t = .short (keybytesToHex [1]) (.value v) := by
    intro v key t ht
    cases key with
    | nil => simp [path] at ht
    | cons a as =>
      simp only [path, List.mem_cons] at ht
      rcases ht with rfl | ht
      · rfl
      · cases hst : strip (keybytesToHex [1]) (a :: as) with
        | none => rw [hst] at ht; simp at ht
        | some r => rw [hst] at ht; cases r <;> simp [path] at ht
  have h7 : Sane pad32 (.short (keybytesToHex [1]) (.value [7])) := by
    refine ⟨?_, by simp, by simp [Sz]⟩
    have : (enc pad32 (.short (keybytesToHex [1]) (.value [7]))).length = 5 := by decide
    rw [this]; simp [Sz]
  have h8 : Sane pad32 (.short (keybytesToHex [1]) (.value [8])) := by
    refine ⟨?_, by simp, by simp [Sz]⟩
    have : (enc pad32 (.short (keybytesToHex [1]) (.value [8]))).length = 5 := by decide
    rw [this]; simp [Sz]
  have hne : pad32 (enc pad32 (.short (keybytesToHex [1]) (.value [7]))) ≠
      pad32 (enc pad32 (.short (keybytesToHex [1]) (.value [8]))) := by decide
  have := root_binding pad32 pad32_h32 _ _ (hw [7]) (hw [8]) rfl rfl h7 h8 (by
    intro key t1 ht1 t2 ht2 e
    simp only [List.mem_append] at ht1 ht2
    rcases ht1 with h1 | h1 <;> rcases ht2 with h2 | h2
    · rw [hp _ key t1 h1, hp _ key t2 h2]
    · rw [hp _ key t1 h1, hp _ key t2 h2] at e; exact absurd e hne
    · rw [hp _ key t1 h1, hp _ key t2 h2] at e; exact absurd e.symm hne
    · rw [hp _ key t1 h1, hp _ key t2 h2]) hroot
  simp at this


/-! ## 10. The data precondition `Sane` holds for every trie built through the API from bounded keys and values -/

theorem contentD_some : ∀ (ops : List (List Nib × Option Bytes)) (F : List Nib → Option Bytes) (key : List Nib) (x : Bytes),
    contentD ops F key = some x → F key = some x ∨ (key, some x) ∈ ops
  | [], _, _, _, h => Or.inl h
  | (k, ov) :: ops, F, key, x, h => by
    simp only [contentD] at h
    rcases contentD_some ops _ key x h with h' | h'
    · by_cases e : key = k
      · simp only [e, if_true] at h'
        right; simp [e, h']
      · simp only [e, if_false] at h'
        exact Or.inl h'
    · right; simp [h']

theorem keybytesToHex_length (bs : Bytes) : (keybytesToHex bs).length = 2 * bs.length + 1 := by
  induction bs with
  | nil => rfl
  | cons b bs ih => rw [kbh_cons]; simp only [List.length_cons, ih]; omega

/-- every trie the API builds from keys shorter than 2^31 bytes and values shorter than 2^32 bytes satisfies `Sane`
(so the executable proof theorems apply to it with hash hypotheses only) -/
theorem sane_runB (H : Bytes → Bytes) (h32 : H32 H) (ops : List (Bytes × Bytes)) (n : Node)
    (hb : ∀ kv ∈ ops, kv.1.length < 2 ^ 31 ∧ kv.2.length < 2 ^ 32) (hr : runB ops .nil = some n) :
    RootWF n ∧ Sane H n := by
  have hhex : ∀ kv ∈ toD ops, HexKey kv.1 := by
    intro kv h
    simp only [toD, List.mem_map] at h
    obtain ⟨a, _, rfl⟩ := h
    exact keybytesToHex_hex _
  obtain ⟨n', h1, hw, hg⟩ := runD_spec (toD ops) .nil rootWF_nil hhex
  rw [← runB_eq_runD, hr] at h1
  cases h1
  refine ⟨hw, sane_of_content H h32 n hw ?_⟩
  intro kv hkv
  have hk : HexKey kv.1 := toMap_keys n false hw kv hkv
  have hget := (toMap_mem_iff n false hw kv.1 kv.2 hk).mp hkv
  rw [hg kv.1 hk] at hget
  rcases contentD_some (toD ops) _ kv.1 kv.2 hget with h0 | hm
  · simp [Model.Trie.get] at h0
  · simp only [toD, List.mem_map, Prod.mk.injEq] at hm
    obtain ⟨⟨k, v⟩, hin, hk', hv'⟩ := hm
    have hbv := hb (k, v) hin
    simp only at hk' hv' hbv
    by_cases hve : v.isEmpty = true
    · simp [hve] at hv'
    · simp only [hve, Bool.false_eq_true, if_false, Option.some.injEq] at hv'
      rw [← hk', ← hv', keybytesToHex_length]
      refine ⟨?_, ?_, hbv.2⟩
      · have := hbv.1
        have e31 : (2:Nat) ^ 31 = 2147483648 := by decide
        rw [e31] at this; rw [two32]; omega
      · intro e; rw [e] at hve; simp at hve


/-- non-vacuity of `C10_reload`: a one-leaf trie stored under its hash (toy hash `pad32`) is recovered from the root hash -/
example : reload pad32 (dbOf pad32 [enc pad32 (.short (keybytesToHex [1]) (.value [7]))])
    (height (.short (keybytesToHex [1]) (.value [7])) + 1) (root pad32 (.short (keybytesToHex [1]) (.value [7])))
    = some (.short (keybytesToHex [1]) (.value [7])) := by
  have hw : RootWF (.short (keybytesToHex [1]) (.value [7])) :=
    Or.inr ⟨⟨keyOK_of_suf (keybytesToHex_hex [1]).1 (by simp [keybytesToHex]), rfl, trivial⟩, rfl⟩
  have hsane : Sane pad32 (.short (keybytesToHex [1]) (.value [7])) := by
    refine ⟨?_, by simp, by simp [Sz]⟩
    have : (enc pad32 (.short (keybytesToHex [1]) (.value [7]))).length = 5 := by decide
    rw [this]; simp [Sz]
  exact C10_reload pad32 pad32_h32 _ _ hw rfl hsane ⟨by decide, trivial⟩

end Props.C10
