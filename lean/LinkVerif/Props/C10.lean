/-
C10 — The state trie root is a canonical commitment and its proofs are sound.

Property theorems about `Model.Trie` (the transcription of libs/trie; helper lemmas in C10Basic / C10Canon / C10Insert).

Proved here (kernel-checked, no hash assumption anywhere):
  * `insert_no_panic`, `insert_keeps_normal_form`, `get_insert_same`, `get_insert_other`  (lookups return the last written value)
  * `canonical`            two normal-form tries with the same lookups are the same tree, hence have the same root for ANY hash `H`
  * `history_free`         two update histories (inserts/overwrites, any order, any length) with the same final content
                           produce the same tree and the same root
  * `secure_history_free`  the same for the secure trie (keys mapped through any `hk`, e.g. Keccak)
False of the current code (kept at full strength, kernel-checked counterexample + true part):
  * `C10_iter_byte_order_statement`   (iteration in bytes.Compare key order) — known finding iterator-prefix-key-order
  * `C10_honest_proof_statement`      (every trie, incl. the empty one, yields a non-empty proof) — known finding empty-trie-proof-unverifiable
  * `C10_delete` (delete never panics, keeps the normal form, removes exactly the key), `get_delete_same/other`,
    `C10_history_free_with_deletes` (any two insert/overwrite/delete histories with the same final content give the same tree)
  * `C10_iter` (iteration enumerates exactly the content, HEX keys only, strictly increasing in path order),
    `C10_iter_byte_order_partial` (path order = bytes.Compare order on keys of equal length)
  * `C10_proof_sound`, `tamper_detected`: under `Function.Injective H` (hypothesis) and "the decoder inverts the honest
    encoder" (hypothesis), VerifyProof over ANY content-addressed database returns the true claim or fails, never panics
  * `C10_proof_complete`: the proof built by `Prove` (`proofNodes`) verifies to the true claim within `len(key)+1` nodes
-/
import LinkVerif.Props.C10Complete

namespace Props.C10
open Model.Trie

/-- a HEX key as produced by `keybytesToHex`: non-empty, the terminator exactly at the end -/
def HexKey (key : List Nib) : Prop := KeyAt false key

/-- the state of a trie: empty, or a normal-form node that is not a bare value -/
def RootWF (n : Node) : Prop := Pos false n

theorem rootWF_nil : RootWF .nil := Or.inl rfl

theorem fin17_ne_term (n : Nat) (h : n < 16) : Fin.ofNat 17 n ≠ term := by
  intro e
  have := congrArg Fin.val e
  simp [Fin.ofNat, term] at this
  omega

/-- `keybytesToHex` always produces a HEX key (so every API call addresses the trie with one) -/
theorem keybytesToHex_hex (bs : Bytes) : HexKey (keybytesToHex bs) := by
  refine ⟨?_, ?_⟩
  · induction bs with
    | nil => simp [keybytesToHex, Suf]
    | cons b bs ih =>
      have h1 : Fin.ofNat 17 (b.toNat / 16) ≠ term := fin17_ne_term _ (by have := b.toNat_lt; omega)
      have h2 : Fin.ofNat 17 (b.toNat % 16) ≠ term := fin17_ne_term _ (by omega)
      have hne : keybytesToHex bs ≠ [] := by cases bs <;> simp [keybytesToHex]
      show Suf (_ :: _ :: keybytesToHex bs)
      exact ⟨by simp [h1], by simp [h2, hne], ih⟩
  · cases bs <;> simp [keybytesToHex]

/-! ## 1. Lookups return the last written value; insertion never panics and keeps the normal form -/

theorem insert_no_panic (n : Node) (key : List Nib) (x : Bytes) (hn : RootWF n) (hk : HexKey key) :
    ∃ n', Model.Trie.insert n key (.value x) = some n' :=
  let ⟨n', h, _⟩ := insert_spec x n false key hn hk
  ⟨n', h⟩

theorem insert_keeps_normal_form (n n' : Node) (key : List Nib) (x : Bytes) (hn : RootWF n) (hk : HexKey key)
    (h : Model.Trie.insert n key (.value x) = some n') : RootWF n' := by
  obtain ⟨n'', h', hw, hv, _⟩ := insert_spec x n false key hn hk
  rw [h] at h'; cases h'
  exact Or.inr ⟨hw, hv⟩

theorem get_insert_same (n n' : Node) (key : List Nib) (x : Bytes) (hn : RootWF n) (hk : HexKey key)
    (h : Model.Trie.insert n key (.value x) = some n') : Model.Trie.get n' key = some x := by
  obtain ⟨n'', h', _, _, _, hg⟩ := insert_spec x n false key hn hk
  rw [h] at h'; cases h'
  simpa using hg key hk

theorem get_insert_other (n n' : Node) (key key' : List Nib) (x : Bytes) (hn : RootWF n) (hk : HexKey key)
    (hk' : HexKey key') (hne : key' ≠ key)
    (h : Model.Trie.insert n key (.value x) = some n') : Model.Trie.get n' key' = Model.Trie.get n key' := by
  obtain ⟨n'', h', _, _, _, hg⟩ := insert_spec x n false key hn hk
  rw [h] at h'; cases h'
  simpa [hne] using hg key' hk'

/-- the API level: `Update(key, value)` with a non-empty value, then `Get(key)` -/
theorem lookup_update_same (n : Node) (key v : Bytes) (hn : RootWF n) (hv : v ≠ []) :
    ∃ n', update n key v = some n' ∧ lookup n' key = some v := by
  obtain ⟨n', h⟩ := insert_no_panic n (keybytesToHex key) v hn (keybytesToHex_hex key)
  refine ⟨n', ?_, get_insert_same n n' _ v hn (keybytesToHex_hex key) h⟩
  cases v with
  | nil => exact absurd rfl hv
  | cons a v => simpa [update] using h

/-- non-vacuity: a concrete update on a concrete trie -/
example : ∃ n', update (.short (keybytesToHex [1]) (.value [7])) [2] [9] = some n' ∧ lookup n' [2] = some [9] := by
  apply lookup_update_same
  · exact Or.inr ⟨⟨keyOK_of_suf (keybytesToHex_hex [1]).1 (by simp [keybytesToHex]), rfl, trivial⟩, rfl⟩
  · simp

/-! ## 2. Canonical form: the tree (hence the root, for any hash) is a function of the content -/

/-- CANONICAL: no hash assumption -/
theorem canonical (a b : Node) (ha : RootWF a) (hb : RootWF b)
    (h : ∀ key, HexKey key → Model.Trie.get a key = Model.Trie.get b key) : a = b := by
  rcases ha with ha | ⟨ha, hva⟩ <;> rcases hb with hb | ⟨hb, hvb⟩
  · rw [isNil_eq ha, isNil_eq hb]
  · exfalso
    obtain ⟨key, hk, hg⟩ := exists_key b hb
    rw [hvb] at hk
    rw [← h key hk, isNil_eq ha] at hg
    simp [Model.Trie.get] at hg
  · exfalso
    obtain ⟨key, hk, hg⟩ := exists_key a ha
    rw [hva] at hk
    rw [h key hk, isNil_eq hb] at hg
    simp [Model.Trie.get] at hg
  · exact canon a b ha hb (by rw [hva, hvb]) (by rw [hva]; exact h)

theorem canonical_root (H : Bytes → Bytes) (a b : Node) (ha : RootWF a) (hb : RootWF b)
    (h : ∀ key, HexKey key → Model.Trie.get a key = Model.Trie.get b key) : root H a = root H b := by
  rw [canonical a b ha hb h]

/-! ## 3. History independence (insert / overwrite histories) -/

/-- a history of updates with non-empty values, on HEX keys -/
def run : List (List Nib × Bytes) → Node → Option Node
  | [], n => some n
  | (k, v) :: ops, n => (Model.Trie.insert n k (.value v)).bind (run ops)

/-- the content a history writes (last write wins), as a function -/
def content : List (List Nib × Bytes) → (List Nib → Option Bytes) → List Nib → Option Bytes
  | [], f => f
  | (k, v) :: ops, f => content ops (fun key => if key = k then some v else f key)

theorem run_spec : ∀ (ops : List (List Nib × Bytes)) (n : Node), RootWF n → (∀ kv ∈ ops, HexKey kv.1) →
    ∃ n', run ops n = some n' ∧ RootWF n' ∧ ∀ key, HexKey key → Model.Trie.get n' key = content ops (Model.Trie.get n) key
  | [], n, hn, _ => ⟨n, rfl, hn, fun _ _ => rfl⟩
  | (k, v) :: ops, n, hn, hk => by
    have hk0 : HexKey k := hk (k, v) (by simp)
    obtain ⟨n1, h1, hw, hv, _, hg⟩ := insert_spec v n false k hn hk0
    obtain ⟨n', h2, hw', hg'⟩ := run_spec ops n1 (Or.inr ⟨hw, hv⟩) (fun kv h => hk kv (by simp [h]))
    refine ⟨n', by simp [run, h1, h2], hw', ?_⟩
    intro key hkey
    rw [hg' key hkey]
    simp only [content]
    -- the two start functions agree on HEX keys, and `content` only ever looks at the queried key
    have : ∀ (ops : List (List Nib × Bytes)) (f g : List Nib → Option Bytes), f key = g key → content ops f key = content ops g key := by
      intro ops
      induction ops with
      | nil => intro f g h; exact h
      | cons o ops ih => intro f g h; exact ih _ _ (by simp only [h])
    exact this ops _ _ (hg key hkey)

/-- HISTORY FREE: two histories from the empty trie that write the same content produce the same tree and the same root
(for any hash function; in particular all permutations of the insertion order, with arbitrary overwrites) -/
theorem history_free (H : Bytes → Bytes) (ops₁ ops₂ : List (List Nib × Bytes))
    (h₁ : ∀ kv ∈ ops₁, HexKey kv.1) (h₂ : ∀ kv ∈ ops₂, HexKey kv.1)
    (hc : ∀ key, HexKey key → content ops₁ (fun _ => none) key = content ops₂ (fun _ => none) key) :
    ∃ n, run ops₁ .nil = some n ∧ run ops₂ .nil = some n ∧
      ∀ n₁ n₂, run ops₁ .nil = some n₁ → run ops₂ .nil = some n₂ → root H n₁ = root H n₂ := by
  obtain ⟨n1, r1, w1, g1⟩ := run_spec ops₁ .nil rootWF_nil h₁
  obtain ⟨n2, r2, w2, g2⟩ := run_spec ops₂ .nil rootWF_nil h₂
  have : n1 = n2 := canonical n1 n2 w1 w2 (fun key hk => by
    rw [g1 key hk, g2 key hk]
    have e : Model.Trie.get .nil = fun _ => none := by funext k; simp [Model.Trie.get]
    rw [e]; exact hc key hk)
  subst this
  refine ⟨n1, r1, r2, ?_⟩
  intro a b ha hb
  rw [r1] at ha; rw [r2] at hb; cases ha; cases hb; rfl

/-- non-vacuity: two different orders of the same two writes -/
example : ∃ n, run [(keybytesToHex [1], [7]), (keybytesToHex [2], [9])] .nil = some n ∧
    run [(keybytesToHex [2], [9]), (keybytesToHex [1], [5]), (keybytesToHex [1], [7])] .nil = some n := by
  obtain ⟨n, h1, h2, _⟩ := history_free id [(keybytesToHex [1], [7]), (keybytesToHex [2], [9])]
    [(keybytesToHex [2], [9]), (keybytesToHex [1], [5]), (keybytesToHex [1], [7])]
    (by intro kv h; simp at h; rcases h with h | h <;> (rw [h]; exact keybytesToHex_hex _))
    (by intro kv h; simp at h; rcases h with h | h | h <;> (rw [h]; exact keybytesToHex_hex _))
    (by
      have d : keybytesToHex [1] ≠ keybytesToHex [2] := by decide
      intro key _; simp only [content]
      by_cases a : key = keybytesToHex [1] <;> by_cases b : key = keybytesToHex [2] <;> simp [a, b, d, Ne.symm d])
  exact ⟨n, h1, h2⟩

/-- SECURE TRIE = plain trie under `k ↦ hk k` (Keccak in the code; any function here): same history independence -/
theorem secure_history_free (H : Bytes → Bytes) (hk : Bytes → Bytes) (ops₁ ops₂ : List (Bytes × Bytes))
    (hc : ∀ key, HexKey key →
      content (ops₁.map fun kv => (keybytesToHex (hk kv.1), kv.2)) (fun _ => none) key =
      content (ops₂.map fun kv => (keybytesToHex (hk kv.1), kv.2)) (fun _ => none) key) :
    ∃ n, run (ops₁.map fun kv => (keybytesToHex (hk kv.1), kv.2)) .nil = some n ∧
         run (ops₂.map fun kv => (keybytesToHex (hk kv.1), kv.2)) .nil = some n := by
  obtain ⟨n, h1, h2, _⟩ := history_free H _ _
    (by intro kv h; simp only [List.mem_map] at h; obtain ⟨a, _, e⟩ := h; rw [← e]; exact keybytesToHex_hex _)
    (by intro kv h; simp only [List.mem_map] at h; obtain ⟨a, _, e⟩ := h; rw [← e]; exact keybytesToHex_hex _)
    hc
  exact ⟨n, h1, h2⟩

/-! ## 4. Deletion and histories with deletions -/

/-- FULL STATEMENT: `delete` on a HEX key never panics, keeps the normal form, removes exactly that key -/
def C10_delete_statement : Prop :=
  ∀ (n : Node) (key : List Nib), RootWF n → HexKey key →
    ∃ n', Model.Trie.delete n key = some n' ∧ RootWF n' ∧
      ∀ key', HexKey key' → Model.Trie.get n' key' = if key' = key then none else Model.Trie.get n key'

theorem C10_delete : C10_delete_statement := by
  intro n key hn hk
  obtain ⟨n', h, hp, _, hg⟩ := delete_spec n false key hn hk
  exact ⟨n', h, hp, hg⟩

theorem delete_no_panic (n : Node) (key : List Nib) (hn : RootWF n) (hk : HexKey key) :
    ∃ n', Model.Trie.delete n key = some n' :=
  let ⟨n', h, _⟩ := C10_delete n key hn hk
  ⟨n', h⟩

theorem delete_keeps_normal_form (n n' : Node) (key : List Nib) (hn : RootWF n) (hk : HexKey key)
    (h : Model.Trie.delete n key = some n') : RootWF n' := by
  obtain ⟨n'', h', hw, _⟩ := C10_delete n key hn hk
  rw [h] at h'; cases h'; exact hw

theorem get_delete_same (n n' : Node) (key : List Nib) (hn : RootWF n) (hk : HexKey key)
    (h : Model.Trie.delete n key = some n') : Model.Trie.get n' key = none := by
  obtain ⟨n'', h', _, hg⟩ := C10_delete n key hn hk
  rw [h] at h'; cases h'
  simpa using hg key hk

theorem get_delete_other (n n' : Node) (key key' : List Nib) (hn : RootWF n) (hk : HexKey key) (hk' : HexKey key')
    (hne : key' ≠ key) (h : Model.Trie.delete n key = some n') : Model.Trie.get n' key' = Model.Trie.get n key' := by
  obtain ⟨n'', h', _, hg⟩ := C10_delete n key hn hk
  rw [h] at h'; cases h'
  simpa [hne] using hg key' hk'

/-- non-vacuity: deleting one of two keys -/
example : ∃ n, run [(keybytesToHex [1], [7]), (keybytesToHex [2], [9])] .nil = some n ∧
    ∃ n', Model.Trie.delete n (keybytesToHex [1]) = some n' ∧ Model.Trie.get n' (keybytesToHex [1]) = none := by
  obtain ⟨n, h, hw, _⟩ := run_spec [(keybytesToHex [1], [7]), (keybytesToHex [2], [9])] .nil rootWF_nil
    (by intro kv h; simp at h; rcases h with h | h <;> (rw [h]; exact keybytesToHex_hex _))
  obtain ⟨n', h'⟩ := delete_no_panic n (keybytesToHex [1]) hw (keybytesToHex_hex _)
  exact ⟨n, h, n', h', get_delete_same n n' _ hw (keybytesToHex_hex _) h'⟩

/-- histories with deletions (`none` = delete) -/
def runD : List (List Nib × Option Bytes) → Node → Option Node
  | [], n => some n
  | (k, some v) :: ops, n => (Model.Trie.insert n k (.value v)).bind (runD ops)
  | (k, none) :: ops, n => (Model.Trie.delete n k).bind (runD ops)

def contentD : List (List Nib × Option Bytes) → (List Nib → Option Bytes) → List Nib → Option Bytes
  | [], f => f
  | (k, v) :: ops, f => contentD ops (fun key => if key = k then v else f key)

/-- FULL STATEMENT: history independence including deletions (root equality for every `H` follows by `congrArg (root H)`) -/
def C10_history_free_with_deletes_statement : Prop :=
  ∀ (ops₁ ops₂ : List (List Nib × Option Bytes)), (∀ kv ∈ ops₁, HexKey kv.1) → (∀ kv ∈ ops₂, HexKey kv.1) →
    (∀ key, HexKey key → contentD ops₁ (fun _ => none) key = contentD ops₂ (fun _ => none) key) →
    ∃ n, runD ops₁ .nil = some n ∧ runD ops₂ .nil = some n

/-- HISTORY FREE with deletions: any two histories of inserts, overwrites and deletes from the empty trie that leave the
same content produce the same tree (hence the same root for any hash) -/
theorem C10_history_free_with_deletes : C10_history_free_with_deletes_statement := by
  have hd := C10_delete
  have spec : ∀ (ops : List (List Nib × Option Bytes)) (n : Node), RootWF n → (∀ kv ∈ ops, HexKey kv.1) →
      ∃ n', runD ops n = some n' ∧ RootWF n' ∧ ∀ key, HexKey key → Model.Trie.get n' key = contentD ops (Model.Trie.get n) key := by
    have cong : ∀ (key : List Nib) (ops : List (List Nib × Option Bytes)) (f g : List Nib → Option Bytes), f key = g key →
        contentD ops f key = contentD ops g key := by
      intro key ops
      induction ops with
      | nil => intro f g h; exact h
      | cons o ops ih => intro f g h; exact ih _ _ (by simp only [h])
    intro ops
    induction ops with
    | nil => intro n hn _; exact ⟨n, rfl, hn, fun _ _ => rfl⟩
    | cons o ops ih =>
      intro n hn hk
      obtain ⟨k, ov⟩ := o
      have hk0 : HexKey k := hk (k, ov) (by simp)
      cases ov with
      | some v =>
        obtain ⟨n1, h1, hw, hv, _, hg⟩ := insert_spec v n false k hn hk0
        obtain ⟨n', h2, hw', hg'⟩ := ih n1 (Or.inr ⟨hw, hv⟩) (fun kv h => hk kv (by simp [h]))
        refine ⟨n', by simp [runD, h1, h2], hw', fun key hkey => ?_⟩
        rw [hg' key hkey]; exact cong key ops _ _ (hg key hkey)
      | none =>
        obtain ⟨n1, h1, hw, hg⟩ := hd n k hn hk0
        obtain ⟨n', h2, hw', hg'⟩ := ih n1 hw (fun kv h => hk kv (by simp [h]))
        refine ⟨n', by simp [runD, h1, h2], hw', fun key hkey => ?_⟩
        rw [hg' key hkey]; exact cong key ops _ _ (hg key hkey)
  intro ops₁ ops₂ h₁ h₂ hc
  obtain ⟨n1, r1, w1, g1⟩ := spec ops₁ .nil rootWF_nil h₁
  obtain ⟨n2, r2, w2, g2⟩ := spec ops₂ .nil rootWF_nil h₂
  have : n1 = n2 := canonical n1 n2 w1 w2 (fun key hk => by
    rw [g1 key hk, g2 key hk]
    have e : Model.Trie.get .nil = fun _ => none := by funext k; simp [Model.Trie.get]
    rw [e]; exact hc key hk)
  subst this
  exact ⟨n1, r1, r2⟩

/-! ## 5. Iteration -/

def bytesLt : Bytes → Bytes → Bool
  | [], [] => false
  | [], _ :: _ => true
  | _ :: _, [] => false
  | a :: as, b :: bs => a < b || (a == b && bytesLt as bs)

def sortedBy (lt : Bytes → Bytes → Bool) : List Bytes → Bool
  | a :: b :: r => lt a b && sortedBy lt (b :: r)
  | _ => true

def runB : List (Bytes × Bytes) → Node → Option Node
  | [], n => some n
  | (k, v) :: ops, n => (update n k v).bind (runB ops)

/-- FULL STATEMENT (false of the code): iteration enumerates the keys in `bytes.Compare` order -/
def C10_iter_byte_order_statement : Prop :=
  ∀ (ops : List (Bytes × Bytes)),
    (runB ops .nil).all (fun n => sortedBy bytesLt ((toMap n).map fun kv => hexToKeybytes kv.1)) = true

/-- "do" ↦ "verb", "dog" ↦ "puppy": the iterator yields "dog" before "do" (the value slot 16 of a full node comes last) -/
theorem C10_iter_byte_order_counterexample : ¬ C10_iter_byte_order_statement := by
  intro h
  have := h [([0x64, 0x6f], [1]), ([0x64, 0x6f, 0x67], [2])]
  revert this
  decide

/-- FULL STATEMENT: iteration enumerates exactly the content (a pair is enumerated iff the lookup returns it), only HEX
keys, strictly increasing in path order (so no key twice) -/
def C10_iter_statement : Prop :=
  ∀ (n : Node), RootWF n →
    (∀ key x, HexKey key → ((key, x) ∈ toMap n ↔ Model.Trie.get n key = some x)) ∧
    (∀ kv ∈ toMap n, HexKey kv.1) ∧
    (toMap n).Pairwise (fun a b => pathLt a.1 b.1)

theorem C10_iter : C10_iter_statement :=
  fun n hn => ⟨fun key x hk => toMap_mem_iff n false hn key x hk, toMap_keys n false hn, toMap_sorted n⟩

theorem keybytesToHex_cons (x : UInt8) (a : Bytes) :
    keybytesToHex (x :: a) = Fin.ofNat 17 (x.toNat / 16) :: Fin.ofNat 17 (x.toNat % 16) :: keybytesToHex a := rfl

/-- the true part of the byte-order clause: on keys of equal byte length (secure tries: 32 bytes) path order IS
`bytes.Compare` order, so `toMap_sorted` gives iteration in key order there -/
theorem C10_iter_byte_order_partial : ∀ (a b : Bytes), a.length = b.length →
    (pathLt (keybytesToHex a) (keybytesToHex b) ↔ bytesLt a b = true)
  | [], [], _ => by simp [keybytesToHex, pathLt, bytesLt]
  | [], _ :: _, h => by simp at h
  | _ :: _, [], h => by simp at h
  | x :: a, y :: b, h => by
    have ih := C10_iter_byte_order_partial a b (by simpa using h)
    rw [keybytesToHex_cons, keybytesToHex_cons]
    simp only [pathLt, bytesLt, ih, Bool.or_eq_true, Bool.and_eq_true, decide_eq_true_eq, beq_iff_eq]
    have hx := x.toNat_lt
    have hy := y.toNat_lt
    have e1 : ∀ (m n : Nat), m < 17 → n < 17 → ((Fin.ofNat 17 m < Fin.ofNat 17 n) ↔ m < n) := by
      intro m n hm hn; simp [Fin.lt_def, Fin.ofNat, Nat.mod_eq_of_lt hm, Nat.mod_eq_of_lt hn]
    have e2 : ∀ (m n : Nat), m < 17 → n < 17 → ((Fin.ofNat 17 m = Fin.ofNat 17 n) ↔ m = n) := by
      intro m n hm hn; simp [Fin.ext_iff, Fin.ofNat, Nat.mod_eq_of_lt hm, Nat.mod_eq_of_lt hn]
    rw [e1 _ _ (by omega) (by omega), e1 _ _ (by omega) (by omega), e2 _ _ (by omega) (by omega), e2 _ _ (by omega) (by omega)]
    rw [UInt8.lt_iff_toNat_lt, ← UInt8.toNat_inj]
    constructor
    · rintro (h1 | ⟨h1, h2 | ⟨h2, h3⟩⟩)
      · left; omega
      · left; omega
      · right; exact ⟨by omega, h3⟩
    · rintro (h1 | ⟨h1, h3⟩)
      · by_cases hq : x.toNat / 16 < y.toNat / 16
        · left; exact hq
        · right; exact ⟨by omega, Or.inl (by omega)⟩
      · right; exact ⟨by omega, Or.inr ⟨by omega, h3⟩⟩

/-! ## 6. Proofs -/

/-- FULL STATEMENT (false of the code): `Prove` yields at least the root node, for every trie and key -/
def C10_honest_proof_statement : Prop :=
  ∀ (H : Bytes → Bytes) (n : Node) (key : List Nib), RootWF n → HexKey key → proofNodes H n key ≠ []

/-- the empty trie has no proof node, and `VerifyProof` needs one for the root hash -/
theorem C10_honest_proof_counterexample : ¬ C10_honest_proof_statement := by
  intro h
  exact h id .nil (keybytesToHex []) rootWF_nil (keybytesToHex_hex []) (by simp [proofNodes, path, keybytesToHex])

/-- the true part: every non-empty trie yields a proof that starts with the root node's encoding -/
theorem C10_honest_proof_partial (H : Bytes → Bytes) (n : Node) (key : List Nib) (hn : RootWF n) (hne : n.isNil = false)
    (hk : HexKey key) : ∃ rest, proofNodes H n key = enc H n :: rest := by
  cases key with
  | nil => exact absurd (hk.2.mp rfl) (by simp)
  | cons a as =>
    rcases hn with h | ⟨_, hv⟩
    · rw [h] at hne; cases hne
    · cases n with
      | nil => simp [Node.isNil] at hne
      | value v => simp [Node.isValue] at hv
      | short k c => exact ⟨_, rfl⟩
      | full c => exact ⟨_, rfl⟩

/-- the claim the content of `s` makes about `key`, in `VerifyProof`'s vocabulary -/
def claimOf (s : Node) (key : List Nib) : VRes :=
  match Model.Trie.get s key with
  | some x => .value x
  | none => .absent

/-- FULL STATEMENT (soundness): against the root of a non-empty normal-form trie, with ANY content-addressed proof
database, `VerifyProof` either reports an error (or, in the model, runs out of fuel) or returns exactly the claim that is
true of the content; it never panics.  `H` collision-free and "the decoder inverts the honest encoder on the nodes on the way to `key`" are hypotheses. -/
def C10_proof_sound_statement : Prop :=
  ∀ (H : Bytes → Bytes), Function.Injective H →
  ∀ (decode : Bytes → Option CNode) (db : Bytes → Option Bytes), (∀ h b, db h = some b → H b = h) →
  ∀ (fuel : Nat) (s : Node) (key : List Nib), RootWF s → s.isNil = false → HexKey key →
    (∀ t ∈ path s key, WF t → decode (enc H t) = some (collapse H t)) →
    verify H decode db fuel (root H s) key = claimOf s key ∨
    verify H decode db fuel (root H s) key = .error ∨
    verify H decode db fuel (root H s) key = .fuel

theorem C10_proof_sound : C10_proof_sound_statement := by
  intro H Hinj decode db hdb fuel s key hs hne hk hdec
  rcases hs with h | ⟨hw, hv⟩
  · rw [h] at hne; cases hne
  · obtain ⟨h1, h2, h3⟩ := verify_sound2 H Hinj decode db hdb fuel s key hw hv hk hdec
    unfold root claimOf
    cases hr : verify H decode db fuel (H (enc H s)) key with
    | value x => left; rw [h1 x hr]
    | absent => left; rw [h2 hr]
    | error => right; left; rfl
    | fuel => right; right; rfl
    | panic => exact absurd hr h3

/-- TAMPER DETECTED: take the honest proof, alter / drop / add any nodes, store every node under the hash of its own
bytes (`dbOf`, the convention of the in-tree TestBadProof): verification fails or returns the same, true claim -/
theorem tamper_detected (H : Bytes → Bytes) (Hinj : Function.Injective H)
    (decode : Bytes → Option CNode) (nodes : List Bytes) (fuel : Nat) (s : Node) (key : List Nib)
    (hs : RootWF s) (hne : s.isNil = false) (hk : HexKey key)
    (hdec : ∀ t ∈ path s key, WF t → decode (enc H t) = some (collapse H t)) :
    verify H decode (dbOf H nodes) fuel (root H s) key = claimOf s key ∨
    verify H decode (dbOf H nodes) fuel (root H s) key = .error ∨
    verify H decode (dbOf H nodes) fuel (root H s) key = .fuel :=
  C10_proof_sound H Hinj decode (dbOf H nodes) (dbOf_content_addressed H nodes) fuel s key hs hne hk hdec

/-- FULL STATEMENT (completeness): the proof built by `Prove` verifies to the true claim (non-empty trie) -/
def C10_proof_complete_statement : Prop :=
  ∀ (H : Bytes → Bytes), Function.Injective H →
  ∀ (decode : Bytes → Option CNode) (s : Node) (key : List Nib), RootWF s → s.isNil = false → HexKey key →
    (∀ t ∈ path s key, WF t → decode (enc H t) = some (collapse H t)) →
    verify H decode (dbOf H (proofNodes H s key)) (key.length + 1) (root H s) key = claimOf s key

theorem proofNodes_mem (H : Bytes → Bytes) (s : Node) (key : List Nib) (t : Node) (ht : t ∈ path s key)
    (h : 32 ≤ (enc H t).length ∨ (path s key).head? = some t) : enc H t ∈ proofNodes H s key := by
  unfold proofNodes
  cases hp : path s key with
  | nil => rw [hp] at ht; cases ht
  | cons p ps =>
    rw [hp] at ht h
    simp only [List.map_cons]
    rcases List.mem_cons.mp ht with e | hm
    · subst e; exact List.mem_cons_self
    · rcases h with h | h
      · refine List.mem_cons_of_mem _ (List.mem_filter.mpr ⟨List.mem_map.mpr ⟨t, hm, rfl⟩, ?_⟩)
        simpa using h
      · simp only [List.head?_cons, Option.some.injEq] at h
        subst h; exact List.mem_cons_self

theorem C10_proof_complete : C10_proof_complete_statement := by
  intro H Hinj decode s key hs hne hk hdec
  rcases hs with h | ⟨hw, hv⟩
  · rw [h] at hne; cases hne
  · have hself := self_mem_path hw hv hk
    have hhead : (path s key).head? = some s := by
      cases key with
      | nil => exact absurd (hk.2.mp rfl) (by simp)
      | cons a as =>
        cases s with
        | nil => exact absurd hw (by simp [WF])
        | value w => simp [Node.isValue] at hv
        | short k c => simp [path]
        | full c => simp [path]
    unfold root claimOf
    exact verify_complete_aux H Hinj decode (proofNodes H s key) (key.length + 1) s key hw hv hk (by omega) hdec
      (proofNodes_mem H s key s hself (Or.inr hhead))
      (fun t ht h32 => proofNodes_mem H s key t ht (Or.inl h32))

/-- non-vacuity of the proof theorems: `H = id` is injective, a one-leaf trie, and a decoder that knows exactly that leaf;
the honest proof verifies to the stored value, and every content-addressed database yields that claim or an error -/
example :
    let s : Node := .short (keybytesToHex [1]) (.value [7])
    let decode : Bytes → Option CNode := fun b => if b = enc id s then some (collapse id s) else none
    verify id decode (dbOf id (proofNodes id s (keybytesToHex [1]))) ((keybytesToHex [1]).length + 1) (root id s) (keybytesToHex [1])
      = .value [7] := by
  intro s decode
  have hw : RootWF s := Or.inr ⟨⟨keyOK_of_suf (keybytesToHex_hex [1]).1 (by simp [keybytesToHex]), rfl, trivial⟩, rfl⟩
  have hk := keybytesToHex_hex [1]
  have hdec : ∀ t ∈ path s (keybytesToHex [1]), WF t → decode (enc id t) = some (collapse id t) := by
    intro t ht _
    have : t = s := by simpa [path, s, keybytesToHex, strip] using ht
    subst this; simp [decode]
  have := C10_proof_complete id Function.injective_id decode s (keybytesToHex [1]) hw rfl hk hdec
  rw [this]
  have hg : Model.Trie.get s (keybytesToHex [1]) = some [7] := by
    simp [s, strip_eq_some.mpr (List.append_nil _).symm, Model.Trie.get]
  simp [claimOf, hg]

end Props.C10
