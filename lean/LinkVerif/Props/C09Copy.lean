/-
C09, part 5: copies, first layer.  Two states of one world share the heap of token-map cells.  Independence of a copy is a
statement about that heap: a state can be influenced from outside ONLY through cells it references (`TokStore.shared`).
* `copy_independent_partial`  — every observable except token balances is independent of the heap, i.e. of anything any other
  state does, for ANY configuration (this was the strongest true statement before fix 9e64f31);
* `noShared_frame`            — a state without shared cells never writes the heap and stays without shared cells (mutators);
* `copy_repaired_noShared`    — with the `deepCopy` that clones the map (the tree since fix 9e64f31) `Copy` creates no shared
  cell and leaves the original untouched; together: `copy_independent_repaired` (mutator sequences on either side).
The full second clause for the current tree (all operations incl. snapshots, reverts, Finalise, Commit, copies of copies) is
`world_independent` in Props/C09World.lean, built on `NS` (Props/C09NoShared.lean); the refutation for the pinned tree is
`C09_copy_pinned_counterexample` in Props/C09.lean.
-/
import LinkVerif.Props.C09Revert

namespace Props.C09
open Model.StateDB

/-- the observables of state `s` when the shared heap is `h` -/
def obsWith (h : Ref → TokMap) (s : State) : Obs := obs { heap := h, nextRef := 0, st := s }

/-- an account observation without its token balances -/
def AccObs.noTok (x : AccObs) : Nat × Nat × Int × Bytes × (Key → Bytes) × Bool × Bool :=
  (x.nonce, x.credits, x.balance, x.code, x.stor, x.suicided, x.empty)

/-- **partial independence (any configuration, also the sharing `deepCopy` of the pinned tree).**  Whatever happens to the heap — i.e. whatever any copy, copy of a copy or the
original does — nonce, credits, balance, code, storage, suicide mark, existence, emptiness, refund and logs of a state do not move. -/
theorem copy_independent_partial (h h' : Ref → TokMap) (s : State) :
    (∀ a, ((obsWith h s).acct a).map AccObs.noTok = ((obsWith h' s).acct a).map AccObs.noTok) ∧
    (obsWith h s).refund = (obsWith h' s).refund ∧ (obsWith h s).logs = (obsWith h' s).logs ∧
    (obsWith h s).logSize = (obsWith h' s).logSize := by
  refine ⟨fun a => ?_, rfl, rfl, rfl⟩
  simp only [obsWith, obs]
  cases peek s a <;> simp [AccObs.noTok, obsObj]

/-- token balances of an account whose map is private do not depend on the heap either -/
theorem copy_independent_private (h h' : Ref → TokMap) (s : State) (a : Addr) (o : Obj) (m : TokMap)
    (hp : peek s a = some o) (hm : o.toks = .inl m) : (obsWith h s).acct a = (obsWith h' s).acct a := by
  simp [obsWith, obs, hp, obsObj, tokMapOf, hm]

/-! ### states without shared cells -/

def NSo (s : State) : Prop := ∀ a o, s.objs a = some o → ∃ m, o.toks = .inl m

theorem NSo_peek {s : State} (hn : NSo s) {a : Addr} {o : Obj} (h : peek s a = some o) : ∃ m, o.toks = .inl m := by
  unfold peek at h
  cases ho : s.objs a with
  | some o' =>
    simp only [ho] at h
    split at h
    · cases h
    · cases h; exact hn a _ ho
  | none =>
    simp only [ho] at h
    cases ht : s.trie a with
    | none => simp [ht] at h
    | some x => simp [ht] at h; subst h; exact ⟨_, rfl⟩

theorem NSo_putObj {c : Ctx} (hn : NSo c.st) (a : Addr) (o : Obj) (ho : ∃ m, o.toks = .inl m) : NSo (putObj c a o).st := by
  intro b o' hb
  by_cases hba : b = a
  · subst hba; simp [putObj] at hb; subst hb; exact ho
  · simp [putObj, hba] at hb; exact hn b o' hb

/-- heap untouched, no shared cell introduced -/
def Fh (c c' : Ctx) : Prop := c'.heap = c.heap ∧ NSo c'.st

theorem ensure_fh (c : Ctx) (a : Addr) (hn : NSo c.st) :
    Fh c (ensure c a).1 ∧ peek (ensure c a).1.st a = some (ensure c a).2 := by
  unfold ensure
  cases h : peek c.st a with
  | some o => exact ⟨⟨rfl, NSo_putObj hn a o (NSo_peek hn h)⟩, by simp [peek_not_deleted h]⟩
  | none =>
    have : (createObject c a).1 = putObj (push c (.createObject a)) a freshObj := by simp [createObject, h]
    simp only [this]
    exact ⟨⟨rfl, NSo_putObj (c := push c _) hn a freshObj ⟨_, rfl⟩⟩, by simp [freshObj]⟩

theorem setBalance_fh (c : Ctx) (a : Addr) (o : Obj) (v : Int) (hn : NSo c.st) (ho : ∃ m, o.toks = .inl m) :
    Fh c (setBalance c a o v) := by
  refine ⟨rfl, ?_⟩
  simp only [setBalance, setCredits]
  exact NSo_putObj (c := push (putObj (push c _) a _) _) (NSo_putObj (c := push c _) hn a _ (by exact ho)) a _ (by exact ho)

theorem touchIfEmpty_fh (c : Ctx) (a : Addr) (o : Obj) (hn : NSo c.st) : Fh c (touchIfEmpty c a o) := by
  unfold touchIfEmpty; split <;> exact ⟨rfl, hn⟩

theorem writeTok_inl (heap : Ref → TokMap) (o : Obj) (m : TokMap) (t : Tok) (v : Option Int) (hm : o.toks = .inl m) :
    writeTokH heap o t v = heap ∧ ∃ m', (writeTokO o t v).toks = .inl m' := by
  simp [writeTokH, writeTokO, hm]

theorem setTokenBalance_fh (cfg : Cfg) (c : Ctx) (a : Addr) (o : Obj) (t : Tok) (v : Int) (hn : NSo c.st)
    (ho : ∃ m, o.toks = .inl m) : Fh c (setTokenBalance cfg c a o t v) := by
  obtain ⟨m, hm⟩ := ho
  unfold setTokenBalance
  split
  · exact setBalance_fh c a o v hn ⟨m, hm⟩
  · have hz : Fh c (zeroInsert cfg c a o t).1 ∧ ∃ m', (zeroInsert cfg c a o t).2.toks = .inl m' := by
      unfold zeroInsert
      split
      · obtain ⟨h1, h2⟩ := writeTok_inl c.heap o m t (some 0) hm
        exact ⟨⟨by simp [h1], NSo_putObj (c := { c with heap := _ }) hn a _ h2⟩, h2⟩
      · exact ⟨⟨rfl, hn⟩, ⟨m, hm⟩⟩
    obtain ⟨⟨hh, hn0⟩, m0, hm0⟩ := hz
    simp only [setCredits]
    have ho1 : ({ (zeroInsert cfg c a o t).2 with credits := (zeroInsert cfg c a o t).2.credits + 1 } : Obj).toks = .inl m0 := hm0
    obtain ⟨h1, h2⟩ := writeTok_inl (zeroInsert cfg c a o t).1.heap _ m0 t (some v) ho1
    refine ⟨?_, ?_⟩
    · simp only [heap_putObj]
      exact (h1.trans hh)
    · exact NSo_putObj (c := { push (putObj (push (zeroInsert cfg c a o t).1 _) a _) _ with heap := _ })
        (NSo_putObj (c := push (zeroInsert cfg c a o t).1 _) hn0 a _ ⟨m0, ho1⟩) a _ h2

theorem Fh.trans {c c' c'' : Ctx} (h1 : Fh c c') (h2 : Fh c' c'') : Fh c c'' := ⟨h2.1.trans h1.1, h2.2⟩

/-- **a state without shared cells never writes the heap** (all mutators), and keeps having none -/
theorem noShared_frame (cfg : Cfg) (c : Ctx) (op : Op) (hn : NSo c.st) : Fh c (applyOp cfg c op) := by
  cases op with
  | addBal a v =>
    obtain ⟨h1, h2⟩ := ensure_fh c a hn
    simp only [applyOp]; split
    · exact h1.trans (touchIfEmpty_fh _ a _ h1.2)
    · exact h1.trans (setBalance_fh _ a _ _ h1.2 (NSo_peek h1.2 h2))
  | subBal a v =>
    obtain ⟨h1, h2⟩ := ensure_fh c a hn
    simp only [applyOp]; split
    · exact h1
    · exact h1.trans (setBalance_fh _ a _ _ h1.2 (NSo_peek h1.2 h2))
  | setBal a v =>
    obtain ⟨h1, h2⟩ := ensure_fh c a hn
    exact h1.trans (setBalance_fh _ a _ _ h1.2 (NSo_peek h1.2 h2))
  | addTok a t v =>
    obtain ⟨h1, h2⟩ := ensure_fh c a hn
    simp only [applyOp]; split
    · exact h1.trans (touchIfEmpty_fh _ a _ h1.2)
    · exact h1.trans (setTokenBalance_fh cfg _ a _ t _ h1.2 (NSo_peek h1.2 h2))
  | subTok a t v =>
    obtain ⟨h1, h2⟩ := ensure_fh c a hn
    simp only [applyOp]; split
    · exact h1
    · exact h1.trans (setTokenBalance_fh cfg _ a _ t _ h1.2 (NSo_peek h1.2 h2))
  | setTok a t v =>
    obtain ⟨h1, h2⟩ := ensure_fh c a hn
    exact h1.trans (setTokenBalance_fh cfg _ a _ t _ h1.2 (NSo_peek h1.2 h2))
  | setNonce a n =>
    obtain ⟨h1, h2⟩ := ensure_fh c a hn
    have ht := NSo_peek h1.2 h2
    exact h1.trans ⟨rfl, NSo_putObj (c := push _ _) h1.2 a _ (by exact ht)⟩
  | setCode a code =>
    obtain ⟨h1, h2⟩ := ensure_fh c a hn
    have ht := NSo_peek h1.2 h2
    exact h1.trans ⟨rfl, NSo_putObj (c := push _ _) h1.2 a _ (by exact ht)⟩
  | setState a k v =>
    obtain ⟨h1, h2⟩ := ensure_fh c a hn
    simp only [applyOp]; split
    · exact h1
    · have ht := NSo_peek h1.2 h2
      exact h1.trans ⟨rfl, NSo_putObj (c := push _ _) h1.2 a _ (by exact ht)⟩
  | create a =>
    simp only [applyOp, createObject]
    cases h : peek c.st a with
    | none => exact ⟨rfl, NSo_putObj (c := push c _) hn a freshObj ⟨_, rfl⟩⟩
    | some p => exact ⟨rfl, NSo_putObj (c := putObj (push c _) a freshObj) (NSo_putObj (c := push c _) hn a freshObj ⟨_, rfl⟩) a _ ⟨_, rfl⟩⟩
  | suicide a =>
    simp only [applyOp]
    cases h : peek c.st a with
    | none => exact ⟨rfl, hn⟩
    | some o => exact ⟨rfl, NSo_putObj (c := push c _) hn a _ ⟨_, rfl⟩⟩
  | addLog d => exact ⟨rfl, hn⟩
  | addRefund g => exact ⟨rfl, hn⟩
  | subRefund g => exact ⟨rfl, hn⟩
  | prepare x i => exact ⟨rfl, hn⟩
  | setCredits a n =>
    obtain ⟨h1, h2⟩ := ensure_fh c a hn
    have ht := NSo_peek h1.2 h2
    exact h1.trans ⟨rfl, NSo_putObj (c := push _ _) h1.2 a _ (by exact ht)⟩
  | addPreimage p d =>
    simp only [applyOp]
    split
    · exact ⟨rfl, hn⟩
    · exact ⟨rfl, hn⟩

def runOps (cfg : Cfg) (c : Ctx) (ops : List Op) : Ctx := ops.foldl (applyOp cfg) c

theorem noShared_frame_ops (cfg : Cfg) (ops : List Op) : ∀ c, NSo c.st → Fh c (runOps cfg c ops) := by
  induction ops with
  | nil => intro c hn; exact ⟨rfl, hn⟩
  | cons op rest ih =>
    intro c hn
    have h1 := noShared_frame cfg c op hn
    exact h1.trans (ih _ h1.2)

/-! ### the repaired `Copy` -/

/-- with `cloneTokens`, `Copy` leaves the original context untouched and the copy holds no shared cell -/
theorem copy_repaired_noShared (cfg : Cfg) (hc : cfg.cloneTokens = true) (c : Ctx) :
    (copy cfg c).1 = c ∧ NSo (copy cfg c).2 := by
  unfold copy
  generalize hinit : ((c, { State.empty with trie := c.st.trie, refund := c.st.refund, logs := c.st.logs, logSize := c.st.logSize, preimages := c.st.preimages }) : Ctx × State) = init
  have h0 : init.1 = c ∧ NSo init.2 := by
    subst hinit
    exact ⟨rfl, fun a o h => by simp [State.empty] at h⟩
  clear hinit
  revert h0
  generalize addrU = l
  induction l generalizing init with
  | nil => intro h0; exact h0
  | cons a rest ih =>
    intro h0
    simp only [List.foldl_cons]
    apply ih
    obtain ⟨c1, n⟩ := init
    simp only at h0 ⊢
    obtain ⟨h1, h2⟩ := h0
    subst h1
    split
    · cases ho : c1.st.objs a with
      | none => exact ⟨rfl, h2⟩
      | some o =>
        simp only [deepCopy, hc, if_true]
        refine ⟨?_, ?_⟩
        · simp only [putObj]
          have : upd c1.st.objs a (some o) = c1.st.objs := by rw [← ho]; exact upd_self _ _
          rw [this]
        · intro b o' hb
          by_cases hba : b = a
          · subst hba; simp at hb; subst hb; exact ⟨_, rfl⟩
          · simp [hba] at hb; exact h2 b o' hb
    · exact ⟨rfl, h2⟩

/-- **C09, second clause, mutator histories, for the cloning `deepCopy` (the current tree).**  In a world where no state holds a shared cell (which the repaired `Copy`
preserves: `copy_repaired_noShared`), any mutator sequence on the copy leaves every observable of the original unchanged, and
any mutator sequence on the original leaves every observable of the copy unchanged. -/
theorem copy_independent_repaired (cfg : Cfg) (hc : cfg.cloneTokens = true) (c : Ctx) (hn : NSo c.st) (ops : List Op) :
    let c' := (copy cfg c).1
    let n := (copy cfg c).2
    obsWith (runOps cfg { heap := c'.heap, nextRef := c'.nextRef, st := n } ops).heap c'.st = obsWith c.heap c.st ∧
    obsWith (runOps cfg c' ops).heap n = obsWith c'.heap n := by
  obtain ⟨h1, h2⟩ := copy_repaired_noShared cfg hc c
  simp only
  rw [h1]
  refine ⟨?_, ?_⟩
  · have := noShared_frame_ops cfg ops { heap := c.heap, nextRef := c.nextRef, st := (copy cfg c).2 } h2
    rw [this.1]
  · have := noShared_frame_ops cfg ops c hn
    rw [this.1]

end Props.C09
