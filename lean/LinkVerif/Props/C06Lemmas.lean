import LinkVerif.Model.Ledger

/-!
# C06 — helper lemmas: sums under `addAt`, `markSpent`, `addOuts`; projections of `execTx`
Core Lean only.  The model (`Model.Ledger`) is not touched: proof-friendly restatements live here and are proved
equal to the model's definitions.
-/
namespace Props.C06
open Model.Ledger

/-! ## gas -/

theorem calGas_bounds (a : Int) : 500000 ≤ calGas a ∧ calGas a ≤ 5000000000 := by
  unfold calGas
  simp only []
  split
  · omega
  · split <;> omega

theorem calGas_mono {a b : Int} (h : a ≤ b) : calGas a ≤ calGas b := by
  have hc : (a + 99999999) / 100000000 ≤ (b + 99999999) / 100000000 :=
    Int.ediv_le_ediv (by omega) (by omega)
  unfold calGas
  simp only []
  split <;> split <;> (try split) <;> (try split) <;> omega

/-! ## `addAt` -/

theorem length_addAt (xs : List Int) (i : Nat) (d : Int) : (addAt xs i d).length = xs.length := by
  simp [addAt]

theorem sum_addAt (xs : List Int) (i : Nat) (d : Int) (h : i < xs.length) : (addAt xs i d).sum = xs.sum + d := by
  unfold addAt
  induction xs generalizing i with
  | nil => simp at h
  | cons x xs ih =>
    cases i with
    | zero => simp only [List.modify_zero_cons, List.sum_cons]; omega
    | succ i =>
      have h' : i < xs.length := by simpa using h
      simp only [List.modify_succ_cons, List.sum_cons, ih i h']; omega

/-- out of range `addAt` is the identity: the reason `Honest` asks for indices in range -/
theorem addAt_out (xs : List Int) (i : Nat) (d : Int) (h : xs.length ≤ i) : addAt xs i d = xs := by
  unfold addAt
  induction xs generalizing i with
  | nil => simp
  | cons x xs ih =>
    cases i with
    | zero => simp at h
    | succ i => simp only [List.modify_succ_cons]; rw [ih i (by simpa using h)]

/-! ## unspent amount of a flat list of outputs -/

/-- what one output contributes to the pool -/
def contrib (o : Out) : Int := if o.spent then 0 else o.amount

def usum (l : List Out) : Int := ((l.filter (!·.spent)).map (·.amount)).sum

theorem usum_nil : usum [] = 0 := rfl

theorem usum_cons (o : Out) (l : List Out) : usum (o :: l) = contrib o + usum l := by
  unfold usum contrib
  cases h : o.spent <;> simp [h]

theorem usum_append (l₁ l₂ : List Out) : usum (l₁ ++ l₂) = usum l₁ + usum l₂ := by
  induction l₁ with
  | nil => simp [usum_nil]
  | cons o l ih => simp only [List.cons_append, usum_cons, ih]; omega

theorem usum_perm {l₁ l₂ : List Out} (h : l₁.Perm l₂) : usum l₁ = usum l₂ := by
  induction h with
  | nil => rfl
  | cons x _ ih => simp only [usum_cons, ih]
  | swap x y l => simp only [usum_cons]; omega
  | trans _ _ ih₁ ih₂ => exact ih₁.trans ih₂

/-- the model's `pool` is the unspent amount of all outputs of all wallets -/
theorem pool_eq_usum (s : St) : pool s = usum s.wallets.flatten := by
  unfold pool
  generalize s.wallets = ws
  induction ws with
  | nil => rfl
  | cons outs ws ih =>
    simp only [List.map_cons, List.sum_cons, List.flatten_cons, usum_append, ih]
    rfl

/-! ## `markSpent` -/

def mark (oid : Nat) (o : Out) : Out := if o.id = oid then { o with spent := true } else o

theorem markSpent_eq (ws : List (List Out)) (oid : Nat) : markSpent ws oid = ws.map (List.map (mark oid)) := rfl

theorem markSpent_flatten (ws : List (List Out)) (oid : Nat) :
    (markSpent ws oid).flatten = ws.flatten.map (mark oid) := by
  rw [markSpent_eq, List.map_flatten]

theorem length_markSpent (ws : List (List Out)) (oid : Nat) : (markSpent ws oid).length = ws.length := by
  simp [markSpent]

theorem mark_id (oid : Nat) (o : Out) : (mark oid o).id = o.id := by
  unfold mark; split <;> rfl

theorem map_mark_ids (oid : Nat) (l : List Out) : (l.map (mark oid)).map (·.id) = l.map (·.id) := by
  simp only [List.map_map]
  apply List.map_congr_left
  intro o _
  exact mark_id oid o

theorem mark_of_ne {oid : Nat} {o : Out} (h : o.id ≠ oid) : mark oid o = o := by
  unfold mark; simp [h]

theorem contrib_mark_eq {oid : Nat} {o : Out} (h : o.id = oid) : contrib (mark oid o) = 0 := by
  unfold mark contrib; simp [h]

theorem map_mark_of_fresh (oid : Nat) (l : List Out) (h : ∀ y ∈ l, y.id ≠ oid) : l.map (mark oid) = l := by
  induction l with
  | nil => rfl
  | cons x l ih =>
    simp only [List.map_cons]
    rw [mark_of_ne (h x (by simp)), ih (fun y hy => h y (by simp [hy]))]

/-- marking the unique unspent output with a given id removes exactly its amount from the unspent total -/
theorem usum_mark (l : List Out) (oid : Nat) (o : Out) (hnd : (l.map (·.id)).Nodup) (ho : o ∈ l) (hid : o.id = oid)
    (hsp : o.spent = false) : usum (l.map (mark oid)) = usum l - o.amount := by
  induction l with
  | nil => simp at ho
  | cons x l ih =>
    simp only [List.map_cons, List.nodup_cons] at hnd
    obtain ⟨hx, hnd'⟩ := hnd
    simp only [List.map_cons, usum_cons]
    rcases List.mem_cons.mp ho with rfl | hol
    · have hfresh : ∀ y ∈ l, y.id ≠ oid := by
        intro y hy hyid
        apply hx
        rw [hid, ← hyid]
        exact List.mem_map.mpr ⟨y, hy, rfl⟩
      rw [map_mark_of_fresh oid l hfresh, contrib_mark_eq hid]
      unfold contrib; simp only [hsp, Bool.false_eq_true, if_false]; omega
    · have hxne : x.id ≠ oid := by
        intro hxid
        apply hx
        rw [hxid, ← hid]
        exact List.mem_map.mpr ⟨o, hol, rfl⟩
      rw [mark_of_ne hxne, ih hnd' hol]; omega

/-! ## `addOuts` -/

/-- a created output tagged with its id -/
def mkOut (x : (Nat × Int) × Nat) : Out := { id := x.2, amount := x.1.2, spent := false }

/-- the created outputs of `t`, tagged with their ids, as in `addOuts` -/
def tagOf (nextOut : Nat) (t : TxRec) : List ((Nat × Int) × Nat) :=
  (newOuts t).zip ((List.range (newOuts t).length).map (· + nextOut))

/-- the wallets after appending the tagged outputs to their owners (wallet indices start at `k`) -/
def addW (ws : List (List Out)) (k : Nat) (tg : List ((Nat × Int) × Nat)) : List (List Out) :=
  (ws.zipIdx k).map (fun p => p.1 ++ (tg.filter (fun x => x.1.1 = p.2)).map mkOut)

theorem addOuts_wallets (s : St) (t : TxRec) : (addOuts s t).wallets = addW s.wallets 0 (tagOf s.nextOut t) := rfl
theorem addOuts_nextOut (s : St) (t : TxRec) : (addOuts s t).nextOut = s.nextOut + (newOuts t).length := rfl

theorem length_addW (ws : List (List Out)) (k : Nat) (tg) : (addW ws k tg).length = ws.length := by
  simp [addW]

/-- the outputs owned by wallet `k`, then those owned by `k+1 … k+n`, are those owned by `k … k+n` -/
theorem filter_split (tg : List ((Nat × Int) × Nat)) (k n : Nat) :
    ((tg.filter (fun x => k ≤ x.1.1 ∧ x.1.1 < k + (n + 1))).map mkOut).Perm
      ((tg.filter (fun x => x.1.1 = k)).map mkOut ++
        (tg.filter (fun x => k + 1 ≤ x.1.1 ∧ x.1.1 < k + 1 + n)).map mkOut) := by
  induction tg with
  | nil => simp
  | cons x tg ih =>
    by_cases h1 : x.1.1 = k
    · have e1 : (k ≤ x.1.1 ∧ x.1.1 < k + (n + 1)) := by omega
      have e2 : ¬ (k + 1 ≤ x.1.1 ∧ x.1.1 < k + 1 + n) := by omega
      simp only [List.filter_cons, h1, decide_true, if_true, List.map_cons, List.cons_append]
      simp only [h1] at e1 e2
      simp only [e1, e2, and_self, decide_true, decide_false, if_true, Bool.false_eq_true, if_false, List.map_cons]
      exact ih.cons _
    · by_cases h2 : (k + 1 ≤ x.1.1 ∧ x.1.1 < k + 1 + n)
      · have e1 : (k ≤ x.1.1 ∧ x.1.1 < k + (n + 1)) := by omega
        simp only [List.filter_cons, h1, e1, h2, and_self, decide_true, decide_false, if_true, Bool.false_eq_true,
          if_false, List.map_cons]
        exact (ih.cons _).trans List.perm_middle.symm
      · have e1 : ¬ (k ≤ x.1.1 ∧ x.1.1 < k + (n + 1)) := by omega
        simp only [List.filter_cons, h1, e1, h2, decide_false, Bool.false_eq_true, if_false]
        exact ih

/-- all outputs after `addW`: the old ones and the created ones whose wallet exists (as a multiset) -/
theorem addW_flatten_perm (ws : List (List Out)) (k : Nat) (tg : List ((Nat × Int) × Nat)) :
    (addW ws k tg).flatten.Perm
      (ws.flatten ++ (tg.filter (fun x => k ≤ x.1.1 ∧ x.1.1 < k + ws.length)).map mkOut) := by
  induction ws generalizing k with
  | nil =>
    have : tg.filter (fun x => k ≤ x.1.1 ∧ x.1.1 < k + ([] : List (List Out)).length) = [] := by
      apply List.filter_eq_nil_iff.mpr
      intro a _
      simp
    simp [addW]
  | cons outs ws ih =>
    have ih' := ih (k + 1)
    unfold addW at ih' ⊢
    simp only [List.zipIdx_cons, List.map_cons, List.flatten_cons, List.length_cons]
    refine ((List.Perm.append_left _ ih').trans ?_)
    refine List.Perm.trans ?_ (List.Perm.append_left _ (filter_split tg k ws.length).symm)
    simp only [List.append_assoc]
    apply List.Perm.append_left
    exact List.perm_append_comm_assoc _ _ _

theorem addW_flatten_perm_inrange (ws : List (List Out)) (tg : List ((Nat × Int) × Nat))
    (h : ∀ x ∈ tg, x.1.1 < ws.length) : (addW ws 0 tg).flatten.Perm (ws.flatten ++ tg.map mkOut) := by
  have hp := addW_flatten_perm ws 0 tg
  have : tg.filter (fun x => 0 ≤ x.1.1 ∧ x.1.1 < 0 + ws.length) = tg := by
    apply List.filter_eq_self.mpr
    intro a ha
    have := h a ha
    simp; omega
  rwa [this] at hp

theorem usum_mkOut (tg : List ((Nat × Int) × Nat)) : usum (tg.map mkOut) = (tg.map (·.1.2)).sum := by
  induction tg with
  | nil => rfl
  | cons x tg ih => simp only [List.map_cons, usum_cons, List.sum_cons, ih]; rfl

/-! ### the tags -/

theorem tagOf_fst (n : Nat) (t : TxRec) : (tagOf n t).map (·.1) = newOuts t := by
  unfold tagOf
  apply List.map_fst_zip
  simp

theorem tagOf_snd (n : Nat) (t : TxRec) : (tagOf n t).map (·.2) = List.range' n (newOuts t).length := by
  unfold tagOf
  rw [List.map_snd_zip (by simp), List.range'_eq_map_range]
  apply List.map_congr_left
  intro a _
  omega

theorem tagOf_amounts (n : Nat) (t : TxRec) : ((tagOf n t).map (·.1.2)).sum = ((newOuts t).map (·.2)).sum := by
  rw [← tagOf_fst n t, List.map_map]; rfl

theorem tagOf_inrange (m : Nat) (t : TxRec) (n : Nat) (h : ∀ p ∈ newOuts t, p.1 < n) : ∀ x ∈ tagOf m t, x.1.1 < n := by
  intro x hx
  apply h
  rw [← tagOf_fst m t]
  exact List.mem_map.mpr ⟨x, hx, rfl⟩

theorem mkOut_ids (tg : List ((Nat × Int) × Nat)) : (tg.map mkOut).map (·.id) = tg.map (·.2) := by
  rw [List.map_map]; rfl

/-! ## projections of `applyTx` / `execTx` -/

theorem applyTx_found (s : St) (t : TxRec) : (applyTx s t).found = s.found := by
  unfold applyTx; split <;> (try rfl); split <;> rfl
theorem applyTx_zero (s : St) (t : TxRec) : (applyTx s t).zero = s.zero := by
  unfold applyTx; split <;> (try rfl); split <;> rfl
theorem applyTx_wallets (s : St) (t : TxRec) : (applyTx s t).wallets = s.wallets := by
  unfold applyTx; split <;> (try rfl); split <;> rfl
theorem applyTx_nextOut (s : St) (t : TxRec) : (applyTx s t).nextOut = s.nextOut := by
  unfold applyTx; split <;> (try rfl); split <;> rfl
theorem applyTx_spentImgs (s : St) (t : TxRec) : (applyTx s t).spentImgs = s.spentImgs := by
  unfold applyTx; split <;> (try rfl); split <;> rfl

theorem execTx_bal (s : St) (t : TxRec) : (execTx s t).bal = (applyTx s t).bal := by
  unfold execTx addOuts; simp only []; split <;> rfl
theorem execTx_tok (s : St) (t : TxRec) : (execTx s t).tok = (applyTx s t).tok := by
  unfold execTx addOuts; simp only []; split <;> rfl
theorem execTx_nonce (s : St) (t : TxRec) : (execTx s t).nonce = (applyTx s t).nonce := by
  unfold execTx addOuts; simp only []; split <;> rfl
theorem execTx_found (s : St) (t : TxRec) : (execTx s t).found = s.found + feeOfGas t.gas := by
  unfold execTx addOuts; simp only []; split <;> simp only [applyTx_found]
theorem execTx_zero (s : St) (t : TxRec) : (execTx s t).zero = s.zero := by
  unfold execTx addOuts; simp only []; split <;> simp only [applyTx_zero]
theorem execTx_nextOut (s : St) (t : TxRec) : (execTx s t).nextOut = s.nextOut + (newOuts t).length := by
  unfold execTx addOuts; simp only []; split <;> simp only [applyTx_nextOut]

theorem execTx_spentImgs (s : St) (t : TxRec) :
    (execTx s t).spentImgs = if t.kind = .uin then s.spentImgs ++ [t.spends] else s.spentImgs := by
  unfold execTx addOuts; simp only []; split <;> simp only [applyTx_spentImgs]

theorem execTx_wallets (s : St) (t : TxRec) :
    (execTx s t).wallets =
      addW (if t.kind = .uin then markSpent s.wallets t.spends else s.wallets) 0 (tagOf s.nextOut t) := by
  unfold execTx
  simp only []
  rw [addOuts_wallets]
  split <;> simp only [applyTx_wallets, applyTx_nextOut]

/-! ## blocks -/

theorem execBlock_cons_some {s s' : St} {seen : List Nat} {t : TxRec} {rest : List TxRec}
    (h : execBlock s seen (t :: rest) = some s') :
    txValid s seen t = true ∧ execBlock (execTx s t) (if t.kind = .uin then t.spends :: seen else seen) rest = some s' := by
  unfold execBlock at h
  split at h
  · rename_i hv; exact ⟨hv, h⟩
  · cases h

/-- the transactions a list of ids denotes -/
def recsOf (s : St) (ids : List Nat) : List TxRec := ids.filterMap (fun i => s.txs[i]?)

theorem block_eq (s : St) :
    block s = match execBlock s [] (recsOf s s.pending) with
      | some s' => finishBlock s s' s.pending
      | none => s := rfl

theorem forceBlock_eq (s : St) (ids : List Nat) :
    forceBlock s ids = match execBlock s [] (recsOf s ids) with
      | none => (s, "propose=panic")
      | some s' =>
        if (recsOf s ids).any (fun t => t.broken.isSome) then (s, "validate=false") else (finishBlock s s' ids, "ok") := rfl

/-! ## admission does not touch the committed ledger -/

theorem admitTx_frame (s : St) (id : Nat) (t : TxRec) :
    (admitTx s id t).2.bal = s.bal ∧ (admitTx s id t).2.tok = s.tok ∧ (admitTx s id t).2.found = s.found ∧
    (admitTx s id t).2.zero = s.zero ∧ (admitTx s id t).2.nonce = s.nonce ∧ (admitTx s id t).2.wallets = s.wallets ∧
    (admitTx s id t).2.spentImgs = s.spentImgs ∧ (admitTx s id t).2.nextOut = s.nextOut ∧ (admitTx s id t).2.txs = s.txs := by
  unfold admitTx checkState
  repeat' (first | split | (simp only []))
  all_goals (first | exact ⟨rfl, rfl, rfl, rfl, rfl, rfl, rfl, rfl, rfl⟩ | simp only [and_self])

end Props.C06
