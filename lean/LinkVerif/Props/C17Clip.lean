/-
C17 (part 1): the clip arithmetic regenerated from `types/validator_set.go` saturates instead of
wrapping.  These theorems are about `Gen.ValSetArith.*`, i.e. about what the Go source says NOW.
-/
import LinkVerif.Go.Int
import LinkVerif.Gen.ValSetArith

namespace Props.C17
open Go Gen.ValSetArith

theorem safeAdd_spec (a b : Int) (ha : InI64 a) (hb : InI64 b) :
    safeAdd a b = if a + b > maxI64 ∨ a + b < minI64 then (-1, true) else (a + b, false) := by
  unfold InI64 minI64 maxI64 at ha hb
  unfold safeAdd wrapI64 minI64 maxI64
  simp only [Bool.and_eq_true, decide_eq_true_eq]
  repeat' split
  all_goals first | rfl | (exfalso; omega) | (simp only [Prod.mk.injEq, and_true]; omega)

theorem safeSub_spec (a b : Int) (ha : InI64 a) (hb : InI64 b) :
    safeSub a b = if a - b > maxI64 ∨ a - b < minI64 then (-1, true) else (a - b, false) := by
  unfold InI64 minI64 maxI64 at ha hb
  unfold safeSub wrapI64 minI64 maxI64
  simp only [Bool.and_eq_true, decide_eq_true_eq]
  repeat' split
  all_goals first | rfl | (exfalso; omega) | (simp only [Prod.mk.injEq, and_true]; omega)

theorem safeAddClip_saturates (a b : Int) (ha : InI64 a) (hb : InI64 b) :
    safeAddClip a b = clampI64 (a + b) := by
  unfold safeAddClip
  rw [safeAdd_spec a b ha hb]
  unfold InI64 minI64 maxI64 at ha hb
  unfold clampI64 minI64 maxI64
  simp only [decide_eq_true_eq]
  repeat' split
  all_goals first | rfl | omega | simp_all

theorem safeSubClip_saturates (a b : Int) (ha : InI64 a) (hb : InI64 b) :
    safeSubClip a b = clampI64 (a - b) := by
  unfold safeSubClip
  rw [safeSub_spec a b ha hb]
  unfold InI64 minI64 maxI64 at ha hb
  unfold clampI64 minI64 maxI64
  simp only [decide_eq_true_eq]
  repeat' split
  all_goals first | rfl | omega | simp_all

end Props.C17

namespace Props.C17
open Go Gen.ValSetArith

/-- the overflow test `c/b != a` of `safeMul` is exact (for operands the earlier branches let through) -/
theorem mul_overflow_test (a b : Int) (ha : InI64 a) (hb : InI64 b)
    (hb0 : b ≠ 0) (hamin : a ≠ minI64) :
    (wrapI64 (Int.tdiv (wrapI64 (a * b)) b) ≠ a) ↔ ¬ InI64 (a * b) := by
  constructor
  · intro h hin
    apply h
    rw [wrapI64_id hin, Int.mul_tdiv_cancel a hb0, wrapI64_id ha]
  · intro hout heq
    have h1 := Int.mul_tdiv_add_tmod (wrapI64 (a * b)) b
    have hq := Int.natAbs_tdiv_le_natAbs (wrapI64 (a * b)) b
    have hr : (Int.tmod (wrapI64 (a * b)) b).natAbs < b.natAbs := by
      rw [Int.natAbs_tmod]
      exact Nat.mod_lt _ (Int.natAbs_pos.mpr hb0)
    have hc := wrapI64_in (a * b)
    generalize hp : a * b = p at *
    generalize hcdef : wrapI64 p = c at *
    generalize hqdef : Int.tdiv c b = q at *
    generalize hrdef : Int.tmod c b = r at *
    have hqa : q = a := by
      unfold InI64 minI64 maxI64 at *
      unfold wrapI64 at heq
      omega
    subst hqa
    rw [Int.mul_comm, hp] at h1
    unfold InI64 minI64 maxI64 at *
    unfold wrapI64 at hcdef
    omega

end Props.C17

namespace Props.C17
open Go Gen.ValSetArith

theorem safeMulClip_saturates (a b : Int) (ha : InI64 a) (hb : InI64 b) :
    safeMulClip a b = clampI64 (a * b) := by
  by_cases ha0 : a = 0
  · subst ha0; simp [safeMulClip, safeMul, clampI64, minI64, maxI64]
  by_cases hb0 : b = 0
  · subst hb0; simp [safeMulClip, safeMul, clampI64, minI64, maxI64]
  by_cases ha1 : a = 1
  · subst ha1
    unfold InI64 minI64 maxI64 at hb
    simp [safeMulClip, safeMul, clampI64, minI64, maxI64, hb0]
    omega
  by_cases hb1 : b = 1
  · subst hb1
    unfold InI64 minI64 maxI64 at ha
    simp [safeMulClip, safeMul, clampI64, minI64, maxI64, ha0, ha1]
    omega
  by_cases hamin : a = minI64
  · subst hamin
    unfold InI64 minI64 maxI64 at hb
    simp only [safeMulClip, safeMul, clampI64, minI64, maxI64]
    simp [hb0, hb1]
    repeat' split
    all_goals omega
  by_cases hbmin : b = minI64
  · subst hbmin
    unfold InI64 minI64 maxI64 at ha
    unfold minI64 at hamin
    simp only [safeMulClip, safeMul, clampI64, minI64, maxI64]
    simp [ha0, ha1, hamin]
    repeat' split
    all_goals omega
  · have htest := mul_overflow_test a b ha hb hb0 hamin
    have hsign1 : 0 < a → 0 < b → 0 < a * b := Int.mul_pos
    have hsign2 : a < 0 → b < 0 → 0 < a * b := Int.mul_pos_of_neg_of_neg
    have hsign3 : 0 < a → b < 0 → a * b < 0 := Int.mul_neg_of_pos_of_neg
    have hsign4 : a < 0 → 0 < b → a * b < 0 := Int.mul_neg_of_neg_of_pos
    unfold safeMulClip safeMul
    simp only [ha0, hb0, ha1, hb1, hamin, hbmin, decide_false, Bool.or_self, Bool.false_eq_true, if_false]
    by_cases hin : InI64 (a * b)
    · have : ¬ (wrapI64 (Int.tdiv (wrapI64 (a * b)) b) ≠ a) := fun h => (htest.mp h) hin
      simp only [ne_eq, Decidable.not_not] at this
      simp only [this, ne_eq, not_true_eq_false, decide_false, Bool.false_eq_true, if_false]
      rw [wrapI64_id hin]
      unfold InI64 minI64 maxI64 at hin
      unfold clampI64 minI64 maxI64
      repeat' split
      all_goals omega
    · have hne : wrapI64 (Int.tdiv (wrapI64 (a * b)) b) ≠ a := htest.mpr hin
      simp only [hne, ne_eq, not_false_eq_true, decide_true, if_true]
      generalize a * b = p at *
      unfold InI64 minI64 maxI64 at *
      unfold clampI64 minI64 maxI64
      simp only [Bool.and_eq_true, Bool.or_eq_true, decide_eq_true_eq, Bool.not_eq_true', Bool.and_eq_false_iff,
        decide_eq_false_iff_not]
      repeat' split
      all_goals omega

end Props.C17
