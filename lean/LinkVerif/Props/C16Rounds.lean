/-
C16 — catch-up rounds: whatever votes ONE peer sends (valid or not, any rounds, any number), the rounds its votes open in
the node's HeightVoteSet are at most 2 (`peerCatchupRounds`), because the allowance is charged when the round is opened,
BEFORE the vote is judged.  Induction over the stream.  (Were the charge made only for accepted votes, invalid votes would open a
round each: `uncharged_opens_every_round`.)
-/
import LinkVerif.Model.PeerInput

namespace Props.C16Rounds
open Model.PeerInput

theorem addVote_step (h : Hvs) (v : VoteIn) (peer : String) :
    let h' := (h.addVote v peer).1
    h'.rounds.length + (2 - h'.chargedTo peer) ≤ h.rounds.length + (2 - h.chargedTo peer) ∧ h.rounds.length ≤ h'.rounds.length := by
  unfold Hvs.addVote
  by_cases ht : v.typeValid = true
  · simp only [ht, Bool.not_true, Bool.false_eq_true, if_false]
    by_cases hk : v.round ∈ h.rounds
    · simp [hk]
    · by_cases hc : h.chargedTo peer < 2
      · have hch : Hvs.chargedTo { rounds := v.round :: h.rounds, charges := (peer, v.round) :: h.charges } peer = h.chargedTo peer + 1 := by
          unfold Hvs.chargedTo; simp
        simp only [List.contains_eq_mem, hk, decide_false, Bool.false_eq_true, if_false, hc, if_true, hch, List.length_cons]
        omega
      · simp [hk, hc]
  · have : v.typeValid = false := by cases hv : v.typeValid <;> simp_all
    simp [this]

/-- potential argument: rounds held + remaining allowance never grows -/
theorem addVotes_potential (vs : List VoteIn) (peer : String) : ∀ h : Hvs,
    (h.addVotes vs peer).rounds.length + (2 - (h.addVotes vs peer).chargedTo peer) ≤ h.rounds.length + (2 - h.chargedTo peer) ∧
    h.rounds.length ≤ (h.addVotes vs peer).rounds.length := by
  induction vs with
  | nil => intro h; simp [Hvs.addVotes]
  | cons v rest ih =>
    intro h
    have hs := addVote_step h v peer
    have hr := ih (h.addVote v peer).1
    simp only [Hvs.addVotes, List.foldl_cons] at hr ⊢
    constructor
    · exact Nat.le_trans hr.1 hs.1
    · exact Nat.le_trans hs.2 hr.2

/-- **C16 for the catch-up allowance**: for EVERY state of the vote container and EVERY sequence of votes from one peer
(any rounds, any verdicts, any length) the number of rounds the sequence opened is at most 2 -/
theorem peer_opens_at_most_two_rounds (h : Hvs) (vs : List VoteIn) (peer : String) :
    (h.addVotes vs peer).rounds.length ≤ h.rounds.length + 2 := by
  have := (addVotes_potential vs peer h).1
  omega

/-- and a peer that has used its allowance opens nothing more -/
theorem exhausted_peer_opens_nothing (h : Hvs) (vs : List VoteIn) (peer : String) (hc : 2 ≤ h.chargedTo peer) :
    (h.addVotes vs peer).rounds.length = h.rounds.length := by
  have := addVotes_potential vs peer h
  omega

/-- the variant a defect would be: charge only when the vote is accepted -/
def addVoteChargeIfAccepted (h : Hvs) (v : VoteIn) (peer : String) : Hvs :=
  if !v.typeValid then h
  else if h.rounds.contains v.round then h
  else if h.chargedTo peer < 2 then
    { rounds := v.round :: h.rounds, charges := if v.acceptable then (peer, v.round) :: h.charges else h.charges }
  else h

/-- with that variant three invalid votes already open three rounds (and k votes k rounds) -/
theorem uncharged_opens_every_round :
    ([⟨10, true, false⟩, ⟨17, true, false⟩, ⟨24, true, false⟩].foldl (fun h v => addVoteChargeIfAccepted h v "p") ⟨[0, 1], []⟩).rounds.length = 5 := by
  decide

/-! ## Non-vacuity -/
example : ((⟨[0, 1], []⟩ : Hvs).addVotes [⟨10, true, false⟩, ⟨17, true, true⟩, ⟨24, true, false⟩] "p").rounds = [17, 10, 0, 1] := by decide
example : ((⟨[0, 1], []⟩ : Hvs).addVote ⟨10, true, true⟩ "p").2 = .accepted := by decide
example : ((⟨[0, 1], [("p", 5), ("p", 6)]⟩ : Hvs).addVote ⟨10, true, true⟩ "p").2 = .rejected "ErrGotVoteFromUnwantedRound" := by decide
example : ((⟨[0, 1], [("p", 5), ("p", 6)]⟩ : Hvs).addVote ⟨10, true, true⟩ "q").1.rounds = [10, 0, 1] := by decide

end Props.C16Rounds
