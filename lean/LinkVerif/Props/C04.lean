/-
C04 — a validator key never signs conflicting votes or proposals, even across restarts.

The theorems quantify over ALL event lists of the micro-step machine `Model.FilePV`
(`Ev.req q` = a caller enters SignVote / SignProposal / SignVoteWithoutSave, `Ev.tick` = the call in flight
advances by one micro-step, `Ev.crash` = the process dies and the next one starts from the key file), i.e. over
all request sequences with a crash inserted between any two micro-steps of any call, including between signing
and persisting and between persisting and handing out the signature.

A *release* is an entry `(q, .released sig ts post)` of the ghost log `St.out`: the call for request `q` handed
signature `sig` to its caller inside a vote whose timestamp is `ts` and whose sign-bytes are `post`.
Releases of recording calls (`q.save = true`: SignVote, SignProposal) are the subject of the property.
-/
import LinkVerif.Props.C04Check

namespace Props.C04
open Model.FilePV

/-! ## the invariant -/

/-- the signature stored in a record signs the stored sign-bytes -/
def RecOK (r : Rec) : Prop :=
  (r.sb = none ∧ r.sig = none) ∨ (∃ p g, r.sb = some p ∧ r.sig = some g ∧ g.msg = p.bytes)

theorem RecOK.msg {r : Rec} (h : RecOK r) (p : Payload) (g : Sig) (hp : r.sb = some p) (hg : r.sig = some g) : g.msg = p.bytes := by
  rcases h with ⟨h1, _⟩ | ⟨p', g', h1, h2, h3⟩
  · rw [h1] at hp; cases hp
  · rw [h1] at hp; rw [h2] at hg; cases hp; cases hg; exact h3

theorem RecOK.bytes_of_sig {r : Rec} (h : RecOK r) (g : Sig) (hg : r.sig = some g) : ∃ p, r.sb = some p ∧ p.bytes = g.msg := by
  rcases h with ⟨_, h2⟩ | ⟨p', g', h1, h2, h3⟩
  · rw [h2] at hg; cases hg
  · rw [h2] at hg; cases hg; exact ⟨p', h1, h3.symm⟩

def recOf (q : Req) (sg : Sig) : Rec := { hrs := q.hrs, sb := some q.p, sig := some sg }

/-- what is known at each program point of the call in flight -/
def PcInv (s : St) : Prop :=
  match s.pc with
  | .idle => s.poisoned = false → s.mem = s.disk ∧ s.shadow = s.disk
  | .check _ => s.mem = s.disk ∧ s.shadow = s.disk
  | .sign q => s.mem = s.disk ∧ s.shadow = s.disk ∧ HRS.lt s.disk.hrs q.hrs
  | .setMem q sg => s.mem = s.disk ∧ s.shadow = s.disk ∧ HRS.lt s.disk.hrs q.hrs ∧ sg.msg = q.p.bytes
  | .setShadow q sg => s.mem = recOf q sg ∧ s.shadow = s.disk ∧ HRS.lt s.disk.hrs q.hrs
  | .openTemp q sg => s.mem = recOf q sg ∧ s.shadow = recOf q sg ∧ HRS.lt s.disk.hrs q.hrs
  | .writeTemp q sg => s.mem = recOf q sg ∧ s.shadow = recOf q sg ∧ HRS.lt s.disk.hrs q.hrs
  | .closeTemp q sg => s.mem = recOf q sg ∧ s.shadow = recOf q sg ∧ HRS.lt s.disk.hrs q.hrs ∧ s.temp = some (recOf q sg)
  | .rename q sg => s.mem = recOf q sg ∧ s.shadow = recOf q sg ∧ HRS.lt s.disk.hrs q.hrs ∧ s.temp = some (recOf q sg)
  | .unlink1 q sg => s.mem = recOf q sg ∧ s.shadow = recOf q sg ∧ s.disk = recOf q sg
  | .unlink2 q sg => s.mem = recOf q sg ∧ s.shadow = recOf q sg ∧ s.disk = recOf q sg
  | .release q o => (s.poisoned = false → s.mem = s.disk ∧ s.shadow = s.disk) ∧
      match o with
      | .released g _ post => post = g.msg ∧ HRS.le s.disk.hrs q.hrs ∧ (q.save = true → s.disk.hrs = q.hrs ∧ s.disk.sig = some g)
      | _ => True

/-- pairwise facts about the log (newest first): a later release is never below an earlier recording release,
and at the same HRS it carries the same signature and the same signed content -/
def HistOK : List (Req × Outcome) → Prop
  | [] => True
  | e2 :: rest =>
    (∀ g2 ts2 post2, e2.2 = .released g2 ts2 post2 → ∀ e1 ∈ rest, ∀ g1 ts1 post1, e1.2 = .released g1 ts1 post1 → e1.1.save = true →
      HRS.le e1.1.hrs e2.1.hrs ∧ (e2.1.save = true → e1.1.hrs = e2.1.hrs → g1 = g2 ∧ post1 = post2)) ∧ HistOK rest

/-- the facts that tie the key file, the release log and the log of persisted records -/
structure DiskInv (disk : Rec) (out : List (Req × Outcome)) (pers : List Rec) : Prop where
  recDisk : RecOK disk
  /-- every recording release is covered by the key file: the file's HRS is at least the release's, and if equal
  the file holds exactly that signature -/
  covers : ∀ e ∈ out, ∀ g ts post, e.2 = .released g ts post →
      post = g.msg ∧ (e.1.save = true → HRS.le e.1.hrs disk.hrs ∧ (e.1.hrs = disk.hrs → disk.sig = some g))
  hist : HistOK out
  /-- the records that ever were the key file's content are strictly increasing in HRS; the newest is the current content -/
  persSorted : pers.Pairwise (fun newer older => HRS.lt older.hrs newer.hrs)
  persHead : ∀ r rest, pers = r :: rest → r = disk
  persNone : pers = [] → disk.sig = none
  /-- every recording release was persisted before -/
  relPers : ∀ e ∈ out, ∀ g ts post, e.2 = .released g ts post → e.1.save = true → ∃ r ∈ pers, r.hrs = e.1.hrs ∧ r.sig = some g

structure Inv (s : St) : Prop where
  d : DiskInv s.disk s.out s.persisted
  recMem : RecOK s.mem
  pc : PcInv s

theorem inv_init : Inv St.init := by
  refine ⟨⟨Or.inl ⟨rfl, rfl⟩, ?_, ?_, ?_, ?_, ?_, ?_⟩, Or.inl ⟨rfl, rfl⟩, ?_⟩
  · intro e he; simp [St.init] at he
  · simp [HistOK, St.init]
  · simp [St.init]
  · intro r rest h; simp [St.init] at h
  · intro _; rfl
  · intro e he; simp [St.init] at he
  · simp [PcInv, St.init]

theorem recOK_recOf (q : Req) (sg : Sig) (h : sg.msg = q.p.bytes) : RecOK (recOf q sg) := by
  exact Or.inr ⟨q.p, sg, rfl, rfl, h⟩

/-- every persisted record is at or below the key file's HRS, and equal to it if at the same HRS -/
theorem DiskInv.persCover {disk : Rec} {out : List (Req × Outcome)} {pers : List Rec} (h : DiskInv disk out pers) :
    ∀ r ∈ pers, HRS.le r.hrs disk.hrs ∧ (r.hrs = disk.hrs → r = disk) := by
  intro r hr
  cases hp : pers with
  | nil => rw [hp] at hr; cases hr
  | cons a rest =>
    have ha : a = disk := h.persHead a rest hp
    rw [hp] at hr
    rcases List.mem_cons.1 hr with rfl | hr'
    · rw [ha]; exact ⟨HRS.le_refl _, fun _ => rfl⟩
    · have hs := h.persSorted
      rw [hp, List.pairwise_cons] at hs
      have hlt : HRS.lt r.hrs a.hrs := hs.1 r hr'
      rw [ha] at hlt
      refine ⟨HRS.le_of_lt hlt, fun heq => ?_⟩
      rw [heq] at hlt; exact absurd hlt (HRS.lt_irrefl _)

/-- a new record strictly above the key file's lands in the key file (rename, or a crash inside an atomic rename
that left the new content) -/
theorem DiskInv.land {disk : Rec} {out : List (Req × Outcome)} {pers : List Rec} (h : DiskInv disk out pers)
    (n : Rec) (hn : RecOK n) (hlt : HRS.lt disk.hrs n.hrs) : DiskInv n out (n :: pers) := by
  refine ⟨hn, ?_, h.hist, ?_, ?_, ?_, ?_⟩
  · intro e he g ts post hrel
    have ⟨hpost, hc⟩ := h.covers e he g ts post hrel
    refine ⟨hpost, fun hsv => ?_⟩
    have ⟨hle, _⟩ := hc hsv
    have hlt' : HRS.lt e.1.hrs n.hrs := HRS.lt_of_le_of_lt hle hlt
    refine ⟨HRS.le_of_lt hlt', fun heq => ?_⟩
    rw [heq] at hlt'; exact absurd hlt' (HRS.lt_irrefl _)
  · rw [List.pairwise_cons]
    refine ⟨fun r hr => ?_, h.persSorted⟩
    exact HRS.lt_of_le_of_lt (h.persCover r hr).1 hlt
  · intro r rest heq; cases heq; rfl
  · intro heq; cases heq
  · intro e he g ts post hrel hsv
    obtain ⟨r, hr, h1, h2⟩ := h.relPers e he g ts post hrel hsv
    exact ⟨r, List.mem_cons_of_mem _ hr, h1, h2⟩

/-- the decision point: what `decideCall` yields satisfies the program-point invariant -/
theorem pcInv_decide (s : St) (q : Req) (hm : s.mem = s.disk) (hsh : s.shadow = s.disk) (hrec : RecOK s.mem) :
    PcInv { s with pc := decideCall s.mem q } := by
  unfold decideCall
  split
  · simp [PcInv, hm, hsh]
  · generalize hc : checkRec s.mem q.hrs = c
    obtain ⟨same, code⟩ := c
    simp only
    split
    · simp [PcInv, hm, hsh]
    · split
      · simp [PcInv, hm, hsh]
      · rename_i hne1 hne0
        have hcode : code = 0 := by simpa using hne0
        subst hcode
        have hpass := checkRec_pass s.mem q.hrs same hc
        split
        · rename_i hsame
          have ⟨hhrs, _, _⟩ := hpass.1 hsame
          split
          · rename_i lp ls hsb hsg
            have hmsg : ls.msg = lp.bytes := hrec.msg lp ls hsb hsg
            split
            · rename_i hb
              simp only [PcInv]
              refine ⟨fun _ => ⟨hm, hsh⟩, ?_, ?_, ?_⟩
              · rw [hmsg, hb]
              · rw [← hm, hhrs]; exact HRS.le_refl _
              · intro _; rw [← hm]; exact ⟨hhrs, hsg⟩
            · split
              · simp [PcInv, hm, hsh]
              · split
                · simp only [PcInv]
                  refine ⟨fun _ => ⟨hm, hsh⟩, hmsg.symm, ?_, ?_⟩
                  · rw [← hm, hhrs]; exact HRS.le_refl _
                  · intro _; rw [← hm]; exact ⟨hhrs, hsg⟩
                · simp [PcInv, hm, hsh]
          · simp [PcInv, hm, hsh]
        · rename_i hsame
          have hlt := hpass.2 (by simpa using hsame)
          simp only [PcInv]
          exact ⟨hm, hsh, by rw [← hm]; exact hlt⟩

theorem histOK_cons_nonrelease (q : Req) (o : Outcome) (out : List (Req × Outcome)) (h : HistOK out)
    (hno : ∀ g ts post, o ≠ .released g ts post) : HistOK ((q, o) :: out) := by
  refine ⟨?_, h⟩
  intro g2 ts2 post2 h2
  exact absurd h2 (hno g2 ts2 post2)

/-- handing a non-signature to the caller changes nothing for the key file facts -/
theorem DiskInv.nonrelease {disk : Rec} {out : List (Req × Outcome)} {pers : List Rec} (h : DiskInv disk out pers)
    (q : Req) (o : Outcome) (hno : ∀ g ts post, o ≠ .released g ts post) : DiskInv disk ((q, o) :: out) pers := by
  refine ⟨h.recDisk, ?_, histOK_cons_nonrelease q o out h.hist hno, h.persSorted, h.persHead, h.persNone, ?_⟩
  · intro e he g ts post hrel
    rcases List.mem_cons.1 he with rfl | he'
    · exact absurd hrel (hno g ts post)
    · exact h.covers e he' g ts post hrel
  · intro e he g ts post hrel hsv
    rcases List.mem_cons.1 he with rfl | he'
    · exact absurd hrel (hno g ts post)
    · exact h.relPers e he' g ts post hrel hsv

/-- handing a signature to the caller, given what the program point knows -/
theorem DiskInv.release {disk : Rec} {out : List (Req × Outcome)} {pers : List Rec} (h : DiskInv disk out pers)
    (q : Req) (g : Sig) (ts : String) (post : Bytes) (hpost : post = g.msg) (hle : HRS.le disk.hrs q.hrs)
    (hsave : q.save = true → disk.hrs = q.hrs ∧ disk.sig = some g) : DiskInv disk ((q, .released g ts post) :: out) pers := by
  refine ⟨h.recDisk, ?_, ?_, h.persSorted, h.persHead, h.persNone, ?_⟩
  · intro e he g' ts' post' hrel
    rcases List.mem_cons.1 he with rfl | he'
    · simp only at hrel
      cases hrel
      refine ⟨hpost, fun hsv => ?_⟩
      have ⟨h1, h2⟩ := hsave hsv
      exact ⟨by simp only; rw [h1]; exact HRS.le_refl _, fun _ => h2⟩
    · exact h.covers e he' g' ts' post' hrel
  · refine ⟨?_, h.hist⟩
    intro g2 ts2 post2 h2 e1 he1 g1 ts1 post1 h1 hsv1
    simp only at h2
    cases h2
    have ⟨hp1, hc1⟩ := h.covers e1 he1 g1 ts1 post1 h1
    have ⟨hle1, heq1⟩ := hc1 hsv1
    refine ⟨HRS.le_trans hle1 hle, fun hsv2 hsame => ?_⟩
    have ⟨hd, hsig⟩ := hsave hsv2
    have : disk.sig = some g1 := heq1 (by simp only at hsame; rw [hsame, hd])
    rw [hsig] at this
    cases this
    exact ⟨rfl, by rw [hp1, hpost]⟩
  · intro e he g' ts' post' hrel hsv
    rcases List.mem_cons.1 he with rfl | he'
    · simp only at hrel
      cases hrel
      have ⟨h1, h2⟩ := hsave hsv
      cases hp : pers with
      | nil => have := h.persNone hp; rw [this] at h2; cases h2
      | cons a rest =>
        have ha := h.persHead a rest hp
        exact ⟨a, List.mem_cons_self, by rw [ha]; exact h1, by rw [ha]; exact h2⟩
    · exact h.relPers e he' g' ts' post' hrel hsv

theorem inv_restart (s : St) (hd : DiskInv s.disk s.out s.persisted) : Inv (restart s) :=
  ⟨hd, hd.recDisk, by simp [PcInv, restart]⟩

/-- **the invariant is preserved by every event** (request, micro-step, crash, crash inside an ATOMIC rename) -/
theorem inv_step (s : St) (e : Ev) (hi : Inv s) (hat : e.admissibleAt s) : Inv (step s e) := by
  obtain ⟨hd, hrm, hpc⟩ := hi
  cases e with
  | req q =>
    simp only [step]
    split
    · rename_i hidle
      refine ⟨hd, hrm, ?_⟩
      simp only [PcInv, hidle] at hpc
      simp only [Ev.admissibleAt] at hat
      simp only [PcInv]; exact hpc hat
    · exact ⟨hd, hrm, hpc⟩
  | crash => exact inv_restart s hd
  | crashTorn r =>
    simp only [step]
    split
    · rename_i q sg hq
      simp only [PcInv, hq] at hpc
      obtain ⟨hmem, _, hlt, htemp⟩ := hpc
      split
      · exact inv_restart s hd
      · rename_i hne
        simp only [Ev.admissibleAt] at hat
        rcases hat with h | h
        · exact absurd h hne
        · rw [htemp] at h
          simp only [Option.getD_some] at h
          subst h
          have hok : RecOK (recOf q sg) := hmem ▸ hrm
          exact inv_restart _ (hd.land (recOf q sg) hok hlt)
    · exact inv_restart s hd
  | writeFails n =>
    -- the failed save releases nothing and touches neither the key file nor the logs; the call ends with a panic
    simp only [step]
    split
    · exact ⟨hd, hrm, by simp [PcInv]⟩
    · exact ⟨hd, hrm, by simp [PcInv]⟩
    · exact ⟨hd, hrm, hpc⟩
  | reset => exact absurd hat (by simp [Ev.admissibleAt])
  | tick =>
    simp only [step, tick]
    split
    · exact ⟨hd, hrm, hpc⟩
    · -- check
      rename_i q hq
      simp only [PcInv, hq] at hpc
      exact ⟨hd, hrm, pcInv_decide s q hpc.1 hpc.2 hrm⟩
    · -- sign
      rename_i q hq
      simp only [PcInv, hq] at hpc
      split
      · exact ⟨hd, hrm, by simp only [PcInv]; exact ⟨hpc.1, hpc.2.1, hpc.2.2, trivial⟩⟩
      · rename_i hns
        refine ⟨hd, hrm, ?_⟩
        simp only [PcInv]
        refine ⟨fun _ => ⟨hpc.1, hpc.2.1⟩, trivial, HRS.le_of_lt hpc.2.2, ?_⟩
        intro hsv; exact absurd hsv hns
    · -- setMem
      rename_i q sg hq
      simp only [PcInv, hq] at hpc
      refine ⟨hd, recOK_recOf q sg hpc.2.2.2, ?_⟩
      simp only [PcInv]; exact ⟨rfl, hpc.2.1, hpc.2.2.1⟩
    · -- setShadow
      rename_i q sg hq
      simp only [PcInv, hq] at hpc
      refine ⟨hd, hrm, ?_⟩
      simp only [PcInv]; exact ⟨hpc.1, rfl, hpc.2.2⟩
    · -- openTemp
      rename_i q sg hq
      simp only [PcInv, hq] at hpc
      exact ⟨hd, hrm, by simp only [PcInv]; exact hpc⟩
    · -- writeTemp: the SHADOW record goes into the temp file
      rename_i q sg hq
      simp only [PcInv, hq] at hpc
      exact ⟨hd, hrm, by simp only [PcInv]; exact ⟨hpc.1, hpc.2.1, hpc.2.2, by rw [hpc.2.1]⟩⟩
    · -- closeTemp
      rename_i q sg hq
      simp only [PcInv, hq] at hpc
      exact ⟨hd, hrm, by simp only [PcInv]; exact hpc⟩
    · -- rename: the key file becomes the new record; every earlier release is strictly below it
      rename_i q sg hq
      simp only [PcInv, hq] at hpc
      obtain ⟨hmem, hsh, hlt, htemp⟩ := hpc
      have hdisk : s.temp.getD s.disk = recOf q sg := by rw [htemp]; rfl
      have hok : RecOK (recOf q sg) := hmem ▸ hrm
      refine ⟨?_, hrm, ?_⟩
      · simp only [hdisk]; exact hd.land (recOf q sg) hok hlt
      · simp only [PcInv, hdisk]; exact ⟨hmem, hsh, trivial⟩
    · -- unlink1
      rename_i q sg hq
      simp only [PcInv, hq] at hpc
      exact ⟨hd, hrm, by simp only [PcInv]; exact hpc⟩
    · -- unlink2
      rename_i q sg hq
      simp only [PcInv, hq] at hpc
      obtain ⟨hmem, hsh, hdm⟩ := hpc
      refine ⟨hd, hrm, ?_⟩
      simp only [PcInv]
      have hmsg : sg.msg = q.p.bytes := hrm.msg q.p sg (by rw [hmem]; rfl) (by rw [hmem]; rfl)
      refine ⟨fun _ => ⟨by rw [hmem, hdm], by rw [hsh, hdm]⟩, hmsg.symm, ?_, fun _ => ?_⟩
      · rw [hdm]; exact HRS.le_refl _
      · rw [hdm]; exact ⟨rfl, rfl⟩
    · -- release: the outcome is handed to the caller
      rename_i q o hq
      simp only [PcInv, hq] at hpc
      obtain ⟨hms, ho⟩ := hpc
      cases o with
      | refused code =>
        exact ⟨hd.nonrelease q _ (by intro g ts post h; cases h), hrm, by simp only [PcInv]; exact hms⟩
      | panicked =>
        exact ⟨hd.nonrelease q _ (by intro g ts post h; cases h), hrm, by simp only [PcInv]; exact hms⟩
      | released g ts post =>
        simp only at ho
        obtain ⟨hpost, hle, hsave⟩ := ho
        exact ⟨hd.release q g ts post hpost hle hsave, hrm, by simp only [PcInv]; exact hms⟩

theorem inv_run (s : St) (evs : List Ev) (hi : Inv s) (hat : Admissible s evs) : Inv (run s evs) := by
  induction evs generalizing s with
  | nil => exact hi
  | cons e rest ih => exact ih (step s e) (inv_step s e hi hat.1) hat.2

/-- every state reachable from a fresh key file by any requests, micro-steps, crashes and crashes inside atomic
renames satisfies the invariant -/
theorem inv_reachable (evs : List Ev) (hat : Admissible St.init evs) : Inv (run St.init evs) := inv_run _ _ inv_init hat

/-! ## the property clauses, over all request / crash sequences

Every theorem below quantifies over ALL event lists `evs` — requests (votes and proposals, recording or not), micro-steps,
crashes between any two micro-steps, crashes INSIDE the rename, and write errors of the temp file — under the hypothesis
`Admissible St.init evs` (a crash inside a rename leaves the old or the new content; no signing call is entered on an
object whose save panicked). -/

theorem histOK_split {l1 l2 : List (Req × Outcome)} {e2 : Req × Outcome} (h : HistOK (l1 ++ e2 :: l2)) : HistOK (e2 :: l2) := by
  induction l1 with
  | nil => exact h
  | cons a l ih => exact ih h.2

/-- **one_payload_per_hrs.** In every history, two releases of recording calls at the same (height, round, step)
carry the same signature, i.e. the key has released exactly one payload there. -/
theorem one_payload_per_hrs (evs : List Ev) (hat : Admissible St.init evs) (l1 l2 : List (Req × Outcome)) (q1 q2 : Req) (g1 g2 : Sig) (ts1 ts2 : String) (p1 p2 : Bytes)
    (hout : (run St.init evs).out = l1 ++ (q2, .released g2 ts2 p2) :: l2)
    (h1 : (q1, Outcome.released g1 ts1 p1) ∈ l2) (hs1 : q1.save = true) (hs2 : q2.save = true) (hsame : q1.hrs = q2.hrs) :
    g1 = g2 ∧ g1.msg = g2.msg := by
  have hh := (inv_reachable evs hat).d.hist
  rw [hout] at hh
  have := (histOK_split hh).1 g2 ts2 p2 rfl _ h1 g1 ts1 p1 rfl hs1
  have h := (this.2 hs2 hsame).1
  exact ⟨h, by rw [h]⟩

/-- **no_regression.** A release (recording or not) never happens at an HRS below an earlier recording release. -/
theorem no_regression (evs : List Ev) (hat : Admissible St.init evs) (l1 l2 : List (Req × Outcome)) (q1 q2 : Req) (g1 g2 : Sig) (ts1 ts2 : String) (p1 p2 : Bytes)
    (hout : (run St.init evs).out = l1 ++ (q2, .released g2 ts2 p2) :: l2)
    (h1 : (q1, Outcome.released g1 ts1 p1) ∈ l2) (hs1 : q1.save = true) :
    HRS.le q1.hrs q2.hrs := by
  have hh := (inv_reachable evs hat).d.hist
  rw [hout] at hh
  exact ((histOK_split hh).1 g2 ts2 p2 rfl _ h1 g1 ts1 p1 rfl hs1).1

/-- the same as a refusal statement: whatever a later call for a strictly lower HRS hands to its caller, it is
not a signature -/
theorem lower_request_refused (evs : List Ev) (hat : Admissible St.init evs) (l1 l2 : List (Req × Outcome)) (q1 q2 : Req) (o2 : Outcome) (g1 : Sig) (ts1 : String) (p1 : Bytes)
    (hout : (run St.init evs).out = l1 ++ (q2, o2) :: l2)
    (h1 : (q1, Outcome.released g1 ts1 p1) ∈ l2) (hs1 : q1.save = true) (hlow : HRS.lt q2.hrs q1.hrs) :
    (∃ code, o2 = .refused code) ∨ o2 = .panicked := by
  cases o2 with
  | refused code => exact Or.inl ⟨code, rfl⟩
  | panicked => exact Or.inr rfl
  | released g2 ts2 p2 =>
    exact absurd hlow (HRS.not_lt_of_le (no_regression evs hat l1 l2 q1 q2 g1 g2 ts1 ts2 p1 p2 hout h1 hs1))

/-- **replay_returns_original.** A repeated request at an HRS already signed either is refused or returns the
ORIGINAL signature inside a vote whose signed content (sign-bytes, hence timestamp) is the original's. -/
theorem replay_returns_original (evs : List Ev) (hat : Admissible St.init evs) (l1 l2 : List (Req × Outcome)) (q1 q2 : Req) (o2 : Outcome) (g1 : Sig) (ts1 : String) (p1 : Bytes)
    (hout : (run St.init evs).out = l1 ++ (q2, o2) :: l2)
    (h1 : (q1, Outcome.released g1 ts1 p1) ∈ l2) (hs1 : q1.save = true) (hs2 : q2.save = true) (hsame : q1.hrs = q2.hrs) :
    (∃ ts2, o2 = .released g1 ts2 p1) ∨ (∃ code, o2 = .refused code) ∨ o2 = .panicked := by
  cases o2 with
  | refused code => exact Or.inr (Or.inl ⟨code, rfl⟩)
  | panicked => exact Or.inr (Or.inr rfl)
  | released g2 ts2 p2 =>
    have hh := (inv_reachable evs hat).d.hist
    rw [hout] at hh
    have := ((histOK_split hh).1 g2 ts2 p2 rfl _ h1 g1 ts1 p1 rfl hs1).2 hs2 hsame
    exact Or.inl ⟨ts2, by rw [this.1, this.2]⟩

/-- every signature handed out signs exactly the content of the vote it is handed out in -/
theorem released_signature_signs_returned_vote (evs : List Ev) (hat : Admissible St.init evs) (q : Req) (g : Sig) (ts : String) (post : Bytes)
    (h : (q, Outcome.released g ts post) ∈ (run St.init evs).out) : post = g.msg :=
  ((inv_reachable evs hat).d.covers _ h g ts post rfl).1

/-- a micro-step either leaves the log alone or is the `release` step of the call in flight -/
theorem tick_out (s : St) : (tick s).out = s.out ∨ ∃ q o, s.pc = .release q o ∧ (tick s).out = (q, o) :: s.out ∧ (tick s).disk = s.disk := by
  unfold tick
  split
  all_goals try (left; rfl)
  · split <;> (left; rfl)
  · rename_i q o hq
    exact Or.inr ⟨q, o, hq, rfl, rfl⟩

/-- **persist_before_release.** At the moment an event hands a signature of a recording call to the caller,
the key file already records that HRS with exactly that signature and its sign-bytes (and the event itself does
not touch the file). -/
theorem persist_before_release (evs : List Ev) (hat : Admissible St.init evs) (e : Ev) (q : Req) (g : Sig) (ts : String) (post : Bytes)
    (hnew : (step (run St.init evs) e).out = (q, .released g ts post) :: (run St.init evs).out) (hs : q.save = true) :
    (run St.init evs).disk.hrs = q.hrs ∧ (run St.init evs).disk.sig = some g ∧
      (∃ p, (run St.init evs).disk.sb = some p ∧ p.bytes = g.msg) ∧ (step (run St.init evs) e).disk = (run St.init evs).disk := by
  have hi : Inv (run St.init evs) := inv_reachable evs hat
  generalize run St.init evs = s at *
  have hlen : (step s e).out.length = s.out.length + 1 := by rw [hnew]; simp
  cases e with
  | req q' => simp only [step] at hlen; split at hlen <;> simp at hlen
  | crash => simp [step, restart] at hlen
  | crashTorn r =>
    simp only [step] at hlen
    split at hlen
    · split at hlen <;> simp [restart] at hlen
    · simp [restart] at hlen
  | writeFails n => simp only [step] at hlen; split at hlen <;> simp at hlen
  | reset => simp only [step] at hlen; split at hlen <;> simp at hlen
  | tick =>
    simp only [step] at hnew hlen ⊢
    rcases tick_out s with h | ⟨q', o, hq, hout, hdisk⟩
    · rw [h] at hlen; simp at hlen
    · rw [hout] at hnew
      simp only [List.cons.injEq, Prod.mk.injEq, and_true] at hnew
      obtain ⟨rfl, rfl⟩ := hnew
      have hpc := hi.pc
      simp only [PcInv, hq] at hpc
      obtain ⟨_, _, _, hsave⟩ := hpc
      have ⟨h1, h2⟩ := hsave hs
      exact ⟨h1, h2, hi.d.recDisk.bytes_of_sig g h2, hdisk⟩


/-! ### write errors -/

/-- **failed_save_releases_nothing.** If the write of the temp file reports an error (after any number `n` of
bytes), the call hands a panic to its caller — no signature —, and neither the key file nor the log of persisted
records nor the set of signatures handed out changes; the object is left poisoned (it holds the record the key
file does not). -/
theorem failed_save_releases_nothing (s : St) (n : Nat) (q : Req) (sg : Sig) (hpc : s.pc = .writeTemp q sg) :
    (run s [.writeFails n, .tick]).out = (q, .panicked) :: s.out ∧ (run s [.writeFails n, .tick]).disk = s.disk ∧
    (run s [.writeFails n, .tick]).persisted = s.persisted ∧ (run s [.writeFails n, .tick]).signed = s.signed ∧
    (run s [.writeFails n, .tick]).pc = .idle ∧ (run s [.writeFails n, .tick]).poisoned = true := by
  simp [run, step, tick, hpc]


/-- the same when the temp file cannot even be created (`OpenFile` error) -/
theorem failed_open_releases_nothing (s : St) (n : Nat) (q : Req) (sg : Sig) (hpc : s.pc = .openTemp q sg) :
    (run s [.writeFails n, .tick]).out = (q, .panicked) :: s.out ∧ (run s [.writeFails n, .tick]).disk = s.disk ∧
    (run s [.writeFails n, .tick]).persisted = s.persisted ∧ (run s [.writeFails n, .tick]).poisoned = true := by
  simp [run, step, tick, hpc]

/-- **a stored record whose sign-bytes are not canonical JSON never signs.** At the recorded HRS, a request whose
sign-bytes differ from stored sign-bytes that do not unmarshal (a damaged or hand-edited key file) ends in the panic
of `check*OnlyDifferByTimestamp`: nothing is handed out, nothing is written. -/
theorem unparsable_record_never_signs (m : Rec) (q : Req) (lp : Payload) (ls : Sig) (hsb : m.sb = some lp) (hsg : m.sig = some ls)
    (hsame : m.hrs = q.hrs) (hstep : q.hrs.s ≠ -1) (hbad : lp.ok = false) (hne : q.p.bytes ≠ lp.bytes) :
    decideCall m q = .release q .panicked := by
  unfold decideCall
  rw [if_neg hstep, ← hsame, checkRec_same]
  simp [hsb, hsg, hne, hbad]

/-- a write error can only occur where a write is in flight -/
theorem writeFails_elsewhere_noop (s : St) (n : Nat) (h : ∀ q sg, s.pc ≠ .writeTemp q sg) (h' : ∀ q sg, s.pc ≠ .openTemp q sg) :
    step s (.writeFails n) = s := by
  cases hq : s.pc with
  | writeTemp q sg => exact absurd hq (h q sg)
  | openTemp q sg => exact absurd hq (h' q sg)
  | _ => simp [step, hq]

/-! ### persisted records: released only after persisted, and the converse bound -/

/-- **released_after_persisted.** Every signature a recording call ever handed out is the signature of a record
that had become the content of the key file before (the model half; the source-order half is
`signVote_saves_before_release`, `signProposal_saves_before_release`, `saveSigned_copies_record_before_save`). -/
theorem released_after_persisted (evs : List Ev) (hat : Admissible St.init evs) (q : Req) (g : Sig) (ts : String) (post : Bytes)
    (h : (q, Outcome.released g ts post) ∈ (run St.init evs).out) (hs : q.save = true) :
    ∃ r ∈ (run St.init evs).persisted, r.hrs = q.hrs ∧ r.sig = some g :=
  (inv_reachable evs hat).d.relPers _ h g ts post rfl hs

/-- **persisted_strictly_increasing.** The records that ever became the content of the key file are strictly
increasing in (height, round, step): the key file never held two different records for one HRS, released or not. -/
theorem persisted_strictly_increasing (evs : List Ev) (hat : Admissible St.init evs) :
    (run St.init evs).persisted.Pairwise (fun newer older => HRS.lt older.hrs newer.hrs) :=
  (inv_reachable evs hat).d.persSorted

/-- the newest persisted record is what the key file holds now; all others are strictly below it -/
theorem persisted_head_is_disk (evs : List Ev) (hat : Admissible St.init evs) (r : Rec) (rest : List Rec)
    (h : (run St.init evs).persisted = r :: rest) :
    r = (run St.init evs).disk ∧ ∀ r' ∈ rest, HRS.lt r'.hrs (run St.init evs).disk.hrs := by
  have hd := (inv_reachable evs hat).d
  have hr := hd.persHead r rest h
  have hs := hd.persSorted
  rw [h, List.pairwise_cons] at hs
  exact ⟨hr, fun r' h' => hr ▸ hs.1 r' h'⟩

/-- **at most one persisted-but-unreleased record can still be released.** A persisted record other than the
current content of the key file is dead: a recording release at its HRS that is in the log carries ITS signature
(it was released while it was current), and any persisted record whose signature was never released and that has
been overwritten stays unreleased — so at any time the only persisted-but-unreleased record that a caller can
still obtain is the current one. Stated on the reachable state: two persisted records at the same HRS are equal,
and a recording release at the HRS of a persisted record carries that record's signature. -/
theorem persisted_unique_per_hrs (evs : List Ev) (hat : Admissible St.init evs) (r1 r2 : Rec)
    (h1 : r1 ∈ (run St.init evs).persisted) (h2 : r2 ∈ (run St.init evs).persisted) (hsame : r1.hrs = r2.hrs) : r1 = r2 := by
  have hs := persisted_strictly_increasing evs hat
  generalize (run St.init evs).persisted = l at *
  induction l with
  | nil => cases h1
  | cons a rest ih =>
    rw [List.pairwise_cons] at hs
    rcases List.mem_cons.1 h1 with rfl | h1' <;> rcases List.mem_cons.1 h2 with rfl | h2'
    · rfl
    · have := hs.1 r2 h2'; rw [hsame] at this; exact absurd this (HRS.lt_irrefl _)
    · have := hs.1 r1 h1'; rw [hsame] at this; exact absurd this (HRS.lt_irrefl _)
    · exact ih h1' h2' hs.2

theorem release_matches_persisted (evs : List Ev) (hat : Admissible St.init evs) (q : Req) (g : Sig) (ts : String) (post : Bytes) (r : Rec)
    (h : (q, Outcome.released g ts post) ∈ (run St.init evs).out) (hs : q.save = true)
    (hr : r ∈ (run St.init evs).persisted) (hsame : r.hrs = q.hrs) : r.sig = some g := by
  obtain ⟨r', hr', h1, h2⟩ := released_after_persisted evs hat q g ts post h hs
  have := persisted_unique_per_hrs evs hat r r' hr hr' (by rw [hsame, h1])
  rw [this]; exact h2


/-! ### the future of an overwritten record -/

theorem admissible_append (s : St) (a b : List Ev) : Admissible s (a ++ b) ↔ Admissible s a ∧ Admissible (run s a) b := by
  induction a generalizing s with
  | nil => simp [Admissible, run]
  | cons e rest ih =>
    simp only [List.cons_append, Admissible, run, List.foldl_cons]
    rw [ih, and_assoc]; rfl

theorem run_append (s : St) (a b : List Ev) : run s (a ++ b) = run (run s a) b := by
  simp [run, List.foldl_append]

/-- one event: the key file's HRS never decreases, and a recording release it emits is at the key file's HRS -/
theorem step_mono (s : St) (e : Ev) (hi : Inv s) (hat : e.admissibleAt s) :
    HRS.le s.disk.hrs (step s e).disk.hrs ∧
    ((step s e).out = s.out ∨ ∃ q o, (step s e).out = (q, o) :: s.out ∧
      ∀ g ts post, o = .released g ts post → q.save = true → HRS.le s.disk.hrs q.hrs) := by
  have hpc := hi.pc
  cases e with
  | req q => simp only [step]; split <;> exact ⟨HRS.le_refl _, Or.inl rfl⟩
  | crash => exact ⟨HRS.le_refl _, Or.inl rfl⟩
  | crashTorn r =>
    simp only [step]
    split
    · rename_i q sg hq
      simp only [PcInv, hq] at hpc
      split
      · exact ⟨HRS.le_refl _, Or.inl rfl⟩
      · rename_i hne
        simp only [Ev.admissibleAt] at hat
        rcases hat with h | h
        · exact absurd h hne
        · rw [hpc.2.2.2] at h; simp only [Option.getD_some] at h; subst h
          exact ⟨HRS.le_of_lt hpc.2.2.1, Or.inl rfl⟩
    · exact ⟨HRS.le_refl _, Or.inl rfl⟩
  | writeFails n => simp only [step]; split <;> exact ⟨HRS.le_refl _, Or.inl rfl⟩
  | reset => exact absurd hat (by simp [Ev.admissibleAt])
  | tick =>
    simp only [step]
    rcases tick_out s with h | ⟨q, o, hq, hout, hdisk⟩
    · refine ⟨?_, Or.inl h⟩
      unfold tick
      split <;> try exact HRS.le_refl _
      · split <;> exact HRS.le_refl _
      · rename_i q sg hq
        simp only [PcInv, hq] at hpc
        simp only [hpc.2.2.2, Option.getD_some]
        exact HRS.le_of_lt hpc.2.2.1
    · refine ⟨by rw [hdisk]; exact HRS.le_refl _, Or.inr ⟨q, o, hout, ?_⟩⟩
      intro g ts post ho hsv
      simp only [PcInv, hq] at hpc
      subst ho
      exact hpc.2.2.1

/-- along any continuation: the key file's HRS never decreases, the log only grows, and every recording release of
the continuation is at or above the HRS the key file had at its start -/
theorem run_mono (s : St) (evs : List Ev) (hi : Inv s) (hat : Admissible s evs) :
    HRS.le s.disk.hrs (run s evs).disk.hrs ∧ ∃ l, (run s evs).out = l ++ s.out ∧
      ∀ q g ts post, (q, Outcome.released g ts post) ∈ l → q.save = true → HRS.le s.disk.hrs q.hrs := by
  induction evs generalizing s with
  | nil => exact ⟨HRS.le_refl _, [], rfl, fun _ _ _ _ h => by cases h⟩
  | cons e rest ih =>
    have ⟨h1, h2⟩ := step_mono s e hi hat.1
    have ⟨h3, l, hl, h4⟩ := ih (step s e) (inv_step s e hi hat.1) hat.2
    refine ⟨HRS.le_trans h1 h3, ?_⟩
    rcases h2 with h | ⟨q, o, h, ho⟩
    · refine ⟨l, by simp only [run, List.foldl_cons] at hl ⊢; rw [hl, h], ?_⟩
      intro q g ts post hm hsv
      exact HRS.le_trans h1 (h4 q g ts post hm hsv)
    · refine ⟨l ++ [(q, o)], by simp only [run, List.foldl_cons] at hl ⊢; rw [hl, h]; simp, ?_⟩
      intro q' g ts post hm hsv
      rcases List.mem_append.1 hm with hm | hm
      · exact HRS.le_trans h1 (h4 q' g ts post hm hsv)
      · simp only [List.mem_singleton, Prod.mk.injEq] at hm
        obtain ⟨rfl, rfl⟩ := hm
        exact ho g ts post rfl hsv

/-- **an overwritten record is dead.** Once a persisted record is no longer the content of the key file, no
continuation (requests, crashes at any point, atomic renames) ever hands out a signature of a recording call at
its HRS again. With `persisted_head_is_disk`: at any time the only persisted-but-unreleased record a caller can
still obtain is the one currently in the key file — at most one. -/
theorem overwritten_record_never_released (evs evs' : List Ev) (hat : Admissible St.init (evs ++ evs')) (r : Rec)
    (hr : r ∈ (run St.init evs).persisted) (hne : r ≠ (run St.init evs).disk) :
    ∃ l, (run St.init (evs ++ evs')).out = l ++ (run St.init evs).out ∧
      ∀ q g ts post, (q, Outcome.released g ts post) ∈ l → q.save = true → q.hrs ≠ r.hrs := by
  have ⟨ha, hb⟩ := (admissible_append St.init evs evs').1 hat
  have hi := inv_reachable evs ha
  have ⟨_, l, hl, h⟩ := run_mono (run St.init evs) evs' hi hb
  refine ⟨l, by rw [run_append]; exact hl, ?_⟩
  intro q g ts post hm hsv heq
  have hle := h q g ts post hm hsv
  have ⟨hle', heq'⟩ := hi.d.persCover r hr
  rw [heq] at hle
  exact hne (heq' (HRS.le_antisymm hle' hle))

/-! ### the same-HRS rule: no second signature -/

theorem decideCall_same (m : Rec) (q : Req) (hrec : RecOK m) (hsame : m.hrs = q.hrs) (hstep : q.hrs.s ≠ -1) :
    ∃ o, decideCall m q = .release q o ∧
      ∀ g ts post, o = .released g ts post → m.sig = some g ∧ ∃ lp, m.sb = some lp ∧ post = lp.bytes ∧
        ((q.p.bytes = lp.bytes ∧ ts = q.p.ts) ∨ (q.p.bytes ≠ lp.bytes ∧ q.p.core = lp.core ∧ ts = lp.ts)) := by
  unfold decideCall
  rw [if_neg hstep, ← hsame, checkRec_same]
  rcases hrec with ⟨h1, h2⟩ | ⟨lp, ls, h1, h2, _⟩
  · simp [h1, h2]
  · simp only [h1, h2, Option.isNone_some, Bool.false_eq_true, if_false]
    by_cases hb : q.p.bytes = lp.bytes
    · refine ⟨_, by simp [hb]; rfl, ?_⟩
      intro g ts post ho
      cases ho
      refine ⟨rfl, lp, rfl, ?_, Or.inl ⟨hb, ?_⟩⟩ <;> first | rfl | exact hb | exact hb.symm
    · by_cases hok : lp.ok = false
      · refine ⟨_, by simp [hb, hok]; rfl, ?_⟩
        intro g ts post ho
        cases ho
      · by_cases hc : q.p.core = lp.core
        · refine ⟨_, by simp [hb, hc, hok]; rfl, ?_⟩
          intro g ts post ho
          cases ho
          exact ⟨rfl, lp, rfl, rfl, Or.inr ⟨hb, hc, rfl⟩⟩
        · refine ⟨_, by simp [hb, hc, hok]; rfl, ?_⟩
          intro g ts post ho
          cases ho

/-- **same HRS, only the timestamp differs (or nothing differs): the stored signature is handed out, byte for
byte, and no second signature is ever computed.** For a call at exactly the recorded HRS (any state reachable by
any history): the key computes NO signature (`signed` unchanged), the key file and the log of persisted records are
untouched, and if the call hands out a signature it is the one stored in the key file, inside a vote whose
sign-bytes are the stored sign-bytes; the vote keeps its own timestamp only if its sign-bytes were already
identical to the stored ones, otherwise it gets the stored timestamp and the request's core equals the stored core. -/
theorem same_hrs_call_returns_stored (s : St) (q : Req) (hi : Inv s) (hidle : s.pc = .idle) (hnp : s.poisoned = false) (hsame : s.mem.hrs = q.hrs) (hstep : q.hrs.s ≠ -1) :
    ∃ o, (call s q).out = (q, o) :: s.out ∧ (call s q).signed = s.signed ∧ (call s q).disk = s.disk ∧
      (call s q).persisted = s.persisted ∧
      ∀ g ts post, o = .released g ts post → s.disk.sig = some g ∧ ∃ lp, s.disk.sb = some lp ∧ post = lp.bytes ∧
        ((q.p.bytes = lp.bytes ∧ ts = q.p.ts) ∨ (q.p.bytes ≠ lp.bytes ∧ q.p.core = lp.core ∧ ts = lp.ts)) := by
  obtain ⟨o, hd, ho⟩ := decideCall_same s.mem q hi.recMem hsame hstep
  have hmd : s.mem = s.disk := by have := hi.pc; simp only [PcInv, hidle] at this; exact (this hnp).1
  refine ⟨o, ?_, ?_, ?_, ?_, ?_⟩
  · simp [call, step, hidle, finish, tick, hd]
  · simp [call, step, hidle, finish, tick, hd]
  · simp [call, step, hidle, finish, tick, hd]
  · simp [call, step, hidle, finish, tick, hd]
  · rw [← hmd]; exact ho

/-! ## the full statement, the interface-wide statement and its counterexample -/

/-- **C04 for the recording calls (SignVote, SignProposal)**: over all admissible histories — requests, crashes at
any point (incl. inside an atomic rename), write errors of the temp file after any number of bytes
(`Ev.writeFails`), restarts —, after a recording release at HRS `x`: (a) nothing is signed at a lower HRS, (b) at `x`
itself only the original signature over the original content is ever handed out again, (c) whenever a recording call
hands out a signature the key file already records it, and (d) the key file never holds two records for one HRS. -/
def C04_statement : Prop :=
  (∀ (evs : List Ev), Admissible St.init evs → ∀ (l1 l2 : List (Req × Outcome)) (q1 q2 : Req) (o2 : Outcome) (g1 : Sig) (ts1 : String) (p1 : Bytes),
    (run St.init evs).out = l1 ++ (q2, o2) :: l2 → (q1, Outcome.released g1 ts1 p1) ∈ l2 → q1.save = true →
      (HRS.lt q2.hrs q1.hrs → ∀ g2 ts2 p2, o2 ≠ .released g2 ts2 p2) ∧
      (q2.save = true → q1.hrs = q2.hrs → ∀ g2 ts2 p2, o2 = .released g2 ts2 p2 → g2 = g1 ∧ p2 = p1))
  ∧ (∀ (evs : List Ev), Admissible St.init evs → ∀ (e : Ev) (q : Req) (g : Sig) (ts : String) (post : Bytes),
      (step (run St.init evs) e).out = (q, .released g ts post) :: (run St.init evs).out → q.save = true →
      (run St.init evs).disk.hrs = q.hrs ∧ (run St.init evs).disk.sig = some g)
  ∧ (∀ (evs : List Ev), Admissible St.init evs →
      (run St.init evs).persisted.Pairwise (fun newer older => HRS.lt older.hrs newer.hrs))

theorem C04_holds : C04_statement := by
  refine ⟨?_, ?_, persisted_strictly_increasing⟩
  · intro evs hat l1 l2 q1 q2 o2 g1 ts1 p1 hout h1 hs1
    refine ⟨fun hlow g2 ts2 p2 ho => ?_, fun hs2 hsame g2 ts2 p2 ho => ?_⟩
    · subst ho
      exact absurd hlow (HRS.not_lt_of_le (no_regression evs hat l1 l2 q1 q2 g1 g2 ts1 ts2 p1 p2 hout h1 hs1))
    · subst ho
      rcases replay_returns_original evs hat l1 l2 q1 q2 _ g1 ts1 p1 hout h1 hs1 hs2 hsame with ⟨ts, h⟩ | ⟨c, h⟩ | h
      · cases h; exact ⟨rfl, rfl⟩
      · cases h
      · cases h
  · intro evs hat e q g ts post hnew hs
    have := persist_before_release evs hat e q g ts post hnew hs
    exact ⟨this.1, this.2.1⟩

/-- the same demand on EVERY method of the signing interface, i.e. including `SignVoteWithoutSave`
(`save = false`): two releases at the same HRS carry the same signature -/
def C04_statement_full_interface : Prop :=
  ∀ (evs : List Ev), Admissible St.init evs → ∀ (l1 l2 : List (Req × Outcome)) (q1 q2 : Req) (g1 g2 : Sig) (ts1 ts2 : String) (p1 p2 : Bytes),
    (run St.init evs).out = l1 ++ (q2, .released g2 ts2 p2) :: l2 → (q1, Outcome.released g1 ts1 p1) ∈ l2 →
    q1.hrs = q2.hrs → g1 = g2

/-- the recording-call statement WITHOUT the rename-atomicity hypothesis -/
def C04_statement_without_atomic_rename : Prop :=
  ∀ (evs : List Ev) (l1 l2 : List (Req × Outcome)) (q1 q2 : Req) (g1 g2 : Sig) (ts1 ts2 : String) (p1 p2 : Bytes),
    (run St.init evs).out = l1 ++ (q2, .released g2 ts2 p2) :: l2 → (q1, Outcome.released g1 ts1 p1) ∈ l2 →
    q1.save = true → q2.save = true → q1.hrs = q2.hrs → g1 = g2

def exA (save : Bool) : Req := { hrs := ⟨5, 0, 2⟩, p := { bytes := [1], core := [10], ts := "t1" }, save := save }
def exB (save : Bool) : Req := { hrs := ⟨5, 0, 2⟩, p := { bytes := [2], core := [20], ts := "t1" }, save := save }
def exC : Req := { hrs := ⟨6, 0, 2⟩, p := { bytes := [3], core := [30], ts := "t1" }, save := true }
def ticks (n : Nat) : List Ev := List.replicate n Ev.tick

instance (s : St) (e : Ev) : Decidable (e.admissibleAt s) := by
  cases e <;> simp only [Ev.admissibleAt] <;> exact inferInstance

instance decAdmissible : (s : St) → (evs : List Ev) → Decidable (Admissible s evs)
  | _, [] => isTrue trivial
  | s, e :: rest =>
    have := decAdmissible (step s e) rest
    by simp only [Admissible]; exact inferInstance

/-- **false of the current code**: `SignVoteWithoutSave` signs block A and then block B at the same HRS -/
theorem C04_full_interface_counterexample : ¬ C04_statement_full_interface := by
  intro h
  have := h ([.req (exA false)] ++ ticks 3 ++ [.req (exB false)] ++ ticks 3) (by decide) [] [(exA false, .released ⟨[1]⟩ "t1" [1])]
    (exA false) (exB false) ⟨[1]⟩ ⟨[2]⟩ "t1" "t1" [1] [2] (by decide) (by simp) rfl
  exact absurd this (by decide)

/-- the strongest true statement: restricted to the recording calls it holds (`one_payload_per_hrs`), and
unrecorded calls in between do not disturb it; `Props.C04.signVoteWithoutSave_has_no_caller` keeps the
restriction honest for the node. -/
theorem C04_full_interface_partial (evs : List Ev) (hat : Admissible St.init evs) (l1 l2 : List (Req × Outcome)) (q1 q2 : Req) (g1 g2 : Sig) (ts1 ts2 : String) (p1 p2 : Bytes)
    (hout : (run St.init evs).out = l1 ++ (q2, .released g2 ts2 p2) :: l2) (h1 : (q1, Outcome.released g1 ts1 p1) ∈ l2)
    (hs1 : q1.save = true) (hs2 : q2.save = true) (hsame : q1.hrs = q2.hrs) : g1 = g2 :=
  (one_payload_per_hrs evs hat l1 l2 q1 q2 g1 g2 ts1 ts2 p1 p2 hout h1 hs1 hs2 hsame).1

/-- **rename atomicity is needed**: A is signed, persisted and released at 5/0/2; a call for 6/0/2 dies inside a
rename that leaves an EMPTY record in the key file; after the restart a different block B is signed at 5/0/2. -/
theorem rename_atomicity_needed : ¬ C04_statement_without_atomic_rename := by
  intro h
  have := h ([.req (exA true)] ++ ticks 11 ++ [.req exC] ++ ticks 7 ++ [.crashTorn Rec.zero, .req (exB true)] ++ ticks 11)
    [] [(exA true, .released ⟨[1]⟩ "t1" [1])] (exA true) (exB true) ⟨[1]⟩ ⟨[2]⟩ "t1" "t1" [1] [2] (by decide) (by simp) rfl rfl rfl
  exact absurd this (by decide)


/-- the recording-call statement for callers that RECOVER from the panic of a failed save and go on using the same
object (atomic renames still assumed) -/
def C04_statement_with_retry_after_save_panic : Prop :=
  ∀ (evs : List Ev), AtomicRun St.init evs → ∀ (l1 l2 : List (Req × Outcome)) (q1 q2 : Req) (g1 g2 : Sig) (ts1 ts2 : String) (p1 p2 : Bytes),
    (run St.init evs).out = l1 ++ (q2, .released g2 ts2 p2) :: l2 → (q1, Outcome.released g1 ts1 p1) ∈ l2 →
    q1.save = true → q2.save = true → q1.hrs = q2.hrs → g1 = g2

instance (s : St) (e : Ev) : Decidable (e.atomicAt s) := by
  cases e <;> simp only [Ev.atomicAt] <;> exact inferInstance

instance decAtomicRun : (s : St) → (evs : List Ev) → Decidable (AtomicRun s evs)
  | _, [] => isTrue trivial
  | s, e :: rest =>
    have := decAtomicRun (step s e) rest
    by simp only [AtomicRun]; exact inferInstance

/-- **"a panic of a failed save ends the process" is needed**: `saveSigned` assigns the record to the object BEFORE
`save()`, so after the panic of a failed save the object holds a record the key file does not.  A caller that
recovered and asked again would get that signature through the same-HRS branch (nothing is written on that
branch); after a restart the key file knows nothing and a different block is signed at the same HRS.
No in-tree caller does this (the consensus receive routine does not continue after a panic). -/
theorem save_panic_retry_breaks_C04 : ¬ C04_statement_with_retry_after_save_panic := by
  intro h
  have := h ([.req (exA true)] ++ ticks 5 ++ [.writeFails 0, .tick, .req (exA true)] ++ ticks 2 ++ [.crash, .req (exB true)] ++ ticks 11)
    (by decide) [] [(exA true, .released ⟨[1]⟩ "t1" [1]), (exA true, .panicked)] (exA true) (exB true) ⟨[1]⟩ ⟨[2]⟩ "t1" "t1" [1] [2]
    (by decide) (by simp) rfl rfl rfl
  exact absurd this (by decide)

/-- a failed save in an admissible history: A is signed and released at 5/0/2; the save of C at 6/0/2 fails after 3
bytes: C's caller gets a panic, the key file still holds A's record, and after the restart the conflicting B at
5/0/2 is refused while C can be signed again -/
example : let evs := [.req (exA true)] ++ ticks 11 ++ [.req exC] ++ ticks 5 ++ [.writeFails 3, .tick, .crash, .req (exB true)] ++ ticks 2 ++ [.req exC] ++ ticks 11
    Admissible St.init evs ∧
    (run St.init evs).out = [(exC, .released ⟨[3]⟩ "t1" [3]), (exB true, .refused conflictCode), (exC, .panicked), (exA true, .released ⟨[1]⟩ "t1" [1])] ∧
    (run St.init evs).persisted = [recOf exC ⟨[3]⟩, recOf (exA true) ⟨[1]⟩] := by decide


/-- histories in which an operator may run `unsafe_reset_priv_validator` (`FilePV.Reset`) at any idle moment -/
def AdmissibleOrReset : St → List Ev → Prop
  | _, [] => True
  | s, e :: rest => (e = .reset ∨ e.admissibleAt s) ∧ AdmissibleOrReset (step s e) rest

def C04_statement_with_operator_reset : Prop :=
  ∀ (evs : List Ev), AdmissibleOrReset St.init evs → ∀ (l1 l2 : List (Req × Outcome)) (q1 q2 : Req) (g1 g2 : Sig) (ts1 ts2 : String) (p1 p2 : Bytes),
    (run St.init evs).out = l1 ++ (q2, .released g2 ts2 p2) :: l2 → (q1, Outcome.released g1 ts1 p1) ∈ l2 →
    q1.save = true → q2.save = true → q1.hrs = q2.hrs → g1 = g2

instance decAdmissibleOrReset : (s : St) → (evs : List Ev) → Decidable (AdmissibleOrReset s evs)
  | _, [] => isTrue trivial
  | s, e :: rest =>
    have := decAdmissibleOrReset (step s e) rest
    by simp only [AdmissibleOrReset]; exact inferInstance

/-- **`Reset` erases the protection** (it is what the CLI command `unsafe_reset_priv_validator` calls; no other caller):
A signed at 5/0/2, reset, B signed at 5/0/2.  `Ev.reset` is therefore never admissible. -/
theorem operator_reset_breaks_C04 : ¬ C04_statement_with_operator_reset := by
  intro h
  have := h ([.req (exA true)] ++ ticks 11 ++ [.reset, .req (exB true)] ++ ticks 11) (by decide)
    [] [(exA true, .released ⟨[1]⟩ "t1" [1])] (exA true) (exB true) ⟨[1]⟩ ⟨[2]⟩ "t1" "t1" [1] [2] (by decide) (by simp) rfl rfl rfl
  exact absurd this (by decide)

/-- a damaged record at the recorded HRS: the different request panics, the next round is signed -/
example : let bad : Rec := { hrs := ⟨5, 0, 2⟩, sb := some { bytes := [9], core := [0], ts := "-", ok := false }, sig := some ⟨[9]⟩ }
    let s0 : St := { St.init with disk := bad, mem := bad, shadow := bad }
    (run s0 ([.req (exA true)] ++ ticks 2 ++ [.req exC] ++ ticks 11)).out
      = [(exC, .released ⟨[3]⟩ "t1" [3]), (exA true, .panicked)] := by decide

/-- with the hypothesis it holds (this is `one_payload_per_hrs`) -/
theorem C04_with_atomic_rename (evs : List Ev) (hat : Admissible St.init evs) (l1 l2 : List (Req × Outcome)) (q1 q2 : Req) (g1 g2 : Sig) (ts1 ts2 : String) (p1 p2 : Bytes)
    (hout : (run St.init evs).out = l1 ++ (q2, .released g2 ts2 p2) :: l2) (h1 : (q1, Outcome.released g1 ts1 p1) ∈ l2)
    (hs1 : q1.save = true) (hs2 : q2.save = true) (hsame : q1.hrs = q2.hrs) : g1 = g2 :=
  (one_payload_per_hrs evs hat l1 l2 q1 q2 g1 g2 ts1 ts2 p1 p2 hout h1 hs1 hs2 hsame).1

/-! ## non-vacuity: crashes inside a call -/

/-- crash between `sign` and `rename` (the process dies at the entry of rename): nothing was released and
nothing is recorded, so a different block at the same HRS is signed afterwards -/
example : (run St.init ([.req (exA true)] ++ ticks 7 ++ [.crash, .req (exB true)] ++ ticks 11)).out
    = [(exB true, .released ⟨[2]⟩ "t1" [2])] := by decide

/-- crash right after `rename` (before the signature is handed out): the record is on disk, so the different
block is refused ("Conflicting data"), and the original request gets the persisted signature -/
example : (run St.init ([.req (exA true)] ++ ticks 8 ++ [.crash, .req (exB true)] ++ ticks 2 ++ [.req (exA true)] ++ ticks 2)).out
    = [(exA true, .released ⟨[1]⟩ "t1" [1]), (exB true, .refused conflictCode)] := by decide

/-- a crash INSIDE an atomic rename that left the new content behaves like the second case, one that left the old
content like the first; both runs satisfy `Admissible` -/
example : Admissible St.init ([.req (exA true)] ++ ticks 7 ++ [.crashTorn (recOf (exA true) ⟨[1]⟩), .req (exB true)] ++ ticks 2) ∧
    (run St.init ([.req (exA true)] ++ ticks 7 ++ [.crashTorn (recOf (exA true) ⟨[1]⟩), .req (exB true)] ++ ticks 2)).out
      = [(exB true, .refused conflictCode)] := by decide

example : Admissible St.init ([.req (exA true)] ++ ticks 7 ++ [.crashTorn Rec.zero, .req (exB true)] ++ ticks 11) ∧
    (run St.init ([.req (exA true)] ++ ticks 7 ++ [.crashTorn Rec.zero, .req (exB true)] ++ ticks 11)).out
      = [(exB true, .released ⟨[2]⟩ "t1" [2])] := by decide

/-- the hypotheses of the main theorems are satisfiable: a history with two releases at one HRS (replay with a
different timestamp returns the original content, the key computed ONE signature) and a refused lower request -/
example : let s := run St.init ([.req (exA true)] ++ ticks 11 ++
      [.req { exA true with p := { bytes := [3], core := [10], ts := "t2" } }] ++ ticks 2 ++
      [.req { exA true with hrs := ⟨4, 9, 3⟩ }] ++ ticks 2)
    s.out = [({ exA true with hrs := ⟨4, 9, 3⟩ }, .refused 1),
       ({ exA true with p := { bytes := [3], core := [10], ts := "t2" } }, .released ⟨[1]⟩ "t1" [1]),
       (exA true, .released ⟨[1]⟩ "t1" [1])] ∧ s.signed = [(⟨5, 0, 2⟩, ⟨[1]⟩)] ∧ s.persisted = [recOf (exA true) ⟨[1]⟩] := by decide

/-! ## progress and the driver's composite steps -/

/-- a well-formed recording request strictly above the record is served with a fresh signature over exactly the
submitted sign-bytes (no crash) -/
theorem fresh_request_served (s : St) (q : Req) (hidle : s.pc = .idle) (hlt : HRS.lt s.mem.hrs q.hrs) (hstep : q.hrs.s ≠ -1)
    (hsave : q.save = true) :
    (call s q).out = (q, .released ⟨q.p.bytes⟩ q.p.ts q.p.bytes) :: s.out ∧ (call s q).disk = recOf q ⟨q.p.bytes⟩ := by
  have hd : decideCall s.mem q = .sign q := by
    unfold decideCall
    rw [if_neg hstep, checkRec_fresh s.mem q.hrs hlt]
    simp
  simp [call, step, hidle, finish, tick, hd, hsave, recOf]

/-- the composite steps the driver executes (`finish`, `finishKill`) are event lists without torn renames:
everything the correspondence run exercises is an instance of the histories the theorems quantify over -/
theorem admissible_ticks (s : St) (k : Nat) : Admissible s (ticks k) := by
  induction k generalizing s with
  | zero => trivial
  | succ k ih => exact ⟨trivial, ih _⟩

theorem finish_is_run (n : Nat) (s : St) : ∃ k, finish n s = run s (ticks k) := by
  induction n generalizing s with
  | zero => exact ⟨0, rfl⟩
  | succ n ih =>
    unfold finish
    split
    · exact ⟨0, rfl⟩
    · obtain ⟨k, hk⟩ := ih (tick s)
      exact ⟨k + 1, by rw [hk]; rfl⟩

theorem finishKill_is_run (name : String) (n fuel seen : Nat) (s : St) :
    ∃ evs, (finishKill name n fuel seen s).1 = run s evs ∧ Admissible s evs := by
  induction fuel generalizing s seen with
  | zero => exact ⟨[], rfl, trivial⟩
  | succ fuel ih =>
    unfold finishKill
    split
    · exact ⟨[], rfl, trivial⟩
    · split
      · split
        · exact ⟨[.crash], rfl, trivial, trivial⟩
        · obtain ⟨evs, h, ha⟩ := ih (seen + 1) (tick s)
          exact ⟨.tick :: evs, by rw [h]; rfl, trivial, ha⟩
      · obtain ⟨evs, h, ha⟩ := ih seen (tick s)
        exact ⟨.tick :: evs, by rw [h]; rfl, trivial, ha⟩

end Props.C04
