/-
C04 — a validator key never signs conflicting votes or proposals, even across restarts.

The theorems quantify over ALL event lists of the micro-step machine `Model.FilePV`
(`Ev.req q` = a caller enters SignVote / SignProposal / SignVoteWithoutSave, `Ev.tick` = the call in flight
advances by one micro-step, `Ev.crash` = the process dies and the next one starts from the key file), i.e. over
all request sequences with a crash inserted between any two micro-steps of any call, including between signing
and persisting and between persisting and handing out the signature.

A *release* is an entry `(q, .released sig ts post)` of the ghost log `St.out`: the call for request `q` handed
signature `sig` to its caller inside a vote whose timestamp is `ts` and whose sign-bytes are `post`.
Releases of recording calls (`q.save = true`: SignVote, SignProposal) are the subject of the property.
-/
import LinkVerif.Props.C04Check

namespace Props.C04
open Model.FilePV

/-! ## the invariant -/

/-- the signature stored in a record signs the stored sign-bytes -/
def RecOK (r : Rec) : Prop :=
  (r.sb = none ∧ r.sig = none) ∨ (∃ p g, r.sb = some p ∧ r.sig = some g ∧ g.msg = p.bytes)

theorem RecOK.msg {r : Rec} (h : RecOK r) (p : Payload) (g : Sig) (hp : r.sb = some p) (hg : r.sig = some g) : g.msg = p.bytes := by
  rcases h with ⟨h1, _⟩ | ⟨p', g', h1, h2, h3⟩
  · rw [h1] at hp; cases hp
  · rw [h1] at hp; rw [h2] at hg; cases hp; cases hg; exact h3

theorem RecOK.bytes_of_sig {r : Rec} (h : RecOK r) (g : Sig) (hg : r.sig = some g) : ∃ p, r.sb = some p ∧ p.bytes = g.msg := by
  rcases h with ⟨_, h2⟩ | ⟨p', g', h1, h2, h3⟩
  · rw [h2] at hg; cases hg
  · rw [h2] at hg; cases hg; exact ⟨p', h1, h3.symm⟩

def recOf (q : Req) (sg : Sig) : Rec := { hrs := q.hrs, sb := some q.p, sig := some sg }

/-- what is known at each program point of the call in flight -/
def PcInv (s : St) : Prop :=
  match s.pc with
  | .idle => s.mem = s.disk
  | .check _ => s.mem = s.disk
  | .sign q => s.mem = s.disk ∧ HRS.lt s.disk.hrs q.hrs
  | .setMem q sg => s.mem = s.disk ∧ HRS.lt s.disk.hrs q.hrs ∧ sg.msg = q.p.bytes
  | .openTemp q sg => s.mem = recOf q sg ∧ HRS.lt s.disk.hrs q.hrs
  | .writeTemp q sg => s.mem = recOf q sg ∧ HRS.lt s.disk.hrs q.hrs
  | .closeTemp q sg => s.mem = recOf q sg ∧ HRS.lt s.disk.hrs q.hrs ∧ s.temp = some s.mem
  | .rename q sg => s.mem = recOf q sg ∧ HRS.lt s.disk.hrs q.hrs ∧ s.temp = some s.mem
  | .unlink1 q sg => s.mem = recOf q sg ∧ s.disk = s.mem
  | .unlink2 q sg => s.mem = recOf q sg ∧ s.disk = s.mem
  | .release q o => s.mem = s.disk ∧
      match o with
      | .released g _ post => post = g.msg ∧ HRS.le s.disk.hrs q.hrs ∧ (q.save = true → s.disk.hrs = q.hrs ∧ s.disk.sig = some g)
      | _ => True

/-- pairwise facts about the log (newest first): a later release is never below an earlier recording release,
and at the same HRS it carries the same signature and the same signed content -/
def HistOK : List (Req × Outcome) → Prop
  | [] => True
  | e2 :: rest =>
    (∀ g2 ts2 post2, e2.2 = .released g2 ts2 post2 → ∀ e1 ∈ rest, ∀ g1 ts1 post1, e1.2 = .released g1 ts1 post1 → e1.1.save = true →
      HRS.le e1.1.hrs e2.1.hrs ∧ (e2.1.save = true → e1.1.hrs = e2.1.hrs → g1 = g2 ∧ post1 = post2)) ∧ HistOK rest

structure Inv (s : St) : Prop where
  recDisk : RecOK s.disk
  recMem : RecOK s.mem
  /-- every recording release is covered by the key file: the file's HRS is at least the release's, and if equal
  the file holds exactly that signature -/
  covers : ∀ e ∈ s.out, ∀ g ts post, e.2 = .released g ts post →
      post = g.msg ∧ (e.1.save = true → HRS.le e.1.hrs s.disk.hrs ∧ (e.1.hrs = s.disk.hrs → s.disk.sig = some g))
  pc : PcInv s
  hist : HistOK s.out

theorem inv_init : Inv St.init := by
  refine ⟨?_, ?_, ?_, ?_, ?_⟩
  · exact Or.inl ⟨rfl, rfl⟩
  · exact Or.inl ⟨rfl, rfl⟩
  · intro e he; simp [St.init] at he
  · simp [PcInv, St.init]
  · simp [HistOK, St.init]

theorem recOK_recOf (q : Req) (sg : Sig) (h : sg.msg = q.p.bytes) : RecOK (recOf q sg) := by
  exact Or.inr ⟨q.p, sg, rfl, rfl, h⟩

/-- the decision point: what `decideCall` yields satisfies the program-point invariant -/
theorem pcInv_decide (s : St) (q : Req) (hm : s.mem = s.disk) (hrec : RecOK s.mem) :
    PcInv { s with pc := decideCall s.mem q } := by
  unfold decideCall
  split
  · simp [PcInv, hm]
  · generalize hc : checkRec s.mem q.hrs = c
    obtain ⟨same, code⟩ := c
    simp only
    split
    · simp [PcInv, hm]
    · split
      · simp [PcInv, hm]
      · rename_i hne1 hne0
        have hcode : code = 0 := by simpa using hne0
        subst hcode
        have hpass := checkRec_pass s.mem q.hrs same hc
        split
        · rename_i hsame
          have ⟨hhrs, _, _⟩ := hpass.1 hsame
          split
          · rename_i lp ls hsb hsg
            have hmsg : ls.msg = lp.bytes := hrec.msg lp ls hsb hsg
            split
            · rename_i hb
              simp only [PcInv]
              refine ⟨hm, ?_, ?_, ?_⟩
              · rw [hmsg, hb]
              · rw [← hm, hhrs]; exact HRS.le_refl _
              · intro _; rw [← hm]; exact ⟨hhrs, hsg⟩
            · split
              · simp only [PcInv]
                refine ⟨hm, hmsg.symm, ?_, ?_⟩
                · rw [← hm, hhrs]; exact HRS.le_refl _
                · intro _; rw [← hm]; exact ⟨hhrs, hsg⟩
              · simp [PcInv, hm]
          · simp [PcInv, hm]
        · rename_i hsame
          have hlt := hpass.2 (by simpa using hsame)
          simp only [PcInv]
          exact ⟨hm, by rw [← hm]; exact hlt⟩

theorem histOK_cons_nonrelease (q : Req) (o : Outcome) (out : List (Req × Outcome)) (h : HistOK out)
    (hno : ∀ g ts post, o ≠ .released g ts post) : HistOK ((q, o) :: out) := by
  refine ⟨?_, h⟩
  intro g2 ts2 post2 h2
  exact absurd h2 (hno g2 ts2 post2)

/-- **the invariant is preserved by every event** (request, micro-step, crash) -/
theorem inv_step (s : St) (e : Ev) (hi : Inv s) : Inv (step s e) := by
  obtain ⟨hrd, hrm, hcov, hpc, hhist⟩ := hi
  cases e with
  | req q =>
    simp only [step]
    split
    · rename_i hidle
      refine ⟨hrd, hrm, hcov, ?_, hhist⟩
      simp only [PcInv, hidle] at hpc
      simp [PcInv, hpc]
    · exact ⟨hrd, hrm, hcov, hpc, hhist⟩
  | crash =>
    simp only [step]
    exact ⟨hrd, hrd, hcov, by simp [PcInv], hhist⟩
  | tick =>
    simp only [step, tick]
    split
    · -- idle
      exact ⟨hrd, hrm, hcov, hpc, hhist⟩
    · -- check
      rename_i q hq
      simp only [PcInv, hq] at hpc
      exact ⟨hrd, hrm, hcov, pcInv_decide s q hpc hrm, hhist⟩
    · -- sign
      rename_i q hq
      simp only [PcInv, hq] at hpc
      split
      · exact ⟨hrd, hrm, hcov, by simp [PcInv, hpc], hhist⟩
      · rename_i hns
        refine ⟨hrd, hrm, hcov, ?_, hhist⟩
        simp only [PcInv]
        refine ⟨hpc.1, trivial, HRS.le_of_lt hpc.2, ?_⟩
        intro hsv; exact absurd hsv hns
    · -- setMem
      rename_i q sg hq
      simp only [PcInv, hq] at hpc
      refine ⟨hrd, recOK_recOf q sg hpc.2.2, hcov, ?_, hhist⟩
      simp [PcInv, recOf, hpc.2.1]
    · -- openTemp
      rename_i q sg hq
      simp only [PcInv, hq] at hpc
      exact ⟨hrd, hrm, hcov, by simp only [PcInv]; exact hpc, hhist⟩
    · -- writeTemp
      rename_i q sg hq
      simp only [PcInv, hq] at hpc
      exact ⟨hrd, hrm, hcov, by simp only [PcInv]; exact ⟨hpc.1, hpc.2, trivial⟩, hhist⟩
    · -- closeTemp
      rename_i q sg hq
      simp only [PcInv, hq] at hpc
      exact ⟨hrd, hrm, hcov, by simp only [PcInv]; exact hpc, hhist⟩
    · -- rename: the key file becomes the new record; every earlier release is strictly below it
      rename_i q sg hq
      simp only [PcInv, hq] at hpc
      obtain ⟨hmem, hlt, htemp⟩ := hpc
      have hdisk : s.temp.getD s.disk = s.mem := by rw [htemp]; rfl
      refine ⟨by rw [hdisk]; exact hrm, hrm, ?_, ?_, hhist⟩
      · intro e he g ts post hrel
        have ⟨hpost, hc⟩ := hcov e he g ts post hrel
        refine ⟨hpost, fun hsv => ?_⟩
        have ⟨hle, _⟩ := hc hsv
        simp only [hdisk, hmem, recOf]
        have hlt' : HRS.lt e.1.hrs q.hrs := HRS.lt_of_le_of_lt hle hlt
        refine ⟨HRS.le_of_lt hlt', fun heq => ?_⟩
        rw [heq] at hlt'; exact absurd hlt' (HRS.lt_irrefl _)
      · simp only [PcInv, hdisk]; exact ⟨hmem, trivial⟩
    · -- unlink1
      rename_i q sg hq
      simp only [PcInv, hq] at hpc
      exact ⟨hrd, hrm, hcov, by simp only [PcInv]; exact hpc, hhist⟩
    · -- unlink2
      rename_i q sg hq
      simp only [PcInv, hq] at hpc
      obtain ⟨hmem, hdm⟩ := hpc
      refine ⟨hrd, hrm, hcov, ?_, hhist⟩
      simp only [PcInv]
      have hmsg : sg.msg = q.p.bytes := hrm.msg q.p sg (by rw [hmem]; rfl) (by rw [hmem]; rfl)
      refine ⟨hdm.symm, hmsg.symm, ?_, fun _ => ?_⟩
      · rw [hdm, hmem]; exact HRS.le_refl _
      · rw [hdm, hmem]; exact ⟨rfl, rfl⟩
    · -- release: the outcome is handed to the caller
      rename_i q o hq
      simp only [PcInv, hq] at hpc
      obtain ⟨hmd, ho⟩ := hpc
      cases o with
      | refused code =>
        refine ⟨hrd, hrm, ?_, by simp [PcInv, hmd], histOK_cons_nonrelease q _ _ hhist (by intro g ts post h; cases h)⟩
        intro e he g ts post hrel
        rcases List.mem_cons.1 he with rfl | he'
        · cases hrel
        · exact hcov e he' g ts post hrel
      | panicked =>
        refine ⟨hrd, hrm, ?_, by simp [PcInv, hmd], histOK_cons_nonrelease q _ _ hhist (by intro g ts post h; cases h)⟩
        intro e he g ts post hrel
        rcases List.mem_cons.1 he with rfl | he'
        · cases hrel
        · exact hcov e he' g ts post hrel
      | released g ts post =>
        simp only at ho
        obtain ⟨hpost, hle, hsave⟩ := ho
        refine ⟨hrd, hrm, ?_, by simp [PcInv, hmd], ?_⟩
        · intro e he g' ts' post' hrel
          rcases List.mem_cons.1 he with rfl | he'
          · simp only at hrel
            cases hrel
            refine ⟨hpost, fun hsv => ?_⟩
            have ⟨h1, h2⟩ := hsave hsv
            exact ⟨by simp only; rw [h1]; exact HRS.le_refl _, fun _ => h2⟩
          · exact hcov e he' g' ts' post' hrel
        · refine ⟨?_, hhist⟩
          intro g2 ts2 post2 h2 e1 he1 g1 ts1 post1 h1 hsv1
          simp only at h2
          cases h2
          have ⟨hp1, hc1⟩ := hcov e1 he1 g1 ts1 post1 h1
          have ⟨hle1, heq1⟩ := hc1 hsv1
          refine ⟨HRS.le_trans hle1 hle, fun hsv2 hsame => ?_⟩
          have ⟨hd, hsig⟩ := hsave hsv2
          have : s.disk.sig = some g1 := heq1 (by simp only at hsame; rw [hsame, hd])
          rw [hsig] at this
          cases this
          exact ⟨rfl, by rw [hp1, hpost]⟩

theorem inv_run (s : St) (evs : List Ev) (hi : Inv s) : Inv (run s evs) := by
  induction evs generalizing s with
  | nil => exact hi
  | cons e rest ih => exact ih (step s e) (inv_step s e hi)

/-- every state reachable from a fresh key file by any requests, micro-steps and crashes satisfies the invariant -/
theorem inv_reachable (evs : List Ev) : Inv (run St.init evs) := inv_run _ _ inv_init

/-! ## the property clauses, over all request / crash sequences -/

theorem histOK_split {l1 l2 : List (Req × Outcome)} {e2 : Req × Outcome} (h : HistOK (l1 ++ e2 :: l2)) : HistOK (e2 :: l2) := by
  induction l1 with
  | nil => exact h
  | cons a l ih => exact ih h.2

/-- **one_payload_per_hrs.** In every history (any requests, crashes between any two micro-steps), two releases
of recording calls at the same (height, round, step) carry the same signature, i.e. the key has signed
exactly one payload there. -/
theorem one_payload_per_hrs (evs : List Ev) (l1 l2 : List (Req × Outcome)) (q1 q2 : Req) (g1 g2 : Sig) (ts1 ts2 : String) (p1 p2 : Bytes)
    (hout : (run St.init evs).out = l1 ++ (q2, .released g2 ts2 p2) :: l2)
    (h1 : (q1, Outcome.released g1 ts1 p1) ∈ l2) (hs1 : q1.save = true) (hs2 : q2.save = true) (hsame : q1.hrs = q2.hrs) :
    g1 = g2 ∧ g1.msg = g2.msg := by
  have hh := (inv_reachable evs).hist
  rw [hout] at hh
  have := (histOK_split hh).1 g2 ts2 p2 rfl _ h1 g1 ts1 p1 rfl hs1
  have h := (this.2 hs2 hsame).1
  exact ⟨h, by rw [h]⟩

/-- **no_regression.** A release (recording or not) never happens at an HRS below an earlier recording release:
a request for a lower height/round/step than one already signed is not served. -/
theorem no_regression (evs : List Ev) (l1 l2 : List (Req × Outcome)) (q1 q2 : Req) (g1 g2 : Sig) (ts1 ts2 : String) (p1 p2 : Bytes)
    (hout : (run St.init evs).out = l1 ++ (q2, .released g2 ts2 p2) :: l2)
    (h1 : (q1, Outcome.released g1 ts1 p1) ∈ l2) (hs1 : q1.save = true) :
    HRS.le q1.hrs q2.hrs := by
  have hh := (inv_reachable evs).hist
  rw [hout] at hh
  exact ((histOK_split hh).1 g2 ts2 p2 rfl _ h1 g1 ts1 p1 rfl hs1).1

/-- the same as a refusal statement: whatever a later call for a strictly lower HRS hands to its caller, it is
not a signature -/
theorem lower_request_refused (evs : List Ev) (l1 l2 : List (Req × Outcome)) (q1 q2 : Req) (o2 : Outcome) (g1 : Sig) (ts1 : String) (p1 : Bytes)
    (hout : (run St.init evs).out = l1 ++ (q2, o2) :: l2)
    (h1 : (q1, Outcome.released g1 ts1 p1) ∈ l2) (hs1 : q1.save = true) (hlow : HRS.lt q2.hrs q1.hrs) :
    (∃ code, o2 = .refused code) ∨ o2 = .panicked := by
  cases o2 with
  | refused code => exact Or.inl ⟨code, rfl⟩
  | panicked => exact Or.inr rfl
  | released g2 ts2 p2 =>
    exact absurd hlow (HRS.not_lt_of_le (no_regression evs l1 l2 q1 q2 g1 g2 ts1 ts2 p1 p2 hout h1 hs1))

/-- **replay_returns_original.** A repeated request at an HRS already signed either is refused or returns the
ORIGINAL signature inside a vote whose signed content (sign-bytes, hence timestamp) is the original's. -/
theorem replay_returns_original (evs : List Ev) (l1 l2 : List (Req × Outcome)) (q1 q2 : Req) (o2 : Outcome) (g1 : Sig) (ts1 : String) (p1 : Bytes)
    (hout : (run St.init evs).out = l1 ++ (q2, o2) :: l2)
    (h1 : (q1, Outcome.released g1 ts1 p1) ∈ l2) (hs1 : q1.save = true) (hs2 : q2.save = true) (hsame : q1.hrs = q2.hrs) :
    (∃ ts2, o2 = .released g1 ts2 p1) ∨ (∃ code, o2 = .refused code) ∨ o2 = .panicked := by
  cases o2 with
  | refused code => exact Or.inr (Or.inl ⟨code, rfl⟩)
  | panicked => exact Or.inr (Or.inr rfl)
  | released g2 ts2 p2 =>
    have hh := (inv_reachable evs).hist
    rw [hout] at hh
    have := ((histOK_split hh).1 g2 ts2 p2 rfl _ h1 g1 ts1 p1 rfl hs1).2 hs2 hsame
    exact Or.inl ⟨ts2, by rw [this.1, this.2]⟩

/-- every signature handed out signs exactly the content of the vote it is handed out in -/
theorem released_signature_signs_returned_vote (evs : List Ev) (q : Req) (g : Sig) (ts : String) (post : Bytes)
    (h : (q, Outcome.released g ts post) ∈ (run St.init evs).out) : post = g.msg :=
  ((inv_reachable evs).covers _ h g ts post rfl).1

/-- a micro-step either leaves the log alone or is the `release` step of the call in flight -/
theorem tick_out (s : St) : (tick s).out = s.out ∨ ∃ q o, s.pc = .release q o ∧ (tick s).out = (q, o) :: s.out ∧ (tick s).disk = s.disk := by
  unfold tick
  split
  all_goals try (left; rfl)
  · split <;> (left; rfl)
  · rename_i q o hq
    exact Or.inr ⟨q, o, hq, rfl, rfl⟩

/-- **persist_before_release.** At the moment an event hands a signature of a recording call to the caller,
the key file already records that HRS with exactly that signature and its sign-bytes (and the event itself does
not touch the file). -/
theorem persist_before_release (evs : List Ev) (e : Ev) (q : Req) (g : Sig) (ts : String) (post : Bytes)
    (hnew : (step (run St.init evs) e).out = (q, .released g ts post) :: (run St.init evs).out) (hs : q.save = true) :
    (run St.init evs).disk.hrs = q.hrs ∧ (run St.init evs).disk.sig = some g ∧
      (∃ p, (run St.init evs).disk.sb = some p ∧ p.bytes = g.msg) ∧ (step (run St.init evs) e).disk = (run St.init evs).disk := by
  generalize hs0 : run St.init evs = s at *
  have hi : Inv s := hs0 ▸ inv_reachable evs
  have hlen : (step s e).out.length = s.out.length + 1 := by rw [hnew]; simp
  cases e with
  | req q' => simp only [step] at hlen; split at hlen <;> simp at hlen
  | crash => simp [step] at hlen
  | tick =>
    simp only [step] at hnew hlen ⊢
    rcases tick_out s with h | ⟨q', o, hq, hout, hdisk⟩
    · rw [h] at hlen; simp at hlen
    · rw [hout] at hnew
      simp only [List.cons.injEq, Prod.mk.injEq, and_true] at hnew
      obtain ⟨rfl, rfl⟩ := hnew
      have hpc := hi.pc
      simp only [PcInv, hq] at hpc
      obtain ⟨_, _, _, hsave⟩ := hpc
      have ⟨h1, h2⟩ := hsave hs
      exact ⟨h1, h2, hi.recDisk.bytes_of_sig g h2, hdisk⟩

/-! ## the full statement, the interface-wide statement and its counterexample -/

/-- **C04 for the recording calls (SignVote, SignProposal)**: over all histories with crashes at any point,
after a recording release at HRS `x`: (a) nothing is signed at a lower HRS, (b) at `x` itself only the original
signature over the original content is ever handed out again, and (c) whenever a recording call hands out a
signature the key file already records it. -/
def C04_statement : Prop :=
  (∀ (evs : List Ev) (l1 l2 : List (Req × Outcome)) (q1 q2 : Req) (o2 : Outcome) (g1 : Sig) (ts1 : String) (p1 : Bytes),
    (run St.init evs).out = l1 ++ (q2, o2) :: l2 → (q1, Outcome.released g1 ts1 p1) ∈ l2 → q1.save = true →
      (HRS.lt q2.hrs q1.hrs → ∀ g2 ts2 p2, o2 ≠ .released g2 ts2 p2) ∧
      (q2.save = true → q1.hrs = q2.hrs → ∀ g2 ts2 p2, o2 = .released g2 ts2 p2 → g2 = g1 ∧ p2 = p1))
  ∧ (∀ (evs : List Ev) (e : Ev) (q : Req) (g : Sig) (ts : String) (post : Bytes),
      (step (run St.init evs) e).out = (q, .released g ts post) :: (run St.init evs).out → q.save = true →
      (run St.init evs).disk.hrs = q.hrs ∧ (run St.init evs).disk.sig = some g)

theorem C04_holds : C04_statement := by
  refine ⟨?_, ?_⟩
  · intro evs l1 l2 q1 q2 o2 g1 ts1 p1 hout h1 hs1
    refine ⟨fun hlow g2 ts2 p2 ho => ?_, fun hs2 hsame g2 ts2 p2 ho => ?_⟩
    · subst ho
      exact absurd hlow (HRS.not_lt_of_le (no_regression evs l1 l2 q1 q2 g1 g2 ts1 ts2 p1 p2 hout h1 hs1))
    · subst ho
      rcases replay_returns_original evs l1 l2 q1 q2 _ g1 ts1 p1 hout h1 hs1 hs2 hsame with ⟨ts, h⟩ | ⟨c, h⟩ | h
      · cases h; exact ⟨rfl, rfl⟩
      · cases h
      · cases h
  · intro evs e q g ts post hnew hs
    have := persist_before_release evs e q g ts post hnew hs
    exact ⟨this.1, this.2.1⟩

/-- the same demand on EVERY method of the signing interface, i.e. including `SignVoteWithoutSave`
(`save = false`): two releases at the same HRS carry the same signature -/
def C04_statement_full_interface : Prop :=
  ∀ (evs : List Ev) (l1 l2 : List (Req × Outcome)) (q1 q2 : Req) (g1 g2 : Sig) (ts1 ts2 : String) (p1 p2 : Bytes),
    (run St.init evs).out = l1 ++ (q2, .released g2 ts2 p2) :: l2 → (q1, Outcome.released g1 ts1 p1) ∈ l2 →
    q1.hrs = q2.hrs → g1 = g2

def exA (save : Bool) : Req := { hrs := ⟨5, 0, 2⟩, p := { bytes := [1], core := [10], ts := "t1" }, save := save }
def exB (save : Bool) : Req := { hrs := ⟨5, 0, 2⟩, p := { bytes := [2], core := [20], ts := "t1" }, save := save }
def ticks (n : Nat) : List Ev := List.replicate n Ev.tick

/-- **false of the current code**: `SignVoteWithoutSave` signs block A and then block B at the same HRS -/
theorem C04_full_interface_counterexample : ¬ C04_statement_full_interface := by
  intro h
  have := h ([.req (exA false)] ++ ticks 3 ++ [.req (exB false)] ++ ticks 3) [] [(exA false, .released ⟨[1]⟩ "t1" [1])]
    (exA false) (exB false) ⟨[1]⟩ ⟨[2]⟩ "t1" "t1" [1] [2] (by decide) (by simp) rfl
  exact absurd this (by decide)

/-- the strongest true statement: restricted to the recording calls it holds (`one_payload_per_hrs`), and
unrecorded calls in between do not disturb it; `Props.C04.signVoteWithoutSave_has_no_caller` keeps the
restriction honest for the node. -/
theorem C04_full_interface_partial (evs : List Ev) (l1 l2 : List (Req × Outcome)) (q1 q2 : Req) (g1 g2 : Sig) (ts1 ts2 : String) (p1 p2 : Bytes)
    (hout : (run St.init evs).out = l1 ++ (q2, .released g2 ts2 p2) :: l2) (h1 : (q1, Outcome.released g1 ts1 p1) ∈ l2)
    (hs1 : q1.save = true) (hs2 : q2.save = true) (hsame : q1.hrs = q2.hrs) : g1 = g2 :=
  (one_payload_per_hrs evs l1 l2 q1 q2 g1 g2 ts1 ts2 p1 p2 hout h1 hs1 hs2 hsame).1

/-! ## non-vacuity: crashes inside a call -/

/-- crash between `sign` and `rename` (the process dies at the entry of rename): nothing was released and
nothing is recorded, so a different block at the same HRS is signed afterwards -/
example : (run St.init ([.req (exA true)] ++ ticks 6 ++ [.crash, .req (exB true)] ++ ticks 10)).out
    = [(exB true, .released ⟨[2]⟩ "t1" [2])] := by decide

/-- crash right after `rename` (before the signature is handed out): the record is on disk, so the different
block is refused ("Conflicting data"), and the original request gets the persisted signature -/
example : (run St.init ([.req (exA true)] ++ ticks 7 ++ [.crash, .req (exB true)] ++ ticks 2 ++ [.req (exA true)] ++ ticks 2)).out
    = [(exA true, .released ⟨[1]⟩ "t1" [1]), (exB true, .refused conflictCode)] := by decide

/-- the hypotheses of the main theorems are satisfiable: a history with two releases at one HRS (replay with a
different timestamp returns the original content) and a refused lower request -/
example : (run St.init ([.req (exA true)] ++ ticks 10 ++
      [.req { exA true with p := { bytes := [3], core := [10], ts := "t2" } }] ++ ticks 2 ++
      [.req { exA true with hrs := ⟨4, 9, 3⟩ }] ++ ticks 2)).out
    = [({ exA true with hrs := ⟨4, 9, 3⟩ }, .refused 1),
       ({ exA true with p := { bytes := [3], core := [10], ts := "t2" } }, .released ⟨[1]⟩ "t1" [1]),
       (exA true, .released ⟨[1]⟩ "t1" [1])] := by decide

/-! ## progress and the driver's composite steps -/

/-- a well-formed recording request strictly above the record is served with a fresh signature over exactly the
submitted sign-bytes (no crash) -/
theorem fresh_request_served (s : St) (q : Req) (hidle : s.pc = .idle) (hlt : HRS.lt s.mem.hrs q.hrs) (hstep : q.hrs.s ≠ -1)
    (hsave : q.save = true) :
    (call s q).out = (q, .released ⟨q.p.bytes⟩ q.p.ts q.p.bytes) :: s.out ∧ (call s q).disk = recOf q ⟨q.p.bytes⟩ := by
  have hd : decideCall s.mem q = .sign q := by
    unfold decideCall
    rw [if_neg hstep, checkRec_fresh s.mem q.hrs hlt]
    simp
  simp [call, step, hidle, finish, tick, hd, hsave, recOf]

/-- the composite steps the driver executes (`finish`, `finishKill`) are event lists: everything the
correspondence run exercises is an instance of the histories the theorems quantify over -/
theorem finish_is_run (n : Nat) (s : St) : ∃ k, finish n s = run s (ticks k) := by
  induction n generalizing s with
  | zero => exact ⟨0, rfl⟩
  | succ n ih =>
    unfold finish
    split
    · exact ⟨0, rfl⟩
    · obtain ⟨k, hk⟩ := ih (tick s)
      exact ⟨k + 1, by rw [hk]; rfl⟩

theorem finishKill_is_run (name : String) (n fuel seen : Nat) (s : St) :
    ∃ evs, (finishKill name n fuel seen s).1 = run s evs := by
  induction fuel generalizing s seen with
  | zero => exact ⟨[], rfl⟩
  | succ fuel ih =>
    unfold finishKill
    split
    · exact ⟨[], rfl⟩
    · split
      · split
        · exact ⟨[.crash], rfl⟩
        · obtain ⟨evs, h⟩ := ih (seen + 1) (tick s)
          exact ⟨.tick :: evs, by rw [h]; rfl⟩
      · obtain ⟨evs, h⟩ := ih seen (tick s)
        exact ⟨.tick :: evs, by rw [h]; rfl⟩

end Props.C04
