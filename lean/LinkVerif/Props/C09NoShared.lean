/-
C09, part 6: with a `deepCopy` that clones the Tokens map (the tree since fix 9e64f31, `cfg.cloneTokens = true`) NO token map
is ever shared.  `NS` (no live object and no object remembered by a `resetObjectChange` holds a shared cell) is preserved by
EVERY operation of a state — all mutators, Snapshot, RevertToSnapshot, Finalise, Commit, Copy — and under `NS` no operation
writes the heap (`step_ns`, `finalise_ns`, `commit_ns`, `copy_ns`).
-/
import LinkVerif.Props.C09Copy

namespace Props.C09
open Model.StateDB

def Inl (o : Obj) : Prop := ∃ m, o.toks = .inl m

/-- objects remembered by `resetObjectChange` entries hold private maps -/
def PrevOK (j : List Entry) : Prop := ∀ a p, Entry.resetObject a p ∈ j → Inl p

/-- no shared token-map cell anywhere in the state -/
def NS (s : State) : Prop := NSo s ∧ PrevOK s.journal

theorem NS_empty : NS State.empty :=
  ⟨fun a o h => by simp [State.empty] at h, fun a p h => by simp [State.empty] at h⟩

theorem NS_putObj {c : Ctx} (hn : NS c.st) (a : Addr) (o : Obj) (ho : Inl o) : NS (putObj c a o).st :=
  ⟨NSo_putObj hn.1 a o ho, hn.2⟩

theorem PrevOK_cons {j : List Entry} (hj : PrevOK j) (e : Entry) (he : ∀ a p, e = .resetObject a p → Inl p) : PrevOK (e :: j) := by
  intro a p hm
  rcases List.mem_cons.mp hm with h | h
  · exact he a p h.symm
  · exact hj a p h

theorem NS_push {c : Ctx} (hn : NS c.st) (e : Entry) (he : ∀ a p, e = .resetObject a p → Inl p) : NS (push c e).st :=
  ⟨hn.1, PrevOK_cons hn.2 e he⟩

/-- heap untouched, still no shared cell -/
def Fn (c c' : Ctx) : Prop := c'.heap = c.heap ∧ NS c'.st

theorem Fn.trans {c c' c'' : Ctx} (h1 : Fn c c') (h2 : Fn c' c'') : Fn c c'' := ⟨h2.1.trans h1.1, h2.2⟩

theorem Inl_of_toks {o o' : Obj} (h : o'.toks = o.toks) (ho : Inl o) : Inl o' := by
  obtain ⟨m, hm⟩ := ho; exact ⟨m, h.trans hm⟩

/-- one journalled field update of an object whose map is private -/
theorem field_fn {c : Ctx} (hn : NS c.st) (a : Addr) (o : Obj) (e : Entry) (he : ∀ a p, e = .resetObject a p → Inl p) (ho : Inl o) :
    Fn c (putObj (push c e) a o) := ⟨rfl, NS_putObj (NS_push hn e he) a o ho⟩

theorem ensure_fn (c : Ctx) (a : Addr) (hn : NS c.st) :
    Fn c (ensure c a).1 ∧ peek (ensure c a).1.st a = some (ensure c a).2 ∧ Inl (ensure c a).2 := by
  unfold ensure
  cases h : peek c.st a with
  | some o => exact ⟨⟨rfl, NS_putObj hn a o (NSo_peek hn.1 h)⟩, by simp [peek_not_deleted h], NSo_peek hn.1 h⟩
  | none =>
    have : (createObject c a).1 = putObj (push c (.createObject a)) a freshObj := by simp [createObject, h]
    simp only [this]
    exact ⟨field_fn hn a freshObj _ (fun _ _ h => by cases h) ⟨_, rfl⟩, by simp [freshObj], ⟨_, rfl⟩⟩

theorem setBalance_fn (c : Ctx) (a : Addr) (o : Obj) (v : Int) (hn : NS c.st) (ho : Inl o) : Fn c (setBalance c a o v) := by
  simp only [setBalance, setCredits]
  have h1 : Fn c (putObj (push c (.credits a o.credits)) a { o with credits := o.credits + 1 }) :=
    field_fn hn a _ (.credits a o.credits) (fun _ _ h => by cases h) (Inl_of_toks rfl ho)
  exact h1.trans (field_fn h1.2 a _ (.balance a o.balance) (fun _ _ h => by cases h) (Inl_of_toks rfl ho))

theorem touchIfEmpty_fn (c : Ctx) (a : Addr) (o : Obj) (hn : NS c.st) : Fn c (touchIfEmpty c a o) := by
  unfold touchIfEmpty; split
  · exact ⟨rfl, NS_push hn _ (fun _ _ h => by cases h)⟩
  · exact ⟨rfl, hn⟩

theorem zeroInsert_fn (cfg : Cfg) (c : Ctx) (a : Addr) (o : Obj) (t : Tok) (hn : NS c.st) (ho : Inl o) :
    Fn c (zeroInsert cfg c a o t).1 ∧ Inl (zeroInsert cfg c a o t).2 := by
  obtain ⟨m, hm⟩ := ho
  unfold zeroInsert
  split
  · obtain ⟨h1, h2⟩ := writeTok_inl c.heap o m t (some 0) hm
    exact ⟨⟨by simp [h1], NS_putObj (c := { c with heap := _ }) hn a _ h2⟩, h2⟩
  · exact ⟨⟨rfl, hn⟩, ⟨m, hm⟩⟩

theorem setTokenBalance_fn (cfg : Cfg) (c : Ctx) (a : Addr) (o : Obj) (t : Tok) (v : Int) (hn : NS c.st) (ho : Inl o) :
    Fn c (setTokenBalance cfg c a o t v) := by
  unfold setTokenBalance
  split
  · exact setBalance_fn c a o v hn ho
  · obtain ⟨⟨hh, hn0⟩, m0, hm0⟩ := zeroInsert_fn cfg c a o t hn ho
    simp only [setCredits]
    have ho1 : ({ (zeroInsert cfg c a o t).2 with credits := (zeroInsert cfg c a o t).2.credits + 1 } : Obj).toks = .inl m0 := hm0
    obtain ⟨h1, h2⟩ := writeTok_inl (zeroInsert cfg c a o t).1.heap _ m0 t (some v) ho1
    have hn1 := (field_fn hn0 a _ (.credits a (zeroInsert cfg c a o t).2.credits) (fun _ _ h => by cases h) ⟨m0, ho1⟩).2
    refine ⟨?_, ?_⟩
    · simp only [heap_putObj]; exact h1.trans hh
    · exact NS_putObj (c := { push _ _ with heap := _ }) (NS_push hn1 _ (fun _ _ h => by cases h)) a _ h2

/-- **every mutator**: no heap write, no shared cell created (any `cfg`) -/
theorem applyOp_fn (cfg : Cfg) (c : Ctx) (op : Op) (hn : NS c.st) : Fn c (applyOp cfg c op) := by
  cases op with
  | addBal a v =>
    obtain ⟨h1, _, h3⟩ := ensure_fn c a hn
    simp only [applyOp]; split
    · exact h1.trans (touchIfEmpty_fn _ a _ h1.2)
    · exact h1.trans (setBalance_fn _ a _ _ h1.2 h3)
  | subBal a v =>
    obtain ⟨h1, _, h3⟩ := ensure_fn c a hn
    simp only [applyOp]; split
    · exact h1
    · exact h1.trans (setBalance_fn _ a _ _ h1.2 h3)
  | setBal a v =>
    obtain ⟨h1, _, h3⟩ := ensure_fn c a hn
    exact h1.trans (setBalance_fn _ a _ _ h1.2 h3)
  | addTok a t v =>
    obtain ⟨h1, _, h3⟩ := ensure_fn c a hn
    simp only [applyOp]; split
    · exact h1.trans (touchIfEmpty_fn _ a _ h1.2)
    · exact h1.trans (setTokenBalance_fn cfg _ a _ t _ h1.2 h3)
  | subTok a t v =>
    obtain ⟨h1, _, h3⟩ := ensure_fn c a hn
    simp only [applyOp]; split
    · exact h1
    · exact h1.trans (setTokenBalance_fn cfg _ a _ t _ h1.2 h3)
  | setTok a t v =>
    obtain ⟨h1, _, h3⟩ := ensure_fn c a hn
    exact h1.trans (setTokenBalance_fn cfg _ a _ t _ h1.2 h3)
  | setNonce a n =>
    obtain ⟨h1, _, h3⟩ := ensure_fn c a hn
    exact h1.trans (field_fn h1.2 a _ _ (fun _ _ h => by cases h) (Inl_of_toks rfl h3))
  | setCode a code =>
    obtain ⟨h1, _, h3⟩ := ensure_fn c a hn
    exact h1.trans (field_fn h1.2 a _ _ (fun _ _ h => by cases h) (Inl_of_toks rfl h3))
  | setState a k v =>
    obtain ⟨h1, _, h3⟩ := ensure_fn c a hn
    simp only [applyOp]; split
    · exact h1
    · exact h1.trans (field_fn h1.2 a _ _ (fun _ _ h => by cases h) (Inl_of_toks rfl h3))
  | create a =>
    simp only [applyOp, createObject]
    cases h : peek c.st a with
    | none => exact field_fn hn a freshObj _ (fun _ _ h => by cases h) ⟨_, rfl⟩
    | some p =>
      have hp := NSo_peek hn.1 h
      simp only [putObj_putObj]
      exact field_fn hn a _ (.resetObject a p) (fun _ _ h => by cases h; exact hp) ⟨_, rfl⟩
  | suicide a =>
    simp only [applyOp]
    cases h : peek c.st a with
    | none => exact ⟨rfl, hn⟩
    | some o => exact field_fn hn a _ _ (fun _ _ h => by cases h) ⟨_, rfl⟩
  | addLog d => exact ⟨rfl, hn.1, PrevOK_cons hn.2 _ (fun _ _ h => by cases h)⟩
  | addRefund g => exact ⟨rfl, hn.1, PrevOK_cons hn.2 _ (fun _ _ h => by cases h)⟩
  | subRefund g => exact ⟨rfl, hn.1, PrevOK_cons hn.2 _ (fun _ _ h => by cases h)⟩
  | prepare x i => exact ⟨rfl, hn⟩
  | setCredits a n =>
    obtain ⟨h1, _, h3⟩ := ensure_fn c a hn
    exact h1.trans (field_fn h1.2 a _ _ (fun _ _ h => by cases h) (Inl_of_toks rfl h3))
  | addPreimage p d =>
    simp only [applyOp]
    split
    · exact ⟨rfl, hn⟩
    · exact ⟨rfl, hn.1, PrevOK_cons hn.2 _ (fun _ _ h => by cases h)⟩

/-! ### undo and revert -/

theorem modObj_fn (c : Ctx) (a : Addr) (f : Obj → Obj) (hf : ∀ o, (f o).toks = o.toks) (hn : NSo c.st) :
    (modObj c a f).heap = c.heap ∧ NSo (modObj c a f).st ∧ (modObj c a f).st.journal = c.st.journal := by
  unfold modObj
  cases h : peek c.st a with
  | none => exact ⟨rfl, hn, rfl⟩
  | some o => exact ⟨rfl, NSo_putObj hn a _ (Inl_of_toks (hf o) (NSo_peek hn h)), rfl⟩

theorem modTok_fn (c : Ctx) (a : Addr) (t : Tok) (v : Option Int) (hn : NSo c.st) :
    (modTok c a t v).heap = c.heap ∧ NSo (modTok c a t v).st ∧ (modTok c a t v).st.journal = c.st.journal := by
  unfold modTok
  cases h : peek c.st a with
  | none => exact ⟨rfl, hn, rfl⟩
  | some o =>
    obtain ⟨m, hm⟩ := NSo_peek hn h
    obtain ⟨h1, h2⟩ := writeTok_inl c.heap o m t v hm
    exact ⟨by simp [h1], NSo_putObj (c := { c with heap := _ }) hn a _ h2, rfl⟩

theorem restoreToks_fn (c : Ctx) (a : Addr) (pos : Tok → Option Int) (hn : NSo c.st) :
    (restoreToks c a pos).heap = c.heap ∧ NSo (restoreToks c a pos).st ∧ (restoreToks c a pos).st.journal = c.st.journal := by
  unfold restoreToks
  cases h : peek c.st a with
  | none => exact ⟨rfl, hn, rfl⟩
  | some o =>
    obtain ⟨m, hm⟩ := NSo_peek hn h
    simp only []
    split
    · exact ⟨rfl, NSo_putObj hn a _ ⟨_, rfl⟩, rfl⟩
    · next r hr => rw [hr] at hm; cases hm

/-- undoing an entry of a journal that satisfies `PrevOK`: no heap write, no shared cell, journal untouched -/
theorem undo_fn (e : Entry) (c : Ctx) (hn : NSo c.st) (he : ∀ a p, e = .resetObject a p → Inl p) :
    (undo e c).heap = c.heap ∧ NSo (undo e c).st ∧ (undo e c).st.journal = c.st.journal := by
  cases e with
  | createObject a =>
    refine ⟨rfl, ?_, rfl⟩
    intro b o hb
    by_cases hba : b = a
    · subst hba; simp [undo] at hb
    · simp [undo, hba] at hb; exact hn b o hb
  | resetObject a prev => exact ⟨rfl, NSo_putObj hn a _ (Inl_of_toks rfl (he a prev rfl)), rfl⟩
  | suicide a prev bp tp =>
    simp only [undo]
    obtain ⟨h1, h2, h3⟩ := modObj_fn c a (fun o => { o with suicided := prev, balance := bp.getD o.balance }) (fun _ => rfl) hn
    obtain ⟨h4, h5, h6⟩ := restoreToks_fn _ a tp h2
    exact ⟨h4.trans h1, h5, h6.trans h3⟩
  | balance a prev => exact modObj_fn c a _ (fun _ => rfl) hn
  | nonce a prev => exact modObj_fn c a _ (fun _ => rfl) hn
  | credits a prev => exact modObj_fn c a _ (fun _ => rfl) hn
  | storage a k prev => exact modObj_fn c a _ (fun _ => rfl) hn
  | code a prev => exact modObj_fn c a _ (fun _ => rfl) hn
  | refund prev => exact ⟨rfl, hn, rfl⟩
  | addLog tx => exact ⟨rfl, hn, rfl⟩
  | touch a => exact ⟨rfl, hn, rfl⟩
  | addPreimage p => exact ⟨rfl, hn, rfl⟩
  | tokenBalance a t prev => exact modTok_fn c a t prev hn

theorem revertJournal_fn (n : Nat) (l : List Entry) (c : Ctx) (hn : NSo c.st) (hl : PrevOK l) :
    (revertJournal n l c).heap = c.heap ∧ NS (revertJournal n l c).st := by
  induction l generalizing c with
  | nil => exact ⟨rfl, hn, fun a p h => by cases h⟩
  | cons e rest ih =>
    simp only [revertJournal]
    split
    · exact ⟨rfl, hn, hl⟩
    · obtain ⟨h1, h2, _⟩ := undo_fn e c hn (fun a p h => hl a p (by simp [h]))
      obtain ⟨h3, h4⟩ := ih (undo e c) h2 (fun a p h => hl a p (List.mem_cons_of_mem _ h))
      exact ⟨h3.trans h1, h4⟩

/-- **every step of a history** (mutator, Snapshot, RevertToSnapshot — valid or panicking) -/
theorem step_ns (cfg : Cfg) (c : Ctx) (s : Step) (hn : NS c.st) : Fn c (stepCtx cfg c s) := by
  cases s with
  | op o => exact applyOp_fn cfg c o hn
  | snap => exact ⟨rfl, hn⟩
  | revert id =>
    simp only [stepCtx, revertTo]
    cases hf : findRev id c.st.revs with
    | none => exact ⟨rfl, hn⟩
    | some p =>
      obtain ⟨h1, h2⟩ := revertJournal_fn p.1 c.st.journal c hn.1 hn.2
      exact ⟨h1, h2⟩

theorem run_ns (cfg : Cfg) (steps : List Step) : ∀ c, NS c.st → Fn c (run cfg c steps) := by
  induction steps with
  | nil => intro c hn; exact ⟨rfl, hn⟩
  | cons s rest ih =>
    intro c hn
    have h1 := step_ns cfg c s hn
    exact h1.trans (ih _ h1.2)

/-! ### Finalise, Commit -/

theorem updateTrie_toks (o : Obj) : (updateTrie o).toks = o.toks := by
  unfold updateTrie
  suffices h : ∀ (l : List Key) (acc : Obj), acc.toks = o.toks →
      (l.foldl (fun (acc : Obj) k =>
        match o.dirty k with
        | none => acc
        | some v =>
          if v = committed o k then acc
          else { acc with origin := upd acc.origin k (some v),
                          strie := if v.isEmpty then upd acc.strie k none else upd acc.strie k (some (trimLeft v)) }) acc).toks = o.toks by
    exact h keyU o rfl
  intro l
  induction l with
  | nil => intro acc h; exact h
  | cons k rest ih =>
    intro acc h
    simp only [List.foldl_cons]
    apply ih
    split
    · exact h
    · split
      · exact h
      · exact h

theorem NSo_objs_upd {s s' : State} (hn : NSo s) (a : Addr) (o : Obj) (ho : Inl o) (h : s'.objs = upd s.objs a (some o)) : NSo s' := by
  intro b o' hb
  rw [h] at hb
  by_cases hba : b = a
  · subst hba; simp at hb; subst hb; exact ho
  · simp [hba] at hb; exact hn b o' hb

theorem foldl_inv {α β : Type} (P : β → Prop) (f : β → α → β) (l : List α) (b : β) (hb : P b)
    (hf : ∀ b a, P b → P (f b a)) : P (l.foldl f b) := by
  induction l generalizing b with
  | nil => exact hb
  | cons a rest ih => exact ih _ (hf b a hb)

theorem NSo_clearJournal {s : State} (h : NSo s) : NSo (clearJournal s) := fun a o ho => h a o ho

theorem finalise_ns (del : Bool) (c : Ctx) (hn : NS c.st) : Fn c (finalise del c) := by
  refine ⟨rfl, ?_, fun a p h => by simp [finalise, clearJournal] at h⟩
  unfold finalise
  apply NSo_clearJournal
  apply foldl_inv NSo _ _ _ hn.1
  intro s a h
  dsimp only
  split
  · cases ho : c.st.objs a with
    | none => exact h
    | some o =>
      have hi := hn.1 a o ho
      dsimp only
      split
      · exact NSo_objs_upd h a { o with deleted := true } (Inl_of_toks rfl hi) rfl
      · exact NSo_objs_upd h a (updateTrie o) (Inl_of_toks (updateTrie_toks o) hi) rfl
  · exact h

theorem commit_ns (del : Bool) (c : Ctx) (hn : NS c.st) : Fn c (commit del c) := by
  refine ⟨rfl, ?_, fun a p h => by simp [commit, clearJournal] at h⟩
  unfold commit
  apply NSo_clearJournal
  apply foldl_inv NSo _ _ _ hn.1
  intro s a h
  dsimp only
  cases ho : c.st.objs a with
  | none => exact h
  | some o =>
    have hi := hn.1 a o ho
    dsimp only
    split
    · exact NSo_objs_upd h a { o with deleted := true } (Inl_of_toks rfl hi) rfl
    · split
      · exact NSo_objs_upd h a (updateTrie o) (Inl_of_toks (updateTrie_toks o) hi) rfl
      · exact fun b o' hb => h b o' hb

/-! ### Copy -/

theorem copy_journal (cfg : Cfg) (c : Ctx) : (copy cfg c).2.journal = [] := by
  unfold copy
  suffices h : ∀ (l : List Addr) (init : Ctx × State), init.2.journal = [] →
      (l.foldl (fun (acc : Ctx × State) a =>
        let (c1, n) := acc
        if isDirtyJ c.st a || c.st.objsDirty a then
          match c1.st.objs a with
          | none => acc
          | some o =>
            let (h, nr, o1, o2) := deepCopy cfg c1.heap c1.nextRef o
            (putObj { c1 with heap := h, nextRef := nr } a o1,
             { n with objs := upd n.objs a (some o2), objsDirty := upd n.objsDirty a true })
        else acc) init).2.journal = [] by
    exact h addrU _ rfl
  intro l
  induction l with
  | nil => intro init h; exact h
  | cons a rest ih =>
    intro init h
    simp only [List.foldl_cons]
    apply ih
    obtain ⟨c1, n⟩ := init
    simp only at h ⊢
    split
    · split
      · exact h
      · exact h
    · exact h

/-- **Copy with the cloning `deepCopy`**: the original context is untouched (heap included) and the copy holds no shared cell -/
theorem copy_ns (cfg : Cfg) (hc : cfg.cloneTokens = true) (c : Ctx) : (copy cfg c).1 = c ∧ NS (copy cfg c).2 := by
  obtain ⟨h1, h2⟩ := copy_repaired_noShared cfg hc c
  exact ⟨h1, h2, by rw [copy_journal]; exact fun a p h => by simp at h⟩

end Props.C09
