import LinkVerif.Gen.C07Facts

/-!
# C07 / C06 — structural facts of `(*UTXOTransaction).checkTxSemantic`, regenerated from the code (extract/jobs_c07.go)

The key-image DOMAIN check — `ringct.ScalarmultKey(input.KeyImage, ringct.CurveOrder())` must be the identity — is what makes
"one confidential output ↔ one key image" true: without it the torsion twins `KI + T` of a spent image would pass as fresh
images.  With the stub library the test is behaviourally vacuous (scalars are reduced mod l), so no run can see it; this
clause of C07 is tied by these facts ONLY.  The same holds for the duplicate-ring-member test (the harness builds rings of
size 1).  The account-input test (at least one commitment unit AND a whole number of units, C06) is pinned here and also
exercised behaviourally (`ain … rem=`).
-/
namespace Props.C07Struct
open Gen.C07Facts

/-- for every confidential input the subgroup multiplication `ScalarmultKey(input.KeyImage, CurveOrder())` is computed -/
theorem ki_subgroup_call : ("ScalarmultKey", ["input.KeyImage", "ringct.CurveOrder()"]) ∈ utxoInputRingctCalls := by decide

/-- it is the only ringct computation on the key image in that clause besides `CurveOrder()` and `Identity()` (no cofactor-8
multiplication or other substitute) -/
theorem ki_ringct_calls_exact :
    utxoInputRingctCalls = [("ScalarmultKey", ["input.KeyImage", "ringct.CurveOrder()"]), ("CurveOrder", []), ("Identity", [])] := by decide

/-- its result is compared with `ringct.Identity()` by `!=`, and inequality returns ErrCheckKeyImageInvalid -/
theorem ki_subgroup_guard : (subgroupResultVar ++ " != ringct.Identity()", "ErrCheckKeyImageInvalid") ∈ utxoInputGuards := by decide

/-- the error of the multiplication is returned -/
theorem ki_call_error_returned : ("err != nil", "err") ∈ utxoInputGuards := by decide

/-- the guards of the confidential-input clause, exactly and in this order: duplicate key image inside the transaction,
duplicate ring member (a relative offset 0 after the first), error of the multiplication, key image outside the prime-order subgroup -/
theorem utxo_input_guards_exact :
    utxoInputGuards =
      [("ki[input.KeyImage]", "ErrCheckDupKeyImage"), ("input.KeyOffset[n] == 0", "ErrCheckDupRingMember"),
       ("err != nil", "err"), ("retKey != ringct.Identity()", "ErrCheckKeyImageInvalid")] := by decide

set_option maxRecDepth 8192 in
/-- the account input of a confidential transaction: missing, below one commitment unit, OR not a whole number of units is refused -/
theorem account_input_unit_guard :
    ("input.Amount == nil || input.Amount.Cmp(big.NewInt(utxoRate)) < 0 || big.NewInt(0).Mod(input.Amount, big.NewInt(utxoRate)).Sign() != 0",
      "ErrMoneyInvalid") ∈ accountInputGuards := by decide

/-- at most one account input -/
theorem account_input_single : ("(kind & Ain) == Ain", "ErrAccountInputSizeNotExpect") ∈ accountInputGuards := by decide

/-- the checks of `CheckBasic` in source order: the semantic check (with the key-image domain test) comes first, before the
commitment equation, the signature data, the range proof and the ring signatures (`checkTxInputKeys`) -/
theorem semantic_check_first :
    checkBasicCalls.filter (fun c => c ∈ ["checkTxSemantic", "checkCommitEqual", "checkRctSigData", "VerifyProofSemantic", "checkTxInputKeys"]) =
      ["checkTxSemantic", "checkCommitEqual", "checkRctSigData", "VerifyProofSemantic", "checkTxInputKeys"] := by decide

end Props.C07Struct
