import LinkVerif.Model.Ticker
/-
The ticker's side of `WellTimed` (consensus/ticker.go, model Model.Ticker; tie: the REAL timeoutTicker is driven with bursts and
single schedules through the hooks VerifSchedule / VerifAwaitTock, op `tick` of the C01 harness).
-/
namespace Props.C01Ticker
open Model.Ticker

theorem le_refl (a : TI) : le a a := by
  unfold le; right; exact ⟨rfl, Or.inr ⟨rfl, Nat.le_refl _⟩⟩

theorem le_trans {a b c : TI} (h1 : le a b) (h2 : le b c) : le a c := by
  unfold le at *
  rcases h1 with h1 | ⟨e1, h1⟩ <;> rcases h2 with h2 | ⟨e2, h2⟩
  · left; omega
  · left; omega
  · left; omega
  · right; refine ⟨by omega, ?_⟩
    rcases h1 with h1 | ⟨f1, h1⟩ <;> rcases h2 with h2 | ⟨f2, h2⟩
    · left; omega
    · left; omega
    · left; omega
    · right; exact ⟨by omega, by omega⟩

/-- a schedule that is not stale is for the same or a later height/round/step -/
theorem not_stale_le {ti n : TI} (h : stale ti n = false) : le ti n := by
  simp only [stale, Bool.or_eq_false_iff, Bool.and_eq_false_iff, decide_eq_false_iff_not, decide_eq_true_eq] at h
  unfold le
  obtain ⟨h1, h2⟩ := h
  by_cases e : n.h = ti.h
  · right; refine ⟨e.symm, ?_⟩
    rcases h2 with h2 | ⟨h2, h3⟩
    · exact absurd e h2
    · by_cases f : n.r = ti.r
      · right; refine ⟨f.symm, ?_⟩
        rcases h3 with h3 | h3
        · exact absurd f h3
        · omega
      · left; omega
  · left; omega

/-- the pending timeout never moves backwards -/
theorem sched_mono (ti n : TI) : le ti (sched ti n) := by
  unfold sched
  by_cases h : stale ti n
  · simp [h]; exact le_refl _
  · simp [h]; exact not_stale_le (by simpa using h)

/-- the pending timeout is the old one or the newly scheduled one: the ticker invents nothing -/
theorem sched_mem (ti n : TI) : sched ti n = ti ∨ sched ti n = n := by
  unfold sched; by_cases h : stale ti n <;> simp [h]

theorem pending_mono (ti : TI) (ns : List TI) : le ti (pending ti ns) := by
  unfold pending
  induction ns generalizing ti with
  | nil => exact le_refl _
  | cons n ns ih => exact le_trans (sched_mono ti n) (ih (sched ti n))

/-- after a burst the pending timeout is the initial one or one of the scheduled ones -/
theorem pending_mem (ti : TI) (ns : List TI) : pending ti ns = ti ∨ pending ti ns ∈ ns := by
  unfold pending
  induction ns generalizing ti with
  | nil => left; rfl
  | cons n ns ih =>
    rcases ih (sched ti n) with h | h
    · rcases sched_mem ti n with e | e
      · left; simpa [List.foldl, e] using h.trans e
      · right; simp [List.foldl]; left; exact h.trans e
    · right; simp [List.foldl]; right; exact h

/-- everything accepted was scheduled, in the order it was scheduled -/
theorem accepted_sublist (ti : TI) (ns : List TI) : (accepted ti ns).Sublist ns := by
  induction ns generalizing ti with
  | nil => simp [accepted]
  | cons n ns ih =>
    unfold accepted
    by_cases h : stale ti n
    · simp only [h, if_true]; exact (ih ti).cons n
    · simp only [h, Bool.false_eq_true, if_false]; exact (ih n).cons_cons n

/-- the accepted timeouts never go back in (height, round, step) — neither against the pending one nor among themselves:
what the ticker can hand the node is ordered as `WellTimed` assumes -/
theorem accepted_ordered (ti : TI) (ns : List TI) : (accepted ti ns).Pairwise le ∧ ∀ a ∈ accepted ti ns, le ti a := by
  induction ns generalizing ti with
  | nil => simp [accepted]
  | cons n ns ih =>
    unfold accepted
    by_cases h : stale ti n
    · simp only [h, if_true]; exact ih ti
    · simp only [h, Bool.false_eq_true, if_false]
      have hn := not_stale_le (ti := ti) (n := n) (by simpa using h)
      obtain ⟨c, hd⟩ := ih n
      refine ⟨List.pairwise_cons.mpr ⟨hd, c⟩, ?_⟩
      intro a ha
      rcases List.mem_cons.mp ha with e | e
      · exact e ▸ hn
      · exact le_trans hn (hd a e)

/-- the last accepted timeout is what is pending after the burst -/
theorem pending_eq_last (ti : TI) (ns : List TI) : pending ti ns = ((accepted ti ns).getLast?).getD ti := by
  unfold pending
  induction ns generalizing ti with
  | nil => simp [accepted]
  | cons n ns ih =>
    unfold accepted
    by_cases h : stale ti n
    · simp only [h, if_true, List.foldl, sched]; exact ih ti
    · simp only [h, Bool.false_eq_true, if_false, List.foldl, sched]
      rw [ih n]
      cases hacc : accepted n ns with
      | nil => simp
      | cons a as =>
        have : (a :: as).getLast? = some ((a :: as).getLast (by simp)) := List.getLast?_eq_some_getLast (by simp)
        simp [this]

/-- a stale schedule is for the same or an older height/round/step than the pending one -/
theorem stale_le {ti n : TI} (h : stale ti n = true) : le n ti := by
  simp only [stale, Bool.or_eq_true, Bool.and_eq_true, decide_eq_true_eq] at h
  unfold le
  rcases h with h | ⟨e, h | ⟨f, _, h⟩⟩
  · left; exact h
  · right; exact ⟨e, Or.inl h⟩
  · right; exact ⟨e, Or.inr ⟨f, h⟩⟩

/-- after a burst nothing that was scheduled is newer than the pending timeout: the burst fires its newest schedule -/
theorem pending_ge_all (ti : TI) (ns : List TI) : ∀ n ∈ ns, le n (pending ti ns) := by
  induction ns generalizing ti with
  | nil => simp
  | cons m ms ih =>
    intro n hn
    have hp : pending ti (m :: ms) = pending (sched ti m) ms := rfl
    rw [hp]
    rcases List.mem_cons.mp hn with e | e
    · subst e
      refine le_trans ?_ (pending_mono (sched ti n) ms)
      unfold sched
      by_cases h : stale ti n
      · simp only [h, if_true]; exact stale_le h
      · simp only [h, Bool.false_eq_true, if_false]; exact le_refl _
    · exact ih (sched ti m) n e

/-- the zero value the routine starts from accepts every first schedule with a non-negative round -/
theorem first_accepted (n : TI) (hr : 0 ≤ n.r) : stale zero n = false := by
  have h0 : ¬ n.h < 0 := by omega
  have h1 : ¬ n.r < 0 := by omega
  simp [stale, zero, h1]

-- non-vacuity
example : accepted zero [⟨1, 0, 1⟩, ⟨1, 0, 3⟩, ⟨1, 0, 2⟩, ⟨1, 1, 1⟩, ⟨1, 0, 7⟩, ⟨2, 0, 1⟩] = [⟨1, 0, 1⟩, ⟨1, 0, 3⟩, ⟨1, 1, 1⟩, ⟨2, 0, 1⟩] := by decide
example : pending zero [⟨1, 0, 1⟩, ⟨1, 0, 3⟩, ⟨1, 0, 2⟩] = ⟨1, 0, 3⟩ := by decide
example : stale ⟨1, 0, 3⟩ ⟨1, 0, 3⟩ = true := by decide   -- the same step again does not re-arm the timer
example : stale ⟨1, 0, 0⟩ ⟨1, 0, 0⟩ = false := by decide  -- ... unless the pending step is 0

end Props.C01Ticker
