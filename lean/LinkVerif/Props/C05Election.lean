/-
C05, second part — what the application derives from the committed state at the end of a block is a function of that state
and of the block: the election of the next candidates, the bookkeeping between elections, the evidence fold, the bloom.
Model: `Model.Election` (differentially tested against the real election on every election of every generated chain: the
`elect` ops of the C05 harness).
-/
import LinkVerif.Model.Election

namespace Props.C05Election
open Model.Election

/-! ## the election is a function of the candidate SET -/

/-- the order the candidates contract lists its candidates in: ascending keys (a `std::set`); for the model, the stable merge
sort by a key -/
def canonical (k : Cand → Nat) (cs : List Cand) : List Cand := cs.mergeSort (fun x y => decide (k x ≤ k y))

theorem canonical_perm (k : Cand → Nat) {cs cs' : List Cand} (hk : ∀ a b, a ∈ cs → b ∈ cs → k a = k b → a = b)
    (h : cs.Perm cs') : canonical k cs = canonical k cs' := by
  unfold canonical
  have tr : ∀ a b c : Cand, decide (k a ≤ k b) = true → decide (k b ≤ k c) = true → decide (k a ≤ k c) = true := by
    intro a b c h₁ h₂; simp only [decide_eq_true_eq] at *; omega
  have tot : ∀ a b : Cand, (decide (k a ≤ k b) || decide (k b ≤ k a)) = true := by
    intro a b; simp only [Bool.or_eq_true, decide_eq_true_eq]; omega
  apply List.Perm.eq_of_pairwise (le := fun a b => decide (k a ≤ k b) = true)
  · intro a b ha hb hab hba
    simp only [decide_eq_true_eq] at hab hba
    have ha' : a ∈ cs := (List.mergeSort_perm cs _).mem_iff.mp ha
    have hb' : b ∈ cs := h.mem_iff.mpr ((List.mergeSort_perm cs' _).mem_iff.mp hb)
    exact hk a b ha' hb' (by omega)
  · exact List.pairwise_mergeSort tr tot cs
  · exact List.pairwise_mergeSort tr tot cs'
  · exact (List.mergeSort_perm cs _).trans (h.trans (List.mergeSort_perm cs' _).symm)

/-- C05, next candidates: for fixed rates, last-commit hash and float stream, the elected list depends on the SET of candidates
(keys distinct, as the contract's set guarantees), not on the order in which anything enumerated them -/
theorem elect_set_function (a b c : Nat) (hash : Bytes) (floats : List Nat) (k : Cand → Nat) {cs cs' : List Cand}
    (hk : ∀ x y, x ∈ cs → y ∈ cs → k x = k y → x = y) (h : cs.Perm cs') :
    elect a b c hash floats (canonical k cs) = elect a b c hash floats (canonical k cs') := by
  rw [canonical_perm k hk h]

/-! ## between elections, and the evidence fold -/

/-- `updateCandidatesbyOrder` outside election heights keeps the relative order of the candidates it keeps in front -/
theorem reorder_front (l : List InOrder) : (reorder l).take ((l.filter (fun v => v.produce > -threshold)).length) = l.filter (fun v => v.produce > -threshold) := by
  unfold reorder; simp

/-- a punished candidate (duplicate vote) leaves the list at the next block -/
theorem reorder_drops_punished (l : List InOrder) (v : InOrder) (hv : v ∈ reorder l) : v.produce ≠ punishThreshold ∨ v.produce > -threshold := by
  unfold reorder at hv
  simp only [List.mem_append, List.mem_filter, List.mem_map, decide_eq_true_eq] at hv
  rcases hv with h | ⟨w, _, rfl⟩
  · exact Or.inr h.2
  · left; simp [punishThreshold]

/-- the evidence of a block is applied in the order the block lists it: a fold, so the evidence of two blocks composes -/
theorem applyEvidence_append (m : Nat) (l : List InOrder) (e₁ e₂ : List Ev) :
    applyEvidence m l (e₁ ++ e₂) = applyEvidence m (applyEvidence m l e₁) e₂ := by
  unfold applyEvidence; rw [List.foldl_append]

/-- evidence never changes who is in the list nor the order -/
theorem applyEvidence_addrs (m : Nat) (evs : List Ev) : ∀ l : List InOrder, (applyEvidence m l evs).map (·.addr) = l.map (·.addr) := by
  have hupd : ∀ (l : List InOrder) (who : Bytes) (f : InOrder → InOrder), (∀ v, (f v).addr = v.addr) → (upd l who f).map (·.addr) = l.map (·.addr) := by
    intro l who f hf
    unfold upd
    rw [List.map_map]
    apply List.map_congr_left
    intro v _
    simp only [Function.comp]
    split <;> simp [hf]
  induction evs with
  | nil => intro l; rfl
  | cons e es ih =>
    intro l
    unfold applyEvidence at *
    rw [List.foldl_cons, ih]
    cases e with
    | dup who => exact hupd l who _ (fun v => rfl)
    | fault round p q =>
      unfold applyEv
      simp only
      split
      · rw [hupd _ q _ (by intro v; simp only [apply_ite InOrder.addr, ite_self])]
        exact hupd l p _ (by intro v; simp only [apply_ite InOrder.addr, ite_self])
      · exact hupd l p _ (by intro v; simp only [apply_ite InOrder.addr, ite_self])

/-! ## the bloom of a block does not depend on the order of its logs -/

theorem lor_right_comm (a b c : Nat) : (a ||| b) ||| c = (a ||| c) ||| b := by
  apply Nat.eq_of_testBit_eq
  intro i
  simp only [Nat.testBit_or]
  cases a.testBit i <;> cases b.testBit i <;> cases c.testBit i <;> rfl

theorem foldl_lor_perm {l₁ l₂ : List Nat} (h : l₁.Perm l₂) : ∀ z : Nat, l₁.foldl (· ||| ·) z = l₂.foldl (· ||| ·) z := by
  induction h with
  | nil => intro z; rfl
  | cons x _ ih => intro z; simp only [List.foldl_cons]; exact ih _
  | swap x y l => intro z; simp only [List.foldl_cons]; rw [lor_right_comm]
  | trans _ _ ih₁ ih₂ => intro z; rw [ih₁, ih₂]

/-- C05, bloom: `CreateBloom` is an OR over the logs of the receipts, so any enumeration order of the same logs gives the same
bloom (the receipt hash, in contrast, is DEFINED by the order of the receipts = the order of the block's transactions) -/
theorem bloom_perm {l₁ l₂ : List Nat} (h : l₁.Perm l₂) : bloomOf l₁ = bloomOf l₂ := foldl_lor_perm h 0

/-! ## non-vacuity -/
example : reorder [⟨[1], 0, 5⟩, ⟨[2], -3, 5⟩, ⟨[3], -10, 0⟩, ⟨[4], 1, 5⟩] = [⟨[1], 0, 5⟩, ⟨[4], 1, 5⟩, ⟨[2], 0, 5⟩] := by decide
example : applyEvidence 500 [⟨[1], 2, 5⟩, ⟨[2], -1, 5⟩] [.fault 1 [1] [2]] = [⟨[1], 0, 6⟩, ⟨[2], -2, 4⟩] := by decide
example : applyEvidence 500 [⟨[1], 2, 5⟩] [.dup [1]] = [⟨[1], -10, 0⟩] := by decide
example : bloomOf [1, 4, 2] = bloomOf [2, 1, 4] := bloom_perm (by decide)

end Props.C05Election
