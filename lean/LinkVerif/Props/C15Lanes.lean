import LinkVerif.Props.C15Cache

/-!
# C15 — part 7: the special lane, queue caps, eviction and timeouts (the removal steps around the core pool functions)

* `capAccount_inv`, `capAll_inv`, `evictAll_inv`: the per-account cap of `promoteExecutables` (RemoveFutureTx) and the
  eviction tick only remove queued entries: the pool invariant (hence every clause about what is OFFERED) is untouched —
  eviction cannot open a nonce gap in what is offered;
* `update_dropTimedOut_inv`: `filterTxs` dropping every pending transaction older than GoodTxDropTime, followed by the rest of
  Update, re-establishes the invariant;
* `specRecheck_run`: what `recheckSpecTxs` keeps in the special lane executes in order from the committed multi-sign nonce;
  `specRun_append_due`: appending the due nonce keeps the lane executable (admission);
* `reapS_nil`: with an empty special lane `Reap` is the two-lane `reap` all other theorems are about; `reapS_shape`: the lanes
  are offered in the order good ++ utxo ++ special, each as a prefix.
-/
namespace Props.C15
open Model.Ledger Model.Mempool

theorem capAccount_inv {p : Pool} (a k : Nat) (h : Inv p) : Inv (capAccount p a k) ∧ (capAccount p a k).good = p.good ∧
    (capAccount p a k).utxo = p.utxo ∧ (∀ e ∈ (capAccount p a k).fut, e ∈ p.fut) ∧
    (∀ e ∈ p.fut, e.t.from_ ≠ a → e ∈ (capAccount p a k).fut) := by
  unfold capAccount
  simp only []
  refine ⟨⟨h.path, h.gkind, fun e he => h.fkind e (List.mem_filter.mp he).1, h.ukind, h.imgs, h.nodup, h.fresh, h.good.1,
    fun e he => h.good.2 e (List.mem_filter.mp he).1⟩, trivial, trivial, fun e he => (List.mem_filter.mp he).1, ?_⟩
  intro e he hne
  refine List.mem_filter.mpr ⟨he, ?_⟩
  have : (e.t.from_ == a) = false := by simpa using hne
  simp [this]

theorem capAll_inv {p : Pool} (k : Nat) (h : Inv p) : ∀ n, Inv (capAll p k n) ∧ (capAll p k n).good = p.good ∧ (capAll p k n).utxo = p.utxo := by
  intro n
  induction n with
  | zero => exact ⟨h, rfl, rfl⟩
  | succ n ih =>
    unfold capAll
    have := capAccount_inv n k ih.1
    exact ⟨this.1, by rw [this.2.1, ih.2.1], by rw [this.2.2.1, ih.2.2]⟩

theorem evictAll_inv {p : Pool} (h : Inv p) : Inv (evictAll p) ∧ (evictAll p).good = p.good ∧ (evictAll p).utxo = p.utxo := by
  refine ⟨⟨h.path, h.gkind, ?_, h.ukind, h.imgs, h.nodup, h.fresh, h.good.1, ?_⟩, rfl, rfl⟩
  · intro e he; exact absurd he (List.not_mem_nil)
  · intro e he; exact absurd he (List.not_mem_nil)

/-- what is offered is untouched by the cap and by the eviction -/
theorem reap_capAll {p : Pool} (k n max : Nat) (h : Inv p) : reap (capAll p k n) max = reap p max := by
  have := capAll_inv k h n
  have hcfg : ∀ n, (capAll p k n).cfg = p.cfg := by
    intro n; induction n with
    | zero => rfl
    | succ n ih => unfold capAll capAccount; exact ih
  unfold reap
  rw [this.2.1, this.2.2, hcfg]

/-- Update from kinds and well-formedness alone (what `filterTxs`' timeout drop leaves intact) -/
theorem update_inv_of {p : Pool} (hg : ∀ e ∈ p.good, e.t.kind ≠ .uin ∧ GoodT e.t) (hu : ∀ e ∈ p.utxo, e.t.kind = .uin)
    (hf : ∀ e ∈ p.fut, e.t.kind ≠ .uin ∧ GoodT e.t) (c' : St) (ids : List Nat) : Inv (update p c' ids) := by
  unfold update promoteEvery
  simp only []
  have hp0 : Inv { p with c := c', acc := accOf c', imgs := [], good := [], utxo := [] } := by
    refine ⟨⟨accOf c', rfl, fun _ => rfl⟩, ?_, fun e he => (hf e he).1, ?_, rfl, List.nodup_nil, ?_, ⟨?_, fun e he => (hf e he).2⟩⟩ <;> simp
  have hex0 : Exact { p with c := c', acc := accOf c', imgs := [], good := [], utxo := [] } := rfl
  have h1 := recheckGood_inv (p.good.filter (fun e => !ids.contains e.id)) _ hp0 hex0
    (fun e he => hg e (List.mem_filter.mp he).1)
  have h2 := recheckUtxo_inv (p.utxo.filter (fun e => !ids.contains e.id)) _ h1.1
    (fun e he => hu e (List.mem_filter.mp he).1)
  exact (promoteAll_inv h2.1 _).1

/-- `filterTxs` with every pending transaction timed out, then the rest of Update: the invariant holds again -/
theorem update_dropTimedOut_inv {p : Pool} (h : Inv p) (c' : St) (ids : List Nat) : Inv (update (dropTimedOut p ids) c' ids) := by
  apply update_inv_of
  · intro e he; have := (List.mem_filter.mp he).1; exact ⟨h.gkind e this, h.good.1 e this⟩
  · intro e he; exact h.ukind e (List.mem_filter.mp he).1
  · intro e he; exact ⟨h.fkind e he, h.good.2 e he⟩

/-! ## the special lane -/

/-- what `recheckSpecTxs` keeps executes, in order, from the committed multi-sign nonce -/
theorem specRecheck_run : ∀ (l : List E) (n : Nat), specRun n ((specRecheck n l).1.map (·.t)) = some (specRecheck n l).2 := by
  intro l
  induction l with
  | nil => intro n; rfl
  | cons e r ih =>
    intro n
    unfold specRecheck
    split
    · rename_i hn
      simp only [List.map_cons]
      unfold specRun
      simp [hn, ih (n + 1)]
    · exact ih n

/-- admission to the lane: the due nonce extends an executable lane -/
theorem specRun_append_due : ∀ (l : List TxRec) (n m : Nat) (t : TxRec), specRun n l = some m → t.nonce = m →
    specRun n (l ++ [t]) = some (m + 1) := by
  intro l
  induction l with
  | nil => intro n m t h ht; simp [specRun] at h; subst h; simp [specRun, ht]
  | cons x r ih =>
    intro n m t h ht
    unfold specRun at h
    split at h
    · rename_i hx
      simp only [List.cons_append]
      unfold specRun
      simp [hx, ih (n + 1) m t h ht]
    · cases h

theorem specRun_take : ∀ (l : List TxRec) (n m k : Nat), specRun n l = some m → ∃ m', specRun n (l.take k) = some m' := by
  intro l
  induction l with
  | nil => intro n m k _; exact ⟨n, by simp [specRun]⟩
  | cons x r ih =>
    intro n m k h
    cases k with
    | zero => exact ⟨n, by simp [specRun]⟩
    | succ k =>
      unfold specRun at h
      split at h
      · rename_i hx
        obtain ⟨m', hm'⟩ := ih (n + 1) m k h
        exact ⟨m', by simp only [List.take_succ_cons]; unfold specRun; simp [hx, hm']⟩
      · cases h

theorem collect_nil (u m c : Nat) : collect u [] m c = [] := by unfold collect; rfl

/-- with an empty special lane `Reap` is the two-lane `reap` -/
theorem reapS_nil (p : Pool) (k max : Nat) : reapS p [] k max = reap p max := by
  unfold reapS reap
  split
  · rfl
  · simp [collect_nil]

/-- the lanes are offered in the order good ++ utxo ++ special, each as a prefix -/
theorem reapS_shape (p : Pool) (spec : List E) (ss max : Nat) :
    ∃ k j i, reapS p spec ss max = p.good.take k ++ p.utxo.take j ++ spec.take i := by
  unfold reapS
  split
  · exact ⟨0, 0, 0, by simp⟩
  · simp only []
    obtain ⟨j, hj⟩ := collect_prefix p.cfg.utxoSize p.utxo p.cfg.utxoSize 0
    obtain ⟨i, hi⟩ := collect_prefix p.cfg.utxoSize spec ss 0
    obtain ⟨k, hk⟩ := collect_prefix p.cfg.utxoSize p.good
      ((if max > p.cfg.maxReap then p.cfg.maxReap else max) - (collect p.cfg.utxoSize spec ss 0).length -
        (collect p.cfg.utxoSize p.utxo p.cfg.utxoSize 0).length) 0
    exact ⟨k, j, i, by rw [hk, hj, hi]⟩

/-- **the offered special lane executes**: if the lane is executable from the committed multi-sign nonce (true after every
admission — `specRun_append_due` — and after every Update — `specRecheck_run`), so is every prefix `Reap` takes of it -/
theorem reapS_lane_executes (p : Pool) (spec : List E) (ss max n m : Nat) (h : specRun n (spec.map (·.t)) = some m) :
    ∃ k j i m', reapS p spec ss max = p.good.take k ++ p.utxo.take j ++ spec.take i ∧ specRun n ((spec.take i).map (·.t)) = some m' := by
  obtain ⟨k, j, i, hs⟩ := reapS_shape p spec ss max
  obtain ⟨m', hm'⟩ := specRun_take _ n m i h
  exact ⟨k, j, i, m', hs, by rw [List.map_take]; exact hm'⟩

/-- non-vacuity: a lane with nonces 2, 3, 5 and committed nonce 2 keeps 2, 3 and drops 5 -/
example : ((specRecheck 2 [⟨0, { kind := .xfer, nonce := 2 }⟩, ⟨1, { kind := .xfer, nonce := 3 }⟩, ⟨2, { kind := .xfer, nonce := 5 }⟩]).1.map (·.id)) = [0, 1] ∧
    (specRecheck 2 [⟨0, { kind := .xfer, nonce := 2 }⟩, ⟨1, { kind := .xfer, nonce := 3 }⟩, ⟨2, { kind := .xfer, nonce := 5 }⟩]).2 = 4 := by decide

end Props.C15
