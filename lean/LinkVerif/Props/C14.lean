import LinkVerif.Model.Wal
import LinkVerif.Go.Crc32c
import LinkVerif.Gen.WalFacts

/-!
# C14 — the consensus write-ahead log replays what was written or reports corruption
-/
namespace Props.C14
open Model.Wal

/-! ## framing facts regenerated from the code -/

theorem facts_framing :
    Gen.WalFacts.encoderCrcThenLength = true ∧ Gen.WalFacts.decoderChecksLength = true ∧
    Gen.WalFacts.decoderChecksCrcBeforeDecode = true ∧ Gen.WalFacts.maxMsgSizeBytes < 4294967296 ∧
    0 < Gen.WalFacts.headBufSize := by decide

/-- regenerated fact (T2): `Group.RotateFile` calls `headBuf.Flush()` before `os.Rename` (fix ed188e7).  The driver runs
the model with `flushFirst = true`; the history theorems (`Props/C14Hist.lean`) are about that behaviour.  Reverting the
fix makes this obligation fail (and the correspondence diverge on every un-synced rotation). -/
theorem rotate_flushes_before_rename : Gen.WalFacts.rotateFlushesBeforeRename = true := by decide

/-! ## big-endian words -/

theorem be32_length (n : Nat) : (be32 n).length = 4 := rfl

theorem rd32_be32_append (n : Nat) (h : n < 4294967296) (t : Bytes) : rd32 (be32 n ++ t) = n := by
  simp [be32, rd32]
  omega

/-- what the code requires of a payload for the record to be readable back -/
structure Valid (c : Codec) (p : Bytes) : Prop where
  pos : 0 < p.length
  le : p.length ≤ c.maxMsg
  ok : c.ok p = true

/-- the checksum is a 32-bit value and the size bound fits the 32-bit length field -/
structure Bounded (c : Codec) : Prop where
  crc_lt : ∀ p, c.crc p < 4294967296
  max_lt : c.maxMsg < 4294967296

theorem frame_length (c : Codec) (p : Bytes) : (frame c p).length = 8 + p.length := by
  simp [frame, be32_length]; omega

theorem frame_eq (c : Codec) (p : Bytes) (r : Bytes) :
    frame c p ++ r = be32 (c.crc p) ++ (be32 p.length ++ (p ++ r)) := by
  simp [frame]

/-- reading back a whole record -/
theorem decode1_frame (c : Codec) (hb : Bounded c) (t : Tail) (p r : Bytes) (hv : Valid c p) :
    decode1 c t (frame c p ++ r) = (Res.msg p, r) := by
  have hlen : p.length < 4294967296 := Nat.lt_of_le_of_lt hv.le hb.max_lt
  have h1 : rd32 (frame c p ++ r) = c.crc p := by
    rw [frame_eq]; exact rd32_be32_append _ (hb.crc_lt p) _
  have h2 : (frame c p ++ r).drop 4 = be32 p.length ++ (p ++ r) := by
    rw [frame_eq]; simp [be32]
  have h3 : (frame c p ++ r).drop 8 = p ++ r := by
    rw [frame_eq]; simp [be32]
  have h4 : (frame c p ++ r).length = 8 + p.length + r.length := by
    simp [frame_length]
  have hpos := hv.pos
  have hle := hv.le
  have e1 : ¬ (8 + p.length + r.length < 4) := by omega
  have e2 : ¬ (8 + p.length + r.length < 8) := by omega
  have e3 : ¬ (p.length > c.maxMsg) := by omega
  have e4 : ¬ (p.length = 0) := by omega
  have e5 : ¬ ((p ++ r).length < p.length) := by simp
  simp only [decode1, h1, h2, h3, h4, rd32_be32_append _ hlen, e1, e2, e3, e4, e5, if_false]
  simp [hv.ok]

/-- terminal observed when a record is cut after `k` of its bytes (the log ends there) -/
def truncRes (k : Nat) : Res := if k < 4 then Res.eof else if k < 8 then Res.errLen else Res.errData

theorem take_frame_ge8 (c : Codec) (p : Bytes) (k : Nat) (hk : 8 ≤ k) :
    (frame c p).take k = be32 (c.crc p) ++ (be32 p.length ++ p.take (k - 8)) := by
  obtain ⟨j, rfl⟩ : ∃ j, k = j + 8 := ⟨k - 8, by omega⟩
  simp [frame, be32, List.take_succ_cons]

/-- reading a record that was cut at any of its byte offsets: never a message, never `corrupt`, nothing left -/
theorem decode1_trunc (c : Codec) (hb : Bounded c) (p : Bytes) (hv : Valid c p) (k : Nat)
    (hk : k < (frame c p).length) :
    decode1 c Tail.eof ((frame c p).take k) = (truncRes k, []) := by
  rw [frame_length] at hk
  have hL : ((frame c p).take k).length = k := by
    rw [List.length_take, frame_length]; omega
  by_cases h4 : k < 4
  · simp [decode1, hL, h4, truncRes]
  · by_cases h8 : k < 8
    · simp [decode1, hL, h4, h8, truncRes]
    · have hlen : p.length < 4294967296 := Nat.lt_of_le_of_lt hv.le hb.max_lt
      have hpos := hv.pos
      have hle := hv.le
      have hs := take_frame_ge8 c p k (by omega)
      have h2 : ((frame c p).take k).drop 4 = be32 p.length ++ p.take (k - 8) := by
        rw [hs]; simp [be32]
      have h3 : ((frame c p).take k).drop 8 = p.take (k - 8) := by
        rw [hs]; simp [be32]
      have e3 : ¬ (p.length > c.maxMsg) := by omega
      have e4 : ¬ (p.length = 0) := by omega
      have e5 : (p.take (k - 8)).length < p.length := by
        rw [List.length_take]; omega
      simp only [decode1, hL, h4, h8, h2, h3, rd32_be32_append _ hlen, e3, e4, e5, if_false, if_true, truncRes]

theorem truncRes_ne_msg (k : Nat) : truncRes k = Res.eof ∨ truncRes k = Res.errLen ∨ truncRes k = Res.errData := by
  unfold truncRes
  split
  · simp
  · split <;> simp

theorem frames_cons (c : Codec) (p : Bytes) (ps : List Bytes) : frames c (p :: ps) = frame c p ++ frames c ps := by
  simp [frames]

theorem frames_append (c : Codec) (ps qs : List Bytes) : frames c (ps ++ qs) = frames c ps ++ frames c qs := by
  simp [frames]

theorem decodeAllF_msg (c : Codec) (t : Tail) (f : Nat) (s p rest : Bytes)
    (h : decode1 c t s = (Res.msg p, rest)) :
    decodeAllF c t (f + 1) s = (p :: (decodeAllF c t f rest).1, (decodeAllF c t f rest).2) := by
  rw [decodeAllF, h]

theorem decodeAllF_stop (c : Codec) (t : Tail) (f : Nat) (s rest : Bytes) (r : Res)
    (h : decode1 c t s = (r, rest)) (hr : r.isMsg = false) :
    decodeAllF c t (f + 1) s = ([], r) := by
  rw [decodeAllF, h]
  cases r <;> simp_all [Res.isMsg]

/-- number of bytes of the first `j` records -/
def bytesOf (c : Codec) (ps : List Bytes) (j : Nat) : Nat := (frames c (ps.take j)).length

/-- **truncate_prefix** (fuel form).  A log cut at ANY byte offset replays exactly the records that are completely
inside the kept bytes, in order, followed by a terminal that is `io.EOF` or a read error — never a message that was
not written, never `corrupt`.  No assumption on the checksum function. -/
theorem truncate_prefix_fuel (c : Codec) (hb : Bounded c) (ps : List Bytes) (hv : ∀ p ∈ ps, Valid c p) :
    ∀ (cut f : Nat), ((frames c ps).take cut).length < f →
    ∃ j e, decodeAllF c Tail.eof f ((frames c ps).take cut) = (ps.take j, e) ∧
      (e = Res.eof ∨ e = Res.errLen ∨ e = Res.errData) ∧ j ≤ ps.length ∧
      bytesOf c ps j ≤ cut ∧ (j < ps.length → cut < bytesOf c ps (j + 1)) ∧
      (ps.length ≤ j → e = Res.eof) := by
  induction ps with
  | nil =>
    intro cut f hf
    cases f with
    | zero => omega
    | succ f => exact ⟨0, Res.eof, by simp [frames, decodeAllF, decode1], Or.inl rfl, by simp, by simp [bytesOf, frames], by simp, by simp⟩
  | cons p ps ih =>
    intro cut f hf
    have hvp : Valid c p := hv p (by simp)
    have hvs : ∀ q ∈ ps, Valid c q := fun q hq => hv q (by simp [hq])
    cases f with
    | zero => omega
    | succ f =>
      rw [frames_cons] at hf ⊢
      by_cases hcut : cut < (frame c p).length
      · -- the cut falls inside the first record
        have ht : (frame c p ++ frames c ps).take cut = (frame c p).take cut := by
          rw [List.take_append_of_le_length (Nat.le_of_lt hcut)]
        rw [ht]
        refine ⟨0, truncRes cut, ?_, truncRes_ne_msg cut, by simp, by simp [bytesOf, frames], ?_, by simp⟩
        · rw [decodeAllF_stop c Tail.eof f _ [] (truncRes cut) (decode1_trunc c hb p hvp cut hcut)]
          · simp
          · rcases truncRes_ne_msg cut with h | h | h <;> simp [h, Res.isMsg]
        · intro _
          simp [bytesOf, frames_cons]
          omega
      · -- the first record is complete
        have hge : (frame c p).length ≤ cut := Nat.le_of_not_lt hcut
        have ht : (frame c p ++ frames c ps).take cut = frame c p ++ (frames c ps).take (cut - (frame c p).length) := by
          rw [List.take_append]
          rw [List.take_of_length_le hge]
        rw [ht] at hf ⊢
        have hf' : ((frames c ps).take (cut - (frame c p).length)).length < f := by
          have hF := frame_length c p
          rw [List.length_append] at hf; omega
        obtain ⟨j, e, hd, he, hj, hs1, hs2, hs3⟩ := ih hvs (cut - (frame c p).length) f hf'
        refine ⟨j + 1, e, ?_, he, by simp only [List.length_cons]; omega, ?_, ?_, ?_⟩
        · rw [decodeAllF_msg c Tail.eof f _ p _ (decode1_frame c hb Tail.eof p _ hvp), hd, List.take_succ_cons]
        · simp only [bytesOf, List.take_succ_cons, frames_cons, List.length_append] at hs1 ⊢
          omega
        · intro h
          have h' : j < ps.length := by simp only [List.length_cons] at h; omega
          have := hs2 h'
          simp only [bytesOf, List.take_succ_cons, frames_cons, List.length_append] at this ⊢
          omega
        · intro h
          exact hs3 (by simp only [List.length_cons] at h; omega)

/-- **truncate_prefix**: the statement for the reader loop (`decodeAll`). -/
theorem truncate_prefix (c : Codec) (hb : Bounded c) (ps : List Bytes) (hv : ∀ p ∈ ps, Valid c p) (cut : Nat) :
    ∃ j e, decodeAll c Tail.eof ((frames c ps).take cut) = (ps.take j, e) ∧
      (e = Res.eof ∨ e = Res.errLen ∨ e = Res.errData) ∧ j ≤ ps.length ∧
      bytesOf c ps j ≤ cut ∧ (j < ps.length → cut < bytesOf c ps (j + 1)) ∧
      (ps.length ≤ j → e = Res.eof) :=
  truncate_prefix_fuel c hb ps hv cut _ (Nat.lt_succ_self _)

/-- **never_unwritten_truncated**: every message read back from a cut log was written. -/
theorem never_unwritten_truncated (c : Codec) (hb : Bounded c) (ps : List Bytes) (hv : ∀ p ∈ ps, Valid c p) (cut : Nat) :
    ∀ m ∈ (decodeAll c Tail.eof ((frames c ps).take cut)).1, m ∈ ps := by
  obtain ⟨j, e, h, _⟩ := truncate_prefix c hb ps hv cut
  rw [h]
  intro m hm
  exact List.mem_of_mem_take hm

/-- **intact_replay**: an undamaged log is replayed completely and ends with `io.EOF`. -/
theorem intact_replay (c : Codec) (hb : Bounded c) (ps : List Bytes) (hv : ∀ p ∈ ps, Valid c p) :
    decodeAll c Tail.eof (frames c ps) = (ps, Res.eof) := by
  obtain ⟨j, e, h, _, hj, hs1, hs2, hs3⟩ := truncate_prefix c hb ps hv (frames c ps).length
  rw [List.take_length] at h
  by_cases hlt : j < ps.length
  · have := hs2 hlt
    have hle : bytesOf c ps (j + 1) ≤ (frames c ps).length := by
      unfold bytesOf
      have : ps = ps.take (j + 1) ++ ps.drop (j + 1) := (List.take_append_drop _ _).symm
      conv => rhs; rw [this, frames_append]
      simp
    omega
  · have hj' : j = ps.length := by omega
    rw [h, hj', List.take_length, hs3 (by omega)]

/-! ## single-byte corruption

A damaged log is `frames pre ++ (damaged record ++ rest)`: every byte offset of the log lies in the checksum field,
the length field or the payload of exactly one record.  `damaged_record_stops` reduces the log to that record;
the three field lemmas say what one `Decode` on the damaged record answers.  The checksum-field case needs no
assumption; the payload case needs `DetectsSingleByte` (a property of CRC-32C, assumed, named); the length-field case
needs the mis-framed bytes not to collide under the checksum (a 2⁻³² event for a 32-bit checksum: a named hypothesis,
it cannot be a theorem). -/

/-- the records before the damaged one are replayed, then the reader stops with the terminal of the damaged record -/
theorem damaged_record_stops_fuel (c : Codec) (hb : Bounded c) (t : Tail) (d : Bytes) (r : Res) (rest' : Bytes)
    (hd : decode1 c t d = (r, rest')) (hr : r.isMsg = false) (pre : List Bytes) (hv : ∀ p ∈ pre, Valid c p) :
    ∀ f, (frames c pre ++ d).length < f → decodeAllF c t f (frames c pre ++ d) = (pre, r) := by
  induction pre with
  | nil =>
    intro f hf
    cases f with
    | zero => omega
    | succ f => simpa [frames] using decodeAllF_stop c t f d rest' r hd hr
  | cons p ps ih =>
    intro f hf
    cases f with
    | zero => omega
    | succ f =>
      have hvp : Valid c p := hv p (by simp)
      have hvs : ∀ q ∈ ps, Valid c q := fun q hq => hv q (by simp [hq])
      rw [frames_cons, List.append_assoc] at hf ⊢
      have hF := frame_length c p
      have hf' : (frames c ps ++ d).length < f := by
        rw [List.length_append] at hf; omega
      rw [decodeAllF_msg c t f _ p _ (decode1_frame c hb t p _ hvp), ih hvs f hf']

theorem damaged_record_stops (c : Codec) (hb : Bounded c) (t : Tail) (d : Bytes) (r : Res) (rest' : Bytes)
    (hd : decode1 c t d = (r, rest')) (hr : r.isMsg = false) (pre : List Bytes) (hv : ∀ p ∈ pre, Valid c p) :
    decodeAll c t (frames c pre ++ d) = (pre, r) :=
  damaged_record_stops_fuel c hb t d r rest' hd hr pre hv _ (Nat.lt_succ_self _)

/-- a record whose fields are given separately -/
def rawRecord (crcField lenField payload : Bytes) : Bytes := crcField ++ (lenField ++ payload)

theorem frame_eq_rawRecord (c : Codec) (p : Bytes) : frame c p = rawRecord (be32 (c.crc p)) (be32 p.length) p := by
  simp [frame, rawRecord]

theorem decode1_rawRecord (c : Codec) (t : Tail) (w : Bytes) (hw : w.length = 4) (n : Nat) (hn : n < 4294967296)
    (q rest : Bytes) :
    decode1 c t (rawRecord w (be32 n) q ++ rest) =
      if n > c.maxMsg then (Res.errBig, q ++ rest)
      else if n = 0 then (Res.errData, q ++ rest)
      else if (q ++ rest).length < n then (Res.errData, [])
      else if c.crc ((q ++ rest).take n) = rd32 w ∧ c.ok ((q ++ rest).take n) = true
        then (Res.msg ((q ++ rest).take n), (q ++ rest).drop n)
        else (Res.corrupt, (q ++ rest).drop n) := by
  obtain ⟨a, b, cc, d, rfl⟩ : ∃ a b cc d, w = [a, b, cc, d] := by
    match w, hw with
    | [a, b, cc, d], _ => exact ⟨a, b, cc, d, rfl⟩
  have h0 : rawRecord [a, b, cc, d] (be32 n) q ++ rest = [a, b, cc, d] ++ (be32 n ++ (q ++ rest)) := by
    simp [rawRecord]
  have h1 : rd32 (rawRecord [a, b, cc, d] (be32 n) q ++ rest) = rd32 [a, b, cc, d] := by
    rw [h0]; simp [rd32]
  have h2 : (rawRecord [a, b, cc, d] (be32 n) q ++ rest).drop 4 = be32 n ++ (q ++ rest) := by
    rw [h0]; simp
  have h3 : (rawRecord [a, b, cc, d] (be32 n) q ++ rest).drop 8 = q ++ rest := by
    rw [h0]; simp [be32]
  have h4 : (rawRecord [a, b, cc, d] (be32 n) q ++ rest).length = 8 + (q ++ rest).length := by
    rw [h0]; simp [be32]; omega
  have e1 : ¬ (8 + (q ++ rest).length < 4) := by omega
  have e2 : ¬ (8 + (q ++ rest).length < 8) := by omega
  simp only [decode1, h1, h2, h3, h4, rd32_be32_append _ hn, e1, e2, if_false]

/-- **flip_crc_field**: any change of the checksum field is reported as corruption.  No assumption. -/
theorem flip_crc_field (c : Codec) (hb : Bounded c) (t : Tail) (p : Bytes) (hv : Valid c p) (w : Bytes)
    (hw : w.length = 4) (hne : rd32 w ≠ c.crc p) (rest : Bytes) :
    decode1 c t (rawRecord w (be32 p.length) p ++ rest) = (Res.corrupt, rest) := by
  have hlen : p.length < 4294967296 := Nat.lt_of_le_of_lt hv.le hb.max_lt
  have hpos := hv.pos
  have hle := hv.le
  rw [decode1_rawRecord c t w hw _ hlen]
  have e3 : ¬ (p.length > c.maxMsg) := by omega
  have e4 : ¬ (p.length = 0) := by omega
  have e5 : ¬ ((p ++ rest).length < p.length) := by simp
  have hne' : ¬ (c.crc p = rd32 w) := fun h => hne h.symm
  simp [e3, e4, hne']

/-- `p'` is `p` with exactly one byte replaced by a different value -/
def SingleByteChange (p p' : Bytes) : Prop := ∃ i b, ∃ h : i < p.length, p' = p.set i b ∧ b ≠ p[i]

/-- **Assumed law of the checksum** (true of CRC-32C: it detects every error burst of at most 32 bits): a single
changed byte changes the checksum.  Explicit hypothesis of `flip_payload`, listed in the trusted base. -/
def DetectsSingleByte (c : Codec) : Prop := ∀ p p', SingleByteChange p p' → c.crc p' ≠ c.crc p

/-- **flip_payload**: a single changed payload byte is reported as corruption. -/
theorem flip_payload (c : Codec) (hb : Bounded c) (hdet : DetectsSingleByte c) (t : Tail) (p p' : Bytes)
    (hv : Valid c p) (hch : SingleByteChange p p') (rest : Bytes) :
    decode1 c t (rawRecord (be32 (c.crc p)) (be32 p.length) p' ++ rest) = (Res.corrupt, rest) := by
  have hlen : p.length < 4294967296 := Nat.lt_of_le_of_lt hv.le hb.max_lt
  have hpos := hv.pos
  have hle := hv.le
  have hl' : p'.length = p.length := by
    obtain ⟨i, b, _, rfl, _⟩ := hch; simp
  rw [decode1_rawRecord c t _ (be32_length _) _ hlen]
  have e3 : ¬ (p.length > c.maxMsg) := by omega
  have e4 : ¬ (p.length = 0) := by omega
  have e5 : ¬ ((p' ++ rest).length < p.length) := by simp; omega
  have ht : (p' ++ rest).take p.length = p' := by rw [← hl']; simp
  have hd : (p' ++ rest).drop p.length = rest := by rw [← hl']; simp
  have hrd : rd32 (be32 (c.crc p)) = c.crc p := by
    have := rd32_be32_append (c.crc p) (hb.crc_lt p) []
    simpa using this
  have hne : ¬ (c.crc p' = c.crc p) := hdet p p' hch
  have e6 : p.length ≤ p'.length + rest.length := by omega
  simp [e3, e4, e6, ht, hd, hrd, hne]

/-- **flip_len_field**: a changed length field (`n ≠ len p`) never yields a message, provided the mis-framed bytes do not
collide with the stored checksum (`hcol`, explicit).  The terminal is `corrupt`, "length exceeded" or "failed to read
data". -/
theorem flip_len_field (c : Codec) (hb : Bounded c) (t : Tail) (p : Bytes) (n : Nat) (hn : n < 4294967296)
    (rest : Bytes) (hcol : c.crc ((p ++ rest).take n) ≠ c.crc p) :
    ((decode1 c t (rawRecord (be32 (c.crc p)) (be32 n) p ++ rest)).1).isMsg = false := by
  rw [decode1_rawRecord c t _ (be32_length _) _ hn]
  have hrd : rd32 (be32 (c.crc p)) = c.crc p := by
    have := rd32_be32_append (c.crc p) (hb.crc_lt p) []
    simpa using this
  rw [hrd]
  split
  · rfl
  · split
    · rfl
    · split
      · rfl
      · split
        · rename_i h; exact absurd h.1 hcol
        · rfl

/-- **single_byte_corruption** (payload case, whole log): the records before the damaged one are replayed in order, then
`corrupt`; nothing after it, and nothing that was not written. -/
theorem corrupt_payload_log (c : Codec) (hb : Bounded c) (hdet : DetectsSingleByte c) (t : Tail)
    (pre post : List Bytes) (p p' : Bytes) (hpre : ∀ q ∈ pre, Valid c q) (hv : Valid c p)
    (hch : SingleByteChange p p') :
    decodeAll c t (frames c pre ++ (rawRecord (be32 (c.crc p)) (be32 p.length) p' ++ frames c post)) = (pre, Res.corrupt) :=
  damaged_record_stops c hb t _ Res.corrupt _ (flip_payload c hb hdet t p p' hv hch _) rfl pre hpre

/-- **single_byte_corruption** (checksum-field case, whole log); no assumption on the checksum function. -/
theorem corrupt_crc_log (c : Codec) (hb : Bounded c) (t : Tail) (pre post : List Bytes) (p w : Bytes)
    (hpre : ∀ q ∈ pre, Valid c q) (hv : Valid c p) (hw : w.length = 4) (hne : rd32 w ≠ c.crc p) :
    decodeAll c t (frames c pre ++ (rawRecord w (be32 p.length) p ++ frames c post)) = (pre, Res.corrupt) :=
  damaged_record_stops c hb t _ Res.corrupt _ (flip_crc_field c hb t p hv w hw hne _) rfl pre hpre

/-- **single_byte_corruption** (length-field case, whole log): a prefix, then a terminal that is not a message. -/
theorem corrupt_len_log (c : Codec) (hb : Bounded c) (t : Tail) (pre post : List Bytes) (p : Bytes) (n : Nat)
    (hpre : ∀ q ∈ pre, Valid c q) (hn : n < 4294967296)
    (hcol : c.crc ((p ++ frames c post).take n) ≠ c.crc p) :
    ∃ e, e.isMsg = false ∧
      decodeAll c t (frames c pre ++ (rawRecord (be32 (c.crc p)) (be32 n) p ++ frames c post)) = (pre, e) := by
  have h := flip_len_field c hb t p n hn (frames c post) hcol
  generalize hd : decode1 c t (rawRecord (be32 (c.crc p)) (be32 n) p ++ frames c post) = res at h
  obtain ⟨e, rest'⟩ := res
  exact ⟨e, h, damaged_record_stops c hb t _ e rest' hd h pre hpre⟩

/-! ## the end-height marker clause over write / sync / rotate / crash-cut histories -/

inductive Op
  | write (p : Bytes)      -- WALEncoder.Encode of a record with payload `p` through Group.Write
  | sync                   -- Group.Flush
  | rotate                 -- Group.RotateFile (a failed rename leaves the group as it is)
  | cutHead (n : Nat)      -- crash: only the first `n` bytes of the head file survive
deriving DecidableEq, Repr

def Op.isCut : Op → Bool
  | .cutHead _ => true
  | _ => false

def stepOp (B : Nat) (flushFirst : Bool) (c : Codec) (g : Group) : Op → Group
  | .write p => g.write B (frame c p)
  | .sync => g.flush
  | .rotate => (g.rotate flushFirst).getD g
  | .cutHead n => { g with head := g.head.map (·.take n) }

def run (B : Nat) (flushFirst : Bool) (c : Codec) (g : Group) (ops : List Op) : Group :=
  ops.foldl (stepOp B flushFirst c) g

def payloads : List Op → List Bytes
  | [] => []
  | .write p :: ops => p :: payloads ops
  | _ :: ops => payloads ops

def validB (c : Codec) (p : Bytes) : Bool := decide (0 < p.length) && decide (p.length ≤ c.maxMsg) && c.ok p

theorem valid_of_validB (c : Codec) (p : Bytes) (h : validB c p = true) : Valid c p := by
  simp [validB] at h
  exact ⟨h.1.1, h.1.2, h.2⟩

def _root_.Model.Wal.Search.isFound : Search → Bool
  | .found _ _ => true
  | _ => false

/-- the record of a marker for height `h` is completely inside the bytes that are on disk -/
def markerOnDisk (c : Codec) (ps : List Bytes) (diskBytes : Nat) (h : Nat) : Bool :=
  (List.range ps.length).any fun j => c.eh (ps.getD j []) == some h && decide (bytesOf c ps (j + 1) ≤ diskBytes)

/-- marker heights never decrease (the node writes EndHeight h once, after height h) -/
def monotoneMarkers (c : Codec) (ps : List Bytes) : Bool :=
  let hs := ps.filterMap c.eh
  (hs.zip hs.tail).all fun (a, b) => decide (a ≤ b)

/-- **The marker clause at full strength.**  For every buffer size, codec, history of writes / syncs / rotations
(and, if `cuts`, crash cuts of the head), with valid payloads and monotone markers, when the head exists (as it does
whenever the node searches): `SearchForEndHeight h` finds the marker iff its record is completely on disk.
`flushFirst` = RotateFile flushes the buffer before renaming (`true` = the current tree since fix ed188e7, `false` = the
code before it).  `cuts` = crash cuts of the head allowed.  Status: `false false` refuted (old code,
`C14_rotation_counterexample`); `true true` refuted (`C14_torn_tail_counterexample`, finding wal-search-torn-tail);
`true false` refuted as literally stated — a search while the buffered writer holds the rest of a record sees a torn head
(`C14_marker_unflushed_counterexample`, Props/C14Hist.lean) — and PROVED for flushed histories (`C14_marker_flushed`);
the exact set of head cuts that break the search is `search_fails_iff_torn_len_or_data` (Props/C14Search.lean). -/
def C14_marker_statement (flushFirst cuts : Bool) : Prop :=
  ∀ (B : Nat) (c : Codec) (ops : List Op) (h : Nat) (ign : Bool), 0 < B → Bounded c →
    (payloads ops).all (validB c) = true → monotoneMarkers c (payloads ops) = true →
    (cuts = false → ops.all (fun o => !o.isCut) = true) →
    (run B flushFirst c {} ops).head.isSome = true →
    ((search c (run B flushFirst c {} ops) h ign).isFound =
      markerOnDisk c (payloads ops) ((run B flushFirst c {} ops).stream 0).length h)

/-- a small concrete codec for witnesses: the real CRC-32C; every non-empty payload decodes; a payload `[0xEE, h]` is
the end-height marker of height `h` -/
def toyCodec : Codec :=
  { crc := Go.Crc32c.checksumNat
    ok := fun p => !p.isEmpty
    eh := fun p => match p with | [0xEE, h] => some h.toNat | _ => none
    maxMsg := Gen.WalFacts.maxMsgSizeBytes }

theorem toyCodec_bounded : Bounded toyCodec := ⟨Go.Crc32c.checksumNat_lt, by decide⟩

/-- witness for the un-flushed rotation of the OLD code (buffer of 16 bytes; at the real size 40960 the same shape is replayed on the
real code BEFORE fix ed188e7 by the harness, entry `wal-rotate-unflushed-straddle`, now `fixed`): marker 1 synced; two un-synced records, the
second one straddles the buffer flush; RotateFile; marker 2 synced. -/
def straddleOps : List Op :=
  [.write [0xEE, 1], .sync, .write [7], .write (List.replicate 12 0xFF), .rotate, .write [0xEE, 2], .sync]

set_option maxRecDepth 100000 in
/-- what the model with `flushFirst = false` (= the code before fix ed188e7) does on the witness: everything is on disk, the rotated file ends inside a record,
and the search for either marker stops with the framing error "length exceeded" -/
theorem straddle_behaviour :
    let g := run 16 false toyCodec {} straddleOps
    g.files.map List.length = [26] ∧ g.head.map List.length = some 23 ∧ g.buf = [] ∧
    search toyCodec g 2 true = Search.err Res.errBig ∧ search toyCodec g 1 true = Search.err Res.errBig ∧
    markerOnDisk toyCodec (payloads straddleOps) (g.stream 0).length 2 = true ∧
    markerOnDisk toyCodec (payloads straddleOps) (g.stream 0).length 1 = true := by
  decide

set_option maxRecDepth 100000 in
/-- **C14_rotation_counterexample**: with the OLD RotateFile (`flushFirst = false`, the code before fix ed188e7) the marker clause is false even without
any crash. -/
theorem C14_rotation_counterexample : ¬ C14_marker_statement false false := by
  intro h
  have := h 16 toyCodec straddleOps 2 true (by decide) toyCodec_bounded (by decide) (by decide) (by decide) (by decide)
  revert this
  decide

set_option maxRecDepth 100000 in
/-- with the fix (flush before the rename; the current tree) the same history is searched correctly -/
theorem straddle_fixed_by_flush :
    let g := run 16 true toyCodec {} straddleOps
    (search toyCodec g 2 true).isFound = true ∧ (search toyCodec g 1 true).isFound = true ∧
    (search toyCodec g 3 true).isFound = false := by
  decide

/-- witness for the torn tail: marker 1 synced, rotation on the record boundary, one more record synced, the head cut
inside that record's data field -/
def tornOps : List Op := [.write [0xEE, 1], .sync, .rotate, .write [1, 2, 3, 4], .sync, .cutHead 10]

set_option maxRecDepth 100000 in
/-- **C14_torn_tail_counterexample** (current tree, `flushFirst = true`; independent of the repaired rotation defect): a head file cut
inside the length or data field of its last record makes the search fail with a non-corruption error before it
looks at the older file that holds the marker. -/
theorem C14_torn_tail_counterexample : ¬ C14_marker_statement true true := by
  intro h
  have := h 16 toyCodec tornOps 1 true (by decide) toyCodec_bounded (by decide) (by decide) (by decide) (by decide)
  revert this
  decide

set_option maxRecDepth 100000 in
theorem torn_tail_behaviour :
    search toyCodec (run 16 true toyCodec {} tornOps) 1 true = Search.err Res.errData := by decide

/-- non-vacuity: the toy codec is bounded, its payloads are valid, and a one-byte change of a concrete payload is a
`SingleByteChange` -/
example : Bounded toyCodec ∧ Valid toyCodec [0xEE, 1] ∧ SingleByteChange [0xEE, 1] [0xEE, 2] :=
  ⟨toyCodec_bounded, ⟨by decide, by decide, by decide⟩, ⟨1, 2, by decide, by decide, by decide⟩⟩

set_option maxRecDepth 100000 in
/-- the real CRC-32C on concrete bytes: every one of the 255 other values of either byte of `[0xEE, 1]` changes it -/
example : ∀ b : Fin 256, (b.val ≠ 0xEE → Go.Crc32c.checksumNat [UInt8.ofNat b.val, 1] ≠ Go.Crc32c.checksumNat [0xEE, 1]) ∧
    (b.val ≠ 1 → Go.Crc32c.checksumNat [0xEE, UInt8.ofNat b.val] ≠ Go.Crc32c.checksumNat [0xEE, 1]) := by decide

end Props.C14
