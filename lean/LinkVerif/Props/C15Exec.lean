import LinkVerif.Model.Mempool
import LinkVerif.Props.C06Lemmas

/-!
# C15 — part 1: a list of transactions that passes the mempool's DEBIT-ONLY state checks one after the other, starting
from the committed state, executes as a block on the committed ledger (`Model.Ledger.execBlock`), whatever credits the
real execution adds on the way; confidential spends with pairwise distinct, uncommitted key images execute after them.
-/
namespace Props.C15
open Model.Ledger Model.Mempool
open Props.C06 (length_addAt execTx_bal execTx_tok execTx_nonce execTx_spentImgs)

/-! ## lists of balances -/

theorem geti_addAt (xs : List Int) (i j : Nat) (d : Int) :
    geti (addAt xs i d) j = if i = j ∧ i < xs.length then geti xs j + d else geti xs j := by
  unfold geti addAt
  simp only [List.getD_eq_getElem?_getD, List.getElem?_modify]
  by_cases hij : i = j
  · subst hij
    by_cases hl : i < xs.length
    · simp [hl]
    · simp [hl]
  · simp [hij]

theorem geti_addAt_mono {a b : List Int} (hl : a.length = b.length) (h : ∀ j, geti a j ≤ geti b j) (i : Nat) (d : Int) :
    ∀ j, geti (addAt a i d) j ≤ geti (addAt b i d) j := by
  intro j
  rw [geti_addAt, geti_addAt, hl]
  have := h j
  split <;> omega

theorem geti_addAt_ge (xs : List Int) (i : Nat) {d : Int} (hd : 0 ≤ d) : ∀ j, geti xs j ≤ geti (addAt xs i d) j := by
  intro j
  rw [geti_addAt]
  split <;> omega

/-! ## the speculative run -/

/-- the mempool's state checks applied one after the other (all must pass) -/
def runAcc : Acc → List TxRec → Option Acc
  | a, [] => some a
  | a, t :: r => if (checkAcc a t).1 = .ok then runAcc (checkAcc a t).2 r else none

/-- well-formed amounts (what `CheckBasic` guarantees: values and fees are unsigned) -/
def WFt (t : TxRec) : Prop := 0 ≤ t.amount ∧ 0 ≤ t.gas ∧ (∀ a v, t.aout = some (a, v) → 0 ≤ v)

/-- the committed ledger dominates a speculative state: same nonces, at least the balances -/
structure Dom (s : St) (a : Acc) : Prop where
  nonce : s.nonce = a.nonce
  lbal : a.bal.length = s.bal.length
  ltok : a.tok.length = s.tok.length
  bal : ∀ j, geti a.bal j ≤ geti s.bal j
  tok : ∀ j, geti a.tok j ≤ geti s.tok j

theorem dom_accOf (s : St) : Dom s (accOf s) :=
  ⟨rfl, rfl, rfl, fun _ => Int.le_refl _, fun _ => Int.le_refl _⟩

theorem checkAcc_ok {a : Acc} {t : TxRec} (h : (checkAcc a t).1 = .ok) :
    getn a.nonce t.from_ = t.nonce ∧ canPay a t = true ∧ (checkAcc a t).2 = debit a t := by
  unfold checkAcc at h ⊢
  simp only [] at h ⊢
  split at h
  · cases h
  · split at h
    · cases h
    · split at h
      · cases h
      · split at h
        · cases h
        · rename_i h1 h2 h3 h4
          refine ⟨by omega, by simpa using h3, ?_⟩
          simp [h1, h2, h3, h4]

theorem feeOfGas_nonneg {g : Int} (h : 0 ≤ g) : 0 ≤ feeOfGas g := by unfold feeOfGas; omega

/-- one step of the simulation: a transaction with an account input that passes the speculative check is valid on any
dominating ledger, and executing it keeps the domination -/
theorem step_sim {s : St} {a : Acc} {t : TxRec} (seen : List Nat) (hk : t.kind ≠ .uin) (hw : WFt t) (hd : Dom s a)
    (h : (checkAcc a t).1 = .ok) :
    txValid s seen t = true ∧ Dom (execTx s t) (checkAcc a t).2 ∧ (execTx s t).spentImgs = s.spentImgs := by
  obtain ⟨hn, hp, he⟩ := checkAcc_ok h
  obtain ⟨hamt, hgas, _⟩ := hw
  have hfee := feeOfGas_nonneg hgas
  rw [he]
  have hb := hd.bal t.from_
  have htk := hd.tok t.from_
  refine ⟨?_, ?_, ?_⟩
  · unfold txValid
    unfold canPay at hp
    rw [hd.nonce]
    cases hkind : t.kind <;> simp [hkind] at hp hk ⊢ <;> (refine ⟨?_, ?_⟩ <;> first | omega | (constructor <;> omega))
  · constructor
    · rw [execTx_nonce]
      unfold applyTx debit
      cases hkind : t.kind <;> simp [hkind] at hk ⊢ <;> rw [hd.nonce]
    · unfold debit; cases hkind : t.kind <;> simp [hkind, length_addAt, execTx_bal, applyTx] at hk ⊢ <;> exact hd.lbal
    · unfold debit; cases hkind : t.kind <;> simp [hkind, length_addAt, execTx_tok, applyTx] at hk ⊢ <;> exact hd.ltok
    · intro j
      rw [execTx_bal]
      unfold applyTx debit
      cases hkind : t.kind <;> simp [hkind] at hk ⊢
      · exact Int.le_trans (geti_addAt_mono hd.lbal hd.bal _ _ j) (geti_addAt_ge _ _ hamt j)
      · exact geti_addAt_mono hd.lbal hd.bal _ _ j
      · exact geti_addAt_mono hd.lbal hd.bal _ _ j
    · intro j
      rw [execTx_tok]
      unfold applyTx debit
      cases hkind : t.kind <;> simp [hkind] at hk ⊢
      · exact hd.tok j
      · exact Int.le_trans (geti_addAt_mono hd.ltok hd.tok _ _ j) (geti_addAt_ge _ _ hamt j)
      · exact hd.tok j
  · rw [execTx_spentImgs]; simp [hk]

/-- **the account part of an offered block executes**: from a dominating ledger, with any `seen` set -/
theorem runAcc_exec : ∀ (l : List TxRec) (s : St) (a a' : Acc) (seen : List Nat),
    (∀ t ∈ l, t.kind ≠ .uin ∧ WFt t) → Dom s a → runAcc a l = some a' →
    ∃ s', execBlock s seen l = some s' ∧ Dom s' a' ∧ s'.spentImgs = s.spentImgs := by
  intro l
  induction l with
  | nil => intro s a a' seen _ hd h; simp [runAcc] at h; subst h; exact ⟨s, rfl, hd, rfl⟩
  | cons t r ih =>
    intro s a a' seen hall hd h
    unfold runAcc at h
    split at h
    · rename_i hok
      have ht := hall t (List.mem_cons_self ..)
      obtain ⟨hv, hd', hsp⟩ := step_sim seen ht.1 ht.2 hd hok
      obtain ⟨s', hs', hd'', hsp'⟩ := ih (execTx s t) _ a' seen (fun x hx => hall x (List.mem_cons_of_mem _ hx)) hd' h
      refine ⟨s', ?_, hd'', by rw [hsp', hsp]⟩
      unfold execBlock
      simp [hv, ht.1, hs']
    · cases h

/-- confidential spends with pairwise distinct key images none of which is committed or already in the block execute -/
theorem uin_exec : ∀ (l : List TxRec) (s : St) (seen : List Nat),
    (∀ t ∈ l, t.kind = .uin) → (l.map (·.spends)).Nodup →
    (∀ t ∈ l, t.spends ∉ s.spentImgs ∧ t.spends ∉ seen) →
    ∃ s', execBlock s seen l = some s' := by
  intro l
  induction l with
  | nil => intro s seen _ _ _; exact ⟨s, rfl⟩
  | cons t r ih =>
    intro s seen hk hnd hfresh
    have htk := hk t (List.mem_cons_self ..)
    have hft := hfresh t (List.mem_cons_self ..)
    simp only [List.map_cons, List.nodup_cons] at hnd
    have hv : txValid s seen t = true := by
      unfold txValid; simp [htk, hft.1, hft.2]
    unfold execBlock
    simp only [hv, htk, if_true]
    apply ih
    · exact fun x hx => hk x (List.mem_cons_of_mem _ hx)
    · exact hnd.2
    · intro x hx
      have hfx := hfresh x (List.mem_cons_of_mem _ hx)
      have hne : x.spends ≠ t.spends := by
        intro heq; exact hnd.1 (heq ▸ List.mem_map_of_mem hx)
      rw [execTx_spentImgs]
      simp [htk, hfx.1, hfx.2, hne]

theorem execBlock_append_acct : ∀ (l₁ l₂ : List TxRec) (s : St) (seen : List Nat), (∀ t ∈ l₁, t.kind ≠ .uin) →
    execBlock s seen (l₁ ++ l₂) = (execBlock s seen l₁).bind (fun s' => execBlock s' seen l₂) := by
  intro l₁
  induction l₁ with
  | nil => intro l₂ s seen _; simp [execBlock]
  | cons t r ih =>
    intro l₂ s seen hk
    have ht := hk t (List.mem_cons_self ..)
    have ih' := ih l₂ (execTx s t) seen (fun x hx => hk x (List.mem_cons_of_mem _ hx))
    by_cases hv : txValid s seen t = true
    · simp [execBlock, hv, ht, ih']
    · simp [execBlock, hv]

theorem runAcc_append {a a' : Acc} {l : List TxRec} {t : TxRec} (h : runAcc a l = some a') (hok : (checkAcc a' t).1 = .ok) :
    runAcc a (l ++ [t]) = some (checkAcc a' t).2 := by
  induction l generalizing a with
  | nil => simp [runAcc] at h; subst h; simp [runAcc, hok]
  | cons x r ih =>
    unfold runAcc at h
    split at h
    · rename_i hx
      simp only [List.cons_append]
      unfold runAcc
      simp [hx, ih h]
    · cases h

theorem runAcc_take {a a' : Acc} {l : List TxRec} (h : runAcc a l = some a') (k : Nat) : ∃ a'', runAcc a (l.take k) = some a'' := by
  induction l generalizing a k with
  | nil => exact ⟨a, by simp [runAcc]⟩
  | cons x r ih =>
    cases k with
    | zero => exact ⟨a, by simp [runAcc]⟩
    | succ k =>
      unfold runAcc at h
      split at h
      · rename_i hx
        obtain ⟨a'', h''⟩ := ih h k
        exact ⟨a'', by simp only [List.take_succ_cons]; unfold runAcc; simp [hx, h'']⟩
      · cases h

end Props.C15
