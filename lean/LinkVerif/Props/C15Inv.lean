import LinkVerif.Props.C15Exec

/-!
# C15 — part 2: the pool invariant and its preservation by admission, promotion and Update
-/
namespace Props.C15
open Model.Ledger Model.Mempool

/-- what every pooled transaction satisfies (established by the basic check at admission: `basic_ok_wf`) -/
def GoodT (t : TxRec) : Prop := WFt t

/-- **a rejected state check leaves the speculative state untouched** (every rejection, the fee-too-low one included) -/
theorem checkAcc_clean {a : Acc} {t : TxRec} (h : (checkAcc a t).1 ≠ .ok) : (checkAcc a t).2 = a := by
  unfold checkAcc at h ⊢
  simp only [] at h ⊢
  split
  · rfl
  · split
    · rfl
    · split
      · rfl
      · split
        · rfl
        · rename_i h1 h2 h3 h4
          simp [h1, h2, h3, h4] at h

structure Inv (p : Pool) : Prop where
  path : ∃ σ, runAcc (accOf p.c) (p.good.map (·.t)) = some σ ∧ (p.good.length < p.cfg.size → σ = p.acc)
  gkind : ∀ e ∈ p.good, e.t.kind ≠ .uin
  fkind : ∀ e ∈ p.fut, e.t.kind ≠ .uin
  ukind : ∀ e ∈ p.utxo, e.t.kind = .uin
  imgs : p.imgs = p.utxo.map (·.t.spends)
  nodup : p.imgs.Nodup
  fresh : ∀ i ∈ p.imgs, i ∉ p.c.spentImgs
  good : (∀ e ∈ p.good, GoodT e.t) ∧ (∀ e ∈ p.fut, GoodT e.t)

/-- the exact form of `path`: the speculative state IS the committed state advanced by the good list -/
def Exact (p : Pool) : Prop := runAcc (accOf p.c) (p.good.map (·.t)) = some p.acc

theorem Inv.exact {p : Pool} (h : Inv p) (hl : p.good.length < p.cfg.size) : Exact p := by
  obtain ⟨σ, h1, h2⟩ := h.path
  unfold Exact; rw [h1, h2 hl]

/-! ## promotion -/

theorem promoteLoop_spec (a0 : Acc) : ∀ (l : List E) (acc : Acc) (good : List E) (cache : List Nat),
    runAcc a0 (good.map (·.t)) = some acc →
    runAcc a0 ((promoteLoop acc good cache l).2.1.map (·.t)) = some (promoteLoop acc good cache l).1 ∧
    (∀ e ∈ (promoteLoop acc good cache l).2.1, e ∈ good ∨ e ∈ l) := by
  intro l
  induction l with
  | nil => intro acc good cache h; exact ⟨h, fun e he => Or.inl he⟩
  | cons e r ih =>
    intro acc good cache h
    unfold promoteLoop
    by_cases hok : (checkAcc acc e.t).1 = .ok
    · have happ := runAcc_append h hok
      simp only [hok, if_true]
      have := ih (checkAcc acc e.t).2 (good ++ [e]) cache (by simpa using happ)
      refine ⟨this.1, fun x hx => ?_⟩
      rcases this.2 x hx with h1 | h1
      · rcases List.mem_append.mp h1 with h2 | h2
        · exact Or.inl h2
        · simp at h2; subst h2; exact Or.inr (List.mem_cons_self ..)
      · exact Or.inr (List.mem_cons_of_mem _ h1)
    · have hsame := checkAcc_clean hok
      simp only [hok, if_false, hsame]
      have := ih acc good (cache.filter (· != e.id)) h
      refine ⟨this.1, fun x hx => ?_⟩
      rcases this.2 x hx with h1 | h1
      · exact Or.inl h1
      · exact Or.inr (List.mem_cons_of_mem _ h1)

theorem readyRun_mem (fut : List E) (a : Nat) : ∀ (cnt start : Nat), ∀ e ∈ readyRun fut a start cnt, e ∈ fut := by
  intro cnt
  induction cnt with
  | zero => intro start e he; simp [readyRun] at he
  | succ k ih =>
    intro start e he
    unfold readyRun at he
    split at he
    · simp at he
    · rename_i x hx
      rcases List.mem_cons.mp he with h | h
      · subst h; exact List.mem_of_find?_eq_some hx
      · exact ih _ e h

theorem promote_inv {p : Pool} (a : Nat) (h : Inv p) : Inv (promote p a) ∧ (promote p a).c = p.c ∧ (promote p a).cfg = p.cfg := by
  unfold promote
  simp only []
  split
  · -- no room: only the queue shrinks
    refine ⟨⟨h.path, h.gkind, ?_, h.ukind, h.imgs, h.nodup, h.fresh, h.good.1, ?_⟩, rfl, rfl⟩
    · intro e he; exact h.fkind e ((List.mem_filter.mp he).1)
    · intro e he; exact h.good.2 e ((List.mem_filter.mp he).1)
  · rename_i hneed
    have hroom : p.good.length < p.cfg.size := by omega
    have hex := h.exact hroom
    generalize hfut1 : p.fut.filter (fun e => !(e.t.from_ == a && decide (e.t.nonce < getn p.acc.nonce a))) = fut1
    generalize hready : readyRun fut1 a (getn p.acc.nonce a) (p.cfg.size - p.good.length) = ready
    have hmem1 : ∀ e ∈ fut1, e ∈ p.fut := by intro e he; rw [← hfut1] at he; exact (List.mem_filter.mp he).1
    have hrm : ∀ e ∈ ready, e ∈ p.fut := by
      intro e he; rw [← hready] at he; exact hmem1 e (readyRun_mem _ _ _ _ e he)
    have hspec := promoteLoop_spec (accOf p.c) ready p.acc p.good
      (dropIds p.cache (p.fut.filter (fun e => e.t.from_ == a && decide (e.t.nonce < getn p.acc.nonce a)))) hex
    generalize hpl : promoteLoop p.acc p.good
      (dropIds p.cache (p.fut.filter (fun e => e.t.from_ == a && decide (e.t.nonce < getn p.acc.nonce a)))) ready = res at hspec
    obtain ⟨acc', good', cache'⟩ := res
    simp only [] at hspec ⊢
    refine ⟨⟨⟨acc', hspec.1, fun _ => rfl⟩, ?_, ?_, h.ukind, h.imgs, h.nodup, h.fresh, ?_, ?_⟩, by first | rfl | trivial, by first | rfl | trivial⟩
    · intro e he
      rcases hspec.2 e he with h1 | h1
      · exact h.gkind e h1
      · exact h.fkind e (hrm e h1)
    · intro e he; exact h.fkind e (hmem1 e ((List.mem_filter.mp he).1))
    · intro e he
      rcases hspec.2 e he with h1 | h1
      · exact h.good.1 e h1
      · exact h.good.2 e (hrm e h1)
    · intro e he; exact h.good.2 e (hmem1 e ((List.mem_filter.mp he).1))

theorem promoteAll_inv {p : Pool} (h : Inv p) : ∀ k, Inv (promoteAll p k) ∧ (promoteAll p k).c = p.c ∧ (promoteAll p k).cfg = p.cfg := by
  intro k
  induction k with
  | zero => exact ⟨h, rfl, rfl⟩
  | succ k ih =>
    unfold promoteAll
    have := promote_inv k ih.1
    exact ⟨this.1, by rw [this.2.1, ih.2.1], by rw [this.2.2, ih.2.2]⟩

end Props.C15
