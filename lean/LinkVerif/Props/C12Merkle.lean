/-
C12 (part 1): the simple Merkle tree of `libs/crypto/merkle`.
`verify_sound`, `verify_complete`, `root_inj_same_length` and the kernel-checked fact that the root is
NOT injective across lists of different length (no leaf/inner domain separation).
The cryptographic law is the explicit hypothesis `Inj2 H2`; `Tree`/`Tree.node` is a model of it.
-/
import LinkVerif.Model.Merkle

namespace Props.C12
open Model.Merkle

/-- collision resistance of `SimpleHashFromTwoHashes`, idealised: the two-hash function is injective
in the pair of its operands (hypothesis of the theorems, never an axiom) -/
def Inj2 {D : Type} (H2 : D → D → D) : Prop := ∀ a b c d, H2 a b = H2 c d → a = c ∧ b = d

/-- a model of `Inj2`: free binary trees -/
inductive Tree where
  | leaf (n : Nat)
  | node (l r : Tree)
deriving DecidableEq, Repr, Inhabited

theorem tree_inj2 : Inj2 Tree.node := by
  intro a b c d h
  cases h
  exact ⟨rfl, rfl⟩

/-! ## unfolding equations -/

theorem root_nil {D : Type} [Inhabited D] (H2 : D → D → D) : root H2 ([] : List D) = default := by
  rw [root]

theorem root_single {D : Type} [Inhabited D] (H2 : D → D → D) (h : D) : root H2 [h] = h := by
  rw [root]

theorem root_split {D : Type} [Inhabited D] (H2 : D → D → D) (ls : List D) (h2 : 2 ≤ ls.length) :
    root H2 ls = H2 (root H2 (ls.take ((ls.length + 1) / 2))) (root H2 (ls.drop ((ls.length + 1) / 2))) := by
  match ls, h2 with
  | a :: b :: t, _ => rw [root]

theorem proofs_single {D : Type} [Inhabited D] (H2 : D → D → D) (h : D) : proofs H2 [h] = [[]] := by
  rw [proofs]

theorem proofs_split {D : Type} [Inhabited D] (H2 : D → D → D) (ls : List D) (h2 : 2 ≤ ls.length) :
    proofs H2 ls =
      (proofs H2 (ls.take ((ls.length + 1) / 2))).map (· ++ [root H2 (ls.drop ((ls.length + 1) / 2))])
      ++ (proofs H2 (ls.drop ((ls.length + 1) / 2))).map (· ++ [root H2 (ls.take ((ls.length + 1) / 2))]) := by
  match ls, h2 with
  | a :: b :: t, _ => rw [proofs]

theorem proofs_length_aux {D : Type} [Inhabited D] (H2 : D → D → D) :
    ∀ (n : Nat) (ls : List D), ls.length = n → (proofs H2 ls).length = ls.length := by
  intro n
  induction n using Nat.strongRecOn with
  | _ n ih =>
    intro ls h
    match ls, h with
    | [], _ => rw [proofs]; rfl
    | [x], _ => rw [proofs]; simp
    | a :: b :: t, h =>
      have h2 : 2 ≤ (a :: b :: t).length := by simp
      generalize hls : a :: b :: t = ls at *
      rw [proofs_split H2 _ h2]
      simp only [List.length_append, List.length_map]
      rw [ih _ (by rw [← h, List.length_take]; omega) _ rfl, ih _ (by rw [← h, List.length_drop]; omega) _ rfl]
      rw [List.length_take, List.length_drop]
      omega

theorem proofs_length {D : Type} [Inhabited D] (H2 : D → D → D) (ls : List D) :
    (proofs H2 ls).length = ls.length := proofs_length_aux H2 _ ls rfl

/-! ## soundness -/

/-- core of soundness, on the reversed aunt list -/
theorem computeRev_sound {D : Type} [Inhabited D] (H2 : D → D → D) (hinj : Inj2 H2) (leaf : D) :
    ∀ (arev : List D) (ls : List D) (i : Int),
      computeRev H2 leaf i ls.length arev = some (root H2 ls) → 0 ≤ i ∧ ls[i.toNat]? = some leaf := by
  intro arev
  induction arev with
  | nil =>
    intro ls i h
    simp only [computeRev] at h
    split at h
    · cases h
    · rename_i hb
      split at h
      · rename_i h1
        have hl : ls.length = 1 := by omega
        match ls, hl with
        | [x], _ =>
          rw [root_single] at h
          have hi : i = 0 := by simp only [List.length_cons, List.length_nil] at hb; omega
          subst hi
          simp only [Option.some.injEq] at h
          simp [h]
      · cases h
  | cons a rest ih =>
    intro ls i h
    simp only [computeRev] at h
    split at h
    · cases h
    · rename_i hb
      split at h
      · cases h
      · rename_i h1
        have h2 : 2 ≤ ls.length := by omega
        have hkI : ((ls.length : Int) + 1) / 2 = (((ls.length + 1) / 2 : Nat) : Int) := by omega
        rw [root_split H2 ls h2] at h
        split at h
        · rename_i hlt
          split at h
          · cases h
          · rename_i l hl
            simp only [Option.some.injEq] at h
            have hroot := (hinj _ _ _ _ h).1
            have hlen : ((ls.take ((ls.length + 1) / 2)).length : Int) = ((ls.length : Int) + 1) / 2 := by
              rw [List.length_take]; omega
            rw [hroot, ← hlen] at hl
            have := ih _ _ hl
            refine ⟨this.1, ?_⟩
            rw [List.getElem?_take] at this
            have hlt' : i.toNat < (ls.length + 1) / 2 := by omega
            simpa [hlt'] using this.2
        · rename_i hge
          split at h
          · cases h
          · rename_i r hr
            simp only [Option.some.injEq] at h
            have hroot := (hinj _ _ _ _ h).2
            have hlen : ((ls.drop ((ls.length + 1) / 2)).length : Int) = (ls.length : Int) - ((ls.length : Int) + 1) / 2 := by
              rw [List.length_drop]; omega
            rw [hroot, ← hlen] at hr
            have := ih _ _ hr
            refine ⟨by omega, ?_⟩
            rw [List.getElem?_drop] at this
            have he : (ls.length + 1) / 2 + (i - ((ls.length : Int) + 1) / 2).toNat = i.toNat := by omega
            rw [he] at this
            exact this.2

/-- **verify_sound**: a proof that verifies against the root of `ls` for index `i` and total `|ls|`
pins the leaf: `ls[i] = leaf` (and `0 ≤ i < |ls|`).  Only `Inj2 H2` is assumed. -/
theorem verify_sound {D : Type} [Inhabited D] [DecidableEq D] (H2 : D → D → D) (hinj : Inj2 H2)
    (ls : List D) (i : Int) (leaf : D) (aunts : List D)
    (h : verify H2 i ls.length leaf aunts (root H2 ls) = true) :
    0 ≤ i ∧ ls[i.toNat]? = some leaf := by
  unfold verify computeHashFromAunts at h
  split at h
  · cases h
  · rename_i c hc
    simp only [decide_eq_true_eq] at h
    subst h
    exact computeRev_sound H2 hinj leaf _ ls i hc

/-! ## a verifying proof fixes the leaf hash (for every total, whatever the root is) -/

/-- core: two runs of `computeHashFromAunts` for the same `(index, total)` that end in the same digest
started from the same leaf hash and used the same aunts.  No assumption on where the digest comes from. -/
theorem computeRev_unique {D : Type} (H2 : D → D → D) (hinj : Inj2 H2) (leaf₁ leaf₂ : D) :
    ∀ (ar₁ ar₂ : List D) (i n : Int) (r : D),
      computeRev H2 leaf₁ i n ar₁ = some r → computeRev H2 leaf₂ i n ar₂ = some r → leaf₁ = leaf₂ ∧ ar₁ = ar₂ := by
  intro ar₁
  induction ar₁ with
  | nil =>
    intro ar₂ i n r h₁ h₂
    simp only [computeRev] at h₁
    split at h₁
    · cases h₁
    · split at h₁
      · rename_i h1
        cases ar₂ with
        | nil =>
          simp only [computeRev] at h₂
          split at h₂
          · cases h₂
          · try rw [if_pos h1] at h₂
            simp only [Option.some.injEq] at h₁ h₂
            exact ⟨h₁.trans h₂.symm, rfl⟩
        | cons b rest =>
          simp only [computeRev] at h₂
          split at h₂
          · cases h₂
          · try rw [if_pos h1] at h₂
            cases h₂
      · cases h₁
  | cons a rest ih =>
    intro ar₂ i n r h₁ h₂
    simp only [computeRev] at h₁
    split at h₁
    · cases h₁
    · rename_i hb
      split at h₁
      · cases h₁
      · rename_i h1
        cases ar₂ with
        | nil =>
          simp only [computeRev] at h₂
          rw [if_neg hb, if_neg h1] at h₂
          cases h₂
        | cons b rest₂ =>
          simp only [computeRev] at h₂
          rw [if_neg hb, if_neg h1] at h₂
          split at h₁
          · rename_i hlt
            rw [if_pos hlt] at h₂
            split at h₁
            · cases h₁
            · rename_i l₁ hl₁
              split at h₂
              · cases h₂
              · rename_i l₂ hl₂
                simp only [Option.some.injEq] at h₁ h₂
                obtain ⟨hl, ha⟩ := hinj _ _ _ _ (h₁.trans h₂.symm)
                subst hl ha
                obtain ⟨e₁, e₂⟩ := ih rest₂ _ _ _ hl₁ hl₂
                exact ⟨e₁, by rw [e₂]⟩
          · rename_i hge
            rw [if_neg hge] at h₂
            split at h₁
            · cases h₁
            · rename_i r₁ hr₁
              split at h₂
              · cases h₂
              · rename_i r₂ hr₂
                simp only [Option.some.injEq] at h₁ h₂
                obtain ⟨ha, hr⟩ := hinj _ _ _ _ (h₁.trans h₂.symm)
                subst ha hr
                obtain ⟨e₁, e₂⟩ := ih rest₂ _ _ _ hr₁ hr₂
                exact ⟨e₁, by rw [e₂]⟩

/-- **verify_fixes_leaf**: for every total `n`, every index `i` and EVERY digest `r` (not only roots the
library produced): if two (leaf hash, proof) pairs verify against `r` at index `i` of `n`, they are the
same leaf hash and the same proof.  This is `root_inj_same_length` seen from the verifier. -/
theorem verify_fixes_leaf {D : Type} [DecidableEq D] (H2 : D → D → D) (hinj : Inj2 H2)
    (i n : Int) (r leaf₁ leaf₂ : D) (aunts₁ aunts₂ : List D)
    (h₁ : verify H2 i n leaf₁ aunts₁ r = true) (h₂ : verify H2 i n leaf₂ aunts₂ r = true) :
    leaf₁ = leaf₂ ∧ aunts₁ = aunts₂ := by
  unfold verify computeHashFromAunts at h₁ h₂
  split at h₁
  · cases h₁
  · rename_i c₁ hc₁
    split at h₂
    · cases h₂
    · rename_i c₂ hc₂
      simp only [decide_eq_true_eq] at h₁ h₂
      subst h₁
      subst h₂
      obtain ⟨e₁, e₂⟩ := computeRev_unique H2 hinj leaf₁ leaf₂ _ _ i n _ hc₁ hc₂
      exact ⟨e₁, List.reverse_inj.mp e₂⟩

/-- nothing verifies outside `0 ≤ i < n` -/
theorem verify_index_in_range {D : Type} [DecidableEq D] (H2 : D → D → D)
    (i n : Int) (r leaf : D) (aunts : List D) (h : verify H2 i n leaf aunts r = true) : 0 ≤ i ∧ i < n := by
  unfold verify computeHashFromAunts at h
  split at h
  · cases h
  · rename_i c hc
    cases hr : aunts.reverse with
    | nil =>
      rw [hr] at hc
      simp only [computeRev] at hc
      split at hc
      · cases hc
      · omega
    | cons a rest =>
      rw [hr] at hc
      simp only [computeRev] at hc
      split at hc
      · cases hc
      · omega

/-! ## completeness -/

theorem computeRev_complete {D : Type} [Inhabited D] (H2 : D → D → D) :
    ∀ (n : Nat) (ls : List D), ls.length = n → ∀ (i : Nat) (hi : i < ls.length) (pr : List D),
      (proofs H2 ls)[i]? = some pr →
      computeRev H2 ls[i] (i : Int) ls.length pr.reverse = some (root H2 ls) := by
  intro n
  induction n using Nat.strongRecOn with
  | _ n ih =>
    intro ls hn i hi pr hpr
    match ls, hn with
    | [], _ => simp at hi
    | [x], _ =>
      have : i = 0 := by simp at hi; omega
      subst this
      rw [proofs_single] at hpr
      simp only [List.getElem?_cons_zero, Option.some.injEq] at hpr
      subst hpr
      simp [computeRev, root_single]
    | a :: b :: t, hn =>
      have h2 : 2 ≤ (a :: b :: t).length := by simp
      generalize hls : a :: b :: t = ls at *
      have hkI : ((ls.length : Int) + 1) / 2 = (((ls.length + 1) / 2 : Nat) : Int) := by omega
      rw [proofs_split H2 ls h2] at hpr
      rw [root_split H2 ls h2]
      by_cases hlt : i < (ls.length + 1) / 2
      · have hlenL : (ls.take ((ls.length + 1) / 2)).length = (ls.length + 1) / 2 := by
          rw [List.length_take]; omega
        rw [List.getElem?_append_left (by rw [List.length_map, proofs_length, hlenL]; exact hlt)] at hpr
        rw [List.getElem?_map] at hpr
        cases hq : (proofs H2 (ls.take ((ls.length + 1) / 2)))[i]? with
        | none => rw [hq] at hpr; cases hpr
        | some q =>
          rw [hq] at hpr
          simp only [Option.map_some, Option.some.injEq] at hpr
          subst hpr
          have hiL : i < (ls.take ((ls.length + 1) / 2)).length := by rw [hlenL]; exact hlt
          have := ih _ (by rw [← hn, hlenL]; omega) _ rfl i hiL q hq
          rw [hlenL, List.getElem_take] at this
          simp only [List.reverse_append, List.reverse_cons, List.reverse_nil, List.nil_append, List.cons_append, computeRev]
          have hb : ¬ ((i : Int) ≥ (ls.length : Int) ∨ (i : Int) < 0 ∨ (ls.length : Int) ≤ 0) := by omega
          have h1 : ¬ ((ls.length : Int) = 1) := by omega
          have hl' : (i : Int) < ((ls.length : Int) + 1) / 2 := by omega
          rw [if_neg hb, if_neg h1, if_pos hl', hkI, this]
      · have hlenL : (ls.take ((ls.length + 1) / 2)).length = (ls.length + 1) / 2 := by
          rw [List.length_take]; omega
        have hlenR : (ls.drop ((ls.length + 1) / 2)).length = ls.length - (ls.length + 1) / 2 := by
          rw [List.length_drop]
        rw [List.getElem?_append_right (by rw [List.length_map, proofs_length, hlenL]; omega)] at hpr
        rw [List.length_map, proofs_length, hlenL, List.getElem?_map] at hpr
        cases hq : (proofs H2 (ls.drop ((ls.length + 1) / 2)))[i - (ls.length + 1) / 2]? with
        | none => rw [hq] at hpr; cases hpr
        | some q =>
          rw [hq] at hpr
          simp only [Option.map_some, Option.some.injEq] at hpr
          subst hpr
          have hiR : i - (ls.length + 1) / 2 < (ls.drop ((ls.length + 1) / 2)).length := by rw [hlenR]; omega
          have := ih _ (by rw [← hn, hlenR]; omega) _ rfl _ hiR q hq
          rw [hlenR, List.getElem_drop] at this
          have he : (ls.length + 1) / 2 + (i - (ls.length + 1) / 2) = i := by omega
          simp only [he] at this
          simp only [List.reverse_append, List.reverse_cons, List.reverse_nil, List.nil_append, List.cons_append, computeRev]
          have hb : ¬ ((i : Int) ≥ (ls.length : Int) ∨ (i : Int) < 0 ∨ (ls.length : Int) ≤ 0) := by omega
          have h1 : ¬ ((ls.length : Int) = 1) := by omega
          have hl' : ¬ ((i : Int) < ((ls.length : Int) + 1) / 2) := by omega
          have e1 : (i : Int) - ((ls.length : Int) + 1) / 2 = ((i - (ls.length + 1) / 2 : Nat) : Int) := by omega
          have e2 : (ls.length : Int) - ((ls.length : Int) + 1) / 2 = ((ls.length - (ls.length + 1) / 2 : Nat) : Int) := by omega
          rw [if_neg hb, if_neg h1, if_neg hl', e1, e2, this]

/-- **verify_complete**: the proof `SimpleProofsFromHashers` produces for leaf `i` verifies -/
theorem verify_complete {D : Type} [Inhabited D] [DecidableEq D] (H2 : D → D → D)
    (ls : List D) (i : Nat) (hi : i < ls.length) (pr : List D) (hpr : (proofs H2 ls)[i]? = some pr) :
    verify H2 (i : Int) ls.length ls[i] pr (root H2 ls) = true := by
  unfold verify computeHashFromAunts
  rw [computeRev_complete H2 _ ls rfl i hi pr hpr]
  simp

/-! ## the root commits to the leaves of a list of KNOWN length -/

theorem root_inj_same_length {D : Type} [Inhabited D] (H2 : D → D → D) (hinj : Inj2 H2) :
    ∀ (n : Nat) (xs ys : List D), xs.length = n → ys.length = n → root H2 xs = root H2 ys → xs = ys := by
  intro n
  induction n using Nat.strongRecOn with
  | _ n ih =>
    intro xs ys hx hy h
    match xs, ys, hx, hy with
    | [], [], _, _ => rfl
    | [x], [y], _, _ => rw [root_single, root_single] at h; rw [h]
    | [], _ :: _, hx, hy => simp at hx hy; omega
    | _ :: _, [], hx, hy => simp at hx hy; omega
    | [_], _ :: _ :: _, hx, hy => simp at hx hy; omega
    | _ :: _ :: _, [_], hx, hy => simp at hx hy; omega
    | a :: b :: t, c :: d :: u, hx, hy =>
      generalize hxs : a :: b :: t = xs at *
      generalize hys : c :: d :: u = ys at *
      have hx2 : 2 ≤ xs.length := by rw [← hxs]; simp
      have hy2 : 2 ≤ ys.length := by rw [← hys]; simp
      rw [root_split H2 xs hx2, root_split H2 ys hy2] at h
      obtain ⟨hl, hr⟩ := hinj _ _ _ _ h
      have e : ys.length = xs.length := by omega
      rw [e] at hl hr
      have tl := ih ((xs.length + 1) / 2) (by omega) _ _ (by rw [List.length_take]; omega) (by rw [List.length_take]; omega) hl
      have dr := ih (xs.length - (xs.length + 1) / 2) (by omega) _ _ (by rw [List.length_drop]) (by rw [List.length_drop]; omega) hr
      rw [← List.take_append_drop ((xs.length + 1) / 2) xs, ← List.take_append_drop ((xs.length + 1) / 2) ys, tl, dr]

/-- FULL STATEMENT (false): the root alone, without the number of leaves, commits to the list. -/
def C12_root_injective_statement : Prop :=
  ∀ (D : Type) [Inhabited D] (H2 : D → D → D), Inj2 H2 → ∀ xs ys : List D, xs ≠ [] → ys ≠ [] → root H2 xs = root H2 ys → xs = ys

/-- no leaf/inner domain separation: the one-leaf list `[node a b]` and the two-leaf list `[a, b]` have
the same root although `H2` is injective.  (In the code the number of leaves is committed separately:
`PartSetHeader.Total`, `Header.NumTxs`, the validator-set size for commits; the evidence list length is
covered only by the part-set hash.) -/
theorem C12_root_injective_counterexample : ¬ C12_root_injective_statement := by
  intro h
  have := h Tree Tree.node tree_inj2 [Tree.node (.leaf 0) (.leaf 1)] [.leaf 0, .leaf 1] (by simp) (by simp)
    (by rw [root_single, root_split _ _ (by simp)]; simp [root_single])
  cases this

/-! ## non-vacuity -/

example : verify Tree.node 1 3 (.leaf 1) [.leaf 0, .leaf 2] (root Tree.node [.leaf 0, .leaf 1, .leaf 2]) = true := by
  rw [root_split _ _ (by simp)]
  simp [root_single, root_split, verify, computeHashFromAunts, computeRev]

example : proofs Tree.node [.leaf 0, .leaf 1] = [[.leaf 1], [.leaf 0]] := by
  rw [proofs_split _ _ (by simp)]
  simp [proofs_single, root_single]

/-- non-vacuity of `verify_fixes_leaf`: two verifying runs exist (and coincide) -/
example : verify Tree.node 0 2 (.leaf 0) [.leaf 1] (Tree.node (.leaf 0) (.leaf 1)) = true := by decide

end Props.C12
