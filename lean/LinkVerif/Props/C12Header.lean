/-
C12 (part 3): `Header.Hash` commits to the value of every hashed header field.
Generic in the digest type; the laws are hypotheses: `Inj2 H2`, the key/value pair hash `KV` injective in
the pair, the field hash `FH` injective.
-/
import LinkVerif.Model.BlockId
import LinkVerif.Props.C12Merkle

namespace Props.C12
open Model.Merkle Model.BlockId

theorem insertByKey_perm {D : Type} (x : Bytes × D) (l : List (Bytes × D)) : (insertByKey x l).Perm (x :: l) := by
  induction l with
  | nil => exact List.Perm.refl _
  | cons y rest ih =>
    simp only [insertByKey]
    split
    · exact List.Perm.refl _
    · exact (List.Perm.cons y ih).trans (List.Perm.swap x y rest)

theorem sortByKey_perm {D : Type} (l : List (Bytes × D)) : (sortByKey l).Perm l := by
  induction l with
  | nil => exact List.Perm.refl _
  | cons x rest ih =>
    simp only [sortByKey, List.foldr_cons]
    exact (insertByKey_perm x _).trans (List.Perm.cons x ih)

/-- two association lists with the same duplicate-free key sequence that are permutations of each other
are equal -/
theorem eq_of_perm_of_keys {K V : Type} : ∀ (l1 l2 : List (K × V)), l1.Perm l2 → l1.map (·.1) = l2.map (·.1) →
    (l1.map (·.1)).Nodup → l1 = l2 := by
  intro l1
  induction l1 with
  | nil => intro l2 hp _ _; exact (List.Perm.nil_eq hp)
  | cons a t1 ih =>
    intro l2 hp hk hn
    cases l2 with
    | nil => exact absurd hp.symm.nil_eq (by simp)
    | cons b t2 =>
      simp only [List.map_cons, List.cons.injEq] at hk
      simp only [List.map_cons, List.nodup_cons] at hn
      have hmem : a ∈ b :: t2 := hp.subset List.mem_cons_self
      have hab : a = b := by
        rcases List.mem_cons.mp hmem with h | h
        · exact h
        · exfalso
          apply hn.1
          rw [hk.2]
          exact List.mem_map_of_mem (f := (·.1)) h
      subst hab
      rw [ih t2 (List.Perm.cons_inv hp) hk.2 hn.2]

/-- the vetted key list has no duplicate -/
theorem hashed_keys_nodup : (hashedFields.map (fun kf => kf.1.toUTF8.toList)).Nodup := by decide +kernel

/-- **header_hash_commits** (the header half of `perturb_changes_id`): two assignments of the 17 hashed
header fields with the same `Header.Hash` are the same assignment.  Changing any hashed field therefore
changes the block hash. -/
theorem header_hash_commits {D : Type} [Inhabited D] (H2 : D → D → D) (hinj : Inj2 H2)
    (KV : Bytes → D → D) (hKV : ∀ k v k' v', KV k v = KV k' v' → k = k' ∧ v = v')
    (FH : FVal → D) (hFH : Function.Injective FH)
    (vs ws : List FVal) (hv : vs.length = hashedFields.length) (hw : ws.length = hashedFields.length)
    (h : headerHashG H2 KV FH vs = headerHashG H2 KV FH ws) : vs = ws := by
  unfold headerHashG mapRootG at h
  generalize hl1 : (hashedFields.zip vs).map (fun kfv => (kfv.1.1.toUTF8.toList, FH kfv.2)) = l1 at h
  generalize hl2 : (hashedFields.zip ws).map (fun kfv => (kfv.1.1.toUTF8.toList, FH kfv.2)) = l2 at h
  have hk1 : l1.map (·.1) = hashedFields.map (fun kf => kf.1.toUTF8.toList) := by
    rw [← hl1, List.map_map]
    have : (hashedFields.zip vs).map (·.1) = hashedFields := List.map_fst_zip (by omega)
    conv => rhs; rw [← this]
    rw [List.map_map]
    rfl
  have hk2 : l2.map (·.1) = hashedFields.map (fun kf => kf.1.toUTF8.toList) := by
    rw [← hl2, List.map_map]
    have : (hashedFields.zip ws).map (·.1) = hashedFields := List.map_fst_zip (by omega)
    conv => rhs; rw [← this]
    rw [List.map_map]
    rfl
  have hs1 : (sortByKey l1).length = l1.length := (sortByKey_perm l1).length_eq
  have hs2 : (sortByKey l2).length = l2.length := (sortByKey_perm l2).length_eq
  have hlen : l1.length = l2.length := by
    have a := congrArg List.length hk1
    have b := congrArg List.length hk2
    simp only [List.length_map] at a b
    omega
  have hleaves := root_inj_same_length H2 hinj (sortByKey l1).length _ _ (by simp) (by simp; omega) h
  have hsorted : sortByKey l1 = sortByKey l2 := by
    apply map_inj_pairs _ _ hleaves
  have hperm : l1.Perm l2 := (sortByKey_perm l1).symm.trans (hsorted ▸ sortByKey_perm l2)
  have heq : l1 = l2 := eq_of_perm_of_keys l1 l2 hperm (hk1.trans hk2.symm) (hk1 ▸ hashed_keys_nodup)
  have hvals : vs.map FH = ws.map FH := by
    have a : l1.map (·.2) = vs.map FH := by
      rw [← hl1, List.map_map]
      have : (hashedFields.zip vs).map (·.2) = vs := List.map_snd_zip (by omega)
      conv => rhs; rw [← this]
      rw [List.map_map]
      rfl
    have b : l2.map (·.2) = ws.map FH := by
      rw [← hl2, List.map_map]
      have : (hashedFields.zip ws).map (·.2) = ws := List.map_snd_zip (by omega)
      conv => rhs; rw [← this]
      rw [List.map_map]
      rfl
    rw [← a, ← b, heq]
  exact map_inj_list FH hFH _ _ hvals
where
  map_inj_pairs : ∀ (xs ys : List (Bytes × D)), xs.map (fun kv => KV kv.1 kv.2) = ys.map (fun kv => KV kv.1 kv.2) → xs = ys := by
    intro xs
    induction xs with
    | nil => intro ys h; cases ys with
      | nil => rfl
      | cons y ys => simp at h
    | cons x xs ih => intro ys h; cases ys with
      | nil => simp at h
      | cons y ys =>
        simp only [List.map_cons, List.cons.injEq] at h
        have := hKV _ _ _ _ h.1
        rw [Prod.ext this.1 this.2, ih ys h.2]
  map_inj_list {α β : Type} (f : α → β) (hf : Function.Injective f) : ∀ (xs ys : List α), xs.map f = ys.map f → xs = ys := by
    intro xs
    induction xs with
    | nil => intro ys h; cases ys with
      | nil => rfl
      | cons y ys => simp at h
    | cons x xs ih => intro ys h; cases ys with
      | nil => simp at h
      | cons y ys =>
        simp only [List.map_cons, List.cons.injEq] at h
        rw [hf h.1, ih ys h.2]

/-- non-vacuity: a digest type on which the three laws hold together (free terms) -/
inductive HT where
  | nil
  | field (v : FVal)
  | pair (k : Bytes) (v : HT)
  | node (l r : HT)

instance : Inhabited HT := ⟨.nil⟩

example : Inj2 HT.node ∧ (∀ k v k' v', HT.pair k v = HT.pair k' v' → k = k' ∧ v = v') ∧ Function.Injective HT.field := by
  refine ⟨?_, ?_, ?_⟩
  · intro a b c d h; cases h; exact ⟨rfl, rfl⟩
  · intro k v k' v' h; cases h; exact ⟨rfl, rfl⟩
  · intro a b h; cases h; rfl

end Props.C12
