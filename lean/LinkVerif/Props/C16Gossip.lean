/-
C16, gossip side — the per-peer gossip goroutines (no recover) work on a peer state whose bit arrays the PEER supplies.

What is proved about libs/common/bit_array.go and consensus/reactor.go PeerState AS THE CODE IS (Model.PeerBits,
Model.PeerState; tied to the real code by the `ba`/`ps` differential ops of the C16 harness):

* for CONSISTENT operands of ANY two sizes (`BA.WF`: what NewBitArray builds) `Sub`, `and`, `Not`, `getIndex`/`setIndex`
  at non-negative indices and `PickRandom` perform no out-of-range index, no oversized allocation, no `rand.Intn(n ≤ 0)`;
  `Sub` keeps the NODE's size and `PickRandom` answers an index below it, so `votes.GetByIndex(index)` /
  `parts.GetPart(index)` are in range (the index obligations of PickVoteToSend / gossipDataRoutine);
* what `Sub` leaves (peer array at least node-sized: the regular case) is a bit the node has and the peer lacks;
* all of this is FALSE for the arrays a peer can actually send, because the decoder fills `Bits` and `Elems`
  independently and nothing validates them: kernel-checked counterexamples = the messages the harness found on the tree
  (proposed/C16-peer-bitarray-unvalidated.md); `Or` is false even for consistent operands of different word counts;
* the peer state stores CommitStep.BlockParts and ProposalPOL.ProposalPOL exactly as received (`peer_controls_*`),
  while the vote arrays are allocated by the node with the size the NODE passes (`node_sizes_its_vote_arrays`).
-/
import LinkVerif.Model.PeerState
import LinkVerif.Props.C16

namespace Props.C16Gossip
open Model.PeerInput Model.PeerBits Model.PeerState

/-! ## arithmetic of word counts -/

theorem nwords_eq {b : Int} (h0 : 0 ≤ b) (h1 : b ≤ 2 ^ 40) : nwords b = (b + 63) / 64 := by
  unfold nwords
  have hin : Go.InI64 (b + 63) := by unfold Go.InI64 Go.minI64 Go.maxI64; omega
  rw [Go.wrapI64_id hin]
  exact Int.tdiv_eq_ediv_of_nonneg (by omega)

theorem WF.bits_le {b : BA} (h : b.WF) : b.bits ≤ 2 ^ 23 := h.2.1

theorem WF.len {b : BA} (h : b.WF) : (b.elems.length : Int) = (b.bits + 63) / 64 := by
  have := h.2.2
  rwa [nwords_eq (by have := h.1; omega) (by have := WF.bits_le h; omega)] at this

/-! ## the loops -/

theorem goCopy_length (dst src : List Word) : (goCopy dst src).length = dst.length := by
  unfold goCopy; simp; omega

theorem makeWords_ok {n : Int} (site : String) (h0 : 0 ≤ n) (h1 : n ≤ 2 ^ 18) :
    makeWords n site = .ok (List.replicate n.toNat 0) := by
  unfold makeWords allocBound
  have : ¬ (n < 0 ∨ n > 2 ^ 45) := by omega
  simp only [this, if_false]
  have : ¬ n.toNat * 8 > 2 ^ 26 := by omega
  simp only [this, if_false]

theorem copyBits_ok (b : BA) {bits : Int} (h0 : 0 ≤ bits) (h1 : bits ≤ 2 ^ 23) :
    ∃ c, copyBits b bits = .ok c ∧ c.bits = bits ∧ (c.elems.length : Int) = (bits + 63) / 64 := by
  unfold copyBits
  have hn := nwords_eq h0 (by omega : bits ≤ 2 ^ 40)
  rw [makeWords_ok _ (by rw [hn]; omega) (by rw [hn]; omega)]
  refine ⟨_, rfl, rfl, ?_⟩
  simp only [goCopy_length, List.length_replicate]
  rw [hn]; omega

theorem zipLoop_ok (f : Word → Word → Word) (c o : List Word) (site : String) (h : c.length ≤ o.length) :
    zipLoop f c o site = .ok (List.zipWith f c o) := by
  unfold zipLoop
  have : ¬ o.length < c.length := by omega
  simp only [this, if_false]

/-- the index obligation of `and`: the loop runs over min(Bits) words and reads the SAME positions of `o` -/
theorem andRaw_total (a o : BA) (ha : a.WF) (ho : o.WF) :
    ∃ r, andRaw a o = .ok r ∧ r.bits = min a.bits o.bits ∧ (r.elems.length : Int) = (min a.bits o.bits + 63) / 64 := by
  unfold andRaw
  have hab := WF.bits_le ha; have hob := WF.bits_le ho
  obtain ⟨c, hc, hcb, hcl⟩ := copyBits_ok a (bits := min a.bits o.bits) (by have := ha.1; have := ho.1; omega) (by omega)
  have hol := WF.len ho
  have hle : c.elems.length ≤ o.elems.length := by omega
  simp only [hc, bind, Except.bind, zipLoop_ok _ _ _ _ hle]
  refine ⟨_, rfl, hcb, ?_⟩
  simp only [List.length_zipWith]; omega

theorem notRaw_WF {o : BA} (ho : o.WF) : (notRaw o).WF := by
  unfold BA.WF notRaw at *; simpa using ho

/-! ## Sub: the operation of every gossip iteration (node array minus what the peer claims) -/

/-- regular case (peer array at least as large as the node's): `bA.and(o.Not())` -/
theorem sub_total_le (a o : BA) (ha : a.WF) (ho : o.WF) (hle : a.bits ≤ o.bits) :
    ∃ r, sub (some a) (some o) = .ok (some r) ∧ r.bits = a.bits ∧ (r.elems.length : Int) = (a.bits + 63) / 64 := by
  unfold sub
  have : ¬ a.bits > o.bits := by omega
  simp only [this, if_false]
  obtain ⟨r, hr, hb, hl⟩ := andRaw_total a (notRaw o) ha (notRaw_WF ho)
  have hmin : min a.bits (notRaw o).bits = a.bits := by unfold notRaw; simp; omega
  rw [hmin] at hb hl
  exact ⟨r, by simp only [hr, bind, Except.bind], hb, hl⟩

theorem getIndexRaw_ok (b : BA) (hl : (b.elems.length : Int) = (b.bits + 63) / 64) (i : Int) (h0 : 0 ≤ i) :
    ∃ v, getIndexRaw b i = .ok v := by
  unfold getIndexRaw
  by_cases h : i ≥ b.bits
  · simp only [h, if_true]; exact ⟨_, rfl⟩
  · simp only [h, if_false]
    have hd : Int.tdiv i 64 = i / 64 := Int.tdiv_eq_ediv_of_nonneg h0
    have hlt : (i / 64).toNat < b.elems.length := by omega
    obtain ⟨w, hw⟩ := Props.C16.index_ok b.elems (Int.tdiv i 64) "common.(*BitArray).getIndex" (by rw [hd]; omega) (by rw [hd]; exact hlt)
    simp only [hw, bind, Except.bind]; exact ⟨_, rfl⟩

theorem setIndexRaw_ok (b : BA) (hl : (b.elems.length : Int) = (b.bits + 63) / 64) (i : Int) (h0 : 0 ≤ i) (v : Bool) :
    ∃ r b', setIndexRaw b i v = .ok (r, b') ∧ b'.bits = b.bits ∧ b'.elems.length = b.elems.length := by
  unfold setIndexRaw
  by_cases h : i ≥ b.bits
  · simp only [h, if_true]; exact ⟨_, _, rfl, rfl, rfl⟩
  · simp only [h, if_false]
    have hd : Int.tdiv i 64 = i / 64 := Int.tdiv_eq_ediv_of_nonneg h0
    have hlt : (i / 64).toNat < b.elems.length := by omega
    obtain ⟨w, hw⟩ := Props.C16.index_ok b.elems (Int.tdiv i 64) "common.(*BitArray).setIndex" (by rw [hd]; omega) (by rw [hd]; exact hlt)
    simp only [hw, bind, Except.bind]
    exact ⟨_, _, rfl, rfl, by simp⟩

/-- the bit loop of the other branch keeps size and word count and never leaves either array -/
theorem subBits_ok (o : BA) (hol : (o.elems.length : Int) = (o.bits + 63) / 64) :
    ∀ (fuel : Nat) (c : BA) (idx : Int), 0 ≤ idx → (c.elems.length : Int) = (c.bits + 63) / 64 →
      ∃ r, subBits c o idx fuel = .ok r ∧ r.bits = c.bits ∧ r.elems.length = c.elems.length := by
  intro fuel
  induction fuel with
  | zero => intro c idx _ _; exact ⟨c, rfl, rfl, rfl⟩
  | succ n ih =>
    intro c idx h0 hcl
    unfold subBits
    by_cases h : idx < o.bits
    · simp only [h, if_true]
      obtain ⟨cv, hcv⟩ := getIndexRaw_ok c hcl idx h0
      obtain ⟨ov, hov⟩ := getIndexRaw_ok o hol idx h0
      cases cv with
      | false =>
        obtain ⟨r, c', hs, hb, hl⟩ := setIndexRaw_ok c hcl idx h0 false
        obtain ⟨r', hr', hb', hl'⟩ := ih c' (idx + 1) (by omega) (by rw [hb, hl]; exact hcl)
        refine ⟨r', ?_, by rw [hb', hb], by rw [hl', hl]⟩
        simp [hcv, hs, bind, Except.bind, hr']
      | true =>
        obtain ⟨r, c', hs, hb, hl⟩ := setIndexRaw_ok c hcl idx h0 (!ov)
        obtain ⟨r', hr', hb', hl'⟩ := ih c' (idx + 1) (by omega) (by rw [hb, hl]; exact hcl)
        refine ⟨r', ?_, by rw [hb', hb], by rw [hl', hl]⟩
        simp [hcv, hov, hs, bind, Except.bind, hr']
    · simp only [h, if_false]; exact ⟨c, rfl, rfl, rfl⟩

/-- **index obligations of `Sub`, all sizes**: for consistent operands of ANY two sizes `Sub` answers (no index out of
range in either array, no allocation beyond the node's own word count), and the result has the NODE's size and word count —
so the index `PickRandom` draws from it is an index into the node's own votes / parts -/
theorem sub_total (a o : BA) (ha : a.WF) (ho : o.WF) :
    ∃ r, sub (some a) (some o) = .ok (some r) ∧ r.bits = a.bits ∧ (r.elems.length : Int) = (a.bits + 63) / 64 := by
  by_cases hle : a.bits ≤ o.bits
  · exact sub_total_le a o ha ho hle
  · have hgt : a.bits > o.bits := by omega
    have hal := WF.len ha; have hol := WF.len ho
    have ho0 := ho.1
    unfold sub
    simp only [hgt, if_true]
    have hclr : ¬ (o.elems.length - 1 > a.elems.length) := by omega
    unfold subClear
    simp only [hclr, if_false, bind, Except.bind]
    have hne : ¬ o.elems.length = 0 := by omega
    simp only [hne, if_false]
    have hlen : ((List.replicate (o.elems.length - 1) (0 : Word) ++ List.drop (o.elems.length - 1) a.elems).length : Int)
        = (a.bits + 63) / 64 := by
      simp only [List.length_append, List.length_replicate, List.length_drop]; omega
    obtain ⟨r, hr, hb, hl⟩ := subBits_ok o hol (o.bits - ((o.elems.length : Int) - 1) * 64).toNat
      ⟨a.bits, List.replicate (o.elems.length - 1) 0 ++ List.drop (o.elems.length - 1) a.elems⟩
      (((o.elems.length : Int) - 1) * 64) (by omega) hlen
    simp only [hr]
    exact ⟨r, rfl, hb, by rw [hl]; exact hlen⟩

/-! ## PickRandom: the index it can answer -/

theorem mem_setBitsBelow {w : Word} {n j : Nat} (h : j ∈ setBitsBelow w n) : j < n ∧ w.getLsbD j = true := by
  unfold setBitsBelow at h
  simp only [List.mem_filter, List.mem_range] at h
  exact h

theorem mem_pickInner : ∀ (ws : List Word) (k : Nat) (i : Int), i ∈ pickInner ws k →
    (64 * k : Int) ≤ i ∧ i < 64 * (k + ws.length - 1 : Nat) := by
  intro ws
  induction ws with
  | nil => intro k i h; simp [pickInner] at h
  | cons w rest ih =>
    intro k i h
    cases rest with
    | nil => simp [pickInner] at h
    | cons w2 rest2 =>
      simp only [pickInner, List.mem_append, List.mem_map] at h
      rcases h with ⟨j, hj, rfl⟩ | h
      · have := (mem_setBitsBelow hj).1
        simp only [List.length_cons]; omega
      · have := ih (k + 1) i h
        simp only [List.length_cons] at this ⊢; omega

/-- **index obligation of `PickRandom`**: on a consistent array it never reaches `rand.Intn(n ≤ 0)` and every index it
can answer is below `Bits` — with `sub_total`: below the NODE's size -/
theorem pick_in_range (b : BA) (hb : b.WF) :
    ∃ cs, pickCands b = .ok cs ∧ ∀ i ∈ cs, 0 ≤ i ∧ i < b.bits := by
  have hl := WF.len hb
  have h0 := hb.1
  unfold pickCands
  cases hlast : b.elems.getLast? with
  | none =>
    exact ⟨[], rfl, by simp⟩
  | some last =>
    simp only []
    have hm : Int.tmod b.bits 64 = b.bits % 64 := Int.tmod_eq_emod_of_nonneg (by omega)
    rw [hm]
    by_cases hz : b.bits % 64 = 0
    · simp only [hz, if_true]
      have : ¬ ((64 : Int) < 0) := by omega
      simp only [this, if_false]
      refine ⟨_, rfl, ?_⟩
      intro i hi
      simp only [List.mem_append, List.mem_map] at hi
      rcases hi with hi | ⟨j, hj, rfl⟩
      · have := mem_pickInner b.elems 0 i hi; omega
      · have := (mem_setBitsBelow hj).1
        have hpos : b.elems.length ≥ 1 := by
          cases hbe : b.elems with
          | nil => simp [hbe] at hlast
          | cons _ _ => simp
        have : (64 : Int).toNat = 64 := rfl
        omega
    · simp only [hz, if_false]
      have : ¬ (b.bits % 64 < 0) := by omega
      simp only [this, if_false]
      refine ⟨_, rfl, ?_⟩
      intro i hi
      simp only [List.mem_append, List.mem_map] at hi
      rcases hi with hi | ⟨j, hj, rfl⟩
      · have := mem_pickInner b.elems 0 i hi; omega
      · have := (mem_setBitsBelow hj).1
        have hpos : b.elems.length ≥ 1 := by
          cases hbe : b.elems with
          | nil => simp [hbe] at hlast
          | cons _ _ => simp
        omega

/-- one gossip iteration, bit arrays only: node array `a`, peer-claimed array `o`, both consistent, ANY sizes: the
difference is computed without fault and every index that can be picked from it is `0 ≤ i < a.bits` (the node's size) -/
theorem gossip_pick_index_in_node_range (a o : BA) (ha : a.WF) (ho : o.WF) :
    ∃ d cs, sub (some a) (some o) = .ok (some d) ∧ pickCands d = .ok cs ∧ ∀ i ∈ cs, 0 ≤ i ∧ i < a.bits := by
  obtain ⟨d, hd, hb, hl⟩ := sub_total a o ha ho
  have hdwf : d.WF := by
    refine ⟨by rw [hb]; exact ha.1, by rw [hb]; exact ha.2.1, ?_⟩
    rw [nwords_eq (by rw [hb]; have := ha.1; omega) (by rw [hb]; have := WF.bits_le ha; omega), hb]; exact hl
  obtain ⟨cs, hcs, hr⟩ := pick_in_range d hdwf
  exact ⟨d, cs, hd, hcs, fun i hi => by have := hr i hi; rw [hb] at this; exact this⟩

/-! ## what the peer can actually send: `Bits` and `Elems` are independent — every statement above fails -/

/-- the full statement one would want: for EVERY array a peer can put into a message -/
def sub_total_statement : Prop :=
  ∀ (a o : BA), a.WF → ∃ r, sub (some a) (some o) = .ok r

/-- CommitStep.BlockParts / ProposalPOL.ProposalPOL = {Bits: 4, Elems: []} against a 4-validator (or 4-part) node array:
`and` reads o.Elems[0] — in gossipDataRoutine / gossipVotesRoutine, which have no recover -/
theorem sub_total_counterexample : ¬ sub_total_statement := by
  intro h
  obtain ⟨r, hr⟩ := h ⟨4, [15#64]⟩ ⟨4, []⟩ (by decide)
  have e : sub (some ⟨4, [15#64]⟩) (some ⟨4, []⟩) = .error (.panic "common.(*BitArray).and") := by decide
  rw [e] at hr; cases hr

/-- more words than bits, peer array "smaller": the first loop of the other branch runs off the node's array -/
theorem sub_gt_counterexample :
    sub (some ⟨70, [0#64, 0#64]⟩) (some ⟨1, [0#64, 0#64, 0#64, 0#64]⟩) = .error (.panic "common.(*BitArray).Sub") := by decide

/-- negative `Bits` with a word: `PickRandom` calls `rand.Intn(-1)` (gossipDataForCatchup: `prs.ProposalBlockParts.Not().PickRandom()`).
math/rand panics; cmn.Rand.Intn holds the process-wide mutex without a deferred unlock, so besides the panic every later
RandIntn of the process blocks for ever (seen by the harness as calls that do not return) -/
theorem pick_negative_bits_counterexample :
    pick (Model.PeerBits.not (some ⟨-1, [0#64]⟩)) = .error (.panic "common.RandIntn") := by decide

/-- `Or` sizes its result by max(Bits): VoteSetBits.Votes = {Bits: 2^40, Elems: []} asks for 128 GiB inside Receive
(a Go out-of-memory is fatal, no recover helps) -/
theorem or_alloc_counterexample :
    Model.PeerBits.or (some ⟨4, [0#64]⟩) (some ⟨2 ^ 40, []⟩) = .error (.oom (2 ^ 37)) := by decide

/-- `Or` is not even total on CONSISTENT operands: the loop runs over max(Bits) words and reads o.Elems[i] — a 65-bit
array or-ed with a 4-bit one indexes past the smaller one (ApplyVoteSetBitsMessage, inside Receive: recovered per
connection, the peer is dropped — allowed by the property, recorded here because the model follows the code) -/
def or_total_statement : Prop := ∀ (a o : BA), a.WF → o.WF → ∃ r, Model.PeerBits.or (some a) (some o) = .ok r

theorem or_total_counterexample : ¬ or_total_statement := by
  intro h
  obtain ⟨r, hr⟩ := h ⟨65, [0#64, 0#64]⟩ ⟨4, [0#64]⟩ (by decide) (by decide)
  have e : Model.PeerBits.or (some ⟨65, [0#64, 0#64]⟩) (some ⟨4, [0#64]⟩) = .error (.panic "common.(*BitArray).Or") := by decide
  rw [e] at hr; cases hr

/-- `Or` where it does hold: the other operand has at least as many bits -/
theorem or_total_partial (a o : BA) (ha : a.WF) (ho : o.WF) (hle : a.bits ≤ o.bits) :
    ∃ r, Model.PeerBits.or (some a) (some o) = .ok (some r) ∧ r.bits = o.bits := by
  unfold Model.PeerBits.or
  have hmax : max a.bits o.bits = o.bits := by omega
  simp only [hmax]
  obtain ⟨c, hc, hcb, hcl⟩ := copyBits_ok a (bits := o.bits) (by have := ho.1; omega) (WF.bits_le ho)
  have hol := WF.len ho
  have hle' : c.elems.length ≤ o.elems.length := by omega
  simp only [hc, bind, Except.bind, zipLoop_ok _ _ _ _ hle']
  exact ⟨_, rfl, hcb⟩

/-- `Sub` as written clears the node's OWN leading words when the peer's array is smaller and longer than one word
(`c.Elems[i] &= ^c.Elems[i]`): votes 0..63 of a 130-validator set are never offered to a peer claiming a 70-bit array.
No fault, no wrong send (soundness below still holds) — a liveness quirk, kept in the model because the code has it -/
theorem sub_clears_own_words_example :
    sub (some ⟨130, [BitVec.allOnes 64, BitVec.allOnes 64, 3#64]⟩) (some ⟨70, [0#64, 0#64]⟩)
      = .ok (some ⟨130, [0#64, BitVec.allOnes 64, 3#64]⟩) := by decide

/-! ## soundness of what is picked (regular case: the peer's array is at least node-sized) -/

theorem getElem?_zipWith_and_not (as os : List Word) (k : Nat) (w : Word)
    (h : (List.zipWith (· &&& ·) as (os.map (~~~ ·)))[k]? = some w) :
    ∃ x y : Word, as[k]? = some x ∧ os[k]? = some y ∧ w = x &&& ~~~ y := by
  rw [List.getElem?_zipWith] at h
  cases hx : as[k]? with
  | none => simp [hx] at h
  | some x =>
    cases hy : os[k]? with
    | none => simp [hx, hy] at h
    | some y =>
      simp [hx, hy] at h
      exact ⟨x, y, rfl, rfl, h.symm⟩

theorem andRaw_eq (a o : BA) (ha : a.WF) (hle : a.bits ≤ o.bits) (hlen : a.elems.length ≤ o.elems.length) :
    andRaw a o = .ok ⟨a.bits, List.zipWith (· &&& ·) a.elems o.elems⟩ := by
  have hmin : min a.bits o.bits = a.bits := by omega
  have hab := WF.bits_le ha
  have h0 := ha.1
  have hn := nwords_eq (by omega : 0 ≤ a.bits) (by omega : a.bits ≤ 2 ^ 40)
  have hmk : makeWords (nwords a.bits) "common.(*BitArray).copyBits" = .ok (List.replicate (nwords a.bits).toNat 0) :=
    makeWords_ok _ (by rw [hn]; omega) (by rw [hn]; omega)
  have hal := ha.2.2
  have h1 : (List.replicate (nwords a.bits).toNat (0 : Word)).length = a.elems.length := by
    simp only [List.length_replicate]; omega
  have hcopy : goCopy (List.replicate (nwords a.bits).toNat (0 : Word)) a.elems = a.elems := by
    unfold goCopy
    rw [h1, List.take_length, List.drop_eq_nil_of_le (by omega), List.append_nil]
  unfold andRaw copyBits
  simp only [hmin, hmk, bind, Except.bind, hcopy, zipLoop_ok _ _ _ _ hlen]

/-- **what may be sent is what the node has and the peer (claims it) lacks**, word by word: every word of the difference
is `node &&& ~~~peer` of the same position (so a set bit is set in the node's word and clear in the peer's) -/
theorem sub_sound_le (a o : BA) (ha : a.WF) (ho : o.WF) (hle : a.bits ≤ o.bits) :
    ∃ r, sub (some a) (some o) = .ok (some r) ∧
      ∀ (k : Nat) (w : Word), r.elems[k]? = some w → ∃ x y : Word, a.elems[k]? = some x ∧ o.elems[k]? = some y ∧ w = x &&& ~~~ y := by
  unfold sub
  have : ¬ a.bits > o.bits := by omega
  simp only [this, if_false]
  have hol := WF.len ho; have hal := WF.len ha
  have hlen : a.elems.length ≤ (notRaw o).elems.length := by unfold notRaw; simp only [List.length_map]; omega
  rw [andRaw_eq a (notRaw o) ha (by unfold notRaw; exact hle) hlen]
  simp only [bind, Except.bind]
  refine ⟨_, rfl, ?_⟩
  intro k w hk
  exact getElem?_zipWith_and_not a.elems o.elems k w hk

/-! ## the peer state: which arrays are the peer's, which the node's -/

theorem store_get (ps : PS) (b : BA) : (ps.store (some b)).1.get (ps.store (some b)).2 = some b := by
  unfold PS.store PS.get; simp

/-- CommitStep: the block-part bit array of the peer state is EXACTLY what the peer sent, whatever it is -/
theorem peer_controls_parts (ps : PS) (h : Nat) (total : Int) (hash : Nat) (b : BA) (hh : ps.prs.height = h) :
    let ps' := applyCommitStep ps h total hash (some b)
    ps'.get ps'.prs.parts = some b ∧ ps'.prs.partsTotal = total := by
  unfold applyCommitStep
  have : ¬ ps.prs.height ≠ h := by simp [hh]
  simp only [this, if_false]
  constructor
  · exact store_get ps b
  · first | rfl | trivial

/-- ProposalPOL: likewise (the POL round the peer itself announced with an unsigned Proposal) -/
theorem peer_controls_pol (ps : PS) (h : Nat) (r : Int) (b : BA) (hh : ps.prs.height = h) (hr : ps.prs.polRound = r) :
    let ps' := applyProposalPOL ps h r (some b)
    ps'.get ps'.prs.pol = some b := by
  unfold applyProposalPOL
  have h1 : ¬ ps.prs.height ≠ h := by simp [hh]
  have h2 : ¬ ps.prs.polRound ≠ r := by simp [hr]
  simp only [h1, h2, if_false]
  exact store_get ps b

/-- the vote arrays are the NODE's: on a peer state that has none yet `ensureVoteBitArrays` allocates all four with the
size the node passes (the reactor passes cs.Validators.Size() / cs.LastCommit.Size(), never a peer value) -/
theorem node_sizes_its_vote_arrays (h : Nat) (r : Int) (n : Int) (h0 : 0 < n) (h1 : n ≤ 2 ^ 18) :
    ∃ ps', ensureVoteBitArrays { prs := { height := h, round := r } } h n = .ok ps' ∧
      (ps'.get ps'.prs.prevotes).map (·.bits) = some n ∧ (ps'.get ps'.prs.precommits).map (·.bits) = some n ∧
      (ps'.get ps'.prs.catchup).map (·.bits) = some n ∧ (ps'.get ps'.prs.pol).map (·.bits) = some n := by
  have hn := nwords_eq (by omega : 0 ≤ n) (by omega : n ≤ 2 ^ 40)
  have hnew : newBitArray n = .ok (some ⟨n, List.replicate (nwords n).toNat 0⟩) := by
    unfold newBitArray
    have : ¬ n ≤ 0 := by omega
    simp only [this, if_false]
    rw [makeWords_ok _ (by rw [hn]; omega) (by rw [hn]; omega)]; rfl
  unfold ensureVoteBitArrays
  simp [PS.alloc, hnew, PS.store, PS.get, bind, Except.bind, pure, Except.pure]

/-! ## the failing inputs as message sequences on the peer state (kernel-checked replays of the harness witnesses) -/

/-- gossipVotesRoutine: step announcement for round 1, unsigned proposal with POL round 0, ProposalPOL {Bits:4, Elems:[]};
then one PickVoteToSend with the node's round-0 prevotes (4 validators) faults -/
theorem gossip_votes_counterexample :
    (do let ps := applyNewRoundStep {} 5 1 1 0
        let ps ← setHasProposal ps 5 1 1 7 0
        let ps := applyProposalPOL ps 5 0 (some ⟨4, []⟩)
        pickVoteToSend ps { height := 5, round := 0, type := 1, size := 4, isCommit := false, bits := some ⟨4, [15#64]⟩ } none)
      = .error (.panic "common.(*BitArray).and") := by decide

/-- gossipDataRoutine: step announcement, CommitStep with the right header and BlockParts {Bits:1, Elems:[]};
`rs.ProposalBlockParts.BitArray().Sub(prs.ProposalBlockParts.Copy())` faults -/
theorem gossip_data_counterexample :
    (let ps := applyNewRoundStep {} 5 0 1 0
     let ps := applyCommitStep ps 5 1 7 (some ⟨1, []⟩)
     sub (some ⟨1, [1#64]⟩) (ps.get ps.prs.parts)) = .error (.panic "common.(*BitArray).and") := by decide

/-! ## T2: the per-peer goroutines and the guards in front of peer-sized arrays -/

open Gen.C16Facts in
/-- AddPeer starts exactly these goroutines, and none of them has a recover (so a panic in any of them ends the process:
the theorems above are what stands between a peer and that).  A change of this table (a routine added, a recover added)
breaks the `decide` and has to be reviewed. -/
theorem per_peer_goroutines_fact :
    peerGoroutines = [("gossipDataRoutine", false), ("gossipVotesRoutine", false), ("queryMaj23Routine", false)] := by decide

open Gen.C16Facts in
/-- where the reactor stores a bit array taken from a message, and whether a validation of that array precedes the store -/
theorem peer_bitarray_stores_fact :
    peerBitArrayStores = [("ApplyCommitStepMessage", "ps.PRS.ProposalBlockParts = msg.BlockParts", true),
                          ("ApplyProposalPOLMessage", "ps.PRS.ProposalPOL = msg.ProposalPOL", true),
                          ("ApplyVoteSetBitsMessage", "otherVotes.Or(msg.Votes)", true)] := by decide

/-! ## Non-vacuity -/
example : (⟨4, [15#64]⟩ : BA).WF := by decide
example : (⟨130, [0#64, 0#64, 3#64]⟩ : BA).WF := by decide
example : ¬ (⟨4, []⟩ : BA).WF := by decide
example : sub (some ⟨4, [15#64]⟩) (some ⟨4, [5#64]⟩) = .ok (some ⟨4, [10#64]⟩) := by decide
example : pick (some ⟨4, [10#64]⟩) = .ok [1, 3] := by decide
example : sub (some ⟨4, [15#64]⟩) (some ⟨200, [5#64, 0#64, 0#64, 0#64]⟩) = .ok (some ⟨4, [10#64]⟩) := by decide
example : sub (some ⟨70, [15#64, 1#64]⟩) (some ⟨4, [5#64]⟩) = .ok (some ⟨70, [10#64, 1#64]⟩) := by decide
example : (do let ps := applyNewRoundStep {} 5 1 1 0
              let ps ← ensureVoteBitArrays ps 5 4
              let r ← pickVoteToSend ps { height := 5, round := 1, type := 1, size := 4, isCommit := false, bits := some ⟨4, [6#64]⟩ } (some 2)
              pure (r.2.1, r.2.2)) = .ok (Picked.vote 2, true) := by decide

end Props.C16Gossip
