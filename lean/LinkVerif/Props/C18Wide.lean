/-
C18, widening round: the mechanisms reached by a peer that completed the handshake and by the node's own send API.
  * nonces: `incrNonce` is +1 modulo 256^len; the two directions use nonces of different parity and step by 2, so no nonce
    value is ever used by both directions, and none twice within a direction before 2^191 frames
  * sealed frames (the PEER chooses the frame type): a frame opens only for the current receive index, which then advances:
    no replay, no reordering
  * allocation: `Read` tests the length a compressed frame ANNOUNCES before snappy allocates it (3c63eeb): `C18_alloc_holds`
  * TrySend: a full queue refuses and changes nothing; an accepted message goes to the end of the queue
  * a message that arrives on the connection authenticated as k reaches the reactors as coming from ID(k)
-/
import LinkVerif.Model.ConnCfg
import LinkVerif.Props.C18

namespace Props.C18Wide
open Model.Conn

/-! ## nonces -/

theorem valRev_lt : ∀ l : List UInt8, valRev l < 256 ^ l.length := by
  intro l
  induction l with
  | nil => simp [valRev]
  | cons b bs ih =>
    have hb := b.toNat_lt
    simp only [valRev, List.length_cons, Nat.pow_succ]
    omega

theorem incrNonceRev_length : ∀ l : List UInt8, (incrNonceRev l).length = l.length := by
  intro l
  induction l with
  | nil => rfl
  | cons b bs ih =>
    simp only [incrNonceRev]
    split <;> simp [ih]

/-- **incrNonce is +1 with wrap-around** (value of the byte string, most significant byte first in Go = last here) -/
theorem incrNonceRev_val : ∀ l : List UInt8, valRev (incrNonceRev l) = (valRev l + 1) % 256 ^ l.length := by
  intro l
  induction l with
  | nil => simp [incrNonceRev, valRev]
  | cons b bs ih =>
    have hb := b.toNat_lt
    have hv := valRev_lt bs
    have hadd : (b + 1).toNat = (b.toNat + 1) % 256 := by simp [UInt8.toNat_add]
    simp only [incrNonceRev]
    split
    · rename_i hne
      have hne' : (b + 1).toNat ≠ 0 := by
        intro h
        apply (by simpa using hne : b + 1 ≠ 0)
        exact UInt8.toNat_inj.mp (by simpa using h)
      have hlt : b.toNat + 1 < 256 := by
        rw [hadd] at hne'
        omega
      simp only [valRev, List.length_cons, Nat.pow_succ]
      rw [hadd, Nat.mod_eq_of_lt hlt, Nat.mod_eq_of_lt (by omega)]
      omega
    · rename_i heq
      have h0 : (b + 1).toNat = 0 := by
        have : b + 1 = 0 := by simpa using heq
        rw [this]; rfl
      have hb255 : b.toNat = 255 := by rw [hadd] at h0; omega
      simp only [valRev, List.length_cons, Nat.pow_succ, ih]
      have : b.toNat + 256 * valRev bs + 1 = 256 * (valRev bs + 1) := by omega
      rw [this, Nat.mul_comm (256 ^ bs.length) 256, Nat.mul_mod_mul_left]
      simp

/-- non-vacuity: carry across two bytes, and wrap-around of the whole nonce -/
example : incrNonce [0x01, 0xff, 0xff] = [0x02, 0x00, 0x00] := by decide
example : incr2Nonce [0xff, 0xff, 0xff] = [0x00, 0x00, 0x01] := by decide

/-- **no nonce is shared by the two directions**: `genNonces` gives them values of different parity (last byte xor 1) and
`incr2Nonce` steps by 2 modulo the even number 2^192 -/
theorem nonce_streams_disjoint (s r i j : Nat) (hpar : s % 2 ≠ r % 2) :
    (s + 2 * i) % 6277101735386680763835789423207666416102355444464034512896 ≠
    (r + 2 * j) % 6277101735386680763835789423207666416102355444464034512896 := by
  omega

example : (6277101735386680763835789423207666416102355444464034512896 : Nat) = 2 ^ 192 := by decide

/-- **no nonce twice within a direction** for fewer than 2^191 frames -/
theorem nonce_stream_injective (s i j : Nat) (hi : i < 3138550867693340381917894711603833208051177722232017256448)
    (hj : j < 3138550867693340381917894711603833208051177722232017256448)
    (h : (s + 2 * i) % 6277101735386680763835789423207666416102355444464034512896 =
         (s + 2 * j) % 6277101735386680763835789423207666416102355444464034512896) : i = j := by
  omega

/-! ## sealed frames -/

/-- an ideal box: a payload opens for at most one receive index -/
def BoxBound (cd : Codec) : Prop := ∀ p k k' x x', cd.openBox k p = some x → cd.openBox k' p = some x' → k = k'

/-- **no replay**: once a sealed payload has been opened (the receive index has moved past the one it was sealed for), no
later state of the reader opens it again -/
theorem sealed_no_replay (cd : Codec) (hb : BoxBound cd) (p x : Bytes) (k later : Nat)
    (hopen : cd.openBox k p = some x) (hlater : k < later) : cd.openBox later p = none := by
  cases h : cd.openBox later p with
  | none => rfl
  | some x' => have := hb p k later x x' hopen h; omega

/-! ## allocation on behalf of a peer-supplied frame -/

/-- FULL STATEMENT: whatever bytes a peer sends and whatever length they announce, one `Read` lets snappy allocate at most a
chunk (`dataMaxSize` = 32 KiB; the frame buffer itself is bounded by `frameCapacity`, the sealed-frame buffer is fixed). -/
def C18_alloc_statement : Prop :=
  ∀ (cd : Codec) (r : Reader), readAlloc genCfg cd r ≤ genCfg.dataMaxSize

/-- holds of the current code (3c63eeb: the announced length is tested before `snappy.Decode`) -/
theorem C18_alloc_holds : C18_alloc_statement := by
  intro cd r
  unfold readAlloc
  dsimp only
  repeat' (first | exact Nat.zero_le _ | split)
  all_goals omega

/-- the bound is about these constants -/
theorem alloc_bound_constants : genCfg.dataMaxSize = 32768 ∧ genCfg.frameCapacity = 65535 := by decide

/-- the old witness (10 bytes announcing 64 MiB): nothing is allocated for it … -/
example : readAlloc genCfg { enc := id, dec := fun _ => none, announced := fun _ => 67108864 }
    { recvBuffer := [], wire := [0xFF, 0, 0, 0, 5, 0x80, 0x80, 0x80, 0x20, 0xAA] } = 0 := by decide

/-- … and it is refused as an undecodable frame -/
example : (Model.Conn.read genCfg { enc := id, dec := fun _ => none, announced := fun _ => 67108864 }
    { recvBuffer := [], wire := [0xFF, 0, 0, 0, 5, 0x80, 0x80, 0x80, 0x20, 0xAA] } 20).2 = .error .decode := by rfl

/-- non-vacuity: a frame that announces 5 bytes does get its 5 bytes -/
example :
    readAlloc genCfg { enc := id, dec := some, announced := fun _ => 5 } { recvBuffer := [], wire := [0xFF, 0, 0, 0, 5, 1, 2, 3, 4, 5] } = 5 := by
  decide

/-! ## TrySend -/

theorem trySend_full_refuses (s : Sender) (q : Nat) (c : Chan) (m : Bytes) (h : q ≤ (s.chans c).queue.length) :
    s.trySend q c m = (s, false) := by
  unfold Sender.trySend
  split
  · rfl
  · simp [h]

/-- a refused TrySend changes nothing; an accepted one appends exactly `m` at the END of that channel's queue and touches
nothing else: TrySend never reorders -/
theorem trySend_effect (s s' : Sender) (q : Nat) (c : Chan) (m : Bytes) (ok : Bool) (h : s.trySend q c m = (s', ok)) :
    (ok = false → s' = s) ∧
    (ok = true → (s'.chans c).queue = (s.chans c).queue ++ [m] ∧ (s'.chans c).sending = (s.chans c).sending ∧
      ∀ x, x ≠ c → s'.chans x = s.chans x) := by
  unfold Sender.trySend at h
  split at h
  · simp only [Prod.mk.injEq] at h; obtain ⟨rfl, rfl⟩ := h; simp
  · split at h
    · simp only [Prod.mk.injEq] at h; obtain ⟨rfl, rfl⟩ := h; simp
    · simp only [Prod.mk.injEq] at h
      obtain ⟨rfl, rfl⟩ := h
      refine ⟨by simp, fun _ => ⟨by simp [upd], by simp [upd], fun x hx => by simp [upd, hx]⟩⟩

example : ((({ maxPay := 4, known := fun _ => true, chans := fun _ => { queue := [[1]] } } : Sender).trySend 1 7 [2]).2) = false := by
  decide

/-- T2: `peer.Send` and `peer.TrySend` refuse a stopped peer and a channel the peer did not advertise, before the MConnection -/
theorem peer_send_guards :
    Gen.ConnFacts.peerSendGuards = ["!p.IsRunning()", "!p.hasChannel(chID)"] ∧
    Gen.ConnFacts.peerTrySendGuards = ["!p.IsRunning()", "!p.hasChannel(chID)"] := by decide

/-- T2: `CanSend` compares with the default queue capacity the model uses -/
theorem default_queue_capacity : Gen.ConnFacts.defaultSendQueueCapacity = 100 := by decide

/-! ## attribution of received messages -/

/-- **delivery_attributed**: in every state reachable by connection attempts, a message that arrives on the connection
authenticated as `auth` is handed to the reactors as coming from the node ID of `auth` -/
theorem delivery_attributed (self : Key) (ops : List SwOp) (auth : Key) (i : NodeId)
    (h : (SwitchState.run { self := self } ops).senderOf auth = some i) : i = idOf auth := by
  have hw := (Props.C18.run_wf ops { self := self } (by intro q hq; simp at hq)).1
  unfold SwitchState.senderOf at h
  cases hf : (SwitchState.run { self := self } ops).peers.find? (fun p => p.authKey == auth) with
  | none => simp [hf] at h
  | some p =>
    simp only [hf, Option.map_some, Option.some.injEq] at h
    have hp := List.mem_of_find?_eq_some hf
    have hk := List.find?_some hf
    have : p.authKey = auth := by simpa using hk
    rw [← h, (hw p hp).1, this]

end Props.C18Wide
