/-
C08, MultiSignAccountTx (types/tx_type_mst.go VerifySign): an accepted multi-signature rests on DISTINCT validators, each
with its own valid signature over exactly the transaction's main info, holding more than the threshold
`TotalVotingPower()*2/3` — no validator is counted twice, a signature under another validator's address or over another
main info (any of nonce, supported type, minimum power, signer list changed) is not counted.
The chain parameter is NOT part of the sign bytes (`Props.C08.mst_signs_main_info_only`, T2): stated, not a theorem here.
-/
import LinkVerif.Model.MultiSign

namespace Props.C08
open Model.MultiSign

def sumP (powers : List Int) (s : List Nat) : Int := (s.map fun i => (powers[i]?).getD 0).sum

/-- validator i has an entry under its own address whose signature verifies -/
def Counted (es : List Entry) (ver : Nat → SigKind → Bool) (i : Nat) : Prop :=
  ∃ e ∈ es, e.who = .val i ∧ ver i e.sig = true

theorem loop_ok (powers : List Int) (thr : Int) (ver : Nat → SigKind → Bool) :
    ∀ (es : List Entry) (seen : List Nat) (total : Int), loop powers thr ver es seen total = .ok →
      seen.Nodup → total = sumP powers seen →
      ∃ S : List Nat, S.Nodup ∧ (∀ i ∈ S, i ∈ seen ∨ Counted es ver i) ∧ sumP powers S > thr
  | [], _, _, h, _, _ => by simp [loop] at h
  | e :: es, seen, total, h, hn, ht => by
    unfold loop at h
    split at h
    · simp at h
    · rename_i i hw
      split at h
      · simp at h
      · rename_i hc
        have hi : i ∉ seen := by simpa using hc
        split at h
        · simp at h
        · rename_i pw hp
          split at h
          · simp at h
          · split at h
            · rename_i hv
              obtain ⟨S, h1, h2, h3⟩ := loop_ok powers thr ver es seen total h hn ht
              refine ⟨S, h1, fun j hj => ?_, h3⟩
              rcases h2 j hj with h | ⟨e', he', hh⟩
              · exact Or.inl h
              · exact Or.inr ⟨e', by simp [he'], hh⟩
            · rename_i hv
              have hver : ver i e.sig = true := by simpa using hv
              have hcount : Counted (e :: es) ver i := ⟨e, by simp, hw, hver⟩
              have hsum : sumP powers (i :: seen) = total + pw := by
                simp only [sumP, List.map_cons, List.sum_cons, hp, Option.getD_some] at *
                omega
              split at h
              · rename_i hgt
                refine ⟨i :: seen, List.nodup_cons.2 ⟨hi, hn⟩, fun j hj => ?_, by rw [hsum]; exact hgt⟩
                rcases List.mem_cons.1 hj with rfl | hj
                · exact Or.inr hcount
                · exact Or.inl hj
              · obtain ⟨S, h1, h2, h3⟩ :=
                  loop_ok powers thr ver es (i :: seen) (total + pw) h (List.nodup_cons.2 ⟨hi, hn⟩) hsum.symm
                refine ⟨S, h1, fun j hj => ?_, h3⟩
                rcases h2 j hj with h | ⟨e', he', hh⟩
                · rcases List.mem_cons.1 h with rfl | h
                  · exact Or.inr hcount
                  · exact Or.inl h
                · exact Or.inr ⟨e', by simp [he'], hh⟩

/-- **`mst_accept_quorum`**: acceptance ⇒ a duplicate-free set of validators, each counted for its own verifying
    signature, whose power exceeds the threshold -/
theorem mst_accept_quorum (powers : List Int) (contents : List (Nat × Content)) (cur : Content) (es : List Entry)
    (h : verifySign powers contents cur es = .ok) :
    ∃ S : List Nat, S.Nodup ∧ (∀ i ∈ S, Counted es (verifies contents cur) i) ∧ sumP powers S > threshold powers := by
  unfold verifySign at h
  split at h
  · simp at h
  · obtain ⟨S, h1, h2, h3⟩ := loop_ok powers _ _ es [] 0 h List.nodup_nil (by simp [sumP])
    exact ⟨S, h1, fun i hi => (h2 i hi).resolve_left (by simp), h3⟩

/-- **`mst_signature_binds`**: a counted signature was made by that very validator over a main info EQUAL to the
    transaction's (every field: the model compares the whole `Content`) -/
theorem mst_signature_binds (contents : List (Nat × Content)) (cur : Content) (i : Nat) (k : SigKind)
    (h : verifies contents cur i k = true) :
    ∃ c, k = .ok i c ∧ (contents.find? (·.1 == c)).map (·.2) = some cur := by
  cases k with
  | ok j c =>
    simp only [verifies, Bool.and_eq_true, beq_iff_eq] at h
    exact ⟨c, by rw [h.1], h.2⟩
  | bad => simp [verifies] at h
  | unparse => simp [verifies] at h
  | empty => simp [verifies] at h

/-- the threshold is the usual one when the doubled total fits an int64 -/
theorem threshold_two_thirds (powers : List Int) (h : Go.InI64 (totalPower powers * 2)) :
    threshold powers = Int.tdiv (totalPower powers * 2) 3 := by
  unfold threshold; rw [Go.wrapI64_id h]

def c0 : Content := ⟨7, 1, 2, [([0xaa], 1)]⟩
def c1 : Content := ⟨8, 1, 2, [([0xaa], 1)]⟩

/-- non-vacuity: 3 validators of power 1, two of them sign: accepted (2 > 3*2/3 = 2 is false — so all three are needed) -/
example : verifySign [1, 1, 1] [(0, c0)] c0 [⟨.val 0, .ok 0 0⟩, ⟨.val 1, .ok 1 0⟩] = .insufficient := by decide
example : verifySign [1, 1, 1] [(0, c0)] c0 [⟨.val 0, .ok 0 0⟩, ⟨.val 1, .ok 1 0⟩, ⟨.val 2, .ok 2 0⟩] = .ok := by decide
/-- the same validator twice is an error, not a second vote -/
example : verifySign [1, 1, 1] [(0, c0)] c0 [⟨.val 0, .ok 0 0⟩, ⟨.val 0, .ok 0 0⟩, ⟨.val 1, .ok 1 0⟩] = .dup := by decide
/-- signatures over a main info with another nonce are not counted -/
example : verifySign [1, 1, 1] [(0, c0), (1, c1)] c1 [⟨.val 0, .ok 0 0⟩, ⟨.val 1, .ok 1 0⟩, ⟨.val 2, .ok 2 0⟩] = .insufficient := by
  decide
/-- a signature under another validator's address is not counted -/
example : verifySign [1, 5] [(0, c0)] c0 [⟨.val 1, .ok 0 0⟩] = .insufficient := by decide

end Props.C08
