/-
C03 (part 5): what the canonical-JSON sign-bytes bind.  A well-delimited PARTIAL of `C03_signBytes_binds_statement`:
the chain id (with Go's JSON string escaping: a `"` or `\` in the chain id cannot close the string early), the height, the
round and the vote type are recovered from the sign-bytes, for a fixed block id and time.  (Injectivity of the block-id and
time renderings themselves stays open.)
-/
import LinkVerif.Model.Vote
import Std.Data.String.ToNat
import Std.Data.String.ToInt

namespace Props.C03
open Model.Vote

/-- two runs of "inner" characters, each closed by a delimiter that is not an inner character, split the same way -/
theorem delim_cancel {α : Type} (P : α → Prop) (d : α) (hd : ¬ P d) (xs ys r r' : List α)
    (hx : ∀ c ∈ xs, P c) (hy : ∀ c ∈ ys, P c) (h : xs ++ d :: r = ys ++ d :: r') : xs = ys ∧ r = r' := by
  induction xs generalizing ys with
  | nil =>
    cases ys with
    | nil => simpa using h
    | cons y ys =>
      simp only [List.nil_append, List.cons_append, List.cons.injEq] at h
      exact absurd (h.1 ▸ hy y List.mem_cons_self) hd
  | cons x xs ih =>
    cases ys with
    | nil =>
      simp only [List.nil_append, List.cons_append, List.cons.injEq] at h
      exact absurd (h.1 ▸ hx x List.mem_cons_self) hd
    | cons y ys =>
      simp only [List.cons_append, List.cons.injEq] at h
      obtain ⟨e, hr⟩ := ih ys (fun c hc => hx c (List.mem_cons_of_mem _ hc)) (fun c hc => hy c (List.mem_cons_of_mem _ hc)) h.2
      exact ⟨by rw [h.1, e], hr⟩

theorem nat_chars (n : Nat) : ∀ c ∈ (toString n).toList, c.isDigit = true := by
  intro c hc
  have e : toString n = String.ofList (Nat.toDigits 10 n) := Nat.repr_eq_ofList_toDigits
  rw [e, String.toList_ofList] at hc
  exact Nat.isDigit_of_mem_toDigits (by decide) (by decide) hc

theorem string_eq_of_toList (s t : String) (h : s.toList = t.toList) : s = t := by
  have := congrArg String.ofList h
  simpa using this

/-- a decimal natural followed by a non-digit is read back uniquely -/
theorem natField_cancel (n n' : Nat) (d : Char) (hd : d.isDigit = false) (r r' : List Char)
    (h : (toString n).toList ++ d :: r = (toString n').toList ++ d :: r') : n = n' ∧ r = r' := by
  obtain ⟨e, hr⟩ := delim_cancel (fun c => c.isDigit = true) d (by simp [hd]) _ _ r r' (nat_chars n) (nat_chars n') h
  exact ⟨Nat.repr_injective (string_eq_of_toList _ _ e), hr⟩

theorem int_chars (a : Int) : ∀ c ∈ (toString a).toList, c.isDigit = true ∨ c = '-' := by
  intro c hc
  have e : toString a = if 0 ≤ a then a.toNat.repr else "-" ++ (-a).toNat.repr := Int.repr_eq_if
  rw [e] at hc
  split at hc
  · exact Or.inl (nat_chars _ c hc)
  · simp only [String.toList_append, List.mem_append] at hc
    rcases hc with hc | hc
    · right; simpa using hc
    · exact Or.inl (nat_chars _ c hc)

/-- a decimal integer followed by a `"` is read back uniquely -/
theorem intField_cancel (a a' : Int) (r r' : List Char)
    (h : (toString a).toList ++ '"' :: r = (toString a').toList ++ '"' :: r') : a = a' ∧ r = r' := by
  obtain ⟨e, hr⟩ := delim_cancel (fun c => c.isDigit = true ∨ c = '-') '"' (by decide) _ _ r r' (int_chars a) (int_chars a') h
  exact ⟨Int.repr_injective (string_eq_of_toList _ _ e), hr⟩

/-! ### JSON string escaping is a prefix code that never emits a bare `"` -/

set_option maxRecDepth 100000 in
theorem esc_head_ne : ∀ n : Fin 128, (jsonEscByte (UInt8.ofNat n.val)).head? ≠ some '"' ∧ jsonEscByte (UInt8.ofNat n.val) ≠ [] := by
  decide

set_option maxRecDepth 100000 in
theorem esc_prefix_free_lo : ∀ (a : Fin 128) (b : Fin 64),
    (jsonEscByte (UInt8.ofNat a.val)).isPrefixOf (jsonEscByte (UInt8.ofNat b.val)) = true → a.val = b.val := by decide

set_option maxRecDepth 100000 in
theorem esc_prefix_free_hi : ∀ (a : Fin 128) (b : Fin 64),
    (jsonEscByte (UInt8.ofNat a.val)).isPrefixOf (jsonEscByte (UInt8.ofNat (b.val + 64))) = true → a.val = b.val + 64 := by decide

theorem esc_prefix_free (b b' : UInt8) (hb : b.toNat < 128) (hb' : b'.toNat < 128)
    (h : jsonEscByte b <+: jsonEscByte b') : b = b' := by
  have hp : (jsonEscByte b).isPrefixOf (jsonEscByte b') = true := List.isPrefixOf_iff_prefix.2 h
  have e1 : UInt8.ofNat b.toNat = b := by simp
  have e2 : UInt8.ofNat b'.toNat = b' := by simp
  have : b.toNat = b'.toNat := by
    by_cases hlo : b'.toNat < 64
    · have := esc_prefix_free_lo ⟨b.toNat, hb⟩ ⟨b'.toNat, hlo⟩
      simp only [e1, e2] at this
      exact this hp
    · have := esc_prefix_free_hi ⟨b.toNat, hb⟩ ⟨b'.toNat - 64, by omega⟩
      have e3 : b'.toNat - 64 + 64 = b'.toNat := by omega
      simp only [e1, e3, e2] at this
      exact this hp
  rw [← e1, ← e2, this]

theorem esc_step (b b' : UInt8) (hb : b.toNat < 128) (hb' : b'.toNat < 128) (r r' : List Char)
    (h : jsonEscByte b ++ r = jsonEscByte b' ++ r') : b = b' ∧ r = r' := by
  have h1 : jsonEscByte b <+: jsonEscByte b ++ r := List.prefix_append _ _
  have h2 : jsonEscByte b' <+: jsonEscByte b ++ r := h ▸ List.prefix_append _ _
  have e : b = b' := by
    rcases List.prefix_or_prefix_of_prefix h1 h2 with hp | hp
    · exact esc_prefix_free b b' hb hb' hp
    · exact (esc_prefix_free b' b hb' hb hp).symm
  subst e
  exact ⟨rfl, List.append_cancel_left h⟩

theorem esc_not_quote (b : UInt8) (hb : b.toNat < 128) (r r' : List Char) : '"' :: r ≠ jsonEscByte b ++ r' := by
  have := esc_head_ne ⟨b.toNat, hb⟩
  have e1 : UInt8.ofNat b.toNat = b := by simp
  simp only [e1] at this
  intro h
  cases hj : jsonEscByte b with
  | nil => exact this.2 hj
  | cons c cs =>
    rw [hj] at h this
    simp only [List.cons_append, List.cons.injEq] at h
    exact this.1 (by simp [← h.1])

/-- THE CHAIN ID CANNOT BLEED INTO THE REST: an escaped ASCII chain id followed by the closing quote is read back uniquely -/
theorem jsonEsc_cancel (c c' : List UInt8) (hc : ∀ b ∈ c, b.toNat < 128) (hc' : ∀ b ∈ c', b.toNat < 128) (r r' : List Char)
    (h : jsonEsc c ++ '"' :: r = jsonEsc c' ++ '"' :: r') : c = c' ∧ r = r' := by
  induction c generalizing c' with
  | nil =>
    cases c' with
    | nil => simpa [jsonEsc] using h
    | cons b' cs' =>
      simp only [jsonEsc, List.flatMap_nil, List.nil_append, List.flatMap_cons, List.append_assoc] at h
      exact absurd h (esc_not_quote b' (hc' b' List.mem_cons_self) _ _)
  | cons b cs ih =>
    cases c' with
    | nil =>
      simp only [jsonEsc, List.flatMap_nil, List.nil_append, List.flatMap_cons, List.append_assoc] at h
      exact absurd h.symm (esc_not_quote b (hc b List.mem_cons_self) _ _)
    | cons b' cs' =>
      simp only [jsonEsc, List.flatMap_cons, List.append_assoc] at h
      obtain ⟨e, hr⟩ := esc_step b b' (hc b List.mem_cons_self) (hc' b' List.mem_cons_self) _ _ h
      obtain ⟨e2, hr2⟩ := ih cs' (fun x hx => hc x (List.mem_cons_of_mem _ hx)) (fun x hx => hc' x (List.mem_cons_of_mem _ hx)) hr
      exact ⟨by rw [e, e2], hr2⟩

/-! ### The sign-bytes, flattened -/

theorem signBytes_flat (m : Msg) : signBytes m =
    "{\"@chain_id\":\"".toList ++ (jsonEsc m.chain ++ ('"' :: (",\"@type\":\"vote\",\"block_id\":".toList ++ (blockIDJSON m.bid ++
      (",\"height\":\"".toList ++ ((toString m.height).toList ++ ('"' :: (",\"round\":\"".toList ++ ((toString m.round).toList ++
      ('"' :: (",\"timestamp\":\"".toList ++ (canonicalTime m.tsMs ++ ("\",\"type\":".toList ++ ((toString m.type).toList ++ ['}'])))))))))))))) := by
  simp [signBytes, obj, field, q, str, List.intercalate]

/-- PARTIAL of `C03_signBytes_binds_statement` (proved): for ASCII chain ids, and votes for the same block id at the same
canonical time, equal sign-bytes force equal chain id, height, round and type, i.e. the whole message is equal.  A signature
cannot be moved to another chain, height, round or vote type by any choice of chain-id string. -/
theorem signBytes_binds_step_fields (m m' : Msg) (hc : ∀ b ∈ m.chain, b.toNat < 128) (hc' : ∀ b ∈ m'.chain, b.toNat < 128)
    (hbid : m.bid = m'.bid) (hts : m.tsMs = m'.tsMs) (h : signBytes m = signBytes m') : m = m' := by
  rw [signBytes_flat, signBytes_flat, hbid, hts] at h
  have h1 := List.append_cancel_left h
  obtain ⟨echain, h2⟩ := jsonEsc_cancel m.chain m'.chain hc hc' _ _ h1
  have h3 := List.append_cancel_left (List.append_cancel_left h2)
  have h4 := List.append_cancel_left h3
  obtain ⟨eh, h5⟩ := natField_cancel m.height m'.height '"' (by decide) _ _ h4
  have h6 := List.append_cancel_left h5
  obtain ⟨er, h7⟩ := intField_cancel m.round m'.round _ _ h6
  have h8 := List.append_cancel_left (List.append_cancel_left (List.append_cancel_left h7))
  obtain ⟨et, _⟩ := natField_cancel m.type m'.type '}' (by decide) [] [] h8
  cases m; cases m'
  simp only at echain eh er et hbid hts
  subst echain eh er et hbid hts
  rfl

/-- non-vacuity: a chain id that contains `"` and `\` is still bound (the two messages below differ only in the chain id,
and the second chain id is the first one's escaped tail) -/
def sbA : Msg := { chain := [34], height := 1, round := 0, type := 2, bid := BlockID.zero, tsMs := 0 }
def sbB : Msg := { chain := [92, 34], height := 1, round := 0, type := 2, bid := BlockID.zero, tsMs := 0 }

example : signBytes sbA ≠ signBytes sbB := by
  intro h
  have := signBytes_binds_step_fields sbA sbB (by decide) (by decide) rfl rfl h
  simp [sbA, sbB] at this

end Props.C03
