/-
C09, part 2: every mutator of `StateDB` extends the journal by entries whose undo restores the abstraction (`applyOp_ext`).
-/
import LinkVerif.Props.C09Abs

namespace Props.C09
open Model.StateDB

/-- `s'` differs from `s` only by live objects that were erased or replaced by non-deleted ones; same trie -/
def Upd (s s' : State) : Prop :=
  s'.trie = s.trie ∧ ∀ a, s'.objs a = s.objs a ∨ s'.objs a = none ∨ ∃ o, s'.objs a = some o ∧ o.deleted = false

theorem Upd.refl (s : State) : Upd s s := ⟨rfl, fun _ => Or.inl rfl⟩

theorem Upd.trans {s s' s'' : State} (h1 : Upd s s') (h2 : Upd s' s'') : Upd s s'' := by
  refine ⟨h2.1.trans h1.1, fun a => ?_⟩
  rcases h2.2 a with h | h | h
  · rw [h]; exact h1.2 a
  · exact Or.inr (Or.inl h)
  · exact Or.inr (Or.inr h)

/-- an object marked deleted (by Finalise/Commit) is absent from the trie -/
def WF (s : State) : Prop := ∀ a o, s.objs a = some o → o.deleted = true → s.trie a = none

theorem WF_of_Upd {s s' : State} (hw : WF s) (hu : Upd s s') : WF s' := by
  intro a o ho hd
  rcases hu.2 a with h | h | ⟨o', h, hd'⟩
  · rw [hu.1]; exact hw a o (h ▸ ho) hd
  · rw [h] at ho; cases ho
  · rw [h] at ho; cases ho; rw [hd] at hd'; cases hd'

theorem Upd_putObj (c : Ctx) (a : Addr) (o : Obj) (hd : o.deleted = false) : Upd c.st (putObj c a o).st := by
  refine ⟨rfl, fun b => ?_⟩
  by_cases hb : b = a
  · subst hb; exact Or.inr (Or.inr ⟨o, by simp [putObj], hd⟩)
  · exact Or.inl (by simp [putObj, hb])

theorem Upd_modObj (c : Ctx) (a : Addr) (f : Obj → Obj) (hd : ∀ o, (f o).deleted = o.deleted) : Upd c.st (modObj c a f).st := by
  unfold modObj
  cases h : peek c.st a with
  | none => exact Upd.refl _
  | some o => exact Upd_putObj c a (f o) (by rw [hd]; exact peek_not_deleted h)

theorem Upd_restoreToks (c1 : Ctx) (a : Addr) (tp : Tok → Option Int) : Upd c1.st (restoreToks c1 a tp).st := by
  unfold restoreToks
  cases h : peek c1.st a with
  | none => exact Upd.refl _
  | some o =>
    have hnd := peek_not_deleted h
    cases ht : o.toks with
    | inl m => simp only [ht]; exact Upd_putObj c1 a _ hnd
    | shared r => simp only [ht]; exact Upd_putObj { c1 with heap := _ } a o hnd

theorem Upd_undo (e : Entry) (c : Ctx) : Upd c.st (undo e c).st := by
  cases e with
  | createObject a =>
    refine ⟨rfl, fun b => ?_⟩
    by_cases hb : b = a
    · subst hb; exact Or.inr (Or.inl (by simp [undo]))
    · exact Or.inl (by simp [undo, hb])
  | resetObject a prev => exact Upd_putObj c a _ rfl
  | suicide a prev bp tp =>
    simp only [undo]
    exact Upd.trans (Upd_modObj c a (fun o => { o with suicided := prev, balance := bp.getD o.balance }) (fun _ => rfl)) (Upd_restoreToks _ a tp)
  | balance a prev => exact Upd_modObj c a _ (fun _ => rfl)
  | nonce a prev => exact Upd_modObj c a _ (fun _ => rfl)
  | credits a prev => exact Upd_modObj c a _ (fun _ => rfl)
  | storage a k prev => exact Upd_modObj c a _ (fun _ => rfl)
  | code a prev => exact Upd_modObj c a _ (fun _ => rfl)
  | refund prev => exact Upd.refl _
  | addLog tx => exact ⟨rfl, fun _ => Or.inl rfl⟩
  | touch a => exact Upd.refl _
  | addPreimage p => exact ⟨rfl, fun _ => Or.inl rfl⟩
  | tokenBalance a t prev =>
    simp only [undo, modTok]
    cases h : peek c.st a with
    | none => exact Upd.refl _
    | some o =>
      have hnd := peek_not_deleted h
      refine Upd_putObj { c with heap := _ } a _ ?_
      unfold writeTokO
      cases o.toks <;> simpa using hnd

theorem Upd_undoList (es : List Entry) (c : Ctx) : Upd c.st (undoList es c).st := by
  induction es generalizing c with
  | nil => exact Upd.refl _
  | cons e rest ih => exact Upd.trans (Upd_undo e c) (ih _)

/-- `c'` is `c` after some mutations: the journal was extended by entries whose undo leads back to `c` (up to `abs`) -/
structure Ext (c c' : Ctx) : Prop where
  upd : Upd c.st c'.st
  jr : ∃ es, c'.st.journal = es ++ c.st.journal ∧ abs (undoList es c') = abs c

theorem Ext.refl (c : Ctx) : Ext c c := ⟨Upd.refl _, [], rfl, rfl⟩

theorem Ext.trans {c c' c'' : Ctx} (h1 : Ext c c') (h2 : Ext c' c'') : Ext c c'' := by
  obtain ⟨es1, hj1, ha1⟩ := h1.jr
  obtain ⟨es2, hj2, ha2⟩ := h2.jr
  refine ⟨Upd.trans h1.upd h2.upd, es2 ++ es1, by rw [hj2, hj1, List.append_assoc], ?_⟩
  rw [undoList_append, abs_undoList_congr es1 ha2, ha1]

theorem Ext.neutral {c c' : Ctx} (hu : Upd c.st c'.st) (hj : c'.st.journal = c.st.journal) (ha : abs c' = abs c) : Ext c c' :=
  ⟨hu, [], by simpa using hj, ha⟩

theorem Ext.push1 {c c' : Ctx} (e : Entry) (hu : Upd c.st c'.st) (hj : c'.st.journal = e :: c.st.journal)
    (ha : abs (undo e c') = abs c) : Ext c c' :=
  ⟨hu, [e], by simpa using hj, ha⟩

/-! ### building blocks -/

theorem getState_congr (o o' : Obj) (h1 : o'.dirty = o.dirty) (h2 : o'.origin = o.origin) (h3 : o'.strie = o.strie) :
    getState o' = getState o := by
  funext k; simp [getState, committed, h1, h2, h3]

theorem putObj_putObj (c : Ctx) (a : Addr) (x y : Obj) : putObj (putObj c a x) a y = putObj c a y := by
  simp only [putObj]
  congr 2
  funext b
  by_cases hb : b = a <;> simp [upd, hb]

@[simp] theorem abs_push (c : Ctx) (e : Entry) : abs (push c e) = abs c := by
  simp [abs, push, peek]

theorem abs_putObj_view (c : Ctx) (a : Addr) (o o' : Obj) (h : peek c.st a = some o) (hv : viewObj o' = viewObj o)
    (hd : o'.deleted = false) : abs (putObj c a o') = abs c := by
  simp only [abs]
  congr 1
  funext b
  by_cases hb : b = a
  · subst hb; simp [hd, h, hv]
  · simp [hb]

theorem Upd_push (c : Ctx) (e : Entry) : Upd c.st (push c e).st := ⟨rfl, fun _ => Or.inl rfl⟩

theorem E_live (c : Ctx) (a : Addr) (o : Obj) (h : peek c.st a = some o) : Ext c (putObj c a o) :=
  Ext.neutral (Upd_putObj c a o (peek_not_deleted h)) rfl (abs_putObj_view c a o o h rfl (peek_not_deleted h))

/-- a journalled single-field update of the live object -/
theorem E_field (c : Ctx) (a : Addr) (o o' : Obj) (e : Entry) (f : Obj → Obj) (h : peek c.st a = some o)
    (hu : ∀ x, undo e x = modObj x a f) (hd : o'.deleted = false) (hfd : (f o').deleted = false)
    (hv : viewObj (f o') = viewObj o) : Ext c (putObj (push c e) a o') := by
  refine Ext.push1 e (Upd.trans (Upd_push c e) (Upd_putObj _ a o' hd)) rfl ?_
  rw [hu]
  unfold modObj
  have hp : peek (putObj (push c e) a o').st a = some o' := by simp [hd]
  simp only [hp]
  rw [putObj_putObj, abs_putObj_view (push c e) a o (f o') (by simpa using h) hv hfd, abs_push]

theorem E_touch (c : Ctx) (a : Addr) : Ext c (push c (.touch a)) :=
  Ext.push1 (.touch a) (Upd_push _ _) rfl (by simp [undo])

theorem getState_upd_upd (o : Obj) (k : Key) (v : Bytes) :
    getState { o with dirty := upd (upd o.dirty k (some v)) k (some (getState o k)) } = getState o := by
  funext x
  by_cases hx : x = k
  · subst hx; simp [getState]
  · simp [getState, committed, hx]

theorem E_create (c : Ctx) (a : Addr) (h : peek c.st a = none) (hw : WF c.st) :
    Ext c (putObj (push c (.createObject a)) a freshObj) := by
  refine Ext.push1 (.createObject a) (Upd.trans (Upd_push c _) (Upd_putObj _ a freshObj rfl)) rfl ?_
  have htrie : c.st.trie a = none := by
    unfold peek at h
    cases ho : c.st.objs a with
    | none => simp [ho] at h; exact h
    | some o =>
      simp [ho] at h
      exact hw a o ho h
  simp only [abs, undo]
  congr 1
  funext b
  by_cases hb : b = a
  · subst hb; simp [peek, putObj, push, htrie, h]
    have : peek c.st b = none := h
    simp [peek] at this
    cases ho : c.st.objs b with
    | none => simp [ho] at this; simp [this]
    | some o => simp [ho] at this; simp [this]
  · simp [peek, putObj, push, hb]

theorem E_reset (c : Ctx) (a : Addr) (p x : Obj) (h : peek c.st a = some p) (hd : x.deleted = false) :
    Ext c (putObj (push c (.resetObject a p)) a x) := by
  refine Ext.push1 (.resetObject a p) (Upd.trans (Upd_push c _) (Upd_putObj _ a x hd)) rfl ?_
  simp only [undo]
  rw [putObj_putObj, abs_putObj_view (push c _) a p _ (by simpa using h) ?_ rfl, abs_push]
  simp [viewObj, getState_congr { p with deleted := false } p rfl rfl rfl]

theorem E_log (c : Ctx) (d : Nat) :
    Ext c { c with st := { c.st with journal := .addLog c.st.thash :: c.st.journal,
                                     logs := upd c.st.logs c.st.thash (c.st.logs c.st.thash ++ [{ data := d, index := c.st.logSize, txIndex := c.st.txIndex }]),
                                     logSize := c.st.logSize + 1 } } := by
  refine Ext.push1 (.addLog c.st.thash) ⟨rfl, fun _ => Or.inl rfl⟩ rfl ?_
  simp only [abs, undo, peek]
  congr 1
  funext x
  by_cases hx : x = c.st.thash
  · subst hx; simp
  · simp [hx]

theorem E_refund (c : Ctx) (r : Nat) :
    Ext c { c with st := { c.st with journal := .refund c.st.refund :: c.st.journal, refund := r } } := by
  refine Ext.push1 (.refund c.st.refund) ⟨rfl, fun _ => Or.inl rfl⟩ rfl ?_
  simp [abs, undo, peek]

theorem E_pre (c : Ctx) (p : Nat) (d : Bytes) (h : c.st.preimages p = none) :
    Ext c { c with st := { c.st with journal := .addPreimage p :: c.st.journal, preimages := upd c.st.preimages p (some d) } } := by
  refine Ext.push1 (.addPreimage p) ⟨rfl, fun _ => Or.inl rfl⟩ rfl ?_
  simp only [abs, undo, peek]
  congr 1
  funext x
  by_cases hx : x = p
  · subst hx; simp [h]
  · simp [hx]

/-! ### token writes -/

def tokValA (x : Abs) (ov : OV) (t : Tok) : Int :=
  match ov.toks with
  | .inl f => f t
  | .shared r => x.heap r t

theorem upd_upd_self {β : Type} (f : Nat → β) (k : Nat) (v : β) : upd (upd f k v) k (f k) = f := by
  funext x; by_cases hx : x = k <;> simp [upd, hx]

theorem upd_self {β : Type} (f : Nat → β) (k : Nat) : upd f k (f k) = f := by
  funext x; by_cases hx : x = k <;> simp [upd, hx]

theorem upd_upd {β : Type} (f : Nat → β) (k : Nat) (v w : β) : upd (upd f k v) k w = upd f k w := by
  funext x; by_cases hx : x = k <;> simp [upd, hx]

theorem modTokA_restore (x : Abs) (a : Addr) (t : Tok) (v : Int) (ov : OV) (h : x.acct a = some ov) :
    modTokA (modTokA x a t v) a t (tokValA x ov t) = x := by
  unfold modTokA tokValA
  simp only [h]
  cases ht : ov.toks with
  | inl f =>
    simp only [upd_same, upd_upd, upd_upd_self, upd_self]
    have : upd x.acct a (some { ov with toks := TokV.inl f }) = x.acct := by
      rw [← ht]; rw [← h]; exact upd_self _ _
    rw [this]
  | shared r =>
    simp only [h, ht, upd_same, upd_upd, upd_upd_self, upd_self]

theorem modTokA_same (x : Abs) (a : Addr) (t : Tok) (ov : OV) (h : x.acct a = some ov) :
    modTokA x a t (tokValA x ov t) = x := by
  unfold modTokA tokValA
  simp only [h]
  cases ht : ov.toks with
  | inl f =>
    simp only [upd_self]
    have : upd x.acct a (some { ov with toks := TokV.inl f }) = x.acct := by
      rw [← ht]; rw [← h]; exact upd_self _ _
    rw [this]
  | shared r => simp only [upd_self]

theorem tokValA_abs (c : Ctx) (o : Obj) (t : Tok) : tokValA (abs c) (viewObj o) t = (tokMapOf c.heap o t).getD 0 := by
  unfold tokValA tokMapOf viewObj viewToks
  cases o.toks <;> simp [abs]

theorem abs_acct (c : Ctx) (a : Addr) (o : Obj) (h : peek c.st a = some o) : (abs c).acct a = some (viewObj o) := by
  simp [abs, h]

theorem writeTokO_deleted (o : Obj) (t : Tok) (v : Option Int) : (writeTokO o t v).deleted = o.deleted := by
  unfold writeTokO; cases o.toks <;> rfl

theorem E_tok (c : Ctx) (a : Addr) (o : Obj) (t : Tok) (v : Int) (h : peek c.st a = some o) :
    Ext c (putObj { push c (.tokenBalance a t (tokMapOf c.heap o t)) with heap := writeTokH c.heap o t (some v) } a
      (writeTokO o t (some v))) := by
  have hnd := peek_not_deleted h
  refine Ext.push1 (.tokenBalance a t (tokMapOf c.heap o t)) ?_ rfl ?_
  · exact Upd.trans (Upd_push c _) (Upd_putObj { push c _ with heap := _ } a _ (by rw [writeTokO_deleted]; exact hnd))
  · have hc' : putObj { push c (.tokenBalance a t (tokMapOf c.heap o t)) with heap := writeTokH c.heap o t (some v) } a
        (writeTokO o t (some v)) = modTok (push c (.tokenBalance a t (tokMapOf c.heap o t))) a t (some v) := by
      simp [modTok, h]
    rw [hc']
    simp only [undo]
    rw [abs_modTok, abs_modTok, abs_push]
    have := modTokA_restore (abs c) a t v (viewObj o) (abs_acct c a o h)
    rw [tokValA_abs] at this
    exact this

theorem E_zero (c : Ctx) (a : Addr) (o : Obj) (t : Tok) (h : peek c.st a = some o) (hz : tokMapOf c.heap o t = none) :
    Ext c (putObj { c with heap := writeTokH c.heap o t (some 0) } a (writeTokO o t (some 0))) := by
  have hnd := peek_not_deleted h
  refine Ext.neutral (Upd_putObj { c with heap := _ } a _ (by rw [writeTokO_deleted]; exact hnd)) rfl ?_
  have hc' : putObj { c with heap := writeTokH c.heap o t (some 0) } a (writeTokO o t (some 0)) = modTok c a t (some 0) := by
    simp [modTok, h]
  rw [hc', abs_modTok]
  have := modTokA_same (abs c) a t (viewObj o) (abs_acct c a o h)
  rw [tokValA_abs, hz] at this
  exact this

/-- `Suicide` followed by its undo, for an account whose balances are non-negative and whose token map is still private -/
theorem E_suicide (c : Ctx) (a : Addr) (o : Obj) (m : TokMap) (h : peek c.st a = some o) (hm : o.toks = .inl m)
    (hb : 0 ≤ o.balance) (ht : ∀ t v, m t = some v → 0 ≤ v) :
    Ext c (putObj (push c (.suicide a o.suicided (if o.balance > 0 then some o.balance else none) (positiveToks (tokMapOf c.heap o)))) a
      { o with suicided := true, balance := 0, toks := .inl emptyToks }) := by
  have hnd := peek_not_deleted h
  refine Ext.push1 _ (Upd.trans (Upd_push c _) (Upd_putObj _ a _ hnd)) rfl ?_
  simp only [undo, modObj, peek_putObj, if_true, hnd, Bool.false_eq_true, if_false, restoreToks, putObj_putObj]
  rw [abs_putObj_view (push c _) a o _ (by simpa using h) ?_ rfl, abs_push]
  simp only [viewObj, viewToks, tokMapOf, hm]
  congr 1
  · split <;> simp <;> omega
  · congr 1
    funext t
    simp only [mergeToks, positiveToks, emptyToks]
    cases hmt : m t with
    | none => simp
    | some v =>
      have := ht t v hmt
      by_cases hv : v > 0
      · simp [hv]
      · simp [hv]; omega

end Props.C09
