/-
C10: the data precondition `Sane` of the executable proof theorems follows from bounds on the CONTENT:
every stored key shorter than 2^32 nibbles, every stored value non-empty and shorter than 2^32 bytes.
-/
import LinkVerif.Props.C10Exec

namespace Props.C10
open Model.Trie

theorem beBytesAux_length_le : ∀ (f n : Nat), (beBytesAux f n).length ≤ f
  | 0, _ => by simp [beBytesAux]
  | f + 1, n => by
    simp only [beBytesAux]
    split
    · simp
    · have := beBytesAux_length_le f (n / 256); simp; omega

theorem rlpHead_length_le (base n : Nat) : (rlpHead base n).length ≤ 9 := by
  unfold rlpHead
  split
  · simp
  · have := beBytesAux_length_le 8 n
    simp [beBytes]; omega

theorem rlpStr_length_le (b : Bytes) : (rlpStr b).length ≤ b.length + 9 := by
  unfold rlpStr
  split
  · split
    · simp
    · have := rlpHead_length_le 128 1; simp; omega
  · have := rlpHead_length_le 128 b.length; simp; omega

theorem rlpList_length_le (p : Bytes) : (rlpList p).length ≤ p.length + 9 := by
  have := rlpHead_length_le 192 p.length
  simp [rlpList]; omega

theorem embed_length_le (H : Bytes → Bytes) (h32 : H32 H) (e : Bytes) : (embed H e).length ≤ 41 := by
  unfold embed
  split
  · omega
  · have := rlpStr_length_le (H e); rw [h32] at this; omega

theorem packNibbles_length_le : ∀ (l : List Nib), (packNibbles l).length ≤ l.length
  | [] => by simp [packNibbles]
  | [_] => by simp [packNibbles]
  | a :: b :: r => by
    have := packNibbles_length_le r
    simp [packNibbles]; omega

theorem hexToCompact_length_le (k : List Nib) : (hexToCompact k).length ≤ k.length + 1 := by
  unfold hexToCompact
  by_cases ht : hasTerm k = true
  · simp only [ht, if_true]
    have hd : k.dropLast.length ≤ k.length := by simp
    generalize k.dropLast = h at hd
    cases h with
    | nil => simp [packNibbles]
    | cons x r =>
      have h1 := packNibbles_length_le r
      have h2 := packNibbles_length_le (x :: r)
      simp only [List.length_cons] at hd h2
      split <;> simp only [List.length_cons] <;> omega
  · simp only [ht, Bool.false_eq_true, if_false]
    cases k with
    | nil => simp [packNibbles]
    | cons x r =>
      have h1 := packNibbles_length_le r
      have h2 := packNibbles_length_le (x :: r)
      simp only [List.length_cons] at h2
      split <;> simp only [List.length_cons] <;> omega

theorem length_flatMap_le {α : Type} (l : List α) (F : α → Bytes) (B : Nat) (h : ∀ i ∈ l, (F i).length ≤ B) :
    (l.flatMap F).length ≤ l.length * B := by
  induction l with
  | nil => simp
  | cons a l ih =>
    have h1 := h a (by simp)
    have h2 := ih (fun i hi => h i (by simp [hi]))
    simp only [List.flatMap_cons, List.length_append, List.length_cons]
    rw [Nat.succ_mul]; omega

/-- content bounds, structurally -/
def Bd : Node → Prop
  | .nil => True
  | .value v => v ≠ [] ∧ v.length < 2 ^ 32
  | .short k c => k.length < 2 ^ 32 ∧ Bd c
  | .full c => ∀ i, Bd (c i)

theorem enc_child_le (H : Bytes → Bytes) (h32 : H32 H) : ∀ (c : Node), Bd c →
    (if c.isValue then enc H c else embed H (enc H c)).length ≤ 2 ^ 32 + 41
  | .nil, _ => by have := embed_length_le H h32 (enc H .nil); simp [Node.isValue]; omega
  | .value v, h => by
    have := rlpStr_length_le v
    have := h.2
    simp only [Node.isValue, if_true, enc]; omega
  | .short k c, _ => by have := embed_length_le H h32 (enc H (.short k c)); simp [Node.isValue]; omega
  | .full c, _ => by have := embed_length_le H h32 (enc H (.full c)); simp [Node.isValue]; omega


theorem two64 : (2:Nat) ^ 64 = 18446744073709551616 := by decide
theorem two32 : (2:Nat) ^ 32 = 4294967296 := by decide

/-- content bounds give the data precondition of the decoder round trip -/
theorem sane_of_bd (H : Bytes → Bytes) (h32 : H32 H) : ∀ (n : Node) (v : Bool), Pos v n → Bd n → Sane H n
  | .nil, _, _, _ => trivial
  | .value w, _, _, hb => ⟨hb.1, by unfold Sz; have := hb.2; rw [two32] at this; rw [two64]; omega⟩
  | .short k c, _, hp, hb => by
    rcases hp with h | ⟨hw, _⟩
    · simp [Node.isNil] at h
    · obtain ⟨_, _, hwc⟩ := hw
      refine ⟨?_, sane_of_bd H h32 c c.isValue (Or.inr ⟨hwc, rfl⟩) hb.2⟩
      have h1 := enc_child_le H h32 c hb.2
      have h2 := rlpStr_length_le (hexToCompact k)
      have h3 := hexToCompact_length_le k
      have h4 := hb.1
      have h5 := rlpList_length_le (rlpStr (hexToCompact k) ++ (if c.isValue then enc H c else embed H (enc H c)))
      simp only [List.length_append] at h5
      unfold Sz
      simp only [enc]
      rw [two32] at h1 h4
      rw [two64]
      omega
  | .full c, _, hp, hb => by
    rcases hp with h | ⟨hw, _⟩
    · simp [Node.isNil] at h
    · obtain ⟨hall, _⟩ := hw
      refine ⟨?_, fun i => ?_⟩
      · have hF : ∀ i ∈ List.finRange 17,
            ((fun i => if i = term then enc H (c i) else embed H (enc H (c i))) i).length ≤ 2 ^ 32 + 41 := by
          intro i _
          by_cases hi : i = term
          · simp only [hi, if_true]
            rcases hall term with h0 | ⟨_, hv⟩
            · rw [isNil_eq h0]; simp [enc]
            · have hval := hv.mpr rfl
              have hbt := hb term
              cases hct : c term with
              | value w =>
                rw [hct] at hbt
                have := rlpStr_length_le w
                have := hbt.2
                simp only [enc]; omega
              | nil => rw [hct] at hval; simp [Node.isValue] at hval
              | short _ _ => rw [hct] at hval; simp [Node.isValue] at hval
              | full _ => rw [hct] at hval; simp [Node.isValue] at hval
          · simp only [hi, if_false]
            have := embed_length_le H h32 (enc H (c i)); omega
        have h1 := length_flatMap_le (List.finRange 17) _ _ hF
        have h2 := rlpList_length_le ((List.finRange 17).flatMap
          (fun i => if i = term then enc H (c i) else embed H (enc H (c i))))
        simp only [List.length_finRange] at h1
        unfold Sz
        simp only [enc]
        rw [two32] at h1
        rw [two64]
        omega
      · rcases hall i with h0 | ⟨hwi, _⟩
        · rw [isNil_eq h0]; trivial
        · exact sane_of_bd H h32 (c i) (c i).isValue (Or.inr ⟨hwi, rfl⟩) (hb i)

/-- the structural bounds follow from bounds on the enumerated content -/
theorem bd_of_toMap : ∀ (n : Node) (v : Bool), Pos v n →
    (∀ kv ∈ toMap n, kv.1.length < 2 ^ 32 ∧ kv.2 ≠ [] ∧ kv.2.length < 2 ^ 32) → Bd n
  | .nil, _, _, _ => trivial
  | .value w, _, _, h => by
    have := h ([], w) (by simp [toMap])
    exact ⟨this.2.1, this.2.2⟩
  | .short k c, _, hp, h => by
    rcases hp with h0 | ⟨hw, _⟩
    · simp [Node.isNil] at h0
    · obtain ⟨_, _, hwc⟩ := hw
      have hsub : ∀ kv ∈ toMap c, (k ++ kv.1).length < 2 ^ 32 ∧ kv.2 ≠ [] ∧ kv.2.length < 2 ^ 32 := by
        intro kv hkv
        exact h (k ++ kv.1, kv.2) (by simp only [toMap, List.mem_map]; exact ⟨kv, hkv, rfl⟩)
      refine ⟨?_, bd_of_toMap c c.isValue (Or.inr ⟨hwc, rfl⟩) (fun kv hkv => ?_)⟩
      · obtain ⟨key, hka, hg⟩ := exists_key c hwc
        cases hgv : Model.Trie.get c key with
        | none => rw [hgv] at hg; cases hg
        | some x =>
          have hm := (toMap_mem_iff c c.isValue (Or.inr ⟨hwc, rfl⟩) key x hka).mpr hgv
          have := (hsub (key, x) hm).1
          simp only [List.length_append] at this; omega
      · have := hsub kv hkv
        simp only [List.length_append] at this
        exact ⟨by omega, this.2.1, this.2.2⟩
  | .full c, _, hp, h => by
    rcases hp with h0 | ⟨hw, _⟩
    · simp [Node.isNil] at h0
    · obtain ⟨hall, _⟩ := hw
      intro i
      rcases hall i with h0 | ⟨hwi, _⟩
      · rw [isNil_eq h0]; trivial
      · apply bd_of_toMap (c i) (c i).isValue (Or.inr ⟨hwi, rfl⟩)
        intro kv hkv
        have := h (i :: kv.1, kv.2) (by
          simp only [toMap, List.mem_flatMap, List.mem_map]
          exact ⟨i, List.mem_finRange i, kv, hkv, rfl⟩)
        simp only [List.length_cons] at this
        exact ⟨by omega, this.2.1, this.2.2⟩

/-- `Sane` from the content: keys shorter than 2^32 nibbles, values non-empty and shorter than 2^32 bytes -/
theorem sane_of_content (H : Bytes → Bytes) (h32 : H32 H) (n : Node) (hn : Pos false n)
    (hc : ∀ kv ∈ toMap n, kv.1.length < 2 ^ 32 ∧ kv.2 ≠ [] ∧ kv.2.length < 2 ^ 32) : Sane H n :=
  sane_of_bd H h32 n false hn (bd_of_toMap n false hn hc)

end Props.C10
