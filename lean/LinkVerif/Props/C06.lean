import LinkVerif.Model.Ledger
import LinkVerif.Props.C06Lemmas

/-!
# C06 — no transaction or block creates or destroys value

`supply = bal.sum + found + zero + pool`, `tokSupply = tok.sum` (model definitions).

* `execTx_conserves`, `execBlock_conserves`, `block_conserves`, `forceBlock_conserves`: conservation for transactions
  that are `Honest` (indices in range and, for confidential inputs, THE AMOUNT EQUATION between the output spent and
  the declared outputs + fee).
* `fees_match`: the foundation gains exactly the fees of the executed transactions; an invalid block moves nothing.
* `C06_statement` — the property as demanded of the code, without the `Honest` hypothesis — is FALSE for the model
  (which mirrors the code): `C06_counterexample`.  Nothing in `txValid`/`execTx` ties `outs`/`aout`/`gas` of a
  confidential-input transaction to the amount of the output it spends.
Core Lean only.
-/
namespace Props.C06
open Model.Ledger

/-! ## invariant and well-formedness -/

def allOuts (s : St) : List Out := s.wallets.flatten

/-- ids of all outputs of all wallets, in (wallet, output) order -/
def outIds (s : St) : List Nat := (allOuts s).map (·.id)

/-- all output ids across all wallets are pairwise distinct and below `nextOut` -/
def IdsUnique (s : St) : Prop := (outIds s).Nodup ∧ ∀ i ∈ outIds s, i < s.nextOut

instance (s : St) : Decidable (IdsUnique s) := inferInstanceAs (Decidable (_ ∧ _))

/-- the state invariant: the per-account lists have the same length; output ids are unique -/
structure Inv (s : St) : Prop where
  tok_len : s.tok.length = s.bal.length
  nonce_len : s.nonce.length = s.bal.length
  ids : IdsUnique s

theorem inv_iff (s : St) :
    Inv s ↔ (s.tok.length = s.bal.length ∧ s.nonce.length = s.bal.length ∧ IdsUnique s) :=
  ⟨fun h => ⟨h.1, h.2, h.3⟩, fun h => ⟨h.1, h.2.1, h.2.2⟩⟩

instance (s : St) : Decidable (Inv s) := decidable_of_iff _ (inv_iff s).symm

/-- the amount of the account output of a confidential-input transaction (0 if none) -/
def aoutAmount (t : TxRec) : Int := match t.aout with | some (_, v) => v | none => 0

/-- What admission plus an honest construction guarantee at execution time.  Account and wallet indices are in range
(that the token list is as long as the balance list is part of `Inv`); for a confidential input the output spent exists
(uniquely, by `IdsUnique`: `honest_spend_unique`), is unspent, and its amount is what the transaction declares:
created confidential outputs + account output + fee. -/
structure Honest (s : St) (t : TxRec) : Prop where
  from_lt : t.kind ≠ .uin → t.from_ < s.bal.length
  to_lt : t.kind = .xfer ∨ t.kind = .xfertok → t.to < s.bal.length
  wallet_lt : t.kind = .ain → t.to < s.wallets.length
  outs_lt : t.kind = .uin → ∀ p ∈ t.outs, p.1 < s.wallets.length
  aout_lt : t.kind = .uin → ∀ p ∈ t.aout, p.1 < s.bal.length
  /-- THE AMOUNT EQUATION -/
  spend : t.kind = .uin → ∃ o ∈ allOuts s, o.id = t.spends ∧ o.spent = false ∧
    o.amount = (t.outs.map (·.2)).sum + aoutAmount t + feeOfGas t.gas

theorem honest_iff (s : St) (t : TxRec) :
    Honest s t ↔
      ((t.kind ≠ .uin → t.from_ < s.bal.length) ∧ (t.kind = .xfer ∨ t.kind = .xfertok → t.to < s.bal.length) ∧
       (t.kind = .ain → t.to < s.wallets.length) ∧ (t.kind = .uin → ∀ p ∈ t.outs, p.1 < s.wallets.length) ∧
       (t.kind = .uin → ∀ p ∈ t.aout, p.1 < s.bal.length) ∧
       (t.kind = .uin → ∃ o ∈ allOuts s, o.id = t.spends ∧ o.spent = false ∧
          o.amount = (t.outs.map (·.2)).sum + aoutAmount t + feeOfGas t.gas)) :=
  ⟨fun h => ⟨h.1, h.2, h.3, h.4, h.5, h.6⟩, fun h => ⟨h.1, h.2.1, h.2.2.1, h.2.2.2.1, h.2.2.2.2.1, h.2.2.2.2.2⟩⟩

instance (s : St) (t : TxRec) : Decidable (Honest s t) := decidable_of_iff _ (honest_iff s t).symm

/-- ids determine outputs under `IdsUnique` -/
theorem ids_inj {l : List Out} (h : (l.map (·.id)).Nodup) {a b : Out} (ha : a ∈ l) (hb : b ∈ l) (hab : a.id = b.id) :
    a = b := by
  induction l with
  | nil => simp at ha
  | cons x l ih =>
    simp only [List.map_cons, List.nodup_cons] at h
    rcases List.mem_cons.mp ha with rfl | ha' <;> rcases List.mem_cons.mp hb with rfl | hb'
    · rfl
    · exact absurd (List.mem_map.mpr ⟨b, hb', hab.symm⟩) h.1
    · exact absurd (List.mem_map.mpr ⟨a, ha', hab⟩) h.1
    · exact ih h.2 ha' hb'

/-- "exactly one output with `id = t.spends`" -/
theorem honest_spend_unique {s : St} {t : TxRec} (hi : Inv s) (hh : Honest s t) (hk : t.kind = .uin) :
    ∃ o ∈ allOuts s, o.id = t.spends ∧ ∀ o' ∈ allOuts s, o'.id = t.spends → o' = o := by
  obtain ⟨o, ho, hid, _, _⟩ := hh.spend hk
  exact ⟨o, ho, hid, fun o' ho' hid' => ids_inj hi.ids.1 ho' ho (hid'.trans hid.symm)⟩

theorem init_inv (a w : Nat) (b tb : Int) : Inv (init a w b tb) := by
  refine ⟨by simp [init], by simp [init], ?_⟩
  have : outIds (init a w b tb) = [] := by
    unfold outIds allOuts init
    simp only [List.map_eq_nil_iff, List.flatten_eq_nil_iff]
    intro l hl
    exact (List.mem_replicate.mp hl).2
  unfold IdsUnique
  rw [this]
  exact ⟨List.nodup_nil, fun i hi => absurd hi (List.not_mem_nil)⟩

/-! ## created outputs per kind -/

theorem newOuts_xfer {t : TxRec} (h : t.kind = .xfer) : newOuts t = [] := by simp [newOuts, h]
theorem newOuts_xfertok {t : TxRec} (h : t.kind = .xfertok) : newOuts t = [] := by simp [newOuts, h]
theorem newOuts_ain {t : TxRec} (h : t.kind = .ain) : newOuts t = [(t.to, t.amount)] := by simp [newOuts, h]
theorem newOuts_uin {t : TxRec} (h : t.kind = .uin) : newOuts t = t.outs := by simp [newOuts, h]

theorem honest_newOuts_inrange {s : St} {t : TxRec} (hh : Honest s t) : ∀ p ∈ newOuts t, p.1 < s.wallets.length := by
  intro p hp
  cases hk : t.kind with
  | xfer => rw [newOuts_xfer hk] at hp; simp at hp
  | xfertok => rw [newOuts_xfertok hk] at hp; simp at hp
  | ain =>
    rw [newOuts_ain hk] at hp
    simp only [List.mem_singleton] at hp
    rw [hp]; exact hh.wallet_lt hk
  | uin => rw [newOuts_uin hk] at hp; exact hh.outs_lt hk p hp

/-! ## the pool under `execTx` -/

/-- `addOuts`: the pool grows by the sum of the created amounts when all wallet indices are in range -/
theorem usum_addW (ws : List (List Out)) (n : Nat) (t : TxRec) (hr : ∀ p ∈ newOuts t, p.1 < ws.length) :
    usum (addW ws 0 (tagOf n t)).flatten = usum ws.flatten + ((newOuts t).map (·.2)).sum := by
  rw [usum_perm (addW_flatten_perm_inrange ws (tagOf n t) (tagOf_inrange n t _ hr)), usum_append, usum_mkOut,
    tagOf_amounts]

theorem pool_addOuts (s : St) (t : TxRec) (hr : ∀ p ∈ newOuts t, p.1 < s.wallets.length) :
    pool (addOuts s t) = pool s + ((newOuts t).map (·.2)).sum := by
  rw [pool_eq_usum, pool_eq_usum, addOuts_wallets, usum_addW _ _ _ hr]

/-- `markSpent`: the pool decreases by exactly the spent amount when the id is unique and the output unspent -/
theorem pool_markSpent (s : St) (oid : Nat) (o : Out) (hnd : (outIds s).Nodup) (ho : o ∈ allOuts s)
    (hid : o.id = oid) (hsp : o.spent = false) :
    pool { s with wallets := markSpent s.wallets oid } = pool s - o.amount := by
  rw [pool_eq_usum, pool_eq_usum]
  simp only [markSpent_flatten]
  exact usum_mark _ oid o hnd ho hid hsp

theorem pool_execTx_acct {s : St} {t : TxRec} (hk : t.kind ≠ .uin) (hr : ∀ p ∈ newOuts t, p.1 < s.wallets.length) :
    pool (execTx s t) = pool s + ((newOuts t).map (·.2)).sum := by
  rw [pool_eq_usum, pool_eq_usum, execTx_wallets, if_neg hk, usum_addW _ _ _ hr]

theorem pool_execTx_uin {s : St} {t : TxRec} (hk : t.kind = .uin) (hnd : (outIds s).Nodup) {o : Out}
    (ho : o ∈ allOuts s) (hid : o.id = t.spends) (hsp : o.spent = false)
    (hr : ∀ p ∈ t.outs, p.1 < s.wallets.length) :
    pool (execTx s t) = pool s - o.amount + (t.outs.map (·.2)).sum := by
  have hr' : ∀ p ∈ newOuts t, p.1 < (markSpent s.wallets t.spends).length := by
    rw [newOuts_uin hk, length_markSpent]; exact hr
  have hm : usum (s.wallets.flatten.map (mark t.spends)) = usum s.wallets.flatten - o.amount :=
    usum_mark _ t.spends o hnd ho hid hsp
  rw [pool_eq_usum, pool_eq_usum, execTx_wallets, if_pos hk, usum_addW _ _ _ hr', markSpent_flatten, hm,
    newOuts_uin hk]

/-! ## output ids under `execTx` -/

theorem outIds_execTx_perm {s : St} {t : TxRec} (hr : ∀ p ∈ newOuts t, p.1 < s.wallets.length) :
    (outIds (execTx s t)).Perm (outIds s ++ List.range' s.nextOut (newOuts t).length) := by
  unfold outIds allOuts
  rw [execTx_wallets]
  have key : ∀ ws : List (List Out), ws.length = s.wallets.length →
      ws.flatten.map (·.id) = s.wallets.flatten.map (·.id) →
      ((addW ws 0 (tagOf s.nextOut t)).flatten.map (·.id)).Perm
        (s.wallets.flatten.map (·.id) ++ List.range' s.nextOut (newOuts t).length) := by
    intro ws hlen hids
    have hp := (addW_flatten_perm_inrange ws (tagOf s.nextOut t)
      (tagOf_inrange s.nextOut t _ (by rw [hlen]; exact hr))).map (·.id)
    rw [List.map_append, mkOut_ids, tagOf_snd, hids] at hp
    exact hp
  split
  · exact key _ (length_markSpent _ _) (by rw [markSpent_flatten, map_mark_ids])
  · exact key _ rfl rfl

theorem idsUnique_execTx {s : St} {t : TxRec} (h : IdsUnique s) (hr : ∀ p ∈ newOuts t, p.1 < s.wallets.length) :
    IdsUnique (execTx s t) := by
  have hp := outIds_execTx_perm (s := s) (t := t) hr
  constructor
  · rw [hp.nodup_iff, List.nodup_append]
    refine ⟨h.1, List.nodup_range' 1, ?_⟩
    intro a ha b hb hab
    have := h.2 a ha
    have := (List.mem_range'_1.mp hb).1
    omega
  · intro i hi
    rw [execTx_nextOut]
    rcases List.mem_append.mp (hp.mem_iff.mp hi) with h1 | h2
    · have := h.2 i h1; omega
    · exact (List.mem_range'_1.mp h2).2

/-! ## lengths -/

theorem applyTx_bal_length (s : St) (t : TxRec) : (applyTx s t).bal.length = s.bal.length := by
  unfold applyTx; split <;> (try simp only [length_addAt]); split <;> simp only [length_addAt]
theorem applyTx_tok_length (s : St) (t : TxRec) : (applyTx s t).tok.length = s.tok.length := by
  unfold applyTx; split <;> (try simp only [length_addAt]); split <;> rfl
theorem applyTx_nonce_length (s : St) (t : TxRec) : (applyTx s t).nonce.length = s.nonce.length := by
  unfold applyTx setN; split <;> (try simp only [List.length_set]); split <;> rfl

theorem inv_execTx {s : St} {t : TxRec} (h : Inv s) (hr : ∀ p ∈ newOuts t, p.1 < s.wallets.length) :
    Inv (execTx s t) := by
  refine ⟨?_, ?_, idsUnique_execTx h.ids hr⟩
  · rw [execTx_tok, execTx_bal, applyTx_tok_length, applyTx_bal_length]; exact h.tok_len
  · rw [execTx_nonce, execTx_bal, applyTx_nonce_length, applyTx_bal_length]; exact h.nonce_len

/-! ## balances per kind -/

theorem applyTx_xfer {s : St} {t : TxRec} (hk : t.kind = .xfer) :
    (applyTx s t).bal = addAt (addAt s.bal t.from_ (-(t.amount + feeOfGas t.gas))) t.to t.amount ∧
    (applyTx s t).tok = s.tok := by
  simp only [applyTx, hk, and_self]

theorem applyTx_xfertok {s : St} {t : TxRec} (hk : t.kind = .xfertok) :
    (applyTx s t).bal = addAt s.bal t.from_ (-(feeOfGas t.gas)) ∧
    (applyTx s t).tok = addAt (addAt s.tok t.from_ (-t.amount)) t.to t.amount := by
  simp only [applyTx, hk, and_self]

theorem applyTx_ain {s : St} {t : TxRec} (hk : t.kind = .ain) :
    (applyTx s t).bal = addAt s.bal t.from_ (-(t.amount + feeOfGas t.gas)) ∧ (applyTx s t).tok = s.tok := by
  simp only [applyTx, hk, and_self]

theorem applyTx_uin_tok {s : St} {t : TxRec} (hk : t.kind = .uin) : (applyTx s t).tok = s.tok := by
  simp only [applyTx, hk]; split <;> rfl

theorem applyTx_uin_bal_sum {s : St} {t : TxRec} (hk : t.kind = .uin) (hr : ∀ p ∈ t.aout, p.1 < s.bal.length) :
    (applyTx s t).bal.sum = s.bal.sum + aoutAmount t := by
  cases ha : t.aout with
  | none => simp only [applyTx, hk, aoutAmount, ha]; omega
  | some p =>
    obtain ⟨a, v⟩ := p
    simp only [applyTx, hk, aoutAmount, ha]
    rw [sum_addAt _ _ _ (hr (a, v) ha)]

/-! ## one transaction -/

/-- An honest transaction moves value, it neither creates nor destroys any (native and token), and keeps the invariant. -/
theorem execTx_conserves {s : St} {t : TxRec} (hi : Inv s) (hh : Honest s t) :
    supply (execTx s t) = supply s ∧ tokSupply (execTx s t) = tokSupply s ∧ Inv (execTx s t) := by
  have hr := honest_newOuts_inrange hh
  refine ⟨?_, ?_, inv_execTx hi hr⟩
  · unfold supply
    rw [execTx_bal, execTx_found, execTx_zero]
    cases hk : t.kind with
    | xfer =>
      have hne : t.kind ≠ .uin := by simp [hk]
      have hf := hh.from_lt hne
      have ht := hh.to_lt (Or.inl hk)
      rw [pool_execTx_acct hne hr, newOuts_xfer hk, (applyTx_xfer hk).1,
        sum_addAt _ _ _ (by rw [length_addAt]; exact ht), sum_addAt _ _ _ hf]
      simp only [List.map_nil, List.sum_nil]; omega
    | xfertok =>
      have hne : t.kind ≠ .uin := by simp [hk]
      have hf := hh.from_lt hne
      rw [pool_execTx_acct hne hr, newOuts_xfertok hk, (applyTx_xfertok hk).1, sum_addAt _ _ _ hf]
      simp only [List.map_nil, List.sum_nil]; omega
    | ain =>
      have hne : t.kind ≠ .uin := by simp [hk]
      have hf := hh.from_lt hne
      rw [pool_execTx_acct hne hr, newOuts_ain hk, (applyTx_ain hk).1, sum_addAt _ _ _ hf]
      simp only [List.map_cons, List.map_nil, List.sum_cons, List.sum_nil]; omega
    | uin =>
      obtain ⟨o, ho, hid, hsp, hamt⟩ := hh.spend hk
      rw [pool_execTx_uin hk hi.ids.1 ho hid hsp (hh.outs_lt hk), applyTx_uin_bal_sum hk (hh.aout_lt hk)]
      omega
  · unfold tokSupply
    rw [execTx_tok]
    cases hk : t.kind with
    | xfer => rw [(applyTx_xfer hk).2]
    | xfertok =>
      have hne : t.kind ≠ .uin := by simp [hk]
      have hf : t.from_ < s.tok.length := by rw [hi.tok_len]; exact hh.from_lt hne
      have ht : t.to < s.tok.length := by rw [hi.tok_len]; exact hh.to_lt (Or.inr hk)
      rw [(applyTx_xfertok hk).2, sum_addAt _ _ _ (by rw [length_addAt]; exact ht), sum_addAt _ _ _ hf]
      omega
    | ain => rw [(applyTx_ain hk).2]
    | uin => rw [applyTx_uin_tok hk]

/-! ## blocks -/

/-- every transaction of the list is `Honest` at the state where it executes -/
inductive HonestRun : St → List Nat → List TxRec → Prop where
  | nil (s : St) (seen : List Nat) : HonestRun s seen []
  | cons {s : St} {seen : List Nat} {t : TxRec} {rest : List TxRec} :
      Honest s t → HonestRun (execTx s t) (if t.kind = .uin then t.spends :: seen else seen) rest →
      HonestRun s seen (t :: rest)

theorem execBlock_honest {s s' : St} {seen : List Nat} {recs : List TxRec} (hi : Inv s) (hr : HonestRun s seen recs)
    (he : execBlock s seen recs = some s') : supply s' = supply s ∧ tokSupply s' = tokSupply s ∧ Inv s' := by
  induction hr generalizing s' with
  | nil s seen =>
    simp only [execBlock, Option.some.injEq] at he
    subst he; exact ⟨rfl, rfl, hi⟩
  | cons hh _ ih =>
    obtain ⟨_, he'⟩ := execBlock_cons_some he
    obtain ⟨h1, h2, h3⟩ := execTx_conserves hi hh
    obtain ⟨k1, k2, k3⟩ := ih h3 he'
    exact ⟨k1.trans h1, k2.trans h2, k3⟩

/-- **C06, partial.**  This is the `…_partial` theorem of C06: conservation over an executed block under the hypothesis
that every transaction is `Honest` where it executes.  The full statement (`C06_statement`, no such hypothesis) is
false: `C06_counterexample`. -/
theorem execBlock_conserves {s s' : St} {seen : List Nat} {recs : List TxRec} (hi : Inv s) (hr : HonestRun s seen recs)
    (he : execBlock s seen recs = some s') : supply s' = supply s ∧ tokSupply s' = tokSupply s :=
  ⟨(execBlock_honest hi hr he).1, (execBlock_honest hi hr he).2.1⟩

/-- the part of C06 that holds, as a statement -/
def C06_partial_statement : Prop :=
  ∀ (s : St) (seen : List Nat) (recs : List TxRec) (s' : St), Inv s → HonestRun s seen recs →
    execBlock s seen recs = some s' → supply s' = supply s ∧ tokSupply s' = tokSupply s

theorem C06_partial : C06_partial_statement := fun _ _ _ _ hi hr he => execBlock_conserves hi hr he

theorem execBlock_inv {s s' : St} {seen : List Nat} {recs : List TxRec} (hi : Inv s) (hr : HonestRun s seen recs)
    (he : execBlock s seen recs = some s') : Inv s' := (execBlock_honest hi hr he).2.2

theorem supply_finishBlock (s s' : St) (ids : List Nat) : supply (finishBlock s s' ids) = supply s' := rfl
theorem tokSupply_finishBlock (s s' : St) (ids : List Nat) : tokSupply (finishBlock s s' ids) = tokSupply s' := rfl
theorem inv_finishBlock {s s' : St} (ids : List Nat) (h : Inv s') : Inv (finishBlock s s' ids) :=
  ⟨h.tok_len, h.nonce_len, h.ids⟩

theorem block_conserves {s : St} (hi : Inv s) (hr : HonestRun s [] (recsOf s s.pending)) :
    supply (block s) = supply s ∧ tokSupply (block s) = tokSupply s ∧ Inv (block s) := by
  rw [block_eq]
  cases he : execBlock s [] (recsOf s s.pending) with
  | none => exact ⟨rfl, rfl, hi⟩
  | some s' =>
    obtain ⟨h1, h2, h3⟩ := execBlock_honest hi hr he
    exact ⟨h1, h2, inv_finishBlock _ h3⟩

theorem forceBlock_conserves {s : St} {ids : List Nat} (hi : Inv s) (hr : HonestRun s [] (recsOf s ids)) :
    supply (forceBlock s ids).1 = supply s ∧ tokSupply (forceBlock s ids).1 = tokSupply s ∧ Inv (forceBlock s ids).1 := by
  rw [forceBlock_eq]
  cases he : execBlock s [] (recsOf s ids) with
  | none => exact ⟨rfl, rfl, hi⟩
  | some s' =>
    obtain ⟨h1, h2, h3⟩ := execBlock_honest hi hr he
    simp only []
    split
    · exact ⟨rfl, rfl, hi⟩
    · exact ⟨h1, h2, inv_finishBlock _ h3⟩

/-! ## fees -/

def feesOf (recs : List TxRec) : Int := (recs.map (fun t => feeOfGas t.gas)).sum

/-- over an executed block the foundation gains exactly the fees of the executed transactions (no hypothesis) -/
theorem fees_match {s s' : St} {seen : List Nat} {recs : List TxRec} (he : execBlock s seen recs = some s') :
    s'.found = s.found + feesOf recs := by
  induction recs generalizing s seen with
  | nil =>
    simp only [execBlock, Option.some.injEq] at he
    subst he; simp [feesOf]
  | cons t rest ih =>
    obtain ⟨_, he'⟩ := execBlock_cons_some he
    rw [ih he', execTx_found]
    simp only [feesOf, List.map_cons, List.sum_cons]; omega

theorem block_fees {s s' : St} (he : execBlock s [] (recsOf s s.pending) = some s') :
    (block s).found = s.found + feesOf (recsOf s s.pending) := by
  have h := fees_match he
  simp only [block_eq, he]; exact h

theorem forceBlock_fees {s s' : St} {ids : List Nat} (he : execBlock s [] (recsOf s ids) = some s')
    (hok : (forceBlock s ids).2 = "ok") : (forceBlock s ids).1.found = s.found + feesOf (recsOf s ids) := by
  have h := fees_match he
  cases hb : (recsOf s ids).any (fun t => t.broken.isSome) with
  | true =>
    simp only [forceBlock_eq, he, hb, if_true] at hok
    exact absurd hok (by decide)
  | false => simp only [forceBlock_eq, he, hb, Bool.false_eq_true, if_false]; exact h

/-- `found` only changes in blocks: admission does not touch the committed ledger -/
theorem admitTx_supply (s : St) (id : Nat) (t : TxRec) :
    (admitTx s id t).2.found = s.found ∧ supply (admitTx s id t).2 = supply s ∧ tokSupply (admitTx s id t).2 = tokSupply s := by
  obtain ⟨h1, h2, h3, h4, _, h6, _⟩ := admitTx_frame s id t
  refine ⟨h3, ?_, ?_⟩
  · unfold supply pool; rw [h1, h3, h4, h6]
  · unfold tokSupply; rw [h2]

/-- an invalid block moves nothing -/
theorem forceBlock_invalid {s : St} {ids : List Nat} (he : execBlock s [] (recsOf s ids) = none) :
    (forceBlock s ids).1 = s := by
  rw [forceBlock_eq, he]

theorem forceBlock_refused {s : St} {ids : List Nat} (h : (forceBlock s ids).2 ≠ "ok") : (forceBlock s ids).1 = s := by
  cases he : execBlock s [] (recsOf s ids) with
  | none => simp only [forceBlock_eq, he]
  | some s' =>
    cases hb : (recsOf s ids).any (fun t => t.broken.isSome) with
    | true => simp only [forceBlock_eq, he, hb, if_true]
    | false =>
      simp only [forceBlock_eq, he, hb, Bool.false_eq_true, if_false] at h
      exact absurd rfl h

theorem block_invalid {s : St} (he : execBlock s [] (recsOf s s.pending) = none) : block s = s := by
  rw [block_eq, he]

/-! ## the full statement is false -/

/-- what C06 demands of the code: every executed block conserves the native supply — no `Honest` hypothesis -/
def C06_statement : Prop :=
  ∀ (s : St) (seen : List Nat) (recs : List TxRec) (s' : St), Inv s → execBlock s seen recs = some s' → supply s' = supply s

/-- one account, one wallet holding one unspent output of amount 5 -/
def cex_s : St := { bal := [0], tok := [0], nonce := [0], sbal := [0], stok := [0], snonce := [0],
                    wallets := [[{ id := 0, amount := 5, spent := false }]], nextOut := 1 }

/-- spends the output of amount 5, creates an output of amount 1000 -/
def cex_t : TxRec := { kind := .uin, spends := 0, outs := [(0, 1000)], gas := 0 }

theorem cex_inv : Inv cex_s := by decide
theorem cex_valid : txValid cex_s [] cex_t = true := by decide
theorem cex_supply : supply cex_s = 5 ∧ supply (execTx cex_s cex_t) = 1000 := by decide
/-- it passes admission too -/
theorem cex_admitted : (admitTx cex_s 0 cex_t).1 = "ok" := by decide

theorem C06_counterexample : ¬ C06_statement := by
  intro h
  have he : execBlock cex_s [] [cex_t] = some (execTx cex_s cex_t) := by
    simp only [execBlock, cex_valid, if_true]
  have := h cex_s [] [cex_t] _ cex_inv he
  rw [cex_supply.1, cex_supply.2] at this
  exact absurd this (by decide)

/-- end to end: the transaction is admitted to the mempool, the next mempool block executes it, the supply goes 5 → 1000 -/
theorem cex_block :
    let s1 := (admitTx { cex_s with txs := [cex_t] } 0 cex_t).2
    s1.pending = [0] ∧ supply s1 = 5 ∧ (block s1).height = 1 ∧ supply (block s1) = 1000 := by decide

/-- the counterexample is not `Honest`: only the amount equation fails -/
theorem cex_not_honest : ¬ Honest cex_s cex_t := by decide

/-! ## non-vacuity: a concrete honest run -/

def nv_s : St := init 2 2 100000000000 7

def nv_amt3 : Int := 5000000000
def nv_out2 : Int := nv_amt3 + feeOfGas (calGas nv_amt3)
def nv_change2 : Int := 30000000000 - nv_out2 - feeOfGas utxoGas

/-- account 0 → wallet 0 -/
def nv_t1 : TxRec := { kind := .ain, from_ := 0, to := 0, amount := 30000000000, nonce := 0, gas := calGas 30000000000 }
/-- wallet 0 spends output 0: pays wallet 1, change back to wallet 0 -/
def nv_t2 : TxRec := { kind := .uin, spends := 0, outs := [(1, nv_out2), (0, nv_change2)], gas := utxoGas }
/-- wallet 1 spends output 1 to account 1 -/
def nv_t3 : TxRec := { kind := .uin, spends := 1, outs := [], aout := some (1, nv_amt3), gas := calGas nv_amt3 }

example : Inv nv_s := by decide
example : HonestRun nv_s [] [nv_t1, nv_t2, nv_t3] :=
  .cons (by decide) (.cons (by decide) (.cons (by decide) (.nil _ _)))
example : (execBlock nv_s [] [nv_t1, nv_t2, nv_t3]).isSome = true := by decide
example : (execBlock nv_s [] [nv_t1, nv_t2, nv_t3]).map supply = some (supply nv_s) := by decide
example : (execBlock nv_s [] [nv_t1, nv_t2, nv_t3]).map (·.bal) = some [69850000000, 105000000000] := by decide
example : (execBlock nv_s [] [nv_t1, nv_t2, nv_t3]).map pool = some nv_change2 := by decide
example : nv_change2 > 0 ∧ (execBlock nv_s [] [nv_t1, nv_t2, nv_t3]).map (·.found) = some (feesOf [nv_t1, nv_t2, nv_t3]) := by
  decide
/-- the second spend of output 0 is not honest (already spent) -/
example : ¬ Honest (execTx (execTx nv_s nv_t1) nv_t2) nv_t2 := by decide

end Props.C06
