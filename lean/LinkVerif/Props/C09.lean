/-
C09 — State snapshots revert exactly and state copies are fully independent.

The tree today: `deepCopy` clones the Tokens map (fix 9e64f31), `SetTokenBalance` still inserts an un-journalled zero entry:
`Cfg.current = { cloneTokens := true, journalAbsent := false }`; `treeCfg` is the same configuration built from the facts
re-extracted from the tree on every run (what the driver executes), and `treeCfg_eq_current` checks they agree — reverting the
fix breaks that theorem (and the harness monitor `copy_independent` fires).

Clause 1 (revert) — TRUE of the current tree:
    `C09_revert_tree` = `revert_exact_any_ns`/`revert_exact_ns` for `treeCfg`: snapshot; ANY sequence of mutators, snapshots and
    reverts to ARBITRARY ids; the outer revert panics (id consumed) or restores every observable; with inner reverts confined to
    inner snapshots it succeeds.  Only side condition: non-negative balances where `Suicide` runs (`SafeNN`) — it cannot be
    dropped: `C09_revert_unconditional_counterexample` (suicideChange forgets non-positive balances).
    General versions for any Cfg, any state (shared cells allowed, then `Safe` also asks for a private map at Suicide):
    `revert_exact`, `revert_exact_any`.
Secondary observable (root) — FALSE of the current tree: `C09_root_counterexample` (known finding
    revert-leaves-zero-token-entry: the un-journalled zero entry is encoded); equal on the same witness for `Cfg.repaired`.
Clause 2 (copies) — TRUE of the current tree:
    `C09_copy_tree : C09_copy_statement treeCfg` = `world_independent`: in a world of any number of states built by Copy from a
    fresh state, a history of mutators, snapshots, reverts, Finalise, Commit and Copy on any handles changes no observable of a
    handle it does not target.  Rests on `NS` (no shared token-map cell), preserved by every operation (Props/C09NoShared.lean).
    `C09_copy_pinned_counterexample` keeps the refutation for the pinned tree (`Cfg.pinned`, before the fix) as a regression
    witness: it is what a revert of 9e64f31 would make true of the code again.
Not covered by Copy (known finding copy-misses-reset-object): a `CreateAccount` over an existing clean account is not dirty, so
    the copy starts from the OLD account; this is a statement about the copy's INITIAL observables, not about independence, and
    the model mirrors it (checked by the correspondence run and the `copy_faithful` monitor).
-/
import LinkVerif.Props.C09World
import LinkVerif.Props.C09Journal
import LinkVerif.Props.C09Blocks
import LinkVerif.Gen.C09Facts

namespace Props.C09
open Model.StateDB

def emptyCtx : Ctx := { heap := fun _ => emptyToks, nextRef := 0, st := State.empty }

theorem WF_empty : WF emptyCtx.st := by
  intro a o h; simp [emptyCtx, State.empty] at h

/-! ## clause 1 -/

/-- the clause as the property states it, with no side condition on the operations -/
def C09_revert_unconditional (cfg : Cfg) : Prop :=
  ∀ (c : Ctx), WF c.st → (∀ p ∈ c.st.revs, p.1 < c.st.nextRev) → ∀ steps : List Step, WellNested (snapshot c).2 steps →
    ∃ c2, revertTo (run cfg (snapshot c).1 steps) (snapshot c).2 = some c2 ∧ obs c2 = obs c

/-- what is proved: the same with `Safe` (a condition only where `Suicide` runs) -/
def C09_revert_statement (cfg : Cfg) : Prop :=
  ∀ (c : Ctx), WF c.st → (∀ p ∈ c.st.revs, p.1 < c.st.nextRev) → ∀ steps : List Step,
    Safe cfg (snapshot c).1 steps → WellNested (snapshot c).2 steps →
    ∃ c2, revertTo (run cfg (snapshot c).1 steps) (snapshot c).2 = some c2 ∧ obs c2 = obs c

theorem C09_revert (cfg : Cfg) : C09_revert_statement cfg :=
  fun c hw hB steps hs hn => revert_exact cfg c hw hB steps hs hn

/-- a state in which account 0 has balance −1 (reachable only through an unguarded `SubBalance`/`SetBalance`) -/
def negCtx : Ctx := applyOp Cfg.current emptyCtx (.setBal 0 (-1))

theorem WF_neg : WF negCtx.st := by
  intro a o h hd
  by_cases ha : a = 0
  · subst ha; simp [negCtx, applyOp, ensure, createObject, setBalance, setCredits, putObj, push, peek, emptyCtx, State.empty, freshObj] at h
    subst h; simp at hd
  · simp [negCtx, applyOp, ensure, createObject, setBalance, setCredits, putObj, push, peek, emptyCtx, State.empty, ha] at h

/-- `suicideChange` remembers only strictly positive balances: Snapshot; Suicide; Revert turns a negative balance into 0.
So the side condition of `revert_exact` cannot be dropped. -/
theorem C09_revert_unconditional_counterexample : ¬ C09_revert_unconditional Cfg.current := by
  intro h
  obtain ⟨c2, h1, h2⟩ := h negCtx WF_neg (by intro p hp; simp [negCtx, applyOp, ensure, createObject, setBalance, setCredits, putObj, push, peek, emptyCtx, State.empty] at hp)
    [.op (.suicide 0)] trivial
  have hb : ((obs c2).acct 0).map (·.balance) = ((obs negCtx).acct 0).map (·.balance) := by rw [h2]
  have hc : revertTo (run Cfg.current (snapshot negCtx).1 [.op (.suicide 0)]) (snapshot negCtx).2 = some c2 := h1
  revert hb
  have : some c2 = revertTo (run Cfg.current (snapshot negCtx).1 [.op (.suicide 0)]) (snapshot negCtx).2 := hc.symm
  cases hr : revertTo (run Cfg.current (snapshot negCtx).1 [.op (.suicide 0)]) (snapshot negCtx).2 with
  | none => rw [hr] at this; cases this
  | some c3 =>
    rw [hr] at this; cases this
    have e1 : ((obs negCtx).acct 0).map (·.balance) = some (-1) := by decide
    have e2 : (Option.map (fun c => ((obs c).acct 0).map (·.balance)) (revertTo (run Cfg.current (snapshot negCtx).1 [.op (.suicide 0)]) (snapshot negCtx).2)) = some (some 0) := by decide
    rw [hr] at e2
    simp only [Option.map_some, Option.some.injEq] at e2
    rw [e1, e2]
    intro h; cases h

/-- non-vacuity of `revert_exact`: a concrete history satisfying every hypothesis, with a nested snapshot, a nested revert,
a suicide, and an effect that the outer revert really undoes -/
def demoSteps : List Step :=
  [.op (.addTok 1 1 5), .snap, .op (.setNonce 1 7), .op (.setState 1 2 [1]), .revert 1, .op (.addBal 2 3), .op (.suicide 1)]

example : WellNested (snapshot emptyCtx).2 demoSteps := by simp [WellNested, demoSteps, snapshot, emptyCtx, State.empty]
example : ((obs (run Cfg.current (snapshot emptyCtx).1 demoSteps)).acct 2).map (·.balance) = some 3 := by decide
example : ((obs emptyCtx).acct 2).map (·.balance) = none := by decide

/-! ## secondary observable: the state root -/

/-- revert also restores what the account trie will commit to -/
def C09_root_statement (cfg : Cfg) : Prop :=
  ∀ (c : Ctx) (steps : List Step) (c2 : Ctx), WF c.st → Safe cfg (snapshot c).1 steps → WellNested (snapshot c).2 steps →
    revertTo (run cfg (snapshot c).1 steps) (snapshot c).2 = some c2 →
    rootContent (finalise false c2).st = rootContent (finalise false c).st

def rootWitness : Ctx := applyOp Cfg.current emptyCtx (.addBal 1 5)
def rootWitnessSteps : List Step := [.op (.addTok 1 1 7)]

/-- the token maps inside the trie content (a projection of `rootContent`) -/
def tokContent (s : State) : List (Option (List (Option Int))) :=
  addrU.map (fun a => (s.trie a).map (fun acc => tokU.map acc.tokens))

theorem tokContent_of_rootContent (s : State) : tokContent s = (rootContent s).map (Option.map (fun x => x.2.2.2.1)) := by
  simp [tokContent, rootContent, List.map_map, Function.comp_def, Option.map_map]

/-- the token part of the root after Snapshot; AddTokenBalance on a token the account does not hold; Revert; Finalise -/
def rootAfter (cfg : Cfg) : Option (List (Option (List (Option Int)))) :=
  (revertTo (run cfg (snapshot rootWitness).1 rootWitnessSteps) (snapshot rootWitness).2).map (fun c2 => tokContent (finalise false c2).st)

theorem rootAfter_current_ne : rootAfter Cfg.current ≠ some (tokContent (finalise false rootWitness).st) := by decide

/-- with the repaired journal entry (remember absence, delete on revert) the same history restores it -/
theorem rootAfter_repaired_eq : rootAfter Cfg.repaired = some (tokContent (finalise false rootWitness).st) := by decide

theorem WF_rootWitness : WF rootWitness.st := by
  intro a o h hd
  by_cases ha : a = 1
  · subst ha; simp [rootWitness, applyOp, ensure, createObject, setBalance, setCredits, putObj, push, peek, emptyCtx, State.empty, freshObj] at h
    subst h; simp at hd
  · simp [rootWitness, applyOp, ensure, createObject, setBalance, setCredits, putObj, push, peek, emptyCtx, State.empty, ha] at h

/-- **known finding `revert-leaves-zero-token-entry`**: the un-journalled `Tokens[token] = 0` survives the revert and is encoded -/
theorem C09_root_counterexample : ¬ C09_root_statement Cfg.current := by
  intro h
  cases hr : revertTo (run Cfg.current (snapshot rootWitness).1 rootWitnessSteps) (snapshot rootWitness).2 with
  | none =>
    have : rootAfter Cfg.current = none := by simp [rootAfter, hr]
    have h2 : rootAfter Cfg.current ≠ none := by decide
    exact h2 this
  | some c2 =>
    have := h rootWitness rootWitnessSteps c2 WF_rootWitness (by simp [Safe, SafeOp, rootWitnessSteps]) (by simp [WellNested, rootWitnessSteps]) hr
    apply rootAfter_current_ne
    simp [rootAfter, hr, tokContent_of_rootContent, this]

/-! ## clause 2 -/

/-- the property's second clause: starting from any world without shared cells (e.g. one fresh state), no history of operations
that do not target handle `k` — whatever they do to other handles: mutate, snapshot, revert, finalise, commit, copy them, copy
the copies — changes any observable of `k` -/
def C09_copy_statement (cfg : Cfg) : Prop :=
  ∀ (w : World), AllNS w → ∀ (ops : List WOp) (k : Nat), (∀ op ∈ ops, op.target ≠ k) → (wrun cfg w ops).obsAt k = w.obsAt k

/-- proved for every configuration whose `deepCopy` clones the map -/
theorem C09_copy_cloning (cfg : Cfg) (hc : cfg.cloneTokens = true) : C09_copy_statement cfg :=
  fun w hw ops k hk => world_independent cfg hc ops k w hw hk

/-- the configuration of the tree as the extractor sees it now (the one the driver runs) -/
def treeCfg : Cfg := { cloneTokens := Gen.C09Facts.deepCopyClonesTokens, journalAbsent := !Gen.C09Facts.zeroInsertBeforeJournal }

/-- the tree is in the state this file describes: fix 9e64f31 present, zero entry still un-journalled -/
theorem treeCfg_eq_current : treeCfg.cloneTokens = Cfg.current.cloneTokens ∧ treeCfg.journalAbsent = Cfg.current.journalAbsent := by decide

/-- **clause 2 holds of the current tree** -/
theorem C09_copy_tree : C09_copy_statement treeCfg := C09_copy_cloning treeCfg (by decide)

/-- **clause 1 holds of the current tree** in every state of a world built by the cloning `Copy` (`NS`; see `AllNS_reachable`):
arbitrary ids, panic or exact; side condition non-negative balances at `Suicide` only -/
theorem C09_revert_tree (c : Ctx) (hw : WF c.st) (hB : ∀ p ∈ c.st.revs, p.1 < c.st.nextRev) (hn : NS c.st)
    (steps : List Step) (hs : SafeNN treeCfg (snapshot c).1 steps) :
    revertTo (run treeCfg (snapshot c).1 steps) (snapshot c).2 = none ∨
    ∃ c2, revertTo (run treeCfg (snapshot c).1 steps) (snapshot c).2 = some c2 ∧ obs c2 = obs c :=
  revert_exact_any_ns treeCfg c hw hB hn steps hs

/-- account 1 holds 100 of token 1 and is dirty; handle 0 of a one-state world -/
def copyWitness : Ctx := applyOp Cfg.pinned emptyCtx (.addTok 1 1 100)

def witnessWorld : World := { heap := copyWitness.heap, nextRef := copyWitness.nextRef, states := upd (fun _ => none) 0 (some copyWitness.st) }

theorem AllNS_witnessWorld : AllNS witnessWorld := by
  intro h x hx
  by_cases h0 : h = 0
  · subst h0
    simp [witnessWorld] at hx; subst hx
    exact (applyOp_fn Cfg.pinned emptyCtx _ NS_empty).2
  · simp [witnessWorld, h0] at hx

/-- Copy(); AddTokenBalance(1, token 1, 5) on the COPY (handle 1); nothing targets handle 0 -/
def witnessOps : List WOp := [.copy 0 1, .step 1 (.op (.addTok 1 1 5))]

/-- what handle 0 reads for token 1 of account 1 -/
def tokAt (w : World) : Option (Option Int) := (w.obsAt 0).map (fun o => (o.acct 1).map (·.tok 1))

/-- **regression witness for the pinned tree** (`copy-shares-token-map`, fixed by 9e64f31): with the sharing `deepCopy` the
original reads 105 after the copy moved 5 -/
theorem C09_copy_pinned_counterexample : ¬ C09_copy_statement Cfg.pinned := by
  intro h
  have h1 := h witnessWorld AllNS_witnessWorld witnessOps 0 (by decide)
  have h2 : tokAt (wrun Cfg.pinned witnessWorld witnessOps) = some (some 105) := by decide
  have h3 : tokAt witnessWorld = some (some 100) := by decide
  simp only [tokAt, h1] at h2
  simp only [tokAt] at h3
  rw [h3] at h2
  cases h2

/-- non-vacuity for the current tree: same world, same history — the original stays at 100 while the copy (handle 1) reads 105 -/
example : tokAt (wrun Cfg.current witnessWorld witnessOps) = some (some 100) := by decide
example : (((wrun Cfg.current witnessWorld witnessOps).obsAt 1).map (fun o => (o.acct 1).map (·.tok 1))) = some (some 105) := by decide

/-- non-vacuity of `C09_revert_tree`/`revert_exact_any`: an inner revert to the OUTER id consumes it — the outer revert then panics -/
example : revertTo (run Cfg.current (snapshot emptyCtx).1 [.op (.addBal 1 5), .revert 0]) (snapshot emptyCtx).2 = none := by
  simp [revertTo, run, stepCtx, snapshot, emptyCtx, State.empty, findRev, applyOp, ensure, createObject, setBalance, setCredits, putObj, push, peek, revertJournal]

/-! ## T2 facts about the tree as it is now (regenerated on every check) -/

/-- every mutator of the journalled state appends an undo entry (the model pushes one in each of them) -/
theorem mutators_all_journal : Gen.C09Facts.journalled.all (fun p => p.2) = true := by decide

/-- `journal.revert` undoes the entry AT the snapshot index too (`revertJournal` stops at length n, i.e. undoes index n) -/
theorem revert_loop_inclusive : Gen.C09Facts.revertLoopInclusive = true := by decide

/-- the order of writes the undo-log model (`kvCommit`, `kvOpen`) assumes: `SaveWAL(height)` before any object is written; in every
trie commit the old value is read before the update is queued and the log is synced before the batch; the log is replayed exactly
when the stored height is one ahead of the block store -/
theorem wal_order_facts : (Gen.C09Facts.saveWalBeforeObjects && Gen.C09Facts.walSyncedBeforeBatch && Gen.C09Facts.rebuildWhenOneAhead) = true := by decide

end Props.C09
