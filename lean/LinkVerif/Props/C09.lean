/-
C09 — State snapshots revert exactly and state copies are fully independent.

Clause 1 (revert):   `revert_exact` (Props/C09Revert.lean), for ALL sequences of mutators with arbitrarily nested snapshot/revert
                     pairs; side condition `Safe` only at `Suicide` (non-negative balances, private token map).
                     The unconditional statement is false of the code: `C09_revert_unconditional_counterexample`.
Secondary observable (root): `C09_root_statement` is false of the current code (`C09_root_counterexample`, known finding
                     revert-leaves-zero-token-entry) and true on the same witness for the repaired journal entry.
Clause 2 (copies):   `C09_copy_statement` is false of the current code (`C09_copy_counterexample`, known finding
                     copy-shares-token-map); `copy_independent_partial` is the strongest statement true today;
                     `C09_copy_repaired` proves the statement for the repaired `deepCopy`.
-/
import LinkVerif.Props.C09Copy
import LinkVerif.Gen.C09Facts

namespace Props.C09
open Model.StateDB

def emptyCtx : Ctx := { heap := fun _ => emptyToks, nextRef := 0, st := State.empty }

theorem WF_empty : WF emptyCtx.st := by
  intro a o h; simp [emptyCtx, State.empty] at h

/-! ## clause 1 -/

/-- the clause as the property states it, with no side condition on the operations -/
def C09_revert_unconditional (cfg : Cfg) : Prop :=
  ∀ (c : Ctx), WF c.st → (∀ p ∈ c.st.revs, p.1 < c.st.nextRev) → ∀ steps : List Step, WellNested (snapshot c).2 steps →
    ∃ c2, revertTo (run cfg (snapshot c).1 steps) (snapshot c).2 = some c2 ∧ obs c2 = obs c

/-- what is proved: the same with `Safe` (a condition only where `Suicide` runs) -/
def C09_revert_statement (cfg : Cfg) : Prop :=
  ∀ (c : Ctx), WF c.st → (∀ p ∈ c.st.revs, p.1 < c.st.nextRev) → ∀ steps : List Step,
    Safe cfg (snapshot c).1 steps → WellNested (snapshot c).2 steps →
    ∃ c2, revertTo (run cfg (snapshot c).1 steps) (snapshot c).2 = some c2 ∧ obs c2 = obs c

theorem C09_revert (cfg : Cfg) : C09_revert_statement cfg :=
  fun c hw hB steps hs hn => revert_exact cfg c hw hB steps hs hn

/-- a state in which account 0 has balance −1 (reachable only through an unguarded `SubBalance`/`SetBalance`) -/
def negCtx : Ctx := applyOp Cfg.current emptyCtx (.setBal 0 (-1))

theorem WF_neg : WF negCtx.st := by
  intro a o h hd
  by_cases ha : a = 0
  · subst ha; simp [negCtx, applyOp, ensure, createObject, setBalance, setCredits, putObj, push, peek, emptyCtx, State.empty, freshObj] at h
    subst h; simp at hd
  · simp [negCtx, applyOp, ensure, createObject, setBalance, setCredits, putObj, push, peek, emptyCtx, State.empty, ha] at h

/-- `suicideChange` remembers only strictly positive balances: Snapshot; Suicide; Revert turns a negative balance into 0.
So the side condition of `revert_exact` cannot be dropped. -/
theorem C09_revert_unconditional_counterexample : ¬ C09_revert_unconditional Cfg.current := by
  intro h
  obtain ⟨c2, h1, h2⟩ := h negCtx WF_neg (by intro p hp; simp [negCtx, applyOp, ensure, createObject, setBalance, setCredits, putObj, push, peek, emptyCtx, State.empty] at hp)
    [.op (.suicide 0)] trivial
  have hb : ((obs c2).acct 0).map (·.balance) = ((obs negCtx).acct 0).map (·.balance) := by rw [h2]
  have hc : revertTo (run Cfg.current (snapshot negCtx).1 [.op (.suicide 0)]) (snapshot negCtx).2 = some c2 := h1
  revert hb
  have : some c2 = revertTo (run Cfg.current (snapshot negCtx).1 [.op (.suicide 0)]) (snapshot negCtx).2 := hc.symm
  cases hr : revertTo (run Cfg.current (snapshot negCtx).1 [.op (.suicide 0)]) (snapshot negCtx).2 with
  | none => rw [hr] at this; cases this
  | some c3 =>
    rw [hr] at this; cases this
    have e1 : ((obs negCtx).acct 0).map (·.balance) = some (-1) := by decide
    have e2 : (Option.map (fun c => ((obs c).acct 0).map (·.balance)) (revertTo (run Cfg.current (snapshot negCtx).1 [.op (.suicide 0)]) (snapshot negCtx).2)) = some (some 0) := by decide
    rw [hr] at e2
    simp only [Option.map_some, Option.some.injEq] at e2
    rw [e1, e2]
    intro h; cases h

/-- non-vacuity of `revert_exact`: a concrete history satisfying every hypothesis, with a nested snapshot, a nested revert,
a suicide, and an effect that the outer revert really undoes -/
def demoSteps : List Step :=
  [.op (.addTok 1 1 5), .snap, .op (.setNonce 1 7), .op (.setState 1 2 [1]), .revert 1, .op (.addBal 2 3), .op (.suicide 1)]

example : WellNested (snapshot emptyCtx).2 demoSteps := by simp [WellNested, demoSteps, snapshot, emptyCtx, State.empty]
example : ((obs (run Cfg.current (snapshot emptyCtx).1 demoSteps)).acct 2).map (·.balance) = some 3 := by decide
example : ((obs emptyCtx).acct 2).map (·.balance) = none := by decide

/-! ## secondary observable: the state root -/

/-- revert also restores what the account trie will commit to -/
def C09_root_statement (cfg : Cfg) : Prop :=
  ∀ (c : Ctx) (steps : List Step) (c2 : Ctx), WF c.st → Safe cfg (snapshot c).1 steps → WellNested (snapshot c).2 steps →
    revertTo (run cfg (snapshot c).1 steps) (snapshot c).2 = some c2 →
    rootContent (finalise false c2).st = rootContent (finalise false c).st

def rootWitness : Ctx := applyOp Cfg.current emptyCtx (.addBal 1 5)
def rootWitnessSteps : List Step := [.op (.addTok 1 1 7)]

/-- the token maps inside the trie content (a projection of `rootContent`) -/
def tokContent (s : State) : List (Option (List (Option Int))) :=
  addrU.map (fun a => (s.trie a).map (fun acc => tokU.map acc.tokens))

theorem tokContent_of_rootContent (s : State) : tokContent s = (rootContent s).map (Option.map (fun x => x.2.2.2.1)) := by
  simp [tokContent, rootContent, List.map_map, Function.comp_def, Option.map_map]

/-- the token part of the root after Snapshot; AddTokenBalance on a token the account does not hold; Revert; Finalise -/
def rootAfter (cfg : Cfg) : Option (List (Option (List (Option Int)))) :=
  (revertTo (run cfg (snapshot rootWitness).1 rootWitnessSteps) (snapshot rootWitness).2).map (fun c2 => tokContent (finalise false c2).st)

theorem rootAfter_current_ne : rootAfter Cfg.current ≠ some (tokContent (finalise false rootWitness).st) := by decide

/-- with the repaired journal entry (remember absence, delete on revert) the same history restores it -/
theorem rootAfter_repaired_eq : rootAfter Cfg.repaired = some (tokContent (finalise false rootWitness).st) := by decide

theorem WF_rootWitness : WF rootWitness.st := by
  intro a o h hd
  by_cases ha : a = 1
  · subst ha; simp [rootWitness, applyOp, ensure, createObject, setBalance, setCredits, putObj, push, peek, emptyCtx, State.empty, freshObj] at h
    subst h; simp at hd
  · simp [rootWitness, applyOp, ensure, createObject, setBalance, setCredits, putObj, push, peek, emptyCtx, State.empty, ha] at h

/-- **known finding `revert-leaves-zero-token-entry`**: the un-journalled `Tokens[token] = 0` survives the revert and is encoded -/
theorem C09_root_counterexample : ¬ C09_root_statement Cfg.current := by
  intro h
  cases hr : revertTo (run Cfg.current (snapshot rootWitness).1 rootWitnessSteps) (snapshot rootWitness).2 with
  | none =>
    have : rootAfter Cfg.current = none := by simp [rootAfter, hr]
    have h2 : rootAfter Cfg.current ≠ none := by decide
    exact h2 this
  | some c2 =>
    have := h rootWitness rootWitnessSteps c2 WF_rootWitness (by simp [Safe, SafeOp, rootWitnessSteps]) (by simp [WellNested, rootWitnessSteps]) hr
    apply rootAfter_current_ne
    simp [rootAfter, hr, tokContent_of_rootContent, this]

/-! ## clause 2 -/

/-- in a world without pre-existing shared cells: mutators on the copy never show in the original, mutators on the original
never show in the copy -/
def C09_copy_statement (cfg : Cfg) : Prop :=
  ∀ (c : Ctx), NSo c.st → ∀ ops : List Op,
    obsWith (runOps cfg { heap := (copy cfg c).1.heap, nextRef := (copy cfg c).1.nextRef, st := (copy cfg c).2 } ops).heap (copy cfg c).1.st
      = obsWith c.heap c.st ∧
    obsWith (runOps cfg (copy cfg c).1 ops).heap (copy cfg c).2 = obsWith (copy cfg c).1.heap (copy cfg c).2

/-- account 1 holds 100 of token 1 and is dirty -/
def copyWitness : Ctx := applyOp Cfg.current emptyCtx (.addTok 1 1 100)

theorem NSo_copyWitness : NSo copyWitness.st := (noShared_frame Cfg.current emptyCtx _ (by intro a o h; simp [emptyCtx, State.empty] at h)).2

/-- the copy of the witness, as a context over the shared heap -/
def copySide (cfg : Cfg) : Ctx :=
  { heap := (copy cfg copyWitness).1.heap, nextRef := (copy cfg copyWitness).1.nextRef, st := (copy cfg copyWitness).2 }

/-- **known finding `copy-shares-token-map`**: Copy(); AddTokenBalance(1, token 1, 5) on the COPY; the ORIGINAL reads 105 -/
theorem C09_copy_counterexample : ¬ C09_copy_statement Cfg.current := by
  intro h
  have h1 : obsWith (runOps Cfg.current (copySide Cfg.current) [.addTok 1 1 5]).heap (copy Cfg.current copyWitness).1.st = obsWith copyWitness.heap copyWitness.st :=
    (h copyWitness NSo_copyWitness [.addTok 1 1 5]).1
  have h2 : ((obsWith (runOps Cfg.current (copySide Cfg.current) [.addTok 1 1 5]).heap (copy Cfg.current copyWitness).1.st).acct 1).map (·.tok 1) = some 105 := by decide
  have h3 : ((obsWith copyWitness.heap copyWitness.st).acct 1).map (·.tok 1) = some 100 := by decide
  rw [h1, h3] at h2
  cases h2

/-- the statement holds for the repaired `deepCopy` -/
theorem C09_copy_repaired : C09_copy_statement Cfg.repaired :=
  fun c hn ops => copy_independent_repaired Cfg.repaired rfl c hn ops

/-- non-vacuity: on the witness of the counterexample the repaired code keeps the original at 100 while the copy moves to 105 -/
example : ((obsWith (runOps Cfg.repaired (copySide Cfg.repaired) [.addTok 1 1 5]).heap (copy Cfg.repaired copyWitness).1.st).acct 1).map (·.tok 1) = some 100 := by decide
example : ((obs (runOps Cfg.repaired (copySide Cfg.repaired) [.addTok 1 1 5])).acct 1).map (·.tok 1) = some 105 := by decide

/-! ## T2 facts about the tree as it is now (regenerated on every check) -/

/-- every mutator of the journalled state appends an undo entry (the model pushes one in each of them) -/
theorem mutators_all_journal : Gen.C09Facts.journalled.all (fun p => p.2) = true := by decide

/-- `journal.revert` undoes the entry AT the snapshot index too (`revertJournal` stops at length n, i.e. undoes index n) -/
theorem revert_loop_inclusive : Gen.C09Facts.revertLoopInclusive = true := by decide

end Props.C09
