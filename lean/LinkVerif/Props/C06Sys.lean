import LinkVerif.Props.C06
import LinkVerif.Props.C06X

/-!
# C06 on the real genesis: fees credited to the foundation contract, awards paid out of it

`Model.LedgerX`: `Prim.award k wei` moves `wei` from the foundation contract (`fw`: what it has paid out) to payee `k`
(`yw`); `nativeTotalWei` is the total over everything observed, in wei, payees included.
* `applyPrim_award_wei`: an award to an existing payee leaves the wei total unchanged — it is paid OUT OF the foundation's balance;
* `applyPrims_conserves_wei`: any list of in-range moves, SELFDESTRUCT marks and awards conserves the wei total;
* `award_block_conserves`: a block = executed transactions (whose fees are credited to the foundation: `Props.C06.fees_match`)
  followed by awards conserves the wei total, and the foundation's balance changes by exactly fees − awards;
* `award_unobserved_payee_loses`: without the in-range hypothesis the statement is false (kernel-checked).
The amounts of the awards are inputs (the model does not execute the WASM foundation contract).  Core Lean only.
-/
namespace Props.C06Sys
open Model.Ledger
open Props.C06 (sum_addAt length_addAt)
open Props.C06X

/-- every primitive except an award leaves the wei part (`fw`, `yw`) alone -/
theorem applyPrim_wei_frame (s : St) (x : XS) (p : Prim) (h : ∀ k w, p ≠ .award k w) :
    (applyPrim (s, x) p).2.fw = x.fw ∧ (applyPrim (s, x) p).2.yw = x.yw := by
  cases p with
  | tokIn i w units => simp only [applyPrim]; exact ⟨(addTokOuts_frame _ _).2.2.2.1, (addTokOuts_frame _ _).2.2.1⟩
  | tokSpend oid outs aout =>
    cases aout with
    | none => simp only [applyPrim]; exact ⟨(addTokOuts_frame _ _).2.2.2.1, (addTokOuts_frame _ _).2.2.1⟩
    | some a => obtain ⟨a, u, c⟩ := a; simp only [applyPrim]; exact ⟨(addTokOuts_frame _ _).2.2.2.1, (addTokOuts_frame _ _).2.2.1⟩
  | fee i u => exact ⟨rfl, rfl⟩
  | move tok src dst amt =>
    rw [applyPrim_move]
    cases src <;> cases dst <;> cases tok <;> exact ⟨rfl, rfl⟩
  | burn b => cases b <;> exact ⟨rfl, rfl⟩
  | kill b => cases b <;> exact ⟨rfl, rfl⟩
  | award k w => exact absurd rfl (h k w)

/-- an award to an existing payee: the wei total is unchanged -/
theorem applyPrim_award_wei (s : St) (x : XS) (k : Nat) (w : Int) (hk : k < x.yw.length) :
    nativeTotalWei (applyPrim (s, x) (.award k w)).1 (applyPrim (s, x) (.award k w)).2 = nativeTotalWei s x := by
  simp only [applyPrim, nativeTotalWei, nativeTotal]
  rw [sum_addAt _ _ _ hk]
  omega

/-- any list of in-range moves, SELFDESTRUCT marks and awards conserves the total in wei -/
theorem applyPrims_conserves_wei (ps : List Prim) (s : St) (x : XS) (h : AllMoves s x ps) :
    nativeTotalWei (applyPrims (s, x) ps).1 (applyPrims (s, x) ps).2 = nativeTotalWei s x := by
  induction ps generalizing s x with
  | nil => rfl
  | cons p ps ih =>
    have hstep : AllMoves (applyPrim (s, x) p).1 (applyPrim (s, x) p).2 ps := by
      cases p with
      | burn b => exact absurd h (by simp [AllMoves])
      | move tok src dst amt => simp only [AllMoves] at h; exact allMoves_step s x _ ps h.2.2
      | kill b => simp only [AllMoves] at h; exact allMoves_step s x _ ps h.2
      | award k w => simp only [AllMoves] at h; exact allMoves_step s x _ ps h.2
      | tokIn _ _ _ => exact absurd h (by simp [AllMoves])
      | tokSpend _ _ _ => exact absurd h (by simp [AllMoves])
      | fee _ _ => exact absurd h (by simp [AllMoves])
    have h2 := ih (applyPrim (s, x) p).1 (applyPrim (s, x) p).2 hstep
    simp only [applyPrims, List.foldl_cons] at h2 ⊢
    rw [h2]
    cases p with
    | burn b => exact absurd h (by simp [AllMoves])
    | tokIn _ _ _ => exact absurd h (by simp [AllMoves])
    | tokSpend _ _ _ => exact absurd h (by simp [AllMoves])
    | fee _ _ => exact absurd h (by simp [AllMoves])
    | award k w => simp only [AllMoves] at h; exact applyPrim_award_wei s x k w h.1
    | move tok src dst amt =>
      simp only [AllMoves] at h
      have hf := applyPrim_wei_frame s x (.move tok src dst amt) (fun _ _ hh => by cases hh)
      have ht := (applyPrim_move_conserves s x tok src dst amt h.1 h.2.1).1
      unfold nativeTotalWei
      rw [hf.1, hf.2, ht]
    | kill b =>
      have hf := applyPrim_wei_frame s x (.kill b) (fun _ _ hh => by cases hh)
      have ht := (applyPrim_kill_totals s x b).1
      unfold nativeTotalWei
      rw [hf.1, hf.2, ht]

/-- the list holds awards only, all to existing payees -/
def OnlyAwards (x : XS) : List Prim → Prop
  | [] => True
  | .award k _ :: ps => k < x.yw.length ∧ OnlyAwards x ps
  | _ :: _ => False

def awardSum : List Prim → Int
  | [] => 0
  | .award _ w :: ps => w + awardSum ps
  | _ :: ps => awardSum ps

theorem onlyAwards_allMoves (s : St) (x : XS) (ps : List Prim) (h : OnlyAwards x ps) : AllMoves s x ps := by
  induction ps with
  | nil => trivial
  | cons p ps ih =>
    cases p with
    | award k w => simp only [OnlyAwards] at h; exact ⟨h.1, ih h.2⟩
    | move _ _ _ _ => exact absurd h (by simp [OnlyAwards])
    | burn _ => exact absurd h (by simp [OnlyAwards])
    | kill _ => exact absurd h (by simp [OnlyAwards])
    | tokIn _ _ _ => exact absurd h (by simp [OnlyAwards])
    | tokSpend _ _ _ => exact absurd h (by simp [OnlyAwards])
    | fee _ _ => exact absurd h (by simp [OnlyAwards])

/-- awards do not touch the ledger state, and the foundation has paid out exactly their sum more -/
theorem applyPrims_onlyAwards (ps : List Prim) (s : St) (x : XS) (h : OnlyAwards x ps) :
    (applyPrims (s, x) ps).1 = s ∧ (applyPrims (s, x) ps).2.fw = x.fw + awardSum ps := by
  induction ps generalizing x with
  | nil => exact ⟨rfl, by simp [applyPrims, awardSum]⟩
  | cons p ps ih =>
    cases p with
    | award k w =>
      simp only [OnlyAwards] at h
      have hl : OnlyAwards { x with yw := addAt x.yw k w, fw := x.fw + w } ps := by
        clear ih
        induction ps with
        | nil => trivial
        | cons q qs ihq =>
          cases q with
          | award k' w' =>
            simp only [OnlyAwards] at h ⊢
            exact ⟨by rw [length_addAt]; exact h.2.1, ihq ⟨h.1, h.2.2⟩⟩
          | move _ _ _ _ => exact absurd h.2 (by simp [OnlyAwards])
          | burn _ => exact absurd h.2 (by simp [OnlyAwards])
          | kill _ => exact absurd h.2 (by simp [OnlyAwards])
          | tokIn _ _ _ => exact absurd h.2 (by simp [OnlyAwards])
          | tokSpend _ _ _ => exact absurd h.2 (by simp [OnlyAwards])
          | fee _ _ => exact absurd h.2 (by simp [OnlyAwards])
      have := ih { x with yw := addAt x.yw k w, fw := x.fw + w } hl
      simp only [applyPrims, List.foldl_cons, applyPrim, awardSum] at this ⊢
      exact ⟨this.1, by rw [this.2]; omega⟩
    | move _ _ _ _ => exact absurd h (by simp [OnlyAwards])
    | burn _ => exact absurd h (by simp [OnlyAwards])
    | kill _ => exact absurd h (by simp [OnlyAwards])
    | tokIn _ _ _ => exact absurd h (by simp [OnlyAwards])
    | tokSpend _ _ _ => exact absurd h (by simp [OnlyAwards])
    | fee _ _ => exact absurd h (by simp [OnlyAwards])

/-- **C06 on an award block (partial, as `C06_partial`).**  The transactions of the block execute (every one `Honest` where it
executes: their fees are credited to the foundation), then the foundation pays the awards: the total over everything observed,
in wei, is unchanged, and the foundation's balance changes by exactly the fees it received minus the awards it paid. -/
theorem award_block_conserves {s s' : St} {seen : List Nat} {recs : List TxRec} (x : XS) (aws : List Prim)
    (hi : Props.C06.Inv s) (hr : Props.C06.HonestRun s seen recs) (he : execBlock s seen recs = some s') (ha : OnlyAwards x aws) :
    nativeTotalWei (applyPrims (s', x) aws).1 (applyPrims (s', x) aws).2 = nativeTotalWei s x ∧
    foundationWei (applyPrims (s', x) aws).1 (applyPrims (s', x) aws).2 =
      foundationWei s x + Props.C06.feesOf recs * unitWei - awardSum aws := by
  have hs := (Props.C06.execBlock_conserves hi hr he).1
  have hf := Props.C06.fees_match he
  have hw := applyPrims_conserves_wei aws s' x (onlyAwards_allMoves s' x aws ha)
  have ho := applyPrims_onlyAwards aws s' x ha
  constructor
  · rw [hw]; unfold nativeTotalWei nativeTotal; rw [hs]
  · unfold foundationWei
    rw [ho.1, ho.2, hf]
    simp only [unitWei]
    omega

/-! ## without the in-range hypothesis the statement is false; non-vacuity -/

def sys_s : St := { bal := [1000], tok := [0], nonce := [0], sbal := [1000], stok := [0], snonce := [0], found := 7 }
def sys_x : XS := { yw := [0, 0], fw := 0 }

/-- an award to a payee that is not observed: the value leaves the foundation and is nowhere -/
theorem award_unobserved_payee_loses :
    ¬ (∀ (k : Nat) (w : Int) (s : St) (x : XS),
        nativeTotalWei (applyPrim (s, x) (.award k w)).1 (applyPrim (s, x) (.award k w)).2 = nativeTotalWei s x) := by
  intro h
  have := h 5 3 sys_s sys_x
  revert this; decide

/-- the foundation (7 units of fees = 70000000000 wei) pays 69999999996 wei to two payees: 4 wei stay with it -/
def sys_aws : List Prim := [.award 0 60000000000, .award 1 9999999996]

example : OnlyAwards sys_x sys_aws := by simp [OnlyAwards, sys_x, sys_aws]
example : nativeTotalWei (applyPrims (sys_s, sys_x) sys_aws).1 (applyPrims (sys_s, sys_x) sys_aws).2 = nativeTotalWei sys_s sys_x := by decide
example : foundationWei (applyPrims (sys_s, sys_x) sys_aws).1 (applyPrims (sys_s, sys_x) sys_aws).2 = 4 := by decide
example : (applyPrims (sys_s, sys_x) sys_aws).2.yw = [60000000000, 9999999996] := by decide

end Props.C06Sys
