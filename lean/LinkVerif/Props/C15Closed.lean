import LinkVerif.Props.C15

/-!
# C15 — closed forms of reap_gapfree and reap_funded

For senders that are accounts of the ledger (index below the number of accounts — the model stores nonces and balances in
lists; every sender the harness or a node can name is one), a successful sequential state check from the committed state
means, per sender: the offered nonces are exactly committed.nonce, +1, +2, … and the sum of the offered costs is at most
the committed balance.
-/
namespace Props.C15
open Model.Ledger Model.Mempool
open Props.C06 (length_addAt)

/-- native cost of a transaction with an account input -/
def costN (t : TxRec) : Int := if t.kind = .xfertok then feeOfGas t.gas else t.amount + feeOfGas t.gas

theorem debit_bal (a : Acc) (t : TxRec) : (debit a t).bal = addAt a.bal t.from_ (-(costN t)) := by
  unfold debit costN; cases h : t.kind <;> simp

theorem debit_lengths (a : Acc) (t : TxRec) : (debit a t).nonce.length = a.nonce.length ∧ (debit a t).bal.length = a.bal.length := by
  refine ⟨?_, ?_⟩
  · rw [debit_nonce]; simp [setN]
  · rw [debit_bal, length_addAt]

theorem canPay_cost {a : Acc} {t : TxRec} (h : canPay a t = true) : costN t ≤ geti a.bal t.from_ := by
  unfold canPay at h; unfold costN
  cases hk : t.kind <;> simp [hk] at h ⊢ <;> omega

def ofSender (s : Nat) (l : List TxRec) : List TxRec := l.filter (fun t => t.from_ == s)

/-- **reap_gapfree, closed form** -/
theorem runAcc_gapfree : ∀ (l : List TxRec) (a a' : Acc), runAcc a l = some a' → (∀ t ∈ l, t.from_ < a.nonce.length) →
    ∀ s, (ofSender s l).map (·.nonce) = List.range' (getn a.nonce s) (ofSender s l).length := by
  intro l
  induction l with
  | nil => intro a a' _ _ s; simp [ofSender]
  | cons t r ih =>
    intro a a' h hr s
    unfold runAcc at h
    split at h
    · rename_i hok
      obtain ⟨hn, _, he⟩ := checkAcc_ok hok
      have htr := hr t (List.mem_cons_self ..)
      have hr' : ∀ x ∈ r, x.from_ < (checkAcc a t).2.nonce.length := by
        intro x hx; rw [he, (debit_lengths a t).1]; exact hr x (List.mem_cons_of_mem _ hx)
      have := ih _ a' h hr' s
      rw [he, debit_nonce, getn_setN] at this
      unfold ofSender at this ⊢
      by_cases hs : t.from_ = s
      · subst hs
        simp only [List.filter_cons, beq_self_eq_true, if_true, List.map_cons, List.length_cons]
        rw [this]
        simp [htr, hn, List.range'_succ]
      · have hb : (t.from_ == s) = false := by simpa using hs
        simp only [List.filter_cons, hb]
        simpa [hs] using this
    · cases h

/-- **reap_funded, closed form** -/
theorem runAcc_funded : ∀ (l : List TxRec) (a a' : Acc), runAcc a l = some a' → (∀ t ∈ l, t.from_ < a.bal.length) →
    ∀ s, ofSender s l = [] ∨ ((ofSender s l).map costN).sum ≤ geti a.bal s := by
  intro l
  induction l with
  | nil => intro a a' _ _ s; left; rfl
  | cons t r ih =>
    intro a a' h hr s
    unfold runAcc at h
    split at h
    · rename_i hok
      obtain ⟨_, hp, he⟩ := checkAcc_ok hok
      have htr := hr t (List.mem_cons_self ..)
      have hr' : ∀ x ∈ r, x.from_ < (checkAcc a t).2.bal.length := by
        intro x hx; rw [he, (debit_lengths a t).2]; exact hr x (List.mem_cons_of_mem _ hx)
      have := ih _ a' h hr' s
      rw [he, debit_bal, geti_addAt] at this
      have hc := canPay_cost hp
      unfold ofSender at this ⊢
      by_cases hs : t.from_ = s
      · subst hs
        right
        simp only [List.filter_cons, beq_self_eq_true, if_true, List.map_cons, List.sum_cons]
        rcases this with h0 | h1
        · rw [h0]; simp; exact hc
        · simp only [htr, and_self, if_true] at h1; omega
      · have hb : (t.from_ == s) = false := by simpa using hs
        simp only [List.filter_cons, hb]
        simpa [hs] using this
    · cases h

/-- after every history, for every cap: per sender (an account of the ledger) the account part of the reap carries the
nonces committed.nonce, +1, +2, … in offer order, and its total cost is covered by the committed balance -/
theorem reap_gapfree_funded (reg : List TxRec) (cfg : Cfg) (w : Nat) (bal tbal : Int) (ops : List Op) (max : Nat) :
    let p := run reg (Model.Mempool.init cfg w bal tbal) ops
    ∃ k j, reap p max = p.good.take k ++ p.utxo.take j ∧
      ((∀ e ∈ p.good, e.t.from_ < p.c.nonce.length ∧ e.t.from_ < p.c.bal.length) →
        ∀ s, (ofSender s ((p.good.take k).map (·.t))).map (·.nonce) =
                List.range' (getn p.c.nonce s) (ofSender s ((p.good.take k).map (·.t))).length ∧
             (ofSender s ((p.good.take k).map (·.t)) = [] ∨
                ((ofSender s ((p.good.take k).map (·.t))).map costN).sum ≤ geti p.c.bal s)) := by
  intro p
  obtain ⟨k, j, a, hs, hrun⟩ := reap_sequential (inv_after_every_history reg cfg w bal tbal ops) max
  refine ⟨k, j, hs, ?_⟩
  intro hin s
  have hmem : ∀ t ∈ (p.good.take k).map (·.t), t.from_ < p.c.nonce.length ∧ t.from_ < p.c.bal.length := by
    intro t ht
    obtain ⟨e, he, rfl⟩ := List.mem_map.mp ht
    exact hin e (List.mem_of_mem_take he)
  exact ⟨runAcc_gapfree _ _ _ hrun (fun t ht => (hmem t ht).1) s, runAcc_funded _ _ _ hrun (fun t ht => (hmem t ht).2) s⟩

/-- non-vacuity: the two queued transactions of the regression witness are offered with nonces 0, 1 -/
example : (ofSender 1 ((reap (witnessPool [.submit 1, .submit 2]) 100).map (·.t))).map (·.nonce) = List.range' 0 2 := by decide

end Props.C15
