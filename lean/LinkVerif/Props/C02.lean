/-
C02 — Honest validators vote only for fully valid blocks; committed blocks apply.

The decision logic (`Model.Validate`) is transcribed from `defaultDoPrevote` / `enterPrecommit` after the
repair "validate the proposal block before prevoting or locking on it"; the tie to the source is the regenerated
call-site table `Gen.C02Facts.voteSites` (T2) plus the corruption sweep of the harness whose oracle is the real
`validateBlock`.
-/
import LinkVerif.Model.Validate
import LinkVerif.Gen.C02Facts
import LinkVerif.Props.C01Agreement

namespace Props.C02
open Model.Validate

/-- the invariant that carries the lock across rounds: a locked block passed full validation -/
def Inv (n : Node) : Prop := ∀ l, n.locked = some l → validateBlock l = true ∧ l.evidenceOk = true ∧ l.appOk = true

/-- every vote for a block emitted by `os` is for a block that passed full validation, given where it can come from -/
def VotesValid (n : Node) (o : Out) : Prop :=
  ∀ id, o = .vote (some id) →
    (∃ b, (n.locked = some b ∨ n.proposal = some b) ∧ b.id = id ∧ validateBlock b = true ∧ b.appOk = true)

theorem prevote_valid (n : Node) (h : Inv n) : VotesValid n (doPrevote n) := by
  intro id hv
  unfold doPrevote at hv
  cases hl : n.locked with
  | some l =>
    simp only [hl] at hv
    have := h l hl
    refine ⟨l, Or.inl rfl, ?_, this.1, this.2.2⟩
    cases hv; rfl
  | none =>
    simp only [hl] at hv
    cases hp : n.proposal with
    | none => simp [hp] at hv
    | some b =>
      simp only [hp] at hv
      by_cases h1 : validateBlock b = true
      · by_cases h2 : b.evidenceOk = true
        · by_cases h3 : b.appOk = true
          · simp [h1, h2, h3] at hv
            exact ⟨b, Or.inr rfl, hv, h1, h3⟩
          · simp [h1, h2, h3] at hv
        · simp [h1, h2] at hv
      · simp [h1] at hv

/-- C02, prevote clause: a correct validator never prevotes a block that fails full validation -/
theorem C02_prevote (n : Node) (h : Inv n) (id : Nat) (hv : doPrevote n = .vote (some id)) :
    ∃ b, b.id = id ∧ validateBlock b = true := by
  obtain ⟨b, _, hid, hval, _⟩ := prevote_valid n h id hv
  exact ⟨b, hid, hval⟩

theorem lockProposal_spec (n : Node) (id : Nat) (h : Inv n) :
    Inv (enterPrecommit.lockProposal n id).1 ∧
    ∀ id', (enterPrecommit.lockProposal n id).2 = .vote (some id') →
      ∃ b, n.proposal = some b ∧ b.id = id' ∧ validateBlock b = true ∧ b.appOk = true := by
  unfold enterPrecommit.lockProposal
  cases hp : n.proposal with
  | none =>
    refine ⟨?_, ?_⟩
    · intro l hl; simp at hl
    · intro id' hv; simp at hv
  | some b =>
    simp only []
    by_cases hid : b.id = id
    · by_cases h1 : validateBlock b = true
      · by_cases h2 : b.evidenceOk = true
        · by_cases h3 : b.appOk = true
          · simp only [hid, h1, h2, h3, if_true, Bool.not_true, Bool.false_eq_true, if_false]
            refine ⟨?_, ?_⟩
            · intro l hl
              simp only [Option.some.injEq] at hl
              subst hl
              exact ⟨h1, h2, h3⟩
            · intro id' hv
              refine ⟨b, rfl, ?_, h1, h3⟩
              cases hv; exact hid
          · simp only [hid, h1, h2, h3, if_true, Bool.not_true, Bool.not_false, Bool.false_eq_true, if_false]
            exact ⟨h, fun _ hv => by cases hv⟩
        · simp only [hid, h1, h2, if_true, Bool.not_true, Bool.not_false, Bool.false_eq_true, if_false]
          exact ⟨h, fun _ hv => by cases hv⟩
      · simp only [hid, h1, if_true, Bool.not_false]
        exact ⟨h, fun _ hv => by cases hv⟩
    · simp only [hid, if_false]
      refine ⟨?_, ?_⟩
      · intro l hl; simp at hl
      · intro id' hv; simp at hv

/-- C02, precommit clause + the invariant step: a precommit for a block is for the locked block (valid by the
invariant) or for the proposal block after full validation; the new lock is valid again -/
theorem precommit_valid (n : Node) (polka : Option (Option Nat)) (h : Inv n) :
    Inv (enterPrecommit n polka).1 ∧
    ∀ id, (enterPrecommit n polka).2 = .vote (some id) → ∃ b, b.id = id ∧ validateBlock b = true := by
  unfold enterPrecommit
  cases polka with
  | none => exact ⟨h, fun _ hv => by simp at hv⟩
  | some p =>
    cases p with
    | none =>
      refine ⟨?_, fun _ hv => by simp at hv⟩
      intro l hl; simp at hl
    | some id =>
      cases hl : n.locked with
      | none =>
        simp only []
        have := lockProposal_spec n id h
        refine ⟨this.1, ?_⟩
        intro id' hv
        obtain ⟨b, _, hid, hval, _⟩ := this.2 id' hv
        exact ⟨b, hid, hval⟩
      | some l =>
        simp only []
        by_cases hid : l.id = id
        · simp only [hid, if_true]
          refine ⟨h, ?_⟩
          intro id' hv
          have := h l hl
          refine ⟨l, ?_, this.1⟩
          cases hv; exact hid
        · simp only [hid, if_false]
          have := lockProposal_spec n id h
          refine ⟨this.1, ?_⟩
          intro id' hv
          obtain ⟨b, _, hid', hval, _⟩ := this.2 id' hv
          exact ⟨b, hid', hval⟩

theorem step_inv (n : Node) (i : In) (h : Inv n) : Inv (step n i).1 := by
  cases i with
  | setProposal b => exact h
  | newRound => exact h
  | prevote => exact h
  | precommit p => exact (precommit_valid n p h).1
  | unlockOnPolka => intro l hl; simp [step] at hl

/-- C02 over every input sequence of a height: whatever proposals a Byzantine proposer supplies and however the
rounds go, every vote for a block that a correct validator signs is for a block that passed `validateBlock` -/
theorem C02_statement (n : Node) (ins : List In) (h : Inv n) :
    ∀ id, Out.vote (some id) ∈ (run n ins).2 → ∃ b : Block, b.id = id ∧ validateBlock b = true := by
  induction ins generalizing n with
  | nil => intro id hm; simp [run] at hm
  | cons i is ih =>
    intro id hm
    simp only [run] at hm
    have hinv := step_inv n i h
    cases i with
    | setProposal b => simp only [step] at hm hinv; exact ih _ hinv id hm
    | newRound => simp only [step] at hm hinv; exact ih _ hinv id hm
    | unlockOnPolka => simp only [step] at hm hinv; exact ih _ hinv id hm
    | prevote =>
      simp only [step, List.mem_cons] at hm hinv
      rcases hm with hm | hm
      · exact C02_prevote n h id hm.symm
      · exact ih _ hinv id hm
    | precommit p =>
      simp only [step, List.mem_cons] at hm hinv
      rcases hm with hm | hm
      · exact (precommit_valid n p h).2 id hm.symm
      · exact ih _ hinv id hm

/-- the initial state of a height satisfies the invariant -/
theorem inv_init : Inv { locked := none, proposal := none } := by intro l hl; simp at hl

/-- consequently a committed block applies (`ApplyBlock` fails only if `validateBlock` fails): a commit is +2/3 of
the power; with < 1/3 Byzantine it contains a correct validator, whose precommit came out of the decision machine -/
theorem commit_applies (c : Model.Protocol.Cfg) (hb : Model.Protocol.byzBound c) (q : Model.Protocol.Val → Bool)
    (hq : 3 * Model.Protocol.pow c q > 2 * Model.Protocol.total c) (id : Nat)
    (hrun : ∀ v, v ∈ c.vals → q v = true → c.byz v = false →
      ∃ (n : Node) (ins : List In), Inv n ∧ Out.vote (some id) ∈ (run n ins).2) :
    ∃ b : Block, b.id = id ∧ validateBlock b = true := by
  obtain ⟨v, hv, hqv, hcorrect⟩ := Props.C01.quorum_has_correct c q hb hq
  obtain ⟨n, ins, hinv, hmem⟩ := hrun v hv hqv hcorrect
  exact C02_statement n ins hinv id hmem

/-! ## The tie: regenerated call sites (T2).  Removing or moving a validation call changes
`Gen.C02Facts.voteSites` and breaks these `decide`s. -/

open Gen.C02Facts in
/-- every place that signs a vote for the PROPOSAL block is dominated by ValidateBlock, checkBlockEvidence and CheckBlock -/
theorem proposal_sites_validated :
    ∀ s ∈ voteSites, (s.arg = "cs.ProposalBlock.Hash().Bytes()" ∨ s.cond = "cs.ProposalBlock.HashesTo(blockID.Hash.Bytes())") →
      "ValidateBlock" ∈ s.guards ∧ "checkBlockEvidence" ∈ s.guards ∧ "CheckBlock" ∈ s.guards := by decide

open Gen.C02Facts in
/-- the only other places vote for the LOCKED block (carried by the invariant), and there are exactly four sites -/
theorem sites_vetted :
    voteSites.map (fun s => (s.fn, s.cond)) =
      [("defaultDoPrevote", "cs.LockedBlock != nil"), ("defaultDoPrevote", ""),
       ("enterPrecommit", "cs.LockedBlock.HashesTo(blockID.Hash.Bytes())"),
       ("enterPrecommit", "cs.ProposalBlock.HashesTo(blockID.Hash.Bytes())")] := by decide

/-! ## Non-vacuity and the pre-repair behaviour -/

def okChecks : Checks := ⟨true, true, true, true, true, true, true, true, true⟩
def goodBlock : Block := { id := 7, checks := okChecks, evidenceOk := true, appOk := true }
/-- wrong last-block id: passes the application's CheckBlock and the evidence check, fails validateBlock -/
def badBlock : Block := { id := 8, checks := { okChecks with lastBlockId := false }, evidenceOk := true, appOk := true }

example : (run { locked := none, proposal := none } [.setProposal goodBlock, .prevote, .precommit (some (some 7)), .newRound, .prevote]).2
    = [.vote (some 7), .vote (some 7), .vote (some 7)] := by decide
example : (run { locked := none, proposal := none } [.setProposal badBlock, .prevote]).2 = [.vote none] := by decide

/-- what the code did before the repair (no ValidateBlock in the prevote path): the same block was prevoted -/
def doPrevoteUnrepaired (n : Node) : Out :=
  match n.locked with
  | some l => .vote (some l.id)
  | none =>
    match n.proposal with
    | none => .vote none
    | some b => if !b.evidenceOk then .vote none else if !b.appOk then .vote none else .vote (some b.id)

theorem unrepaired_counterexample :
    doPrevoteUnrepaired { locked := none, proposal := some badBlock } = .vote (some 8) ∧ validateBlock badBlock = false := by decide


/-- T2: the checks `validateBlock` makes, in source order — in particular the last commit is verified against the LAST
validator set (the one in force at the committed height), with the status's chain id and last block id, and its size is
compared with that set's size.  Any edit of these conditions (a different receiver, a dropped comparison) breaks this
`rfl` and is reported; a harmless rewrite has to be reviewed and the table amended. -/
theorem validateBlock_checks_fact : Gen.C02Facts.validateBlockChecks =
    ["if err != nil", "call block.ValidateBasic()", "if block.ChainID != status.ChainID",
     "if block.Height != status.LastBlockHeight+1", "if !block.LastBlockID.Equals(status.LastBlockID)",
     "if block.TotalTxs != status.LastBlockTotalTx+newTxs",
     "if !bytes.Equal(block.ConsensusHash.Bytes(), status.ConsensusParams.Hash())",
     "if !bytes.Equal(block.ValidatorsHash.Bytes(), status.Validators.Hash()) && block.Recover < 1",
     "if block.Height == types.BlockHeightOne", "if len(block.LastCommit.Precommits) != 0",
     "if len(block.LastCommit.Precommits) != status.LastValidators.Size()",
     "call status.LastValidators.VerifyCommit( status.ChainID, status.LastBlockID, block.Height-1, block.LastCommit)",
     "if err != nil", "if err != nil", "call VerifyEvidence(statusDB, status, ev)", "if err != nil || onlyOneFvi",
     "call VerifyFaultValEvidence(status, block.LastCommit, evi)",
     "if !onlyOneFvi && block.Height > types.BlockHeightOne && !status.LastRecover"] := rfl

end Props.C02
