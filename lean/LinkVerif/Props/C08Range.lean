/-
C08, arithmetic part: the range checks of `crypto.ValidateSignatureValues` (regenerated translation
`Gen.SigFacts.validateSignatureValues`) and the V arithmetic of types/sign.go (hand model `Model.SigHash`, tied by the
differential run): what an accepted (V, R, S) looks like.
-/
import LinkVerif.Model.SigHash

namespace Props.C08
open Model.SigHash Gen.SigFacts

theorem N_odd : secp256k1N % 2 = 1 := by decide
theorem N_pos : 2 < secp256k1N := by decide

/-- `range_checks` (1): what ValidateSignatureValues accepts — r, s in [1, N−1], v a recovery id, and under the
    homestead rule s in the lower half -/
theorem validate_iff (v r s : Int) (hs : Bool) :
    validateSignatureValues v r s hs = true ↔
      (1 ≤ r ∧ r < secp256k1N ∧ 1 ≤ s ∧ s < secp256k1N ∧ (hs = true → s ≤ secp256k1halfN) ∧ (v = 0 ∨ v = 1)) := by
  have hN := N_odd
  unfold validateSignatureValues secp256k1halfN
  cases hs <;> simp only [Bool.or_eq_true, Bool.and_eq_true, decide_eq_true_eq, Bool.false_and, Bool.true_and] <;>
    split <;> (try split) <;> simp_all <;> omega

example : validateSignatureValues 0 1 1 true = true := by decide
example : validateSignatureValues 1 (secp256k1N - 1) secp256k1halfN true = true := by decide
example : validateSignatureValues 0 1 (secp256k1halfN + 1) true = false := by decide
example : validateSignatureValues 0 0 1 false = false := by decide
example : validateSignatureValues 0 1 secp256k1N false = false := by decide
example : validateSignatureValues 2 1 1 false = false := by decide

/-- `range_checks` (2): the malleable twin (r, N−s) of a signature the homestead rule accepts is rejected by it -/
theorem high_s_rejected (v v' r s : Int) (h : validateSignatureValues v r s true = true) :
    validateSignatureValues v' r (twinS s) true = false := by
  have hN := N_odd
  rw [validate_iff] at h
  cases hb : validateSignatureValues v' r (twinS s) true with
  | false => rfl
  | true =>
    rw [validate_iff] at hb
    unfold twinS secp256k1halfN at *
    have := h.2.2.2.2.1 rfl
    have := hb.2.2.2.2.1 rfl
    omega

/-- … while the frontier rule (only reachable through an explicit STDFrontierSigner) accepts the twin -/
theorem twin_frontier_accepted (v r s : Int) (h : validateSignatureValues v r s true = true) :
    validateSignatureValues (1 - v) r (twinS s) false = true := by
  rw [validate_iff] at h ⊢
  unfold twinS
  refine ⟨h.1, h.2.1, by omega, by omega, by simp, by omega⟩

/-- recoverPlain accepts only |V| ∈ {27, 28} (bit length ≤ 8, byte(V−27) ∈ {0,1}) -/
theorem plainRecid_ok {R S Vb v : Int} {hs : Bool} (h : plainRecid R S Vb hs = .ok v) :
    (absI Vb = 27 ∧ v = 0 ∨ absI Vb = 28 ∧ v = 1) ∧ validateSignatureValues v R S hs = true := by
  unfold plainRecid at h
  split at h
  · simp at h
  · rename_i hf
    split at h
    · simp at h
    · rename_i hv
      injection h with h
      subst h
      have hv1 : validateSignatureValues (byteOf Vb) R S hs = true := by simpa using hv
      refine ⟨?_, hv1⟩
      have h01 := ((validate_iff _ _ _ _).1 hv1).2.2.2.2.2
      have habs : 0 ≤ absI Vb := by unfold absI; split <;> omega
      have hlt : absI Vb < 256 := by
        simp only [fits8, decide_eq_false_iff_not, Bool.not_eq_false, decide_eq_true_eq] at hf
        omega
      unfold byteOf uint64Of Go.wrapU64 at *
      omega

/-- `range_checks` (3): a signature that the EIP155 signer of chain parameter p accepts on its protected path carries
    exactly V = 35 + 2p + recid, recid ∈ {0,1}.  (No other V, in particular no negative one and none of > 8 bits after
    normalisation, passes the sign-parameter test and recoverPlain together.) -/
theorem eip_accept_canonical (p : Nat) (V R S v : Int) (hs : Bool)
    (hd : deriveSignParam V = (p : Int)) (h : plainRecid R S (V - 2 * p - 8) hs = .ok v) :
    V = 35 + 2 * p + v ∧ (v = 0 ∨ v = 1) := by
  have h1 := (plainRecid_ok h).1
  have hp : (0 : Int) ≤ p := Int.natCast_nonneg p
  unfold deriveSignParam at hd
  unfold absI at h1
  split at hd
  · rename_i hf
    simp only [fits64, decide_eq_true_eq] at hf
    unfold uint64Of absI Go.wrapU64 at *
    split at hd <;> split at h1 <;> split at hf <;> omega
  · rename_i hf
    simp only [fits64, decide_eq_true_eq] at hf
    unfold absI at hf
    split at h1 <;> split at hf <;> omega

/-- the unprotected path (V "is" 27 or 28) and the homestead/frontier signers accept only |V| ∈ {27,28} -/
theorem unprotected_iff (V : Int) : isProtectedV V = false ↔ (absI V = 27 ∨ absI V = 28) := by
  unfold isProtectedV fits8 uint64Of
  have habs : 0 ≤ absI V := by unfold absI; split <;> omega
  split
  · rename_i h
    simp only [decide_eq_true_eq] at h
    simp only [bne_iff_ne, ne_eq, Bool.and_eq_false_imp, bne_eq_false_iff_eq, decide_not, Bool.not_eq_eq_eq_not, Bool.not_true,
      Bool.not_eq_false', Bool.and_eq_false_iff, decide_eq_false_iff_not, Decidable.not_not]
    omega
  · rename_i h
    simp only [decide_eq_true_eq] at h
    constructor
    · intro h'; cases h'
    · omega

/-- information: a NEGATIVE V of absolute value 27/28 counts as unprotected and passes recoverPlain (big.Int.Uint64 and
    BitLen ignore the sign).  Only reachable through the API (UTXOTransaction.Sigs is an exported field); `libs/ser` cannot
    encode or decode a negative big.Int, so no wire transaction carries one. -/
example : isProtectedV (-27) = false ∧ plainRecid 1 1 (-27) true = .ok 0 := ⟨by decide, by rfl⟩

example : isProtectedV 27 = false ∧ isProtectedV 28 = false ∧ isProtectedV 58341 = true ∧ isProtectedV 0 = true := by decide
example : deriveSignParam 58341 = 29153 ∧ deriveSignParam 58342 = 29153 ∧ deriveSignParam 27 = 0 := by decide
/-- V < 35 wraps in uint64: an unsigned transaction (V = 0) derives a huge sign parameter and is rejected -/
example : deriveSignParam 0 = 9223372036854775790 := by decide

end Props.C08
