/-
C19 (part 1): `bytes.Compare` as modelled by `blt` is a strict total order, and the leaf functions of
`libs/db/util.go` / `types.go` against their specification.
-/
import LinkVerif.Model.KV

namespace Props.C19
open Model.KV

/-! ## the byte order -/

theorem blt_irrefl (a : Bytes) : blt a a = false := by
  induction a with
  | nil => rfl
  | cons x xs ih => simp [blt, ih]

theorem blt_trans {a b c : Bytes} (h₁ : blt a b = true) (h₂ : blt b c = true) : blt a c = true := by
  induction a generalizing b c with
  | nil =>
    cases b with
    | nil => simp [blt] at h₁
    | cons y ys => cases c with
      | nil => simp [blt] at h₂
      | cons z zs => simp [blt]
  | cons x xs ih =>
    cases b with
    | nil => simp [blt] at h₁
    | cons y ys =>
      cases c with
      | nil => simp [blt] at h₂
      | cons z zs =>
        simp only [blt] at h₁ h₂ ⊢
        by_cases hxy : x.toNat < y.toNat
        · by_cases hyz : y.toNat < z.toNat
          · have : x.toNat < z.toNat := by omega
            simp [this]
          · simp only [hyz, if_false] at h₂
            by_cases hzy : z.toNat < y.toNat
            · simp [hzy] at h₂
            · have : x.toNat < z.toNat := by omega
              simp [this]
        · simp only [hxy, if_false] at h₁
          by_cases hyx : y.toNat < x.toNat
          · simp [hyx] at h₁
          · simp only [hyx, if_false] at h₁
            by_cases hyz : y.toNat < z.toNat
            · have : x.toNat < z.toNat := by omega
              simp [this]
            · simp only [hyz, if_false] at h₂
              by_cases hzy : z.toNat < y.toNat
              · simp [hzy] at h₂
              · simp only [hzy, if_false] at h₂
                have h1 : ¬ x.toNat < z.toNat := by omega
                have h2 : ¬ z.toNat < x.toNat := by omega
                simp only [h1, h2, if_false]
                exact ih h₁ h₂

theorem blt_asymm {a b : Bytes} (h : blt a b = true) : blt b a = false := by
  cases hba : blt b a with
  | false => rfl
  | true => have := blt_trans h hba; rw [blt_irrefl] at this; cases this

/-- trichotomy: `bytes.Compare` is total and its zero case is equality -/
theorem blt_total (a b : Bytes) : blt a b = true ∨ a = b ∨ blt b a = true := by
  induction a generalizing b with
  | nil => cases b with
    | nil => exact Or.inr (Or.inl rfl)
    | cons y ys => exact Or.inl rfl
  | cons x xs ih =>
    cases b with
    | nil => exact Or.inr (Or.inr rfl)
    | cons y ys =>
      simp only [blt]
      by_cases hxy : x.toNat < y.toNat
      · simp [hxy]
      · by_cases hyx : y.toNat < x.toNat
        · simp [hxy, hyx]
        · have hx : x = y := UInt8.toNat_inj.mp (by omega)
          subst hx
          simp only [hxy, if_false]
          rcases ih ys with h | h | h
          · exact Or.inl h
          · exact Or.inr (Or.inl (by rw [h]))
          · exact Or.inr (Or.inr h)

theorem ble_iff (a b : Bytes) : ble a b = true ↔ (blt a b = true ∨ a = b) := by
  unfold ble
  constructor
  · intro h
    rcases blt_total a b with h' | h' | h'
    · exact Or.inl h'
    · exact Or.inr h'
    · simp [h'] at h
  · rintro (h | h)
    · simp [blt_asymm h]
    · subst h; simp [blt_irrefl]

theorem nil_ble (a : Bytes) : ble [] a = true := by
  cases a <;> simp [ble, blt]

/-! ## `IsKeyInDomain` -/

/-- forward domain = `start <= key < end`, nil end unbounded, nil start = empty start -/
theorem isKeyInDomain_fwd (k : Bytes) (s e : Bound) : isKeyInDomain k s e false = inFwd k s e := by
  unfold isKeyInDomain inFwd ble
  cases e with
  | none => cases h : blt k (bval s) <;> simp
  | some e' =>
    cases h : blt k (bval s) <;> cases h2 : blt k e' <;> simp [h, h2, bval, ble]

/-- reverse domain = `end < key <= start`, nil = unbounded on that side -/
theorem isKeyInDomain_rev (k : Bytes) (s e : Bound) : isKeyInDomain k s e true = inRev k s e := by
  unfold isKeyInDomain inRev ble
  cases s with
  | none =>
    cases e with
    | none => simp
    | some e' => cases h : blt e' k <;> simp [h, bval, ble]
  | some s' =>
    cases e with
    | none => cases h : blt s' k <;> simp [h, bval]
    | some e' => cases h : blt s' k <;> cases h2 : blt e' k <;> simp [h, h2, bval, ble]

/-! ## prefixes -/

theorem hasPrefix_iff (p k : Bytes) : hasPrefix p k = true ↔ ∃ t, k = p ++ t := by
  induction p generalizing k with
  | nil => simp [hasPrefix]
  | cons x xs ih =>
    cases k with
    | nil => simp [hasPrefix]
    | cons y ys =>
      simp only [hasPrefix, Bool.and_eq_true, beq_iff_eq, ih, List.cons_append, List.cons.injEq]
      constructor
      · rintro ⟨rfl, t, rfl⟩; exact ⟨t, rfl, rfl⟩
      · rintro ⟨t, rfl, rfl⟩; exact ⟨rfl, t, rfl⟩

/-- prepending a common prefix does not change the order -/
theorem blt_append_left (p a b : Bytes) : blt (p ++ a) (p ++ b) = blt a b := by
  induction p with
  | nil => rfl
  | cons x xs ih => simp [blt, ih]

/-- FULL STATEMENT (as the code assumes it): the keys with prefix `p` are exactly `[p, cpIncr p)` -/
def prefix_range_statement : Prop :=
  ∀ (p k : Bytes), p ≠ [] →
    (hasPrefix p k = true ↔ ble p k = true ∧ (cpIncrCore p = none ∨ ∃ e, cpIncrCore p = some e ∧ blt k e = true))

/-- FALSE of the current code: `cpIncr` is a fixed-width increment, `cpIncr 66ff = 6700`, and `67 < 6700` -/
theorem prefix_range_counterexample : ¬ prefix_range_statement := by
  intro h
  have := h [0x66, 0xff] [0x67] (by decide)
  revert this
  decide

/-- `PrefixToEnd` is the right bound: for EVERY prefix (empty, 0xff tails, all 0xff included) the keys
with prefix `p` are exactly `[p, PrefixToEnd p)` -/
theorem prefix_range_prefixToEnd (p k : Bytes) :
    hasPrefix p k = true ↔ ble p k = true ∧ (match prefixToEnd p with | none => True | some e => blt k e = true) := by
  induction p generalizing k with
  | nil => simp [hasPrefix, prefixToEnd, nil_ble]
  | cons x xs ih =>
    cases k with
    | nil => simp [hasPrefix, ble, blt]
    | cons y ys =>
      have ihy := ih ys
      simp only [hasPrefix, prefixToEnd, Bool.and_eq_true, beq_iff_eq]
      by_cases hxy : x = y
      · subst hxy
        have hble : ble (x :: xs) (x :: ys) = ble xs ys := by simp [ble, blt]
        rw [hble]
        cases hp : prefixToEnd xs with
        | some r =>
          simp only [hp] at ihy
          simp [blt, ihy]
        | none =>
          simp only [hp] at ihy
          by_cases hx : x.toNat < 255
          · have h1 : (x + 1).toNat = x.toNat + 1 := by rw [UInt8.toNat_add]; simp; omega
            simp only [hx, if_true]
            have : blt (x :: ys) [x + 1] = true := by
              simp only [blt, h1]; simp
            simp [this, ihy]
          · simp [hx, ihy]
      · have hne : x.toNat ≠ y.toNat := fun h => hxy (UInt8.toNat_inj.mp h)
        constructor
        · rintro ⟨h, _⟩; exact absurd h hxy
        · rintro ⟨hle, hub⟩
          exfalso
          have hxlt : x.toNat < y.toNat := by
            simp only [ble, blt] at hle
            by_cases h : y.toNat < x.toNat
            · simp [h] at hle
            · omega
          cases hp : prefixToEnd xs with
          | some r =>
            simp only [hp, blt] at hub
            have h1 : ¬ y.toNat < x.toNat := by omega
            simp [h1, hxlt] at hub
          | none =>
            simp only [hp] at hub
            by_cases hx : x.toNat < 255
            · have h1 : (x + 1).toNat = x.toNat + 1 := by rw [UInt8.toNat_add]; simp; omega
              simp only [hx, if_true, blt, h1] at hub
              by_cases h2 : y.toNat < x.toNat + 1
              · omega
              · simp only [h2, if_false] at hub
                by_cases h3 : x.toNat + 1 < y.toNat
                · simp [h3] at hub
                · simp only [h3, if_false] at hub
                  cases ys <;> simp [blt] at hub
            · have := y.toNat_lt
              omega

/-- where the code's bound is right: if the prefix does not end in 0xff, `cpIncr` and `PrefixToEnd` coincide -/
theorem cpIncr_eq_prefixToEnd (p : Bytes) (b : UInt8) (hb : b.toNat < 255) :
    cpIncrCore (p ++ [b]) = prefixToEnd (p ++ [b]) := by
  induction p with
  | nil => simp [cpIncrCore, prefixToEnd, hb]
  | cons x xs ih =>
    have h1 : prefixToEnd (xs ++ [b]) ≠ none := by
      clear ih
      induction xs with
      | nil => simp [prefixToEnd, hb]
      | cons z zs ihz =>
        simp only [List.cons_append, prefixToEnd]
        cases h : prefixToEnd (zs ++ [b]) with
        | none => exact absurd h ihz
        | some r => simp
    simp only [List.cons_append, cpIncrCore, prefixToEnd, ih]
    cases h : prefixToEnd (xs ++ [b]) with
    | none => exact absurd h h1
    | some r => rfl

/-- PARTIAL (true part of `prefix_range_statement`): prefixes that do not end in 0xff -/
theorem prefix_range_partial (p k : Bytes) (b : UInt8) (hb : b.toNat < 255) :
    hasPrefix (p ++ [b]) k = true ↔
      ble (p ++ [b]) k = true ∧ (match cpIncrCore (p ++ [b]) with | none => True | some e => blt k e = true) := by
  rw [cpIncr_eq_prefixToEnd p b hb]
  exact prefix_range_prefixToEnd (p ++ [b]) k

/-- the all-0xff case: `cpIncr` overflows to nil (no upper bound), and indeed every key >= p has prefix p
only up to the end of the key space: nil is the correct bound there too -/
theorem cpIncr_all_ff (n : Nat) : cpIncrCore (List.replicate (n + 1) 0xff) = none ∧ prefixToEnd (List.replicate (n + 1) 0xff) = none := by
  induction n with
  | zero => decide
  | succ m ih =>
    rw [List.replicate_succ]
    simp only [cpIncrCore, prefixToEnd, ih.1, ih.2]
    constructor <;> simp

example : cpIncrCore [0x66, 0xff] = some [0x67, 0x00] := by decide
example : prefixToEnd [0x66, 0xff] = some [0x67] := by decide
example : hasPrefix [0x61] [0x61, 0x62] = true ∧ blt [0x61, 0x62] [0x62] = true := by decide

end Props.C19
