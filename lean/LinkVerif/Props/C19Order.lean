/-
C19 (part 1): `bytes.Compare` as modelled by `blt` is a strict total order, and the leaf functions of
`libs/db/util.go` / `types.go` against their specification.
-/
import LinkVerif.Model.KV

namespace Props.C19
open Model.KV

/-! ## the byte order -/

theorem blt_irrefl (a : Bytes) : blt a a = false := by
  induction a with
  | nil => rfl
  | cons x xs ih => simp [blt, ih]

theorem blt_trans {a b c : Bytes} (h₁ : blt a b = true) (h₂ : blt b c = true) : blt a c = true := by
  induction a generalizing b c with
  | nil =>
    cases b with
    | nil => simp [blt] at h₁
    | cons y ys => cases c with
      | nil => simp [blt] at h₂
      | cons z zs => simp [blt]
  | cons x xs ih =>
    cases b with
    | nil => simp [blt] at h₁
    | cons y ys =>
      cases c with
      | nil => simp [blt] at h₂
      | cons z zs =>
        simp only [blt] at h₁ h₂ ⊢
        by_cases hxy : x.toNat < y.toNat
        · by_cases hyz : y.toNat < z.toNat
          · have : x.toNat < z.toNat := by omega
            simp [this]
          · simp only [hyz, if_false] at h₂
            by_cases hzy : z.toNat < y.toNat
            · simp [hzy] at h₂
            · have : x.toNat < z.toNat := by omega
              simp [this]
        · simp only [hxy, if_false] at h₁
          by_cases hyx : y.toNat < x.toNat
          · simp [hyx] at h₁
          · simp only [hyx, if_false] at h₁
            by_cases hyz : y.toNat < z.toNat
            · have : x.toNat < z.toNat := by omega
              simp [this]
            · simp only [hyz, if_false] at h₂
              by_cases hzy : z.toNat < y.toNat
              · simp [hzy] at h₂
              · simp only [hzy, if_false] at h₂
                have h1 : ¬ x.toNat < z.toNat := by omega
                have h2 : ¬ z.toNat < x.toNat := by omega
                simp only [h1, h2, if_false]
                exact ih h₁ h₂

theorem blt_asymm {a b : Bytes} (h : blt a b = true) : blt b a = false := by
  cases hba : blt b a with
  | false => rfl
  | true => have := blt_trans h hba; rw [blt_irrefl] at this; cases this

/-- trichotomy: `bytes.Compare` is total and its zero case is equality -/
theorem blt_total (a b : Bytes) : blt a b = true ∨ a = b ∨ blt b a = true := by
  induction a generalizing b with
  | nil => cases b with
    | nil => exact Or.inr (Or.inl rfl)
    | cons y ys => exact Or.inl rfl
  | cons x xs ih =>
    cases b with
    | nil => exact Or.inr (Or.inr rfl)
    | cons y ys =>
      simp only [blt]
      by_cases hxy : x.toNat < y.toNat
      · simp [hxy]
      · by_cases hyx : y.toNat < x.toNat
        · simp [hxy, hyx]
        · have hx : x = y := UInt8.toNat_inj.mp (by omega)
          subst hx
          simp only [hxy, if_false]
          rcases ih ys with h | h | h
          · exact Or.inl h
          · exact Or.inr (Or.inl (by rw [h]))
          · exact Or.inr (Or.inr h)

theorem ble_iff (a b : Bytes) : ble a b = true ↔ (blt a b = true ∨ a = b) := by
  unfold ble
  constructor
  · intro h
    rcases blt_total a b with h' | h' | h'
    · exact Or.inl h'
    · exact Or.inr h'
    · simp [h'] at h
  · rintro (h | h)
    · simp [blt_asymm h]
    · subst h; simp [blt_irrefl]

theorem nil_ble (a : Bytes) : ble [] a = true := by
  cases a <;> simp [ble, blt]

/-! ## `IsKeyInDomain` -/

/-- forward domain = `start <= key < end`, nil end unbounded, nil start = empty start -/
theorem isKeyInDomain_fwd (k : Bytes) (s e : Bound) : isKeyInDomain k s e false = inFwd k s e := by
  unfold isKeyInDomain inFwd ble
  cases e with
  | none => cases h : blt k (bval s) <;> simp
  | some e' =>
    cases h : blt k (bval s) <;> cases h2 : blt k e' <;> simp [h, h2, bval, ble]

/-- reverse domain = `end < key <= start`, nil = unbounded on that side -/
theorem isKeyInDomain_rev (k : Bytes) (s e : Bound) : isKeyInDomain k s e true = inRev k s e := by
  unfold isKeyInDomain inRev ble
  cases s with
  | none =>
    cases e with
    | none => simp
    | some e' => cases h : blt e' k <;> simp [h, bval, ble]
  | some s' =>
    cases e with
    | none => cases h : blt s' k <;> simp [h, bval]
    | some e' => cases h : blt s' k <;> cases h2 : blt e' k <;> simp [h, h2, bval, ble]

/-! ## prefixes -/

theorem hasPrefix_iff (p k : Bytes) : hasPrefix p k = true ↔ ∃ t, k = p ++ t := by
  induction p generalizing k with
  | nil => simp [hasPrefix]
  | cons x xs ih =>
    cases k with
    | nil => simp [hasPrefix]
    | cons y ys =>
      simp only [hasPrefix, Bool.and_eq_true, beq_iff_eq, ih, List.cons_append, List.cons.injEq]
      constructor
      · rintro ⟨rfl, t, rfl⟩; exact ⟨t, rfl, rfl⟩
      · rintro ⟨t, rfl, rfl⟩; exact ⟨rfl, t, rfl⟩

/-- prepending a common prefix does not change the order -/
theorem blt_append_left (p a b : Bytes) : blt (p ++ a) (p ++ b) = blt a b := by
  induction p with
  | nil => rfl
  | cons x xs ih => simp [blt, ih]

/-- FULL STATEMENT: the keys with prefix `p` are exactly the range `[p, PrefixToEnd p)` that the code iterates
(`IteratePrefix`, `NewIteratorWithPrefix`, `PrefixDB`) - for EVERY prefix: empty, 0xff tails, all 0xff -/
def prefix_range_statement : Prop :=
  ∀ (p k : Bytes),
    (hasPrefix p k = true ↔ ble p k = true ∧ (match prefixToEnd p with | none => True | some e => blt k e = true))

/-- proof of `prefix_range_statement` -/
theorem prefix_range_prefixToEnd (p k : Bytes) :
    hasPrefix p k = true ↔ ble p k = true ∧ (match prefixToEnd p with | none => True | some e => blt k e = true) := by
  induction p generalizing k with
  | nil => simp [hasPrefix, prefixToEnd, nil_ble]
  | cons x xs ih =>
    cases k with
    | nil => simp [hasPrefix, ble, blt]
    | cons y ys =>
      have ihy := ih ys
      simp only [hasPrefix, prefixToEnd, Bool.and_eq_true, beq_iff_eq]
      by_cases hxy : x = y
      · subst hxy
        have hble : ble (x :: xs) (x :: ys) = ble xs ys := by simp [ble, blt]
        rw [hble]
        cases hp : prefixToEnd xs with
        | some r =>
          simp only [hp] at ihy
          simp [blt, ihy]
        | none =>
          simp only [hp] at ihy
          by_cases hx : x.toNat < 255
          · have h1 : (x + 1).toNat = x.toNat + 1 := by rw [UInt8.toNat_add]; simp; omega
            simp only [hx, if_true]
            have : blt (x :: ys) [x + 1] = true := by
              simp only [blt, h1]; simp
            simp [this, ihy]
          · simp [hx, ihy]
      · have hne : x.toNat ≠ y.toNat := fun h => hxy (UInt8.toNat_inj.mp h)
        constructor
        · rintro ⟨h, _⟩; exact absurd h hxy
        · rintro ⟨hle, hub⟩
          exfalso
          have hxlt : x.toNat < y.toNat := by
            simp only [ble, blt] at hle
            by_cases h : y.toNat < x.toNat
            · simp [h] at hle
            · omega
          cases hp : prefixToEnd xs with
          | some r =>
            simp only [hp, blt] at hub
            have h1 : ¬ y.toNat < x.toNat := by omega
            simp [h1, hxlt] at hub
          | none =>
            simp only [hp] at hub
            by_cases hx : x.toNat < 255
            · have h1 : (x + 1).toNat = x.toNat + 1 := by rw [UInt8.toNat_add]; simp; omega
              simp only [hx, if_true, blt, h1] at hub
              by_cases h2 : y.toNat < x.toNat + 1
              · omega
              · simp only [h2, if_false] at hub
                by_cases h3 : x.toNat + 1 < y.toNat
                · simp [h3] at hub
                · simp only [h3, if_false] at hub
                  cases ys <;> simp [blt] at hub
            · have := y.toNat_lt
              omega

theorem prefix_range : prefix_range_statement := fun p k => prefix_range_prefixToEnd p k

/-- the all-0xff case: no upper bound (nil), and then every key >= p has the prefix -/
theorem prefixToEnd_all_ff (n : Nat) : prefixToEnd (List.replicate n 0xff) = none := by
  induction n with
  | zero => rfl
  | succ m ih =>
    rw [List.replicate_succ]
    simp only [prefixToEnd, ih]
    simp

theorem blt_nil_right (a : Bytes) : blt a [] = false := by cases a <;> rfl

theorem ble_append_right (p t : Bytes) : ble p (p ++ t) = true := by
  have h := blt_append_left p t []
  rw [List.append_nil, blt_nil_right] at h
  simp [ble, h]

theorem ble_trans {a b c : Bytes} (h₁ : ble a b = true) (h₂ : ble b c = true) : ble a c = true := by
  rcases (ble_iff a b).mp h₁ with h | h
  · rcases (ble_iff b c).mp h₂ with h' | h'
    · exact (ble_iff a c).mpr (Or.inl (blt_trans h h'))
    · subst h'; exact h₁
  · subst h; exact h₂

theorem blt_of_blt_of_ble {a b c : Bytes} (h₁ : blt a b = true) (h₂ : ble b c = true) : blt a c = true := by
  rcases (ble_iff b c).mp h₂ with h | h
  · exact blt_trans h₁ h
  · subst h; exact h₁

theorem blt_of_ble_of_blt {a b c : Bytes} (h₁ : ble a b = true) (h₂ : blt b c = true) : blt a c = true := by
  rcases (ble_iff a b).mp h₁ with h | h
  · exact blt_trans h h₂
  · subst h; exact h₂

/-- `cpDecr p` (when it does not underflow) is strictly below `p`, hence below every key with prefix `p` -/
theorem cpDecr_lt {p d : Bytes} (h : cpDecrCore p = some d) : blt d p = true := by
  induction p generalizing d with
  | nil => simp [cpDecrCore] at h
  | cons b rest ih =>
    simp only [cpDecrCore] at h
    cases hr : cpDecrCore rest with
    | some r =>
      simp only [hr, Option.some.injEq] at h
      subst h
      simp [blt, ih hr]
    | none =>
      simp only [hr] at h
      by_cases hb : 0 < b.toNat
      · simp only [hb, if_true, Option.some.injEq] at h
        subst h
        have h1 : (b - 1).toNat = b.toNat - 1 := by
          rw [UInt8.toNat_sub_of_le]
          · rfl
          · exact UInt8.le_iff_toNat_le.mpr (by simp; omega)
        have : (b - 1).toNat < b.toNat := by omega
        simp [blt, this]
      · simp [hb] at h

example : cpDecrCore [0x67, 0x00] = some [0x66, 0xff] := by decide
example : cpDecrCore [0x00, 0x00] = none := by decide
example : prefixToEnd [0x66, 0xff] = some [0x67] := by decide
example : hasPrefix [0x61] [0x61, 0x62] = true ∧ blt [0x61, 0x62] [0x62] = true := by decide

end Props.C19
