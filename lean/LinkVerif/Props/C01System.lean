/-
C01: the GLOBAL theorem.  A system of node models (`Model.Node`, one per correct validator) plus an adversary that adds
arbitrary events of Byzantine validators produces a merged history (for one height `H`) that satisfies L-A's voting
discipline `Model.Protocol.disciplined`; with Byzantine power below one third, two correct node models never commit
different blocks at `H` (`node_models_agree`, through `Props.C01.agreement`).

Network hypotheses are explicit in the step relation `SysStep.deliver`:
* `Sched` (the ticker): a delivered timeout is one the node scheduled earlier (it is among its outputs) or a round-0 timeout;
  `WellTimed` is DERIVED from it (invariant `TimeoutsOK`);
* `Recv` (unforgeability): an ACCEPTABLE vote input (signature, size and address verdict `ok = true`) for height `H` naming
  validator `j` is an event of the history so far — a correct signer's vote was emitted by its node, the adversary's votes are
  events too.  That every vote in a correct node's tables is in the history (`Seen`) is then an invariant, DERIVED from the frame
  theorem `Grow` (the model records a vote only when it is the input of the step).
-/
import LinkVerif.Props.C01NodeGlobal

namespace Props.C01Node
open Model.Node Model.Protocol

/-! ## generic: extending a disciplined history -/

theorem disciplinedFrom_ok (c : Cfg) : ∀ (l q : List Event),
    (∀ pre e post, l = pre ++ e :: post → eventOk c (q ++ pre) e = true) → disciplinedFrom c q l = true
  | [], _, _ => rfl
  | e :: rest, q, h => by
    simp only [disciplinedFrom, Bool.and_eq_true]
    refine ⟨by simpa using h [] e rest rfl, disciplinedFrom_ok c rest (q ++ [e]) ?_⟩
    intro pre e' post hs
    have := h (e :: pre) e' post (by rw [hs]; rfl)
    simpa [List.append_assoc] using this

theorem disciplinedFrom_append (c : Cfg) : ∀ (l₁ l₂ q : List Event),
    disciplinedFrom c q (l₁ ++ l₂) = (disciplinedFrom c q l₁ && disciplinedFrom c (q ++ l₁) l₂)
  | [], l₂, q => by simp [disciplinedFrom]
  | e :: rest, l₂, q => by
    simp only [List.cons_append, disciplinedFrom]
    rw [disciplinedFrom_append c rest l₂ (q ++ [e])]
    simp [Bool.and_assoc, List.append_assoc]

/-- a disciplined history stays disciplined when every appended event is fine given what precedes it -/
theorem disciplined_extend (c : Cfg) (h l : List Event) (hd : disciplined c h = true)
    (hl : ∀ pre e post, l = pre ++ e :: post → eventOk c (h ++ pre) e = true) : disciplined c (h ++ l) = true := by
  unfold disciplined at hd ⊢
  rw [disciplinedFrom_append, hd]
  simpa using disciplinedFrom_ok c l h hl

theorem filterMap_split {α β : Type} (f : α → Option β) : ∀ (l : List α) (a : List β) (b : β) (c : List β),
    l.filterMap f = a ++ b :: c → ∃ pre o post, l = pre ++ o :: post ∧ f o = some b ∧ pre.filterMap f = a ∧ post.filterMap f = c
  | [], a, b, c, h => by cases a <;> simp at h
  | x :: rest, a, b, c, h => by
    cases hx : f x with
    | none =>
      simp only [List.filterMap_cons, hx] at h
      obtain ⟨pre, o, post, e1, e2, e3, e4⟩ := filterMap_split f rest a b c h
      exact ⟨x :: pre, o, post, by rw [e1]; rfl, e2, by simp [List.filterMap_cons, hx, e3], e4⟩
    | some y =>
      simp only [List.filterMap_cons, hx] at h
      cases a with
      | nil =>
        simp only [List.nil_append, List.cons.injEq] at h
        exact ⟨[], x, rest, rfl, by rw [hx, h.1], rfl, h.2⟩
      | cons a0 a' =>
        simp only [List.cons_append, List.cons.injEq] at h
        obtain ⟨pre, o, post, e1, e2, e3, e4⟩ := filterMap_split f rest a' b c h.2
        exact ⟨x :: pre, o, post, by rw [e1]; rfl, e2, by simp [List.filterMap_cons, hx, e3, h.1], e4⟩

/-! ## from outputs to L-A events (one height `H`, validator `n`) -/

def actor : Event → Nat
  | .prevote n _ _ => n
  | .precommit n _ _ => n
  | .decide n _ _ => n

/-- the vote slot of an event as a number (as `stamp` for outputs) -/
def estamp : Event → Nat
  | .prevote _ r _ => r * 16 + 4
  | .precommit _ r _ => r * 16 + 6
  | .decide _ _ _ => 0

def evOf (H n : Nat) : Out → Option Event
  | .vote t h r v =>
    if h = H then
      (if t = tPrevote then some (.prevote n r (optV v)) else if t = tPrecommit then some (.precommit n r (optV v)) else none)
    else none
  | .commit h r v => if h = H then some (.decide n r v) else none
  | _ => none

def evsOf (H n : Nat) (l : List Out) : List Event := l.filterMap (evOf H n)

theorem evOf_actor {H n : Nat} {o : Out} {e : Event} (h : evOf H n o = some e) : actor e = n := by
  cases o with
  | vote t h' r v =>
    simp only [evOf] at h
    split at h
    · split at h
      · cases h; rfl
      · split at h
        · cases h; rfl
        · cases h
    · cases h
  | commit h' r v => simp only [evOf] at h; split at h <;> cases h; rfl
  | proposal _ _ _ _ => cases h
  | timeout _ _ _ => cases h

/-- an event of `evsOf` comes from a vote/commit output at height `H` with the same slot -/
theorem evOf_src {H n : Nat} {o : Out} {e : Event} (h : evOf H n o = some e) :
    (∃ r v, o = .vote tPrevote H r v ∧ e = .prevote n r (optV v)) ∨
    (∃ r v, o = .vote tPrecommit H r v ∧ e = .precommit n r (optV v)) ∨
    (∃ r v, o = .commit H r v ∧ e = .decide n r v) := by
  cases o with
  | vote t h' r v =>
    simp only [evOf] at h
    split at h
    · rename_i hh; subst hh
      split at h
      · rename_i ht; subst ht; cases h; exact Or.inl ⟨r, v, rfl, rfl⟩
      · split at h
        · rename_i ht; subst ht; cases h; exact Or.inr (Or.inl ⟨r, v, rfl, rfl⟩)
        · cases h
    · cases h
  | commit h' r v =>
    simp only [evOf] at h
    split at h
    · rename_i hh; subst hh; cases h; exact Or.inr (Or.inr ⟨r, v, rfl, rfl⟩)
    · cases h
  | proposal _ _ _ _ => cases h
  | timeout _ _ _ => cases h

theorem mem_evsOf {H n : Nat} {l : List Out} {e : Event} (h : e ∈ evsOf H n l) : ∃ o ∈ l, evOf H n o = some e := by
  unfold evsOf at h
  obtain ⟨o, ho, he⟩ := List.mem_filterMap.1 h
  exact ⟨o, ho, he⟩

theorem optV_some {x b : Nat} (h : optV x = some b) : x = b ∧ b ≠ 0 := by
  unfold optV at h
  split at h
  · cases h
  · rename_i hx; cases h; exact ⟨rfl, hx⟩

theorem Seen_append {mk : Nat → Nat → Option Nat → Event} {p : List Event} {tbl : Nat → VSet} (h : Seen mk p tbl) (x : List Event) :
    Seen mk (p ++ x) tbl := fun r v bv i hb hi => List.mem_append_left _ (h r v bv i hb hi)

/-- in a chain, the stamped outputs before `o` have smaller stamps -/
theorem chain_pre_lt {a b : Nat} {pre post : List Out} {o o' : Out} {k k' : Nat} (hc : Chain a (pre ++ o :: post) b)
    (ho' : o' ∈ pre) (hk' : stamp o' = some k') (hk : stamp o = some k) : k' < k := by
  have hp := Chain_nodup hc
  rw [List.filterMap_append, List.pairwise_append] at hp
  exact hp.2.2 k' (List.mem_filterMap.2 ⟨o', ho', hk'⟩) k (List.mem_filterMap.2 ⟨o, by simp, hk⟩)

/-! ## one step of one correct node produces only events the discipline allows -/

/-- what the system knows about correct validator `n`: its model state `s`, everything it has output (`log`), and that its events in
the history are exactly images of its outputs -/
structure NodeCtx (H n : Nat) (hist : List Event) (s : St) (log : List Out) : Prop where
  good : Good s
  below : Below s log
  once : Once log
  held : PrecommitsHeld s log
  tmo : TimeoutsOK s log
  own : ∀ e ∈ hist, actor e = n → e ∈ evsOf H n log

theorem stamp_prevote (h r v : Nat) : stamp (.vote tPrevote h r v) = some (r * 16 + 4) := by simp [stamp]
theorem stamp_precommit (h r v : Nat) : stamp (.vote tPrecommit h r v) = some (r * 16 + 6) := by simp [stamp, tPrecommit, tPrevote]

/-- the node's own earlier events (in the history, or earlier in this step) have smaller stamps than the vote `o` being emitted -/
theorem own_lt {H n : Nat} {hist : List Event} {s : St} {log : List Out} (cx : NodeCtx H n hist s log) (i : In)
    (ht : WellTimed s i) (hH : s.height = H) {pre post : List Out} {o : Out} {k : Nat}
    (hout : (stepCore s i).out = pre ++ o :: post) (hk : stamp o = some k) (hmu : mu s < k) :
    ∀ e' ∈ hist ++ evsOf H n pre, actor e' = n → estamp e' < k := by
  obtain ⟨_, _, _, _, _, _, _, hch, _, _, _, _⟩ := Spec_unfold cx.good.1 (stepCore_Spec s i ht)
  rw [hout] at hch
  intro e' he' ha
  rcases List.mem_append.1 he' with he' | he'
  · obtain ⟨o', ho', hev⟩ := mem_evsOf (cx.own e' he' ha)
    rcases evOf_src hev with ⟨r, v, e1, e2⟩ | ⟨r, v, e1, e2⟩ | ⟨r, v, e1, e2⟩
    · subst e1; subst e2
      rcases cx.below _ _ _ _ ho' with hlt | ⟨_, hle⟩
      · omega
      · simp [estamp] at hle ⊢; omega
    · subst e1; subst e2
      rcases cx.below _ _ _ _ ho' with hlt | ⟨_, hle⟩
      · omega
      · simp [estamp, tPrecommit, tPrevote] at hle ⊢; omega
    · subst e2; simp [estamp]; omega
  · obtain ⟨o', ho', hev⟩ := mem_evsOf he'
    rcases evOf_src hev with ⟨r, v, e1, e2⟩ | ⟨r, v, e1, e2⟩ | ⟨r, v, e1, e2⟩
    · subst e1; subst e2
      simpa [estamp] using chain_pre_lt hch ho' (stamp_prevote _ _ _) hk
    · subst e1; subst e2
      simpa [estamp] using chain_pre_lt hch ho' (stamp_precommit _ _ _) hk
    · subst e2; simp [estamp]; omega

theorem noLaterRound_of_lt {p : List Event} {n r k : Nat} (hk : k ≤ r * 16 + 6)
    (h : ∀ e' ∈ p, actor e' = n → estamp e' < k) : noLaterRound p n r = true := by
  unfold noLaterRound
  rw [List.all_eq_true]
  intro e' he'
  cases e' with
  | prevote m r' w =>
    by_cases hm : m = n
    · have := h _ he' (by simp [actor, hm]); simp [estamp] at this
      have hr : r' ≤ r := by show @LE.le Nat _ r' r; omega
      simp [hm, hr]
    · simp [hm]
  | precommit m r' w =>
    by_cases hm : m = n
    · have := h _ he' (by simp [actor, hm]); simp [estamp] at this
      have hr : r' ≤ r := by show @LE.le Nat _ r' r; omega
      simp [hm, hr]
    · simp [hm]
  | decide _ _ _ => rfl

theorem no_prevoteAt_of_lt {p : List Event} {n r : Nat} (h : ∀ e' ∈ p, actor e' = n → estamp e' < r * 16 + 4) :
    anyPrevoteAt p n r = false := by
  unfold anyPrevoteAt
  rw [Bool.eq_false_iff]
  intro hany
  obtain ⟨e', he', hm⟩ := List.any_eq_true.1 hany
  cases e' with
  | prevote m r' w =>
    simp at hm
    have := h _ he' (by simp [actor, hm.1]); simp [estamp, hm.2] at this
  | precommit _ _ _ => simp at hm
  | decide _ _ _ => simp at hm

theorem no_precommitAt_of_lt {p : List Event} {n r : Nat} (h : ∀ e' ∈ p, actor e' = n → estamp e' < r * 16 + 6) :
    anyPrecommitAt p n r = false := by
  unfold anyPrecommitAt
  rw [Bool.eq_false_iff]
  intro hany
  obtain ⟨e', he', hm⟩ := List.any_eq_true.1 hany
  cases e' with
  | precommit m r' w =>
    simp at hm
    have := h _ he' (by simp [actor, hm.1]); simp [estamp, hm.2] at this
  | prevote _ _ _ => simp at hm
  | decide _ _ _ => simp at hm

/-- **every event a correct node model emits is allowed by L-A's discipline** (`Model.Protocol.eventOk`), judged on the merged history
so far plus the events the same step emitted before it -/
theorem event_ok (powers : List Nat) (byz : Nat → Bool) {H n : Nat} {hist : List Event} {s : St} {log : List Out}
    (cx : NodeCtx H n hist s log) (hpw : s.powers = powers) (i : In) (ht : WellTimed s i)
    (hseen : s.height = H → Seen Event.prevote hist (stepCore s i).pvs ∧ Seen Event.precommit hist (stepCore s i).pcs)
    {pre post : List Out} {o : Out} {e : Event} (hout : (stepCore s i).out = pre ++ o :: post) (hev : evOf H n o = some e) :
    eventOk (cfgOf powers byz) (hist ++ evsOf H n pre) e = true := by
  have hsp := Spec_unfold cx.good.1 (stepCore_Spec s i ht)
  obtain ⟨_, _, hpw', htb, _, _, _, hch, hv, hc, _, hd3, _⟩ := hsp
  have hmem : o ∈ (stepCore s i).out := by rw [hout]; simp
  have hok : ∀ q, VOK powers ((stepCore s i).pvs q) ∧ VOK powers ((stepCore s i).pcs q) := by
    intro q; have := htb cx.good.2 q; rw [hpw', hpw] at this; exact this
  rcases evOf_src hev with ⟨r, v, e1, e2⟩ | ⟨r, v, e1, e2⟩ | ⟨r, v, e1, e2⟩
  · -- prevote
    subst e1; subst e2
    obtain ⟨hh, hst, _, _⟩ := hv _ _ _ _ hmem
    have hH : s.height = H := hh.symm
    obtain ⟨hs1, _⟩ := hseen hH
    have hst' : mu s < r * 16 + 4 := by simpa using hst
    have hlt := own_lt cx i ht hH hout (stamp_prevote _ _ _) hst'
    simp only [eventOk, Bool.or_eq_true, Bool.and_eq_true, Bool.not_eq_true']
    right
    refine ⟨⟨noLaterRound_of_lt (by omega) hlt, no_prevoteAt_of_lt hlt⟩, ?_⟩
    -- d3
    unfold lockRespected
    rw [List.all_eq_true]
    intro e' he'
    cases e' with
    | prevote _ _ _ => rfl
    | decide _ _ _ => rfl
    | precommit m r0 w =>
      cases w with
      | none => rfl
      | some b =>
        simp only
        split
        · rename_i hcond
          simp only [Bool.and_eq_true, beq_iff_eq, decide_eq_true_eq, bne_iff_ne, ne_eq] at hcond
          obtain ⟨⟨hm, hr0⟩, hne⟩ := hcond
          subst hm
          -- the precommit is the node's own: in its log, or earlier in this step
          have key : v = b ∨ Released (stepCore s i).pvs b r0 r := by
            rcases List.mem_append.1 he' with he' | he'
            · obtain ⟨o', ho', hev'⟩ := mem_evsOf (cx.own _ he' rfl)
              rcases evOf_src hev' with ⟨_, _, _, e4⟩ | ⟨r1, x, e3, e4⟩ | ⟨_, _, _, e4⟩
              · cases e4
              · obtain ⟨_, hr1, hx⟩ := Event.precommit.inj e4
                obtain ⟨hxb, hb0⟩ := optV_some hx.symm
                subst e3; subst hxb; subst hr1
                exact prevote_respects_held s i cx.good.1 ht log cx.held H r0 x r v ho' hb0 hmem
              · cases e4
            · obtain ⟨o', ho', hev'⟩ := mem_evsOf he'
              rcases evOf_src hev' with ⟨_, _, _, e4⟩ | ⟨r1, x, e3, e4⟩ | ⟨_, _, _, e4⟩
              · cases e4
              · obtain ⟨_, hr1, hx⟩ := Event.precommit.inj e4
                obtain ⟨hxb, hb0⟩ := optV_some hx.symm
                subst e3; subst hxb; subst hr1
                rw [hout] at hd3
                exact D3C_split hd3 H r0 x ho' hb0 H r v rfl
              · cases e4
          rcases key with e | hrel
          · exfalso; apply hne; subst e
            have : v ≠ 0 := by
              intro h0; subst h0
              -- a precommit event for `some 0` does not exist: `optV` never yields `some 0`
              rcases List.mem_append.1 he' with he' | he'
              · obtain ⟨o', _, hev'⟩ := mem_evsOf (cx.own _ he' rfl)
                rcases evOf_src hev' with ⟨_, _, _, e4⟩ | ⟨_, x, _, e4⟩ | ⟨_, _, _, e4⟩
                · cases e4
                · exact (optV_some (Event.precommit.inj e4).2.2.symm).2 rfl
                · cases e4
              · obtain ⟨o', _, hev'⟩ := mem_evsOf he'
                rcases evOf_src hev' with ⟨_, _, _, e4⟩ | ⟨_, x, _, e4⟩ | ⟨_, _, _, e4⟩
                · cases e4
                · exact (optV_some (Event.precommit.inj e4).2.2.symm).2 rfl
                · cases e4
            simp [optV, this]
          · exact released_gives_unlockingPolka powers byz _ _ b r0 r (fun q => (hok q).1) (Seen_append hs1 _) hrel
        · rfl
  · -- precommit
    subst e1; subst e2
    obtain ⟨hh, hst, hd2, _⟩ := hv _ _ _ _ hmem
    have hH : s.height = H := hh.symm
    obtain ⟨hs1, _⟩ := hseen hH
    have hst' : mu s < r * 16 + 6 := by simpa [tPrecommit, tPrevote] using hst
    have hlt := own_lt cx i ht hH hout (stamp_precommit _ _ _) hst'
    simp only [eventOk, Bool.or_eq_true, Bool.and_eq_true, Bool.not_eq_true']
    right
    refine ⟨⟨noLaterRound_of_lt (Nat.le_refl _) hlt, no_precommitAt_of_lt hlt⟩, ?_⟩
    by_cases hv0 : v = 0
    · simp [optV, hv0]
    · have hmaj := hd2 rfl hv0
      have := (maj23_gives_polka powers byz (hist ++ evsOf H n pre) _ r v (hok r).1 hmaj (Seen_append hs1 _)).1
      simpa [optV, hv0] using this
  · -- decide
    subst e1; subst e2
    obtain ⟨hh, hv0, hmaj⟩ := hc _ _ _ hmem
    have hH : s.height = H := hh.symm
    obtain ⟨_, hs2⟩ := hseen hH
    simp only [eventOk, Bool.or_eq_true]
    right
    exact maj23_gives_commitQuorum powers byz _ _ r v hv0 (hok r).2 hmaj (Seen_append hs2 _)

/-! ## the system: correct node models + an adversary -/

/-- the ticker: a delivered timeout is one the node scheduled earlier (it is among its outputs), or the round-0 timeout that starts a
node (`OnStart` schedules it before the model's first step) -/
def Sched (log : List Out) (i : In) : Prop :=
  ∀ h r st, i = .timeout h r st → Out.timeout h r st ∈ log ∨ r = 0

/-- `WellTimed` is not assumed: it follows from the ticker model and the invariant on scheduled timeouts -/
theorem wellTimed_of_sched {s : St} {log : List Out} {i : In} (hl : TimeoutsOK s log) (hs : Sched log i) : WellTimed s i := by
  intro h r st e hh
  rcases hs h r st e with hm | h0
  · rcases hl h r st hm with h1 | ⟨_, h2⟩
    · omega
    · exact h2
  · omega

/-- unforgeability: an acceptable vote input for height `H` is an event of the history -/
def Recv (H : Nat) (hist : List Event) (i : In) : Prop :=
  ∀ t r j v tot src, i = .vote t H r j v tot src true →
    (t = tPrevote → Event.prevote j r (optV v) ∈ hist) ∧ (t = tPrecommit → Event.precommit j r (optV v) ∈ hist)

/-- the votes in the tables of a node at height `H` are events of the history -/
def SeenAt (H : Nat) (hist : List Event) (s : St) : Prop :=
  s.height = H → Seen Event.prevote hist s.pvs ∧ Seen Event.precommit hist s.pcs

theorem SeenAt_append {H : Nat} {hist : List Event} {s : St} (h : SeenAt H hist s) (x : List Event) : SeenAt H (hist ++ x) s :=
  fun hh => ⟨Seen_append (h hh).1 x, Seen_append (h hh).2 x⟩

theorem Seen_fresh (mk : Nat → Nat → Option Nat → Event) (p : List Event) (tbl : Nat → VSet)
    (h : ∀ r, (tbl r).byBlock = []) : Seen mk p tbl := by
  intro r v bv i hb _; rw [h r] at hb; simp [alookup] at hb

theorem fresh_tables (x : St) (hx : x.rvs = [(0, RV.empty)]) : (∀ r, (x.pvs r).byBlock = []) ∧ (∀ r, (x.pcs r).byBlock = []) := by
  have : ∀ q, x.rv q = RV.empty := by
    intro q; simp only [St.rv, hx, alookup]; split <;> rfl
  exact ⟨fun r => by simp [St.pvs, this, RV.empty, VSet.empty], fun r => by simp [St.pcs, this, RV.empty, VSet.empty]⟩

/-- `Seen` after recording the input: from the invariant, the frame theorem `Grow` and unforgeability -/
theorem seen_stepCore {H : Nat} {hist : List Event} {s : St} (i : In) (hw : W s) (ht : WellTimed s i)
    (hs : SeenAt H hist s) (hrecv : Recv H hist i) : SeenAt H hist (stepCore s i) := by
  obtain ⟨_, hh, _, _, _, _, _, _, _, _, _, _, hgrow, _⟩ := Spec_unfold hw (stepCore_Spec s i ht)
  intro hH
  have hsH : s.height = H := by rw [← hh]; exact hH
  obtain ⟨h1, h2⟩ := hs hsH
  constructor
  · intro r v bv j hb hj
    rcases hgrow tPrevote r v bv j (Or.inl rfl) (by simpa [vsOf] using hb) hj with ⟨b0, h0, hm⟩ | ⟨tot, src, e⟩
    · exact h1 r v b0 j (by simpa [vsOf] using h0) hm
    · rw [hsH] at e; exact (hrecv _ _ _ _ _ _ e).1 rfl
  · intro r v bv j hb hj
    rcases hgrow tPrecommit r v bv j (Or.inr rfl) (by simpa [vsOf, tPrecommit, tPrevote] using hb) hj with ⟨b0, h0, hm⟩ | ⟨tot, src, e⟩
    · exact h2 r v b0 j (by simpa [vsOf, tPrecommit, tPrevote] using h0) hm
    · rw [hsH] at e; exact (hrecv _ _ _ _ _ _ e).2 rfl

theorem step_cases2 (s : St) (i : In) :
    step s i = stepCore s i ∨ step s i = die (stepCore s i) ∨ (step s i).rvs = [(0, RV.empty)] := by
  unfold step
  simp only
  split
  · unfold newHeight
    split
    · exact Or.inr (Or.inl rfl)
    · right; right; simp [emit]
  · exact Or.inl rfl

theorem seen_step {H : Nat} {hist : List Event} {s : St} (i : In) (hw : W s) (ht : WellTimed s i)
    (hs : SeenAt H hist s) (hrecv : Recv H hist i) : SeenAt H hist (step s i) := by
  have hc := seen_stepCore i hw ht hs hrecv
  rcases step_cases2 s i with e | e | e
  · rw [e]; exact hc
  · rw [e]; intro hh
    have := hc (by simpa [die] using hh)
    have hp : (die (stepCore s i)).pvs = (stepCore s i).pvs := by funext q; rfl
    have hq : (die (stepCore s i)).pcs = (stepCore s i).pcs := by funext q; rfl
    rw [hp, hq]; exact this
  · intro _
    obtain ⟨f1, f2⟩ := fresh_tables _ e
    exact ⟨Seen_fresh _ _ _ f1, Seen_fresh _ _ _ f2⟩

structure Sys where
  /-- the node model of validator `n` (only those of correct validators matter) -/
  st : Nat → St
  /-- everything validator `n`'s node has output so far -/
  log : Nat → List Out
  /-- the merged L-A history of height `H`: correct nodes' votes/commits in the order they were emitted, Byzantine events anywhere -/
  hist : List Event

def upd {α : Type} (f : Nat → α) (n : Nat) (a : α) : Nat → α := fun m => if m = n then a else f m

/-- one step of the system (validator powers `powers`, Byzantine set `byz`, observed height `H`) -/
inductive SysStep (powers : List Nat) (byz : Nat → Bool) (H : Nat) : Sys → Sys → Prop
  /-- the adversary adds any event of a Byzantine validator -/
  | adversary (σ : Sys) (e : Event) (hb : byz (actor e) = true) : SysStep powers byz H σ { σ with hist := σ.hist ++ [e] }
  /-- a correct validator's node handles one input.  Environment hypotheses: a timeout is one the node scheduled (`Sched`), and an
  acceptable vote for height `H` is an event of the history (`Recv`) -/
  | deliver (σ : Sys) (n : Nat) (i : In) (hn : byz n = false) (hsch : Sched (σ.log n) i) (hrecv : Recv H σ.hist i) :
      SysStep powers byz H σ { st := upd σ.st n (step (σ.st n) i), log := upd σ.log n (σ.log n ++ (step (σ.st n) i).out),
                               hist := σ.hist ++ evsOf H n (stepCore (σ.st n) i).out }

/-- the invariant: the merged history is disciplined, and for every correct validator the bookkeeping of `NodeCtx` holds -/
def SysInv (powers : List Nat) (byz : Nat → Bool) (H : Nat) (σ : Sys) : Prop :=
  disciplined (cfgOf powers byz) σ.hist = true ∧
  ∀ n, byz n = false → NodeCtx H n σ.hist (σ.st n) (σ.log n) ∧ (σ.st n).powers = powers ∧ (∀ e ∈ evsOf H n (σ.log n), e ∈ σ.hist) ∧
    SeenAt H σ.hist (σ.st n)

theorem eventOk_byz (c : Cfg) (p : List Event) (e : Event) (hb : c.byz (actor e) = true) : eventOk c p e = true := by
  cases e <;> simp [eventOk, actor] at hb ⊢ <;> simp [hb]

theorem evsOf_append (H n : Nat) (a b : List Out) : evsOf H n (a ++ b) = evsOf H n a ++ evsOf H n b := by
  simp [evsOf, List.filterMap_append]

theorem evsOf_step (H n : Nat) (s : St) (i : In) : evsOf H n (step s i).out = evsOf H n (stepCore s i).out := by
  rcases step_out s i with e | e
  · rw [e]
  · rw [e, evsOf_append]; simp [evsOf, evOf]

theorem step_powers (s : St) (i : In) : (step s i).powers = (stepCore s i).powers := by
  unfold step
  simp only
  split
  · unfold newHeight; split <;> simp [die, emit]
  · rfl

theorem sys_step_inv {powers : List Nat} {byz : Nat → Bool} {H : Nat} {σ σ' : Sys}
    (hinv : SysInv powers byz H σ) (hstep : SysStep powers byz H σ σ') : SysInv powers byz H σ' := by
  obtain ⟨hd, hnodes⟩ := hinv
  cases hstep with
  | adversary e hb =>
    refine ⟨?_, ?_⟩
    · apply disciplined_extend _ _ _ hd
      intro pre e' post hs
      cases pre with
      | nil =>
        simp only [List.nil_append, List.cons.injEq] at hs
        rw [← hs.1]; simpa using eventOk_byz (cfgOf powers byz) σ.hist e hb
      | cons a pre' =>
        simp only [List.cons_append, List.cons.injEq] at hs
        cases pre' <;> simp at hs
    · intro n hn
      obtain ⟨cx, hp, hin, hse⟩ := hnodes n hn
      refine ⟨⟨cx.good, cx.below, cx.once, cx.held, cx.tmo, ?_⟩, hp, fun e' he' => List.mem_append_left _ (hin e' he'), SeenAt_append hse _⟩
      intro e' he' ha
      rcases List.mem_append.1 he' with he' | he'
      · exact cx.own e' he' ha
      · simp at he'; subst he'; rw [ha, hn] at hb; cases hb
  | deliver n i hn hsch hrecv =>
    obtain ⟨cx, hp, hin, hse⟩ := hnodes n hn
    have ht : WellTimed (σ.st n) i := wellTimed_of_sched cx.tmo hsch
    have hseen : (σ.st n).height = H → Seen Event.prevote σ.hist (stepCore (σ.st n) i).pvs ∧
        Seen Event.precommit σ.hist (stepCore (σ.st n) i).pcs := by
      intro hH
      have := seen_stepCore i cx.good.1 ht hse hrecv
      exact this (by rw [(Spec_unfold cx.good.1 (stepCore_Spec (σ.st n) i ht)).2.1]; exact hH)
    refine ⟨?_, ?_⟩
    · apply disciplined_extend _ _ _ hd
      intro preE e postE hs
      obtain ⟨pre, o, post, e1, e2, e3, _⟩ := filterMap_split (evOf H n) _ preE e postE hs
      rw [← e3]
      exact event_ok powers byz cx hp i ht hseen e1 e2
    · intro m hm
      by_cases hmn : m = n
      · subst hmn
        have hst : upd σ.st m (step (σ.st m) i) m = step (σ.st m) i := by simp [upd]
        have hlg : upd σ.log m (σ.log m ++ (step (σ.st m) i).out) m = σ.log m ++ (step (σ.st m) i).out := by simp [upd]
        simp only [hst, hlg]
        obtain ⟨ho1, ho2⟩ := once_step (σ.st m) i (σ.log m) cx.good.1 ht cx.below cx.once
        have hhe := held_step (σ.st m) i (σ.log m) cx.good.1 ht cx.below cx.held
        have hpw : (step (σ.st m) i).powers = powers := by
          rw [step_powers, (Spec_unfold cx.good.1 (stepCore_Spec (σ.st m) i ht)).2.2.1, hp]
        refine ⟨⟨step_Good _ i cx.good ht, ho2, ho1, hhe, timeouts_step _ i _ cx.good.1 ht cx.tmo, ?_⟩, hpw, ?_,
          SeenAt_append (seen_step i cx.good.1 ht hse hrecv) _⟩
        · intro e' he' ha
          rw [evsOf_append, evsOf_step]
          rcases List.mem_append.1 he' with he' | he'
          · exact List.mem_append_left _ (cx.own e' he' ha)
          · exact List.mem_append_right _ he'
        · intro e' he'
          rw [evsOf_append, evsOf_step] at he'
          rcases List.mem_append.1 he' with he' | he'
          · exact List.mem_append_left _ (hin e' he')
          · exact List.mem_append_right _ he'
      · obtain ⟨cxm, hpm, hinm, hsem⟩ := hnodes m hm
        have hst : upd σ.st n (step (σ.st n) i) m = σ.st m := by simp [upd, hmn]
        have hlg : upd σ.log n (σ.log n ++ (step (σ.st n) i).out) m = σ.log m := by simp [upd, hmn]
        simp only [hst, hlg]
        refine ⟨⟨cxm.good, cxm.below, cxm.once, cxm.held, cxm.tmo, ?_⟩, hpm, fun e' he' => List.mem_append_left _ (hinm e' he'), SeenAt_append hsem _⟩
        intro e' he' ha
        rcases List.mem_append.1 he' with he' | he'
        · exact cxm.own e' he' ha
        · obtain ⟨o', _, hev'⟩ := mem_evsOf he'
          have := evOf_actor hev'
          exact absurd (ha.symm.trans this) hmn

/-- reachability -/
inductive Reach (powers : List Nat) (byz : Nat → Bool) (H : Nat) : Sys → Sys → Prop
  | refl (σ : Sys) : Reach powers byz H σ σ
  | step {σ σ' σ'' : Sys} : Reach powers byz H σ σ' → SysStep powers byz H σ' σ'' → Reach powers byz H σ σ''

/-- initial systems: empty history; every correct node is in a well-formed state with EMPTY vote tables (as `initSt`), has the
system's power table, and has not output anything -/
def SysInit (powers : List Nat) (byz : Nat → Bool) (σ : Sys) : Prop :=
  σ.hist = [] ∧ ∀ n, byz n = false → Good (σ.st n) ∧ (σ.st n).powers = powers ∧ σ.log n = [] ∧ (σ.st n).rvs = [(0, RV.empty)]

theorem init_inv {powers : List Nat} {byz : Nat → Bool} (H : Nat) {σ : Sys} (h : SysInit powers byz σ) : SysInv powers byz H σ := by
  obtain ⟨hh, hn⟩ := h
  refine ⟨by rw [hh]; rfl, ?_⟩
  intro n hb
  obtain ⟨hg, hp, hl, hr⟩ := hn n hb
  obtain ⟨f1, f2⟩ := fresh_tables _ hr
  refine ⟨⟨hg, ?_, ?_, ?_, ?_, ?_⟩, hp, ?_, fun _ => ⟨Seen_fresh _ _ _ f1, Seen_fresh _ _ _ f2⟩⟩
  · rw [hl]; intro _ _ _ _ hm; cases hm
  · rw [hl]; intro _ _ _ _ _ hm; cases hm
  · rw [hl]; intro _ _ _ hm; cases hm
  · rw [hl]; intro _ _ _ hm; cases hm
  · rw [hh]; intro _ hm; cases hm
  · rw [hl]; intro _ hm; simp [evsOf] at hm

theorem reach_inv {powers : List Nat} {byz : Nat → Bool} {H : Nat} {σ σ' : Sys} (hr : Reach powers byz H σ σ')
    (hi : SysInv powers byz H σ) : SysInv powers byz H σ' := by
  induction hr with
  | refl => exact hi
  | step _ hs ih => exact sys_step_inv ih hs

/-- **node_models_disciplined**: the merged history of any reachable system state satisfies L-A's voting discipline -/
theorem node_models_disciplined {powers : List Nat} {byz : Nat → Bool} {H : Nat} {σ0 σ : Sys} (h0 : SysInit powers byz σ0)
    (hr : Reach powers byz H σ0 σ) : disciplined (cfgOf powers byz) σ.hist = true :=
  (reach_inv hr (init_inv H h0)).1

/-- **node_models_agree**: with Byzantine power below one third, two correct node models that commit at height `H` commit the same block -/
theorem node_models_agree {powers : List Nat} {byz : Nat → Bool} {H : Nat} {σ0 σ : Sys} (h0 : SysInit powers byz σ0)
    (hr : Reach powers byz H σ0 σ) (hb : byzBound (cfgOf powers byz)) (n n' r r' b b' : Nat)
    (hn : byz n = false) (hn' : byz n' = false)
    (h1 : Out.commit H r b ∈ σ.log n) (h2 : Out.commit H r' b' ∈ σ.log n') : b = b' := by
  obtain ⟨hd, hnodes⟩ := reach_inv hr (init_inv H h0)
  have m1 : Event.decide n r b ∈ σ.hist := (hnodes n hn).2.2.1 _ (List.mem_filterMap.2 ⟨_, h1, by simp [evOf]⟩)
  have m2 : Event.decide n' r' b' ∈ σ.hist := (hnodes n' hn').2.2.1 _ (List.mem_filterMap.2 ⟨_, h2, by simp [evOf]⟩)
  exact Props.C01.agreement (cfgOf powers byz) σ.hist hd hb n n' r r' b b' hn hn' m1 m2

/-! ## non-vacuity of the global theorem: a concrete system run in which two correct node models commit -/

def recvB (H : Nat) (hist : List Event) : In → Bool
  | .vote t h r j v _ _ ok =>
    if h = H ∧ ok = true then
      (if t = tPrevote then hist.contains (Event.prevote j r (optV v)) else true) &&
      (if t = tPrecommit then hist.contains (Event.precommit j r (optV v)) else true)
    else true
  | _ => true

theorem recv_of_B {H : Nat} {hist : List Event} {i : In} (h : recvB H hist i = true) : Recv H hist i := by
  intro t r j v tot src e
  subst e
  simp only [recvB, and_self, if_true, Bool.and_eq_true] at h
  constructor
  · intro ht; subst ht; simpa using h.1
  · intro ht; subst ht; simpa [tPrecommit, tPrevote] using h.2

def schedB (log : List Out) : In → Bool
  | .timeout h r st => log.contains (Out.timeout h r st) || r == 0
  | _ => true

theorem sched_of_B {log : List Out} {i : In} (h : schedB log i = true) : Sched log i := by
  intro h' r st e
  subst e
  simp only [schedB, Bool.or_eq_true, beq_iff_eq] at h
  rcases h with h | h
  · exact Or.inl (List.contains_iff_mem.1 h)
  · exact Or.inr h

/-- the system after a list of deliveries `(validator, input)` -/
def runSys (H : Nat) : Sys → List (Nat × In) → Sys
  | σ, [] => σ
  | σ, (n, i) :: rest =>
    runSys H { st := upd σ.st n (step (σ.st n) i), log := upd σ.log n (σ.log n ++ (step (σ.st n) i).out),
               hist := σ.hist ++ evsOf H n (stepCore (σ.st n) i).out } rest

/-- the premises of every delivery, as a computation -/
def okSys (byz : Nat → Bool) (H : Nat) : Sys → List (Nat × In) → Bool
  | _, [] => true
  | σ, (n, i) :: rest =>
    !byz n && schedB (σ.log n) i && recvB H σ.hist i &&
    okSys byz H { st := upd σ.st n (step (σ.st n) i), log := upd σ.log n (σ.log n ++ (step (σ.st n) i).out),
                  hist := σ.hist ++ evsOf H n (stepCore (σ.st n) i).out } rest

theorem reach_runSys (powers : List Nat) (byz : Nat → Bool) (H : Nat) : ∀ (l : List (Nat × In)) (σ0 σ : Sys),
    Reach powers byz H σ0 σ → okSys byz H σ l = true → Reach powers byz H σ0 (runSys H σ l)
  | [], _, _, hr, _ => hr
  | (n, i) :: rest, σ0, σ, hr, hok => by
    simp only [okSys, Bool.and_eq_true, Bool.not_eq_true'] at hok
    obtain ⟨⟨⟨h1, h2⟩, h3⟩, h4⟩ := hok
    exact reach_runSys powers byz H rest σ0 _
      (Reach.step hr (SysStep.deliver σ n i h1 (sched_of_B h2) (recv_of_B h3))) h4

/-- validators 0, 1, 2 correct, 3 Byzantine (and silent); every correct node starts height 1 as `initSt` -/
def exByz : Nat → Bool := fun n => n == 3
def exSys0 : Sys := { st := fun n => initSt n [1, 1, 1, 1] 673 1 exVals, log := fun _ => [], hist := [] }

/-- every correct node: round-0 timeout, proposal of validator 1 and its block (→ own prevote); then the three prevotes reach everybody
(→ own precommits); then the three precommits (→ commits) -/
def exSched : List (Nat × In) :=
  [0, 1, 2].flatMap (fun n => [(n, .timeout 1 0 sNewHeight), (n, .proposal 1 0 (-1) 7 1 1 32), (n, .part 1 0 7 0 true true true)]) ++
  [0, 1, 2].flatMap (fun n => [0, 1, 2].map (fun j => (n, In.vote tPrevote 1 0 j 7 1 j true))) ++
  [0, 1, 2].flatMap (fun n => [0, 1, 2].map (fun j => (n, In.vote tPrecommit 1 0 j 7 1 j true)))

theorem exSys_init : SysInit [1, 1, 1, 1] exByz exSys0 :=
  ⟨rfl, fun _ _ => ⟨initSt_Good _ _ _ _ _, rfl, rfl, rfl⟩⟩

theorem exSys_ok : okSys exByz 1 exSys0 exSched = true := by decide

theorem exSys_reach : Reach [1, 1, 1, 1] exByz 1 exSys0 (runSys 1 exSys0 exSched) :=
  reach_runSys _ _ _ _ _ _ (Reach.refl _) exSys_ok

theorem exSys_commits : Out.commit 1 0 7 ∈ (runSys 1 exSys0 exSched).log 0 ∧ Out.commit 1 0 7 ∈ (runSys 1 exSys0 exSched).log 1 ∧
    (runSys 1 exSys0 exSched).hist.length = 9 := by decide

/-- non-vacuity of `node_models_agree`: its hypotheses hold of a system run in which two correct node models do commit -/
example : ∃ σ0 σ, SysInit [1, 1, 1, 1] exByz σ0 ∧ Reach [1, 1, 1, 1] exByz 1 σ0 σ ∧ byzBound (cfgOf [1, 1, 1, 1] exByz) ∧
    Out.commit 1 0 7 ∈ σ.log 0 ∧ Out.commit 1 0 7 ∈ σ.log 1 :=
  ⟨exSys0, _, exSys_init, exSys_reach, by decide, exSys_commits.1, exSys_commits.2.1⟩

/-! ## all heights at once -/

/-- the system with one merged history PER HEIGHT (`hist H`); states and logs are those of `Sys` -/
structure MSys where
  st : Nat → St
  log : Nat → List Out
  hist : Nat → List Event

/-- what the system looks like to an observer of height `H` -/
def MSys.at (σ : MSys) (H : Nat) : Sys := { st := σ.st, log := σ.log, hist := σ.hist H }

/-- one step of the system, observed at every height simultaneously: the adversary adds an event of a Byzantine validator to the
history of any height; a correct node handles one input (`Sched` as before; `Recv` for whichever height the input is a vote of) and
its votes and commits go to the histories of their heights -/
inductive MStep (powers : List Nat) (byz : Nat → Bool) : MSys → MSys → Prop
  | adversary (σ : MSys) (H : Nat) (e : Event) (hb : byz (actor e) = true) :
      MStep powers byz σ { σ with hist := upd σ.hist H (σ.hist H ++ [e]) }
  | deliver (σ : MSys) (n : Nat) (i : In) (hn : byz n = false) (hsch : Sched (σ.log n) i) (hrecv : ∀ H, Recv H (σ.hist H) i) :
      MStep powers byz σ { st := upd σ.st n (step (σ.st n) i), log := upd σ.log n (σ.log n ++ (step (σ.st n) i).out),
                           hist := fun H => σ.hist H ++ evsOf H n (stepCore (σ.st n) i).out }

inductive MReach (powers : List Nat) (byz : Nat → Bool) : MSys → MSys → Prop
  | refl (σ : MSys) : MReach powers byz σ σ
  | step {σ σ' σ'' : MSys} : MReach powers byz σ σ' → MStep powers byz σ' σ'' → MReach powers byz σ σ''

/-- a step of the all-heights system is, for an observer of height `H`, a step of the height-`H` system or no step at all -/
theorem mstep_at {powers : List Nat} {byz : Nat → Bool} {σ σ' : MSys} (hs : MStep powers byz σ σ') (H : Nat) :
    σ'.at H = σ.at H ∨ SysStep powers byz H (σ.at H) (σ'.at H) := by
  cases hs with
  | adversary H' e hb =>
    by_cases hh : H = H'
    · subst hh
      right
      have : MSys.at { σ with hist := upd σ.hist H (σ.hist H ++ [e]) } H = { (σ.at H) with hist := (σ.at H).hist ++ [e] } := by
        simp [MSys.at, upd]
      rw [this]
      exact SysStep.adversary _ e hb
    · left; simp [MSys.at, upd, hh]
  | deliver n i hn hsch hrecv =>
    exact Or.inr (SysStep.deliver (σ.at H) n i hn hsch (hrecv H))

/-- a run of the all-heights system is, for every height `H`, a run of the height-`H` system -/
theorem mreach_at {powers : List Nat} {byz : Nat → Bool} {σ σ' : MSys} (hr : MReach powers byz σ σ') (H : Nat) :
    Reach powers byz H (σ.at H) (σ'.at H) := by
  induction hr with
  | refl => exact Reach.refl _
  | step _ hs ih =>
    rcases mstep_at hs H with e | hstep
    · rw [e]; exact ih
    · exact Reach.step ih hstep

/-- initial all-heights systems: every history empty, correct nodes as in `SysInit` -/
def MInit (powers : List Nat) (byz : Nat → Bool) (σ : MSys) : Prop :=
  (∀ H, σ.hist H = []) ∧ ∀ n, byz n = false → Good (σ.st n) ∧ (σ.st n).powers = powers ∧ σ.log n = [] ∧ (σ.st n).rvs = [(0, RV.empty)]

/-- **node_models_agree_all_heights**: in every reachable system state, for EVERY height, any two correct node models that committed at
that height committed the same value (Byzantine power below one third) -/
theorem node_models_agree_all_heights {powers : List Nat} {byz : Nat → Bool} {σ0 σ : MSys} (h0 : MInit powers byz σ0)
    (hr : MReach powers byz σ0 σ) (hb : byzBound (cfgOf powers byz)) :
    ∀ (H n n' r r' b b' : Nat), byz n = false → byz n' = false →
      Out.commit H r b ∈ σ.log n → Out.commit H r' b' ∈ σ.log n' → b = b' := by
  intro H n n' r r' b b' hn hn' h1 h2
  exact node_models_agree (σ0 := σ0.at H) (σ := σ.at H) ⟨h0.1 H, h0.2⟩ (mreach_at hr H) hb n n' r r' b b' hn hn' h1 h2

/-- and every height's merged history is disciplined -/
theorem node_models_disciplined_all_heights {powers : List Nat} {byz : Nat → Bool} {σ0 σ : MSys} (h0 : MInit powers byz σ0)
    (hr : MReach powers byz σ0 σ) (H : Nat) : disciplined (cfgOf powers byz) (σ.hist H) = true :=
  node_models_disciplined (σ0 := σ0.at H) (σ := σ.at H) ⟨h0.1 H, h0.2⟩ (mreach_at hr H)

end Props.C01Node
