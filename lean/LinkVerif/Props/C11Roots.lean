/-
C11: which registered roots consist only of constructors of the proved fragment (`FragN`, Props/C11Round2.lean).
`covered` is a syntactic check of a descriptor against the constructors of `FragN`; the descriptors are the pinned ones of
Model/SerRoots.lean (tied to the real Go types by the `pin` op of every run).
-/
import LinkVerif.Model.SerRoots
import LinkVerif.Props.C11Round2

namespace Props.C11
open Model.Ser Model.SerRoots

/-- the target of a pointer must encode as a non-empty list or as a string with header (FragN.ptrList / ptrStr), and
    its nil encoding must be the empty item (ptrNilList / ptrNilStr): structs with at least one field, byte arrays ≥ 2 -/
def ptrTarget (env : Env) : Nat → Ty → Bool
  | 0, _ => false
  | f + 1, t => match t with
    | .struct (_ :: _) => true
    | .bytearr n => decide (2 ≤ n)
    | .ref id => match env.def? id with
      | some t' => ptrTarget env f t'
      | none => false
    | _ => false

def covered (env : Env) : Nat → Ty → Bool
  | 0, _ => false
  | f + 1, t => match t with
    | .uint _ | .int _ | .bool | .bigptr | .bigval | .bytes | .string | .time => true
    | .bytearr n => decide (n ≠ 1)
    | .struct fs => fs.all (covered env f)
    | .slice e => covered env f e
    | .ref id => match env.def? id with
      | some t' => covered env f t'
      | none => false
    | .cval _ e => covered env f e
    | .cptr _ e => covered env f e
    | .ptr e => covered env f e && ptrTarget env 8 e
    | _ => false

/-- every pinned root is in the fragment -/
theorem roots_in_fragment : roots.all (fun r => covered r.env 12 r.ty) = true := by decide

theorem root_in_fragment_Header : covered { defs := [(4, blockID), (5, partSetHeader), (21, header)] } 12 (.ref 21) = true := by decide
theorem root_in_fragment_Part : covered { defs := [(29, part), (30, simpleProof)] } 12 (.ref 29) = true := by decide
theorem root_in_fragment_Transaction : covered { defs := [(61, .ref 62), (62, txdata)] } 12 (.cval false (.ref 61)) = true := by decide

/-- not covered, for the record: Vote (its Signature is an interface value) -/
example : covered {} 12 (.struct [.bytes, .uint 64, .iface [1, 2]]) = false := by decide

/-- the rendering the driver answers to `pin root=Header` -/
example : pinOf "PartSetHeader" = "d=@5;5=Q(i64,Y)" := by decide

end Props.C11
