/-
C09, part 1: the abstraction `abs` under which a journal undo is an exact inverse, and the commutation of every undo entry
with it (`abs_undo`): the effect of `journalEntry.revert` on the abstraction depends only on the abstraction.

`abs` forgets exactly what a revert does not restore and no getter can see: zero-valued token entries, which storage
values sit in `dirtyStorage` rather than behind it, the dirty flags, revision ids.  It keeps the SHAPE of the token store
(private map / shared heap cell `r`) and the whole heap, so aliasing between objects is not assumed away.
-/
import LinkVerif.Model.StateDB

namespace Props.C09
open Model.StateDB

inductive TokV where
  | inl (f : Tok → Int)
  | shared (r : Ref)

structure OV where
  nonce : Nat
  credits : Nat
  balance : Int
  toks : TokV
  code : Bytes
  stor : Key → Bytes
  suicided : Bool

structure Abs where
  heap : Ref → Tok → Int
  acct : Addr → Option OV
  trieV : Addr → Option OV
  refund : Nat
  logs : Nat → List Log
  logSize : Nat
  pre : Nat → Option Bytes

def viewToks : TokStore → TokV
  | .inl m => .inl (fun t => (m t).getD 0)
  | .shared r => .shared r

def viewObj (o : Obj) : OV :=
  { nonce := o.nonce, credits := o.credits, balance := o.balance, toks := viewToks o.toks, code := o.code, stor := getState o,
    suicided := o.suicided }

def abs (c : Ctx) : Abs :=
  { heap := fun r t => (c.heap r t).getD 0
    acct := fun a => (peek c.st a).map viewObj
    trieV := fun a => (c.st.trie a).map (fun x => viewObj (loadObj x))
    refund := c.st.refund, logs := c.st.logs, logSize := c.st.logSize, pre := c.st.preimages }

/-- the property's observables are a function of the abstraction -/
def obsOV (heap : Ref → Tok → Int) (v : OV) : AccObs :=
  { nonce := v.nonce, credits := v.credits, balance := v.balance
    tok := match v.toks with
      | .inl f => f
      | .shared r => heap r
    code := v.code, stor := v.stor, suicided := v.suicided
    empty := v.nonce == 0 && v.balance == 0 && v.code.isEmpty }

def obsA (x : Abs) : Obs :=
  { acct := fun a => (x.acct a).map (obsOV x.heap), refund := x.refund, logs := x.logs, logSize := x.logSize, preimages := x.pre }

theorem obs_eq_obsA (c : Ctx) : obs c = obsA (abs c) := by
  simp only [obs, obsA, abs]
  congr 1
  funext a
  cases h : peek c.st a with
  | none => simp
  | some o =>
    simp only [Option.map_some, obsObj, obsOV, viewObj, Obj.isEmpty, tokMapOf]
    cases o.toks <;> simp [viewToks]

theorem obs_of_abs {c c' : Ctx} (h : abs c = abs c') : obs c = obs c' := by
  rw [obs_eq_obsA, obs_eq_obsA, h]

/-! ### abstract undo -/

def modA (x : Abs) (a : Addr) (f : OV → OV) : Abs :=
  match x.acct a with
  | none => x
  | some v => { x with acct := upd x.acct a (some (f v)) }

def modTokA (x : Abs) (a : Addr) (t : Tok) (v : Int) : Abs :=
  match x.acct a with
  | none => x
  | some o =>
    match o.toks with
    | .inl f => { x with acct := upd x.acct a (some { o with toks := .inl (upd f t v) }) }
    | .shared r => { x with heap := upd x.heap r (upd (x.heap r) t v) }

def mergeV (pos : Tok → Option Int) (f : Tok → Int) : Tok → Int := fun t => (pos t).getD (f t)

def restoreToksA (x : Abs) (a : Addr) (pos : Tok → Option Int) : Abs :=
  match x.acct a with
  | none => x
  | some o =>
    match o.toks with
    | .inl f => { x with acct := upd x.acct a (some { o with toks := .inl (mergeV pos f) }) }
    | .shared r => { x with heap := upd x.heap r (mergeV pos (x.heap r)) }

def undoA (e : Entry) (x : Abs) : Abs :=
  match e with
  | .createObject a => { x with acct := upd x.acct a (x.trieV a) }
  | .resetObject a prev => { x with acct := upd x.acct a (some (viewObj prev)) }
  | .suicide a prev bp tp => restoreToksA (modA x a (fun o => { o with suicided := prev, balance := bp.getD o.balance })) a tp
  | .balance a prev => modA x a (fun o => { o with balance := prev })
  | .nonce a prev => modA x a (fun o => { o with nonce := prev })
  | .credits a prev => modA x a (fun o => { o with credits := prev })
  | .storage a k prev => modA x a (fun o => { o with stor := upd o.stor k prev })
  | .code a prev => modA x a (fun o => { o with code := prev })
  | .refund prev => { x with refund := prev }
  | .addLog tx => { x with logs := upd x.logs tx (x.logs tx).dropLast, logSize := x.logSize - 1 }
  | .touch _ => x
  | .addPreimage p => { x with pre := upd x.pre p none }
  | .tokenBalance a t prev => modTokA x a t (prev.getD 0)

/-! ### basic facts about `peek` -/

@[simp] theorem peek_putObj (c : Ctx) (a : Addr) (o : Obj) (b : Addr) :
    peek (putObj c a o).st b = if b = a then (if o.deleted then none else some o) else peek c.st b := by
  by_cases h : b = a
  · subst h; simp [peek, putObj]
  · simp [peek, putObj, h]

@[simp] theorem peek_push (c : Ctx) (e : Entry) : peek (push c e).st = peek c.st := by
  funext b; simp [peek, push]

@[simp] theorem heap_putObj (c : Ctx) (a : Addr) (o : Obj) : (putObj c a o).heap = c.heap := rfl
@[simp] theorem heap_push (c : Ctx) (e : Entry) : (push c e).heap = c.heap := rfl

theorem peek_not_deleted {s : State} {a : Addr} {o : Obj} (h : peek s a = some o) : o.deleted = false := by
  unfold peek at h
  split at h
  · next o' _ =>
    split at h
    · cases h
    · next hd => cases h; simpa using hd
  · cases ht : s.trie a with
    | none => simp [ht] at h
    | some x => simp [ht] at h; subst h; rfl

theorem getState_dirty_upd (o : Obj) (k : Key) (v : Bytes) :
    getState { o with dirty := upd o.dirty k (some v) } = upd (getState o) k v := by
  funext x
  by_cases h : x = k
  · subst h; simp [getState]
  · simp [getState, h, committed]

/-- `modObj` commutes with the abstraction for every field update that the view can express -/
theorem abs_modObj (c : Ctx) (a : Addr) (f : Obj → Obj) (g : OV → OV)
    (hd : ∀ o, (f o).deleted = o.deleted) (hv : ∀ o, viewObj (f o) = g (viewObj o)) :
    abs (modObj c a f) = modA (abs c) a g := by
  unfold modObj modA
  cases h : peek c.st a with
  | none => simp [abs, h]
  | some o =>
    have hnd := peek_not_deleted h
    simp only [abs, h, Option.map_some]
    congr 1
    funext b
    by_cases hb : b = a
    · subst hb; simp [hd, hnd, hv]
    · simp [hb]

theorem getD_upd (m : TokMap) (t : Tok) (v : Option Int) :
    (fun x => (upd m t v x).getD 0) = upd (fun x => (m x).getD 0) t (v.getD 0) := by
  funext x
  by_cases hx : x = t
  · subst hx; simp
  · simp [hx]

theorem getState_toks (o : Obj) (ts : TokStore) : getState { o with toks := ts } = getState o := by
  funext k; simp [getState, committed]

theorem abs_modTok (c : Ctx) (a : Addr) (t : Tok) (v : Option Int) :
    abs (modTok c a t v) = modTokA (abs c) a t (v.getD 0) := by
  unfold modTok modTokA
  cases h : peek c.st a with
  | none => simp [abs, h]
  | some o =>
    have hnd := peek_not_deleted h
    simp only [abs, h, Option.map_some]
    cases ht : o.toks with
    | inl m =>
      simp only [writeTokH, writeTokO, ht, viewObj, viewToks]
      congr 1
      funext b
      by_cases hb : b = a
      · subst hb
        simp [hnd, viewObj, viewToks, getD_upd]
        funext k; simp [getState, committed]
      · simp [hb]
    | shared r =>
      simp only [writeTokH, writeTokO, ht, viewObj, viewToks]
      congr 1
      · funext r' t'
        by_cases hr : r' = r
        · subst hr
          by_cases hx : t' = t
          · subst hx; simp
          · simp [hx]
        · simp [hr]
      · funext b
        by_cases hb : b = a
        · subst hb; simp [hnd, h]
        · simp [hb]

theorem getD_merge (pos : Tok → Option Int) (m : TokMap) :
    (fun t => (mergeToks pos m t).getD 0) = mergeV pos (fun t => (m t).getD 0) := by
  funext t
  simp only [mergeToks, mergeV]
  cases pos t <;> simp

theorem abs_restoreToks (c : Ctx) (a : Addr) (pos : Tok → Option Int) :
    abs (restoreToks c a pos) = restoreToksA (abs c) a pos := by
  unfold restoreToks restoreToksA
  cases h : peek c.st a with
  | none => simp [abs, h]
  | some o =>
    have hnd := peek_not_deleted h
    simp only [abs, h, Option.map_some]
    cases ht : o.toks with
    | inl m =>
      simp only [viewObj, viewToks, ht]
      congr 1
      funext b
      by_cases hb : b = a
      · subst hb
        simp [hnd, viewObj, viewToks, getD_merge]
        funext k; simp [getState, committed]
      · simp [hb]
    | shared r =>
      simp only [viewObj, viewToks, ht]
      congr 1
      · funext r' t'
        by_cases hr : r' = r
        · subst hr
          simp only [heap_putObj, upd_same]
          exact congrFun (getD_merge pos (c.heap r')) t'
        · simp [hr]
      · funext b
        by_cases hb : b = a
        · subst hb; simp [hnd, h]
        · simp [hb]

/-- **every undo entry acts on the abstraction alone** -/
theorem abs_undo (e : Entry) (c : Ctx) : abs (undo e c) = undoA e (abs c) := by
  cases e with
  | createObject a =>
    simp only [undo, undoA, abs]
    congr 1
    funext b
    by_cases hb : b = a
    · subst hb; simp [peek]; rfl
    · simp [peek, hb]
  | resetObject a prev =>
    simp only [undo, undoA, abs]
    congr 1
    funext b
    by_cases hb : b = a
    · subst hb; simp [viewObj]; funext k; simp [getState, committed]
    · simp [hb]
  | suicide a prev bp tp =>
    simp only [undo, undoA]
    have := abs_modObj c a (fun o => { o with suicided := prev, balance := bp.getD o.balance })
      (fun o => { o with suicided := prev, balance := bp.getD o.balance }) (fun _ => rfl) (fun _ => rfl)
    rw [abs_restoreToks, this]
  | balance a prev => exact abs_modObj c a _ _ (fun _ => rfl) (fun _ => rfl)
  | nonce a prev => exact abs_modObj c a _ _ (fun _ => rfl) (fun _ => rfl)
  | credits a prev => exact abs_modObj c a _ _ (fun _ => rfl) (fun _ => rfl)
  | storage a k prev =>
    exact abs_modObj c a _ (fun o => { o with stor := upd o.stor k prev }) (fun _ => rfl)
      (fun o => by simp [viewObj, getState_dirty_upd])
  | code a prev => exact abs_modObj c a _ _ (fun _ => rfl) (fun _ => rfl)
  | refund prev => rfl
  | addLog tx => rfl
  | touch a => rfl
  | addPreimage p => rfl
  | tokenBalance a t prev => exact abs_modTok c a t prev

def undoList : List Entry → Ctx → Ctx
  | [], c => c
  | e :: rest, c => undoList rest (undo e c)

def undoListA : List Entry → Abs → Abs
  | [], x => x
  | e :: rest, x => undoListA rest (undoA e x)

theorem abs_undoList (es : List Entry) (c : Ctx) : abs (undoList es c) = undoListA es (abs c) := by
  induction es generalizing c with
  | nil => rfl
  | cons e rest ih => simp [undoList, undoListA, ih, abs_undo]

theorem undoList_append (es fs : List Entry) (c : Ctx) : undoList (es ++ fs) c = undoList fs (undoList es c) := by
  induction es generalizing c with
  | nil => rfl
  | cons e rest ih => simp [undoList, ih]

/-- congruence: undoing the same entries from abstraction-equal contexts gives abstraction-equal contexts -/
theorem abs_undoList_congr (es : List Entry) {c c' : Ctx} (h : abs c = abs c') :
    abs (undoList es c) = abs (undoList es c') := by
  rw [abs_undoList, abs_undoList, h]

end Props.C09
