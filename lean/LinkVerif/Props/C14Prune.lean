import LinkVerif.Props.C14Search

/-!
# C14 — pruning by total size (checkTotalSizeLimit) and the start-up replay (catchupReplay)
-/
namespace Props.C14
open Model.Wal

/-- one run of the removal loop deletes at most `fuel` files and never more than exist -/
theorem pruneLoop_le (limit : Nat) : ∀ (f total : Nat) (sizes : List Nat),
    pruneLoop limit f total sizes ≤ f ∧ pruneLoop limit f total sizes ≤ sizes.length := by
  intro f
  induction f with
  | zero => intro total sizes; simp [pruneLoop]
  | succ f ih =>
    intro total sizes
    cases sizes with
    | nil => simp [pruneLoop]
    | cons s rest =>
      simp only [pruneLoop]
      split
      · simp
      · have := ih (total - s) rest
        simp only [List.length_cons]
        omega

/-- **prune_at_most_four**: one tick of `checkTotalSizeLimit` deletes at most `maxFilesToRemove = 4` files, only rotated
files (never the head: the count is bounded by the number of rotated files that exist), and the files deleted are the
OLDEST ones by construction (`pruneCount` is a count from the oldest existing file). -/
theorem prune_at_most_four (limit : Nat) (sizes : List Nat) (headSize : Nat) :
    pruneCount limit sizes headSize ≤ 4 ∧ pruneCount limit sizes headSize ≤ sizes.length := by
  unfold pruneCount
  split
  · simp
  · exact pruneLoop_le limit 4 _ sizes

/-- nothing is deleted while the group is below its limit, and nothing when there is no limit -/
theorem prune_below_limit (limit : Nat) (sizes : List Nat) (headSize : Nat)
    (h : limit = 0 ∨ sizes.sum + headSize < limit) : pruneCount limit sizes headSize = 0 := by
  unfold pruneCount
  rcases h with h | h
  · simp [h]
  · split
    · rfl
    · cases sizes with
      | nil => simp [pruneLoop]
      | cons s rest =>
        have h' : s + rest.sum + headSize < limit := by simpa using h
        simp [pruneLoop, h']

/-- at the boundary the oldest file goes: `totalSize < limit` is the only exit, so a total EQUAL to the limit deletes -/
theorem prune_at_limit (limit s : Nat) (rest : List Nat) (headSize : Nat) (hl : limit ≠ 0)
    (h : limit ≤ (s :: rest).sum + headSize) : 1 ≤ pruneCount limit (s :: rest) headSize := by
  unfold pruneCount
  simp only [hl, if_false]
  have : ¬ ((s :: rest).sum + headSize < limit) := by omega
  simp only [pruneLoop, this, if_false]
  omega

/-- with nothing deleted and `minIndex = 0` the pruning-aware search is the search of the other theorems -/
theorem searchFromP_zero (c : Codec) (g : Group) (h : Nat) (ign : Bool) :
    ∀ n last, searchFromP c g h ign 0 0 n last = searchFrom c g h ign n last := by
  intro n
  induction n with
  | zero => intro last; rw [searchFromP, searchFrom]
  | succ i ih =>
    intro last
    rw [searchFromP, searchFrom]
    have hc : g.canOpenP 0 i = g.canOpen i := by simp [Group.canOpenP]
    simp only [Nat.not_lt_zero, if_false, hc]
    split
    · split <;> simp_all
    · rfl

theorem searchP_zero (c : Codec) (g : Group) (h : Nat) (ign : Bool) : searchP c g h ign 0 0 = search c g h ign := by
  rw [searchP, search, searchFromP_zero]

/-- a deleted file is never opened: below `gone` the search answers the open error (stale `minIndex`) or stops (`lo`) -/
theorem searchFromP_gone (c : Codec) (g : Group) (h : Nat) (ign : Bool) (gone lo i last : Nat) (hi : i < gone) :
    searchFromP c g h ign gone lo (i + 1) last = Search.notFound ∨
    searchFromP c g h ign gone lo (i + 1) last = Search.openFailed := by
  rw [searchFromP]
  by_cases hlo : i < lo
  · left; simp [hlo]
  · right
    have : g.canOpenP gone i = false := by simp [Group.canOpenP]; intro hge; omega
    simp [hlo, this]

example : pruneCount 1017 [172, 144, 148, 108, 308, 256] 53 = 2 ∧ pruneCount 48 [195, 94, 144, 93, 89] 48 = 4 ∧
    pruneCount 1124 [254, 84, 273, 148, 84, 146] 134 = 0 ∧ pruneCount 1123 [254, 84, 273, 148, 84, 146] 134 = 1 := by decide

/-! ## catchupReplay on a clean record-aligned log -/

/-- **catchup_replays_after_marker**: the log on disk is record-aligned and ends cleanly (record boundary, or inside
a checksum field), the marker of the current height is absent and the marker of the previous height present: then
`catchupReplay` ends with "Replay: Done" and hands the state machine exactly the non-marker records written after a
marker of the previous height, in order. -/
theorem catchup_replays_after_marker (c : Codec) (hb : Bounded c) (g : Group) (csHeight : Nat)
    (pss : List (List Bytes)) (hd : List Bytes) (rem rest' : Bytes)
    (hD : OnDisk c g pss hd rem) (hrem : decode1 c Tail.eof rem = (Res.eof, rest'))
    (hv : ∀ p ∈ pss.flatten ++ hd, Valid c p)
    (hmono : ((pss.flatten ++ hd).filterMap c.eh).Pairwise (· ≤ ·))
    (hno : ∀ p ∈ pss.flatten ++ hd, c.eh p ≠ some csHeight)
    (hyes : ∃ p ∈ pss.flatten ++ hd, c.eh p = some (csHeight - 1)) :
    ∃ pre m post, pss.flatten ++ hd = pre ++ m :: post ∧ c.eh m = some (csHeight - 1) ∧
      catchup c g csHeight = (post.filter (fun p => (c.eh p).isNone), Outcome.done) := by
  have k1 := (search_aligned_clean c hb g csHeight true pss hd rem rest' hD hrem hv hmono).2 hno
  obtain ⟨i, pre, m, post, e, hm, k2⟩ :=
    (search_aligned_clean c hb g (csHeight - 1) true pss hd rem rest' hD hrem hv hmono).1 hyes
  refine ⟨pre, m, post, e, hm, ?_⟩
  have htail : g.tail = Tail.eof := by simp [Group.tail, hD.head]
  have hdec : decodeAll c Tail.eof (frames c post ++ rem) = (post, Res.eof) :=
    damaged_record_stops c hb Tail.eof rem Res.eof rest' hrem rfl post
      (fun p hp => hv p (by rw [e]; simp [hp]))
  simp only [catchup, k1, k2, htail, hdec]

/-- a torn length/data field at the end of the head: `catchupReplay` gives up with that read error before replaying
anything, unless the marker of the CURRENT height is among the head's whole records (finding wal-search-torn-tail, seen
from its consumer) -/
theorem catchup_torn_gives_up (c : Codec) (hb : Bounded c) (g : Group) (csHeight : Nat)
    (pss : List (List Bytes)) (hd : List Bytes) (rem rest' : Bytes) (r : Res)
    (hD : OnDisk c g pss hd rem) (hrem : decode1 c Tail.eof rem = (r, rest')) (hr : isStop r = true)
    (hne : r ≠ Res.eof) (hv : ∀ p ∈ hd, Valid c p) (hno : ∀ p ∈ hd, c.eh p ≠ some csHeight) :
    catchup c g csHeight = ([], Outcome.err r) := by
  have k := search_aligned_torn c hb g csHeight true pss hd rem rest' r hD hrem hr hne hv
  rw [(afterMarker_none c csHeight hd).mpr hno] at k
  simp only [catchup, k]

end Props.C14
