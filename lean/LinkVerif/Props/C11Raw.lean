/-
C11: the second parser of the format (libs/ser/raw.go: Split, SplitString, SplitList, CountValues — used by the trie node
decoder and by stateObject.GetCommittedState) against layer 1 and against Stream.Kind; the size guards of the reactors.
-/
import LinkVerif.Model.Ser
import LinkVerif.Props.C11Round
import LinkVerif.Gen.C11ReaderSites

namespace Props.C11
open Model.Rlp Model.Ser

/-- on strings and single bytes `Split` IS the strict layer-1 decoder (same acceptance, same content, same rest) -/
theorem split_str_of_dec (b c r : Bytes) (h : dec b = .ok (.str c, r)) : ∃ k, k ≠ Kind.list ∧ split b = .ok (k, c, r) := by
  unfold dec at h
  simp only [decF] at h
  unfold split
  cases hh : readHead b with
  | error e => rw [hh] at h; cases h
  | ok v =>
    obtain ⟨k, sz, bv, r0⟩ := v
    rw [hh] at h
    cases k with
    | byte =>
      simp only [Except.ok.injEq, Prod.mk.injEq, Item.str.injEq] at h
      exact ⟨.byte, by decide, by simp only [h.1, h.2]⟩
    | string =>
      simp only at h ⊢
      split at h
      · cases h
      · next hlen =>
        split at h
        · cases h
        · next h7 =>
          simp only [Except.ok.injEq, Prod.mk.injEq, Item.str.injEq] at h
          refine ⟨.string, by decide, ?_⟩
          simp only [hlen, if_false, h7]
          simp [h.1, h.2]
    | list =>
      simp only at h
      split at h
      · cases h
      · split at h <;> simp at h

theorem dec_of_split_str (b c r : Bytes) (k : Kind) (hk : k ≠ Kind.list) (h : split b = .ok (k, c, r)) :
    dec b = .ok (.str c, r) := by
  unfold split at h
  unfold dec
  simp only [decF]
  cases hh : readHead b with
  | error e => rw [hh] at h; cases h
  | ok v =>
    obtain ⟨k0, sz, bv, r0⟩ := v
    rw [hh] at h
    cases k0 with
    | byte =>
      simp only [Except.ok.injEq, Prod.mk.injEq] at h
      simp only [h.2.1, h.2.2]
    | string =>
      simp only at h ⊢
      split at h
      · cases h
      · next hlen =>
        split at h
        · cases h
        · next h7 =>
          simp only [Except.ok.injEq, Prod.mk.injEq] at h
          have h7' : single7 (List.take sz r0) = false := by simpa using h7
          simp only [hlen, if_false, h7']
          simp [h.2.1, h.2.2]
    | list =>
      simp only at h
      split at h
      · cases h
      · split at h
        · cases h
        · simp only [Except.ok.injEq, Prod.mk.injEq] at h
          exact absurd h.1.symm hk

/-- a list `Split` accepts has the canonical header of its content: Split is as strict about sizes as the strict decoder -/
theorem split_list_canonical (b c r : Bytes) (h : split b = .ok (.list, c, r)) :
    b = encHead 0xC0 0xF7 c.length ++ c ++ r := by
  unfold split at h
  cases hh : readHead b with
  | error e => rw [hh] at h; cases h
  | ok v =>
    obtain ⟨k0, sz, bv, r0⟩ := v
    rw [hh] at h
    have hc := readHead_canon b r0 k0 sz bv hh
    cases k0 with
    | byte => simp at h
    | string =>
      simp only at h
      split at h
      · cases h
      · split at h
        · cases h
        · simp at h
    | list =>
      simp only at h
      split at h
      · cases h
      · next hlen =>
        split at h
        · cases h
        · simp only [Except.ok.injEq, Prod.mk.injEq, true_and] at h
          obtain ⟨hb, _⟩ := hc
          have hl : (List.take sz r0).length = sz := by simp; omega
          rw [← h.1, ← h.2, hl, hb, List.append_assoc, List.take_append_drop]

/-- whatever `Split` accepts, `Stream.Kind` on the same bytes (DecodeBytes' stream) accepts with the same kind and size:
    the two hand-written parsers cannot disagree in that direction.  (The converse - Stream accepts ⇒ Split accepts, up to the
    one-byte-string rule that Stream applies only in Bytes() - is tied by the `split` op's x=agree monitor, not proved.) -/
theorem split_accepts_kindOf (b c r : Bytes) (k : Kind) (h : split b = .ok (k, c, r)) :
    (kindOf ({ rest := b } : Stream)).1 = (k, (if k = Kind.byte then 0 else c.length), none) := by
  unfold split at h
  cases hh : readHead b with
  | error e => rw [hh] at h; cases h
  | ok v =>
    obtain ⟨k0, sz, bv, r0⟩ := v
    rw [hh] at h
    have hc := readHead_canon b r0 k0 sz bv hh
    have hpos : r0.length < b.length := by
      cases k0 with
      | byte => obtain ⟨hb, _⟩ := hc; rw [hb]; simp
      | string => obtain ⟨hb, _⟩ := hc; rw [hb]; have := encHead_length_pos 0x80 0xB7 sz; simp; omega
      | list => obtain ⟨hb, _⟩ := hc; rw [hb]; have := encHead_length_pos 0xC0 0xF7 sz; simp; omega
    cases k0 with
    | byte =>
      simp only [Except.ok.injEq, Prod.mk.injEq] at h
      obtain ⟨_, _, hz⟩ := hc
      subst hz
      rw [kindOf_ok { rest := b } .byte 0 bv r0 rfl hh hpos (by simp [Room]) (by omega)]
      simp [← h.1]
    | string =>
      simp only at h
      split at h
      · cases h
      · next hlen =>
        split at h
        · cases h
        · simp only [Except.ok.injEq, Prod.mk.injEq] at h
          rw [kindOf_ok { rest := b } .string sz bv r0 rfl hh hpos (by simp [Room]) (by omega)]
          have hl : (List.take sz r0).length = sz := by simp; omega
          simp [← h.1, ← h.2.1, hl]
    | list =>
      simp only at h
      split at h
      · cases h
      · next hlen =>
        split at h
        · cases h
        · simp only [Except.ok.injEq, Prod.mk.injEq] at h
          rw [kindOf_ok { rest := b } .list sz bv r0 rfl hh hpos (by simp [Room]) (by omega)]
          have hl : (List.take sz r0).length = sz := by simp; omega
          simp [← h.1, ← h.2.1, hl]

/-! non-vacuity and the strictness of the second parser: the same rejections as the strict decoder -/
set_option maxRecDepth 100000 in
example : split [0x82, 0xAA, 0xBB, 0x01] = .ok (.string, [0xAA, 0xBB], [0x01]) := by rfl
set_option maxRecDepth 100000 in
example : split [0x81, 0x05] = .error .canonSize := by rfl
set_option maxRecDepth 100000 in
example : split [0xB8, 0x05, 1, 2, 3, 4, 5] = .error .canonSize := by rfl
set_option maxRecDepth 100000 in
example : split [0xB9, 0x00, 0x40] = .error .canonSize := by rfl
set_option maxRecDepth 100000 in
example : split [0xC3, 0x01] = .error .valueTooLarge := by rfl
set_option maxRecDepth 100000 in
example : countValues 10 [0x01, 0x80, 0xC1, 0x05] = .ok 3 := by rfl

/-! ### T2: the size guard of every reactor's decodeMsg (regenerated) -/

/-- consensus, blockchain and evidence refuse a message above their maxMsgSize before decoding it; the mempool reactor's guard
    is commented out in the source (its messages are bounded by the connection's receive capacity only).  All four decode
    with DecodeBytesWithType, whose stream is limited by the message length (reader_alloc_le_limit / decodeBytes).
    The limits the harness passes to the model (`max=`) are the texts pinned here. -/
theorem decodeMsg_guards :
    Gen.C11ReaderSites.decodeMsgGuards =
      [("blockchain/reactor.go", "guard", "types.MaxBlockSizeBytes + bcBlockResponseMessagePrefixSize + bcBlockResponseMessageFieldKeySize", "DecodeBytesWithType"),
       ("consensus/reactor.go", "guard", "1048576", "DecodeBytesWithType"),
       ("evidence/reactor.go", "guard", "1048576", "DecodeBytesWithType"),
       ("mempool/reactor.go", "noguard", "1048576", "DecodeBytesWithType")] := by decide

end Props.C11
