/-
C09, part 4: `revert_exact` — for every sequence of mutators interleaved with arbitrarily nested snapshot/revert pairs,
`RevertToSnapshot(id)` succeeds and restores every observable to its value at `Snapshot()`.
-/
import LinkVerif.Props.C09Ops

namespace Props.C09
open Model.StateDB

inductive Step where
  | op (o : Op)
  | snap
  | revert (id : Nat)

/-- a failed `RevertToSnapshot` panics before touching anything -/
def stepCtx (cfg : Cfg) (c : Ctx) : Step → Ctx
  | .op o => applyOp cfg c o
  | .snap => (snapshot c).1
  | .revert id => (revertTo c id).getD c

def run (cfg : Cfg) (c : Ctx) (steps : List Step) : Ctx := steps.foldl (stepCtx cfg) c

/-- the side condition of `Suicide` holds wherever it is executed -/
def Safe (cfg : Cfg) : Ctx → List Step → Prop
  | _, [] => True
  | c, s :: rest => (match s with
      | .op o => SafeOp c o
      | _ => True) ∧ Safe cfg (stepCtx cfg c s) rest

/-- inner reverts target snapshots taken after the outer one (ids are handed out increasingly) -/
def WellNested (id : Nat) : List Step → Prop
  | [] => True
  | .revert i :: rest => id < i ∧ WellNested id rest
  | _ :: rest => WellNested id rest

/-- shape of `validRevisions` above the outer snapshot `(id, J)` -/
inductive Stack (J id : Nat) (B : List (Nat × Nat)) : Nat → List (Nat × Nat) → Prop
  | base {n : Nat} : J ≤ n → Stack J id B n ((id, J) :: B)
  | cons {n i j : Nat} {rest : List (Nat × Nat)} : id < i → j ≤ n → Stack J id B j rest → Stack J id B n ((i, j) :: rest)

theorem Stack.J_le {J id B n l} (h : Stack J id B n l) : J ≤ n := by
  induction h with
  | base h => exact h
  | cons _ h2 _ ih => exact Nat.le_trans ih h2

theorem Stack.mono {J id B n m l} (h : Stack J id B n l) (hm : n ≤ m) : Stack J id B m l := by
  cases h with
  | base h => exact .base (Nat.le_trans h hm)
  | cons h1 h2 h3 => exact .cons h1 (Nat.le_trans h2 hm) h3

theorem Stack.find_outer {J id B n l} (h : Stack J id B n l) : findRev id l = some (J, B) := by
  induction h with
  | base _ => simp [findRev]
  | cons h1 _ _ ih =>
    simp only [findRev]
    rw [if_neg (by omega)]
    exact ih

theorem findRev_mem {i j : Nat} {l older : List (Nat × Nat)} (h : findRev i l = some (j, older)) : (i, j) ∈ l := by
  induction l with
  | nil => simp [findRev] at h
  | cons p rest ih =>
    obtain ⟨i', j'⟩ := p
    simp only [findRev] at h
    split at h
    · next heq => cases h; simp [heq]
    · exact List.mem_cons_of_mem _ (ih h)

theorem Stack.find_inner {J id B n l i j older} (h : Stack J id B n l) (hB : ∀ p ∈ B, p.1 < id) (hi : id < i)
    (hf : findRev i l = some (j, older)) : j ≤ n ∧ Stack J id B j older := by
  induction h with
  | base _ =>
    simp only [findRev] at hf
    rw [if_neg (by omega)] at hf
    have := hB _ (findRev_mem hf)
    simp at this; omega
  | cons h1 h2 h3 ih =>
    simp only [findRev] at hf
    split at hf
    · cases hf; exact ⟨h2, h3⟩
    · obtain ⟨h4, h5⟩ := ih hf
      exact ⟨Nat.le_trans h4 h2, h5⟩

/-! ### frame facts: who touches revs / nextRev -/

theorem undo_frame (e : Entry) (c : Ctx) : (undo e c).st.revs = c.st.revs ∧ (undo e c).st.nextRev = c.st.nextRev := by
  cases e <;> simp only [undo, modObj, modTok, restoreToks, putObj] <;> (repeat' split) <;> simp

theorem undoList_frame (es : List Entry) (c : Ctx) :
    (undoList es c).st.revs = c.st.revs ∧ (undoList es c).st.nextRev = c.st.nextRev := by
  induction es generalizing c with
  | nil => exact ⟨rfl, rfl⟩
  | cons e rest ih =>
    obtain ⟨h1, h2⟩ := ih (undo e c)
    obtain ⟨h3, h4⟩ := undo_frame e c
    exact ⟨h1.trans h3, h2.trans h4⟩

def Fr (c c' : Ctx) : Prop := c'.st.revs = c.st.revs ∧ c'.st.nextRev = c.st.nextRev

theorem Fr.trans {c c' c'' : Ctx} (h1 : Fr c c') (h2 : Fr c' c'') : Fr c c'' := ⟨h2.1.trans h1.1, h2.2.trans h1.2⟩

theorem ensure_fr (c : Ctx) (a : Addr) : Fr c (ensure c a).1 := by
  unfold ensure; split <;> exact ⟨rfl, rfl⟩

theorem setBalance_fr (c : Ctx) (a : Addr) (o : Obj) (v : Int) : Fr c (setBalance c a o v) := ⟨rfl, rfl⟩

theorem touchIfEmpty_fr (c : Ctx) (a : Addr) (o : Obj) : Fr c (touchIfEmpty c a o) := by
  unfold touchIfEmpty; split <;> exact ⟨rfl, rfl⟩

theorem setTokenBalance_fr (cfg : Cfg) (c : Ctx) (a : Addr) (o : Obj) (t : Tok) (v : Int) : Fr c (setTokenBalance cfg c a o t v) := by
  unfold setTokenBalance
  split
  · exact ⟨rfl, rfl⟩
  · have : Fr c (zeroInsert cfg c a o t).1 := by unfold zeroInsert; split <;> exact ⟨rfl, rfl⟩
    exact Fr.trans this ⟨rfl, rfl⟩

theorem applyOp_frame (cfg : Cfg) (c : Ctx) (op : Op) :
    (applyOp cfg c op).st.revs = c.st.revs ∧ (applyOp cfg c op).st.nextRev = c.st.nextRev := by
  show Fr c (applyOp cfg c op)
  cases op with
  | addBal a v =>
    simp only [applyOp]; split
    · exact Fr.trans (ensure_fr c a) (touchIfEmpty_fr _ a _)
    · exact Fr.trans (ensure_fr c a) (setBalance_fr _ a _ _)
  | subBal a v =>
    simp only [applyOp]; split
    · exact ensure_fr c a
    · exact Fr.trans (ensure_fr c a) (setBalance_fr _ a _ _)
  | setBal a v => exact Fr.trans (ensure_fr c a) (setBalance_fr _ a _ _)
  | addTok a t v =>
    simp only [applyOp]; split
    · exact Fr.trans (ensure_fr c a) (touchIfEmpty_fr _ a _)
    · exact Fr.trans (ensure_fr c a) (setTokenBalance_fr cfg _ a _ t _)
  | subTok a t v =>
    simp only [applyOp]; split
    · exact ensure_fr c a
    · exact Fr.trans (ensure_fr c a) (setTokenBalance_fr cfg _ a _ t _)
  | setTok a t v => exact Fr.trans (ensure_fr c a) (setTokenBalance_fr cfg _ a _ t _)
  | setNonce a n => exact Fr.trans (ensure_fr c a) ⟨rfl, rfl⟩
  | setCode a code => exact Fr.trans (ensure_fr c a) ⟨rfl, rfl⟩
  | setState a k v =>
    simp only [applyOp]; split
    · exact ensure_fr c a
    · exact Fr.trans (ensure_fr c a) ⟨rfl, rfl⟩
  | create a =>
    simp only [applyOp, createObject]
    split <;> exact ⟨rfl, rfl⟩
  | suicide a =>
    simp only [applyOp]
    split <;> exact ⟨rfl, rfl⟩
  | addLog d => exact ⟨rfl, rfl⟩
  | addRefund g => exact ⟨rfl, rfl⟩
  | subRefund g => exact ⟨rfl, rfl⟩
  | prepare x i => exact ⟨rfl, rfl⟩
  | setCredits a n => exact Fr.trans (ensure_fr c a) ⟨rfl, rfl⟩
  | addPreimage p d =>
    simp only [applyOp]
    split <;> exact ⟨rfl, rfl⟩

/-- `journal.revert` down to the length of a suffix = undo the entries above it -/
theorem revertJournal_split (es rest : List Entry) (c : Ctx) :
    revertJournal rest.length (es ++ rest) c =
      { undoList es c with st := { (undoList es c).st with journal := rest } } := by
  induction es generalizing c with
  | nil =>
    cases rest with
    | nil => rfl
    | cons e r => simp [revertJournal, undoList]
  | cons e es ih =>
    simp only [List.cons_append, revertJournal, undoList]
    rw [if_neg (by simp; omega)]
    exact ih _

/-! ### the invariant -/

structure Inv (c c' : Ctx) : Prop where
  ext : Ext c c'
  stack : Stack c.st.journal.length c.st.nextRev c.st.revs c'.st.journal.length c'.st.revs
  next : c.st.nextRev < c'.st.nextRev

theorem Ext.journal_len {c c' : Ctx} (h : Ext c c') : c.st.journal.length ≤ c'.st.journal.length := by
  obtain ⟨es, hj, _⟩ := h.jr
  rw [hj]; simp

theorem Inv_step (cfg : Cfg) {c c' : Ctx} (hw : WF c.st) (hB : ∀ p ∈ c.st.revs, p.1 < c.st.nextRev) (h : Inv c c') (s : Step)
    (hs : match s with
      | .op o => SafeOp c' o
      | _ => True)
    (hn : match s with
      | .revert i => c.st.nextRev < i
      | _ => True) : Inv c (stepCtx cfg c' s) := by
  have hw' : WF c'.st := WF_of_Upd hw h.ext.upd
  cases s with
  | op o =>
    have he := applyOp_ext cfg c' o hw' hs
    obtain ⟨hr, hx⟩ := applyOp_frame cfg c' o
    refine ⟨Ext.trans h.ext he, ?_, ?_⟩
    · simp only [stepCtx]; rw [hr]; exact h.stack.mono he.journal_len
    · simp only [stepCtx]; rw [hx]; exact h.next
  | snap =>
    refine ⟨Ext.trans h.ext (Ext.neutral ⟨rfl, fun _ => Or.inl rfl⟩ rfl rfl), ?_, ?_⟩
    · exact .cons h.next (Nat.le_refl _) h.stack
    · simp only [stepCtx, snapshot]; exact Nat.lt_succ_of_lt h.next
  | revert i =>
    simp only [stepCtx, revertTo]
    cases hf : findRev i c'.st.revs with
    | none => exact h
    | some p =>
      obtain ⟨j, older⟩ := p
      obtain ⟨hj, hst⟩ := h.stack.find_inner hB hn hf
      have hJ := hst.J_le
      obtain ⟨es, hes, habs⟩ := h.ext.jr
      -- split the entries above the outer snapshot at journal index j
      have hlen : c'.st.journal.length = es.length + c.st.journal.length := by rw [hes]; simp
      let k := c'.st.journal.length - j
      have hsplit : c'.st.journal = es.take k ++ (es.drop k ++ c.st.journal) := by
        rw [← List.append_assoc, List.take_append_drop]; exact hes
      have hrest : (es.drop k ++ c.st.journal).length = j := by
        simp only [List.length_append, List.length_drop]; omega
      simp only [Option.getD_some]
      have hrj := revertJournal_split (es.take k) (es.drop k ++ c.st.journal) c'
      rw [hrest, ← hsplit] at hrj
      rw [hrj]
      obtain ⟨hr, hx⟩ := undoList_frame (es.take k) c'
      refine ⟨⟨Upd.trans h.ext.upd (Upd.trans (Upd_undoList (es.take k) c') ⟨rfl, fun _ => Or.inl rfl⟩), es.drop k, rfl, ?_⟩, ?_, ?_⟩
      · rw [abs_undoList]
        have : abs { undoList (es.take k) c' with st := { (undoList (es.take k) c').st with journal := es.drop k ++ c.st.journal, revs := older } }
            = abs (undoList (es.take k) c') := rfl
        rw [this, ← abs_undoList, ← undoList_append, List.take_append_drop]
        exact habs
      · simp only [hrest]; exact hst
      · simp only [hx]; exact h.next

theorem Inv_run (cfg : Cfg) {c : Ctx} (hw : WF c.st) (hB : ∀ p ∈ c.st.revs, p.1 < c.st.nextRev) (steps : List Step) :
    ∀ c', Inv c c' → Safe cfg c' steps → WellNested c.st.nextRev steps → Inv c (run cfg c' steps) := by
  induction steps with
  | nil => intro c' h _ _; exact h
  | cons s rest ih =>
    intro c' h hs hn
    show Inv c (run cfg (stepCtx cfg c' s) rest)
    refine ih _ (Inv_step cfg hw hB h s ?_ ?_) hs.2 ?_
    · cases s <;> first | exact hs.1 | trivial
    · cases s with
      | revert i => exact hn.1
      | op o => trivial
      | snap => trivial
    · cases s with
      | revert i => exact hn.2
      | op o => exact hn
      | snap => exact hn

/-- **C09, first clause.**  Take a snapshot, run ANY sequence of mutators, nested snapshots and reverts to those nested
snapshots: `RevertToSnapshot(id)` succeeds and every observable named in the property (balances, token balances, nonces,
credits, code, storage, logs, refund counter, self-destruct marks, existence, emptiness) has the value it had at `Snapshot()`.
Holds for every configuration (pinned, current, repaired).  Without `WellNested`: `revert_exact_any` (Props/C09RevertAny.lean);
without the privacy half of `Safe` on the current tree: `revert_exact_ns` (Props/C09World.lean). -/
theorem revert_exact (cfg : Cfg) (c : Ctx) (hw : WF c.st) (hB : ∀ p ∈ c.st.revs, p.1 < c.st.nextRev) (steps : List Step)
    (hs : Safe cfg (snapshot c).1 steps) (hn : WellNested (snapshot c).2 steps) :
    ∃ c2, revertTo (run cfg (snapshot c).1 steps) (snapshot c).2 = some c2 ∧ obs c2 = obs c := by
  have h0 : Inv c (snapshot c).1 :=
    ⟨Ext.neutral ⟨rfl, fun _ => Or.inl rfl⟩ rfl rfl, .base (Nat.le_refl _), Nat.lt_succ_self _⟩
  have h := Inv_run cfg hw hB steps _ h0 hs hn
  generalize run cfg (snapshot c).1 steps = cf at h
  obtain ⟨es, hes, habs⟩ := h.ext.jr
  have hf := h.stack.find_outer
  simp only [snapshot] at hf ⊢
  simp only [revertTo, hf]
  refine ⟨_, rfl, ?_⟩
  have hrj := revertJournal_split es c.st.journal cf
  rw [← hes] at hrj
  rw [hrj]
  have : obs { undoList es cf with st := { (undoList es cf).st with journal := c.st.journal, revs := c.st.revs } } = obs (undoList es cf) := rfl
  rw [this]
  exact obs_of_abs habs

end Props.C09
