/-
C03 (part 6): the canonical-JSON sign-bytes bind the BLOCK HASH.  A further well-delimited PARTIAL of
`C03_signBytes_binds_statement`: lower-case hex rendering is injective and self-delimiting before the closing quote
(`hexLower_cancel`), so for ASCII chain ids and votes for a block (non-zero hash), equal sign-bytes force equal chain id AND
equal block hash — whatever the parts header, height, round, time and type of the two messages are.  A signature on a vote
for block X can therefore not be presented as a vote for another block hash.  `signBytes_nil_vs_block`: a vote for nil and a vote for a block never share sign-bytes.  (Injectivity of the parts-header and
time renderings stays open; `signBytes_binds_step_fields` covers chain/height/round/type for a fixed block id and time.)
-/
import LinkVerif.Model.Vote
import LinkVerif.Props.C03SignBytes

namespace Props.C03
open Model.Vote

theorem hexLo_inj : ∀ a b : Fin 16, hexLo a.val = hexLo b.val → a = b := by decide
theorem hexLo_ne_quote : ∀ a : Fin 16, hexLo a.val ≠ '"' := by decide

theorem hexLower_cons (x : UInt8) (xs : List UInt8) :
    hexLower (x :: xs) = hexLo (x.toNat / 16) :: hexLo (x.toNat % 16) :: hexLower xs := rfl

theorem byte_hi_lt (x : UInt8) : x.toNat / 16 < 16 := by
  have := x.toNat_lt; omega

/-- lower-case hex is injective and cannot run past the closing quote -/
theorem hexLower_cancel (a b : List UInt8) (r r' : List Char)
    (h : hexLower a ++ '"' :: r = hexLower b ++ '"' :: r') : a = b ∧ r = r' := by
  induction a generalizing b with
  | nil =>
    cases b with
    | nil => simpa [hexLower] using h
    | cons y ys =>
      rw [hexLower_cons] at h
      simp only [hexLower, List.foldr_nil, List.nil_append, List.cons_append, List.cons.injEq] at h
      exact absurd h.1.symm (hexLo_ne_quote ⟨y.toNat / 16, byte_hi_lt y⟩)
  | cons x xs ih =>
    cases b with
    | nil =>
      rw [hexLower_cons] at h
      simp only [hexLower, List.foldr_nil, List.nil_append, List.cons_append, List.cons.injEq] at h
      exact absurd h.1 (hexLo_ne_quote ⟨x.toNat / 16, byte_hi_lt x⟩)
    | cons y ys =>
      rw [hexLower_cons, hexLower_cons] at h
      simp only [List.cons_append, List.cons.injEq] at h
      obtain ⟨h1, h2, h3⟩ := h
      have e1 := hexLo_inj ⟨x.toNat / 16, byte_hi_lt x⟩ ⟨y.toNat / 16, byte_hi_lt y⟩ h1
      have e2 := hexLo_inj ⟨x.toNat % 16, Nat.mod_lt _ (by decide)⟩ ⟨y.toNat % 16, Nat.mod_lt _ (by decide)⟩ h2
      simp only [Fin.mk.injEq] at e1 e2
      have exy : x = y := by
        apply UInt8.toNat_inj.mp
        omega
      obtain ⟨et, er⟩ := ih ys h3
      exact ⟨by rw [exy, et], er⟩

/-- the rendering of a block id with a non-zero hash starts with the quoted lower-case hex of that hash -/
theorem blockIDJSON_flat (b : BlockID) (hb : b.hash ≠ zeroHash) :
    ∃ tail, blockIDJSON b = "{\"hash\":\"0x".toList ++ (hexLower b.hash ++ '"' :: tail) := by
  cases hp : partsJSON b with
  | none => exact ⟨['}'], by simp [blockIDJSON, obj, field, q, str, List.intercalate, hb, hp]⟩
  | some p => exact ⟨',' :: (p ++ ['}']), by simp [blockIDJSON, obj, field, q, str, List.intercalate, hb, hp]⟩

/-- equal renderings (also when followed by anything else) of two block ids with non-zero hashes: equal hashes -/
theorem blockIDJSON_binds_hash (b b' : BlockID) (hb : b.hash ≠ zeroHash) (hb' : b'.hash ≠ zeroHash) (r r' : List Char)
    (h : blockIDJSON b ++ r = blockIDJSON b' ++ r') : b.hash = b'.hash := by
  obtain ⟨t, e⟩ := blockIDJSON_flat b hb
  obtain ⟨t', e'⟩ := blockIDJSON_flat b' hb'
  rw [e, e'] at h
  simp only [List.append_assoc, List.cons_append] at h
  exact (hexLower_cancel _ _ _ _ (List.append_cancel_left h)).1

/-- PARTIAL of `C03_signBytes_binds_statement` (proved): for ASCII chain ids and votes FOR A BLOCK, equal sign-bytes force
the same chain and the same block hash, with no assumption on any other field of the two messages. -/
theorem signBytes_binds_block_hash (m m' : Msg) (hc : ∀ b ∈ m.chain, b.toNat < 128) (hc' : ∀ b ∈ m'.chain, b.toNat < 128)
    (hb : m.bid.hash ≠ zeroHash) (hb' : m'.bid.hash ≠ zeroHash) (h : signBytes m = signBytes m') :
    m.chain = m'.chain ∧ m.bid.hash = m'.bid.hash := by
  rw [signBytes_flat, signBytes_flat] at h
  have h1 := List.append_cancel_left h
  obtain ⟨echain, h2⟩ := jsonEsc_cancel m.chain m'.chain hc hc' _ _ h1
  have h3 := List.append_cancel_left (List.cons.inj h2).2
  exact ⟨echain, blockIDJSON_binds_hash _ _ hb hb' _ _ h3⟩

/-- non-vacuity: two precommits that differ only in the last byte of the block hash have different sign-bytes -/
def bhA : Msg := { chain := [116], height := 7, round := 1, type := 2, bid := ⟨List.replicate 31 0 ++ [1], 1, [9]⟩, tsMs := 5 }
def bhB : Msg := { bhA with bid := ⟨List.replicate 31 0 ++ [2], 1, [9]⟩ }

example : signBytes bhA ≠ signBytes bhB := by
  intro h
  have := (signBytes_binds_block_hash bhA bhB (by decide) (by decide) (by decide) (by decide) h).2
  revert this; decide

/-- a block id with the zero hash (a vote for nil) never renders like one with a non-zero hash -/
theorem blockIDJSON_zero_ne (b b' : BlockID) (hz : b.hash = zeroHash) (hb' : b'.hash ≠ zeroHash) (r r' : List Char) :
    blockIDJSON b ++ r ≠ blockIDJSON b' ++ r' := by
  obtain ⟨t', e'⟩ := blockIDJSON_flat b' hb'
  rw [e']
  intro h
  by_cases hp : b.phash.isEmpty ∧ b.total = 0
  · simp [blockIDJSON, partsJSON, obj, List.intercalate, hz, hp] at h
  · have hp' : ¬ (b.phash = [] ∧ b.total = 0) := by simpa [List.isEmpty_iff] using hp
    simp [blockIDJSON, partsJSON, obj, field, q, str, List.intercalate, hz, hp'] at h

/-- PARTIAL of `C03_signBytes_binds_statement` (proved): a signature on a vote for nil is not a signature on a vote for a block,
and vice versa, whatever the other fields are (ASCII chain ids) -/
theorem signBytes_nil_vs_block (m m' : Msg) (hc : ∀ b ∈ m.chain, b.toNat < 128) (hc' : ∀ b ∈ m'.chain, b.toNat < 128)
    (hz : m.bid.hash = zeroHash) (hb' : m'.bid.hash ≠ zeroHash) : signBytes m ≠ signBytes m' := by
  intro h
  rw [signBytes_flat, signBytes_flat] at h
  have h1 := List.append_cancel_left h
  obtain ⟨_, h2⟩ := jsonEsc_cancel m.chain m'.chain hc hc' _ _ h1
  have h3 := List.append_cancel_left (List.cons.inj h2).2
  exact blockIDJSON_zero_ne _ _ hz hb' _ _ h3

example : signBytes { bhA with bid := BlockID.zero } ≠ signBytes bhA :=
  signBytes_nil_vs_block _ _ (by decide) (by decide) rfl (by decide)

end Props.C03
