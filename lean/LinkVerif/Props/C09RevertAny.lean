/-
C09, part 7: `revert_exact_any` — clause 1 WITHOUT the `WellNested` side condition.  `RevertToSnapshot` validates the revision
id (an unknown id panics and changes nothing).  So for ANY sequence of mutators, snapshots and reverts to ARBITRARY ids —
inner snapshots, the outer snapshot itself, snapshots older than the outer one, ids never issued — the final
`RevertToSnapshot(id)` either panics (`revertTo … = none`: the id was consumed by an earlier revert to it or below it) or
restores every observable exactly.
-/
import LinkVerif.Props.C09Revert

namespace Props.C09
open Model.StateDB

/-- the outer snapshot id is no longer on the revision stack, and can never come back (ids are handed out increasingly) -/
def Gone (c c' : Ctx) : Prop := (∀ p ∈ c'.st.revs, p.1 ≠ c.st.nextRev) ∧ c.st.nextRev < c'.st.nextRev

theorem findRev_older_sub {i j : Nat} {l older : List (Nat × Nat)} (h : findRev i l = some (j, older)) : ∀ p ∈ older, p ∈ l := by
  induction l with
  | nil => simp [findRev] at h
  | cons q rest ih =>
    obtain ⟨i', j'⟩ := q
    simp only [findRev] at h
    split at h
    · cases h; exact fun p hp => List.mem_cons_of_mem _ hp
    · exact fun p hp => List.mem_cons_of_mem _ (ih h p hp)

theorem findRev_none_of_absent {id : Nat} {l : List (Nat × Nat)} (h : ∀ p ∈ l, p.1 ≠ id) : findRev id l = none := by
  induction l with
  | nil => rfl
  | cons q rest ih =>
    obtain ⟨i', j'⟩ := q
    simp only [findRev]
    rw [if_neg (h (i', j') (by simp))]
    exact ih (fun p hp => h p (List.mem_cons_of_mem _ hp))

theorem revertJournal_frame (n : Nat) (l : List Entry) (c : Ctx) :
    (revertJournal n l c).st.revs = c.st.revs ∧ (revertJournal n l c).st.nextRev = c.st.nextRev := by
  induction l generalizing c with
  | nil => exact ⟨rfl, rfl⟩
  | cons e rest ih =>
    simp only [revertJournal]
    split
    · exact ⟨rfl, rfl⟩
    · obtain ⟨h1, h2⟩ := ih (undo e c)
      obtain ⟨h3, h4⟩ := undo_frame e c
      exact ⟨h1.trans h3, h2.trans h4⟩

/-- a revert to an id at or below the outer snapshot leaves only revisions older than the outer snapshot -/
theorem Stack.find_low {J id B n l i j older} (h : Stack J id B n l) (hi : i ≤ id)
    (hf : findRev i l = some (j, older)) : ∀ p ∈ older, p ∈ B := by
  induction h with
  | base _ =>
    simp only [findRev] at hf
    split at hf
    · cases hf; exact fun p hp => hp
    · exact findRev_older_sub hf
  | cons h1 _ _ ih =>
    simp only [findRev] at hf
    rw [if_neg (by omega)] at hf
    exact ih hf

theorem Gone_step (cfg : Cfg) {c c' : Ctx} (h : Gone c c') (s : Step) : Gone c (stepCtx cfg c' s) := by
  cases s with
  | op o =>
    obtain ⟨hr, hx⟩ := applyOp_frame cfg c' o
    simp only [stepCtx, Gone]; rw [hr, hx]; exact h
  | snap =>
    refine ⟨?_, Nat.lt_succ_of_lt h.2⟩
    intro p hp
    simp only [stepCtx, snapshot] at hp
    rcases List.mem_cons.mp hp with hp | hp
    · subst hp; exact Nat.ne_of_gt h.2
    · exact h.1 p hp
  | revert i =>
    simp only [stepCtx, revertTo]
    cases hf : findRev i c'.st.revs with
    | none => exact h
    | some q =>
      obtain ⟨j, older⟩ := q
      obtain ⟨_, hx⟩ := revertJournal_frame j c'.st.journal c'
      refine ⟨fun p hp => h.1 p (findRev_older_sub hf p hp), ?_⟩
      simp only [Option.getD_some]
      rw [hx]; exact h.2

theorem Inv_step_any (cfg : Cfg) {c c' : Ctx} (hw : WF c.st) (hB : ∀ p ∈ c.st.revs, p.1 < c.st.nextRev) (h : Inv c c') (s : Step)
    (hs : match s with
      | .op o => SafeOp c' o
      | _ => True) : Inv c (stepCtx cfg c' s) ∨ Gone c (stepCtx cfg c' s) := by
  cases s with
  | op o => exact Or.inl (Inv_step cfg hw hB h (.op o) hs trivial)
  | snap => exact Or.inl (Inv_step cfg hw hB h .snap trivial trivial)
  | revert i =>
    by_cases hi : c.st.nextRev < i
    · exact Or.inl (Inv_step cfg hw hB h (.revert i) trivial hi)
    · simp only [stepCtx, revertTo]
      cases hf : findRev i c'.st.revs with
      | none => exact Or.inl h
      | some q =>
        obtain ⟨j, older⟩ := q
        right
        obtain ⟨_, hx⟩ := revertJournal_frame j c'.st.journal c'
        have hlow := h.stack.find_low (Nat.le_of_not_lt hi) hf
        refine ⟨fun p hp => Nat.ne_of_lt (hB p (hlow p hp)), ?_⟩
        simp only [Option.getD_some]
        rw [hx]; exact h.next

theorem InvG_run (cfg : Cfg) {c : Ctx} (hw : WF c.st) (hB : ∀ p ∈ c.st.revs, p.1 < c.st.nextRev) (steps : List Step) :
    ∀ c', (Inv c c' ∨ Gone c c') → Safe cfg c' steps → (Inv c (run cfg c' steps) ∨ Gone c (run cfg c' steps)) := by
  induction steps with
  | nil => intro c' h _; exact h
  | cons s rest ih =>
    intro c' h hs
    show Inv c (run cfg (stepCtx cfg c' s) rest) ∨ Gone c (run cfg (stepCtx cfg c' s) rest)
    refine ih _ ?_ hs.2
    rcases h with h | h
    · exact Inv_step_any cfg hw hB h s (by cases s <;> first | exact hs.1 | trivial)
    · exact Or.inr (Gone_step cfg h s)

/-- from the invariant: the outer revert succeeds and is exact -/
theorem Inv_final {c cf : Ctx} (h : Inv c cf) : ∃ c2, revertTo cf c.st.nextRev = some c2 ∧ obs c2 = obs c := by
  obtain ⟨es, hes, habs⟩ := h.ext.jr
  have hf := h.stack.find_outer
  simp only [revertTo, hf]
  refine ⟨_, rfl, ?_⟩
  have hrj := revertJournal_split es c.st.journal cf
  rw [← hes] at hrj
  rw [hrj]
  have : obs { undoList es cf with st := { (undoList es cf).st with journal := c.st.journal, revs := c.st.revs } } = obs (undoList es cf) := rfl
  rw [this]
  exact obs_of_abs habs

theorem Gone_final {c cf : Ctx} (h : Gone c cf) : revertTo cf c.st.nextRev = none := by
  simp [revertTo, findRev_none_of_absent h.1]

/-- **C09, first clause, arbitrary revision ids.**  Whatever ids the intermediate `RevertToSnapshot` calls use (each either panics
without effect or reverts), the outer `RevertToSnapshot(id)` panics or restores every observable to its value at `Snapshot()`. -/
theorem revert_exact_any (cfg : Cfg) (c : Ctx) (hw : WF c.st) (hB : ∀ p ∈ c.st.revs, p.1 < c.st.nextRev) (steps : List Step)
    (hs : Safe cfg (snapshot c).1 steps) :
    revertTo (run cfg (snapshot c).1 steps) (snapshot c).2 = none ∨
    ∃ c2, revertTo (run cfg (snapshot c).1 steps) (snapshot c).2 = some c2 ∧ obs c2 = obs c := by
  have h0 : Inv c (snapshot c).1 :=
    ⟨Ext.neutral ⟨rfl, fun _ => Or.inl rfl⟩ rfl rfl, .base (Nat.le_refl _), Nat.lt_succ_self _⟩
  rcases InvG_run cfg hw hB steps _ (Or.inl h0) hs with h | h
  · exact Or.inr (Inv_final h)
  · exact Or.inl (Gone_final h)

end Props.C09
