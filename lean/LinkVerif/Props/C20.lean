/-
C20 — contract execution is metered, atomic and crash-free: theorems about the metering skeleton `Model.Evm`
over the jump table extracted from vm/evm/jump_table.go (`Gen.EvmTable.rows`).

Opcode semantics are parameters (`Sem`); what is proved is what `Interpreter.Run` and the `evm.Call…` wrappers do
with gas, pc, the stack bound, snapshots and the `Issued` channel, for EVERY instantiation of the parameters.
-/
import LinkVerif.Model.Evm

namespace Props.C20
open Model.Evm Gen.EvmTable

set_option maxRecDepth 4000

/-! ## facts about the extracted table (re-checked by `decide` whenever jump_table.go changes) -/

/-- every entry that leaves the pc alone (`jumps`) is priced by a constant ≥ 1 and does not enter a frame:
    the frameMeasure argument of `frame_terminates` rests on this -/
theorem jumps_priced : rows.all (fun r => !r.jumps || ((match r.gasConst with | some c => decide (1 ≤ c) | none => false) && !entersFrame r)) = true := by
  decide

/-- ISSUE is a state-modifying entry, so a read-only frame cannot send on the `Issued` channel -/
theorem issue_writes : rows.all (fun r => !isIssue r || r.writes) = true := by decide

/-- opcode 0 (what `GetOp` returns past the end of the code) halts -/
theorem op0_halts : (match lookup 0 with | some r => r.halts | none => false) = true := by decide

/-- no entry grows the stack by more than one word -/
theorem push_at_most_one_more : rows.all (fun r => decide (r.push ≤ r.pop + 1)) = true := by decide

/-- the six frame-entering entries neither halt nor revert nor jump -/
theorem call_ops_continue : rows.all (fun r => !entersFrame r || (!r.halts && !r.reverts && !r.jumps)) = true := by decide

/-- the stipend a value call hands to the callee is covered by CallValueTransferGas, which the caller pays -/
theorem stipend_le_transfer : callStipend ≤ callValueTransferGas := by decide

/-- `callGas` takes the 63/64 branch (`gasTable.CreateBySuicide > 0`) -/
theorem create_by_suicide_pos : 0 < gtCreateBySuicide := by decide

theorem lookup_mem {op : Nat} {r : Row} (h : lookup op = some r) : r ∈ rows := by
  unfold lookup at h
  exact List.mem_of_find?_eq_some h

theorem jumps_cost_pos {r : Row} (hr : r ∈ rows) (hj : r.jumps = true) : ∃ c, r.gasConst = some c ∧ 1 ≤ c := by
  have h := List.all_eq_true.mp jumps_priced r hr
  simp [hj] at h
  cases hc : r.gasConst with
  | none => simp [hc] at h
  | some c => exact ⟨c, rfl, by simpa [hc] using h.1⟩

/-! ## gas: monotone and bounded -/

variable {W L : Type}

/-- the law every call wrapper is shown to satisfy (`gas_bounded`): it hands back at most the gas it was handed -/
def SubOk (sub : SubCall W) : Prop := ∀ req ro g, (sub req ro g).gas ≤ req.fwd

def stepGas : StepRes W L → Nat
  | .cont f => f.gas
  | .halt r => r.gas

theorem finishStep_gas (r : Row) (f : Frame W L) (g : Nat) (l' : L) (w' : W) (pc' : Nat) (gl : Glob) (wk : Nat) (i : Bool) :
    stepGas (finishStep r f g l' w' pc' gl wk i) = g := by
  unfold finishStep
  repeat' split
  all_goals rfl

theorem failHere_gas (f : Frame W L) (gl : Glob) : stepGas (failHere f gl) = f.gas := rfl

/-- **call-family gas discipline, part 1** (`callGas`, the rule the code uses): the gas reserved for the callee is at most
    all but one 64th of what is left after the base price -/
theorem callGas_63_64 (avail base requested : Nat) (hb : base ≤ avail) (ha : avail < 2 ^ 64) :
    callGasU64 avail base requested ≤ (avail - base) - (avail - base) / 64 := by
  unfold callGasU64
  have h1 : base % 2 ^ 64 = base := Nat.mod_eq_of_lt (by omega)
  have h2 : (avail + 2 ^ 64 - base) % 2 ^ 64 = avail - base := by
    have : avail + 2 ^ 64 - base = (avail - base) + 2 ^ 64 := by omega
    rw [this, Nat.add_mod_right]
    exact Nat.mod_eq_of_lt (by omega)
  simp only [h1, h2]
  split <;> omega

/-- whatever the operands, `callGas` never reserves more than the wrapped difference it computed -/
theorem callGas_le_requested_or_cap (avail base requested : Nat) :
    callGasU64 avail base requested ≤ requested ∨ 2 ^ 64 ≤ requested ∨
      callGasU64 avail base requested < requested := by
  unfold callGasU64
  simp only []
  split <;> omega

theorem createTake_le (r : Row) (g : Nat) : createTake r g ≤ g := by
  unfold createTake; split <;> omega

/-- the base price of a call covers the stipend and the fee it records -/
theorem callBase_covers (hv : Bool) (fee extra : Nat) : stipendOf hv + fee ≤ callBase hv fee extra := by
  have := stipend_le_transfer
  unfold callBase stipendOf
  split <;> omega

theorem stepPlain_gas_le (sem : Sem W L) (sub : SubCall W) (hs : SubOk sub) (f : Frame W L) (r : Row) :
    stepGas (stepPlain sem sub f r) ≤ f.gas := by
  unfold stepPlain
  split
  · simp [failHere_gas]
  · simp only []
    split
    · simp [failHere_gas]
    · split
      · simp only [stepGas]; omega
      · simp only [stepGas]; omega
      · simp only [finishStep_gas]; omega
      · split
        · simp [failHere_gas]
        · simp only [finishStep_gas]
          refine Nat.le_trans (Nat.add_le_add_left (hs _ _ _) _) ?_
          simp only []
          have := createTake_le r (f.gas - plainCost r ‹Nat› (plainFee sem f r))
          omega

/-- **call-family gas discipline, part 2**: the callee gets `callGasTemp` (+ the stipend for a value call), which the
    step has charged as part of `base + callGasTemp`; what comes back is at most that (`SubOk`), so the caller's gas
    does not grow — derived from the code's rule, no clamp -/
theorem stepCall_gas_le (sem : Sem W L) (sub : SubCall W) (hs : SubOk sub) (f : Frame W L) (r : Row) :
    stepGas (stepCall sem sub f r) ≤ f.gas := by
  unfold stepCall
  split
  · simp [failHere_gas]
  · simp only []
    split
    · simp [failHere_gas]
    · split
      · simp [failHere_gas]
      · split
        · simp only [stepGas]; omega
        · simp only [stepGas]; omega
        · simp only [finishStep_gas]; omega
        · simp only [finishStep_gas]
          refine Nat.le_trans (Nat.add_le_add_left (hs _ _ _) _) ?_
          simp only []
          have := callBase_covers (sem.callHasValue r f.l) (callFee r (sem.callHasValue r f.l) ‹CallArgs›) (‹CallArgs›).extra
          omega

/-- **gas_monotone** (one step): whatever the opcode does, the frame's gas does not grow -/
theorem step_gas_le (sem : Sem W L) (sub : SubCall W) (hs : SubOk sub) (f : Frame W L) :
    stepGas (step sem sub f) ≤ f.gas := by
  unfold step
  repeat' split
  all_goals first
    | exact stepCall_gas_le sem sub hs f _
    | exact stepPlain_gas_le sem sub hs f _
    | simp [failHere_gas]

/-- **gas_bounded** (per frame): the gas a frame ends with is at most the gas it started with -/
theorem runFrame_gas_le (sem : Sem W L) (sub : SubCall W) (hs : SubOk sub) :
    ∀ (n : Nat) (f : Frame W L), (runFrame sem sub n f).gas ≤ f.gas := by
  intro n
  induction n with
  | zero => intro f; simp [runFrame]
  | succ n ih =>
    intro f
    have h := step_gas_le sem sub hs f
    unfold runFrame
    split
    · rename_i r hr; simpa [hr, stepGas] using h
    · rename_i f' hr
      have h2 : f'.gas ≤ f.gas := by simpa [hr, stepGas] using h
      exact Nat.le_trans (ih f') h2

theorem afterDeposit_gas_le (req : CallReq W) (r : FrameRes W) : (afterDeposit req r).gas ≤ r.gas := by
  unfold afterDeposit
  repeat' split
  all_goals (try simp only [])
  all_goals omega

theorem afterSelect_gas (sem : Sem W L) (J : Journal W) (st : Bool) (sim : W → Glob → FrameRes W) (r : FrameRes W) :
    (afterSelect sem J st sim r).gas = r.gas := by
  unfold afterSelect
  simp only []
  repeat' split
  all_goals rfl

theorem settle_gas_le (J : Journal W) (s : J.Snap) (r : FrameRes W) : (settle J s r).gas ≤ r.gas := by
  unfold settle
  repeat' split
  all_goals simp

/-- **gas_bounded** (per call tree): `evm.Call/CallCode/DelegateCall/StaticCall/create` at any depth return at most
    the gas they were given — including the frames below them, the code deposit and the decimals() call.  By induction
    on the depth budget: each level uses the bound of the level below for `contract.Gas += returnGas`. -/
theorem callBody_gas_le (sem : Sem W L) (J : Journal W) (sg : Nat) (sub : SubCall W) (hs : SubOk sub) : SubOk (callBody sem J sg sub) := by
  intro req ro g
  unfold callBody
  split
  · split <;> simp
  · refine Nat.le_trans (settle_gas_le _ _ _) ?_
    rw [afterSelect_gas]
    refine Nat.le_trans (afterDeposit_gas_le _ _) ?_
    exact runFrame_gas_le sem _ hs _ _

theorem callAt_subOk (sem : Sem W L) (J : Journal W) : ∀ n, SubOk (callAt sem J n) := by
  intro n
  induction n with
  | zero => intro req ro g; simp [callAt]
  | succ n ih => exact callBody_gas_le sem J simulateGas _ ih

theorem gas_bounded (sem : Sem W L) (J : Journal W) (n : Nat) (req : CallReq W) (ro : Bool) (g : Glob) :
    (callAt sem J n req ro g).gas ≤ req.fwd := callAt_subOk sem J n req ro g


/-! ## termination -/

theorem getOp_past_end (code : List Nat) (pc : Nat) (h : code.length ≤ pc) : getOp code pc = 0 := by
  unfold getOp
  simp [List.getD, List.getElem?_eq_none h]

theorem finishStep_cont (r : Row) (f f' : Frame W L) (g : Nat) (l' : L) (w' : W) (pc' : Nat) (gl : Glob) (wk : Nat) (i : Bool)
    (h : finishStep r f g l' w' pc' gl wk i = .cont f') :
    r.halts = false ∧ f' = { f with pc := pc', gas := g, l := l', w := w', glob := gl, work := wk, issued := i } := by
  unfold finishStep at h
  split at h
  · cases h
  · split at h
    · cases h
    · rename_i hh
      cases h
      exact ⟨by simpa using hh, rfl⟩

/-- a continuing step of an entry outside the call family: the entry does not halt, the code is kept, and either the
    pc moved forward or (a jump) at least one unit of gas was paid -/
theorem stepPlain_cont (sem : Sem W L) (sub : SubCall W) (f f' : Frame W L) (r : Row) (hmem : r ∈ rows)
    (h : stepPlain sem sub f r = .cont f') :
    r.halts = false ∧ f'.code = f.code ∧ (f.pc < f'.pc ∨ f'.gas + 1 ≤ f.gas) := by
  unfold stepPlain at h
  split at h
  · cases h
  · simp only [] at h
    split at h
    · cases h
    · rename_i c0 _ hge
      split at h
      · cases h
      · cases h
      · obtain ⟨hh, hf⟩ := finishStep_cont _ _ _ _ _ _ _ _ _ _ h
        subst hf
        refine ⟨hh, rfl, ?_⟩
        simp only []
        by_cases hj : r.jumps = true
        · obtain ⟨c, hc, hc1⟩ := jumps_cost_pos hmem hj
          right
          simp only [plainCost, hc] at hge ⊢
          omega
        · left
          simp only [hj]
          simp
          omega
      · split at h
        · cases h
        · obtain ⟨hh, hf⟩ := finishStep_cont _ _ _ _ _ _ _ _ _ _ h
          subst hf
          refine ⟨hh, rfl, ?_⟩
          left
          simp only []
          omega

theorem stepCall_cont (sem : Sem W L) (sub : SubCall W) (f f' : Frame W L) (r : Row)
    (h : stepCall sem sub f r = .cont f') :
    r.halts = false ∧ f'.code = f.code ∧ f.pc < f'.pc := by
  unfold stepCall at h
  split at h
  · cases h
  · simp only [] at h
    split at h
    · cases h
    · split at h
      · cases h
      · split at h
        · cases h
        · cases h
        · obtain ⟨hh, hf⟩ := finishStep_cont _ _ _ _ _ _ _ _ _ _ h
          subst hf
          exact ⟨hh, rfl, by simp only []; omega⟩
        · obtain ⟨hh, hf⟩ := finishStep_cont _ _ _ _ _ _ _ _ _ _ h
          subst hf
          exact ⟨hh, rfl, by simp only []; omega⟩

/-- every continuing step: a non-halting table entry was fetched, so the pc is inside the code; the code is kept; the
    pc moved forward or gas was paid -/
theorem step_cont (sem : Sem W L) (sub : SubCall W) (f f' : Frame W L)
    (h : step sem sub f = .cont f') :
    f.pc < f.code.length ∧ f'.code = f.code ∧ (f.pc < f'.pc ∨ f'.gas + 1 ≤ f.gas) := by
  unfold step at h
  split at h
  · cases h
  · rename_i r hl
    have hmem := lookup_mem hl
    have key : r.halts = false ∧ f'.code = f.code ∧ (f.pc < f'.pc ∨ f'.gas + 1 ≤ f.gas) := by
      split at h
      · cases h
      · split at h
        · cases h
        · split at h
          · obtain ⟨a, b, c⟩ := stepCall_cont sem sub f f' r h
            exact ⟨a, b, Or.inl c⟩
          · exact stepPlain_cont sem sub f f' r hmem h
    refine ⟨?_, key.2⟩
    apply Classical.byContradiction
    intro hge
    have h0 := getOp_past_end f.code f.pc (Nat.le_of_not_lt hge)
    rw [h0] at hl
    have h1 := op0_halts
    simp [hl, key.1] at h1

/-- a step that continues strictly decreases `(gas, |code| - pc)` -/
theorem step_measure_lt (sem : Sem W L) (sub : SubCall W) (hs : SubOk sub) (f f' : Frame W L)
    (h : step sem sub f = .cont f') : frameMeasure f' < frameMeasure f := by
  have hgas : f'.gas ≤ f.gas := by simpa [h, stepGas] using step_gas_le sem sub hs f
  obtain ⟨hp, hc, hfw⟩ := step_cont sem sub f f' h
  simp only [frameMeasure, hc]
  rcases hfw with hfw | hfw
  · have := Nat.mul_le_mul_right (f.code.length + 1) hgas
    generalize f'.gas * (f.code.length + 1) = X at *
    generalize f.gas * (f.code.length + 1) = Y at *
    omega
  · have := Nat.mul_le_mul_right (f.code.length + 1) hfw
    rw [Nat.add_mul] at this
    generalize f'.gas * (f.code.length + 1) = X at *
    generalize f.gas * (f.code.length + 1) = Y at *
    omega

theorem finishStep_halt_status (r : Row) (f : Frame W L) (g : Nat) (l' : L) (w' : W) (pc' : Nat) (gl : Glob) (wk : Nat)
    (i : Bool) (res : FrameRes W) (h : finishStep r f g l' w' pc' gl wk i = .halt res) : res.status ≠ .outOfFuel := by
  unfold finishStep at h
  repeat' split at h
  all_goals (cases h; try simp)

theorem halt_status (sem : Sem W L) (sub : SubCall W) (f : Frame W L) (res : FrameRes W)
    (h : step sem sub f = .halt res) : res.status ≠ .outOfFuel := by
  unfold step stepCall stepPlain failHere at h
  simp only [] at h
  repeat' split at h
  all_goals first
    | exact finishStep_halt_status _ _ _ _ _ _ _ _ _ _ h
    | (cases h; simp)

/-- **terminates** (one frame): with fuel above the measure `gas·(|code|+1) + (|code| − pc)` the loop ends by itself,
    for every code, gas and opcode semantics (the frames below only have to respect `SubOk`) -/
theorem frame_terminates (sem : Sem W L) (sub : SubCall W) (hs : SubOk sub) :
    ∀ (n : Nat) (f : Frame W L), frameMeasure f < n → (runFrame sem sub n f).status ≠ .outOfFuel := by
  intro n
  induction n with
  | zero => intro f h; omega
  | succ n ih =>
    intro f hm
    unfold runFrame
    split
    · rename_i r hr; exact halt_status sem sub f r hr
    · rename_i f' hr
      have := step_measure_lt sem sub hs f f' hr
      exact ih f' (by omega)

theorem fuelFor_enough (code : List Nat) (gas : Nat) (l : L) (w : W) (st : Bool) (gl : Glob) (wk : Nat) (i : Bool) :
    frameMeasure ({ code := code, pc := 0, gas := gas, l := l, w := w, static := st, glob := gl, work := wk, issued := i } : Frame W L)
      < fuelFor code gas := by
  simp only [frameMeasure, fuelFor]; omega

theorem afterDeposit_status (req : CallReq W) (r : FrameRes W) (h : r.status ≠ .outOfFuel) :
    (afterDeposit req r).status ≠ .outOfFuel := by
  unfold afterDeposit
  repeat' split
  all_goals simp_all

theorem afterSelect_status (sem : Sem W L) (J : Journal W) (st : Bool) (sim : W → Glob → FrameRes W) (r : FrameRes W)
    (h : r.status ≠ .outOfFuel) : (afterSelect sem J st sim r).status ≠ .outOfFuel := by
  unfold afterSelect
  simp only []
  repeat' split
  all_goals simp_all

theorem settle_status (J : Journal W) (s : J.Snap) (r : FrameRes W) : (settle J s r).status = r.status := by
  unfold settle
  repeat' split
  all_goals simp_all

/-- **terminates** (whole call tree): a call wrapper at any depth budget returns ok / reverted / failed — the fuel the
    model computes from `(gas, |code|)` is never exhausted.  Depth is bounded by the budget (`CallCreateDepth`), each
    level by `frame_terminates` with the level below as `sub`. -/
theorem call_tree_terminates (sem : Sem W L) (J : Journal W) (n : Nat) (req : CallReq W) (ro : Bool) (g : Glob) :
    (callAt sem J n req ro g).status ≠ .outOfFuel := by
  cases n with
  | zero => simp [callAt]
  | succ n =>
    show (callBody sem J simulateGas (callAt sem J n) req ro g).status ≠ .outOfFuel
    unfold callBody
    split
    · simp
    · rw [settle_status]
      apply afterSelect_status
      apply afterDeposit_status
      exact frame_terminates sem _ (callAt_subOk sem J n) _ _ (fuelFor_enough _ _ _ _ _ _ _ _)

/-! ## atomicity -/

/-- the journal law C20 rests on (it is C09's theorem, taken here as an explicit hypothesis): reverting to the
    snapshot taken at `w0` restores everything observable of `w0`, whatever happened since -/
structure JournalLaw (J : Journal W) {O : Type} (obs : W → O) : Prop where
  revert_restores : ∀ w0 w, obs (J.revertTo w (J.snap w0)) = obs w0

theorem settle_world (J : Journal W) (s : J.Snap) (r : FrameRes W) (h : (settle J s r).status ≠ .ok) :
    (settle J s r).world = J.revertTo r.world s := by
  unfold settle at h ⊢
  repeat' split
  all_goals simp_all

/-- **frame_atomic**: a call frame that does not end ok — error, out of gas, REVERT, failed code deposit, refused
    transfer, depth limit, or a decimals() answer that does not decode — leaves the observable world exactly as it
    was when the wrapper was entered (value transfer and account creation happen after the snapshot) -/
theorem frame_atomic (sem : Sem W L) (J : Journal W) {O : Type} (obs : W → O) (law : JournalLaw J obs)
    (n : Nat) (req : CallReq W) (ro : Bool) (t : Glob)
    (h : (callAt sem J n req ro t).status ≠ .ok) :
    obs (callAt sem J n req ro t).world = obs req.world := by
  cases n with
  | zero => simp [callAt]
  | succ n =>
    change (callBody sem J simulateGas (callAt sem J n) req ro t).status ≠ .ok at h
    show obs (callBody sem J simulateGas (callAt sem J n) req ro t).world = obs req.world
    unfold callBody at h ⊢
    split
    · simp
    · rename_i href
      simp only [href] at h
      rw [settle_world _ _ _ h]
      exact law.revert_restores _ _

/-- **value_stays_with_caller**: whatever is read off the observable world — in particular the caller's balance — is
    the same after a failed call as before it: value sent into a failing frame is back with the caller -/
theorem value_stays_with_caller (sem : Sem W L) (J : Journal W) {O : Type} (obs : W → O) (law : JournalLaw J obs)
    (balanceOfCaller : O → Nat) (n : Nat) (req : CallReq W) (ro : Bool) (t : Glob)
    (h : (callAt sem J n req ro t).status ≠ .ok) :
    balanceOfCaller (obs (callAt sem J n req ro t).world) = balanceOfCaller (obs req.world) := by
  rw [frame_atomic sem J obs law n req ro t h]

/-! ## stack bounds -/

/-- the law of `execute` (instructions.go): an entry that finds its `pop` operands pops them and pushes `push` words;
    a fresh frame starts with an empty stack -/
structure StackLaw (sem : Sem W L) : Prop where
  fresh : sem.stackLen sem.l0 = 0
  next : ∀ r pc g l w l' w' j, r.pop ≤ sem.stackLen l → sem.exec r pc g l w = .next l' w' j →
    sem.stackLen l' + r.pop = sem.stackLen l + r.push
  call : ∀ r pc g l w req k, r.pop ≤ sem.stackLen l → sem.exec r pc g l w = .call req k →
    ∀ res, sem.stackLen (k res) + r.pop = sem.stackLen l + r.push

theorem stepPlain_stack (sem : Sem W L) (law : StackLaw sem) (sub : SubCall W) (f f' : Frame W L) (r : Row)
    (hok : stackOk r (sem.stackLen f.l) = true) (h : stepPlain sem sub f r = .cont f') :
    sem.stackLen f'.l ≤ stackLimit := by
  have hok' : r.pop ≤ sem.stackLen f.l ∧ sem.stackLen f.l + r.push ≤ stackLimit + r.pop := by
    simpa [stackOk] using hok
  unfold stepPlain at h
  split at h
  · cases h
  · simp only [] at h
    split at h
    · cases h
    · split at h
      · cases h
      · cases h
      · rename_i hex
        have := law.next _ _ _ _ _ _ _ _ hok'.1 hex
        obtain ⟨_, hf⟩ := finishStep_cont _ _ _ _ _ _ _ _ _ _ h
        subst hf
        simp only []
        omega
      · rename_i hex
        split at h
        · cases h
        · obtain ⟨_, hf⟩ := finishStep_cont _ _ _ _ _ _ _ _ _ _ h
          subst hf
          have hc := law.call _ _ _ _ _ _ _ hok'.1 hex
          simp only []
          apply Nat.le_of_add_le_add_right (b := r.pop)
          rw [hc]
          omega

theorem stepCall_stack (sem : Sem W L) (law : StackLaw sem) (sub : SubCall W) (f f' : Frame W L) (r : Row)
    (hok : stackOk r (sem.stackLen f.l) = true) (h : stepCall sem sub f r = .cont f') :
    sem.stackLen f'.l ≤ stackLimit := by
  have hok' : r.pop ≤ sem.stackLen f.l ∧ sem.stackLen f.l + r.push ≤ stackLimit + r.pop := by
    simpa [stackOk] using hok
  unfold stepCall at h
  split at h
  · cases h
  · simp only [] at h
    split at h
    · cases h
    · split at h
      · cases h
      · split at h
        · cases h
        · cases h
        · rename_i hex
          have := law.next _ _ _ _ _ _ _ _ hok'.1 hex
          obtain ⟨_, hf⟩ := finishStep_cont _ _ _ _ _ _ _ _ _ _ h
          subst hf
          simp only []
          omega
        · rename_i hex
          obtain ⟨_, hf⟩ := finishStep_cont _ _ _ _ _ _ _ _ _ _ h
          subst hf
          have hc := law.call _ _ _ _ _ _ _ hok'.1 hex
          simp only []
          apply Nat.le_of_add_le_add_right (b := r.pop)
          rw [hc]
          omega

/-- **stack_bounds_respected** (one step, through `execute`): after every continuing step of every frame the stack holds
    at most `StackLimit` words — from the table's pops/pushes and the `validateStack` rule -/
theorem stack_limit_step (sem : Sem W L) (law : StackLaw sem) (sub : SubCall W) (f f' : Frame W L)
    (h : step sem sub f = .cont f') : sem.stackLen f'.l ≤ stackLimit := by
  unfold step at h
  split at h
  · cases h
  · split at h
    · cases h
    · rename_i hok
      have hok' : stackOk ‹Row› (sem.stackLen f.l) = true := by simpa using hok
      split at h
      · cases h
      · split at h
        · exact stepCall_stack sem law sub f f' _ hok' h
        · exact stepPlain_stack sem law sub f f' _ hok' h

/-- the frame states reachable from `f0` by interpreter steps -/
inductive Reach (sem : Sem W L) (sub : SubCall W) (f0 : Frame W L) : Frame W L → Prop
  | start : Reach sem sub f0 f0
  | next {f f'} : Reach sem sub f0 f → step sem sub f = .cont f' → Reach sem sub f0 f'

/-- **stack_bounds_respected** (every frame, every step): starting from the empty stack of a fresh frame, the stack
    never exceeds `StackLimit`, whatever the code and the frames below do -/
theorem stack_limit_invariant (sem : Sem W L) (law : StackLaw sem) (sub : SubCall W) (f0 f : Frame W L)
    (h0 : f0.l = sem.l0) (hr : Reach sem sub f0 f) : sem.stackLen f.l ≤ stackLimit := by
  induction hr with
  | start => rw [h0, law.fresh]; exact Nat.zero_le _
  | next _ hs _ => exact stack_limit_step sem law sub _ _ hs

/-- **stack_bounds_respected** (no underflow): an entry whose `pop` exceeds the stack never reaches `execute` — the
    frame fails with its gas untouched by this step -/
theorem underflow_fails (sem : Sem W L) (sub : SubCall W) (f : Frame W L) (r : Row)
    (hl : lookup (getOp f.code f.pc) = some r) (hu : sem.stackLen f.l < r.pop) :
    step sem sub f = failHere f f.glob := by
  unfold step
  simp only [hl]
  have : stackOk r (sem.stackLen f.l) = false := by
    simp [stackOk]; intro h; omega
  simp [this]

/-- **stack_bounds_respected** (no overflow): an entry that would lift the stack above `StackLimit` fails likewise -/
theorem overflow_fails (sem : Sem W L) (sub : SubCall W) (f : Frame W L) (r : Row)
    (hl : lookup (getOp f.code f.pc) = some r) (ho : stackLimit + r.pop < sem.stackLen f.l + r.push) :
    step sem sub f = failHere f f.glob := by
  unfold step
  simp only [hl]
  have : stackOk r (sem.stackLen f.l) = false := by
    simp [stackOk]; intro _; omega
  simp [this]

/-- an opcode outside the table ends the frame as failed (no crash, no execution) -/
theorem invalid_op_fails (sem : Sem W L) (sub : SubCall W) (f : Frame W L)
    (hl : lookup (getOp f.code f.pc) = none) :
    step sem sub f = failHere f f.glob := by
  unfold step
  simp only [hl]

/-! ## projections of a step result -/

def stepGlob : StepRes W L → Glob
  | .cont f => f.glob
  | .halt r => r.glob
def stepIssued : StepRes W L → Bool
  | .cont f => f.issued
  | .halt r => r.issued
def stepWork : StepRes W L → Nat
  | .cont f => f.work
  | .halt r => r.work
/-- `Σ evm.fees + Σ evm.refundFees` = `RefundAllFee()` -/
def ledger (g : Glob) : Nat := g.fees + g.refunds
/-- the gas a frame result is worth to its caller: a failed frame's gas is burnt by the wrapper -/
def resGas (r : FrameRes W) : Nat := if r.status == .ok || r.status == .reverted then r.gas else 0
def effGas : StepRes W L → Nat
  | .cont f => f.gas
  | .halt r => resGas r

theorem finishStep_proj (r : Row) (f : Frame W L) (g : Nat) (l' : L) (w' : W) (pc' : Nat) (gl : Glob) (wk : Nat) (i : Bool) :
    stepGlob (finishStep r f g l' w' pc' gl wk i) = gl ∧ stepIssued (finishStep r f g l' w' pc' gl wk i) = i ∧
    stepWork (finishStep r f g l' w' pc' gl wk i) = wk ∧ effGas (finishStep r f g l' w' pc' gl wk i) = g := by
  unfold finishStep
  repeat' split
  all_goals simp [stepGlob, stepIssued, stepWork, effGas, resGas]

theorem failHere_proj (f : Frame W L) (gl : Glob) :
    stepGlob (failHere f gl) = gl ∧ stepIssued (failHere f gl) = f.issued ∧ stepWork (failHere f gl) = f.work ∧
    effGas (failHere f gl) = 0 := by
  simp [failHere, stepGlob, stepIssued, stepWork, effGas, resGas]

theorem moveToRefunds_ledger (r : Row) (b : Bool) (before : Nat) (g : Glob) :
    ledger (moveToRefunds r b before g) = ledger g ∧ (moveToRefunds r b before g).iss = g.iss := by
  unfold moveToRefunds ledger
  split
  · refine ⟨?_, rfl⟩
    simp only []
    omega
  · exact ⟨rfl, rfl⟩

theorem oogLedger_bound (g : Glob) (gas cost fee : Nat) :
    ledger (oogLedger g gas cost fee) ≤ ledger g + gas ∧ (oogLedger g gas cost fee).iss = g.iss ∧
    (fee = 0 → oogLedger g gas cost fee = g) := by
  unfold oogLedger ledger
  split
  · rename_i h
    refine ⟨?_, rfl, ?_⟩
    · simp only []; omega
    · intro h0; omega
  · exact ⟨by omega, rfl, fun _ => rfl⟩

theorem plainFee_le_cost (sem : Sem W L) (f : Frame W L) (r : Row) (c0 : Nat) :
    plainFee sem f r ≤ plainCost r c0 (plainFee sem f r) := by
  unfold plainFee plainCost
  split <;> simp

theorem plainFee_static (sem : Sem W L) (f : Frame W L) (r : Row) (hw : r.writes = false) : plainFee sem f r = 0 := by
  unfold plainFee
  split <;> simp [hw]

theorem callFee_static (r : Row) (hv : Bool) (a : CallArgs) (h : (isPlainCallOp r && hv) = false) : callFee r hv a = 0 := by
  unfold callFee
  simp [h]

/-! ## read-only frames: no state-modifying entry executes, and read-only is inherited by every sub-frame -/

/-- **static_blocks_writes**: in a read-only frame an entry with `writes = true` never reaches its gas function or
    `execute`: the frame fails on the spot (`enforceRestrictions`) -/
theorem static_blocks_writes (sem : Sem W L) (sub : SubCall W) (f : Frame W L) (r : Row)
    (hl : lookup (getOp f.code f.pc) = some r) (hs : f.static = true) (hw : r.writes = true) :
    step sem sub f = failHere f f.glob := by
  unfold step
  simp only [hl]
  split
  · rfl
  · simp [hs, hw]

/-- likewise a CALL that carries value -/
theorem static_blocks_value_call (sem : Sem W L) (sub : SubCall W) (f : Frame W L) (r : Row)
    (hl : lookup (getOp f.code f.pc) = some r) (hs : f.static = true) (hc : isPlainCallOp r = true)
    (hv : sem.callHasValue r f.l = true) : step sem sub f = failHere f f.glob := by
  unfold step
  simp only [hl]
  split
  · rfl
  · simp [hs, hc, hv]

/-- the read-only flag of a frame never changes -/
theorem step_keeps_static (sem : Sem W L) (sub : SubCall W) (f f' : Frame W L)
    (h : step sem sub f = .cont f') : f'.static = f.static := by
  unfold step stepCall stepPlain failHere at h
  simp only [] at h
  repeat' split at h
  all_goals first
    | (cases h; done)
    | (obtain ⟨_, hf⟩ := finishStep_cont _ _ _ _ _ _ _ _ _ _ h; subst hf; rfl)

/-- what a wrapper entered from a read-only frame guarantees: the fee ledger's total is untouched and no ISSUE ran -/
def SubStatic (sub : SubCall W) : Prop :=
  ∀ req g, ledger (sub req true g).glob = ledger g ∧ (sub req true g).issued = false

theorem stepPlain_static (sem : Sem W L) (sub : SubCall W) (hsub : SubStatic sub) (f : Frame W L) (r : Row)
    (hs : f.static = true) (hw : r.writes = false) (hi : isIssue r = false) :
    ledger (stepGlob (stepPlain sem sub f r)) = ledger f.glob ∧ stepIssued (stepPlain sem sub f r) = f.issued := by
  have hfee := plainFee_static sem f r hw
  unfold stepPlain
  split
  · simp [failHere_proj]
  · simp only [hfee]
    split
    · simp [failHere_proj, (oogLedger_bound _ _ _ 0).2.2 rfl]
    · split
      · simp [stepGlob, stepIssued, ledger]
      · simp [stepGlob, stepIssued, ledger]
      · simp [finishStep_proj, hi, ledger]
      · split
        · simp [failHere_proj]
        · simp only [finishStep_proj, hs]
          refine ⟨(hsub _ _).1.trans ?_, by rw [(hsub _ _).2]; simp⟩
          simp [ledger]

theorem stepCall_static (sem : Sem W L) (sub : SubCall W) (hsub : SubStatic sub) (f : Frame W L) (r : Row)
    (hs : f.static = true) (hcv : (isPlainCallOp r && sem.callHasValue r f.l) = false) :
    ledger (stepGlob (stepCall sem sub f r)) = ledger f.glob ∧ stepIssued (stepCall sem sub f r) = f.issued := by
  unfold stepCall
  split
  · simp [failHere_proj]
  · rename_i a _
    have hfee := callFee_static r (sem.callHasValue r f.l) a hcv
    simp only [hfee]
    split
    · simp [failHere_proj]
    · split
      · simp [failHere_proj, (oogLedger_bound _ _ _ 0).2.2 rfl]
      · split
        · simp [stepGlob, stepIssued, ledger]
        · simp [stepGlob, stepIssued, ledger]
        · simp [finishStep_proj, ledger]
        · simp only [finishStep_proj, hs, (moveToRefunds_ledger _ _ _ _).1]
          refine ⟨(hsub _ _).1.trans ?_, by rw [(hsub _ _).2]; simp⟩
          simp [ledger]

theorem step_static (sem : Sem W L) (sub : SubCall W) (hsub : SubStatic sub) (f : Frame W L) (hs : f.static = true) :
    ledger (stepGlob (step sem sub f)) = ledger f.glob ∧ stepIssued (step sem sub f) = f.issued := by
  unfold step
  split
  · simp [failHere_proj]
  · rename_i r hl
    split
    · simp [failHere_proj]
    · split
      · simp [failHere_proj]
      · rename_i hguard
        simp only [hs, Bool.true_and, Bool.or_eq_true, not_or, Bool.not_eq_true] at hguard
        split
        · exact stepCall_static sem sub hsub f r hs hguard.2
        · have hi : isIssue r = false := by
            have := List.all_eq_true.mp issue_writes r (lookup_mem hl)
            simp [hguard.1] at this
            simpa using this
          exact stepPlain_static sem sub hsub f r hs hguard.1 hi

theorem runFrame_static (sem : Sem W L) (sub : SubCall W) (hsub : SubStatic sub) :
    ∀ (n : Nat) (f : Frame W L), f.static = true →
      ledger (runFrame sem sub n f).glob = ledger f.glob ∧ (runFrame sem sub n f).issued = f.issued := by
  intro n
  induction n with
  | zero => intro f _; simp [runFrame]
  | succ n ih =>
    intro f hs
    have h := step_static sem sub hsub f hs
    unfold runFrame
    split
    · rename_i r hr; simpa [hr, stepGlob, stepIssued] using h
    · rename_i f' hr
      have hs' : f'.static = true := by rw [step_keeps_static sem sub f f' hr]; exact hs
      have h2 := ih f' hs'
      simp only [hr, stepGlob, stepIssued] at h
      exact ⟨h2.1.trans h.1, h2.2.trans h.2⟩

theorem afterDeposit_keeps (req : CallReq W) (r : FrameRes W) :
    (afterDeposit req r).glob = r.glob ∧ (afterDeposit req r).issued = r.issued ∧ (afterDeposit req r).work = r.work ∧
    resGas (afterDeposit req r) ≤ resGas r := by
  unfold afterDeposit resGas
  repeat' split
  all_goals simp_all
  all_goals omega

theorem settle_keeps (J : Journal W) (s : J.Snap) (r : FrameRes W) :
    (settle J s r).glob = r.glob ∧ (settle J s r).issued = r.issued ∧ (settle J s r).work = r.work ∧
    (settle J s r).gas = resGas r := by
  unfold settle resGas
  repeat' split
  all_goals simp_all

/-- the decimals() frame is read-only: it leaves the ledger total alone (and cannot ISSUE) -/
theorem afterSelect_ledger (sem : Sem W L) (J : Journal W) (st : Bool) (sim : W → Glob → FrameRes W) (r : FrameRes W)
    (hsim : ∀ w g, ledger (sim w g).glob = ledger g) :
    ledger (afterSelect sem J st sim r).glob = ledger r.glob ∧ resGas (afterSelect sem J st sim r) ≤ resGas r := by
  unfold afterSelect
  simp only []
  split
  · rename_i htr
    have hok : r.status = .ok := by simp at htr; exact htr.2
    have h := hsim r.world { r.glob with iss := some false }
    have hl : ledger ({ (sim r.world { r.glob with iss := some false }).glob with iss := none } : Glob) = ledger r.glob := by
      simpa [ledger] using h
    repeat' split
    all_goals exact ⟨hl, by simp [resGas, hok]⟩
  · simp [ledger, resGas]

theorem afterSelect_issued (sem : Sem W L) (J : Journal W) (st : Bool) (sim : W → Glob → FrameRes W) (r : FrameRes W)
    (hsim : ∀ w g, (sim w g).issued = false) : (afterSelect sem J st sim r).issued = r.issued := by
  unfold afterSelect
  simp only []
  repeat' split
  all_goals simp [hsim]

/-- a fresh read-only frame: ledger total untouched, no ISSUE (given the same of the frames below) -/
theorem runFresh_static (sem : Sem W L) (sub : SubCall W) (hsub : SubStatic sub) (code : List Nat) (gas : Nat) (w : W) (g : Glob) :
    ledger (runFresh sem sub code gas w true g).glob = ledger g ∧ (runFresh sem sub code gas w true g).issued = false := by
  unfold runFresh
  exact runFrame_static sem sub hsub _ _ rfl

/-- the tail of a call wrapper (deposit, select, settle) keeps "ledger total untouched, no ISSUE" when the decimals()
    frame does -/
theorem pipeline_static (sem : Sem W L) (J : Journal W) (req : CallReq W) (s : J.Snap) (sim : W → Glob → FrameRes W)
    (hsim : ∀ w gl, ledger (sim w gl).glob = ledger gl ∧ (sim w gl).issued = false)
    (g : Glob) (r0 : FrameRes W) (h0 : ledger r0.glob = ledger g ∧ r0.issued = false) :
    ledger (settle J s (afterSelect sem J req.static sim (afterDeposit req r0))).glob = ledger g ∧
    (settle J s (afterSelect sem J req.static sim (afterDeposit req r0))).issued = false := by
  have hd := afterDeposit_keeps req r0
  have hsel := afterSelect_ledger sem J req.static sim (afterDeposit req r0) (fun w gl => (hsim w gl).1)
  have hiss := afterSelect_issued sem J req.static sim (afterDeposit req r0) (fun w gl => (hsim w gl).2)
  have hk := settle_keeps J s (afterSelect sem J req.static sim (afterDeposit req r0))
  constructor
  · exact (congrArg ledger hk.1).trans (hsel.1.trans ((congrArg ledger hd.1).trans h0.1))
  · exact hk.2.1.trans (hiss.trans (hd.2.1.trans h0.2))

/-- one level of **read-only inheritance**: a wrapper entered with `ro = true` runs its frame (and the decimals() frame)
    read-only, whatever the call kind (`req.static` or not, create or call) -/
theorem callBody_static (sem : Sem W L) (J : Journal W) (sg : Nat) (sub : SubCall W) (hsub : SubStatic sub) :
    SubStatic (callBody sem J sg sub) := by
  intro req g
  have h0 := runFresh_static sem sub hsub req.code req.fwd (req.enter req.world) g
  have key := pipeline_static sem J req (J.snap req.world)
      (fun w g => runFresh sem sub (req.simCode w) sg w true g)
      (fun w gl => runFresh_static sem sub hsub (req.simCode w) sg w gl) g _ h0
  unfold callBody
  split
  · exact ⟨rfl, rfl⟩
  · exact key

/-- **read-only is inherited** over the whole depth budget: a wrapper entered from a read-only frame runs its frame
    read-only, and so does every frame below it; consequently the fee ledger's total is untouched (value calls,
    SELFDESTRUCT and TRANSFERTOKEN are the only entries that record fees, all blocked) and no ISSUE executes -/
theorem callAt_static (sem : Sem W L) (J : Journal W) : ∀ n, SubStatic (callAt sem J n) := by
  intro n
  induction n with
  | zero => intro req g; exact ⟨rfl, rfl⟩
  | succ n ih => exact callBody_static sem J simulateGas _ ih

/-- **readonly_tree_never_issues** -/
theorem readonly_tree_never_issues (sem : Sem W L) (J : Journal W) (n : Nat) (req : CallReq W) (g : Glob) :
    (callAt sem J n req true g).issued = false := (callAt_static sem J n req g).2

theorem readonly_tree_keeps_ledger (sem : Sem W L) (J : Journal W) (n : Nat) (req : CallReq W) (g : Glob) :
    ledger (callAt sem J n req true g).glob = ledger g := (callAt_static sem J n req g).1

/-! ## fees_le_consumed: the fee ledger never records more than the gas that was consumed -/

/-- what a wrapper guarantees about the ledger: what it adds to `Σ fees + Σ refundFees`, plus the gas it hands back, is
    at most the gas it was handed -/
def SubFees (sub : SubCall W) : Prop :=
  ∀ req ro g, ledger (sub req ro g).glob + (sub req ro g).gas ≤ ledger g + req.fwd

theorem add_shift {a b t g1 X : Nat} (h : a + b ≤ X + t) (ht : t ≤ g1) : a + (g1 - t + b) ≤ X + g1 := by omega
theorem add_shift2 {a b t g1 X : Nat} (h : a + b ≤ X + t) : a + (g1 + b) ≤ X + t + g1 := by omega

theorem ledger_iss (c : Bool) (g : Glob) (t : Token) : ledger (if c then { g with iss := t } else g) = ledger g := by
  split <;> rfl

theorem ledger_add_fee (g : Glob) (fee : Nat) : ledger { g with fees := g.fees + fee } = ledger g + fee := by
  simp only [ledger]; omega

theorem stepPlain_fees (sem : Sem W L) (sub : SubCall W) (hsub : SubFees sub) (f : Frame W L) (r : Row) :
    ledger (stepGlob (stepPlain sem sub f r)) + effGas (stepPlain sem sub f r) ≤ ledger f.glob + f.gas := by
  unfold stepPlain
  split
  · rw [(failHere_proj _ _).1, (failHere_proj _ _).2.2.2]; omega
  · rename_i c0 _
    have hfc := plainFee_le_cost sem f r c0
    simp only []
    split
    · rw [(failHere_proj _ _).1, (failHere_proj _ _).2.2.2]
      have := (oogLedger_bound f.glob f.gas (plainCost r c0 (plainFee sem f r)) (plainFee sem f r)).1
      omega
    · split
      · simp only [stepGlob, effGas, resGas, ledger]
        simp
        omega
      · simp only [stepGlob, effGas, resGas, ledger]
        simp
        omega
      · rw [(finishStep_proj _ _ _ _ _ _ _ _ _).1, (finishStep_proj _ _ _ _ _ _ _ _ _).2.2.2]
        split <;> (simp only [ledger]; omega)
      · split
        · rw [(failHere_proj _ _).1, (failHere_proj _ _).2.2.2]; omega
        · rw [(finishStep_proj _ _ _ _ _ _ _ _ _).1, (finishStep_proj _ _ _ _ _ _ _ _ _).2.2.2]
          refine Nat.le_trans (add_shift (hsub _ _ _) ?_) ?_
          · exact createTake_le _ _
          · simp only [ledger]; omega

theorem stepCall_fees (sem : Sem W L) (sub : SubCall W) (hsub : SubFees sub) (f : Frame W L) (r : Row) :
    ledger (stepGlob (stepCall sem sub f r)) + effGas (stepCall sem sub f r) ≤ ledger f.glob + f.gas := by
  unfold stepCall
  split
  · rw [(failHere_proj _ _).1, (failHere_proj _ _).2.2.2]; omega
  · rename_i a _
    have hcov := callBase_covers (sem.callHasValue r f.l) (callFee r (sem.callHasValue r f.l) a) a.extra
    simp only []
    split
    · rw [(failHere_proj _ _).1, (failHere_proj _ _).2.2.2]; omega
    · split
      · rw [(failHere_proj _ _).1, (failHere_proj _ _).2.2.2]
        have := (oogLedger_bound f.glob f.gas (callBase (sem.callHasValue r f.l) (callFee r (sem.callHasValue r f.l) a) a.extra +
          callGasU64 f.gas (callBase (sem.callHasValue r f.l) (callFee r (sem.callHasValue r f.l) a) a.extra) a.requested)
          (callFee r (sem.callHasValue r f.l) a)).1
        omega
      · split
        · simp only [stepGlob, effGas, resGas, ledger]
          simp
          omega
        · simp only [stepGlob, effGas, resGas, ledger]
          simp
          omega
        · rw [(finishStep_proj _ _ _ _ _ _ _ _ _).1, (finishStep_proj _ _ _ _ _ _ _ _ _).2.2.2]
          simp only [ledger]; omega
        · rw [(finishStep_proj _ _ _ _ _ _ _ _ _).1, (finishStep_proj _ _ _ _ _ _ _ _ _).2.2.2, (moveToRefunds_ledger _ _ _ _).1]
          refine Nat.le_trans (add_shift2 (hsub _ _ _)) ?_
          simp only [ledger]
          omega

theorem step_fees (sem : Sem W L) (sub : SubCall W) (hsub : SubFees sub) (f : Frame W L) :
    ledger (stepGlob (step sem sub f)) + effGas (step sem sub f) ≤ ledger f.glob + f.gas := by
  unfold step
  repeat' split
  all_goals first
    | exact stepCall_fees sem sub hsub f _
    | exact stepPlain_fees sem sub hsub f _
    | (rw [(failHere_proj _ _).1, (failHere_proj _ _).2.2.2]; omega)

/-- per frame: fees recorded during the frame + the gas the frame is worth to its caller ≤ the gas it started with -/
theorem runFrame_fees (sem : Sem W L) (sub : SubCall W) (hsub : SubFees sub) :
    ∀ (n : Nat) (f : Frame W L), ledger (runFrame sem sub n f).glob + resGas (runFrame sem sub n f) ≤ ledger f.glob + f.gas := by
  intro n
  induction n with
  | zero => intro f; simp [runFrame, resGas]
  | succ n ih =>
    intro f
    have h := step_fees sem sub hsub f
    unfold runFrame
    split
    · rename_i r hr; simpa [hr, stepGlob, effGas] using h
    · rename_i f' hr
      simp only [hr, stepGlob, effGas] at h
      exact Nat.le_trans (ih f') h

theorem pipeline_fees (sem : Sem W L) (J : Journal W) (req : CallReq W) (s : J.Snap) (sim : W → Glob → FrameRes W)
    (hsim : ∀ w gl, ledger (sim w gl).glob = ledger gl) (r0 : FrameRes W) :
    ledger (settle J s (afterSelect sem J req.static sim (afterDeposit req r0))).glob +
      (settle J s (afterSelect sem J req.static sim (afterDeposit req r0))).gas ≤ ledger r0.glob + resGas r0 := by
  have hd := afterDeposit_keeps req r0
  have hsel := afterSelect_ledger sem J req.static sim (afterDeposit req r0) hsim
  have hk := settle_keeps J s (afterSelect sem J req.static sim (afterDeposit req r0))
  rw [hk.1, hk.2.2.2, hsel.1, hd.1]
  have := hsel.2
  have := hd.2.2.2
  omega

theorem callBody_fees (sem : Sem W L) (J : Journal W) (sg : Nat) (sub : SubCall W) (hsub : SubFees sub) (hst : SubStatic sub) :
    SubFees (callBody sem J sg sub) := by
  intro req ro g
  have h0 := runFrame_fees sem sub hsub (fuelFor req.code req.fwd)
    { code := req.code, pc := 0, gas := req.fwd, l := sem.l0, w := req.enter req.world, static := (ro || req.static), glob := g, work := 0, issued := false }
  have key := pipeline_fees sem J req (J.snap req.world) (fun w g => runFresh sem sub (req.simCode w) sg w true g)
    (fun w gl => (runFresh_static sem sub hst (req.simCode w) sg w gl).1)
    (runFresh sem sub req.code req.fwd (req.enter req.world) (ro || req.static) g)
  unfold callBody
  split
  · simp only []
    split <;> omega
  · exact Nat.le_trans key h0

/-- **fees_le_consumed** (whole call tree): for `evm.Call/CallCode/DelegateCall/StaticCall/create` at any depth, what the
    call adds to the fee ledger (`Σ evm.fees + Σ evm.refundFees` = `RefundAllFee()`) plus the gas it hands back is at most
    the gas it was given — so `tx.Gas += RefundFee()` (success) and `tx.Gas += RefundAllFee()` (failure) in
    app/state_transition.go can never lift the gas above what was bought, and `InitialGas - Gas` cannot wrap -/
theorem callAt_fees (sem : Sem W L) (J : Journal W) : ∀ n, SubFees (callAt sem J n) := by
  intro n
  induction n with
  | zero => intro req ro g; exact Nat.le_refl _
  | succ n ih => exact callBody_fees sem J simulateGas _ ih (callAt_static sem J n)

theorem fees_le_consumed (sem : Sem W L) (J : Journal W) (n : Nat) (req : CallReq W) (ro : Bool) (t : Token) :
    (callAt sem J n req ro { iss := t }).gas + (callAt sem J n req ro { iss := t }).glob.refunds +
      (callAt sem J n req ro { iss := t }).glob.fees ≤ req.fwd := by
  have := callAt_fees sem J n req ro { iss := t }
  simp only [ledger] at this
  omega

/-! ## metering without ISSUE: work + gas left ≤ gas given -/

/-- what a wrapper guarantees when it is entered with an empty `Issued` channel and no ISSUE is executed in its call
    tree: the gas of the steps executed plus the gas handed back is at most the gas it was handed, and the channel is
    still empty -/
def SubWork (sub : SubCall W) : Prop :=
  ∀ req ro g, g.iss = none → (sub req ro g).issued = false →
    (sub req ro g).work + (sub req ro g).gas ≤ req.fwd ∧ (sub req ro g).glob.iss = none

theorem stepPlain_work (sem : Sem W L) (sub : SubCall W) (hsub : SubWork sub) (f : Frame W L) (r : Row)
    (hn : f.glob.iss = none) :
    stepIssued (stepPlain sem sub f r) = false →
      stepWork (stepPlain sem sub f r) + stepGas (stepPlain sem sub f r) ≤ f.work + f.gas ∧
      (stepGlob (stepPlain sem sub f r)).iss = none := by
  unfold stepPlain
  split
  · rw [(failHere_proj _ _).1, (failHere_proj _ _).2.2.1, failHere_gas]
    intro _; exact ⟨Nat.le_refl _, hn⟩
  · rename_i c0 _
    simp only []
    split
    · rw [(failHere_proj _ _).1, (failHere_proj _ _).2.2.1, failHere_gas, (oogLedger_bound _ _ _ _).2.1]
      intro _; exact ⟨Nat.le_refl _, hn⟩
    · split
      · simp only [stepIssued, stepWork, stepGas, stepGlob]
        intro _; exact ⟨by omega, hn⟩
      · simp only [stepIssued, stepWork, stepGas, stepGlob]
        intro _; exact ⟨by omega, hn⟩
      · rw [(finishStep_proj _ _ _ _ _ _ _ _ _).1, (finishStep_proj _ _ _ _ _ _ _ _ _).2.1,
          (finishStep_proj _ _ _ _ _ _ _ _ _).2.2.1, finishStep_gas]
        intro hI
        have hi : isIssue r = false := by
          cases h : isIssue r <;> simp_all
        simp only [hi]
        exact ⟨by omega, hn⟩
      · split
        · rw [(failHere_proj _ _).1, (failHere_proj _ _).2.2.1, failHere_gas]
          intro _; exact ⟨Nat.le_refl _, hn⟩
        · rw [(finishStep_proj _ _ _ _ _ _ _ _ _).1, (finishStep_proj _ _ _ _ _ _ _ _ _).2.1,
            (finishStep_proj _ _ _ _ _ _ _ _ _).2.2.1, finishStep_gas]
          intro hI
          have hres : (sub { ‹CallReq W› with fwd := createTake r (f.gas - plainCost r c0 (plainFee sem f r)) } f.static
              { f.glob with fees := f.glob.fees + plainFee sem f r }).issued = false := by
            revert hI; cases f.issued <;> simp
          have key := fun hg => hsub _ _ _ hg hres
          obtain ⟨hw, hi⟩ := key hn
          have := createTake_le r (f.gas - plainCost r c0 (plainFee sem f r))
          simp only [] at hw
          exact ⟨by omega, hi⟩

theorem stepCall_work (sem : Sem W L) (sub : SubCall W) (hsub : SubWork sub) (f : Frame W L) (r : Row)
    (hn : f.glob.iss = none) :
    stepIssued (stepCall sem sub f r) = false →
      stepWork (stepCall sem sub f r) + stepGas (stepCall sem sub f r) ≤ f.work + f.gas ∧
      (stepGlob (stepCall sem sub f r)).iss = none := by
  unfold stepCall
  split
  · rw [(failHere_proj _ _).1, (failHere_proj _ _).2.2.1, failHere_gas]
    intro _; exact ⟨Nat.le_refl _, hn⟩
  · rename_i a _
    have hcov := callBase_covers (sem.callHasValue r f.l) (callFee r (sem.callHasValue r f.l) a) a.extra
    simp only []
    split
    · rw [(failHere_proj _ _).1, (failHere_proj _ _).2.2.1, failHere_gas]
      intro _; exact ⟨Nat.le_refl _, hn⟩
    · split
      · rw [(failHere_proj _ _).1, (failHere_proj _ _).2.2.1, failHere_gas, (oogLedger_bound _ _ _ _).2.1]
        intro _; exact ⟨Nat.le_refl _, hn⟩
      · split
        · simp only [stepIssued, stepWork, stepGas, stepGlob]
          intro _; exact ⟨by omega, hn⟩
        · simp only [stepIssued, stepWork, stepGas, stepGlob]
          intro _; exact ⟨by omega, hn⟩
        · rw [(finishStep_proj _ _ _ _ _ _ _ _ _).1, (finishStep_proj _ _ _ _ _ _ _ _ _).2.1,
            (finishStep_proj _ _ _ _ _ _ _ _ _).2.2.1, finishStep_gas]
          intro _; exact ⟨by omega, hn⟩
        · rw [(finishStep_proj _ _ _ _ _ _ _ _ _).1, (finishStep_proj _ _ _ _ _ _ _ _ _).2.1,
            (finishStep_proj _ _ _ _ _ _ _ _ _).2.2.1, finishStep_gas, (moveToRefunds_ledger _ _ _ _).2]
          intro hI
          have hres : (sub { ‹CallReq W› with fwd := callGasU64 f.gas (callBase (sem.callHasValue r f.l) (callFee r (sem.callHasValue r f.l) a) a.extra) a.requested + stipendOf (sem.callHasValue r f.l) } f.static
              { f.glob with fees := f.glob.fees + callFee r (sem.callHasValue r f.l) a }).issued = false := by
            revert hI; cases f.issued <;> simp
          have key := fun hg => hsub _ _ _ hg hres
          obtain ⟨hw, hi⟩ := key hn
          simp only [] at hw
          exact ⟨by omega, hi⟩

theorem step_work (sem : Sem W L) (sub : SubCall W) (hsub : SubWork sub) (f : Frame W L) (hn : f.glob.iss = none) :
    stepIssued (step sem sub f) = false →
      stepWork (step sem sub f) + stepGas (step sem sub f) ≤ f.work + f.gas ∧ (stepGlob (step sem sub f)).iss = none := by
  unfold step
  repeat' split
  all_goals first
    | exact stepCall_work sem sub hsub f _ hn
    | exact stepPlain_work sem sub hsub f _ hn
    | (rw [(failHere_proj _ _).1, (failHere_proj _ _).2.2.1, failHere_gas]; intro _; exact ⟨Nat.le_refl _, hn⟩)

/-- the `issued` flag is sticky: once set it stays set (so a run that ends with it clear never had it set) -/
theorem step_issued_mono (sem : Sem W L) (sub : SubCall W) (f : Frame W L) (h : f.issued = true) :
    stepIssued (step sem sub f) = true := by
  unfold step stepCall stepPlain
  simp only []
  repeat' split
  all_goals first
    | (rw [(failHere_proj _ _).2.1]; exact h)
    | (rw [(finishStep_proj _ _ _ _ _ _ _ _ _).2.1]; simp [h])
    | simp [stepIssued, h]

theorem runFrame_issued_mono (sem : Sem W L) (sub : SubCall W) :
    ∀ (n : Nat) (f : Frame W L), f.issued = true → (runFrame sem sub n f).issued = true := by
  intro n
  induction n with
  | zero => intro f h; simpa [runFrame] using h
  | succ n ih =>
    intro f h
    have hs := step_issued_mono sem sub f h
    unfold runFrame
    split
    · rename_i r hr; simpa [hr, stepIssued] using hs
    · rename_i f' hr
      exact ih f' (by simpa [hr, stepIssued] using hs)

theorem runFrame_work (sem : Sem W L) (sub : SubCall W) (hsub : SubWork sub) :
    ∀ (n : Nat) (f : Frame W L), f.glob.iss = none → (runFrame sem sub n f).issued = false →
      (runFrame sem sub n f).work + (runFrame sem sub n f).gas ≤ f.work + f.gas ∧ (runFrame sem sub n f).glob.iss = none := by
  intro n
  induction n with
  | zero => intro f hn _; simp [runFrame, hn]
  | succ n ih =>
    intro f hn
    have h := step_work sem sub hsub f hn
    unfold runFrame
    split
    · rename_i r hr
      intro hI
      simpa [hr, stepIssued, stepWork, stepGas, stepGlob] using h (by simpa [hr, stepIssued] using hI)
    · rename_i f' hr
      intro hI
      have hf' : f'.issued = false := by
        cases hfi : f'.issued with
        | false => rfl
        | true => rw [runFrame_issued_mono sem sub n f' hfi] at hI; cases hI
      have h1 := h (by simpa [hr, stepIssued] using hf')
      simp only [hr, stepWork, stepGas, stepGlob] at h1
      have h2 := ih f' h1.2 hI
      exact ⟨by omega, h2.2⟩

theorem afterSelect_of_empty (sem : Sem W L) (J : Journal W) (st : Bool) (sim : W → Glob → FrameRes W) (r : FrameRes W)
    (h : r.glob.iss = none) : afterSelect sem J st sim r = r := by
  cases r with
  | mk s g w gl wk i =>
    cases gl with
    | mk t fe re =>
      simp only [] at h
      subst h
      simp [afterSelect, triggersRate]

theorem afterSelect_issued_imp (sem : Sem W L) (J : Journal W) (st : Bool) (sim : W → Glob → FrameRes W) (r : FrameRes W)
    (h : (afterSelect sem J st sim r).issued = false) : r.issued = false := by
  unfold afterSelect at h
  simp only [] at h
  repeat' split at h
  all_goals simp_all

theorem callBody_work (sem : Sem W L) (J : Journal W) (sg : Nat) (sub : SubCall W) (hsub : SubWork sub) :
    SubWork (callBody sem J sg sub) := by
  intro req ro g hn
  have h0 := runFrame_work sem sub hsub (fuelFor req.code req.fwd)
    { code := req.code, pc := 0, gas := req.fwd, l := sem.l0, w := req.enter req.world, static := (ro || req.static), glob := g, work := 0, issued := false } hn
  unfold callBody
  split
  · intro _; simp only []; exact ⟨by split <;> omega, hn⟩
  · intro hI
    rw [(settle_keeps _ _ _).2.1] at hI
    have hI1 := afterSelect_issued_imp _ _ _ _ _ hI
    rw [(afterDeposit_keeps _ _).2.1] at hI1
    have h1 := h0 hI1
    simp only [Nat.zero_add] at h1
    have hd := afterDeposit_keeps req (runFresh sem sub req.code req.fwd (req.enter req.world) (ro || req.static) g)
    have hdg := afterDeposit_gas_le req (runFresh sem sub req.code req.fwd (req.enter req.world) (ro || req.static) g)
    have hempty : (afterDeposit req (runFresh sem sub req.code req.fwd (req.enter req.world) (ro || req.static) g)).glob.iss = none := by
      rw [hd.1]; exact h1.2
    rw [afterSelect_of_empty _ _ _ _ _ hempty]
    have hk := settle_keeps J (J.snap req.world) (afterDeposit req (runFresh sem sub req.code req.fwd (req.enter req.world) (ro || req.static) g))
    have hsg := settle_gas_le J (J.snap req.world) (afterDeposit req (runFresh sem sub req.code req.fwd (req.enter req.world) (ro || req.static) g))
    rw [hk.1, hk.2.2.1, hd.2.2.1]
    refine ⟨?_, hempty⟩
    have : (runFresh sem sub req.code req.fwd (req.enter req.world) (ro || req.static) g).work +
        (runFresh sem sub req.code req.fwd (req.enter req.world) (ro || req.static) g).gas ≤ req.fwd := h1.1
    omega

theorem callAt_work (sem : Sem W L) (J : Journal W) : ∀ n, SubWork (callAt sem J n) := by
  intro n
  induction n with
  | zero => intro req ro g hn _; exact ⟨by simp [callAt], hn⟩
  | succ n ih => exact callBody_work sem J simulateGas _ ih

/-- **metered without ISSUE** (the strengthened partial of `C20_metered_statement`): for `evm.Call/…/create` at any
    depth, entered with an empty `Issued` channel, if no ISSUE step is executed anywhere in the call tree then the gas
    of all steps the interpreter executed plus the gas handed back is at most the gas given (the un-metered decimals()
    call is the ONLY leak), and the channel is still empty afterwards -/
theorem metered_without_issue (sem : Sem W L) (J : Journal W) (n : Nat) (req : CallReq W) (ro : Bool) (g : Glob)
    (hempty : g.iss = none) (hno : (callAt sem J n req ro g).issued = false) :
    (callAt sem J n req ro g).work + (callAt sem J n req ro g).gas ≤ req.fwd ∧ (callAt sem J n req ro g).glob.iss = none :=
  callAt_work sem J n req ro g hempty hno

/-! ## the fee ledger's out-of-gas rule -/

/-- when a fee-carrying step cannot be paid, the ledger entry is replaced by at most the gas the frame still has
    (all of which the failing frame then burns): `Σ fees` after the rule ≤ `Σ` of the other entries + `gas` -/
theorem oogFees_bounded (rest : List Nat) (fee gas cost : Nat) :
    (oogFees (rest ++ [fee]) gas cost).sum ≤ rest.sum + gas := by
  unfold oogFees
  simp only [List.reverse_append, List.reverse_cons, List.reverse_nil, List.nil_append, List.singleton_append,
    List.reverse_reverse]
  split
  · simp [List.sum_append]
    try omega
  · simp

/-! ## non-vacuity: a concrete instantiation (the "work counter" semantics) -/

/-- stack = its length; the world counts the gas of every step that was executed (it is never reverted, so it
    measures the work the interpreter did); dynamic prices are 0; no op enters a frame -/
def workSem : Sem Nat Nat where
  stackLen := id
  gasCost := fun _ _ _ _ => some 0
  fee := fun _ _ _ => 0
  callArgs := fun _ _ _ => some { fee := 0, extra := 0, requested := 0 }
  callHasValue := fun _ _ => false
  exec := fun r _ _ l w => .next (l - r.pop + r.push) (w + (r.gasConst.getD 0)) none
  l0 := 0
  rateOk := fun s _ => s == .ok

def workJ : Journal Nat := { Snap := Unit, snap := fun _ => (), revertTo := fun w _ => w }

/-- `PUSH1 1; ISSUE; STOP` called with exactly the gas it needs -/
def issueReq : CallReq Nat :=
  { fwd := 25003, world := 0, refuse := none, enter := id, code := [0x60, 1, 0xe0, 0x00], static := false,
    finish := fun g w => some (g, w), simCode := fun _ => [0x60, 1, 0xe0, 0x00] }

example : (callAt workSem workJ 2 issueReq false {}).gas ≤ issueReq.fwd := gas_bounded _ _ _ _ _ _
example : (callAt workSem workJ 2 issueReq false {}).status ≠ .outOfFuel := call_tree_terminates _ _ _ _ _ _

/-- a journal with full-copy snapshots satisfies the law (so `frame_atomic` is not vacuous) -/
def copyJ : Journal Nat := { Snap := Nat, snap := id, revertTo := fun _ s => s }
example : JournalLaw copyJ (fun w => w) := ⟨fun _ _ => rfl⟩

/-! ## metering: the full statement is FALSE of the current code (finding `unmetered-decimals-call`) -/

/-- a plain message call of `code` with `gas` in the work-counter semantics (the world counts the gas of the steps
    actually executed and is never reverted) -/
def plainReq (code : List Nat) (gas : Nat) : CallReq Nat :=
  { fwd := gas, world := 0, refuse := none, enter := id, code := code, static := false,
    finish := fun g w => some (g, w), simCode := fun _ => code }

/-- full statement: the interpreter never executes more gas worth of steps than the call was given -/
def C20_metered_statement : Prop :=
  ∀ (code : List Nat) (gas depth : Nat), (callAt workSem workJ depth (plainReq code gas) false {}).world ≤ gas

/-- `PUSH1 1; ISSUE; STOP` with exactly the 25003 gas it costs: after the frame returns ok the wrapper drains the
    `Issued` token and runs the contract again, read-only, with `staticCallSimulateGas` = 10^10 gas that nobody paid
    for; the steps of that second run (here one PUSH1 before ISSUE hits the write protection) are extra work -/
theorem C20_metered_counterexample : ¬ C20_metered_statement := by
  intro h
  have := h [0x60, 1, 0xe0, 0x00] 25003 1
  revert this
  decide

/-- what does hold: the GAS ACCOUNT is sound (`gas_bounded`, `frame_terminates`, `call_tree_terminates`); and without a
    pending token the wrapper's select does nothing, so the extra work comes only from `GetUTXOChangeRate` -/
theorem C20_metered_partial (sem : Sem W L) (J : Journal W) (st : Bool) (sim : W → Glob → FrameRes W) (r : FrameRes W)
    (h : r.glob.iss = none) : afterSelect sem J st sim r = r := by
  cases r with
  | mk s g w gl wk i =>
    cases gl with
    | mk t fe re =>
      simp only [] at h
      subst h
      simp [afterSelect, triggersRate]

/-! ## non-vacuity of the laws used as hypotheses -/

example : StackLaw workSem :=
  ⟨rfl,
   by intro r pc g l w l' w' j hp h; simp [workSem] at h hp ⊢; omega,
   by intro r pc g l w req k _ h; simp [workSem] at h⟩

/-- the wrapper that refuses everything is a (trivial) `SubOk` / `SubStatic` instance; the real ones are `callAt`
    (`callAt_subOk`) -/
example : SubOk (fun (req : CallReq Nat) _ g => ({ status := .failed, gas := req.fwd, world := req.world, glob := g, work := 0, issued := false } : CallRes Nat)) := by
  intro req ro g; simp

example : SubStatic (fun (req : CallReq Nat) _ g => ({ status := .failed, gas := req.fwd, world := req.world, glob := g, work := 0, issued := false } : CallRes Nat)) := by
  intro req g; simp

example : callGasU64 6400 0 (2 ^ 200) = 6300 := by decide

/-! ## non-vacuity of the round-2 theorems -/

/-- `PUSH1 1; POP; STOP` executes no ISSUE: the hypothesis of `metered_without_issue` is satisfiable, and its conclusion
    is the concrete bound 5 + 95 ≤ 100 -/
example : (callAt workSem workJ 1 (plainReq [0x60, 1, 0x50, 0x00] 100) false {}).issued = false := by decide
example : (callAt workSem workJ 1 (plainReq [0x60, 1, 0x50, 0x00] 100) false {}).work +
    (callAt workSem workJ 1 (plainReq [0x60, 1, 0x50, 0x00] 100) false {}).gas ≤ 100 :=
  (metered_without_issue workSem workJ 1 _ false {} rfl (by decide)).1
/-- with ISSUE the flag is set, so `metered_without_issue` does not apply to the counterexample program -/
example : (callAt workSem workJ 1 (plainReq [0x60, 1, 0xe0, 0x00] 25003) false {}).issued = true := by decide
example : (callAt workSem workJ 2 issueReq true {}).issued = false := readonly_tree_never_issues _ _ _ _ _
example : (callAt workSem workJ 2 issueReq false {}).gas + (callAt workSem workJ 2 issueReq false {}).glob.refunds +
    (callAt workSem workJ 2 issueReq false {}).glob.fees ≤ issueReq.fwd := fees_le_consumed _ _ _ _ _ none

end Props.C20
