/-
C20 — contract execution is metered, atomic and crash-free: theorems about the metering skeleton `Model.Evm`
over the jump table extracted from vm/evm/jump_table.go (`Gen.EvmTable.rows`).

Opcode semantics are parameters (`Sem`); what is proved is what `Interpreter.Run` and the `evm.Call…` wrappers do
with gas, pc, the stack bound, snapshots and the `Issued` channel, for EVERY instantiation of the parameters.
-/
import LinkVerif.Model.Evm

namespace Props.C20
open Model.Evm Gen.EvmTable

set_option maxRecDepth 4000

/-! ## facts about the extracted table (re-checked by `decide` whenever jump_table.go changes) -/

/-- every entry that leaves the pc alone (`jumps`) is priced by a constant ≥ 1 and does not enter a frame:
    the frameMeasure argument of `frame_terminates` rests on this -/
theorem jumps_priced : rows.all (fun r => !r.jumps || ((match r.gasConst with | some c => decide (1 ≤ c) | none => false) && !entersFrame r)) = true := by
  decide

/-- ISSUE is a state-modifying entry, so a read-only frame cannot send on the `Issued` channel -/
theorem issue_writes : rows.all (fun r => !isIssue r || r.writes) = true := by decide

/-- opcode 0 (what `GetOp` returns past the end of the code) halts -/
theorem op0_halts : (match lookup 0 with | some r => r.halts | none => false) = true := by decide

/-- no entry grows the stack by more than one word -/
theorem push_at_most_one_more : rows.all (fun r => decide (r.push ≤ r.pop + 1)) = true := by decide

/-- the six frame-entering entries neither halt nor revert nor jump -/
theorem call_ops_continue : rows.all (fun r => !entersFrame r || (!r.halts && !r.reverts && !r.jumps)) = true := by decide

theorem lookup_mem {op : Nat} {r : Row} (h : lookup op = some r) : r ∈ rows := by
  unfold lookup at h
  exact List.mem_of_find?_eq_some h

theorem jumps_cost_pos {r : Row} (hr : r ∈ rows) (hj : r.jumps = true) : ∃ c, r.gasConst = some c ∧ 1 ≤ c := by
  have h := List.all_eq_true.mp jumps_priced r hr
  simp [hj] at h
  cases hc : r.gasConst with
  | none => simp [hc] at h
  | some c => exact ⟨c, rfl, by simpa [hc] using h.1⟩

/-! ## gas: monotone and bounded -/

variable {W L : Type}

def stepGas : StepRes W L → Nat
  | .cont f => f.gas
  | .halt r => r.gas

/-- **gas_monotone** (one step): whatever the opcode and the frames below do, the frame's gas does not grow -/
theorem step_gas_le (sem : Sem W L) (sub : SubCall W) (f : Frame W L) :
    stepGas (step sem sub f) ≤ f.gas := by
  unfold step
  simp only []
  repeat' split
  all_goals simp only [stepGas]
  all_goals omega

/-- **gas_bounded** (per frame): the gas a frame ends with is at most the gas it started with -/
theorem runFrame_gas_le (sem : Sem W L) (sub : SubCall W) :
    ∀ (n : Nat) (f : Frame W L), (runFrame sem sub n f).gas ≤ f.gas := by
  intro n
  induction n with
  | zero => intro f; simp [runFrame]
  | succ n ih =>
    intro f
    have h := step_gas_le sem sub f
    unfold runFrame
    split
    · rename_i r hr; simpa [hr, stepGas] using h
    · rename_i f' hr
      have h2 : f'.gas ≤ f.gas := by simpa [hr, stepGas] using h
      exact Nat.le_trans (ih f') h2

theorem afterDeposit_gas_le (req : CallReq W) (r : FrameRes W) : (afterDeposit req r).gas ≤ r.gas := by
  unfold afterDeposit
  repeat' split
  all_goals (try simp only [])
  all_goals omega

theorem afterSelect_gas (sem : Sem W L) (J : Journal W) (st : Bool) (sim : W → FrameRes W) (r : FrameRes W) :
    (afterSelect sem J st sim r).gas = r.gas := by
  unfold afterSelect
  simp only []
  repeat' split
  all_goals rfl

theorem settle_gas_le (J : Journal W) (s : J.Snap) (r : FrameRes W) : (settle J s r).gas ≤ r.gas := by
  unfold settle
  repeat' split
  all_goals simp

/-- **gas_bounded** (per call tree): `evm.Call/CallCode/DelegateCall/StaticCall/create` at any depth return at most
    the gas they were given — including the frames below them, the code deposit and the decimals() call -/
theorem gas_bounded (sem : Sem W L) (J : Journal W) (n : Nat) (req : CallReq W) (ro : Bool) (t : Token) :
    (callAt sem J n req ro t).gas ≤ req.fwd := by
  cases n with
  | zero => simp [callAt]
  | succ n =>
    unfold callAt
    split
    · split <;> simp
    · simp only []
      refine Nat.le_trans (settle_gas_le _ _ _) ?_
      rw [afterSelect_gas]
      refine Nat.le_trans (afterDeposit_gas_le _ _) ?_
      exact runFrame_gas_le sem _ _ _

/-- so the clamp `min res.gas fwd` in `step` never bites for the real wrappers -/
theorem clamp_noop (sem : Sem W L) (J : Journal W) (n : Nat) (req : CallReq W) (ro : Bool) (t : Token) :
    min (callAt sem J n req ro t).gas req.fwd = (callAt sem J n req ro t).gas :=
  Nat.min_eq_left (gas_bounded sem J n req ro t)

/-! ## termination -/

theorem getOp_past_end (code : List Nat) (pc : Nat) (h : code.length ≤ pc) : getOp code pc = 0 := by
  unfold getOp
  simp [List.getD, List.getElem?_eq_none h]

/-- the frame states from which a step can continue: the op fetched is a non-halting table entry, so `pc` is inside
    the code -/
theorem cont_pc_inside (sem : Sem W L) (sub : SubCall W) (f f' : Frame W L)
    (h : step sem sub f = .cont f') : f.pc < f.code.length := by
  apply Classical.byContradiction
  intro hge
  have h0 := getOp_past_end f.code f.pc (Nat.le_of_not_lt hge)
  have h1 := op0_halts
  unfold step at h
  rw [h0] at h
  simp only [] at h
  split at h
  · cases h
  · rename_i r hl
    simp only [hl] at h1
    repeat' split at h
    all_goals first
      | cases h
      | simp_all

/-- pc moves forward unless the entry jumps; the code is kept -/
theorem cont_pc_forward (sem : Sem W L) (sub : SubCall W) (f f' : Frame W L)
    (h : step sem sub f = .cont f') :
    f'.code = f.code ∧ (f.pc < f'.pc ∨ f'.gas + 1 ≤ f.gas) := by
  unfold step at h
  simp only [] at h
  split at h
  · cases h
  · rename_i r hl
    have hmem := lookup_mem hl
    by_cases hj : r.jumps = true
    · obtain ⟨c, hc, hc1⟩ := jumps_cost_pos hmem hj
      have hnc : entersFrame r = false := by
        have := List.all_eq_true.mp jumps_priced r hmem
        simp [hj] at this
        exact this.2
      simp only [hc, hnc] at h
      repeat' split at h
      all_goals first
        | (cases h; done)
        | (cases h; refine ⟨rfl, ?_⟩; simp only []; omega)
        | (simp_all; done)
    · have hj' : r.jumps = false := by simpa using hj
      simp only [hj'] at h
      repeat' split at h
      all_goals first
        | (cases h; done)
        | (cases h; refine ⟨rfl, ?_⟩; simp only []; omega)
        | (simp_all; done)

/-- a step that continues strictly decreases `(gas, |code| - pc)` -/
theorem step_measure_lt (sem : Sem W L) (sub : SubCall W) (f f' : Frame W L)
    (h : step sem sub f = .cont f') : frameMeasure f' < frameMeasure f := by
  have hgas : f'.gas ≤ f.gas := by simpa [h, stepGas] using step_gas_le sem sub f
  have hp := cont_pc_inside sem sub f f' h
  obtain ⟨hc, hfw⟩ := cont_pc_forward sem sub f f' h
  simp only [frameMeasure, hc]
  rcases hfw with hfw | hfw
  · have := Nat.mul_le_mul_right (f.code.length + 1) hgas
    generalize f'.gas * (f.code.length + 1) = X at *
    generalize f.gas * (f.code.length + 1) = Y at *
    omega
  · have := Nat.mul_le_mul_right (f.code.length + 1) hfw
    rw [Nat.add_mul] at this
    generalize f'.gas * (f.code.length + 1) = X at *
    generalize f.gas * (f.code.length + 1) = Y at *
    omega

theorem halt_status (sem : Sem W L) (sub : SubCall W) (f : Frame W L) (r : FrameRes W)
    (h : step sem sub f = .halt r) : r.status ≠ .outOfFuel := by
  unfold step at h
  simp only [] at h
  repeat' split at h
  all_goals (cases h; try simp)

/-- **terminates** (one frame): with fuel above the measure `gas·(|code|+1) + (|code| − pc)` the loop ends by itself,
    for every code, gas, opcode semantics and behaviour of the frames below -/
theorem frame_terminates (sem : Sem W L) (sub : SubCall W) :
    ∀ (n : Nat) (f : Frame W L), frameMeasure f < n → (runFrame sem sub n f).status ≠ .outOfFuel := by
  intro n
  induction n with
  | zero => intro f h; omega
  | succ n ih =>
    intro f hm
    unfold runFrame
    split
    · rename_i r hr; exact halt_status sem sub f r hr
    · rename_i f' hr
      have := step_measure_lt sem sub f f' hr
      exact ih f' (by omega)

theorem fuelFor_enough (code : List Nat) (gas : Nat) (l : L) (w : W) (st : Bool) (t : Token) :
    frameMeasure ({ code := code, pc := 0, gas := gas, l := l, w := w, static := st, iss := t } : Frame W L) < fuelFor code gas := by
  simp only [frameMeasure, fuelFor]; omega

theorem afterDeposit_status (req : CallReq W) (r : FrameRes W) (h : r.status ≠ .outOfFuel) :
    (afterDeposit req r).status ≠ .outOfFuel := by
  unfold afterDeposit
  repeat' split
  all_goals simp_all

theorem afterSelect_status (sem : Sem W L) (J : Journal W) (st : Bool) (sim : W → FrameRes W) (r : FrameRes W)
    (h : r.status ≠ .outOfFuel) : (afterSelect sem J st sim r).status ≠ .outOfFuel := by
  unfold afterSelect
  simp only []
  repeat' split
  all_goals simp_all

theorem settle_status (J : Journal W) (s : J.Snap) (r : FrameRes W) : (settle J s r).status = r.status := by
  unfold settle
  repeat' split
  all_goals simp_all

/-- **terminates** (whole call tree): a call wrapper at any depth budget returns ok / reverted / failed — the fuel the
    model computes from `(gas, |code|)` is never exhausted.  Depth is bounded by the budget (`CallCreateDepth`), each
    level by `frame_terminates` with the level below as `sub`. -/
theorem call_tree_terminates (sem : Sem W L) (J : Journal W) (n : Nat) (req : CallReq W) (ro : Bool) (t : Token) :
    (callAt sem J n req ro t).status ≠ .outOfFuel := by
  cases n with
  | zero => simp [callAt]
  | succ n =>
    unfold callAt
    split
    · simp
    · simp only []
      rw [settle_status]
      apply afterSelect_status
      apply afterDeposit_status
      exact frame_terminates sem _ _ _ (fuelFor_enough _ _ _ _ _ _)

/-! ## atomicity -/

/-- the journal law C20 rests on (it is C09's theorem, taken here as an explicit hypothesis): reverting to the
    snapshot taken at `w0` restores everything observable of `w0`, whatever happened since -/
structure JournalLaw (J : Journal W) {O : Type} (obs : W → O) : Prop where
  revert_restores : ∀ w0 w, obs (J.revertTo w (J.snap w0)) = obs w0

theorem settle_world (J : Journal W) (s : J.Snap) (r : FrameRes W) (h : (settle J s r).status ≠ .ok) :
    (settle J s r).world = J.revertTo r.world s := by
  unfold settle at h ⊢
  repeat' split
  all_goals simp_all

/-- **frame_atomic**: a call frame that does not end ok — error, out of gas, REVERT, failed code deposit, refused
    transfer, depth limit, or a decimals() answer that does not decode — leaves the observable world exactly as it
    was when the wrapper was entered (value transfer and account creation happen after the snapshot) -/
theorem frame_atomic (sem : Sem W L) (J : Journal W) {O : Type} (obs : W → O) (law : JournalLaw J obs)
    (n : Nat) (req : CallReq W) (ro : Bool) (t : Token)
    (h : (callAt sem J n req ro t).status ≠ .ok) :
    obs (callAt sem J n req ro t).world = obs req.world := by
  cases n with
  | zero => simp [callAt]
  | succ n =>
    unfold callAt at h ⊢
    split
    · simp
    · rename_i href
      simp only [href] at h
      simp only [] at h ⊢
      rw [settle_world _ _ _ h]
      exact law.revert_restores _ _

/-- **value_stays_with_caller**: whatever is read off the observable world — in particular the caller's balance — is
    the same after a failed call as before it: value sent into a failing frame is back with the caller -/
theorem value_stays_with_caller (sem : Sem W L) (J : Journal W) {O : Type} (obs : W → O) (law : JournalLaw J obs)
    (balanceOfCaller : O → Nat) (n : Nat) (req : CallReq W) (ro : Bool) (t : Token)
    (h : (callAt sem J n req ro t).status ≠ .ok) :
    balanceOfCaller (obs (callAt sem J n req ro t).world) = balanceOfCaller (obs req.world) := by
  rw [frame_atomic sem J obs law n req ro t h]

/-! ## stack bounds and restrictions -/

/-- **stack_bounds_respected** (no underflow): an entry whose `pop` exceeds the stack never reaches `execute` — the
    frame fails with its gas untouched by this step -/
theorem underflow_fails (sem : Sem W L) (sub : SubCall W) (f : Frame W L) (r : Row)
    (hl : lookup (getOp f.code f.pc) = some r) (hu : sem.stackLen f.l < r.pop) :
    step sem sub f = .halt { status := .failed, gas := f.gas, world := f.w, iss := f.iss } := by
  unfold step
  simp only [hl]
  have : stackOk r (sem.stackLen f.l) = false := by
    simp [stackOk]; intro h; omega
  simp [this]

/-- **stack_bounds_respected** (no overflow): an entry that would lift the stack above `StackLimit` fails likewise -/
theorem overflow_fails (sem : Sem W L) (sub : SubCall W) (f : Frame W L) (r : Row)
    (hl : lookup (getOp f.code f.pc) = some r) (ho : stackLimit + r.pop < sem.stackLen f.l + r.push) :
    step sem sub f = .halt { status := .failed, gas := f.gas, world := f.w, iss := f.iss } := by
  unfold step
  simp only [hl]
  have : stackOk r (sem.stackLen f.l) = false := by
    simp [stackOk]; intro _; omega
  simp [this]

/-- an opcode outside the table ends the frame as failed (no crash, no execution) -/
theorem invalid_op_fails (sem : Sem W L) (sub : SubCall W) (f : Frame W L)
    (hl : lookup (getOp f.code f.pc) = none) :
    step sem sub f = .halt { status := .failed, gas := f.gas, world := f.w, iss := f.iss } := by
  unfold step
  simp only [hl]

/-! ## the fee ledger's out-of-gas rule -/

/-- when a fee-carrying step cannot be paid, the ledger entry is replaced by at most the gas the frame still has
    (all of which the failing frame then burns): `Σ fees` after the rule ≤ `Σ` of the other entries + `gas` -/
theorem oogFees_bounded (rest : List Nat) (fee gas cost : Nat) :
    (oogFees (rest ++ [fee]) gas cost).sum ≤ rest.sum + gas := by
  unfold oogFees
  simp only [List.reverse_append, List.reverse_cons, List.reverse_nil, List.nil_append, List.singleton_append,
    List.reverse_reverse]
  split
  · simp [List.sum_append]
    try omega
  · simp

/-! ## non-vacuity: a concrete instantiation (the "work counter" semantics) -/

/-- stack = its length; the world counts the gas of every step that was executed (it is never reverted, so it
    measures the work the interpreter did); dynamic prices are 0; no op enters a frame -/
def workSem : Sem Nat Nat where
  stackLen := id
  gasCost := fun _ _ _ _ => some 0
  callHasValue := fun _ _ => false
  exec := fun r _ _ l w => .next (l - r.pop + r.push) (w + (r.gasConst.getD 0)) none
  l0 := 0
  rateOk := fun s _ => s == .ok

def workJ : Journal Nat := { Snap := Unit, snap := fun _ => (), revertTo := fun w _ => w }

/-- `PUSH1 1; ISSUE; STOP` called with exactly the gas it needs -/
def issueReq : CallReq Nat :=
  { fwd := 25003, take := 0, world := 0, refuse := none, enter := id, code := [0x60, 1, 0xe0, 0x00], static := false,
    finish := fun g w => some (g, w), simCode := fun _ => [0x60, 1, 0xe0, 0x00] }

example : (callAt workSem workJ 2 issueReq false none).gas ≤ issueReq.fwd := gas_bounded _ _ _ _ _ _
example : (callAt workSem workJ 2 issueReq false none).status ≠ .outOfFuel := call_tree_terminates _ _ _ _ _ _

/-- a journal with full-copy snapshots satisfies the law (so `frame_atomic` is not vacuous) -/
def copyJ : Journal Nat := { Snap := Nat, snap := id, revertTo := fun _ s => s }
example : JournalLaw copyJ (fun w => w) := ⟨fun _ _ => rfl⟩

/-! ## metering: the full statement is FALSE of the current code (finding `unmetered-decimals-call`) -/

/-- a plain message call of `code` with `gas` in the work-counter semantics (the world counts the gas of the steps
    actually executed and is never reverted) -/
def plainReq (code : List Nat) (gas : Nat) : CallReq Nat :=
  { fwd := gas, take := 0, world := 0, refuse := none, enter := id, code := code, static := false,
    finish := fun g w => some (g, w), simCode := fun _ => code }

/-- full statement: the interpreter never executes more gas worth of steps than the call was given -/
def C20_metered_statement : Prop :=
  ∀ (code : List Nat) (gas depth : Nat), (callAt workSem workJ depth (plainReq code gas) false none).world ≤ gas

/-- `PUSH1 1; ISSUE; STOP` with exactly the 25003 gas it costs: after the frame returns ok the wrapper drains the
    `Issued` token and runs the contract again, read-only, with `staticCallSimulateGas` = 10^10 gas that nobody paid
    for; the steps of that second run (here one PUSH1 before ISSUE hits the write protection) are extra work -/
theorem C20_metered_counterexample : ¬ C20_metered_statement := by
  intro h
  have := h [0x60, 1, 0xe0, 0x00] 25003 1
  revert this
  decide

/-- what does hold: the GAS ACCOUNT is sound (`gas_bounded`, `frame_terminates`, `call_tree_terminates`); and without a
    pending token the wrapper's select does nothing, so the extra work comes only from `GetUTXOChangeRate` -/
theorem C20_metered_partial (sem : Sem W L) (J : Journal W) (st : Bool) (sim : W → FrameRes W) (r : FrameRes W)
    (h : r.iss = none) : afterSelect sem J st sim r = r := by
  cases r with
  | mk s g w i =>
    simp only [] at h
    subst h
    simp [afterSelect, triggersRate]

end Props.C20
