/-
C16 — recover proposals: `defaultSetProposal` acts on a RECOVER proposal before it verifies the signature.

Full statement (what C16 says): a proposal whose signature does not verify leaves the state unchanged.  It is FALSE of the
code: kernel-checked counterexample built from the harness witness
(`recover seed=132578107821 phase=45 prop=0 sr=0 vars=sh13.dr1.dh0.tR.snone.vh`: height 1, round 1, 8 votes held, no proposal,
13 minutes since the start time, unsigned recover proposal for round 2).  Partial statement, proved: unchanged for every
proposal that is not of recover type, and for recover proposals before the limit / for a round not above the node's / for
another height / with the recover step already set / while a proposal is held — i.e. the ONLY unsigned input that changes
the state is the shape of known finding `recover-proposal-acts-before-signature-check`.
-/
import LinkVerif.Model.PeerInput

namespace Props.C16Recover
open Model.PeerInput

/-- C16 for `defaultSetProposal`: an input that carries no valid signature leaves the state as it was -/
def unsigned_proposal_leaves_state_statement : Prop :=
  ∀ (st : ConsView) (p : ProposalIn) (elapsed : Nat) (maxParts : Int),
    p.sigOk = false → (setProposalFull st p elapsed maxParts).1 = st

/-- the node of the witness just before the delivery -/
def witnessState : ConsView :=
  { height := 1, round := 1, hasProposal := false, commitStep := false, stepRecover := false, recoverCount := 0,
    recoverSet := false, votesHeld := 8 }

/-- the unsigned recover proposal of the witness -/
def witnessProposal : ProposalIn :=
  { type := .recover, height := 1, round := 2, polRound := -1, total := 1, sigOk := false }

/-- what the real node did (harness: round 1->2, votes-held 8->0, step-recover false->true, recover 0->1), and the reply
is the signature error: the state had already changed -/
theorem witness_outcome :
    setProposalFull witnessState witnessProposal 13 673 =
      ({ height := 1, round := 2, hasProposal := false, commitStep := false, stepRecover := true, recoverCount := 1,
         recoverSet := true, votesHeld := 0 }, .rejected "ErrInvalidProposalSignature") := by decide

theorem unsigned_proposal_leaves_state_counterexample : ¬ unsigned_proposal_leaves_state_statement := by
  intro h
  have := h witnessState witnessProposal 13 673 rfl
  rw [witness_outcome] at this
  exact absurd this (by decide)

/-- the shape of the finding: recover type, recover step not yet set, no proposal held, same height, higher round, limit passed -/
def RecoverShape (st : ConsView) (p : ProposalIn) (elapsed : Nat) : Prop :=
  p.type = .recover ∧ st.stepRecover = false ∧ st.hasProposal = false ∧ p.height = st.height ∧ st.round < p.round ∧
    recoverLimit ≤ elapsed

instance (st : ConsView) (p : ProposalIn) (e : Nat) : Decidable (RecoverShape st p e) := by
  unfold RecoverShape; exact inferInstance

/-- after the recover branch is passed by, nothing is written before the signature check -/
theorem tail_unsigned_unchanged (st : ConsView) (p : ProposalIn) (maxParts : Int) (hs : p.sigOk = false) :
    (if p.height ≠ st.height ∨ p.round ≠ st.round then (st, Reply.rejected "does not apply")
     else if st.commitStep then (st, .rejected "already in commit step")
     else if p.polRound ≠ -1 ∧ (p.polRound < 0 ∨ p.round ≤ p.polRound) then (st, .rejected "ErrInvalidProposalPOLRound")
     else if p.total ≤ 0 ∨ p.total > maxParts then (st, .rejected "ErrInvalidProposalPartsHeader")
     else if !p.sigOk then (st, .rejected "ErrInvalidProposalSignature")
     else ({ st with hasProposal := true }, .accepted)).1 = st := by
  split
  · rfl
  · split
    · rfl
    · split
      · rfl
      · split
        · rfl
        · simp [hs]

/-- **partial statement**: outside the recover shape an unsigned proposal leaves the state unchanged — every non-recover
proposal, and every recover proposal before the limit, for a round not above the node's, for another height, with the
recover step already set, or while a proposal is held -/
theorem unsigned_proposal_leaves_state_partial (st : ConsView) (p : ProposalIn) (elapsed : Nat) (maxParts : Int)
    (hs : p.sigOk = false) (hshape : ¬ RecoverShape st p elapsed) :
    (setProposalFull st p elapsed maxParts).1 = st := by
  unfold setProposalFull
  by_cases hp : st.hasProposal = true
  · simp [hp]
  · have hp' : st.hasProposal = false := by cases h : st.hasProposal <;> simp_all
    simp only [hp', Bool.false_eq_true, if_false]
    by_cases hr : p.type = .recover ∧ st.stepRecover = false
    · simp only [hr, and_self, if_true]
      by_cases hm : p.height ≠ st.height ∨ p.round ≤ st.round
      · simp [hm]
      · simp only [hm, if_false]
        by_cases ht : elapsed < recoverLimit
        · simp [ht]
        · exfalso
          apply hshape
          refine ⟨hr.1, hr.2, hp', ?_, ?_, ?_⟩
          · by_cases hh : p.height = st.height
            · exact hh
            · exact absurd (Or.inl hh) hm
          · omega
          · omega
    · simp only [hr, if_false]
      exact tail_unsigned_unchanged st p maxParts hs

theorem non_recover_unsigned_unchanged (st : ConsView) (p : ProposalIn) (elapsed : Nat) (maxParts : Int)
    (hs : p.sigOk = false) (ht : p.type ≠ .recover) : (setProposalFull st p elapsed maxParts).1 = st :=
  unsigned_proposal_leaves_state_partial st p elapsed maxParts hs (fun h => ht h.1)

theorem recover_before_limit_unchanged (st : ConsView) (p : ProposalIn) (elapsed : Nat) (maxParts : Int)
    (hs : p.sigOk = false) (ht : elapsed < recoverLimit) : (setProposalFull st p elapsed maxParts).1 = st :=
  unsigned_proposal_leaves_state_partial st p elapsed maxParts hs (fun h => by have := h.2.2.2.2.2; omega)

/-- and in the shape the state ALWAYS changes, whatever the signature: the recover step is set and the votes are gone -/
theorem recover_shape_changes_state (st : ConsView) (p : ProposalIn) (elapsed : Nat) (maxParts : Int)
    (h : RecoverShape st p elapsed) :
    (setProposalFull st p elapsed maxParts).1.stepRecover = true ∧ (setProposalFull st p elapsed maxParts).1.votesHeld = 0 ∧
    (setProposalFull st p elapsed maxParts).1.round = st.round + 1 := by
  obtain ⟨h1, h2, h3, h4, h5, h6⟩ := h
  unfold setProposalFull
  have hm : ¬ (p.height ≠ st.height ∨ p.round ≤ st.round) := by
    intro hh; rcases hh with hh | hh
    · exact hh h4
    · omega
  have ht : ¬ elapsed < recoverLimit := by omega
  simp only [h3, Bool.false_eq_true, if_false, h1, h2, and_self, if_true, hm, ht]
  repeat' split
  all_goals simp

/-! ## Non-vacuity -/
example : ¬ RecoverShape witnessState { witnessProposal with type := .normal } 13 := by decide
example : RecoverShape witnessState witnessProposal 13 := by decide
example : (setProposalFull witnessState witnessProposal 11 673).1 = witnessState := by decide
example : setProposalFull witnessState { type := .normal, height := 1, round := 1, polRound := -1, total := 1, sigOk := true } 0 673
    = ({ witnessState with hasProposal := true }, .accepted) := by decide

end Props.C16Recover
