/-
C18, multiplexing: for EVERY schedule (sequence of channel choices of `sendPacketMsg`) and every fragment size, the
receiver reassembles on each channel exactly the messages that were queued on it, whole and in order.
Proof: an invariant tying sender and receiver per channel, preserved by each (send one packet; receive it) step.
-/
import LinkVerif.Model.Conn

namespace Props.C18Mux
open Model.Conn

theorem upd_same {α : Type} (f : Chan → α) (c : Chan) (v : α) : upd f c v c = v := by simp [upd]

theorem upd_other {α : Type} (f : Chan → α) (c : Chan) (v : α) (x : Chan) (h : x ≠ c) : upd f c v x = f x := by
  simp [upd, h]

theorem delsOf_append (a b : List (Chan × Bytes)) (c : Chan) : delsOf (a ++ b) c = delsOf a c ++ delsOf b c := by
  simp [delsOf]

theorem delsOf_opt_same (c : Chan) (m : Bytes) : delsOf [(c, m)] c = [m] := by simp [delsOf]

theorem delsOf_opt_other (c x : Chan) (m : Bytes) (h : x ≠ c) : delsOf [(c, m)] x = [] := by
  have : (c == x) = false := by simp [Ne.symm h]
  simp [delsOf, this]

theorem delsOf_map_same (pick : Chan) (dl : List Bytes) : delsOf (dl.map (fun m => (pick, m))) pick = dl := by
  induction dl with
  | nil => rfl
  | cons m ms ih => simp only [delsOf] at ih; simp [delsOf, ih]

theorem delsOf_map_other (pick : Chan) (dl : List Bytes) (x : Chan) (hx : x ≠ pick) :
    delsOf (dl.map (fun m => (pick, m))) x = [] := by
  have : (pick == x) = false := by simp [Ne.symm hx]
  induction dl with
  | nil => rfl
  | cons m ms ih => simp only [delsOf] at ih; simp [delsOf, this, ih]

/-- the message a channel is in the middle of: what the receiver already holds followed by what the sender still has -/
def inflight (S : Sender) (R : Receiver) (c : Chan) : List Bytes :=
  if (S.chans c).sending = [] then [] else [R.recving c ++ (S.chans c).sending]

structure Inv (msgs : Chan → List Bytes) (S : Sender) (R : Receiver) (D : List (Chan × Bytes)) : Prop where
  known : ∀ c, msgs c ≠ [] → R.known c = true
  idle : ∀ c, (S.chans c).sending = [] → R.recving c = []
  split : ∀ c, msgs c = delsOf D c ++ inflight S R c ++ (S.chans c).queue
  caps : ∀ c m, m ∈ msgs c → m.length ≤ R.cap c

/-- frame rule: a step that touches only channel `pick` re-establishes the invariant from local facts -/
theorem inv_of_local {msgs : Chan → List Bytes} {S : Sender} {R : Receiver} {D : List (Chan × Bytes)}
    (inv : Inv msgs S R D) (pick : Chan) (sc' : SChan) (buf' : Bytes) (dl : List Bytes)
    (hidle : sc'.sending = [] → buf' = [])
    (hsplit : msgs pick = (delsOf D pick ++ dl) ++ (if sc'.sending = [] then [] else [buf' ++ sc'.sending]) ++ sc'.queue) :
    Inv msgs { S with chans := upd S.chans pick sc' } { R with recving := upd R.recving pick buf' }
      (D ++ dl.map (fun m => (pick, m))) := by
  have hd_same := delsOf_map_same pick dl
  have hd_other := delsOf_map_other pick dl
  refine ⟨inv.known, ?_, ?_, inv.caps⟩
  · intro c hc
    by_cases h : c = pick
    · subst h; simp only [upd_same] at hc ⊢; exact hidle hc
    · simp only [upd_other _ _ _ _ h] at hc ⊢; exact inv.idle c hc
  · intro c
    by_cases h : c = pick
    · subst h
      simp only [delsOf_append, hd_same, inflight, upd_same]
      exact hsplit
    · simp only [delsOf_append, hd_other c h, List.append_nil, inflight, upd_other _ _ _ _ h]
      exact inv.split c

/-- one scheduler choice: either nothing was pending on the chosen channel, or a packet leaves, the receiver accepts it
without error, and the invariant holds again with the delivery (if any) appended -/
theorem step_inv {msgs : Chan → List Bytes} {S : Sender} {R : Receiver} {D : List (Chan × Bytes)}
    (inv : Inv msgs S R D) (pick : Chan) :
    sendStep S pick = (S, none) ∨
    ∃ (S' : Sender) (p : Packet) (R' : Receiver) (dl : List Bytes), sendStep S pick = (S', some p) ∧
      recvPacket R p = .ok (R', dl.head?.map (fun m => (pick, m))) ∧ dl.length ≤ 1 ∧
      Inv msgs S' R' (D ++ dl.map (fun m => (pick, m))) := by
  have hsp := inv.split pick
  cases hs : (S.chans pick).sending with
  | nil =>
    cases hq : (S.chans pick).queue with
    | nil => left; simp [sendStep, isSendPending, hs, hq]
    | cons m q =>
      right
      have hrecv : R.recving pick = [] := inv.idle pick hs
      have hmsgs : msgs pick = delsOf D pick ++ m :: q := by
        rw [hsp]; simp [inflight, hs, hq]
      have hne : msgs pick ≠ [] := by rw [hmsgs]; simp
      have hk := inv.known pick hne
      have hm : m ∈ msgs pick := by rw [hmsgs]; simp
      have hcap := inv.caps pick m hm
      by_cases hl : m.length ≤ S.maxPay
      · refine ⟨{ S with chans := upd S.chans pick { queue := q, sending := [] } }, ⟨pick, 1, m, false⟩,
          { R with recving := upd R.recving pick [] }, [m], ?_, ?_, by simp, ?_⟩
        · simp [sendStep, isSendPending, hs, hq, nextPacket, hl]
        · simp only [recvPacket, Bool.false_eq_true, ↓reduceIte, hk, Bool.not_true, hrecv, List.length_nil, Nat.zero_add,
            List.nil_append, List.head?_cons, Option.map_some]
          rw [if_neg (by omega)]
        · exact inv_of_local inv pick { queue := q, sending := [] } [] [m] (fun _ => rfl) (by simp [hmsgs])
      · refine ⟨{ S with chans := upd S.chans pick { queue := q, sending := m.drop S.maxPay } }, ⟨pick, 0, m.take S.maxPay, false⟩,
          { R with recving := upd R.recving pick (R.recving pick ++ m.take S.maxPay) }, [], ?_, ?_, by simp, ?_⟩
        · simp [sendStep, isSendPending, hs, hq, nextPacket, hl]
        · simp only [recvPacket, Bool.false_eq_true, ↓reduceIte, hk, Bool.not_true, List.head?_nil, Option.map_none,
            List.length_take, hrecv, List.length_nil, Nat.zero_add]
          rw [if_neg (by omega)]
          simp
        · have hdrop : m.drop S.maxPay ≠ [] := by
            intro h
            have := congrArg List.length h
            simp only [List.length_drop, List.length_nil] at this
            omega
          exact inv_of_local inv pick { queue := q, sending := m.drop S.maxPay } (R.recving pick ++ m.take S.maxPay) []
            (fun h => absurd h hdrop) (by simp [hmsgs, hdrop, hrecv])
  | cons b bs =>
    right
    have hne' : (S.chans pick).sending ≠ [] := by rw [hs]; simp
    have hmsgs : msgs pick = delsOf D pick ++ [R.recving pick ++ b :: bs] ++ (S.chans pick).queue := by
      rw [hsp]; simp [inflight, hs]
    have hne : msgs pick ≠ [] := by rw [hmsgs]; simp
    have hk := inv.known pick hne
    have hm : (R.recving pick ++ b :: bs) ∈ msgs pick := by rw [hmsgs]; simp
    have hcap := inv.caps pick _ hm
    simp only [List.length_append, List.length_cons] at hcap
    by_cases hl : (b :: bs).length ≤ S.maxPay
    · have hl' : bs.length + 1 ≤ S.maxPay := by simpa using hl
      refine ⟨{ S with chans := upd S.chans pick { (S.chans pick) with sending := [] } }, ⟨pick, 1, b :: bs, false⟩,
        { R with recving := upd R.recving pick [] }, [R.recving pick ++ b :: bs], ?_, ?_, by simp, ?_⟩
      · simp [sendStep, isSendPending, hs, nextPacket, hl']
      · simp only [recvPacket, Bool.false_eq_true, ↓reduceIte, hk, Bool.not_true, List.length_cons, List.head?_cons,
          Option.map_some]
        rw [if_neg (by omega)]
      · exact inv_of_local inv pick { (S.chans pick) with sending := [] } [] [R.recving pick ++ b :: bs] (fun _ => rfl)
          (by simp [hmsgs])
    · have hl' : ¬ bs.length + 1 ≤ S.maxPay := by simpa using hl
      refine ⟨{ S with chans := upd S.chans pick { (S.chans pick) with sending := (b :: bs).drop S.maxPay } },
        ⟨pick, 0, (b :: bs).take S.maxPay, false⟩,
        { R with recving := upd R.recving pick (R.recving pick ++ (b :: bs).take S.maxPay) }, [], ?_, ?_, by simp, ?_⟩
      · simp [sendStep, isSendPending, hs, nextPacket, hl']
      · simp only [recvPacket, Bool.false_eq_true, ↓reduceIte, hk, Bool.not_true, List.head?_nil, Option.map_none,
          List.length_take, List.length_cons]
        rw [if_neg (by omega)]
        simp
      · have hdrop : (b :: bs).drop S.maxPay ≠ [] := by
          intro h
          have := congrArg List.length h
          simp only [List.length_drop, List.length_nil, List.length_cons] at this hl
          omega
        exact inv_of_local inv pick { (S.chans pick) with sending := (b :: bs).drop S.maxPay }
          (R.recving pick ++ (b :: bs).take S.maxPay) []
          (fun h => absurd h hdrop) (by simp [hmsgs, hdrop, List.append_assoc])

theorem run_inv {msgs : Chan → List Bytes} : ∀ (sched : List Chan) (S : Sender) (R : Receiver) (D : List (Chan × Bytes)),
    Inv msgs S R D →
    ∃ R' ds, recvAll R (runSched S sched).2 = (R', ds, none) ∧ Inv msgs (runSched S sched).1 R' (D ++ ds) := by
  intro sched
  induction sched with
  | nil => intro S R D inv; exact ⟨R, [], rfl, by simpa [runSched] using inv⟩
  | cons c cs ih =>
    intro S R D inv
    rcases step_inv inv c with h | ⟨S', p, R', dl, hs, hr, hlen, inv'⟩
    · obtain ⟨R2, ds, h1, h2⟩ := ih S R D inv
      refine ⟨R2, ds, ?_, ?_⟩
      · simpa [runSched, h] using h1
      · simpa [runSched, h] using h2
    · obtain ⟨R2, ds, h1, h2⟩ := ih S' R' _ inv'
      refine ⟨R2, dl.map (fun m => (c, m)) ++ ds, ?_, ?_⟩
      · simp only [runSched, hs, recvAll, hr, h1]
        match dl, hlen with
        | [], _ => rfl
        | [m], _ => rfl
      · simpa [runSched, hs, List.append_assoc] using h2

theorem mux_order (maxPay : Nat) (known : Chan → Bool) (cap : Chan → Nat) (msgs : Chan → List Bytes)
    (hk : ∀ c, msgs c ≠ [] → known c = true) (hcap : ∀ c m, m ∈ msgs c → m.length ≤ cap c) (sched : List Chan) :
    let S0 : Sender := { maxPay := maxPay, known := known, chans := fun c => { queue := msgs c, sending := [] } }
    let R0 : Receiver := { known := known, cap := cap, recving := fun _ => [] }
    ∃ S' R' ds, (runSched S0 sched).1 = S' ∧ recvAll R0 (runSched S0 sched).2 = (R', ds, none)
      ∧ (∀ c, delsOf ds c <+: msgs c)
      ∧ ((∀ c, (S'.chans c).sending = [] ∧ (S'.chans c).queue = []) → ∀ c, delsOf ds c = msgs c) := by
  intro S0 R0
  have inv0 : Inv msgs S0 R0 [] :=
    { known := hk, idle := fun _ _ => rfl, split := fun c => by simp [S0, delsOf, inflight], caps := hcap }
  obtain ⟨R', ds, h1, h2⟩ := run_inv sched S0 R0 [] inv0
  simp only [List.nil_append] at h2
  refine ⟨_, R', ds, rfl, h1, ?_, ?_⟩
  · intro c
    exact ⟨_, by rw [← List.append_assoc]; exact (h2.split c).symm⟩
  · intro hdone c
    have := h2.split c
    simp only [inflight, (hdone c).1, (hdone c).2, ↓reduceIte, List.append_nil] at this
    exact this.symm

/-- non-vacuity: two channels, fragments of 2 bytes, an interleaving schedule; everything arrives whole and in order -/
example :
    let S0 : Sender := { maxPay := 2, known := fun _ => true,
                         chans := fun c => if c = 1 then { queue := [[1, 2, 3], [4]] } else if c = 2 then { queue := [[9, 8, 7, 6, 5]] } else {} }
    let R0 : Receiver := { known := fun _ => true, cap := fun _ => 10, recving := fun _ => [] }
    (recvAll R0 (runSched S0 [1, 2, 2, 1, 1, 2, 1]).2).2 = ([(1, [1, 2, 3]), (1, [4]), (2, [9, 8, 7, 6, 5])], none) := by
  decide

end Props.C18Mux
