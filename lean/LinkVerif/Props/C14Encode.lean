import LinkVerif.Props.C14

/-!
# C14 — the encoder writes only what the decoder reads back (fix 0f01527)

`WALEncoder.Encode` refuses `length > maxMsgSizeBytes` before anything reaches the writer, `WALDecoder.Decode` refuses the
same lengths, and `maxMsgSizeBytes = maxMsgSize + 1024` where `maxMsgSize` is the consensus reactor's bound on a peer
message.  All three are regenerated from the source (Gen.WalFacts); the driver runs the model with the regenerated bound.
-/
namespace Props.C14
open Model.Wal

/-- regenerated facts (T2): both sides test the same bound at the right place.  Reverting the encoder hunk of 0f01527
breaks this obligation (and the correspondence: the model refuses, the code writes). -/
theorem encoder_and_decoder_check_length :
    Gen.WalFacts.encoderChecksLength = true ∧ Gen.WalFacts.decoderChecksLength = true := by decide

/-- **wal_bound_covers_reactor** (regenerated constants): the WAL bound exceeds the reactor's bound on a peer message by
at least 1024 bytes — the stated bound on the wrapper (`TimedWALMessage{time, msgInfo{msg, peerID}}`: time stamp, peer id,
two registered-type prefixes, list headers; the harness measures the real overhead of a reactor-maximum message with a
40-character peer id on every run and compares it with this bound).  Reverting the constant hunk of 0f01527 breaks it. -/
theorem wal_bound_covers_reactor :
    Gen.WalFacts.reactorMaxMsgSize + 1024 ≤ Gen.WalFacts.maxMsgSizeBytes := by decide

/-- the encoder refuses exactly the payloads above the bound, and a refusal writes nothing (the result carries no group) -/
theorem encodeWrite_refuses_iff (B : Nat) (c : Codec) (g : Group) (p : Bytes) :
    g.encodeWrite B c p = none ↔ c.maxMsg < p.length := by
  unfold Group.encodeWrite
  split <;> simp_all

theorem encodeWrite_accepts (B : Nat) (c : Codec) (g : Group) (p : Bytes) (h : p.length ≤ c.maxMsg) :
    g.encodeWrite B c p = some (g.write B (frame c p)) := by
  unfold Group.encodeWrite
  have : ¬ (p.length > c.maxMsg) := by omega
  simp [this]

/-- what the encoder accepts of a decodable, non-empty payload is a `Valid` record -/
theorem valid_of_accepted (B : Nat) (c : Codec) (g : Group) (p : Bytes) (hpos : 0 < p.length) (hok : c.ok p = true)
    (hacc : (g.encodeWrite B c p).isSome = true) : Valid c p := by
  refine ⟨hpos, ?_, hok⟩
  unfold Group.encodeWrite at hacc
  by_cases h : p.length > c.maxMsg
  · simp [h] at hacc
  · omega

/-- **The encode/decode clause at full strength**: every record the encoder accepts is decoded back — one `Decode` on
its bytes (whatever follows) returns exactly that message and leaves exactly the rest; a whole log of accepted records
replays completely, in order, then io.EOF.  (Payloads are the codec's: non-empty and decodable, C11.) -/
def C14_encode_decode_statement : Prop :=
  ∀ (B : Nat) (c : Codec) (g : Group), Bounded c →
    (∀ (p : Bytes), 0 < p.length → c.ok p = true → (g.encodeWrite B c p).isSome = true →
        ∀ (t : Tail) (r : Bytes), decode1 c t (frame c p ++ r) = (Res.msg p, r)) ∧
    (∀ (ps : List Bytes), (∀ p ∈ ps, 0 < p.length ∧ c.ok p = true ∧ (g.encodeWrite B c p).isSome = true) →
        decodeAll c Tail.eof (frames c ps) = (ps, Res.eof))

theorem C14_encode_decode : C14_encode_decode_statement := by
  intro B c g hb
  constructor
  · intro p hpos hok hacc t r
    exact decode1_frame c hb t p r (valid_of_accepted B c g p hpos hok hacc)
  · intro ps h
    exact intact_replay c hb ps (fun p hp => valid_of_accepted B c g p (h p hp).1 (h p hp).2.1 (h p hp).2.2)

/-- **wrapped_reactor_message_accepted**: with the bound of the current tree, a record whose payload is at most the
reactor's maximum peer message plus the 1024-byte wrapper bound is always accepted by the encoder (so `baseWAL.Write`'s
panic on an encoder error is unreachable from peer input) — and, by `C14_encode_decode`, read back. -/
theorem wrapped_reactor_message_accepted (B : Nat) (c : Codec) (g : Group) (p : Bytes)
    (hc : c.maxMsg = Gen.WalFacts.maxMsgSizeBytes)
    (hp : p.length ≤ Gen.WalFacts.reactorMaxMsgSize + 1024) :
    g.encodeWrite B c p = some (g.write B (frame c p)) := by
  apply encodeWrite_accepts
  have := wal_bound_covers_reactor
  omega

/-- non-vacuity: the toy codec (bound = the regenerated constant) accepts a marker record and refuses nothing below the
bound; one byte above the bound is refused -/
example : ((({} : Group).encodeWrite 16 toyCodec [0xEE, 1]).isSome = true) ∧ toyCodec.maxMsg = Gen.WalFacts.maxMsgSizeBytes :=
  ⟨by decide, rfl⟩

example (p : Bytes) (h : p.length = Gen.WalFacts.maxMsgSizeBytes + 1) : ({} : Group).encodeWrite 16 toyCodec p = none := by
  rw [encodeWrite_refuses_iff]
  show Gen.WalFacts.maxMsgSizeBytes < p.length
  omega

end Props.C14
