import LinkVerif.Props.C14

/-!
# C14 — SearchForEndHeight over record-aligned groups

Every file of the group is a whole number of records (what `RotateFile` guarantees since fix ed188e7: it flushes the
buffered writer before renaming); the head file is a whole number of records followed by a possibly torn record
(`rem`).  The theorems say exactly what `SearchForEndHeight` answers.
-/
namespace Props.C14
open Model.Wal

/-- the records after the first marker for height `h` -/
def afterMarker (c : Codec) (h : Nat) : List Bytes → Option (List Bytes)
  | [] => none
  | p :: ps => if c.eh p = some h then some ps else afterMarker c h ps

/-- `lastHeightFound` after scanning the records -/
def lastEh (c : Codec) : Nat → List Bytes → Nat
  | last, [] => last
  | last, p :: ps => lastEh c ((c.eh p).getD last) ps

/-- a terminal that ends the loop of SearchForEndHeight whatever the options: not a message, not `corrupt` -/
def isStop : Res → Bool
  | .msg _ => false
  | .corrupt => false
  | _ => true

theorem afterMarker_none (c : Codec) (h : Nat) (ps : List Bytes) :
    afterMarker c h ps = none ↔ ∀ p ∈ ps, c.eh p ≠ some h := by
  induction ps with
  | nil => simp [afterMarker]
  | cons p ps ih =>
    by_cases hp : c.eh p = some h
    · simp [afterMarker, hp]
    · simp [afterMarker, hp, ih]

theorem afterMarker_some (c : Codec) (h : Nat) (ps post : List Bytes) (hs : afterMarker c h ps = some post) :
    ∃ pre m, ps = pre ++ m :: post ∧ c.eh m = some h ∧ ∀ q ∈ pre, c.eh q ≠ some h := by
  induction ps with
  | nil => simp [afterMarker] at hs
  | cons p ps ih =>
    by_cases hp : c.eh p = some h
    · simp [afterMarker, hp] at hs
      exact ⟨[], p, by simp [hs], hp, by simp⟩
    · simp [afterMarker, hp] at hs
      obtain ⟨pre, m, e, hm, hpre⟩ := ih hs
      refine ⟨p :: pre, m, by simp [e], hm, ?_⟩
      intro q hq
      rcases List.mem_cons.mp hq with rfl | hq
      · exact hp
      · exact hpre q hq

theorem lastEh_mem (c : Codec) (ps : List Bytes) : ∀ last,
    lastEh c last ps = last ∨ ∃ p ∈ ps, c.eh p = some (lastEh c last ps) := by
  induction ps with
  | nil => intro last; simp [lastEh]
  | cons p ps ih =>
    intro last
    rw [lastEh]
    rcases ih ((c.eh p).getD last) with h | ⟨q, hq, he⟩
    · cases hp : c.eh p with
      | none => left; simpa [hp] using h
      | some v =>
        right
        rw [hp] at h
        exact ⟨p, by simp, by rw [h]; simp [hp]⟩
    · right; exact ⟨q, by simp [hq], he⟩

theorem scanF_stop (c : Codec) (t : Tail) (h : Nat) (ign : Bool) (f : Nat) (s rest : Bytes) (r : Res) (last : Nat)
    (hd : decode1 c t s = (r, rest)) (hr : isStop r = true) :
    scanF c t h ign (f + 1) s last = if r = Res.eof then Scan.atEof last else Scan.err r := by
  rw [scanF, hd]
  cases r <;> simp_all [isStop]

theorem scanF_msg (c : Codec) (t : Tail) (h : Nat) (ign : Bool) (f : Nat) (s p rest : Bytes) (last : Nat)
    (hd : decode1 c t s = (Res.msg p, rest)) :
    scanF c t h ign (f + 1) s last =
      match c.eh p with
      | some h' => if h' = h then Scan.found rest else scanF c t h ign f rest h'
      | none => scanF c t h ign f rest last := by
  rw [scanF, hd]
  cases hp : c.eh p <;> simp only [hp]

/-- **scan of whole records followed by a terminal**: the marker is found at its first occurrence, else the terminal decides -/
theorem scanF_frames (c : Codec) (hb : Bounded c) (t : Tail) (h : Nat) (ign : Bool) (s rest' : Bytes) (r : Res)
    (hd : decode1 c t s = (r, rest')) (hr : isStop r = true) :
    ∀ (ps : List Bytes), (∀ p ∈ ps, Valid c p) → ∀ (f last : Nat), (frames c ps ++ s).length < f →
    scanF c t h ign f (frames c ps ++ s) last =
      match afterMarker c h ps with
      | some post => Scan.found (frames c post ++ s)
      | none => if r = Res.eof then Scan.atEof (lastEh c last ps) else Scan.err r := by
  intro ps
  induction ps with
  | nil =>
    intro _ f last hf
    cases f with
    | zero => omega
    | succ f => simpa [frames, afterMarker, lastEh] using scanF_stop c t h ign f s rest' r last hd hr
  | cons p ps ih =>
    intro hv f last hf
    have hvp : Valid c p := hv p (by simp)
    have hvs : ∀ q ∈ ps, Valid c q := fun q hq => hv q (by simp [hq])
    cases f with
    | zero => omega
    | succ f =>
      rw [frames_cons, List.append_assoc] at hf ⊢
      have hF := frame_length c p
      have hf' : (frames c ps ++ s).length < f := by
        rw [List.length_append] at hf; omega
      rw [scanF_msg c t h ign f _ p _ last (decode1_frame c hb t p _ hvp)]
      cases hp : c.eh p with
      | none =>
        have h2 : ¬ (none = some h) := by simp
        simp only [afterMarker, hp, h2, if_false, lastEh, Option.getD_none]
        exact ih hvs f last hf'
      | some v =>
        by_cases hvh : v = h
        · subst hvh
          simp [afterMarker, hp]
        · have h2 : ¬ (some v = some h) := by simp [hvh]
          simp only [afterMarker, hp, h2, if_false, lastEh, Option.getD_some, hvh]
          exact ih hvs f v hf'

/-- what the search sees of a record-aligned group: `qss` = the records of every file, head last; `rem` = the bytes
after the last whole record of the head (a torn record, or nothing) -/
structure AlignedView (c : Codec) (g : Group) (qss : List (List Bytes)) (rem : Bytes) : Prop where
  stream : ∀ i, i < qss.length → g.stream i = frames c (qss.drop i).flatten ++ rem
  canOpen : ∀ i, i < qss.length → g.canOpen i = true
  tail : g.tail = Tail.eof
  len : g.files.length + 1 = qss.length

theorem searchFrom_found (c : Codec) (g : Group) (h : Nat) (ign : Bool) (i last : Nat) (rest : Bytes)
    (ho : g.canOpen i = true)
    (hs : scanF c g.tail h ign ((g.stream i).length + 1) (g.stream i) last = Scan.found rest) :
    searchFrom c g h ign (i + 1) last = Search.found i rest := by
  rw [searchFrom]; simp [ho, hs]

theorem searchFrom_atEof (c : Codec) (g : Group) (h : Nat) (ign : Bool) (i last l : Nat)
    (ho : g.canOpen i = true)
    (hs : scanF c g.tail h ign ((g.stream i).length + 1) (g.stream i) last = Scan.atEof l) :
    searchFrom c g h ign (i + 1) last =
      if l > 0 ∧ l < h then Search.notFound else searchFrom c g h ign i l := by
  rw [searchFrom]; simp [ho, hs]

theorem searchFrom_err (c : Codec) (g : Group) (h : Nat) (ign : Bool) (i last : Nat) (r : Res)
    (ho : g.canOpen i = true)
    (hs : scanF c g.tail h ign ((g.stream i).length + 1) (g.stream i) last = Scan.err r) :
    searchFrom c g h ign (i + 1) last = Search.err r := by
  rw [searchFrom]; simp [ho, hs]

/-- the outer loop of SearchForEndHeight on an aligned group whose head ends on a record boundary or inside a checksum
field (`rem` reads as io.EOF): found iff the marker is among the records, and the reader continues right after it -/
theorem searchFrom_aligned (c : Codec) (hb : Bounded c) (g : Group) (h : Nat) (ign : Bool)
    (qss : List (List Bytes)) (rem rest' : Bytes)
    (hA : AlignedView c g qss rem) (hrem : decode1 c Tail.eof rem = (Res.eof, rest'))
    (hv : ∀ p ∈ qss.flatten, Valid c p)
    (hmono : (qss.flatten.filterMap c.eh).Pairwise (· ≤ ·)) :
    ∀ n, n ≤ qss.length → ∀ last,
      (last = 0 ∨ ∃ p ∈ (qss.drop n).flatten, c.eh p = some last) →
      (∀ p ∈ (qss.drop n).flatten, c.eh p ≠ some h) →
      ((∃ p ∈ (qss.take n).flatten, c.eh p = some h) →
          ∃ i pre m post, qss.flatten = pre ++ m :: post ∧ c.eh m = some h ∧
            searchFrom c g h ign n last = Search.found i (frames c post ++ rem)) ∧
      ((∀ p ∈ (qss.take n).flatten, c.eh p ≠ some h) → searchFrom c g h ign n last = Search.notFound) := by
  intro n
  induction n with
  | zero =>
    intro _ last _ _
    constructor
    · rintro ⟨p, hp, _⟩
      simp at hp
    · intro _
      rw [searchFrom]
  | succ i ih =>
    intro hn last hlast hno
    have hi : i < qss.length := by omega
    have hdrop : qss.drop i = qss[i] :: qss.drop (i + 1) := List.drop_eq_getElem_cons hi
    have hS : (qss.drop i).flatten = qss[i] ++ (qss.drop (i + 1)).flatten := by
      rw [hdrop, List.flatten_cons]
    have htake : (qss.take (i + 1)).flatten = (qss.take i).flatten ++ qss[i] := by
      rw [List.take_succ_eq_append_getElem hi, List.flatten_append]; simp
    have hall : qss.flatten = (qss.take i).flatten ++ (qss.drop i).flatten := by
      rw [← List.flatten_append, List.take_append_drop]
    have hvS : ∀ p ∈ (qss.drop i).flatten, Valid c p := fun p hp => hv p (by rw [hall]; simp [hp])
    have hscan := scanF_frames c hb Tail.eof h ign rem rest' Res.eof hrem rfl (qss.drop i).flatten hvS
        ((frames c (qss.drop i).flatten ++ rem).length + 1) last (Nat.lt_succ_self _)
    have hscan' : scanF c g.tail h ign ((g.stream i).length + 1) (g.stream i) last =
        match afterMarker c h (qss.drop i).flatten with
        | some post => Scan.found (frames c post ++ rem)
        | none => if Res.eof = Res.eof then Scan.atEof (lastEh c last (qss.drop i).flatten) else Scan.err Res.eof := by
      rw [hA.stream i hi, hA.tail]; exact hscan
    cases ham : afterMarker c h (qss.drop i).flatten with
    | some post =>
      rw [ham] at hscan'
      rw [searchFrom_found c g h ign i last _ (hA.canOpen i hi) hscan']
      obtain ⟨pre', m, e, hm, _⟩ := afterMarker_some c h _ post ham
      constructor
      · intro _
        exact ⟨i, (qss.take i).flatten ++ pre', m, post, by rw [hall, e]; simp, hm, rfl⟩
      · intro hnone
        exfalso
        have hmS : m ∈ (qss.drop i).flatten := by rw [e]; simp
        rw [hS] at hmS
        rcases List.mem_append.mp hmS with h1 | h1
        · exact hnone m (by rw [htake]; simp [h1]) hm
        · exact hno m h1 hm
    | none =>
      have hnoS := (afterMarker_none c h _).mp ham
      have hLinv : lastEh c last (qss.drop i).flatten = 0 ∨
          ∃ p ∈ (qss.drop i).flatten, c.eh p = some (lastEh c last (qss.drop i).flatten) := by
        rcases lastEh_mem c (qss.drop i).flatten last with hL | hL
        · rcases hlast with h0 | ⟨p, hp, he⟩
          · left; rw [hL, h0]
          · right; exact ⟨p, by rw [hS]; simp [hp], by rw [hL]; exact he⟩
        · right; exact hL
      rw [ham] at hscan'
      simp only [if_true] at hscan'
      rw [searchFrom_atEof c g h ign i last _ (hA.canOpen i hi) hscan']
      constructor
      · rintro ⟨p, hp, hph⟩
        have hpA : p ∈ (qss.take i).flatten := by
          rw [htake] at hp
          rcases List.mem_append.mp hp with h1 | h1
          · exact h1
          · exact absurd hph (hnoS p (by rw [hS]; simp [h1]))
        have hnot : ¬ (lastEh c last (qss.drop i).flatten > 0 ∧ lastEh c last (qss.drop i).flatten < h) := by
          rintro ⟨h1, h2⟩
          rcases hLinv with h0 | ⟨q, hq, hqe⟩
          · omega
          · rw [hall, List.filterMap_append, List.pairwise_append] at hmono
            have := hmono.2.2 h (List.mem_filterMap.mpr ⟨p, hpA, hph⟩) _ (List.mem_filterMap.mpr ⟨q, hq, hqe⟩)
            omega
        simp only [hnot, if_false]
        exact (ih (by omega) _ hLinv hnoS).1 ⟨p, hpA, hph⟩
      · intro hnone
        by_cases hc : lastEh c last (qss.drop i).flatten > 0 ∧ lastEh c last (qss.drop i).flatten < h
        · simp only [hc, and_self, if_true]
        · simp only [hc, if_false]
          exact (ih (by omega) _ hLinv hnoS).2 (fun p hp => hnone p (by rw [htake]; simp [hp]))

theorem flatten_map_frames (c : Codec) (pss : List (List Bytes)) :
    (pss.map (frames c)).flatten = frames c pss.flatten := by
  induction pss with
  | nil => simp [frames]
  | cons ps pss ih => simp [frames_append, ih]

/-- a group on disk: every rotated file is the records `pss[i]`, the head is the records `hd` followed by `rem` -/
structure OnDisk (c : Codec) (g : Group) (pss : List (List Bytes)) (hd : List Bytes) (rem : Bytes) : Prop where
  files : g.files = pss.map (frames c)
  head : g.head = some (frames c hd ++ rem)

theorem alignedView_of_onDisk (c : Codec) (g : Group) (pss : List (List Bytes)) (hd : List Bytes) (rem : Bytes)
    (hD : OnDisk c g pss hd rem) : AlignedView c g (pss ++ [hd]) rem := by
  have hfl : g.files.length = pss.length := by rw [hD.files]; simp
  refine ⟨?_, ?_, ?_, ?_⟩
  · intro i hi
    have hi' : i ≤ pss.length := by simp at hi; omega
    have h1 : ((pss ++ [hd]).drop i).flatten = (pss.drop i).flatten ++ hd := by
      rw [List.drop_append, List.flatten_append]
      have : i - pss.length = 0 := by omega
      rw [this]; simp
    rw [h1, frames_append]
    simp only [Group.stream, hD.files, hD.head, Option.getD_some]
    rw [← List.map_drop, flatten_map_frames]
    simp
  · intro i hi
    have hi' : i ≤ pss.length := by simp at hi; omega
    simp only [Group.canOpen, hfl, hD.head, Option.isSome_some, Bool.and_true, Bool.or_eq_true, decide_eq_true_eq,
      beq_iff_eq]
    omega
  · simp [Group.tail, hD.head]
  · simp [hfl]

/-- **search on an aligned group whose head ends cleanly** (on a record boundary or inside a checksum field):
`SearchForEndHeight h` finds the marker iff it is among the records on disk, and the returned reader continues exactly
after a marker for `h` (so `catchupReplay` replays exactly the records written after it, then `rem`). -/
theorem search_aligned_clean (c : Codec) (hb : Bounded c) (g : Group) (h : Nat) (ign : Bool)
    (pss : List (List Bytes)) (hd : List Bytes) (rem rest' : Bytes)
    (hD : OnDisk c g pss hd rem) (hrem : decode1 c Tail.eof rem = (Res.eof, rest'))
    (hv : ∀ p ∈ pss.flatten ++ hd, Valid c p)
    (hmono : ((pss.flatten ++ hd).filterMap c.eh).Pairwise (· ≤ ·)) :
    ((∃ p ∈ pss.flatten ++ hd, c.eh p = some h) →
        ∃ i pre m post, pss.flatten ++ hd = pre ++ m :: post ∧ c.eh m = some h ∧
          search c g h ign = Search.found i (frames c post ++ rem)) ∧
    ((∀ p ∈ pss.flatten ++ hd, c.eh p ≠ some h) → search c g h ign = Search.notFound) := by
  have hA := alignedView_of_onDisk c g pss hd rem hD
  have hfl : (pss ++ [hd]).flatten = pss.flatten ++ hd := by simp
  have hs : search c g h ign = searchFrom c g h ign (pss ++ [hd]).length 0 := by
    rw [search, hA.len]
  have key := searchFrom_aligned c hb g h ign (pss ++ [hd]) rem rest' hA hrem (by rw [hfl]; exact hv)
    (by rw [hfl]; exact hmono) (pss ++ [hd]).length (Nat.le_refl _) 0 (Or.inl rfl) (by simp)
  rw [List.take_length, hfl, ← hs] at key
  exact key

/-- **search on an aligned group whose head ends in a torn length or data field** (or any other non-EOF read error):
only the head is ever scanned.  The marker is found iff it is among the whole records of the HEAD; otherwise the search
returns that read error — whatever the older files contain and whatever `IgnoreDataCorruptionErrors` says. -/
theorem search_aligned_torn (c : Codec) (hb : Bounded c) (g : Group) (h : Nat) (ign : Bool)
    (pss : List (List Bytes)) (hd : List Bytes) (rem rest' : Bytes) (r : Res)
    (hD : OnDisk c g pss hd rem) (hrem : decode1 c Tail.eof rem = (r, rest')) (hr : isStop r = true)
    (hne : r ≠ Res.eof) (hv : ∀ p ∈ hd, Valid c p) :
    search c g h ign =
      match afterMarker c h hd with
      | some post => Search.found pss.length (frames c post ++ rem)
      | none => Search.err r := by
  have hA := alignedView_of_onDisk c g pss hd rem hD
  have hfl : g.files.length = pss.length := by rw [hD.files]; simp
  have hi : pss.length < (pss ++ [hd]).length := by simp
  have hst : g.stream pss.length = frames c hd ++ rem := by
    rw [hA.stream _ hi]; simp
  have hscan := scanF_frames c hb Tail.eof h ign rem rest' r hrem hr hd hv
      ((frames c hd ++ rem).length + 1) 0 (Nat.lt_succ_self _)
  have hscan' : scanF c g.tail h ign ((g.stream pss.length).length + 1) (g.stream pss.length) 0 =
      match afterMarker c h hd with
      | some post => Scan.found (frames c post ++ rem)
      | none => if r = Res.eof then Scan.atEof (lastEh c 0 hd) else Scan.err r := by
    rw [hst, hA.tail]; exact hscan
  rw [search, hfl]
  cases ham : afterMarker c h hd with
  | some post =>
    rw [ham] at hscan'
    exact searchFrom_found c g h ign _ 0 _ (hA.canOpen _ hi) hscan'
  | none =>
    rw [ham] at hscan'
    simp only [hne, if_false] at hscan'
    exact searchFrom_err c g h ign _ 0 r (hA.canOpen _ hi) hscan'

/-! ## crash cuts of the head: exactly which cuts break the search -/

theorem truncRes_isStop (k : Nat) : isStop (truncRes k) = true := by
  rcases truncRes_ne_msg k with h | h | h <;> simp [h, isStop]

theorem truncRes_eof_iff (k : Nat) : truncRes k = Res.eof ↔ k < 4 := by
  unfold truncRes
  by_cases h4 : k < 4
  · simp [h4]
  · by_cases h8 : k < 8 <;> simp [h4, h8]

theorem bytesOf_cons_succ (c : Codec) (p : Bytes) (ps : List Bytes) (j : Nat) :
    bytesOf c (p :: ps) (j + 1) = (frame c p).length + bytesOf c ps j := by
  simp [bytesOf, frames_cons]

/-- every cut of a record-aligned byte string = some whole records + the first `k` bytes of the next one; reading the
remainder answers `truncRes k` (io.EOF iff `k < 4`) -/
theorem take_frames_decomp (c : Codec) (hb : Bounded c) (ps : List Bytes) (hv : ∀ p ∈ ps, Valid c p) :
    ∀ cut, ∃ (j k : Nat) (rem : Bytes),
      (frames c ps).take cut = frames c (ps.take j) ++ rem ∧
      decode1 c Tail.eof rem = (truncRes k, []) ∧ j ≤ ps.length ∧
      (cut < (frames c ps).length → j < ps.length ∧ cut = bytesOf c ps j + k ∧ k < (frame c (ps.getD j [])).length) ∧
      ((frames c ps).length ≤ cut → j = ps.length ∧ k = 0) := by
  induction ps with
  | nil =>
    intro cut
    refine ⟨0, 0, [], by simp [frames], by simp [decode1, truncRes], by simp, by simp [frames], by simp⟩
  | cons p ps ih =>
    intro cut
    have hvp : Valid c p := hv p (by simp)
    have hvs : ∀ q ∈ ps, Valid c q := fun q hq => hv q (by simp [hq])
    rw [frames_cons]
    by_cases hcut : cut < (frame c p).length
    · refine ⟨0, cut, (frame c p).take cut, ?_, decode1_trunc c hb p hvp cut hcut, by simp, ?_, ?_⟩
      · rw [List.take_append_of_le_length (Nat.le_of_lt hcut)]; simp [frames]
      · intro _
        exact ⟨by simp, by simp [bytesOf, frames], by simpa using hcut⟩
      · intro h
        rw [List.length_append] at h; omega
    · have hge : (frame c p).length ≤ cut := Nat.le_of_not_lt hcut
      obtain ⟨j, k, rem, h1, h2, h3, h4, h5⟩ := ih hvs (cut - (frame c p).length)
      refine ⟨j + 1, k, rem, ?_, h2, by simp only [List.length_cons]; omega, ?_, ?_⟩
      · rw [List.take_append, List.take_of_length_le hge, h1, List.take_succ_cons, frames_cons, List.append_assoc]
      · intro h
        rw [List.length_append] at h
        obtain ⟨a, b, d⟩ := h4 (by omega)
        refine ⟨by simp only [List.length_cons]; omega, ?_, by simpa using d⟩
        rw [bytesOf_cons_succ]; omega
      · intro h
        rw [List.length_append] at h
        obtain ⟨a, b⟩ := h5 (by omega)
        exact ⟨by simp only [List.length_cons]; omega, b⟩

/-- **search_fails_iff_torn_len_or_data** — the exact characterisation of the cuts that break SearchForEndHeight on a
record-aligned group: the search answers an error iff the head ends inside the LENGTH or DATA field of its last
record (`4 ≤ k`) and the marker is not among the whole records of the head itself. -/
theorem search_fails_iff_torn_len_or_data (c : Codec) (hb : Bounded c) (g : Group) (h : Nat) (ign : Bool)
    (pss : List (List Bytes)) (hd : List Bytes) (rem : Bytes) (k : Nat)
    (hD : OnDisk c g pss hd rem) (hrem : decode1 c Tail.eof rem = (truncRes k, []))
    (hv : ∀ p ∈ pss.flatten ++ hd, Valid c p)
    (hmono : ((pss.flatten ++ hd).filterMap c.eh).Pairwise (· ≤ ·)) :
    (∃ e, search c g h ign = Search.err e) ↔ (4 ≤ k ∧ ∀ p ∈ hd, c.eh p ≠ some h) := by
  by_cases hk : k < 4
  · have he : truncRes k = Res.eof := (truncRes_eof_iff k).mpr hk
    rw [he] at hrem
    have key := search_aligned_clean c hb g h ign pss hd rem [] hD hrem hv hmono
    constructor
    · rintro ⟨e, hs⟩
      by_cases hm : ∃ p ∈ pss.flatten ++ hd, c.eh p = some h
      · obtain ⟨i, pre, m, post, _, _, hf⟩ := key.1 hm
        rw [hf] at hs; cases hs
      · have := key.2 (fun p hp he => hm ⟨p, hp, he⟩)
        rw [this] at hs; cases hs
    · rintro ⟨h4, _⟩; omega
  · have hne : truncRes k ≠ Res.eof := fun he => hk ((truncRes_eof_iff k).mp he)
    have key := search_aligned_torn c hb g h ign pss hd rem [] (truncRes k) hD hrem (truncRes_isStop k) hne
      (fun p hp => hv p (by simp [hp]))
    cases ham : afterMarker c h hd with
    | some post =>
      rw [ham] at key
      obtain ⟨pre, m, e, hm, _⟩ := afterMarker_some c h hd post ham
      constructor
      · rintro ⟨e', hs⟩; rw [key] at hs; cases hs
      · rintro ⟨_, hno⟩; exact absurd hm (hno m (by rw [e]; simp))
    | none =>
      rw [ham] at key
      exact ⟨fun _ => ⟨by omega, (afterMarker_none c h hd).mp ham⟩, fun _ => ⟨_, key⟩⟩

/-- **marker_iff_written_clean_cut**: if the head ends on a record boundary or inside the checksum field of its last
record (`k < 4`; in particular after any flush), the marker is found iff it is among the records on disk. -/
theorem marker_iff_written_clean_cut (c : Codec) (hb : Bounded c) (g : Group) (h : Nat) (ign : Bool)
    (pss : List (List Bytes)) (hd : List Bytes) (rem : Bytes) (k : Nat) (hk : k < 4)
    (hD : OnDisk c g pss hd rem) (hrem : decode1 c Tail.eof rem = (truncRes k, []))
    (hv : ∀ p ∈ pss.flatten ++ hd, Valid c p)
    (hmono : ((pss.flatten ++ hd).filterMap c.eh).Pairwise (· ≤ ·)) :
    (search c g h ign).isFound = true ↔ ∃ p ∈ pss.flatten ++ hd, c.eh p = some h := by
  have he : truncRes k = Res.eof := (truncRes_eof_iff k).mpr hk
  rw [he] at hrem
  have key := search_aligned_clean c hb g h ign pss hd rem [] hD hrem hv hmono
  constructor
  · intro hf
    by_cases hm : ∃ p ∈ pss.flatten ++ hd, c.eh p = some h
    · exact hm
    · have := key.2 (fun p hp he => hm ⟨p, hp, he⟩)
      rw [this] at hf; simp [Search.isFound] at hf
  · intro hm
    obtain ⟨i, pre, m, post, _, _, hf⟩ := key.1 hm
    rw [hf]; rfl

/-- **search_after_head_cut**: a group whose rotated files are whole records and whose head is the records `psh` cut
at ANY byte offset `cut` (crash).  With `j` whole records surviving in the head and the cut `k` bytes into the next
one: the search errs iff `4 ≤ k` and the marker is not among those `j` records; and for `k < 4` the marker clause
holds for the records on disk. -/
theorem search_after_head_cut (c : Codec) (hb : Bounded c) (g : Group) (h : Nat) (ign : Bool)
    (pss : List (List Bytes)) (psh : List Bytes) (cut : Nat)
    (hfiles : g.files = pss.map (frames c)) (hhead : g.head = some ((frames c psh).take cut))
    (hv : ∀ p ∈ pss.flatten ++ psh, Valid c p)
    (hmono : ((pss.flatten ++ psh).filterMap c.eh).Pairwise (· ≤ ·)) :
    ∃ j k, j ≤ psh.length ∧
      (cut < (frames c psh).length → j < psh.length ∧ cut = bytesOf c psh j + k ∧ k < (frame c (psh.getD j [])).length) ∧
      ((frames c psh).length ≤ cut → j = psh.length ∧ k = 0) ∧
      ((∃ e, search c g h ign = Search.err e) ↔ (4 ≤ k ∧ ∀ p ∈ psh.take j, c.eh p ≠ some h)) ∧
      (k < 4 → ((search c g h ign).isFound = true ↔ ∃ p ∈ pss.flatten ++ psh.take j, c.eh p = some h)) := by
  obtain ⟨j, k, rem, h1, h2, h3, h4, h5⟩ :=
    take_frames_decomp c hb psh (fun p hp => hv p (by simp [hp])) cut
  have hD : OnDisk c g pss (psh.take j) rem := ⟨hfiles, by rw [hhead, h1]⟩
  have hsub : ∀ p ∈ pss.flatten ++ psh.take j, p ∈ pss.flatten ++ psh := by
    intro p hp
    rcases List.mem_append.mp hp with a | a
    · simp [a]
    · simp [List.mem_of_mem_take a]
  have hv' : ∀ p ∈ pss.flatten ++ psh.take j, Valid c p := fun p hp => hv p (hsub p hp)
  have hmono' : ((pss.flatten ++ psh.take j).filterMap c.eh).Pairwise (· ≤ ·) := by
    have hsl : (pss.flatten ++ psh.take j).Sublist (pss.flatten ++ psh) :=
      List.Sublist.append (List.Sublist.refl _) (List.take_sublist _ _)
    exact List.Pairwise.sublist (hsl.filterMap _) hmono
  exact ⟨j, k, h3, h4, h5,
    search_fails_iff_torn_len_or_data c hb g h ign pss (psh.take j) rem k hD h2 hv' hmono',
    fun hk => marker_iff_written_clean_cut c hb g h ign pss (psh.take j) rem k hk hD h2 hv' hmono'⟩

set_option maxRecDepth 100000 in
/-- instances with the real CRC-32C: marker 1 in a rotated file, the head holds one 12-byte record cut after `k` bytes.
`k = 0, 3` (boundary / inside the checksum field): found.  `k = 4, 7` (length field), `k = 8, 11` (data): the error. -/
example :
    let g (k : Nat) : Group := { files := [frames toyCodec [[0xEE, 1]]], head := some ((frames toyCodec [[1, 2, 3, 4]]).take k), buf := [] }
    (search toyCodec (g 0) 1 true).isFound = true ∧ (search toyCodec (g 3) 1 true).isFound = true ∧
    search toyCodec (g 4) 1 true = Search.err Res.errLen ∧ search toyCodec (g 7) 1 true = Search.err Res.errLen ∧
    search toyCodec (g 8) 1 true = Search.err Res.errData ∧ search toyCodec (g 11) 1 true = Search.err Res.errData ∧
    (search toyCodec (g 12) 1 true).isFound = true ∧ search toyCodec (g 12) 2 true = Search.notFound := by
  decide

end Props.C14
