import LinkVerif.Props.C15Step
import LinkVerif.Gen.MempoolLocks

/-!
# C15 — what the mempool offers is executable, conflict-free and ordered

Model: `Model.Mempool` (pool over the ledger model of C06/C07).  All statements are about EVERY history of submissions,
reaps, own commits (block = reap) and forced commits (block = arbitrary earlier transactions, as another or a Byzantine
proposer assembles them), for every size configuration.  Concurrency: every mutator of `*Mempool` runs under `proxyMtx`
(extracted fact `Gen.MempoolLocks`), so an interleaving is a history.

`C15_statement` holds at full strength: for EVERY registry of transactions (no hypothesis — the basic check of the model
rejects signed amounts, as `CheckBasic` does), every configuration, every history and every cap the reaped block executes.
Before repo commit 6dc6087 it was false (a rejected fee-too-low account-input confidential transaction left the
speculative state advanced); the former counterexample is now the example `feelow_witness_harmless`.
-/
namespace Props.C15
open Model.Ledger Model.Mempool

/-! ## interleavings are histories (T2 facts regenerated from mempool/mempool.go and app/app.go) -/

/-- every exported method of `*Mempool` that mutates a queue takes `proxyMtx` itself, except `Update`;
`Reap`, `AddTx` and `Stats` take it; `Update` is called by `CommitBlock` between `mempool.Lock()` and `mempool.Unlock()` -/
theorem mutators_serialised :
    (∀ m ∈ Gen.MempoolLocks.exportedQueueMethods, m.2.1 = true → m.2.2 = true ∨ m.1 = "Update") ∧
    ("AddTx", true, true) ∈ Gen.MempoolLocks.exportedQueueMethods ∧ ("Reap", false, true) ∈ Gen.MempoolLocks.exportedQueueMethods ∧
    ("Update", true, false) ∈ Gen.MempoolLocks.exportedQueueMethods ∧
    Gen.MempoolLocks.commitBlockBracketsUpdate = true := by decide

/-! ## the shape of a reap -/

theorem collect_prefix (u : Nat) : ∀ (l : List E) (m c : Nat), ∃ k, collect u l m c = l.take k := by
  intro l
  induction l with
  | nil => intro m c; exact ⟨0, by simp [collect]⟩
  | cons e r ih =>
    intro m c
    cases m with
    | zero => exact ⟨0, by simp [collect]⟩
    | succ m =>
      unfold collect
      simp only []
      generalize (if e.t.kind = .ain ∨ e.t.kind = .uin then c + 1 else c) = c'
      by_cases hge : c' ≥ u
      · exact ⟨1, by simp [hge]⟩
      · obtain ⟨k, hk⟩ := ih m c'
        exact ⟨k + 1, by simp [hge, hk]⟩

/-- `Reap` returns a prefix of goodTxs followed by a prefix of utxoTxs -/
theorem reap_shape (p : Pool) (max : Nat) : ∃ k j, reap p max = p.good.take k ++ p.utxo.take j := by
  unfold reap
  split
  · exact ⟨0, 0, by simp⟩
  · simp only []
    obtain ⟨j, hj⟩ := collect_prefix p.cfg.utxoSize p.utxo p.cfg.utxoSize 0
    obtain ⟨k, hk⟩ := collect_prefix p.cfg.utxoSize p.good
      ((if max > p.cfg.maxReap then p.cfg.maxReap else max) - (collect p.cfg.utxoSize p.utxo p.cfg.utxoSize 0).length) 0
    exact ⟨k, j, by rw [hk, hj]⟩

/-! ## the property on a pool satisfying the invariant -/

/-- **reap_gapfree + reap_funded, operational form**: the account part of every reap passes the state checks one after the
other starting from the COMMITTED state — each transaction carries exactly the nonce its sender has after the
transactions offered before it (`checkAcc_ok`: `getn nonce from = t.nonce`) and its cost is covered by what the earlier
ones left of the committed balance (`canPay`); no credit from another offered transaction is used (debit-only run). -/
theorem reap_sequential {p : Pool} (h : Inv p) (max : Nat) :
    ∃ k j a, reap p max = p.good.take k ++ p.utxo.take j ∧ runAcc (accOf p.c) ((p.good.take k).map (·.t)) = some a := by
  obtain ⟨k, j, hs⟩ := reap_shape p max
  obtain ⟨σ, hσ, _⟩ := h.path
  obtain ⟨a, ha⟩ := runAcc_take hσ k
  exact ⟨k, j, a, hs, by rw [← List.map_take] at ha; exact ha⟩

/-- **reap_no_shared_image + reap_not_committed (confidential part)**: the confidential spends offered have pairwise
distinct key images, none of them committed; the account part contains no confidential spend -/
theorem reap_no_shared_image {p : Pool} (h : Inv p) (max : Nat) :
    ∃ k j, reap p max = p.good.take k ++ p.utxo.take j ∧ ((p.utxo.take j).map (·.t.spends)).Nodup ∧
      (∀ e ∈ p.utxo.take j, e.t.kind = .uin ∧ e.t.spends ∉ p.c.spentImgs) ∧ (∀ e ∈ p.good.take k, e.t.kind ≠ .uin) := by
  obtain ⟨k, j, hs⟩ := reap_shape p max
  refine ⟨k, j, hs, ?_, ?_, ?_⟩
  · have := h.nodup
    rw [h.imgs] at this
    exact this.sublist ((List.take_sublist j p.utxo).map _)
  · intro e he
    have hm := List.mem_of_mem_take he
    exact ⟨h.ukind e hm, h.fresh _ (by rw [h.imgs]; exact List.mem_map_of_mem hm)⟩
  · intro e he; exact h.gkind e (List.mem_of_mem_take he)

/-- **reaped_block_executes**: the block built from any reap executes on the committed ledger (every transaction valid
where it stands) — what `Model.Ledger.block` promises -/
theorem reaped_block_executes_inv {p : Pool} (h : Inv p) (max : Nat) :
    ∃ s', execBlock p.c [] ((reap p max).map (·.t)) = some s' := by
  obtain ⟨k, j, a, hs, hrun⟩ := reap_sequential h max
  have hgood : ∀ t ∈ (p.good.take k).map (·.t), t.kind ≠ .uin ∧ WFt t := by
    intro t ht
    obtain ⟨e, he, rfl⟩ := List.mem_map.mp ht
    have hm := List.mem_of_mem_take he
    exact ⟨h.gkind e hm, h.good.1 e hm⟩
  obtain ⟨s1, hs1, _, hsp⟩ := runAcc_exec _ p.c (accOf p.c) a [] hgood (dom_accOf p.c) hrun
  obtain ⟨_, _, _, hnd, hu, _⟩ := reap_no_shared_image h max
  have hnd' : ((p.utxo.take j).map (·.t.spends)).Nodup := by
    have := h.nodup
    rw [h.imgs] at this
    exact this.sublist ((List.take_sublist j p.utxo).map _)
  have hu' : ∀ e ∈ p.utxo.take j, e.t.kind = .uin ∧ e.t.spends ∉ p.c.spentImgs := by
    intro e he
    have hm := List.mem_of_mem_take he
    exact ⟨h.ukind e hm, h.fresh _ (by rw [h.imgs]; exact List.mem_map_of_mem hm)⟩
  obtain ⟨s2, hs2⟩ := uin_exec ((p.utxo.take j).map (·.t)) s1 []
    (by intro t ht; obtain ⟨e, he, rfl⟩ := List.mem_map.mp ht; exact (hu' e he).1)
    (by rw [List.map_map]; exact hnd')
    (by intro t ht; obtain ⟨e, he, rfl⟩ := List.mem_map.mp ht; rw [hsp]; exact ⟨(hu' e he).2, by simp⟩)
  refine ⟨s2, ?_⟩
  rw [hs, List.map_append, execBlock_append_acct _ _ _ _ (fun t ht => (hgood t ht).1), hs1]
  exact hs2

/-! ## nonces only move forward along the speculative run: nothing stale is pending -/

theorem getn_setN (xs : List Nat) (i j v : Nat) : getn (setN xs i v) j = if i = j ∧ i < xs.length then v else getn xs j := by
  unfold getn setN
  simp only [List.getD_eq_getElem?_getD, List.getElem?_set]
  by_cases hij : i = j
  · subst hij
    by_cases hl : i < xs.length
    · simp [hl]
    · simp [hl]
  · simp [hij]

theorem debit_nonce (a : Acc) (t : TxRec) : (debit a t).nonce = setN a.nonce t.from_ (t.nonce + 1) := by
  unfold debit; split <;> rfl

/-- **stale_removed (pending part)**: every transaction on a successful speculative run has a nonce at or above the
starting (committed) nonce of its sender -/
theorem runAcc_not_stale : ∀ (l : List TxRec) (a a' : Acc), runAcc a l = some a' → ∀ t ∈ l, getn a.nonce t.from_ ≤ t.nonce := by
  intro l
  induction l with
  | nil => intro a a' _ t ht; cases ht
  | cons x r ih =>
    intro a a' h t ht
    unfold runAcc at h
    split at h
    · rename_i hok
      obtain ⟨hn, _, he⟩ := checkAcc_ok hok
      rcases List.mem_cons.mp ht with h1 | h1
      · subst h1; omega
      · have := ih _ a' h t h1
        rw [he, debit_nonce, getn_setN] at this
        split at this
        · rename_i hc; rw [← hc.1]; omega
        · exact this
    · cases h

theorem pending_not_stale {p : Pool} (h : Inv p) : ∀ e ∈ p.good, getn p.c.nonce e.t.from_ ≤ e.t.nonce := by
  obtain ⟨σ, hσ, _⟩ := h.path
  intro e he
  exact runAcc_not_stale _ _ _ hσ e.t (List.mem_map_of_mem he)

/-! ## histories -/

/-- full statement: after every history, for every cap, the block built from the reap executes -/
def C15_statement : Prop :=
  ∀ (reg : List TxRec) (cfg : Cfg) (w : Nat) (bal tbal : Int) (ops : List Op) (max : Nat),
    (execBlock (run reg (Model.Mempool.init cfg w bal tbal) ops).c []
      ((reap (run reg (Model.Mempool.init cfg w bal tbal) ops) max).map (·.t))).isSome = true

/-- the invariant holds after EVERY history of submissions, reaps, own and forced commits, for every registry of
transactions and every size configuration -/
theorem inv_after_every_history (reg : List TxRec) (cfg : Cfg) (w : Nat) (bal tbal : Int) (ops : List Op) :
    Inv (run reg (Model.Mempool.init cfg w bal tbal) ops) := run_inv reg ops _ (init_inv cfg w bal tbal)

/-- **C15 (reaped_block_executes over histories), full strength** -/
theorem C15_holds : C15_statement := by
  intro reg cfg w bal tbal ops max
  obtain ⟨s', hs'⟩ := reaped_block_executes_inv (inv_after_every_history reg cfg w bal tbal ops) max
  rw [hs']; rfl

/-- after every history: what is offered has pairwise distinct uncommitted key images, passes the sequential nonce/funds
check from the committed state, and nothing pending is stale -/
theorem C15_offer (reg : List TxRec) (cfg : Cfg) (w : Nat) (bal tbal : Int) (ops : List Op) (max : Nat) :
    let p := run reg (Model.Mempool.init cfg w bal tbal) ops
    (∃ k j a, reap p max = p.good.take k ++ p.utxo.take j ∧ runAcc (accOf p.c) ((p.good.take k).map (·.t)) = some a ∧
      ((p.utxo.take j).map (·.t.spends)).Nodup ∧ (∀ e ∈ p.utxo.take j, e.t.kind = .uin ∧ e.t.spends ∉ p.c.spentImgs)) ∧
    (∀ e ∈ p.good, getn p.c.nonce e.t.from_ ≤ e.t.nonce) := by
  intro p
  have h := inv_after_every_history reg cfg w bal tbal ops
  refine ⟨?_, pending_not_stale h⟩
  obtain ⟨k, j, a, hs, hrun⟩ := reap_sequential h max
  refine ⟨k, j, a, hs, hrun, ?_, ?_⟩
  · have := h.nodup
    rw [h.imgs] at this
    exact this.sublist ((List.take_sublist j _).map _)
  · intro e he
    have hm := List.mem_of_mem_take he
    exact ⟨h.ukind e hm, h.fresh _ (by rw [h.imgs]; exact List.mem_map_of_mem hm)⟩

/-- the witness of the former finding: fee-too-low account-input tx (rejected), the sender's nonce 1, then nonce 0 -/
def witnessReg : List TxRec :=
  [ { kind := .ain, from_ := 1, to := 0, amount := 20000000, nonce := 0, gas := 0 },      -- fee 0 < needed fee
    { kind := .xfer, from_ := 1, to := 0, amount := 9, nonce := 1, gas := calGas 9 },
    { kind := .xfer, from_ := 1, to := 0, amount := 9, nonce := 0, gas := calGas 9 } ]

def witnessPool (ops : List Op) : Pool := run witnessReg (Model.Mempool.init { size := 10, future := 10, accts := 2 } 1 100000000 1000) ops

/-- non-vacuity / regression: the rejection leaves the speculative state untouched, nonce 1 waits in the future queue,
nonce 0 is accepted and promotes it, and the reaped block (nonce 0, nonce 1) executes -/
example : (witnessPool [.submit 0]).acc.nonce = [0, 0] ∧ (witnessPool [.submit 0]).acc.bal = [100000000, 100000000] ∧
    (witnessPool [.submit 0, .submit 1]).good.length = 0 ∧ ((witnessPool [.submit 0, .submit 1]).fut.map (·.id)) = [1] ∧
    ((reap (witnessPool [.submit 0, .submit 1, .submit 2]) 100).map (·.id)) = [2, 1] ∧
    (execBlock (witnessPool [.submit 0, .submit 1, .submit 2]).c []
      ((reap (witnessPool [.submit 0, .submit 1, .submit 2]) 100).map (·.t))).isSome = true := by decide

/-- non-vacuity: after a commit the pool is empty again and the committed nonce moved -/
example : (witnessPool [.submit 2, .submit 1, .commit 100]).good.length = 0 ∧
    (witnessPool [.submit 2, .submit 1, .commit 100]).c.nonce = [0, 2] := by decide

end Props.C15
