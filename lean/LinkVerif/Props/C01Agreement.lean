/-
C01 (layer L-A): agreement for the abstract protocol model `Model.Protocol`.

If a merged history satisfies the voting discipline `disciplined` (d0-d4, checked for correct
validators only) and the Byzantine validators hold less than one third of the power, then no two
correct validators decide different values.  Core Lean only.
-/
import LinkVerif.Model.Protocol

namespace Props.C01
open Model.Protocol

/-! ### 1. power arithmetic and quorum intersection -/

theorem sum_filter_or_and (f : Val → Nat) (l : List Val) (p q : Val → Bool) :
    ((l.filter p).map f).sum + ((l.filter q).map f).sum
      = ((l.filter (fun n => p n || q n)).map f).sum
        + ((l.filter (fun n => p n && q n)).map f).sum := by
  induction l with
  | nil => rfl
  | cons a l ih =>
    simp only [List.filter_cons]
    cases hp : p a <;> cases hq : q a <;>
      simp only [Bool.or_self, Bool.and_self, Bool.or_true, Bool.or_false, Bool.and_true,
        Bool.and_false, Bool.false_eq_true, if_true, if_false, List.map_cons, List.sum_cons] <;> omega

theorem sum_filter_mono (f : Val → Nat) (l : List Val) (p q : Val → Bool)
    (hpq : ∀ n, n ∈ l → p n = true → q n = true) :
    ((l.filter p).map f).sum ≤ ((l.filter q).map f).sum := by
  induction l with
  | nil => exact Nat.le_refl _
  | cons a l ih =>
    have ih' := ih (fun n hn => hpq n (List.mem_cons_of_mem a hn))
    have ha := hpq a List.mem_cons_self
    simp only [List.filter_cons]
    cases hp : p a
    · cases hq : q a <;>
        simp only [Bool.false_eq_true, if_true, if_false, List.map_cons, List.sum_cons] <;> omega
    · have hq : q a = true := ha hp
      simp only [hq, if_true, List.map_cons, List.sum_cons]
      omega

theorem pow_or_and (c : Cfg) (p q : Val → Bool) :
    pow c p + pow c q = pow c (fun n => p n || q n) + pow c (fun n => p n && q n) :=
  sum_filter_or_and c.power c.vals p q

theorem pow_mono (c : Cfg) (p q : Val → Bool)
    (hpq : ∀ n, n ∈ c.vals → p n = true → q n = true) : pow c p ≤ pow c q :=
  sum_filter_mono c.power c.vals p q hpq

theorem pow_le_total (c : Cfg) (p : Val → Bool) : pow c p ≤ total c :=
  pow_mono c p (fun _ => true) (fun _ _ _ => rfl)

/-- two sets of more than two thirds of the power share a correct validator -/
theorem quorum_intersection (c : Cfg) (p q : Val → Bool) (hb : byzBound c)
    (hp : 3 * pow c p > 2 * total c) (hq : 3 * pow c q > 2 * total c) :
    ∃ n, n ∈ c.vals ∧ p n = true ∧ q n = true ∧ c.byz n = false := by
  apply Classical.byContradiction
  intro hne
  have hall : ∀ n, n ∈ c.vals → (p n && q n) = true → c.byz n = true := by
    intro n hn hpq
    cases hbz : c.byz n
    · exfalso
      rw [Bool.and_eq_true] at hpq
      exact hne ⟨n, hn, hpq.1, hpq.2, hbz⟩
    · rfl
  have h1 := pow_mono c (fun n => p n && q n) c.byz hall
  have h2 := pow_or_and c p q
  have h3 := pow_le_total c (fun n => p n || q n)
  unfold byzBound at hb
  omega

/-- a set of more than two thirds of the power contains a correct validator -/
theorem quorum_has_correct (c : Cfg) (p : Val → Bool) (hb : byzBound c)
    (hp : 3 * pow c p > 2 * total c) :
    ∃ n, n ∈ c.vals ∧ p n = true ∧ c.byz n = false := by
  obtain ⟨n, hn, h1, _, h3⟩ := quorum_intersection c p p hb hp hp
  exact ⟨n, hn, h1, h3⟩

/-! ### 2. histories: membership, monotonicity, the discipline of a single event -/

theorem prevoted_iff {h : List Event} {r : Round} {v : Option Value} {n : Val} :
    prevoted h r v n = true ↔ Event.prevote n r v ∈ h := by
  unfold prevoted
  exact List.contains_iff_mem

theorem precommitted_iff {h : List Event} {r : Round} {v : Option Value} {n : Val} :
    precommitted h r v n = true ↔ Event.precommit n r v ∈ h := by
  unfold precommitted
  exact List.contains_iff_mem

theorem polka_iff {c : Cfg} {h : List Event} {r : Round} {v : Option Value} :
    polka c h r v = true ↔ 3 * pow c (prevoted h r v) > 2 * total c := by
  unfold polka
  exact decide_eq_true_iff

theorem commitQuorum_iff {c : Cfg} {h : List Event} {r : Round} {b : Value} :
    commitQuorum c h r b = true ↔ 3 * pow c (precommitted h r (some b)) > 2 * total c := by
  unfold commitQuorum
  exact decide_eq_true_iff

theorem prevoted_mono {h h' : List Event} (hs : ∀ e, e ∈ h → e ∈ h') {r : Round}
    {v : Option Value} {n : Val} (hp : prevoted h r v n = true) : prevoted h' r v n = true :=
  prevoted_iff.2 (hs _ (prevoted_iff.1 hp))

theorem precommitted_mono {h h' : List Event} (hs : ∀ e, e ∈ h → e ∈ h') {r : Round}
    {v : Option Value} {n : Val} (hp : precommitted h r v n = true) :
    precommitted h' r v n = true :=
  precommitted_iff.2 (hs _ (precommitted_iff.1 hp))

/-- a polka of a sub-history (in particular of a prefix) is a polka of the whole history -/
theorem polka_mono {c : Cfg} {h h' : List Event} (hs : ∀ e, e ∈ h → e ∈ h') {r : Round}
    {v : Option Value} (hp : polka c h r v = true) : polka c h' r v = true := by
  rw [polka_iff] at hp ⊢
  have := pow_mono c (prevoted h r v) (prevoted h' r v) (fun _ _ hn => prevoted_mono hs hn)
  omega

theorem commitQuorum_mono {c : Cfg} {h h' : List Event} (hs : ∀ e, e ∈ h → e ∈ h') {r : Round}
    {b : Value} (hp : commitQuorum c h r b = true) : commitQuorum c h' r b = true := by
  rw [commitQuorum_iff] at hp ⊢
  have := pow_mono c (precommitted h r (some b)) (precommitted h' r (some b))
    (fun _ _ hn => precommitted_mono hs hn)
  omega

theorem prefix_sub {p rest : List Event} {e : Event} : ∀ x, x ∈ p → x ∈ p ++ e :: rest :=
  fun _ hx => List.mem_append_left _ hx

theorem eventOk_of_splitFrom (c : Cfg) (p : List Event) :
    ∀ (q : List Event) (e : Event) (rest : List Event),
      disciplinedFrom c q (p ++ e :: rest) = true → eventOk c (q ++ p) e = true := by
  induction p with
  | nil =>
    intro q e rest h
    simp only [List.nil_append, disciplinedFrom, Bool.and_eq_true] at h
    simpa using h.1
  | cons a p ih =>
    intro q e rest h
    simp only [List.cons_append, disciplinedFrom, Bool.and_eq_true] at h
    have := ih (q ++ [a]) e rest h.2
    simpa [List.append_assoc] using this

/-- every event of a disciplined history is fine given the events before it -/
theorem eventOk_of_split {c : Cfg} {h p rest : List Event} {e : Event}
    (hd : disciplined c h = true) (hs : h = p ++ e :: rest) : eventOk c p e = true := by
  subst hs
  have := eventOk_of_splitFrom c p [] e rest hd
  simpa using this

/-! ### 3. the per-rule consequences of the discipline -/

/-- d0: in a disciplined history a correct validator's vote at round `r` is never preceded by one
of its own votes at a higher round -/
theorem no_earlier_higher_prevote {p : List Event} {n : Val} {r r' : Round}
    {w : Option Value} (h0 : noLaterRound p n r = true) (hm : Event.prevote n r' w ∈ p) :
    r' ≤ r := by
  unfold noLaterRound at h0
  have := List.all_eq_true.1 h0 _ hm
  simpa using this

/-- d0 used in the direction the agreement proof needs: the precommit of a correct validator at a
round below one of its prevotes lies before that prevote -/
theorem precommit_before_prevote {c : Cfg} {h p rest : List Event} (hd : disciplined c h = true)
    {m : Val} {r r'' : Round} {w v : Option Value} (hm : c.byz m = false)
    (hs : h = p ++ Event.prevote m r'' w :: rest) (hlt : r < r'')
    (hpc : Event.precommit m r v ∈ h) : Event.precommit m r v ∈ p := by
  rw [hs, List.mem_append, List.mem_cons] at hpc
  rcases hpc with hpc | hpc | hpc
  · exact hpc
  · cases hpc
  · exfalso
    obtain ⟨s, t, hst⟩ := List.append_of_mem hpc
    have hs' : h = (p ++ Event.prevote m r'' w :: s) ++ Event.precommit m r v :: t := by
      rw [hs, hst, List.append_assoc, List.cons_append]
    have hok := eventOk_of_split hd hs'
    simp only [eventOk, hm, Bool.false_or, Bool.and_eq_true] at hok
    have hle := no_earlier_higher_prevote hok.1.1
      (List.mem_append_right p List.mem_cons_self)
    exact Nat.not_lt.2 hle hlt

theorem anyPrecommitAt_of_mem {p : List Event} {n : Val} {r : Round} {v : Option Value}
    (hm : Event.precommit n r v ∈ p) : anyPrecommitAt p n r = true := by
  unfold anyPrecommitAt
  apply List.any_eq_true.2
  exact ⟨_, hm, by simp⟩

/-- d1 for precommits, one ordering: a correct validator's precommit is not preceded by another of
its precommits at the same round -/
theorem no_second_precommit {c : Cfg} {h p rest : List Event} (hd : disciplined c h = true)
    {m : Val} {r : Round} {v v' : Option Value} (hm : c.byz m = false)
    (hs : h = p ++ Event.precommit m r v :: rest) (hp : Event.precommit m r v' ∈ p) : False := by
  have hok := eventOk_of_split hd hs
  simp only [eventOk, hm, Bool.false_or, Bool.and_eq_true] at hok
  have := anyPrecommitAt_of_mem hp
  rw [this] at hok
  exact absurd hok.1.2 (by decide)

/-- d1: a correct validator precommits at most one value per round -/
theorem precommit_unique {c : Cfg} {h : List Event} (hd : disciplined c h = true)
    {m : Val} {r : Round} {v v' : Option Value} (hm : c.byz m = false)
    (h1 : Event.precommit m r v ∈ h) (h2 : Event.precommit m r v' ∈ h) : v = v' := by
  obtain ⟨p, rest, hs⟩ := List.append_of_mem h1
  have h2' := h2
  rw [hs, List.mem_append, List.mem_cons] at h2'
  rcases h2' with hp | hp | hp
  · exact (no_second_precommit hd hm hs hp).elim
  · cases hp; rfl
  · obtain ⟨s, t, hst⟩ := List.append_of_mem hp
    have hs' : h = (p ++ Event.precommit m r v :: s) ++ Event.precommit m r v' :: t := by
      rw [hs, hst, List.append_assoc, List.cons_append]
    exact (no_second_precommit hd hm hs' (List.mem_append_right p List.mem_cons_self)).elim

/-- d2: a correct validator's precommit for a block is backed by a polka in the history -/
theorem polka_of_precommit {c : Cfg} {h : List Event} (hd : disciplined c h = true)
    {m : Val} {r : Round} {b : Value} (hm : c.byz m = false)
    (h1 : Event.precommit m r (some b) ∈ h) : polka c h r (some b) = true := by
  obtain ⟨p, rest, hs⟩ := List.append_of_mem h1
  have hok := eventOk_of_split hd hs
  simp only [eventOk, hm, Bool.false_or, Bool.and_eq_true] at hok
  rw [hs]
  exact polka_mono prefix_sub hok.2

/-- d4: a correct validator's decision is backed by a commit quorum in the history -/
theorem commitQuorum_of_decide {c : Cfg} {h : List Event} (hd : disciplined c h = true)
    {m : Val} {r : Round} {b : Value} (hm : c.byz m = false)
    (h1 : Event.decide m r b ∈ h) : commitQuorum c h r b = true := by
  obtain ⟨p, rest, hs⟩ := List.append_of_mem h1
  have hok := eventOk_of_split hd hs
  simp only [eventOk, hm, Bool.false_or] at hok
  rw [hs]
  exact commitQuorum_mono prefix_sub hok

/-- d3 unpacked: the unlocking polka demanded from a correct validator that prevotes against an
earlier precommit of its own -/
theorem unlocking_of_lock {c : Cfg} {p : List Event} {m : Val} {r r'' : Round} {b : Value}
    {w : Option Value} (hl : lockRespected c p m r'' w = true)
    (hpc : Event.precommit m r (some b) ∈ p) (hlt : r < r'') (hw : w ≠ some b) :
    ∃ r1 v1, r < r1 ∧ r1 ≤ r'' ∧ v1 ≠ some b ∧ polka c p r1 v1 = true := by
  unfold lockRespected at hl
  have h1 := List.all_eq_true.1 hl _ hpc
  have hcond : (m == m && decide (r < r'') && (w != some b)) = true := by
    simp [hlt, hw]
  simp only [hcond, if_true] at h1
  unfold unlockingPolka at h1
  obtain ⟨e, _, he⟩ := List.any_eq_true.1 h1
  cases e with
  | prevote m1 r1 v1 =>
    simp only [Bool.and_eq_true, decide_eq_true_eq, bne_iff_ne, ne_eq] at he
    exact ⟨r1, v1, he.1.1.1, he.1.1.2, he.1.2, he.2⟩
  | precommit _ _ _ => simp at he
  | decide _ _ _ => simp at he

/-- the first element of a list satisfying a predicate, with the part of the list before it -/
theorem split_first (P : Event → Bool) (h : List Event) :
    ∀ e, e ∈ h → P e = true →
      ∃ p e' rest, h = p ++ e' :: rest ∧ P e' = true ∧ ∀ x, x ∈ p → P x = false := by
  induction h with
  | nil => intro e he; cases he
  | cons a t ih =>
    intro e he hP
    cases hPa : P a
    · have het : e ∈ t := by
        rcases List.mem_cons.1 he with rfl | het
        · rw [hP] at hPa; cases hPa
        · exact het
      obtain ⟨p, e', rest, hs, hPe', hfirst⟩ := ih e het hP
      refine ⟨a :: p, e', rest, by rw [hs, List.cons_append], hPe', ?_⟩
      intro x hx
      rcases List.mem_cons.1 hx with rfl | hx
      · exact hPa
      · exact hfirst x hx
    · exact ⟨[], a, t, rfl, hPa, fun x hx => by cases hx⟩

/-! ### 4. the key lemma and agreement -/

/-- the prevotes that go against the commit quorum of `some b` at round `r`: a prevote at round
`r''` for something else by a correct member of that quorum -/
def foreign (c : Cfg) (h : List Event) (r : Round) (b : Value) (r'' : Round) : Event → Bool
  | .prevote m r1 w => decide (r1 = r'') && (w != some b) && !c.byz m && precommitted h r (some b) m
  | _ => false

theorem foreign_prevote {c : Cfg} {h : List Event} {r : Round} {b : Value} {r'' : Round}
    {m : Val} {w : Option Value} (hw : w ≠ some b) (hm : c.byz m = false)
    (hpc : precommitted h r (some b) m = true) :
    foreign c h r b r'' (Event.prevote m r'' w) = true := by
  simp [foreign, hw, hm, hpc]

theorem foreign_elim {c : Cfg} {h : List Event} {r : Round} {b : Value} {r'' : Round} {e : Event}
    (hf : foreign c h r b r'' e = true) :
    ∃ m w, e = Event.prevote m r'' w ∧ w ≠ some b ∧ c.byz m = false ∧
      precommitted h r (some b) m = true := by
  cases e with
  | prevote m r1 w =>
    simp only [foreign, Bool.and_eq_true, decide_eq_true_eq, bne_iff_ne, ne_eq,
      Bool.not_eq_true'] at hf
    obtain ⟨⟨⟨rfl, hw⟩, hm⟩, hpc⟩ := hf
    exact ⟨m, w, rfl, hw, hm, hpc⟩
  | precommit _ _ _ => simp [foreign] at hf
  | decide _ _ _ => simp [foreign] at hf

/-- once a block has a commit quorum at round `r`, no later round has a polka for anything else -/
theorem no_foreign_polka (c : Cfg) (h : List Event) (hd : disciplined c h = true)
    (hb : byzBound c) (r : Round) (b : Value) (hq : commitQuorum c h r b = true) :
    ∀ r'', r < r'' → ∀ v'', v'' ≠ some b → polka c h r'' v'' = false := by
  intro r''
  induction r'' using Nat.strongRecOn with
  | ind r'' ih =>
    intro hr v'' hv
    cases hpol : polka c h r'' v''
    · rfl
    · exfalso
      -- a correct member of the commit quorum is in the polka
      obtain ⟨m0, _, hm1, hm2, hmb⟩ :=
        quorum_intersection c _ _ hb (polka_iff.1 hpol) (commitQuorum_iff.1 hq)
      -- the earliest foreign prevote of round r''
      obtain ⟨p, e, rest, hs, hfe, hfirst⟩ :=
        split_first (foreign c h r b r'') h _ (prevoted_iff.1 hm1) (foreign_prevote hv hmb hm2)
      obtain ⟨m, w, rfl, hw, hm, hpc⟩ := foreign_elim hfe
      -- its author precommitted `some b` at round `r` before it (d0), so d3 applies
      have hpc' : Event.precommit m r (some b) ∈ p :=
        precommit_before_prevote hd hm hs hr (precommitted_iff.1 hpc)
      have hok := eventOk_of_split hd hs
      simp only [eventOk, hm, Bool.false_or, Bool.and_eq_true] at hok
      obtain ⟨r1, v1, hlo, hhi, hv1, hpol1⟩ := unlocking_of_lock hok.2 hpc' hr hw
      have hsub : ∀ x, x ∈ p → x ∈ h := by
        intro x hx; rw [hs]; exact prefix_sub x hx
      rcases Nat.lt_or_ge r1 r'' with hlt | hge
      · -- a polka at a lower round: excluded by minimality
        have := ih r1 hlt hlo v1 hv1
        rw [polka_mono hsub hpol1] at this
        cases this
      · -- a polka at round r'' itself, but strictly earlier: it contains an earlier foreign prevote
        have hr1 : r1 = r'' := Nat.le_antisymm hhi hge
        subst hr1
        obtain ⟨m', _, hm1', hm2', hmb'⟩ :=
          quorum_intersection c _ _ hb (polka_iff.1 hpol1) (commitQuorum_iff.1 hq)
        have := hfirst _ (prevoted_iff.1 hm1')
        rw [foreign_prevote hv1 hmb' hm2'] at this
        cases this

/-- C01, layer L-A: in a disciplined history with less than a third of Byzantine power, two
correct validators never decide differently -/
theorem agreement_le (c : Cfg) (h : List Event) (hd : disciplined c h = true) (hb : byzBound c)
    (n n' : Val) (r r' : Round) (b b' : Value) (hn : c.byz n = false) (hn' : c.byz n' = false)
    (h1 : Event.decide n r b ∈ h) (h2 : Event.decide n' r' b' ∈ h) (hle : r ≤ r') : b = b' := by
  have hq := commitQuorum_of_decide hd hn h1
  have hq' := commitQuorum_of_decide hd hn' h2
  rcases Nat.lt_or_ge r r' with hlt | hge
  · -- different rounds: a correct precommitter of b' at r' saw a polka for b'
    obtain ⟨m, _, hm1, hmb⟩ := quorum_has_correct c _ hb (commitQuorum_iff.1 hq')
    have hpol := polka_of_precommit hd hmb (precommitted_iff.1 hm1)
    apply Classical.byContradiction
    intro hne
    have hne' : (some b' : Option Value) ≠ some b := by
      intro heq; cases heq; exact hne rfl
    have := no_foreign_polka c h hd hb r b hq r' hlt (some b') hne'
    rw [hpol] at this
    cases this
  · -- same round: the two commit quorums share a correct validator, which precommits once
    have hrr : r = r' := Nat.le_antisymm hle hge
    subst hrr
    obtain ⟨m, _, hm1, hm2, hmb⟩ :=
      quorum_intersection c _ _ hb (commitQuorum_iff.1 hq) (commitQuorum_iff.1 hq')
    have := precommit_unique hd hmb (precommitted_iff.1 hm1) (precommitted_iff.1 hm2)
    cases this
    rfl

theorem agreement (c : Cfg) (h : List Event) (hd : disciplined c h = true) (hb : byzBound c)
    (n n' : Val) (r r' : Round) (b b' : Value) (hn : c.byz n = false) (hn' : c.byz n' = false)
    (h1 : Event.decide n r b ∈ h) (h2 : Event.decide n' r' b' ∈ h) : b = b' := by
  rcases Nat.le_total r r' with hle | hle
  · exact agreement_le c h hd hb n n' r r' b b' hn hn' h1 h2 hle
  · exact (agreement_le c h hd hb n' n r' r b' b hn' hn h2 h1 hle).symm

theorem mem_decisions {c : Cfg} {h : List Event} {b : Value} (hm : b ∈ decisions c h) :
    ∃ n r, c.byz n = false ∧ Event.decide n r b ∈ h := by
  unfold decisions at hm
  obtain ⟨e, he, hf⟩ := List.mem_filterMap.1 hm
  cases e with
  | prevote _ _ _ => simp at hf
  | precommit _ _ _ => simp at hf
  | decide n r v =>
    cases hbz : c.byz n
    · simp only [hbz, Bool.false_eq_true, if_false, Option.some.injEq] at hf
      subst hf
      exact ⟨n, r, hbz, he⟩
    · simp [hbz] at hf

/-- the executable agreement monitor never fires on a disciplined history -/
theorem agreement_monitor (c : Cfg) (h : List Event) (hd : disciplined c h = true)
    (hb : byzBound c) : agree c h = true := by
  have key : ∀ x y, x ∈ decisions c h → y ∈ decisions c h → x = y := by
    intro x y hx hy
    obtain ⟨n, r, hn, h1⟩ := mem_decisions hx
    obtain ⟨n', r', hn', h2⟩ := mem_decisions hy
    exact agreement c h hd hb n n' r r' x y hn hn' h1 h2
  unfold agree
  cases hdec : decisions c h with
  | nil => rfl
  | cons b rest =>
    simp only
    apply List.all_eq_true.2
    intro x hx
    rw [hdec] at key
    have := key x b (List.mem_cons_of_mem b hx) List.mem_cons_self
    simp [this]

/-! ### 5. non-vacuity: the hypotheses are satisfiable and reach decisions -/

/-- four validators of power 1; validator 3 is Byzantine -/
def exCfg : Cfg := { vals := [0, 1, 2, 3], power := fun _ => 1, byz := fun n => n == 3 }

/-- Round 0: everybody prevotes block 7 (the Byzantine validator 3 also prevotes 8), but only
validator 0 sees the polka in time and precommits 7 (locking on it); 1 and 2 precommit nil and
validator 3 precommits both 7 and 8, so there is no commit quorum.  Round 1: block 7 again gets a
polka, all correct validators precommit it and decide it. -/
def exHist : List Event :=
  [ .prevote 0 0 (some 7), .prevote 1 0 (some 7), .prevote 3 0 (some 7), .prevote 3 0 (some 8),
    .prevote 2 0 (some 7),
    .precommit 0 0 (some 7), .precommit 1 0 none, .precommit 2 0 none,
    .precommit 3 0 (some 7), .precommit 3 0 (some 8),
    .prevote 0 1 (some 7), .prevote 1 1 (some 7), .prevote 2 1 (some 7),
    .prevote 3 1 (some 8), .prevote 3 1 (some 7),
    .precommit 0 1 (some 7), .precommit 1 1 (some 7), .precommit 3 1 (some 8),
    .precommit 2 1 (some 7),
    .decide 0 1 7, .decide 1 1 7, .decide 3 1 8, .decide 2 1 7 ]

theorem exCfg_byzBound : byzBound exCfg := by decide

theorem exHist_disciplined : disciplined exCfg exHist = true := by decide

/-- the correct validators do decide in the example (and the Byzantine one "decides" otherwise) -/
theorem exHist_decisions : decisions exCfg exHist = [7, 7, 7] := by decide

theorem exHist_agree : agree exCfg exHist = true :=
  agreement_monitor exCfg exHist exHist_disciplined exCfg_byzBound

/-- the hypotheses of `agreement` are jointly satisfiable by a history in which two distinct correct
validators decide in the presence of an equivocating Byzantine validator -/
theorem agreement_nonvacuous :
    ∃ c h, disciplined c h = true ∧ byzBound c ∧
      ∃ n n' r r' b b', n ≠ n' ∧ c.byz n = false ∧ c.byz n' = false ∧
        Event.decide n r b ∈ h ∧ Event.decide n' r' b' ∈ h ∧
        (∃ m r v v', c.byz m = true ∧ v ≠ v' ∧ Event.prevote m r v ∈ h ∧ Event.prevote m r v' ∈ h) :=
  ⟨exCfg, exHist, exHist_disciplined, exCfg_byzBound, 0, 2, 1, 1, 7, 7, by decide, by decide,
    by decide, by decide, by decide, 3, 0, some 7, some 8, by decide, by decide, by decide, by decide⟩

/-- A second disciplined history, exercising the releasing branch of d3: validator 0 locks on block 7
in round 0 (nobody else precommits it); in round 1 block 8 gets a polka from 1, 2 and 3, after which
validator 0 may (and does) prevote 8 against its lock; everybody precommits and decides 8. -/
def exUnlockHist : List Event :=
  [ .prevote 0 0 (some 7), .prevote 1 0 (some 7), .prevote 2 0 (some 7), .prevote 3 0 (some 7),
    .precommit 0 0 (some 7), .precommit 1 0 none, .precommit 2 0 none, .precommit 3 0 none,
    .prevote 1 1 (some 8), .prevote 2 1 (some 8), .prevote 3 1 (some 8), .prevote 0 1 (some 8),
    .precommit 0 1 (some 8), .precommit 1 1 (some 8), .precommit 2 1 (some 8),
    .decide 0 1 8, .decide 1 1 8, .decide 2 1 8 ]

theorem exUnlockHist_disciplined :
    disciplined exCfg exUnlockHist = true ∧ decisions exCfg exUnlockHist = [8, 8, 8] ∧
      unlockingPolka exCfg (exUnlockHist.take 11) 7 0 1 = true ∧
      -- without the polka (one prevote earlier) the same prevote would break d3
      lockRespected exCfg (exUnlockHist.take 10) 0 1 (some 8) = false := by decide

/-! ### 6. the discipline is needed -/

/-- the events of `h` that break the discipline, each with the index at which it occurs -/
def violationsFrom (c : Cfg) : List Event → List Event → List (Nat × Event)
  | _, [] => []
  | p, e :: rest =>
    (if eventOk c p e then [] else [(p.length, e)]) ++ violationsFrom c (p ++ [e]) rest

/-- Round 0: block 7 gets a polka; validators 0, 1 and the Byzantine 3 precommit it, validator 0 sees
the commit quorum and decides 7, validator 2 times out (precommits nil).  Round 1: validator 1,
although locked on 7 and without any polka to release it, prevotes 8 (breaking d3) together with 2
and 3; block 8 gets a polka and a commit quorum and validator 2 decides 8. -/
def badHist : List Event :=
  [ .prevote 0 0 (some 7), .prevote 1 0 (some 7), .prevote 2 0 (some 7), .prevote 3 0 (some 7),
    .precommit 0 0 (some 7), .precommit 1 0 (some 7), .precommit 3 0 (some 7), .precommit 2 0 none,
    .decide 0 0 7,
    .prevote 1 1 (some 8), .prevote 2 1 (some 8), .prevote 3 1 (some 8),
    .precommit 1 1 (some 8), .precommit 2 1 (some 8), .precommit 3 1 (some 8),
    .decide 2 1 8 ]

/-- With `byzBound` true and a single violation of d3 by a single correct validator (event 9: it
respects d0 and d1, nobody equivocates, every other event of the history is fine) two correct
validators decide differently: the discipline hypothesis of `agreement` is not decorative. -/
theorem discipline_needed :
    byzBound exCfg ∧
    violationsFrom exCfg [] badHist = [(9, Event.prevote 1 1 (some 8))] ∧
    exCfg.byz 1 = false ∧
    noLaterRound (badHist.take 9) 1 1 = true ∧
    anyPrevoteAt (badHist.take 9) 1 1 = false ∧
    lockRespected exCfg (badHist.take 9) 1 1 (some 8) = false ∧
    disciplined exCfg badHist = false ∧
    decisions exCfg badHist = [7, 8] ∧
    agree exCfg badHist = false := by decide

/-- `violationsFrom` is empty exactly on disciplined histories (so the example above really has one
broken event and nothing else wrong) -/
theorem violationsFrom_nil_iff (c : Cfg) (h : List Event) :
    ∀ p, violationsFrom c p h = [] ↔ disciplinedFrom c p h = true := by
  induction h with
  | nil => intro p; simp [violationsFrom, disciplinedFrom]
  | cons e rest ih =>
    intro p
    simp only [violationsFrom, disciplinedFrom, List.append_eq_nil_iff, Bool.and_eq_true, ih]
    cases eventOk c p e <;> simp

end Props.C01
