import LinkVerif.Props.C14Search

/-!
# C14 — histories of writes / syncs / rotations on the current tree (RotateFile flushes before renaming)
-/
namespace Props.C14
open Model.Wal

theorem write_files (B : Nat) (g : Group) (x : Bytes) : (g.write B x).files = g.files := by
  unfold Group.write Group.appendHead
  split
  · rfl
  · split
    · rfl
    · simp only []
      split <;> rfl

/-- `bufio.Writer.Write` never loses or reorders bytes: disk head + buffer grows by exactly the bytes written -/
theorem write_bytes (B : Nat) (g : Group) (x : Bytes) :
    (g.write B x).head.getD [] ++ (g.write B x).buf = g.head.getD [] ++ g.buf ++ x := by
  unfold Group.write Group.appendHead
  split
  · simp
  · split
    · rename_i h
      have : g.buf = [] := by simpa using h
      simp [this]
    · simp only []
      split
      · simp
      · simp

/-- the records written so far, grouped by file: rotated files are whole records, head file + buffer are whole records -/
def HistInv (c : Codec) (g : Group) (ps : List Bytes) : Prop :=
  ∃ (pss : List (List Bytes)) (psh : List Bytes), ps = pss.flatten ++ psh ∧ g.files = pss.map (frames c) ∧ g.head.getD [] ++ g.buf = frames c psh

theorem histInv_write (B : Nat) (c : Codec) (g : Group) (ps : List Bytes) (p : Bytes) (h : HistInv c g ps) :
    HistInv c (g.write B (frame c p)) (ps ++ [p]) := by
  obtain ⟨pss, psh, h1, h2, h3⟩ := h
  refine ⟨pss, psh ++ [p], by rw [h1]; simp, by rw [write_files, h2], ?_⟩
  rw [write_bytes, h3, frames_append]
  simp [frames]

theorem histInv_flush (c : Codec) (g : Group) (ps : List Bytes) (h : HistInv c g ps) : HistInv c g.flush ps := by
  obtain ⟨pss, psh, h1, h2, h3⟩ := h
  exact ⟨pss, psh, h1, h2, by simpa [Group.flush, Group.appendHead] using h3⟩

/-- RotateFile with the flush (fix ed188e7): the rotated file is exactly the records since the last rotation -/
theorem histInv_rotate (c : Codec) (g : Group) (ps : List Bytes) (h : HistInv c g ps) :
    HistInv c ((g.rotate true).getD g) ps := by
  obtain ⟨pss, psh, h1, h2, h3⟩ := h
  by_cases hb : g.buf = []
  · cases hh : g.head with
    | none =>
      have e : (g.rotate true).getD g = g := by simp [Group.rotate, hb, hh]
      rw [e]; exact ⟨pss, psh, h1, h2, h3⟩
    | some x =>
      have hx : x = frames c psh := by simpa [hh, hb] using h3
      refine ⟨pss ++ [psh], [], by rw [h1]; simp, ?_, ?_⟩
      · simp [Group.rotate, hb, hh, h2, hx]
      · simp [Group.rotate, hb, hh, frames]
  · have hne : g.buf.isEmpty = false := by simpa using hb
    refine ⟨pss ++ [psh], [], by rw [h1]; simp, ?_, ?_⟩
    · simp [Group.rotate, hne, Group.appendHead, h2, h3]
    · simp [Group.rotate, hne, Group.appendHead, frames]

theorem histInv_run (B : Nat) (c : Codec) : ∀ (ops : List Op) (g : Group) (ps : List Bytes),
    HistInv c g ps → ops.all (fun o => !o.isCut) = true →
    HistInv c (run B true c g ops) (ps ++ payloads ops) := by
  intro ops
  induction ops with
  | nil => intro g ps h _; simpa [run, payloads] using h
  | cons o ops ih =>
    intro g ps h hc
    have hc' : ops.all (fun o => !o.isCut) = true := by
      simp only [List.all_cons, Bool.and_eq_true] at hc; exact hc.2
    have ho : o.isCut = false := by
      simp only [List.all_cons, Bool.and_eq_true] at hc; simpa using hc.1
    cases o with
    | write p =>
      have := ih (g.write B (frame c p)) (ps ++ [p]) (histInv_write B c g ps p h) hc'
      simpa [run, stepOp, payloads] using this
    | sync =>
      have := ih g.flush ps (histInv_flush c g ps h) hc'
      simpa [run, stepOp, payloads] using this
    | rotate =>
      have := ih ((g.rotate true).getD g) ps (histInv_rotate c g ps h) hc'
      simpa [run, stepOp, payloads] using this
    | cutHead n => simp [Op.isCut] at ho

theorem histInv_init (c : Codec) : HistInv c {} [] := ⟨[], [], by simp, by simp, by simp [frames]⟩

/-- **history_on_disk**: after any history without crash cuts (rotation flushes first), the disk is record-aligned:
the rotated files are whole records and the head file is a prefix (of length `head.length`) of whole records -/
theorem history_on_disk (B : Nat) (c : Codec) (ops : List Op) (hc : ops.all (fun o => !o.isCut) = true) :
    ∃ (pss : List (List Bytes)) (psh : List Bytes), payloads ops = pss.flatten ++ psh ∧ (run B true c {} ops).files = pss.map (frames c) ∧
      (run B true c {} ops).head.getD [] = (frames c psh).take ((run B true c {} ops).head.getD []).length ∧
      ((run B true c {} ops).buf = [] → (run B true c {} ops).head.getD [] = frames c psh) := by
  obtain ⟨pss, psh, h1, h2, h3⟩ := histInv_run B c ops {} [] (histInv_init c) hc
  refine ⟨pss, psh, by simpa using h1, h2, ?_, ?_⟩
  · rw [← h3]; simp
  · intro hb; rw [← h3, hb]; simp

/-- **The marker clause for flushed histories (current tree).**  For every buffer size, every history of writes,
syncs and rotations with valid payloads and monotone markers: when nothing is left in the buffered writer (after a
`sync`, a clean stop, or a restart) and the head exists, `SearchForEndHeight h` finds the marker iff it was written,
the returned reader continues exactly after a marker for `h`, and replaying from it (`catchupReplay`) yields exactly
the records written after it, then io.EOF. -/
def C14_marker_flushed_statement : Prop :=
  ∀ (B : Nat) (c : Codec) (ops : List Op) (h : Nat) (ign : Bool), Bounded c →
    (∀ p ∈ payloads ops, Valid c p) → ((payloads ops).filterMap c.eh).Pairwise (· ≤ ·) →
    ops.all (fun o => !o.isCut) = true →
    (run B true c {} ops).buf = [] → (run B true c {} ops).head.isSome = true →
    (((search c (run B true c {} ops) h ign).isFound = true ↔ ∃ p ∈ payloads ops, c.eh p = some h) ∧
     (∀ i rest, search c (run B true c {} ops) h ign = Search.found i rest →
        ∃ pre m post, payloads ops = pre ++ m :: post ∧ c.eh m = some h ∧ rest = frames c post ∧
          decodeAll c Tail.eof rest = (post, Res.eof)))

theorem C14_marker_flushed : C14_marker_flushed_statement := by
  intro B c ops h ign hb hv hmono hc hbuf hhead
  obtain ⟨pss, psh, h1, h2, _, h4⟩ := history_on_disk B c ops hc
  have hh := h4 hbuf
  have hhd : (run B true c {} ops).head = some (frames c psh ++ []) := by
    cases hx : (run B true c {} ops).head with
    | none => rw [hx] at hhead; simp at hhead
    | some x => rw [hx] at hh; simp at hh; simp [hh]
  have hD : OnDisk c (run B true c {} ops) pss psh [] := ⟨h2, hhd⟩
  have hrem : decode1 c Tail.eof [] = (Res.eof, []) := by simp [decode1]
  rw [h1] at hv hmono ⊢
  have key := search_aligned_clean c hb _ h ign pss psh [] [] hD hrem hv hmono
  constructor
  · constructor
    · intro hf
      by_cases hm : ∃ p ∈ pss.flatten ++ psh, c.eh p = some h
      · exact hm
      · have := key.2 (fun p hp he => hm ⟨p, hp, he⟩)
        rw [this] at hf; simp [Search.isFound] at hf
    · intro hm
      obtain ⟨i, pre, m, post, _, _, hf⟩ := key.1 hm
      rw [hf]; rfl
  · intro i rest hs
    by_cases hm : ∃ p ∈ pss.flatten ++ psh, c.eh p = some h
    · obtain ⟨i', pre, m, post, e, hme, hf⟩ := key.1 hm
      rw [hf] at hs
      cases hs
      refine ⟨pre, m, post, e, hme, by simp, ?_⟩
      rw [List.append_nil]
      exact intact_replay c hb post (fun p hp => hv p (by rw [e]; simp [hp]))
    · have := key.2 (fun p hp he => hm ⟨p, hp, he⟩)
      rw [this] at hs; cases hs

/-- non-vacuity of `C14_marker_flushed`: a history with an un-synced run that overflows the (16-byte) buffer, a rotation
and a final sync satisfies every hypothesis; both markers are found, an unwritten one is not -/
example :
    (∀ p ∈ payloads straddleOps, Valid toyCodec p) ∧
    ((payloads straddleOps).filterMap toyCodec.eh).Pairwise (· ≤ ·) ∧
    straddleOps.all (fun o => !o.isCut) = true ∧
    (run 16 true toyCodec {} straddleOps).buf = [] ∧ (run 16 true toyCodec {} straddleOps).head.isSome = true := by
  refine ⟨?_, by decide, by decide, by decide, by decide⟩
  intro p hp
  apply valid_of_validB
  revert p
  decide

/-- un-synced history on the CURRENT tree: marker 1 synced, rotation, then two un-synced records of which the second
overflows the buffer, so that bufio flushes the head up to the middle of its length field -/
def unflushedOps : List Op :=
  [.write [0xEE, 1], .sync, .rotate, .write [7], .write (List.replicate 12 0xFF)]

set_option maxRecDepth 100000 in
/-- what the model (= the code) does on it: the head on disk ends 7 bytes into a record, the search answers
"failed to read length" although marker 1 is completely on disk in the rotated file -/
theorem unflushed_behaviour :
    let g := run 16 true toyCodec {} unflushedOps
    g.files.map List.length = [10] ∧ g.head.map List.length = some 16 ∧ g.buf.length = 13 ∧
    search toyCodec g 1 true = Search.err Res.errLen ∧
    markerOnDisk toyCodec (payloads unflushedOps) (g.stream 0).length 1 = true := by
  decide

set_option maxRecDepth 100000 in
/-- **C14_marker_unflushed_counterexample**: the marker clause quantified over ALL histories (search at any moment,
also while the buffered writer holds the rest of a record) is false on the current tree even without a crash: it is the
torn-tail defect (`wal-search-torn-tail`) seen through bufio's own mid-record flush.  The node only searches at start-up,
when the buffer is empty — that is `C14_marker_flushed`; a crash at this moment leaves exactly this disk state. -/
theorem C14_marker_unflushed_counterexample : ¬ C14_marker_statement true false := by
  intro h
  have := h 16 toyCodec unflushedOps 1 true (by decide) toyCodec_bounded (by decide) (by decide) (by decide) (by decide)
  revert this
  decide

end Props.C14
