/-
C12 (part 4): `partset_reassembles_only_original`, stated over OP SEQUENCES of a receiving node
(admit a part a peer sent / read the set), for every byte string and every part size.
Hypotheses (explicit): `Inj2 H2` (Merkle two-hash) and `Function.Injective LH` (part hash).
-/
import LinkVerif.Props.C12

namespace Props.C12
open Model.Merkle Model.PartSet

/-- what a node does with a receiving part set -/
inductive Op (D : Type) where
  | add (p : Part D)   -- `AddPart` with whatever a peer sent
  | read               -- `GetReader()` + read everything

/-- run an op sequence on the model; every `read` contributes its result (the `PanicSanity` of an
incomplete set is a result: the real callers test `IsComplete` first), a panic of `AddPart` ends the run -/
def runOps {D : Type} [DecidableEq D] (H2 : D → D → D) (LH : Bytes → D) :
    PS D → List (Op D) → Except Panic (PS D × List (Except Panic Bytes))
  | ps, [] => .ok (ps, [])
  | ps, .add p :: rest =>
    match addPart H2 LH ps p with
    | .error e => .error e
    | .ok (ps', _, _) => runOps H2 LH ps' rest
  | ps, .read :: rest =>
    match runOps H2 LH ps rest with
    | .error e => .error e
    | .ok (ps', rs) => .ok (ps', assemble ps :: rs)

/-- under the invariant a read yields the original bytes or (incomplete set) nothing -/
theorem assemble_of_inv {D : Type} [Inhabited D] (H2 : D → D → D) (LH : Bytes → D) (orig : List Bytes)
    (hne : orig ≠ []) (ps : PS D) (hinv : Inv H2 LH orig ps) :
    (isComplete ps = false ∧ assemble ps = .error .sanity) ∨
    (isComplete ps = true ∧ ps.parts = orig.map some ∧ assemble ps = .ok orig.flatten) := by
  cases hc : isComplete ps with
  | false =>
    left
    refine ⟨rfl, ?_⟩
    unfold assemble
    rw [if_pos (by simp [hc])]
  | true =>
    right
    have hp := complete_parts H2 LH orig ps hinv hc
    refine ⟨rfl, hp, ?_⟩
    unfold assemble
    rw [if_neg (by simp [hc]), hp, if_neg (by simpa using hne), allBytes_map_some]

/-- the converse of `complete_parts`: a set whose slots all hold the original parts is complete -/
theorem complete_of_parts {D : Type} [Inhabited D] (H2 : D → D → D) (LH : Bytes → D) (orig : List Bytes) (ps : PS D)
    (hinv : Inv H2 LH orig ps) (hp : ps.parts = orig.map some) : isComplete ps = true := by
  have hcnt : ps.parts.countP Option.isSome = orig.length := by
    rw [hp, List.countP_map]
    have : (Option.isSome ∘ (some : Bytes → Option Bytes)) = fun _ => true := by funext x; rfl
    rw [this, List.countP_true]
  simp only [isComplete, decide_eq_true_eq]
  rw [hinv.count, hinv.total, hcnt]

/-- the invariant along an op sequence: no panic, invariant at the end, every read is all-or-nothing -/
theorem runOps_inv {D : Type} [Inhabited D] [DecidableEq D] (H2 : D → D → D) (LH : Bytes → D)
    (hinj : Inj2 H2) (hleaf : Function.Injective LH) (orig : List Bytes) (hne : orig ≠ []) (ops : List (Op D)) :
    ∀ (ps : PS D), Inv H2 LH orig ps →
      ∃ ps' reads, runOps H2 LH ps ops = .ok (ps', reads) ∧ Inv H2 LH orig ps' ∧
        ∀ r ∈ reads, r = .error .sanity ∨ r = .ok orig.flatten := by
  induction ops with
  | nil => intro ps hinv; exact ⟨ps, [], rfl, hinv, by simp⟩
  | cons op rest ih =>
    intro ps hinv
    cases op with
    | add p =>
      obtain ⟨ps1, a, e, h1, hinv1, _, _⟩ := addPart_step H2 LH hinj hleaf orig ps p hinv
      obtain ⟨ps', reads, hrun, hinv', hreads⟩ := ih ps1 hinv1
      exact ⟨ps', reads, by simp only [runOps, h1, hrun], hinv', hreads⟩
    | read =>
      obtain ⟨ps', reads, hrun, hinv', hreads⟩ := ih ps hinv
      refine ⟨ps', assemble ps :: reads, by simp only [runOps, hrun], hinv', ?_⟩
      intro r hr
      rcases List.mem_cons.mp hr with h | h
      · subst h
        rcases assemble_of_inv H2 LH orig hne ps hinv with ⟨_, h⟩ | ⟨_, _, h⟩
        · exact Or.inl h
        · exact Or.inr h
      · exact hreads r h

theorem chunks_ne_nil (sz : Nat) (hsz : 0 < sz) (data : Bytes) (hd : data ≠ []) : chunks sz data ≠ [] := by
  rw [chunks]
  split
  · rename_i h
    rcases h with h | h
    · omega
    · exact absurd h hd
  · simp

theorem newFromData_nonempty {D : Type} [Inhabited D] (H2 : D → D → D) (LH : Bytes → D) (d : Bytes) (sz : Int) (ps : PS D)
    (h : newFromData H2 LH d sz = .ok ps) : d ≠ [] := by
  unfold newFromData at h
  split at h
  · cases h
  · split at h
    · cases h
    · split at h
      · cases h
      · assumption

/-- **partset_reassembles_only_original**.  Take ANY byte string `b` and ANY part size for which the
proposer's `NewPartSetFromData` succeeds, give a receiver the header (total, root) of that set, and let it
execute ANY sequence of `AddPart`s with arbitrary parts (wrong or negative index, wrong proof, truncated
or foreign bytes, duplicates) interleaved with reads.  Then
 * nothing panics,
 * every read returned either nothing (the sanity refusal of an incomplete set) or exactly `b`,
 * at the end the set is complete IF AND ONLY IF every slot holds the original part of that index,
 * and a complete set reads back exactly `b`. -/
theorem partset_reassembles_only_original {D : Type} [Inhabited D] [DecidableEq D] (H2 : D → D → D) (LH : Bytes → D)
    (hinj : Inj2 H2) (hleaf : Function.Injective LH) (b : Bytes) (sz : Int) (src : PS D)
    (hsrc : newFromData H2 LH b sz = .ok src) (ops : List (Op D)) :
    ∃ ps reads, runOps H2 LH (emptyPS src.total src.hash) ops = .ok (ps, reads) ∧
      (∀ r ∈ reads, r = .error .sanity ∨ r = .ok b) ∧
      (isComplete ps = true ↔ ps.parts = (chunks sz.toNat b).map some) ∧
      (isComplete ps = true → assemble ps = .ok b) := by
  obtain ⟨hsz, ht, hr⟩ := newFromData_ok H2 LH b sz src hsrc
  have hb := newFromData_nonempty H2 LH b sz src hsrc
  have hsz' : 0 < sz.toNat := by omega
  have hne := chunks_ne_nil sz.toNat hsz' b hb
  have hfl := chunks_flatten sz.toNat hsz' _ b rfl
  rw [ht, hr]
  obtain ⟨ps, reads, hrun, hinv, hreads⟩ :=
    runOps_inv H2 LH hinj hleaf (chunks sz.toNat b) hne ops _ (inv_empty H2 LH (chunks sz.toNat b))
  refine ⟨ps, reads, hrun, ?_, ⟨complete_parts H2 LH _ ps hinv, complete_of_parts H2 LH _ ps hinv⟩, ?_⟩
  · intro r hr'
    rw [← hfl]
    exact hreads r hr'
  · intro hc
    rcases assemble_of_inv H2 LH _ hne ps hinv with ⟨hc', _⟩ | ⟨_, _, h⟩
    · rw [hc] at hc'; cases hc'
    · rw [h, hfl]

/-- the proposer's own set (every slot filled by `NewPartSetFromData`) reads back `b` -/
theorem source_set_reads_back {D : Type} [Inhabited D] (H2 : D → D → D) (LH : Bytes → D) (b : Bytes) (sz : Int) (src : PS D)
    (hsrc : newFromData H2 LH b sz = .ok src) : assemble src = .ok b := by
  unfold newFromData at hsrc
  split at hsrc
  · cases hsrc
  · split at hsrc
    · cases hsrc
    · split at hsrc
      · cases hsrc
      · rename_i hz hneg hb
        simp only [Except.ok.injEq] at hsrc
        subst hsrc
        have hsz' : 0 < sz.toNat := by omega
        have hne := chunks_ne_nil sz.toNat hsz' b hb
        unfold assemble
        rw [if_neg (by simp [isComplete]), if_neg (by simpa using hne), allBytes_map_some]
        simp only
        rw [chunks_flatten sz.toNat hsz' _ b rfl]

/-! non-vacuity: a run with a forgery, a negative index, an early read and a duplicate, completing -/
example :
    runOps Tree.node (fun b => Tree.leaf b.length) (emptyPS 2 (Tree.node (.leaf 1) (.leaf 2)))
      [.add ⟨1, [7, 7], [.leaf 1]⟩, .read, .add ⟨0, [9, 9], [.leaf 2]⟩, .add ⟨-1, [9], [.leaf 2]⟩,
       .add ⟨0, [9], [.leaf 2]⟩, .add ⟨1, [7, 7], [.leaf 1]⟩, .read]
    = .ok ({ total := 2, hash := Tree.node (.leaf 1) (.leaf 2), parts := [some [9], some [7, 7]], count := 2 },
           [.error .sanity, .ok [9, 7, 7]]) := by rfl

end Props.C12
