/-
Line protocol helpers for the driver (core only).
  tokens are separated by single spaces, `key=value` pairs, byte strings in lower-case hex
-/
namespace Go.Proto

def hexDigit? (c : Char) : Option Nat :=
  if '0' ≤ c ∧ c ≤ '9' then some (c.toNat - '0'.toNat)
  else if 'a' ≤ c ∧ c ≤ 'f' then some (c.toNat - 'a'.toNat + 10)
  else if 'A' ≤ c ∧ c ≤ 'F' then some (c.toNat - 'A'.toNat + 10)
  else none

def hexDecodeAux : List Char → List UInt8 → Option (List UInt8)
  | [], acc => some acc.reverse
  | [_], _ => none
  | a :: b :: rest, acc =>
    match hexDigit? a, hexDigit? b with
    | some x, some y => hexDecodeAux rest (UInt8.ofNat (x * 16 + y) :: acc)
    | _, _ => none

/-- "-" denotes the empty byte string -/
def hexDecode? (s : String) : Option (List UInt8) :=
  if s == "-" then some [] else hexDecodeAux s.toList []

def hexChar (n : Nat) : Char :=
  if n < 10 then Char.ofNat ('0'.toNat + n) else Char.ofNat ('a'.toNat + n - 10)

def hexEncode (bs : List UInt8) : String :=
  if bs.isEmpty then "-" else
  String.ofList (bs.foldr (fun b acc => hexChar (b.toNat / 16) :: hexChar (b.toNat % 16) :: acc) [])

def hexEncodeBA (bs : ByteArray) : String := hexEncode bs.toList

/-- value of `key=` among tokens -/
def arg? (toks : List String) (key : String) : Option String :=
  let p := key ++ "="
  match toks.find? (fun t => t.startsWith p) with
  | some t => some ((t.drop p.length).toString)
  | none => none

def argInt? (toks : List String) (key : String) : Option Int :=
  (arg? toks key).bind String.toInt?

def argNat? (toks : List String) (key : String) : Option Nat :=
  (arg? toks key).bind String.toNat?

def argHex? (toks : List String) (key : String) : Option (List UInt8) :=
  (arg? toks key).bind hexDecode?

def splitComma (s : String) : List String :=
  if s.isEmpty || s == "-" then [] else s.splitOn ","

def argInts? (toks : List String) (key : String) : Option (List Int) :=
  (arg? toks key).bind fun s => (splitComma s).mapM String.toInt?

def argHexes? (toks : List String) (key : String) : Option (List (List UInt8)) :=
  (arg? toks key).bind fun s => (splitComma s).mapM hexDecode?

def showInts (xs : List Int) : String :=
  if xs.isEmpty then "-" else ",".intercalate (xs.map toString)

def tokens (line : String) : List String :=
  (line.splitOn " ").filter (fun t => !t.isEmpty)

end Go.Proto
