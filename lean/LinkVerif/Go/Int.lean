/-
Go integer semantics used by the generated (T1) definitions and the hand-written models.
Core Lean only.
-/
namespace Go

def minI64 : Int := -9223372036854775808
def maxI64 : Int := 9223372036854775807
def maxU64 : Int := 18446744073709551615

/-- two's complement wrap of a mathematical integer into int64 -/
def wrapI64 (x : Int) : Int := (x + 9223372036854775808) % 18446744073709551616 - 9223372036854775808

/-- wrap of a mathematical integer into uint64 -/
def wrapU64 (x : Int) : Int := x % 18446744073709551616

def InI64 (x : Int) : Prop := minI64 ≤ x ∧ x ≤ maxI64
def InU64 (x : Int) : Prop := 0 ≤ x ∧ x ≤ maxU64

instance (x : Int) : Decidable (InI64 x) := by unfold InI64; exact inferInstance
instance (x : Int) : Decidable (InU64 x) := by unfold InU64; exact inferInstance

theorem wrapI64_id {x : Int} (h : InI64 x) : wrapI64 x = x := by
  unfold InI64 minI64 maxI64 at h; unfold wrapI64; omega

theorem wrapI64_in (x : Int) : InI64 (wrapI64 x) := by
  unfold InI64 minI64 maxI64 wrapI64; omega

theorem wrapU64_id {x : Int} (h : InU64 x) : wrapU64 x = x := by
  unfold InU64 maxU64 at h; unfold wrapU64; omega

theorem wrapU64_in (x : Int) : InU64 (wrapU64 x) := by
  unfold InU64 maxU64 wrapU64; omega

/-- saturating clamp into int64 -/
def clampI64 (x : Int) : Int := if x < minI64 then minI64 else if x > maxI64 then maxI64 else x

theorem clampI64_in (x : Int) : InI64 (clampI64 x) := by
  unfold InI64 clampI64 minI64 maxI64; split <;> (try split) <;> omega

end Go
