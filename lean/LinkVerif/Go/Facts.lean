/-
Shapes of the structural facts (T2) emitted by /verif/extract as Lean data.
-/
namespace Go

/-- a call site: the enclosing function, the callee text, and the source line -/
structure CallSite where
  fn : String
  callee : String
  line : Nat
deriving Repr, DecidableEq

end Go
