/-
Executable CRC-32C (Castagnoli, reflected polynomial 0x82F63B78), as Go's
`crc32.Checksum(data, crc32.MakeTable(crc32.Castagnoli))`.  Core Lean only, bitwise (no table), so the kernel
can evaluate it on short vectors.  Compared byte for byte with Go's on every C14 correspondence run
(every record header written by the real WALEncoder carries it).
-/
namespace Go.Crc32c

def poly : UInt32 := 0x82F63B78

@[inline] def bit (c : UInt32) : UInt32 :=
  if c &&& 1 == 1 then (c >>> 1) ^^^ poly else c >>> 1

@[inline] def byteStep (c : UInt32) (b : UInt8) : UInt32 :=
  let c := c ^^^ b.toUInt32
  bit (bit (bit (bit (bit (bit (bit (bit c)))))))

def update (c : UInt32) (bs : List UInt8) : UInt32 := bs.foldl byteStep c

def checksum (bs : List UInt8) : UInt32 := ~~~ (update 0xFFFFFFFF bs)

/-- the checksum as a natural number `< 2^32` -/
def checksumNat (bs : List UInt8) : Nat := (checksum bs).toNat

theorem checksumNat_lt (bs : List UInt8) : checksumNat bs < 4294967296 := (checksum bs).toNat_lt

-- standard check values: CRC-32C("123456789") = 0xE3069283, CRC-32C("") = 0, CRC-32C(32 × 0x00) = 0x8A9136AA
set_option maxRecDepth 100000 in
example : checksum [0x31, 0x32, 0x33, 0x34, 0x35, 0x36, 0x37, 0x38, 0x39] = 0xE3069283 := by decide
example : checksum [] = 0 := by decide
set_option maxRecDepth 100000 in
example : checksum (List.replicate 32 0) = 0x8A9136AA := by decide

end Go.Crc32c
