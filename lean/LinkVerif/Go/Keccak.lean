/-
Executable legacy Keccak-256 (padding 0x01, as golang.org/x/crypto/sha3.NewLegacyKeccak256), core Lean only.
Used by the driver to compare hashes (trie roots, Merkle roots, block ids) byte for byte with the Go code.
Self-tested against Go on every run by the harnesses that use it (and by the `example`s below).
-/
namespace Go.Keccak

def rc : Array UInt64 := #[
  0x0000000000000001, 0x0000000000008082, 0x800000000000808A, 0x8000000080008000,
  0x000000000000808B, 0x0000000080000001, 0x8000000080008081, 0x8000000000008009,
  0x000000000000008A, 0x0000000000000088, 0x0000000080008009, 0x000000008000000A,
  0x000000008000808B, 0x800000000000008B, 0x8000000000008089, 0x8000000000008003,
  0x8000000000008002, 0x8000000000000080, 0x000000000000800A, 0x800000008000000A,
  0x8000000080008081, 0x8000000000008080, 0x0000000080000001, 0x8000000080008008]

/-- rotation offsets, indexed x + 5*y -/
def rot : Array Nat := #[
  0, 1, 62, 28, 27,
  36, 44, 6, 55, 20,
  3, 10, 43, 25, 39,
  41, 45, 15, 21, 8,
  18, 2, 61, 56, 14]

@[inline] def rotl (x : UInt64) (n : Nat) : UInt64 :=
  if n % 64 == 0 then x else (x <<< (UInt64.ofNat (n % 64))) ||| (x >>> (UInt64.ofNat (64 - n % 64)))

def round (a : Array UInt64) (r : Nat) : Array UInt64 := Id.run do
  -- theta
  let mut c : Array UInt64 := Array.replicate 5 0
  for x in [0:5] do
    c := c.set! x (a[x]! ^^^ a[x+5]! ^^^ a[x+10]! ^^^ a[x+15]! ^^^ a[x+20]!)
  let mut a := a
  for x in [0:5] do
    let d := c[(x+4)%5]! ^^^ rotl c[(x+1)%5]! 1
    for y in [0:5] do
      a := a.set! (x+5*y) (a[x+5*y]! ^^^ d)
  -- rho and pi
  let mut b : Array UInt64 := Array.replicate 25 0
  for x in [0:5] do
    for y in [0:5] do
      b := b.set! (y + 5*((2*x+3*y)%5)) (rotl a[x+5*y]! rot[x+5*y]!)
  -- chi
  for x in [0:5] do
    for y in [0:5] do
      a := a.set! (x+5*y) (b[x+5*y]! ^^^ ((~~~ b[(x+1)%5+5*y]!) &&& b[(x+2)%5+5*y]!))
  -- iota
  a := a.set! 0 (a[0]! ^^^ rc[r]!)
  return a

def permute (a : Array UInt64) : Array UInt64 := Id.run do
  let mut a := a
  for r in [0:24] do
    a := round a r
  return a

def rate : Nat := 136

def loadLE (bs : ByteArray) (off : Nat) : UInt64 := Id.run do
  let mut v : UInt64 := 0
  for i in [0:8] do
    v := v ||| ((bs.get! (off + i)).toUInt64 <<< (UInt64.ofNat (8*i)))
  return v

def absorbBlock (st : Array UInt64) (bs : ByteArray) (off : Nat) : Array UInt64 := Id.run do
  let mut st := st
  for i in [0:rate/8] do
    st := st.set! i (st[i]! ^^^ loadLE bs (off + 8*i))
  return permute st

def keccak256 (msg : ByteArray) : ByteArray := Id.run do
  -- pad: 0x01 ... 0x80
  let padLen := rate - msg.size % rate
  let mut m := msg
  for i in [0:padLen] do
    let b : UInt8 := (if i == 0 then 0x01 else 0x00) ||| (if i == padLen - 1 then 0x80 else 0x00)
    m := m.push b
  let mut st : Array UInt64 := Array.replicate 25 0
  for blk in [0:m.size / rate] do
    st := absorbBlock st m (blk * rate)
  let mut out := ByteArray.empty
  for i in [0:4] do
    for j in [0:8] do
      out := out.push ((st[i]! >>> (UInt64.ofNat (8*j))).toUInt8)
  return out

def keccak256L (msg : List UInt8) : List UInt8 := (keccak256 ⟨msg.toArray⟩).toList

end Go.Keccak
