/-
Model of proof verification (libs/trie/proof.go VerifyProof / get) over decoded ("collapsed") nodes.  Core Lean only.

`CNode` is what `decodeNode` returns: children are embedded nodes, hash references, values or nil.
`collapse H n` is the decoder-side view of the honest encoding `enc H n` (hasher.hashChildren + store(force=false)):
a child whose encoding is shorter than 32 bytes is embedded, any other child is the reference `H (enc child)`;
a short node's value child and a full node's slot 16 are kept as they are.
`verify` is parametrised by the decoder (`decodeNode`) and by the proof database (`proofDb.Load`), and carries fuel
because the Go loop `for i := 0; ; i++` has no bound of its own.
-/
import LinkVerif.Model.Trie

namespace Model.Trie

inductive CNode where
  | nil
  | value (v : Bytes)
  | hash (h : Bytes)
  | short (k : List Nib) (c : CNode)
  | full (c : Nib → CNode)

instance : Inhabited CNode := ⟨.nil⟩

def collapse (H : Bytes → Bytes) : Node → CNode
  | .nil => .nil
  | .value v => .value v
  | .short k c =>
    let cc := collapse H c
    .short k (if c.isValue || (enc H c).length < 32 then cc else .hash (H (enc H c)))
  | .full c => .full (fun i =>
      let cc := collapse H (c i)
      if i = term || (enc H (c i)).length < 32 then cc else .hash (H (enc H (c i))))

/-- the outcome of proof.go `get` inside one decoded node -/
inductive Step where
  | found (v : Bytes)
  | absent
  | goto (h : Bytes) (rest : List Nib)
  | panic                                  -- `key[0]` with the key exhausted

def cget : CNode → List Nib → Step
  | .nil, _ => .absent
  | .value v, _ => .found v
  | .hash h, key => .goto h key
  | .short k c, key =>
    match strip k key with
    | some r => cget c r
    | none => .absent
  | .full c, i :: r => cget (c i) r
  | .full _, [] => .panic

/-- decoder outcome: value, error return, or Go panic -/
inductive Dec (α : Type) where
  | ok (a : α)
  | err
  | panic

instance : Monad Dec where
  pure := .ok
  bind x f := match x with
    | .ok a => f a
    | .err => .err
    | .panic => .panic

inductive VRes where
  | value (v : Bytes)      -- `return cld, i+1, nil`
  | absent                 -- `return nil, i, nil`
  | error                  -- proof node missing / bad proof node
  | panic
  | fuel                   -- model artefact: the walk did not finish within the given number of nodes
deriving DecidableEq, Repr

def verify (H : Bytes → Bytes) (decode : Bytes → Dec CNode) (db : Bytes → Option Bytes) :
    Nat → Bytes → List Nib → VRes
  | 0, _, _ => .fuel
  | f + 1, want, key =>
    match db want with
    | none => .error
    | some buf =>
      match decode buf with
      | .err => .error
      | .panic => .panic
      | .ok n =>
        match cget n key with
        | .found v => .value v
        | .absent => .absent
        | .goto h rest => verify H decode db f h rest
        | .panic => .panic

/-- a content-addressed proof database built from a list of node encodings (the TestBadProof convention) -/
def dbOf (H : Bytes → Bytes) (nodes : List Bytes) : Bytes → Option Bytes :=
  fun h => nodes.find? (fun b => H b == h)

end Model.Trie
