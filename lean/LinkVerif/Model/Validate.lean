/-
Model for C02: what a correct validator checks before voting for a proposed block
(`consensus/validation.go: validateBlock`, `consensus/state.go: defaultDoPrevote / enterPrecommit`).
Blocks are abstract records carrying the outcome of each individual check of `validateBlock`
against the node's chain status; the decision logic is transcribed from the code.  Core Lean only.
-/
namespace Model.Validate

/-- the individual checks of `validateBlock` (in source order) evaluated for one block against the status -/
structure Checks where
  basic : Bool          -- Block.ValidateBasic: NumTxs, LastCommitHash, LastCommit.ValidateBasic, DataHash, EvidenceHash
  chainId : Bool
  height : Bool
  lastBlockId : Bool
  totalTxs : Bool
  consensusHash : Bool
  validatorsHash : Bool -- or block.Recover ≥ 1
  lastCommit : Bool     -- height 1: no precommits; otherwise size + VerifyCommit (+2/3 correctly signed, C03)
  evidence : Bool       -- each item verifies, at most one FaultValidatorsEvidence, exactly one when required
deriving Repr, DecidableEq

/-- `validateBlock` = all of them -/
def Checks.all (c : Checks) : Bool :=
  c.basic && c.chainId && c.height && c.lastBlockId && c.totalTxs && c.consensusHash &&
  c.validatorsHash && c.lastCommit && c.evidence

structure Block where
  id : Nat
  checks : Checks       -- outcome of validateBlock's parts against the current status
  evidenceOk : Bool     -- cs.checkBlockEvidence
  appOk : Bool          -- appmgr.CheckBlock (execution result, parent hash, data hash)
deriving Repr, DecidableEq

def validateBlock (b : Block) : Bool := b.checks.all

/-- the node state relevant to the decision (one height; the status is fixed within a height) -/
structure Node where
  locked : Option Block
  proposal : Option Block
deriving Repr, DecidableEq

inductive Out where
  | vote (b : Option Nat)     -- signed vote for block id / nil
  | panic                     -- PanicConsensus (≥ 1/3 Byzantine: a polka for an invalid block)
deriving Repr, DecidableEq

/-- `defaultDoPrevote` -/
def doPrevote (n : Node) : Out :=
  match n.locked with
  | some l => .vote (some l.id)
  | none =>
    match n.proposal with
    | none => .vote none
    | some b =>
      if !validateBlock b then .vote none
      else if !b.evidenceOk then .vote none
      else if !b.appOk then .vote none
      else .vote (some b.id)

/-- `enterPrecommit` given the polka of this round (`none` = no +2/3, `some none` = +2/3 nil) -/
def enterPrecommit (n : Node) (polka : Option (Option Nat)) : Node × Out :=
  match polka with
  | none => (n, .vote none)
  | some none => ({ n with locked := none }, .vote none)
  | some (some id) =>
    match n.locked with
    | some l =>
      if l.id = id then (n, .vote (some id))        -- relock
      else lockProposal n id
    | none => lockProposal n id
where
  lockProposal (n : Node) (id : Nat) : Node × Out :=
    match n.proposal with
    | some b =>
      if b.id = id then
        if !validateBlock b then (n, .panic)
        else if !b.evidenceOk then (n, .panic)
        else if !b.appOk then (n, .panic)
        else ({ n with locked := some b }, .vote (some id))
      else ({ locked := none, proposal := none }, .vote none)   -- polka for a block we do not have: unlock
    | none => ({ n with locked := none }, .vote none)

/-- inputs of the per-height decision machine -/
inductive In where
  | setProposal (b : Block)             -- a complete proposal block arrived (any block a proposer can build)
  | newRound                            -- proposal cleared
  | prevote
  | precommit (polka : Option (Option Nat))
  | unlockOnPolka                       -- addVote: later polka for something else
deriving Repr

def step (n : Node) : In → Node × Option Out
  | .setProposal b => ({ n with proposal := some b }, none)
  | .newRound => ({ n with proposal := none }, none)
  | .prevote => (n, some (doPrevote n))
  | .precommit p => let (n', o) := enterPrecommit n p; (n', some o)
  | .unlockOnPolka => ({ n with locked := none }, none)

def run : Node → List In → Node × List Out
  | n, [] => (n, [])
  | n, i :: is =>
    let (n', o) := step n i
    let (n'', os) := run n' is
    (n'', match o with | some x => x :: os | none => os)

end Model.Validate
