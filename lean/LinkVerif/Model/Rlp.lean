/-
C11, layer 1: the RLP framing of libs/ser (go-ethereum RLP) as an executable model.  Core Lean only.

  Item ::= str Bytes | list (List Item)
  enc  : Item → Bytes                      (encbuf.encodeString / list headers: puthead, putint)
  dec  : Bytes → Except Err (Item × Bytes) (Stream.readKind + the strict canonical-size rules of Stream.Bytes / List)

`readHead` is the pure header parser shared with layer 2 (Model/Ser.lean models the Stream state machine on top of it).
Sizes are Go `uint64`: a size header carries at most 8 big-endian bytes (`putint`/`readUint`).
-/
namespace Model.Rlp

abbrev Bytes := List UInt8

/-- error classes of libs/ser/decode.go (plus `fuel`, which the theorems show is never produced with the fuel `dec` supplies
    on accepted inputs, and `panic`, the class of a Go run-time panic) -/
inductive Err where
  | eof | valueTooLarge | elemTooLarge | canonSize | canonInt | expectedString | expectedList
  | uintOverflow | notAtEOL | notInList | eol | tooFew | tooLong | tooShort | badBool | parseInt | badTime
  | unknownPrefix | moreThanOne | negBig | unregistered | unsupported | fuel | panic
deriving DecidableEq, Repr, Inhabited

inductive Item where
  | str (bs : Bytes)
  | list (is : List Item)
deriving Repr, Inhabited

inductive Kind where
  | byte | string | list
deriving DecidableEq, Repr, Inhabited

/-! ### integers in size headers: `putint` / `readUint` -/

/-- minimal big-endian bytes of `n` with at most `f` digits (most significant first) -/
def beBytesF : Nat → Nat → Bytes
  | 0, _ => []
  | f + 1, n => if n = 0 then [] else beBytesF f (n / 256) ++ [UInt8.ofNat (n % 256)]

/-- `putint`: a uint64 in the least number of big-endian bytes -/
def beBytes (n : Nat) : Bytes := beBytesF 8 n

/-- big-endian value (`binary.BigEndian.Uint64` of the right-aligned buffer) -/
def beVal (bs : Bytes) : Nat := bs.foldl (fun a b => a * 256 + b.toNat) 0

/-! ### encoder -/

/-- `puthead`: one tag byte for sizes < 56, else tag + length-of-length, then the size big-endian -/
def encHead (small large : Nat) (size : Nat) : Bytes :=
  if size < 56 then [UInt8.ofNat (small + size)]
  else UInt8.ofNat (large + (beBytes size).length) :: beBytes size

/-- `encbuf.encodeString` -/
def encStr (bs : Bytes) : Bytes :=
  match bs with
  | [b] => if b < 0x80 then [b] else encHead 0x80 0xB7 1 ++ [b]
  | _ => encHead 0x80 0xB7 bs.length ++ bs

mutual
  def enc : Item → Bytes
    | .str bs => encStr bs
    | .list is => encHead 0xC0 0xF7 (encList is).length ++ encList is
  def encList : List Item → Bytes
    | [] => []
    | i :: is => enc i ++ encList is
end

/-! ### decoder -/

/-- `Stream.readUint` for a size header of `ll` bytes followed by the `size < 56 → ErrCanonSize` test of `readKind` -/
def readSize (ll : Nat) (r : Bytes) : Except Err (Nat × Bytes) :=
  if r.length < ll then .error .valueTooLarge
  else
    let d := r.take ll
    if ll > 1 ∧ d.head? = some 0 then .error .canonSize
    else if beVal d < 56 then .error .canonSize
    else .ok (beVal d, r.drop ll)

/-- `Stream.readKind` without the input-limit bookkeeping: (kind, size, byteval, rest) -/
def readHead (b : Bytes) : Except Err (Kind × Nat × UInt8 × Bytes) :=
  match b with
  | [] => .error .eof
  | t :: r =>
    if t < 0x80 then .ok (.byte, 0, t, r)
    else if t < 0xB8 then .ok (.string, t.toNat - 0x80, 0, r)
    else if t < 0xC0 then
      match readSize (t.toNat - 0xB7) r with
      | .error e => .error e
      | .ok (sz, r') => .ok (.string, sz, 0, r')
    else if t < 0xF8 then .ok (.list, t.toNat - 0xC0, 0, r)
    else
      match readSize (t.toNat - 0xF7) r with
      | .error e => .error e
      | .ok (sz, r') => .ok (.list, sz, 0, r')

/-- a one-byte string below 0x80 must be written as the byte itself (`size == 1 && b[0] < 128 → ErrCanonSize`) -/
def single7 (p : Bytes) : Bool :=
  match p with
  | [x] => decide (x < 0x80)
  | _ => false

mutual
  /-- one item from the front of `b` -/
  def decF : Nat → Bytes → Except Err (Item × Bytes)
    | 0, _ => .error .fuel
    | f + 1, b =>
      match readHead b with
      | .error e => .error e
      | .ok (.byte, _, bv, r) => .ok (.str [bv], r)
      | .ok (.string, sz, _, r) =>
        if r.length < sz then .error .valueTooLarge
        else if single7 (r.take sz) then .error .canonSize
        else .ok (.str (r.take sz), r.drop sz)
      | .ok (.list, sz, _, r) =>
        if r.length < sz then .error .valueTooLarge
        else
          match decListF f (r.take sz) with
          | .error e => .error e
          | .ok is => .ok (.list is, r.drop sz)
  /-- a whole payload as a sequence of items -/
  def decListF : Nat → Bytes → Except Err (List Item)
    | 0, _ => .error .fuel
    | _ + 1, [] => .ok []
    | f + 1, b =>
      match decF f b with
      | .error e => .error e
      | .ok (i, r) =>
        match decListF f r with
        | .error e => .error e
        | .ok is => .ok (i :: is)
end

/-- the decoder: total, fuel proportional to the input -/
def dec (b : Bytes) : Except Err (Item × Bytes) := decF (2 * b.length + 2) b

/-- `DecodeBytes`: exactly one value, no trailing data -/
def decExact (b : Bytes) : Except Err Item :=
  match dec b with
  | .error e => .error e
  | .ok (i, []) => .ok i
  | .ok (_, _ :: _) => .error .moreThanOne

/-! ### the second parser of the format: libs/ser/raw.go (Split / SplitString / SplitList / CountValues), used by the trie
    node decoder and by stateObject.GetCommittedState -/

/-- `Split`: kind, content and rest of the first value; lists are not entered -/
def split (b : Bytes) : Except Err (Kind × Bytes × Bytes) :=
  match readHead b with
  | .error e => .error e
  | .ok (.byte, _, bv, r) => .ok (.byte, [bv], r)
  | .ok (k, sz, _, r) =>
    if r.length < sz then .error .valueTooLarge
    else if k == .string && single7 (r.take sz) then .error .canonSize
    else .ok (k, r.take sz, r.drop sz)

def splitString (b : Bytes) : Except Err (Bytes × Bytes) :=
  match split b with
  | .error e => .error e
  | .ok (.list, _, _) => .error .expectedString
  | .ok (_, c, r) => .ok (c, r)

def splitList (b : Bytes) : Except Err (Bytes × Bytes) :=
  match split b with
  | .error e => .error e
  | .ok (.list, c, r) => .ok (c, r)
  | .ok (_, _, _) => .error .expectedList

/-- `CountValues`: the number of values a payload consists of -/
def countValues : Nat → Bytes → Except Err Nat
  | _, [] => .ok 0
  | 0, _ => .error .fuel
  | f + 1, b => match split b with
    | .error e => .error e
    | .ok (_, _, r) => match countValues f r with
      | .error e => .error e
      | .ok n => .ok (n + 1)

/-! ### measures -/

mutual
  /-- what a decoder has to allocate for an item: one node + its bytes -/
  def Item.weight : Item → Nat
    | .str bs => 1 + bs.length
    | .list is => 1 + weightList is
  def weightList : List Item → Nat
    | [] => 0
    | i :: is => i.weight + weightList is
end

mutual
  /-- all sizes fit a uint64 (what Go can represent at all) -/
  def Item.Sized : Item → Prop
    | .str bs => bs.length < 2 ^ 64
    | .list is => (encList is).length < 2 ^ 64 ∧ SizedList is
  def SizedList : List Item → Prop
    | [] => True
    | i :: is => i.Sized ∧ SizedList is
end

mutual
  /-- fuel that suffices to decode `enc i` -/
  def Item.fuel : Item → Nat
    | .str _ => 1
    | .list is => 1 + fuelList is
  def fuelList : List Item → Nat
    | [] => 1
    | i :: is => 1 + max i.fuel (fuelList is)
end

end Model.Rlp
