/-
Model of `types/part_set.go` as it is today (defects included): `NewPartSetFromData`,
`NewPartSetFromHeader`, `AddPart`, `IsComplete`, `GetReader` (the bytes a complete set yields),
`BitArray`, `PartSetHeader.Equals/IsZero`.  Core Lean only.

Partiality is explicit (`Except Panic`): `AddPart` indexes `ps.parts[part.Index]` after checking
`part.Index < 0 || part.Index >= ps.total` (the lower bound was added by the repair commit
"fix: reject block parts with a negative index"; before it `Index = -1` panicked),
`NewPartSetFromHeader` calls `make([]*Part, header.Total)` without a check of its own (its callers that take
the header from a peer bound `Total` first: fix 1b2bd5e, `Props.C12.parts_total_guards_vetted`),
`NewPartSetFromData` dereferences a nil root for empty data and divides by `partSize`, `GetReader`
panics on an incomplete set and indexes `parts[0]`.
-/
import LinkVerif.Model.Merkle

namespace Model.PartSet
open Model.Merkle

inductive Panic where
  | indexOutOfRange   -- slice index out of range
  | makeSlice         -- makeslice: len out of range
  | nilDeref          -- nil pointer dereference
  | divideByZero
  | sliceBounds       -- slice bounds out of range
  | sanity            -- cmn.PanicSanity
deriving Repr, DecidableEq

/-- the small error enum of `AddPart` -/
inductive Err where
  | none | unexpectedIndex | invalidProof
deriving Repr, DecidableEq

structure Part (D : Type) where
  index : Int
  bytes : Bytes
  aunts : List D
deriving Repr, DecidableEq

/-- `PartSet`: `parts[i] = some bytes` once part `i` was admitted (the stored proof is not observable
through the part-set reader and is not kept). `parts.length` is the length of the Go slice. -/
structure PS (D : Type) where
  total : Int
  hash : D
  parts : List (Option Bytes)
  count : Int
deriving Repr, DecidableEq

structure Header (D : Type) where
  total : Int
  hash : D
deriving Repr, DecidableEq

def PS.header {D : Type} (ps : PS D) : Header D := ⟨ps.total, ps.hash⟩

/-- `PartSetHeader.IsZero` -/
def Header.isZero {D : Type} (h : Header D) : Bool := decide (h.total = 0)

/-- `PartSetHeader.Equals` -/
def Header.equals {D : Type} [DecidableEq D] (a b : Header D) : Bool := decide (a.total = b.total) && decide (a.hash = b.hash)

/-- the largest `n` for which `make([]*Part, n)` does not panic with "len out of range" on 64-bit
(`n * 8 ≤ maxAlloc = 2^48`); between a few million and this bound the Go runtime may instead die of
memory exhaustion, which is outside the model (the harness never sends such totals). -/
def maxSliceLen : Int := 35184372088832

/-- what `NewPartSetFromHeader` returns when `make` succeeds -/
def emptyPS {D : Type} (total : Int) (hash : D) : PS D :=
  { total := total, hash := hash, parts := List.replicate total.toNat none, count := 0 }

/-- `NewPartSetFromHeader` -/
def newFromHeader {D : Type} (total : Int) (hash : D) : Except Panic (PS D) :=
  if total < 0 ∨ total > maxSliceLen then .error .makeSlice else .ok (emptyPS total hash)

/-- `data[i*partSize : min(len(data), (i+1)*partSize)]` for `i = 0 .. total-1` -/
def chunks (sz : Nat) (data : Bytes) : List Bytes :=
  if _h : sz = 0 ∨ data = [] then [] else data.take sz :: chunks sz (data.drop sz)
termination_by data.length
decreasing_by
  have : data.length ≠ 0 := by
    intro h0
    exact _h (Or.inr (List.length_eq_zero_iff.mp h0))
  simp only [List.length_drop]
  omega

/-- the full part list of `NewPartSetFromData` (every part with its proof) -/
def partsOf {D : Type} [Inhabited D] (H2 : D → D → D) (LH : Bytes → D) (cs : List Bytes) : List (Part D) :=
  let prs := proofs H2 (cs.map LH)
  (cs.zip prs).zipIdx.map (fun ((c, pr), i) => { index := (i : Int), bytes := c, aunts := pr })

/-- `NewPartSetFromData`: a complete set.  `partSize ≤ 0` always panics (division by zero, negative
`make`, or a slice with a negative bound), empty data dereferences the nil root node. -/
def newFromData {D : Type} [Inhabited D] (H2 : D → D → D) (LH : Bytes → D) (data : Bytes) (partSize : Int) :
    Except Panic (PS D) :=
  if partSize = 0 then .error .divideByZero
  else if partSize < 0 then .error .sliceBounds
  else if data = [] then .error .nilDeref
  else
    let cs := chunks partSize.toNat data
    .ok { total := cs.length, hash := root H2 (cs.map LH), parts := cs.map some, count := cs.length }

/-- `AddPart`, with the order of the checks as in the code: index bounds, then the index expression
(which panics if the slice is shorter than `total`; never for a well-formed set), duplicate, proof. -/
def addPart {D : Type} [DecidableEq D] (H2 : D → D → D) (LH : Bytes → D) (ps : PS D) (p : Part D) :
    Except Panic (PS D × Bool × Err) :=
  if p.index < 0 ∨ p.index ≥ ps.total then .ok (ps, false, .unexpectedIndex)
  else
    match ps.parts[p.index.toNat]? with
    | none => .error .indexOutOfRange
    | some (some _) => .ok (ps, false, .none)
    | some none =>
      if verify H2 p.index ps.total (LH p.bytes) p.aunts ps.hash then
        .ok ({ ps with parts := ps.parts.set p.index.toNat (some p.bytes), count := ps.count + 1 }, true, .none)
      else .ok (ps, false, .invalidProof)

/-- a whole arrival sequence; stops at the first panic (the receive routine does not survive it) -/
def addAll {D : Type} [DecidableEq D] (H2 : D → D → D) (LH : Bytes → D) : PS D → List (Part D) → Except Panic (PS D)
  | ps, [] => .ok ps
  | ps, p :: rest =>
    match addPart H2 LH ps p with
    | .error e => .error e
    | .ok (ps', _, _) => addAll H2 LH ps' rest

/-- `IsComplete` -/
def isComplete {D : Type} (ps : PS D) : Bool := decide (ps.count = ps.total)

def allBytes : List (Option Bytes) → Option (List Bytes)
  | [] => some []
  | none :: _ => none
  | some b :: rest => (allBytes rest).map (b :: ·)

/-- everything `GetReader()` yields (`ioutil.ReadAll`) -/
def assemble {D : Type} (ps : PS D) : Except Panic Bytes :=
  if ¬ isComplete ps then .error .sanity
  else if ps.parts = [] then .error .indexOutOfRange
  else
    match allBytes ps.parts with
    | none => .error .nilDeref
    | some bs => .ok bs.flatten

/-- `BitArray().String()` content: one flag per slot -/
def bits {D : Type} (ps : PS D) : List Bool := ps.parts.map Option.isSome

end Model.PartSet
