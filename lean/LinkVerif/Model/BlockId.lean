/-
Model of block identity (`types/block.go`): `Header.Hash` byte for byte (simple-Merkle root over the
sorted map of named field hashes, each field RLP-encoded by `libs/ser` and Keccak-hashed), and the vetted
classification of every `Header` field (hashed / covered by the part-set hash only / local cache).
Core Lean only.
-/
import LinkVerif.Model.Merkle

namespace Model.BlockId
open Model.Merkle

/-- how `libs/ser` encodes the field -/
inductive Kind where
  | str       -- Go string: RLP string; the EMPTY string hashes as the empty input (`cmn.IsEmpty`)
  | uint      -- uint64/uint32: RLP string of the minimal big-endian bytes
  | bytes     -- fixed-size byte array (Address, Hash): RLP string, never "empty"
  | blockID   -- BlockID{Hash, PartSetHeader{Total int, Hash []byte}}: nested lists, `int` as ASCII decimal
deriving Repr, DecidableEq

/-- VETTED: the header fields that `Header.Hash` covers, with their encoding kind (key = field name) -/
def hashedFields : List (String × Kind) :=
  [("ChainID", .str), ("Height", .uint), ("Coinbase", .bytes), ("Time", .uint), ("NumTxs", .uint),
   ("TotalTxs", .uint), ("ParentHash", .bytes), ("LastBlockID", .blockID), ("LastCommitHash", .bytes),
   ("ValidatorsHash", .bytes), ("ConsensusHash", .bytes), ("DataHash", .bytes), ("StateHash", .bytes),
   ("ReceiptHash", .bytes), ("GasLimit", .uint), ("GasUsed", .uint), ("EvidenceHash", .bytes)]

/-- VETTED: header fields that are NOT in `Header.Hash` but are serialised, hence covered only by the
part-set hash (the other half of the signed `BlockID`) -/
def partsOnlyFields : List String := ["Recover"]

/-- VETTED: header fields that are neither hashed nor serialised: local caches that never reach a peer -/
def localOnlyFields : List String := ["bloom"]

structure BlockIDv where
  hash : Bytes
  total : Int
  phash : Bytes
deriving Repr, DecidableEq

inductive FVal where
  | str (b : Bytes)
  | uint (n : Nat)
  | bytes (b : Bytes)
  | blockID (v : BlockIDv)
deriving Repr, DecidableEq

/-- RLP list header + payload -/
def rlpList (payload : Bytes) : Bytes :=
  if payload.length < 56 then UInt8.ofNat (0xc0 + payload.length) :: payload
  else UInt8.ofNat (0xf7 + (beBytes payload.length).length) :: (beBytes payload.length ++ payload)

/-- `int` is written as its decimal ASCII text -/
def asciiInt (i : Int) : Bytes := (toString i).toUTF8.toList

def encVal : FVal → Bytes
  | .str b => encodeByteSlice b
  | .uint n => encodeByteSlice (beBytes n)
  | .bytes b => encodeByteSlice b
  | .blockID v => rlpList (encodeByteSlice v.hash ++ rlpList (encodeByteSlice (asciiInt v.total) ++ encodeByteSlice v.phash))

/-- `aminoHasher(item).Hash()` -/
def fieldHash : FVal → Bytes
  | .str [] => keccak []
  | v => keccak (encVal v)

/-- `merkle.KVPair.Hash` -/
def kvHash (key : Bytes) (valueHash : Bytes) : Bytes :=
  keccak (encodeByteSlice key ++ encodeByteSlice valueHash)

/-- `bytes.Compare(a, b) < 0` -/
def bytesLt : Bytes → Bytes → Bool
  | [], [] => false
  | [], _ :: _ => true
  | _ :: _, [] => false
  | a :: as, b :: bs => if a < b then true else if b < a then false else bytesLt as bs

/-- insertion by key (`KVPairs.Less` compares the key first; its tie-break on the value is never consulted
because the keys of the `Header.Hash` map literal are distinct — `Props.C12.hash_keys_nodup_and_real`) -/
def insertByKey {D : Type} (x : Bytes × D) : List (Bytes × D) → List (Bytes × D)
  | [] => [x]
  | y :: rest => if bytesLt x.1 y.1 then x :: y :: rest else y :: insertByKey x rest

/-- `KVPairs.Sort` for distinct keys -/
def sortByKey {D : Type} (l : List (Bytes × D)) : List (Bytes × D) := l.foldr insertByKey []

/-- `merkle.SimpleHashFromMap` on (key, value-hash) pairs, generic in the digest type -/
def mapRootG {D : Type} [Inhabited D] (H2 : D → D → D) (KV : Bytes → D → D) (kvs : List (Bytes × D)) : D :=
  root H2 ((sortByKey kvs).map (fun kv => KV kv.1 kv.2))

/-- `Header.Hash` from the values of the hashed fields (in the order of `hashedFields`), generic in the
two-hash `H2`, the key/value pair hash `KV` and the field hash `FH` -/
def headerHashG {D : Type} [Inhabited D] (H2 : D → D → D) (KV : Bytes → D → D) (FH : FVal → D) (vals : List FVal) : D :=
  mapRootG H2 KV ((hashedFields.zip vals).map (fun kfv => (kfv.1.1.toUTF8.toList, FH kfv.2)))

/-- `Header.Hash`, byte for byte (Keccak-256) -/
def headerHash (vals : List FVal) : Bytes := headerHashG h2K kvHash fieldHash vals

end Model.BlockId
