/-
Model of `libs/crypto/merkle/simple_tree.go` + `simple_proof.go` (simple Merkle tree, proofs,
`computeHashFromAunts`) and of the byte format of `SimpleHashFromTwoHashes`.
Core Lean only.

The tree functions are generic in the digest type `D` and in the two-hash function `H2`, so that the
theorems can state the cryptographic law (injectivity of `H2`) as an explicit hypothesis and exhibit a
model of it (non-vacuity); the driver instantiates `D := List UInt8`, `H2 := h2K` (Keccak-256 over the
two RLP-string-encoded operands, exactly the bytes the Go code hashes).

Go's `nil` result of `simpleHashFromHashes` on the empty list is `default` (the empty byte string for
`D = Bytes`); the `nil` result of `computeHashFromAunts` (= "no hash") is `none`.
`int` values are unbounded `Int` here: `computeHashFromAunts` only computes `(total+1)/2`, `index-numLeft`,
`total-numLeft` on values it has already bounded by `0 ≤ index < total`, so nothing wraps for
`total < MaxInt64` (the harness never sends `total = MaxInt64`; stated in checks/C12.json).
-/
import LinkVerif.Go.Keccak

namespace Model.Merkle

abbrev Bytes := List UInt8

/-! ## simple tree -/

/-- `simpleHashFromHashes`: split at `(n+1)/2`, no leaf/inner domain separation -/
def root {D : Type} [Inhabited D] (H2 : D → D → D) : List D → D
  | [] => default
  | [h] => h
  | a :: b :: t =>
    H2 (root H2 ((a :: b :: t).take (((a :: b :: t).length + 1) / 2)))
       (root H2 ((a :: b :: t).drop (((a :: b :: t).length + 1) / 2)))
termination_by hs => hs.length
decreasing_by
  all_goals simp only [List.length_take, List.length_drop, List.length_cons]
  all_goals omega

/-- `SimpleProofsFromHashers` (the aunts of every leaf, from the leaf's sibling up to the root's child) -/
def proofs {D : Type} [Inhabited D] (H2 : D → D → D) : List D → List (List D)
  | [] => []
  | [_] => [[]]
  | a :: b :: t =>
    -- the two sibling roots are computed once (not once per leaf)
    let rr := root H2 ((a :: b :: t).drop (((a :: b :: t).length + 1) / 2))
    let rl := root H2 ((a :: b :: t).take (((a :: b :: t).length + 1) / 2))
    (proofs H2 ((a :: b :: t).take (((a :: b :: t).length + 1) / 2))).map (· ++ [rr])
    ++ (proofs H2 ((a :: b :: t).drop (((a :: b :: t).length + 1) / 2))).map (· ++ [rl])
termination_by hs => hs.length
decreasing_by
  all_goals simp only [List.length_take, List.length_drop, List.length_cons]
  all_goals omega

/-- `computeHashFromAunts` on the REVERSED aunt list (the Go code peels `innerHashes[len-1]`), so the
recursion is structural.  `none` = Go's `nil`. -/
def computeRev {D : Type} (H2 : D → D → D) (leaf : D) : Int → Int → List D → Option D
  | index, total, [] =>
    if index ≥ total ∨ index < 0 ∨ total ≤ 0 then none
    else if total = 1 then some leaf else none
  | index, total, a :: rest =>
    if index ≥ total ∨ index < 0 ∨ total ≤ 0 then none
    else if total = 1 then none
    else if index < (total + 1) / 2 then
      match computeRev H2 leaf index ((total + 1) / 2) rest with
      | none => none
      | some l => some (H2 l a)
    else
      match computeRev H2 leaf (index - (total + 1) / 2) (total - (total + 1) / 2) rest with
      | none => none
      | some r => some (H2 a r)

def computeHashFromAunts {D : Type} (H2 : D → D → D) (index total : Int) (leaf : D) (aunts : List D) : Option D :=
  computeRev H2 leaf index total aunts.reverse

/-- `SimpleProof.Verify`: `computedHash != nil && bytes.Equal(computedHash, rootHash)` -/
def verify {D : Type} [DecidableEq D] (H2 : D → D → D) (index total : Int) (leaf : D) (aunts : List D) (rootHash : D) : Bool :=
  match computeHashFromAunts H2 index total leaf aunts with
  | none => false
  | some c => decide (c = rootHash)

/-! ## the bytes that are hashed -/

/-- big-endian, no leading zeros -/
def beBytes (n : Nat) : Bytes :=
  if _h : n = 0 then [] else beBytes (n / 256) ++ [UInt8.ofNat (n % 256)]
termination_by n
decreasing_by omega

/-- `ser.EncodeByteSlice` = RLP string encoding of a byte slice (nil and empty alike) -/
def encodeByteSlice (b : Bytes) : Bytes :=
  match b with
  | [x] => if x < 0x80 then [x] else [0x81, x]
  | _ =>
    if b.length < 56 then UInt8.ofNat (0x80 + b.length) :: b
    else UInt8.ofNat (0xb7 + (beBytes b.length).length) :: (beBytes b.length ++ b)

/-- `SimpleHashFromTwoHashes(left, right)` with Keccak-256 -/
def h2K (l r : Bytes) : Bytes := Go.Keccak.keccak256L (encodeByteSlice l ++ encodeByteSlice r)

/-- `crypto.Keccak256` -/
def keccak (b : Bytes) : Bytes := Go.Keccak.keccak256L b

end Model.Merkle
