/-
Model for C05 (second part): what the application computes from the committed state at the end of a block, beyond the
transactions — the things a node could get differently from another node without any transaction being at fault.

 * `app/app.go: calculateCandidates` + `types/candidate.go: CalRank, RandomSort` — the election of the next candidates.
   Input: the candidates of the candidates contract IN THE ORDER THE CONTRACT LISTS THEM (a `std::set` of key strings:
   ascending), their scores and deposits, the hash of the block's last commit.  `Rand = Keccak(hash ‖ address)[0..8) & MaxInt64`,
   `rank = a/(a+b+c)·score/Σscore + b/(a+b+c)·deposit/maxDeposit + c/(a+b+c)·rand/MaxInt64` (exact rationals: `big.Rat`),
   then a weighted shuffle driven by the floats of Go's `math/rand` seeded with `hash[0..8)`: at position `i` the float
   `f` picks the first `j` with `f·Σ_{k≥i} rank_k < Σ_{i≤k≤i+j} rank_k` and swaps `i` with `i+j`.
   All ranks of one election share one denominator, so the model works with the numerators (naturals); a float `f` is the
   numerator `n` of `f = n / 2^53`.  The float stream itself is an INPUT of the model (the harness derives it from the
   salt with Go's generator).
 * `app/app.go: updateCandidatesbyOrder` outside election heights: candidates whose produce counter fell to `-Threshold` or
   below go to the end with the counter reset — except those at `PunishThreshold` (duplicate vote), which leave the list.
 * `app/app.go: processBlockEvidence`: a fold over the block's evidence LIST (the order the block fixes) of per-candidate
   counter updates; candidates are looked up in a map, never iterated.
 * `types/bloom9.go: CreateBloom` — the OR of the blooms of the logs.
Core Lean only.
-/
import LinkVerif.Go.Keccak

namespace Model.Election

abbrev Bytes := List UInt8

structure Cand where
  addr : Bytes
  score : Nat
  deposit : Nat
  deriving Repr, DecidableEq, Inhabited

def maxInt64 : Nat := 2 ^ 63 - 1

def beNat (bs : Bytes) : Nat := bs.foldl (fun acc b => acc * 256 + b.toNat) 0

/-- `getAllCandidates`: the per-block random number of a candidate -/
def randOf (hash : Bytes) (addr : Bytes) : Nat :=
  beNat ((Go.Keccak.keccak256L (hash ++ addr)).take 8) % 2 ^ 63

/-- `calculateCandidates`: `maxDeposit` starts at 1 -/
def maxDeposit (cs : List Cand) : Nat := cs.foldl (fun m c => if c.deposit > m then c.deposit else m) 1

def subScore (cs : List Cand) : Nat := cs.foldl (fun s c => s + c.score) 0

/-- numerator of `CalRank` over the common denominator `(a+b+c)·subScore·maxDeposit·MaxInt64` -/
def rankNum (a b c : Nat) (sub md : Nat) (hash : Bytes) (x : Cand) : Nat :=
  a * x.score * md * maxInt64 + b * x.deposit * sub * maxInt64 + c * randOf hash x.addr * sub * md

/-- index of the first prefix sum that exceeds `r` (scaled: `n·total < prefix·2^53`), 0 if none -/
def pick (n total : Nat) : List Nat → Nat → Nat → Nat
  | [], _, _ => 0
  | w :: ws, acc, j => if n * total < (acc + w) * 2 ^ 53 then j else pick n total ws (acc + w) (j + 1)

def swapFirst {α} [Inhabited α] (l : List α) (j : Nat) : List α :=
  match l with
  | [] => []
  | x :: xs => if j = 0 then x :: xs else
      let y := xs.getD (j - 1) x
      y :: xs.set (j - 1) x

/-- `RandomSort`: one float per position except the last (fuel = the length of the list) -/
def shuffleAux : Nat → List (Cand × Nat) → List Nat → List (Cand × Nat)
  | 0, l, _ => l
  | fuel + 1, l, ns =>
    match l, ns with
    | [], _ => []
    | [x], _ => [x]
    | l, [] => l
    | l, n :: ns' =>
      let ws := l.map (·.2)
      let total := ws.foldl (· + ·) 0
      let j := pick n total ws 0 0
      match swapFirst l j with
      | [] => []
      | h :: t => h :: shuffleAux fuel t ns'

def shuffle (l : List (Cand × Nat)) (ns : List Nat) : List (Cand × Nat) := shuffleAux l.length l ns

/-- the election: candidates with a positive score, ranked and shuffled -/
def elect (a b c : Nat) (hash : Bytes) (floats : List Nat) (cs : List Cand) : List Cand :=
  let live := cs.filter (fun x => x.score > 0)
  let sub := subScore live
  let md := maxDeposit live
  (shuffle (live.map (fun x => (x, rankNum a b c sub md hash x))) floats).map (·.1)

/-- the input order of the election is canonical: the candidates contract keeps its keys in a sorted set; `canon` is that
order for the model (insertion sort by a key, here the address bytes as a number) -/
def insertBy (k : Cand → Nat) (x : Cand) : List Cand → List Cand
  | [] => [x]
  | y :: ys => if k x ≤ k y then x :: y :: ys else y :: insertBy k x ys

def canon (k : Cand → Nat) (cs : List Cand) : List Cand := cs.foldr (insertBy k) []

/-! ## between elections -/

structure InOrder where
  addr : Bytes
  produce : Int
  score : Nat
  deriving Repr, DecidableEq, Inhabited

def threshold : Int := 3
def punishThreshold : Int := -10
def twoConsecutive : Int := 2

/-- `updateCandidatesbyOrder`, the branch outside election heights -/
def reorder (l : List InOrder) : List InOrder :=
  l.filter (fun v => v.produce > -threshold) ++
    (l.filter (fun v => ¬ (v.produce > -threshold) ∧ v.produce ≠ punishThreshold)).map (fun v => { v with produce := 0 })

inductive Ev where
  | dup (who : Bytes)
  | fault (round : Nat) (proposer faultVal : Bytes)

def upd (l : List InOrder) (who : Bytes) (f : InOrder → InOrder) : List InOrder :=
  l.map (fun v => if v.addr = who then f v else v)

/-- `processBlockEvidence`: one piece of evidence -/
def applyEv (maxScore : Nat) (l : List InOrder) : Ev → List InOrder
  | .dup who => upd l who (fun v => { v with produce := punishThreshold, score := 0 })
  | .fault round p q =>
    let l := upd l p (fun v =>
      let pi := (if v.produce < 0 then 0 else v.produce) + 1
      if pi > twoConsecutive then { v with produce := 0, score := if v.score < maxScore then v.score + 1 else v.score }
      else { v with produce := pi })
    if round > 0 then
      upd l q (fun v =>
        let pi := (if v.produce > 0 then 0 else v.produce) - 1
        if pi ≤ -twoConsecutive then { v with produce := pi, score := if v.score > 1 then v.score - 1 else v.score }
        else { v with produce := pi })
    else l

def applyEvidence (maxScore : Nat) (l : List InOrder) (evs : List Ev) : List InOrder := evs.foldl (applyEv maxScore) l

/-! ## bloom -/

/-- `CreateBloom`: OR of the per-log blooms (2048-bit numbers) -/
def bloomOf (logBlooms : List Nat) : Nat := logBlooms.foldl (· ||| ·) 0

end Model.Election
