/-
Model of `types/priv_validator.go` (FilePV: SignVote / SignProposal / SignVoteWithoutSave, saveSigned,
save -> cmn.WriteFileAtomic, LoadFilePV) as a micro-step machine with process crashes.

  * `checkHRS` and `voteToStep` are NOT hand-written: they are the T1 translation of the current Go source
    (`Gen.FilePVCheck`).
  * A signing call is a sequence of micro-steps
        check ; sign ; setMem ; setShadow ; openTemp ; writeTemp ; closeTemp ; rename ; unlink ; unlink ; release
    (the replay / refusal paths are  check ; release).  `Ev.crash` may occur between any two micro-steps of any
    call: the process dies, nothing is handed to the caller, and the next process starts from the key file
    (`mem := disk`).
  * Two records live in memory, as in the code: the outer object's five fields (`mem`, what `checkHRS` and the
    same-HRS rule read) and the shadow copy `pv.pv` (`shadow`), which is the object `saveSigned` actually marshals
    into the temp file.  `LoadFilePV` sets both from the key file.
  * File system: the temp file's content is complete before the rename (O_SYNC).  `rename` being ATOMIC is an
    explicit hypothesis of the theorems, not built into the step granularity: `Ev.crashTorn r` is a crash in the
    middle of the rename that leaves ARBITRARY content `r` in the key file; the theorems assume every such event
    is atomic (`r` is the old or the new content), and `Props.C04.rename_atomicity_needed` shows they fail otherwise.
    Process crashes, not power loss (the directory entry is not fsync'ed by the code; see the slice's assumptions).
  * Write errors: `Ev.writeFails n` — the write of the temp file reports an error after `n` bytes.  The code then
    returns the error from `WriteFileAtomic` (temp file removed, key file untouched), `save()` panics, and the call
    ends with that panic; the object keeps the fields assigned before the save (`poisoned`).
  * Ghost logs (no influence on behaviour): `out` (everything handed to callers), `signed` (every signature the
    key ever computed), `persisted` (every record that ever became the content of the key file).
  * Signatures are ideal: a signature names the message it signs.  Payloads carry their sign-bytes, the
    "core" (canonical form with the timestamp blanked, what `check*OnlyDifferByTimestamp` compares) and the
    canonical timestamp; the driver receives all three from the harness, which computes them with the repo's
    own functions.
Core Lean only.
-/
import LinkVerif.Go.Int
import LinkVerif.Gen.FilePVCheck

namespace Model.FilePV
open Gen.FilePVCheck

abbrev Bytes := List UInt8

structure HRS where
  h : Int
  r : Int
  s : Int
deriving DecidableEq, Repr, Inhabited

structure Payload where
  bytes : Bytes
  core : Bytes
  ts : String
  /-- the bytes unmarshal as a canonical vote/proposal with a well-formed timestamp (false only for records written by
  something other than `saveSigned`: `check*OnlyDifferByTimestamp` panics on them) -/
  ok : Bool := true
deriving DecidableEq, Repr, Inhabited

/-- ideal signature by the validator key: it names the message it signs -/
structure Sig where
  msg : Bytes
deriving DecidableEq, Repr, Inhabited

/-- the five record fields `LastHeight/LastRound/LastStep/LastSignBytes/LastSignature` -/
structure Rec where
  hrs : HRS
  sb : Option Payload
  sig : Option Sig
deriving DecidableEq, Repr, Inhabited

def Rec.zero : Rec := { hrs := ⟨0, 0, 0⟩, sb := none, sig := none }

/-- a request through the signing interface.  `step = -1`: a vote of unknown type (`voteToStep` panics).
`save = false`: `SignVoteWithoutSave`. -/
structure Req where
  hrs : HRS
  p : Payload
  save : Bool
deriving DecidableEq, Repr, Inhabited

/-- what a call hands to its caller -/
inductive Outcome where
  | released (sig : Sig) (ts : String) (post : Bytes)   -- signature stored into the vote, timestamp of the vote, its sign-bytes
  | refused (code : Int)                                 -- checkHRS code (1..), or `conflictCode`
  | panicked
deriving DecidableEq, Repr, Inhabited

/-- "Conflicting data" (not one of checkHRS's codes) -/
def conflictCode : Int := 100

/-- program counter of the call in flight -/
inductive Pc where
  | idle
  | check (q : Req)
  | sign (q : Req)
  | setMem (q : Req) (sg : Sig)
  | setShadow (q : Req) (sg : Sig)
  | openTemp (q : Req) (sg : Sig)
  | writeTemp (q : Req) (sg : Sig)
  | closeTemp (q : Req) (sg : Sig)
  | rename (q : Req) (sg : Sig)
  | unlink1 (q : Req) (sg : Sig)
  | unlink2 (q : Req) (sg : Sig)
  | release (q : Req) (o : Outcome)
deriving DecidableEq, Repr, Inhabited

structure St where
  /-- content of the key file -/
  disk : Rec
  /-- the five record fields of the FilePV object the callers hold (read by checkHRS / the same-HRS rule) -/
  mem : Rec
  /-- the five record fields of the shadow copy `pv.pv`, the object that `save()` marshals -/
  shadow : Rec
  temp : Option Rec
  pc : Pc
  /-- ghost: everything handed to callers so far, newest first -/
  out : List (Req × Outcome)
  /-- ghost: every signature the key computed (`PrivKey.Sign`), newest first -/
  signed : List (HRS × Sig)
  /-- ghost: every record that became the content of the key file, newest first -/
  persisted : List Rec
  /-- a save failed and the call panicked: the object and the shadow hold a record the key file does not
  (the code assigns the fields BEFORE `save()`); cleared by a restart -/
  poisoned : Bool
deriving DecidableEq, Repr, Inhabited

def St.init : St :=
  { disk := Rec.zero, mem := Rec.zero, shadow := Rec.zero, temp := none, pc := .idle, out := [], signed := [], persisted := [], poisoned := false }

/-- the translated `checkHRS` applied to the in-memory record -/
def checkRec (m : Rec) (q : HRS) : Bool × Int :=
  checkHRS m.hrs.h m.hrs.r m.sb.isNone m.sig.isNone m.hrs.s q.h q.r q.s

/-- `signVote`/`signProposal` up to the decision: replay, refuse, or go on to sign -/
def decideCall (m : Rec) (q : Req) : Pc :=
  if q.hrs.s = -1 then .release q .panicked else
  let (same, code) := checkRec m q.hrs
  if code = -1 then .release q .panicked
  else if code ≠ 0 then .release q (.refused code)
  else if same then
    match m.sb, m.sig with
    | some lp, some ls =>
      if q.p.bytes = lp.bytes then .release q (.released ls q.p.ts q.p.bytes)
      else if lp.ok = false then .release q .panicked
      else if q.p.core = lp.core then .release q (.released ls lp.ts lp.bytes)
      else .release q (.refused conflictCode)
    | _, _ => .release q .panicked
  else .sign q

/-- one micro-step of the call in flight -/
def tick (s : St) : St :=
  match s.pc with
  | .idle => s
  | .check q => { s with pc := decideCall s.mem q }
  | .sign q =>
    let sg : Sig := ⟨q.p.bytes⟩
    if q.save then { s with pc := .setMem q sg, signed := (q.hrs, sg) :: s.signed }
    else { s with pc := .release q (.released sg q.p.ts q.p.bytes), signed := (q.hrs, sg) :: s.signed }
  | .setMem q sg => { s with mem := { hrs := q.hrs, sb := some q.p, sig := some sg }, pc := .setShadow q sg }
  | .setShadow q sg => { s with shadow := { hrs := q.hrs, sb := some q.p, sig := some sg }, pc := .openTemp q sg }
  | .openTemp q sg => { s with temp := none, pc := .writeTemp q sg }
  | .writeTemp q sg => { s with temp := some s.shadow, pc := .closeTemp q sg }
  | .closeTemp q sg => { s with pc := .rename q sg }
  | .rename q sg =>
    { s with disk := s.temp.getD s.disk, temp := none, pc := .unlink1 q sg, persisted := s.temp.getD s.disk :: s.persisted }
  | .unlink1 q sg => { s with pc := .unlink2 q sg }
  | .unlink2 q sg => { s with pc := .release q (.released sg q.p.ts q.p.bytes) }
  | .release q o => { s with pc := .idle, out := (q, o) :: s.out }

inductive Ev where
  | req (q : Req)     -- a caller enters SignVote/SignProposal (ignored while a call is in flight: the mutex)
  | tick              -- the call in flight advances by one micro-step
  | crash             -- the process dies and restarts: memory is re-read from the key file
  | crashTorn (r : Rec)  -- the process dies INSIDE the rename system call, which leaves content `r` in the key file
  | writeFails (n : Nat) -- the write of the temp file reports an error after `n` bytes (disk full, quota, I/O error)
  | reset                -- an operator runs `unsafe_reset_priv_validator` (never admissible: it erases the record)
deriving DecidableEq, Repr, Inhabited

/-- restart: `LoadFilePV` reads the key file into the object and copies it into the shadow -/
def restart (s : St) : St := { s with mem := s.disk, shadow := s.disk, temp := none, pc := .idle, poisoned := false }

def step (s : St) : Ev → St
  | .req q => match s.pc with
    | .idle => { s with pc := .check q }
    | _ => s
  | .tick => tick s
  | .crash => restart s
  | .crashTorn r => match s.pc with
    | .rename _ _ =>
      if r = s.disk then restart s
      else restart { s with disk := r, persisted := r :: s.persisted }
    | _ => restart s
  | .writeFails _ => match s.pc with
    -- `WriteFileAtomic` returns the error (its deferred Close/Remove drop the partial temp file, the key file is not
    -- touched), `save()` panics with it, and the panic leaves `SignVote`/`SignProposal` before the signature is stored
    -- into the vote; the object and the shadow keep the record they were given before the save
    | .writeTemp q _ => { s with temp := none, pc := .release q .panicked, poisoned := true }
    -- the same when the temp file cannot even be created (OpenFile error, e.g. EMFILE)
    | .openTemp q _ => { s with temp := none, pc := .release q .panicked, poisoned := true }
    | _ => s
  -- `FilePV.Reset` (CLI `unsafe_reset_priv_validator`): the object's five fields are zeroed and the OBJECT is saved
  | .reset => match s.pc with
    | .idle => { s with mem := Rec.zero, disk := Rec.zero, persisted := Rec.zero :: s.persisted }
    | _ => s

/-- what an ATOMIC rename may leave behind when the process dies inside it: the old or the new content -/
def Ev.atomicAt (s : St) : Ev → Prop
  | .crashTorn r => r = s.disk ∨ r = s.temp.getD s.disk
  | _ => True

/-- every crash inside a rename along the run is atomic -/
def AtomicRun : St → List Ev → Prop
  | _, [] => True
  | s, e :: rest => e.atomicAt s ∧ AtomicRun (step s e) rest

/-- the two hypotheses of the history theorems at one event: renames are atomic, and a caller never enters a signing
call on an object whose save panicked (the panic ends the process: the next thing that happens to it is a restart) -/
def Ev.admissibleAt (s : St) : Ev → Prop
  | .crashTorn r => r = s.disk ∨ r = s.temp.getD s.disk
  | .req _ => s.poisoned = false
  | .reset => False
  | _ => True

def Admissible : St → List Ev → Prop
  | _, [] => True
  | s, e :: rest => e.admissibleAt s ∧ Admissible (step s e) rest

def run (s : St) (evs : List Ev) : St := evs.foldl step s

/-- the system call a micro-step enters first (none: pure computation).  `release` is a system call only when
the caller lives in another process (the harness's child mode: the result is written to a pipe). -/
def Pc.syscall : Pc → Option String
  | .openTemp _ _ => some "openat"
  | .writeTemp _ _ => some "write"
  | .closeTemp _ _ => some "close"
  | .rename _ _ => some "renameat"
  | .unlink1 _ _ => some "unlinkat"
  | .unlink2 _ _ => some "unlinkat"
  | .release _ _ => some "write"
  | _ => none

/-- run the call in flight to completion (at most `fuel` micro-steps) -/
def finish : Nat → St → St
  | 0, s => s
  | n + 1, s => match s.pc with
    | .idle => s
    | _ => finish n (tick s)

/-- run the call in flight until it is about to enter the `n`-th system call named `name` (then the process is
killed: `crash`), or to completion.  `seen` counts the system calls named `name` entered so far.
Returns the state and whether the kill happened. -/
def finishKill (name : String) (n : Nat) : Nat → Nat → St → St × Bool
  | 0, _, s => (s, false)
  | fuel + 1, seen, s => match s.pc with
    | .idle => (s, false)
    | pc =>
      if pc.syscall = some name then
        if seen + 1 = n then (step s .crash, true)
        else finishKill name n fuel (seen + 1) (tick s)
      else finishKill name n fuel seen (tick s)

/-- run the call in flight to completion; if `fails`, the write of the temp file reports an error after `n` bytes -/
def finishFail (fails : Bool) (n : Nat) : Nat → St → St
  | 0, s => s
  | fuel + 1, s => match s.pc with
    | .idle => s
    | .writeTemp _ _ => if fails then finish fuel (step s (.writeFails n)) else finishFail fails n fuel (tick s)
    | _ => finishFail fails n fuel (tick s)

/-- the same for a failure to create the temp file -/
def finishFailOpen : Nat → St → St
  | 0, s => s
  | fuel + 1, s => match s.pc with
    | .idle => s
    | .openTemp _ _ => finish fuel (step s (.writeFails 0))
    | _ => finishFailOpen fuel (tick s)

/-- a whole call without interruption -/
def call (s : St) (q : Req) : St := finish 16 (step s (.req q))

end Model.FilePV
