/-
L-A: the abstract protocol layer for C01 (DESIGN.md section C01).

A history is the chronological list (earliest first) of the votes and decisions of ALL validators,
correct and Byzantine.  `disciplined` is the executable voting discipline the property states for
correct validators; it is evaluated by the driver on the IMPLEMENTATION's merged history and it is
the hypothesis of the agreement theorem (`Props.C01`).  Core Lean only.
-/
namespace Model.Protocol

abbrev Val := Nat
abbrev Round := Nat
abbrev Value := Nat

inductive Event where
  | prevote (n : Val) (r : Round) (v : Option Value)
  | precommit (n : Val) (r : Round) (v : Option Value)
  | decide (n : Val) (r : Round) (v : Value)
deriving Repr, DecidableEq, Inhabited

/-- validators (distinct), their voting power, and which of them are Byzantine -/
structure Cfg where
  vals : List Val
  power : Val → Nat
  byz : Val → Bool

/-- power of the validators satisfying `p` -/
def pow (c : Cfg) (p : Val → Bool) : Nat := ((c.vals.filter p).map c.power).sum

def total (c : Cfg) : Nat := pow c (fun _ => true)

/-- the Byzantine validators hold less than one third of the power -/
def byzBound (c : Cfg) : Prop := 3 * pow c c.byz < total c

instance (c : Cfg) : Decidable (byzBound c) := by unfold byzBound; exact inferInstance

def prevoted (h : List Event) (r : Round) (v : Option Value) (n : Val) : Bool :=
  h.contains (Event.prevote n r v)

def precommitted (h : List Event) (r : Round) (v : Option Value) (n : Val) : Bool :=
  h.contains (Event.precommit n r v)

/-- more than two thirds of the power prevoted `v` at round `r` in `h` -/
def polka (c : Cfg) (h : List Event) (r : Round) (v : Option Value) : Bool :=
  decide (3 * pow c (prevoted h r v) > 2 * total c)

/-- more than two thirds of the power precommitted block `b` at round `r` in `h` -/
def commitQuorum (c : Cfg) (h : List Event) (r : Round) (b : Value) : Bool :=
  decide (3 * pow c (precommitted h r (some b)) > 2 * total c)

def anyPrevoteAt (h : List Event) (n : Val) (r : Round) : Bool :=
  h.any (fun e => match e with | .prevote m r' _ => m == n && r' == r | _ => false)

def anyPrecommitAt (h : List Event) (n : Val) (r : Round) : Bool :=
  h.any (fun e => match e with | .precommit m r' _ => m == n && r' == r | _ => false)

/-- d0: a correct validator never votes in a round below one it already voted in -/
def noLaterRound (p : List Event) (n : Val) (r : Round) : Bool :=
  p.all (fun e => match e with
    | .prevote m r' _ => !(m == n) || decide (r' ≤ r)
    | .precommit m r' _ => !(m == n) || decide (r' ≤ r)
    | _ => true)

/-- some polka for a value other than `some b` at a round in `(lo, hi]`, witnessed by a prevote event of `p` -/
def unlockingPolka (c : Cfg) (p : List Event) (b : Value) (lo hi : Round) : Bool :=
  p.any (fun e => match e with
    | .prevote _ r'' v'' => decide (lo < r'') && decide (r'' ≤ hi) && (v'' != some b) && polka c p r'' v''
    | _ => false)

/-- d3: every earlier precommit of `n` for a block `b ≠ v` at a lower round is released by a polka -/
def lockRespected (c : Cfg) (p : List Event) (n : Val) (r' : Round) (v : Option Value) : Bool :=
  p.all (fun e => match e with
    | .precommit m r (some b) =>
      if m == n && decide (r < r') && (v != some b) then unlockingPolka c p b r r' else true
    | _ => true)

/-- the discipline of one event `e` of a correct validator, given the history `p` before it -/
def eventOk (c : Cfg) (p : List Event) (e : Event) : Bool :=
  match e with
  | .prevote n r v =>
    c.byz n || (noLaterRound p n r && !anyPrevoteAt p n r && lockRespected c p n r v)   -- d0, d1, d3
  | .precommit n r v =>
    c.byz n || (noLaterRound p n r && !anyPrecommitAt p n r &&                         -- d0, d1
      (match v with | some b => polka c p r (some b) | none => true))                  -- d2
  | .decide n r b =>
    c.byz n || commitQuorum c p r b                                                    -- d4

/-- `disciplinedFrom p h`: every event of `h` is fine given what precedes it (`p` is the reversed-free prefix) -/
def disciplinedFrom (c : Cfg) : List Event → List Event → Bool
  | _, [] => true
  | p, e :: rest => eventOk c p e && disciplinedFrom c (p ++ [e]) rest

/-- the voting discipline of C01 over a whole history (d1–d4, correct validators only) -/
def disciplined (c : Cfg) (h : List Event) : Bool := disciplinedFrom c [] h

/-- the decisions of correct validators in `h` -/
def decisions (c : Cfg) (h : List Event) : List Value :=
  h.filterMap (fun e => match e with | .decide n _ b => if c.byz n then none else some b | _ => none)

/-- agreement as an executable monitor: all correct decisions are equal -/
def agree (c : Cfg) (h : List Event) : Bool :=
  match decisions c h with
  | [] => true
  | b :: rest => rest.all (· == b)

end Model.Protocol
