/-
Model of account-transaction signing in types/sign.go, types/transaction.go, tx_type_txt.go, tx_type_cut.go, tx_utxo.go
and libs/crypto (ValidateSignatureValues).  Core Lean only.

  * which fields the signing hash / the transaction hash / the RingCT prefix hash cover comes from the T2 tables in
    `Gen.SigFacts` (regenerated from the Go source on every check);
  * the range checks are the regenerated translation `Gen.SigFacts.validateSignatureValues`;
  * the V arithmetic (isProtectedV, DeriveSignParam, recover's `V - signParamMul - 8`, recoverPlain's bit-length test and
    byte conversion) is written by hand with Go's big.Int semantics (`Uint64()` of a negative number is its absolute value's low
    64 bits) and tied by the differential run;
  * the digest of an item list `D : List Bytes → δ` and public-key recovery `rec : δ → r → s → recid → Option α` are
    parameters: the driver instantiates them with Keccak-256 over the `libs/ser` (RLP) list encoding and with the table of
    signatures the harness made with real keys; the theorems state their assumed laws as hypotheses.
-/
import LinkVerif.Gen.SigFacts
import LinkVerif.Go.Keccak
import LinkVerif.Model.Rlp

namespace Model.SigHash
open Gen.SigFacts

abbrev Bytes := List UInt8

/-! ## libs/ser (RLP) for the kinds that occur in signing hashes -/

/-- minimal big-endian bytes (`big.Int.Bytes`, `putint`); 0 ↦ [].  `Model.Rlp.beBytesF` with fuel `n` (n < 256^n) -/
def beBytes (n : Nat) : Bytes := Model.Rlp.beBytesF n n

/-- `encbuf.encodeString` (the model of C11, whose injectivity theorems `Props/C08Inj.lean` reuses) -/
def rlpStr (b : Bytes) : Bytes := Model.Rlp.encStr b

/-- a list item from its element encodings: `puthead(0xC0, 0xF7, size)` ++ payload -/
def rlpList (items : List Bytes) : Bytes :=
  Model.Rlp.encHead 0xC0 0xF7 items.flatten.length ++ items.flatten

/-- uint64 / non-negative *big.Int (writeUint, writeBigInt agree) -/
def encNat (n : Nat) : Bytes := rlpStr (beBytes n)

/-- a big.Int the wire can carry is non-negative; for a negative one `ser` reports an error that `rlpHash` ignores -/
def encInt (i : Int) : Bytes := encNat i.toNat

/-! ## transactions as the model sees them -/

inductive Kind | tx | tok | cut | utxo
deriving DecidableEq, Repr, Inhabited

structure Sig where
  v : Int
  r : Int
  s : Int
deriving DecidableEq, Repr, Inhabited

/-- a transaction: the `libs/ser` item of every payload field by its Go field name, and the signature(s) -/
structure TxV where
  kind : Kind
  fields : List (String × Bytes)
  sigs : List Sig          -- exactly one for tx / tok / utxo; any number for cut
deriving DecidableEq, Repr, Inhabited

def serNames (fs : List (String × Bool)) : List String := (fs.filter (·.2)).map (·.1)

def sig0 (t : TxV) : Sig := t.sigs.headD ⟨0, 0, 0⟩

def sigItem (names : List String) (s : Sig) : Bytes :=
  rlpList (names.map fun n => if n = "V" then encInt s.v else if n = "R" then encInt s.r else if n = "S" then encInt s.s else [])

def lookupField (t : TxV) (n : String) : Bytes := ((t.fields.find? (·.1 = n)).map (·.2)).getD []

/-- the `libs/ser` item of the Go expression `<tx>.<name>` -/
def item (t : TxV) (n : String) : Bytes :=
  if n = "V" ∨ n = "Sigs.V" then encInt (sig0 t).v
  else if n = "R" ∨ n = "Sigs.R" then encInt (sig0 t).r
  else if n = "S" ∨ n = "Sigs.S" then encInt (sig0 t).s
  else if n = "Signdata" ∨ n = "Sigs" then sigItem (serNames signdataFields) (sig0 t)
  else if n = "Signatures" then rlpList (t.sigs.map (sigItem (serNames signdataFields)))
  else if n = "ContractUpgradeMainInfo" then rlpList ((serNames cutMainInfoFields).map (lookupField t))
  else lookupField t n

def signFieldNames : Kind → List String
  | .tx => txSignFields
  | .tok => tokSignFields
  | .cut => cutSignFields
  | .utxo => utxoSignFields

/-- the items of `signFields()` -/
def signItems (t : TxV) : List Bytes := (signFieldNames t.kind).map (item t)

/-- the items hashed by `Hash()` -/
def hashItems (t : TxV) : List Bytes :=
  match t.kind with
  | .tx => (serNames txdataFields).map (item t)                      -- rlpHash(tx) → EncodeSER → &tx.data
  | .tok => signItems t ++ [item t "Signdata"]                       -- append(tx.signFields(), tx.data.Signdata)
  | .cut => (serNames cutTxFields).map (item t)                      -- struct encoding of the exported fields
  | .utxo => (serNames utxoTxFields).map (item t)

/-- the items hashed by `UTXOTransaction.PrefixHash` (the RingCT message) -/
def prefixItems (t : TxV) : List Bytes := utxoPrefixHashFields.map (item t)

/-! ## signers -/

inductive Signer
  | eip (p : Nat)      -- STDEIP155Signer{signParam = p}
  | home               -- STDHomesteadSigner
  | front              -- STDFrontierSigner
deriving DecidableEq, Repr, Inhabited

/-- `STDEIP155Signer.Hash` appends (signParam, 0, 0); the other two hash `signFields()` alone -/
def hashSuffix : Signer → List Bytes
  | .eip p => [encNat p, encNat 0, encNat 0]
  | _ => []

/-- `sign()` appends (signer.SignParam(), 0, 0) for EVERY signer; a nil `*big.Int` is encoded as 0x80 like zero -/
def signSuffix : Signer → List Bytes
  | .eip p => [encNat p, encNat 0, encNat 0]
  | _ => [encNat 0, encNat 0, encNat 0]

/-- items of the hash that `Sender` verifies against -/
def sigHashItems (sg : Signer) (t : TxV) : List Bytes := signItems t ++ hashSuffix sg
/-- items of the hash that `sign()` signs -/
def signDigestItems (sg : Signer) (t : TxV) : List Bytes := signItems t ++ signSuffix sg

/-- `SignatureValues`: V for a recovery id (`sig[64]`, 0 or 1) -/
def signatureV (sg : Signer) (recid : Int) : Int :=
  match sg with
  | .eip p => if p = 0 then recid + 27 else recid + 35 + 2 * p
  | _ => recid + 27

/-! ## V arithmetic (big.Int semantics) -/

def absI (x : Int) : Int := if x < 0 then -x else x

/-- `x.Uint64()` : low 64 bits of |x| -/
def uint64Of (x : Int) : Int := absI x % 18446744073709551616

/-- `x.BitLen() <= k` for k = 8, 64 -/
def fits8 (x : Int) : Bool := decide (absI x < 256)
def fits64 (x : Int) : Bool := decide (absI x < 18446744073709551616)

/-- types/sign.go isProtectedV (V non-nil) -/
def isProtectedV (V : Int) : Bool :=
  if fits8 V then (uint64Of V != 27 && uint64Of V != 28) else true

/-- types/sign.go DeriveSignParam (v non-nil) -/
def deriveSignParam (V : Int) : Int :=
  if fits64 V then
    (if uint64Of V = 27 ∨ uint64Of V = 28 then 0 else Go.wrapU64 (uint64Of V - 35) / 2)
  else (V - 35) / 2     -- big.Int.Div is Euclidean, as is Lean's `/`

inductive Rej | sig | param
deriving DecidableEq, Repr

/-- `byte(Vb.Uint64() - 27)` -/
def byteOf (Vb : Int) : Int := Go.wrapU64 (uint64Of Vb - 27) % 256

/-- recoverPlain up to the call of Ecrecover: the recovery id, or the rejection -/
def plainRecid (R S Vb : Int) (homestead : Bool) : Except Rej Int :=
  if fits8 Vb = false then .error .sig
  else if validateSignatureValues (byteOf Vb) R S homestead = false then .error .sig
  else .ok (byteOf Vb)

/-- the result of a `Sender` call: an address, or "some address nobody holds the key of / Ecrecover failed" -/
inductive Who (α : Type) | addr (a : α) | other
deriving DecidableEq, Repr

section
variable {δ α : Type} (D : List Bytes → δ) (rec : δ → Int → Int → Int → Option α)

def recoverWith (d : δ) (sg : Sig) (Vb : Int) (homestead : Bool) : Except Rej (Who α) :=
  match plainRecid sg.r sg.s Vb homestead with
  | .error e => .error e
  | .ok v => match rec d sg.r sg.s v with
    | some a => .ok (.addr a)
    | none => .ok .other

/-- `signer.Sender(data)` for the signature `sg` of transaction `t` -/
def signerSender (s : Signer) (t : TxV) (sg : Sig) : Except Rej (Who α) :=
  match s with
  | .front => recoverWith rec (D (sigHashItems .front t)) sg sg.v frontierRecoverHomestead
  | .home => recoverWith rec (D (sigHashItems .home t)) sg sg.v homesteadRecoverHomestead
  | .eip p =>
    if !isProtectedV sg.v then
      recoverWith rec (D (sigHashItems .home t)) sg sg.v homesteadRecoverHomestead     -- STDHomesteadSigner{}.Sender(data)
    else if deriveSignParam sg.v ≠ (p : Int) then .error .param
    else recoverWith rec (D (sigHashItems (.eip p) t)) sg (sg.v - 2 * p - 8) eip155RecoverHomestead

/-- the sender cache cell: the signer it was derived with, and the address -/
abbrev Cache (α : Type) := Option (Signer × Who α)

/-- types/sign.go `sender()`: a hit needs an equal signer; only a successful derivation is stored -/
def sender (s : Signer) (c : Cache α) (t : TxV) (sg : Sig) : Except Rej (Who α) × Cache α :=
  match c with
  | some (s', a) =>
    if s' = s then (.ok a, c)
    else match signerSender D rec s t sg with
      | .ok a' => (.ok a', some (s, a'))
      | .error e => (.error e, c)
  | none =>
    match signerSender D rec s t sg with
    | .ok a' => (.ok a', some (s, a'))
    | .error e => (.error e, c)

end

/-- the twin (r, N−s, 1−recid) of a signature: it recovers the same key (ECDSA malleability) -/
def twinS (s : Int) : Int := secp256k1N - s

end Model.SigHash
