/-
C18 model of libs/p2p/conn (core Lean only), as the code is today.

(a) stream  — `SecretConnection.Write/Read` in the compiled-in frame mode `typeCompress`:
    Write cuts `data` into chunks of at most `dataMaxSize`, each sent as  hdr(1) | len(4, big endian) | enc(chunk);
    Read serves `recvBuffer` first, else parses exactly one frame.  The compressor is a parameter (`Codec`).
(b) mux     — `MConnection`: per-channel send queue and `sending` remainder, `nextPacketMsg` (EOF on the last fragment),
    a *schedule* (`List Chan`) standing for the choices of `sendPacketMsg` (the least recentlySent/priority rule is one
    such schedule), `recvPacketMsg` (capacity check, append, deliver on EOF = 1).
(d) switch   — `Switch.addPeer`: admission of an authenticated connection under the identity its NodeInfo claims.
(c) handshake — `MakeSecretConnection` over an ideal signature scheme: ephemeral keys, challenge = sorted pair,
    signature by the long-term key, rejection of a nil key and of our own key, verification against the presented key.
-/
namespace Model.Conn

abbrev Bytes := List UInt8

/-! ## (a) stream -/

/-- the constants of secret_connection.go the model depends on (instantiated from the extractor's output) -/
structure FrameCfg where
  dataMaxSize : Nat
  frameCapacity : Nat
  headerSize : Nat
  /-- `leadingVersion | leadingType` -/
  leading : UInt8
  versionMask : UInt8
  version00 : UInt8
  typeMask : UInt8
  typeCompress : UInt8
  typeEncrypt : UInt8
  /-- `dataMaxSize + dataLenSize`: size of the buffer a sealed frame is opened into -/
  unsealedDataSize : Nat := 32772

/-- snappy as a parameter; the secretbox of sealed frames as an ideal primitive keyed by the number of frames opened so far
(`openBox k p = some x` only for a payload sealed for the k-th receive nonce); `announced` = snappy.DecodedLen -/
structure Codec where
  enc : Bytes → Bytes
  dec : Bytes → Option Bytes
  openBox : Nat → Bytes → Option Bytes := fun _ _ => none
  announced : Bytes → Nat := fun _ => 0

def be32 (n : Nat) : Bytes :=
  [UInt8.ofNat (n / 16777216), UInt8.ofNat (n / 65536), UInt8.ofNat (n / 256), UInt8.ofNat n]

def be32dec (b1 b2 b3 b4 : UInt8) : Nat :=
  b1.toNat * 16777216 + b2.toNat * 65536 + b3.toNat * 256 + b4.toNat

/-- `Write`'s loop: pieces of at most `max` bytes, none for empty data (fuel = length, enough when `max > 0`) -/
def chunksAux (max : Nat) : Nat → Bytes → List Bytes
  | 0, _ => []
  | fuel + 1, d => if d.isEmpty then [] else d.take max :: chunksAux max fuel (d.drop max)

def chunks (max : Nat) (d : Bytes) : List Bytes := chunksAux max d.length d

def frameOf (cfg : FrameCfg) (cd : Codec) (chunk : Bytes) : Bytes :=
  cfg.leading :: (be32 (cd.enc chunk).length ++ cd.enc chunk)

/-- frames emitted for a list of chunks; stops at (and reports) the first frame over `frameCapacity` -/
def writeChunks (cfg : FrameCfg) (cd : Codec) : List Bytes → Bytes × Bool
  | [] => ([], true)
  | c :: cs =>
    let f := frameOf cfg cd c
    if f.length > cfg.frameCapacity then ([], false)
    else let (w, ok) := writeChunks cfg cd cs; (f ++ w, ok)

/-- `Write(data)`: (bytes put on the wire, n, ok) — on a frame over capacity Go returns `(0, err)` -/
def write (cfg : FrameCfg) (cd : Codec) (data : Bytes) : Bytes × Nat × Bool :=
  let (w, ok) := writeChunks cfg cd (chunks cfg.dataMaxSize data)
  (w, if ok then data.length else 0, ok)

structure Reader where
  recvBuffer : Bytes := []
  /-- bytes the transport still holds (in order) -/
  wire : Bytes := []
  /-- sealed frames opened so far: the receive nonce is `recvNonce₀ + 2 * recvCount` (incr2Nonce after every open) -/
  recvCount : Nat := 0
deriving Repr

inductive RErr | eof | type | length | short | decode | decrypt | chunklen
deriving Repr, DecidableEq

/-- `Read(data)` with `len(data) = n` -/
def read (cfg : FrameCfg) (cd : Codec) (r : Reader) (n : Nat) : Reader × Except RErr Bytes :=
  if !r.recvBuffer.isEmpty then
    ({ r with recvBuffer := r.recvBuffer.drop n }, .ok (r.recvBuffer.take n))
  else
    match r.wire with
    | h0 :: b1 :: b2 :: b3 :: b4 :: rest =>
      if (h0 &&& cfg.versionMask) != cfg.version00
          || ((h0 &&& cfg.typeMask) != cfg.typeEncrypt && (h0 &&& cfg.typeMask) != cfg.typeCompress) then
        ({ r with wire := rest }, .error .type)
      else
        let len := be32dec b1 b2 b3 b4
        if len > cfg.frameCapacity - cfg.headerSize then ({ r with wire := rest }, .error .length)
        else if rest.length < len then ({ r with wire := [] }, .error .short)
        else
          let raw := rest.take len
          let rest' := rest.drop len
          if (h0 &&& cfg.typeMask) == cfg.typeCompress then
            -- 3c63eeb: the decoded length the payload ANNOUNCES (snappy.DecodedLen) is tested before snappy.Decode allocates it;
            -- an over-announcing frame is refused like any undecodable one
            if cd.announced raw > cfg.dataMaxSize then ({ r with wire := rest' }, .error .decode) else
            match cd.dec raw with
            | none => ({ r with wire := rest' }, .error .decode)
            | some frame =>
              if frame.length > cfg.dataMaxSize then ({ r with wire := rest' }, .error .chunklen)
              else ({ r with recvBuffer := frame.drop n, wire := rest' }, .ok (frame.take n))
          else
            -- a sealed frame (the PEER chose the type): opened with the current receive nonce into a zeroed buffer of
            -- `unsealedDataSize` bytes; a plaintext that does not fit leaves the buffer untouched (the result of Open is dropped)
            match cd.openBox r.recvCount raw with
            | none => ({ r with wire := rest' }, .error .decrypt)
            | some plain =>
              let buf := if plain.length ≤ cfg.unsealedDataSize
                         then plain ++ List.replicate (cfg.unsealedDataSize - plain.length) 0
                         else List.replicate cfg.unsealedDataSize 0
              let chunkLength := match buf with
                | c1 :: c2 :: c3 :: c4 :: _ => be32dec c1 c2 c3 c4
                | _ => 0
              -- incr2Nonce happens before the length test
              if chunkLength > cfg.dataMaxSize then ({ r with wire := rest', recvCount := r.recvCount + 1 }, .error .chunklen)
              else
                let chunk := (buf.drop 4).take chunkLength
                ({ recvBuffer := chunk.drop n, wire := rest', recvCount := r.recvCount + 1 }, .ok (chunk.take n))
    | _ => ({ r with wire := [] }, .error .eof)   -- fewer than headerSize bytes: io.ReadFull fails

/-- a sequence of reads with buffer sizes `ns`: bytes returned so far (in order) and the first error -/
def readMany (cfg : FrameCfg) (cd : Codec) : Reader → List Nat → Reader × Bytes × Option RErr
  | r, [] => (r, [], none)
  | r, n :: ns =>
    match read cfg cd r n with
    | (r', .error e) => (r', [], some e)
    | (r', .ok b) => let (r'', out, e) := readMany cfg cd r' ns; (r'', b ++ out, e)

/-- what `Read` lets snappy allocate on behalf of the frame at the head of the wire: `snappy.Decode(nil, rawData)` makes a buffer
of the length the payload ANNOUNCES — but only after that length has passed the `dataMaxSize` test (3c63eeb) -/
def readAlloc (cfg : FrameCfg) (cd : Codec) (r : Reader) : Nat :=
  if !r.recvBuffer.isEmpty then 0
  else match r.wire with
    | h0 :: b1 :: b2 :: b3 :: b4 :: rest =>
      let len := be32dec b1 b2 b3 b4
      if (h0 &&& cfg.versionMask) != cfg.version00 || (h0 &&& cfg.typeMask) != cfg.typeCompress then 0
      else if len > cfg.frameCapacity - cfg.headerSize || rest.length < len then 0
      else if cd.announced (rest.take len) > cfg.dataMaxSize then 0   -- refused before anything is allocated
      else cd.announced (rest.take len)
    | _ => 0

/-- `Write` on a transport that accepts `k` more frames and then fails: (bytes on the wire, n) -/
def writeUpTo (cfg : FrameCfg) (cd : Codec) (k : Nat) (data : Bytes) : Bytes × Nat × Bool :=
  let cs := chunks cfg.dataMaxSize data
  if cs.length ≤ k then write cfg cd data
  else (((cs.take k).map (frameOf cfg cd)).flatten, ((cs.take k).map List.length).sum, false)

/-! ### nonces (`incrNonce`, `incr2Nonce`, `genNonces`) -/

/-- `incrNonce` on the byte list least-significant byte first: `nonce[i]++; if nonce[i] != 0 return` from the last byte -/
def incrNonceRev : List UInt8 → List UInt8
  | [] => []
  | b :: bs => if b + 1 != 0 then (b + 1) :: bs else 0 :: incrNonceRev bs

/-- big-endian increment with wrap-around -/
def incrNonce (n : Bytes) : Bytes := (incrNonceRev n.reverse).reverse

def incr2Nonce (n : Bytes) : Bytes := incrNonce (incrNonce n)

/-- value of a byte list, least significant first -/
def valRev : List UInt8 → Nat
  | [] => 0
  | b :: bs => b.toNat + 256 * valRev bs

/-- snappy.MaxEncodedLen -/
def maxEncodedLen (n : Nat) : Nat := 32 + n + n / 6

/-! ## (b) mux -/

abbrev Chan := UInt8

def upd {α : Type} (f : Chan → α) (c : Chan) (v : α) : Chan → α := fun x => if x = c then v else f x

structure Packet where
  ch : Chan
  eof : UInt8
  bytes : Bytes
  /-- the encoded packet exceeds `maxPacketMsgSize` (size of the ser encoding: an input of the model) -/
  over : Bool := false
deriving Repr, DecidableEq

structure SChan where
  queue : List Bytes := []
  sending : Bytes := []

structure Sender where
  maxPay : Nat
  known : Chan → Bool
  chans : Chan → SChan

/-- `MConnection.Send`: refuses the empty message and unknown channels (queue capacity/timeouts not modelled) -/
def Sender.send (s : Sender) (c : Chan) (m : Bytes) : Sender × Bool :=
  if m.isEmpty || !s.known c then (s, false)
  else ({ s with chans := upd s.chans c { s.chans c with queue := (s.chans c).queue ++ [m] } }, true)

/-- `MConnection.TrySend` / `Channel.trySendBytes`: like `send`, but a full queue (`qcap` = SendQueueCapacity) refuses at once -/
def Sender.trySend (s : Sender) (qcap : Nat) (c : Chan) (m : Bytes) : Sender × Bool :=
  if m.isEmpty || !s.known c then (s, false)
  else if (s.chans c).queue.length ≥ qcap then (s, false)
  else ({ s with chans := upd s.chans c { s.chans c with queue := (s.chans c).queue ++ [m] } }, true)

/-- `sendQueueSize`: incremented when a message is queued, decremented when its LAST fragment has been cut -/
def Sender.queueSize (s : Sender) (c : Chan) : Nat :=
  (s.chans c).queue.length + (if (s.chans c).sending.isEmpty then 0 else 1)

/-- `MConnection.CanSend` (a heuristic: compares with the DEFAULT capacity, whatever the channel's own capacity is) -/
def Sender.canSend (s : Sender) (dfltCap : Nat) (c : Chan) : Bool :=
  s.known c && decide (s.queueSize c < dfltCap)

/-- `Channel.isSendPending` -/
def isSendPending (sc : SChan) : Bool × SChan :=
  if !sc.sending.isEmpty then (true, sc)
  else match sc.queue with
    | [] => (false, sc)
    | m :: q => (true, { queue := q, sending := m })

/-- `Channel.nextPacketMsg` -/
def nextPacket (maxPay : Nat) (c : Chan) (sc : SChan) : Packet × SChan :=
  if sc.sending.length ≤ maxPay then (⟨c, 1, sc.sending, false⟩, { sc with sending := [] })
  else (⟨c, 0, sc.sending.take maxPay, false⟩, { sc with sending := sc.sending.drop maxPay })

/-- one `sendPacketMsg` whose channel choice is `pick`; a choice that has nothing pending sends nothing -/
def sendStep (s : Sender) (pick : Chan) : Sender × Option Packet :=
  match isSendPending (s.chans pick) with
  | (false, _) => (s, none)
  | (true, sc) =>
    let (p, sc') := nextPacket s.maxPay pick sc
    ({ s with chans := upd s.chans pick sc' }, some p)

def runSched : Sender → List Chan → Sender × List Packet
  | s, [] => (s, [])
  | s, c :: cs =>
    match sendStep s c with
    | (s', none) => runSched s' cs
    | (s', some p) => let (s'', ps) := runSched s' cs; (s'', p :: ps)

structure Receiver where
  known : Chan → Bool
  cap : Chan → Nat
  recving : Chan → Bytes

inductive MErr | unknownch | capacity | desync | pongTimeout | handlerPanic
deriving Repr, DecidableEq

/-- `recvRoutine` for one PacketMsg + `Channel.recvPacketMsg`.  A packet whose encoding exceeds the size limit is
handed over by the decoder as the zero packet with a nil error (that is what libs/ser does today); what follows it on
the wire is not modelled (`desync`). -/
def recvPacket (r : Receiver) (p0 : Packet) : Except MErr (Receiver × Option (Chan × Bytes)) :=
  let p : Packet := if p0.over then ⟨0, 0, [], true⟩ else p0
  if !r.known p.ch then .error .unknownch
  else if r.cap p.ch < (r.recving p.ch).length + p.bytes.length then .error .capacity
  else if p.over then .error .desync
  else
    let buf := r.recving p.ch ++ p.bytes
    if p.eof = 1 then .ok ({ r with recving := upd r.recving p.ch [] }, some (p.ch, buf))
    else .ok ({ r with recving := upd r.recving p.ch buf }, none)

/-- the receiver over a packet sequence: final state, deliveries in order, first error -/
def recvAll : Receiver → List Packet → Receiver × List (Chan × Bytes) × Option MErr
  | r, [] => (r, [], none)
  | r, p :: ps =>
    match recvPacket r p with
    | .error e => (r, [], some e)
    | .ok (r', d) =>
      let (r'', ds, e) := recvAll r' ps
      (r'', (match d with | some x => x :: ds | none => ds), e)

/-- the ping / pong discipline as far as the property needs it: a ping that is answered within `PongTimeout` leaves the
connection alone; an unanswered one ends it with exactly one `pong timeout` error (timers themselves are not modelled) -/
def pongVerdict (answered : Bool) : Option MErr := if answered then none else some .pongTimeout

/-- the receiver whose `onReceive` handler panics on the delivery with index `panicAt`: `_recover` turns the panic into ONE
error, the connection stops, the panicking delivery and everything behind it is not delivered -/
def recvAllH (panicAt : Option Nat) : Receiver → List Packet → Nat → List (Chan × Bytes) × Option MErr
  | _, [], _ => ([], none)
  | r, p :: ps, k =>
    match recvPacket r p with
    | .error e => ([], some e)
    | .ok (r', none) => recvAllH panicAt r' ps k
    | .ok (r', some d) =>
      if panicAt == some k then ([], some .handlerPanic)
      else let (ds, e) := recvAllH panicAt r' ps (k + 1); (d :: ds, e)

/-- messages delivered on channel `c`, in order -/
def delsOf (ds : List (Chan × Bytes)) (c : Chan) : List Bytes := (ds.filter (fun d => d.1 == c)).map (·.2)

/-! ## (c) handshake -/

abbrev Key := Nat
abbrev Eph := Nat

/-- the challenge is a hash of the sorted pair of ephemeral keys; hash injectivity is built into the term model -/
structure Chal where
  lo : Nat
  hi : Nat
deriving Repr, DecidableEq

/-- `sort32` + `genChallenge` -/
def mkChal (loc rem : Nat) : Chal := if loc < rem then ⟨loc, rem⟩ else ⟨rem, loc⟩

/-- an ideal signature records who signed what -/
structure Sig where
  signer : Key
  chal : Chal
deriving Repr, DecidableEq

inductive SigTerm
  | good (s : Sig)
  | junk               -- bytes that verify under no key (flipped, wrong type, nil)
deriving Repr, DecidableEq

structure AuthMsg where
  key : Option Key     -- `none`: nil public key
  sig : SigTerm
deriving Repr, DecidableEq

def verify (k : Key) (c : Chal) : SigTerm → Bool
  | .good s => s.signer == k && s.chal == c
  | .junk => false

/-- first half of `MakeSecretConnection`: after `shareEphPubKey` (`none` = undecodable / connection ended) the party
computes the challenge and sends its own key and signature -/
def respond (myKey : Key) (myEph : Eph) (remEph : Option Eph) : Option (Chal × AuthMsg) :=
  match remEph with
  | none => none
  | some e => let c := mkChal myEph e; some (c, ⟨some myKey, .good ⟨myKey, c⟩⟩)

/-- second half: `shareAuthSignature` result (`none` = nothing decodable arrived), nil-key check, own-key check
(both ends sign the same challenge, so our own signature sent back proves nothing about the peer), `VerifyBytes` -/
def finish (myKey : Key) (c : Chal) (auth : Option AuthMsg) : Option Key :=
  match auth with
  | none => none
  | some ⟨none, _⟩ => none
  | some ⟨some k, s⟩ => if k == myKey then none else if verify k c s then some k else none

/-- a whole local run: `some k` = connection established, authenticated remote key `k` -/
def establish (myKey : Key) (myEph : Eph) (remEph : Option Eph) (auth : Option AuthMsg) : Option Key :=
  match respond myKey myEph remEph with
  | none => none
  | some (c, _) => finish myKey c auth

/-! ## (d) switch admission (libs/p2p/switch.go addPeer behind newInboundPeerConn) -/

abbrev NodeId := Nat

/-- node ID = hex(Keccak256(public key)); injective in the term model (collision resistance) -/
def idOf (k : Key) : NodeId := k

/-- the self-reported NodeInfo as far as `addPeer` looks at it -/
structure NodeInfoM where
  pubKey : Key
  /-- `CachePeerID` as received: an ordinary serialised field.  `addPeer` clears it right after the handshake (faaf6b9), so
  `ID()` is always recomputed from `PubKey` and this input decides nothing -/
  cacheId : Option NodeId := none
  /-- `Validate()` -/
  valid : Bool := true
  /-- `CompatibleWith` -/
  compatible : Bool := true
deriving Repr, DecidableEq

structure PeerM where
  id : NodeId
  /-- the key the peer's SecretConnection authenticated (`RemotePubKey`) -/
  authKey : Key
deriving Repr, DecidableEq

structure SwitchState where
  self : Key
  peers : List PeerM := []
  blacklist : List NodeId := []
deriving Repr, DecidableEq

inductive AdmitErr | handshake | blacklisted | invalid | keyMismatch | self | duplicate | incompatible
deriving Repr, DecidableEq

/-- one inbound connection: `auth` is the key the remote proved in `MakeSecretConnection`, `ni` the NodeInfo it sent
(`none`: nothing decodable).  Order of the tests as in `addPeer` today. -/
def admitPeer (auth : Key) (ni : Option NodeInfoM) (s : SwitchState) : Except AdmitErr SwitchState :=
  if auth == s.self then .error .handshake            -- MakeSecretConnection: "Peer presented our own public key"
  else match ni with
  | none => .error .handshake
  | some ni =>
    -- `peerNodeInfo.CachePeerID = ""` comes first: every `ID()` below is `idOf ni.pubKey`, whatever `ni.cacheId` was
    if s.blacklist.contains (idOf ni.pubKey) then .error .blacklisted
    else if !ni.valid then .error .invalid
    else if ni.pubKey != auth then .error .keyMismatch   -- 7463840: claimed key must be the authenticated key
    else if ni.pubKey == s.self then .error .self
    else if s.peers.any (fun p => p.id == idOf ni.pubKey) then .error .duplicate
    else if !ni.compatible then .error .incompatible
    else if s.peers.any (fun p => p.id == idOf ni.pubKey) then .error .duplicate   -- PeerSet.Add (same test again)
    else .ok { s with peers := s.peers ++ [⟨idOf ni.pubKey, auth⟩] }

inductive SwOp
  | conn (auth : Key) (ni : Option NodeInfoM)
  | black (k : Key)        -- MarkBadNode
  | drop (auth : Key)      -- the connection authenticated as `auth` ends; its peer is removed
deriving Repr

def SwitchState.step (s : SwitchState) : SwOp → SwitchState
  | .conn auth ni => match admitPeer auth ni s with | .ok s' => s' | .error _ => s
  | .black k => { s with blacklist := idOf k :: s.blacklist }
  | .drop a => { s with peers := s.peers.filter (fun p => p.authKey != a) }

def SwitchState.run (s : SwitchState) (ops : List SwOp) : SwitchState := ops.foldl SwitchState.step s

/-- the node ID a reactor sees as the sender of a message that arrived on the connection authenticated as `auth`
(`createMConnection`'s onReceive hands the reactor the peer object built in `addPeer`) -/
def SwitchState.senderOf (s : SwitchState) (auth : Key) : Option NodeId :=
  (s.peers.find? (fun p => p.authKey == auth)).map (·.id)

/-- `peer.Send` / `peer.TrySend` towards the connection authenticated as `auth`: refused for a peer that is gone
(`!IsRunning`), for a channel the peer did not advertise in its NodeInfo (`hasChannel`), for a channel no reactor
registered, and for the empty message (`MConnection.Send`) -/
def SwitchState.peerSend (s : SwitchState) (advertised registered : List Nat) (auth : Key) (ch len : Nat) : Bool :=
  (s.peers.any (fun p => p.authKey == auth)) && advertised.contains ch && registered.contains ch && decide (0 < len)

end Model.Conn
