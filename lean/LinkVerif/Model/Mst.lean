/-
Model of `MultiSignAccountTx.VerifySign` (`types/tx_type_mst.go`): the second place where "more than two thirds of the
validators' power, each signer once" decides (validator-set updates and contract creation signed by the validators).
Core Lean only.  The accept test is the T1 translation `Gen.CommitArith.mstAccepts`.

Signatures are symbolic: `good k` = key `k`'s signature over exactly this request (`ser.EncodeToBytes(MultiSignMainInfo)`:
nonce, supported tx type, signers info — NOT the chain id), `other k` = key `k`'s signature over another request,
`bad` = a well-formed signature that verifies for nothing, `malformed` = bytes `crypto.SignatureFromBytes` rejects.
-/
import LinkVerif.Model.Commit

namespace Model.Mst
open Go Model.Vote Model.Commit Gen.CommitArith

inductive MSig where
  | good (k : Nat) | other (k : Nat) | bad (n : Nat) | malformed (n : Nat)
deriving DecidableEq, Repr, Inhabited

inductive MErr where
  | empty | dup | unknown | malformed | power
deriving DecidableEq, Repr, Inhabited

/-- the signature loop: `seen` = addresses with a GOOD signature so far (`vaddrMap`), `acc` = `totalVotingPower` -/
def mstLoop (vals : List Val) (total : Int) : List (List UInt8 × MSig) → List (List UInt8) → Int → Except MErr Unit
  | [], _, _ => .error .power
  | (a, s) :: rest, seen, acc =>
    if seen.contains a then .error .dup
    else match findByAddr vals a with       -- `FindAddress`: first validator with that address
      | none => .error .unknown
      | some val =>
        match s with
        | .malformed _ => .error .malformed
        | .good k =>
          if k = val.key then
            let acc' := wrapI64 (acc + val.power)
            if mstAccepts acc' total then .ok () else mstLoop vals total rest (a :: seen) acc'
          else mstLoop vals total rest seen acc
        | _ => mstLoop vals total rest seen acc

/-- `VerifySign(validators)`; `vals = none` is a nil validator set -/
def verifySign (vals : Option (List Val)) (sigs : List (List UInt8 × MSig)) : Except MErr Unit :=
  match vals with
  | none => .error .empty
  | some vs => if vs.isEmpty then .error .empty else mstLoop vs (totalPower vs) sigs [] 0

end Model.Mst
