/-
Model for C16 (gossip side): libs/common/bit_array.go as the code is, with Go's partiality explicit.

A `*BitArray` that arrives in a consensus message (CommitStep.BlockParts, ProposalPOL.ProposalPOL, VoteSetBits.Votes) is
decoded field by field: `Bits` and `Elems` are INDEPENDENT peer-chosen values (no constructor runs, nothing validates
them), so the model keeps them independent: `bits : Int` (Go `int`), `elems : List Word`.  The operations below are the
ones the reactor and its per-peer gossip goroutines apply to such arrays against node-sized arrays: NewBitArray, Size,
getIndex/GetIndex, setIndex/SetIndex, Copy, copyBits, Or, and/And, Not, Sub, PickRandom, Update.  Every slice index,
`make` and `rand.Intn` the Go code performs is an explicit `Except Fault` step (never totalised).  Core Lean only.
-/
import LinkVerif.Model.PeerInput
import LinkVerif.Go.Int

namespace Model.PeerBits
open Model.PeerInput

abbrev Word := BitVec 64

structure BA where
  bits : Int
  elems : List Word
deriving Repr, DecidableEq

/-- a single message may not cause an allocation above this many bytes (the harness monitor uses the same bound) -/
def allocBound : Nat := 2 ^ 26

/-- `(bits + 63) / 64` in Go `int` arithmetic: the sum wraps, the division truncates toward zero -/
def nwords (bits : Int) : Int := Int.tdiv (Go.wrapI64 (bits + 63)) 64

/-- `make([]uint64, n)`: run-time panic for n < 0 or n·8 beyond the address space (2^48), otherwise an allocation -/
def makeWords (n : Int) (site : String) : Except Fault (List Word) :=
  if n < 0 ∨ n > 2 ^ 45 then .error (.panic site)
  else if n.toNat * 8 > allocBound then .error (.oom (n.toNat * 8))
  else .ok (List.replicate n.toNat 0)

/-- `NewBitArray(bits)`: nil for bits ≤ 0 -/
def newBitArray (bits : Int) : Except Fault (Option BA) :=
  if bits ≤ 0 then .ok none
  else do
    let e ← makeWords (nwords bits) "common.NewBitArray"
    .ok (some ⟨bits, e⟩)

def size : Option BA → Int
  | none => 0
  | some b => b.bits

/-- `uint64(1) << uint(i % 64)`: Go's `%` truncates, a negative remainder converts to a huge shift count, result 0 -/
def mask (i : Int) : Word :=
  let m := Int.tmod i 64
  if m < 0 then 0 else (1 : Word) <<< m.toNat

/-- `bA.getIndex(i)` (no lower bound on i: the code has none) -/
def getIndexRaw (b : BA) (i : Int) : Except Fault Bool :=
  if i ≥ b.bits then .ok false
  else do
    let w ← index b.elems (Int.tdiv i 64) "common.(*BitArray).getIndex"
    .ok (w &&& mask i != 0)

def getIndex : Option BA → Int → Except Fault Bool
  | none, _ => .ok false
  | some b, i => getIndexRaw b i

/-- `bA.setIndex(i, v)`: (returned bool, array afterwards) -/
def setIndexRaw (b : BA) (i : Int) (v : Bool) : Except Fault (Bool × BA) :=
  if i ≥ b.bits then .ok (false, b)
  else do
    let k := Int.tdiv i 64
    let w ← index b.elems k "common.(*BitArray).setIndex"
    let w' := if v then w ||| mask i else w &&& ~~~ (mask i)
    .ok (true, { b with elems := b.elems.set k.toNat w' })

def setIndex : Option BA → Int → Bool → Except Fault (Bool × Option BA)
  | none, _, _ => .ok (false, none)
  | some b, i, v => do
    let (r, b') ← setIndexRaw b i v
    .ok (r, some b')

/-- Go's `copy(dst, src)`: the first min(len) elements -/
def goCopy (dst src : List Word) : List Word := src.take dst.length ++ dst.drop src.length

/-- `bA.copyBits(bits)` -/
def copyBits (b : BA) (bits : Int) : Except Fault BA := do
  let c ← makeWords (nwords bits) "common.(*BitArray).copyBits"
  .ok ⟨bits, goCopy c b.elems⟩

/-- `for i := 0; i < len(c.Elems); i++ { c.Elems[i] op= o.Elems[i] }`: faults at the first i ≥ len(o.Elems) -/
def zipLoop (f : Word → Word → Word) (c o : List Word) (site : String) : Except Fault (List Word) :=
  if o.length < c.length then .error (.panic site) else .ok (List.zipWith f c o)

def or (a o : Option BA) : Except Fault (Option BA) :=
  match a, o with
  | none, none => .ok none
  | none, some o => .ok (some o)
  | some a, none => .ok (some a)
  | some a, some o => do
    let c ← copyBits a (max a.bits o.bits)
    let es ← zipLoop (· ||| ·) c.elems o.elems "common.(*BitArray).Or"
    .ok (some ⟨c.bits, es⟩)

/-- the unexported `and` -/
def andRaw (a o : BA) : Except Fault BA := do
  let c ← copyBits a (min a.bits o.bits)
  let es ← zipLoop (· &&& ·) c.elems o.elems "common.(*BitArray).and"
  .ok ⟨c.bits, es⟩

def and (a o : Option BA) : Except Fault (Option BA) :=
  match a, o with
  | some a, some o => do let r ← andRaw a o; .ok (some r)
  | _, _ => .ok none

def notRaw (b : BA) : BA := ⟨b.bits, b.elems.map (~~~ ·)⟩

def not : Option BA → Option BA
  | none => none
  | some b => some (notRaw b)

/-- first loop of `Sub` (`bA.Bits > o.Bits` branch): `for i := 0; i < len(o.Elems)-1; i++ { c.Elems[i] &= ^c.Elems[i] }` —
as written it clears c's OWN word (it reads `^c.Elems[i]`, not `^o.Elems[i]`); faults when c has fewer words -/
def subClear (c : List Word) (n : Nat) : Except Fault (List Word) :=
  if n > c.length then .error (.panic "common.(*BitArray).Sub") else .ok (List.replicate n 0 ++ c.drop n)

/-- second loop of `Sub`: `for idx := i*64; idx < o.Bits; idx++ { c.setIndex(idx, c.getIndex(idx) && !o.GetIndex(idx)) }`
(`&&` short-circuits: o is read only where c has the bit) -/
def subBits (c o : BA) (idx : Int) : Nat → Except Fault BA
  | 0 => .ok c
  | fuel + 1 =>
    if idx < o.bits then do
      let cv ← getIndexRaw c idx
      let ov ← if cv then getIndexRaw o idx else .ok false
      let (_, c') ← setIndexRaw c idx (cv && !ov)
      subBits c' o (idx + 1) fuel
    else .ok c

def sub (a o : Option BA) : Except Fault (Option BA) :=
  match a, o with
  | some a, some o =>
    if a.bits > o.bits then do
      let es ← subClear a.elems (o.elems.length - 1)
      let c : BA := ⟨a.bits, es⟩
      if o.elems.length = 0 then .ok (some c)
      else do
        let i : Int := (o.elems.length : Int) - 1
        let r ← subBits c o (i * 64) (o.bits - i * 64).toNat
        .ok (some r)
    else do
      let r ← andRaw a (notRaw o)
      .ok (some r)
  | _, _ => .ok none

/-- bit positions j < n of a word that are set -/
def setBitsBelow (w : Word) (n : Nat) : List Nat := (List.range n).filter (fun j => w.getLsbD j)

/-- candidates of the non-last words (all 64 bit positions count, straggler bits included) -/
def pickInner : List Word → Nat → List Int
  | [], _ => []
  | [_], _ => []
  | w :: rest, k => (setBitsBelow w 64).map (fun (j : Nat) => ((64 * k + j : Nat) : Int)) ++ pickInner rest (k + 1)

/-- `PickRandom`: the set of indices it can return (`[]` = it answers false).  The last word is scanned up to
`Bits % 64` positions (64 if that is 0); a negative remainder reaches `rand.Intn(n ≤ 0)`, which panics. -/
def pickCands (b : BA) : Except Fault (List Int) :=
  match b.elems.getLast? with
  | none => .ok []
  | some last =>
    let eb := Int.tmod b.bits 64
    let eb := if eb = 0 then 64 else eb
    if eb < 0 then .error (.panic "common.RandIntn")
    else
      let k := b.elems.length - 1
      .ok (pickInner b.elems 0 ++ (setBitsBelow last eb.toNat).map (fun (j : Nat) => ((64 * k + j : Nat) : Int)))

def pick : Option BA → Except Fault (List Int)
  | none => .ok []
  | some b => pickCands b

/-- `bA.Update(o)`: `copy(bA.Elems, o.Elems)` -/
def update (a o : Option BA) : Option BA :=
  match a, o with
  | some a, some o => some { a with elems := goCopy a.elems o.elems }
  | a, _ => a

/-- what `NewBitArray` builds (and what every honest sender's array is): positive size, exactly the words it needs;
`bits ≤ 2^23` is what the 1 MiB message limit leaves a peer (one encoded word per 64 bits) -/
def BA.WF (b : BA) : Prop := 0 < b.bits ∧ b.bits ≤ 2 ^ 23 ∧ (b.elems.length : Int) = nwords b.bits

instance (b : BA) : Decidable b.WF := by unfold BA.WF; exact inferInstance

end Model.PeerBits
