/-
C20 — the metering skeleton of vm/evm (interpreter.go `Run`, evm.go `Call/CallCode/DelegateCall/StaticCall/create`).

Part A (`Model.Evm`): a generic METERED machine over the jump table that `NewInterpreter` installs
(`Gen.EvmTable.rows`, regenerated from vm/evm/jump_table.go on every check).  Opcode semantics are parameters
(`Sem`): the gas function, `execute`, and — for the call family — the request handed to `evm.Call…`.  What the
interpreter loop and the call wrappers do with gas, pc, the stack bound, snapshots and the `Issued` channel is
modelled as the code does it today, including the un-metered `decimals()` static call (`GetUTXOChangeRate`,
`staticCallSimulateGas`) that follows a frame which consumed an ISSUE token.

Part B (`Model.Evm.Trace`): the executable step relation used by the driver to validate the implementation's own
tracer output (`CaptureState/CaptureFault`) line by line against the table.

Core Lean only.
-/
import LinkVerif.Gen.EvmTable

namespace Model.Evm
open Gen.EvmTable

/-- `in.cfg.JumpTable[op]` restricted to `valid` entries (`if !operation.valid { return … invalid opcode }`) -/
def lookup (op : Nat) : Option Row := rows.find? (fun r => r.op == op && r.valid)

/-- `Contract.GetOp`: past the end of the code the op is STOP (0) -/
def getOp (code : List Nat) (pc : Nat) : Nat := code.getD pc 0

/-- the execute functions that enter `evm.Call/CallCode/DelegateCall/StaticCall/Create/Create2` -/
def isCallFamily (r : Row) : Bool := r.kind == 1 || r.kind == 2
def isCreateFamily (r : Row) : Bool := r.kind == 3 || r.kind == 7
def entersFrame (r : Row) : Bool := isCallFamily r || isCreateFamily r
def isIssue (r : Row) : Bool := r.kind == 4
def isStaticCallOp (r : Row) : Bool := r.kind == 2
def isPlainCallOp (r : Row) : Bool := r.op == 0xf1   -- `op == CALL` in enforceRestrictions

/-- `validateStack` = `makeStackFunc(pop, push)`: `require(pop)` and `len + push - pop ≤ StackLimit` -/
def stackOk (r : Row) (len : Nat) : Bool := r.pop ≤ len && len + r.push ≤ stackLimit + r.pop

inductive Status | ok | reverted | failed | outOfFuel
deriving DecidableEq, Repr, Inhabited

/-- the `Issued` channel (capacity 1): empty, or holding `true` (sent by ISSUE) or `false` (sent by
    `GetUTXOChangeRate` before its static call) -/
abbrev Token := Option Bool

/-- the EVM-wide mutable state besides the world: the `Issued` channel and the fee ledger.  The ledger is kept at the
    level of sums (`fees = Σ evm.fees`, `refunds = Σ evm.refundFees`): `RefundFee() = refunds`,
    `RefundAllFee() = fees + refunds`. -/
structure Glob where
  iss : Token := none
  fees : Nat := 0
  refunds : Nat := 0

/-- what a call wrapper (`evm.Call` …) hands back to `opCall` … -/
structure CallRes (W : Type) where
  status : Status
  gas : Nat          -- `contract.Gas` returned as leftOverGas
  world : W
  glob : Glob
  /-- gas of the steps the interpreter executed in this call tree (what was really burnt, forwarded gas excluded) -/
  work : Nat
  /-- an ISSUE step was executed somewhere in this call tree -/
  issued : Bool

/-- the request an executing call-family / create-family op makes; `fwd` is set by the model (`stepCall`, `stepPlain`) -/
structure CallReq (W : Type) where
  /-- gas handed to the callee (`callGasTemp` + stipend, or the gas `opCreate`/`opCreate2` take) -/
  fwd : Nat
  /-- the world at the call, after what happens BEFORE the snapshot (CREATE's caller-nonce bump) -/
  world : W
  /-- refused before the snapshot: `some keep` (ErrInsufficientBalance keeps the gas, ErrContractAddressCollision
      returns 0) -/
  refuse : Option Bool
  /-- after the snapshot: CreateAccount, value transfer, SetNonce(1) -/
  enter : W → W
  code : List Nat
  /-- the wrapper is `evm.StaticCall` -/
  static : Bool
  /-- after a successful run: `create` charges the code deposit and stores the code (`none` = ErrCodeStoreOutOfGas or
      max code size); the call family returns `(gas, world)` unchanged -/
  finish : Nat → W → Option (Nat × W)
  /-- code run by `GetUTXOChangeRate(contract.Address())` -/
  simCode : W → List Nat

inductive Exec (W L : Type)
  | err                                            -- execute returned an error other than ExecutionReverted
  | revertErr                                      -- execute returned ExecutionReverted (TRANSFERTOKEN)
  | next (l : L) (w : W) (jump : Option Nat)        -- done; `jump = some t`: a taken JUMP/JUMPI
  | call (req : CallReq W) (k : CallRes W → L)     -- enters a frame; `k` rebuilds stack/memory from the result

/-- the state-dependent summands of `gasCall/gasCallCode/gasDelegateCall/gasStaticCall` and the requested gas -/
structure CallArgs where
  /-- `gasFee(evm, toAddr, value)` (CALL with value only) -/
  fee : Nat
  /-- CallNewAccountGas + memory expansion -/
  extra : Nat
  /-- `stack.Back(0)`, any 256-bit word -/
  requested : Nat

/-- the opcode semantics the skeleton is generic in -/
structure Sem (W L : Type) where
  stackLen : L → Nat
  /-- `operation.gasCost` of every entry outside the call family, the transfer fee excluded (memory size overflow
      included): `none` = error, reported as ErrOutOfGas -/
  gasCost : Row → L → W → Nat → Option Nat
  /-- the transfer fee `gasFee` adds to the price of SELFDESTRUCT / TRANSFERTOKEN (and records in `evm.fees`) -/
  fee : Row → L → W → Nat
  /-- call family: `none` = gas error (memory overflow) -/
  callArgs : Row → L → W → Option CallArgs
  /-- the value operand is non-zero (`stack.Back(2).Sign() != 0`): read by `enforceRestrictions`, `gasCall`, `opCall` -/
  callHasValue : Row → L → Bool
  exec : Row → Nat → Nat → L → W → Exec W L
  /-- fresh stack and memory -/
  l0 : L
  /-- does the `decimals()` answer decode (`UTXOChangeRateResultDecodeEVM`, `UTXOChangeRateFromUint8`) -/
  rateOk : Status → W → Bool

structure Frame (W L : Type) where
  code : List Nat
  pc : Nat
  gas : Nat
  l : L
  w : W
  static : Bool      -- `in.readOnly`
  glob : Glob
  work : Nat
  issued : Bool

structure FrameRes (W : Type) where
  status : Status
  gas : Nat
  world : W
  glob : Glob
  work : Nat
  issued : Bool

inductive StepRes (W L : Type)
  | cont (f : Frame W L)
  | halt (r : FrameRes W)

/-- `evm.Call…` one level deeper: request, the caller's `readOnly`, the EVM-wide state -/
abbrev SubCall (W : Type) := CallReq W → Bool → Glob → CallRes W

variable {W L : Type}

/-- `select { case evm.Issued <- true: default: }` -/
def sendIssued (t : Token) : Token := match t with | none => some true | some b => some b

/-- `callGas` of vm/evm/gas.go on uint64 operands (`gasTable.CreateBySuicide > 0`, extracted): the subtraction wraps,
    the requested gas is capped by all-but-one-64th of what is left after the base price -/
def callGasU64 (avail base requested : Nat) : Nat :=
  let a := (avail + 2 ^ 64 - base % 2 ^ 64) % 2 ^ 64
  let g := a - a / 64
  if 2 ^ 64 ≤ requested ∨ g < requested then g else requested

/-- the frame ends with an error before (or instead of) executing -/
def failHere (f : Frame W L) (glob : Glob) : StepRes W L :=
  .halt { status := .failed, gas := f.gas, world := f.w, glob := glob, work := f.work, issued := f.issued }

/-- the `switch` at the end of the loop body: `reverts` / `halts` / continue -/
def finishStep (r : Row) (f : Frame W L) (g : Nat) (l' : L) (w' : W) (pc' : Nat) (glob : Glob) (work : Nat)
    (issued : Bool) : StepRes W L :=
  if r.reverts then .halt { status := .reverted, gas := g, world := w', glob := glob, work := work, issued := issued }
  else if r.halts then .halt { status := .ok, gas := g, world := w', glob := glob, work := work, issued := issued }
  else .cont { f with pc := pc', gas := g, l := l', w := w', glob := glob, work := work, issued := issued }

/-- the fee ledger when `UseGas(cost)` fails on a fee-carrying step (`feeSaved`): the entry just pushed is popped and
    `contract.Gas - (cost - fee)` is pushed instead when positive -/
def oogLedger (glob : Glob) (gas cost fee : Nat) : Glob :=
  if 0 < fee ∧ cost - fee < gas then { glob with fees := glob.fees + (gas - (cost - fee)) } else glob

/-- only state-modifying entries (SELFDESTRUCT, TRANSFERTOKEN) carry a transfer fee; constant prices carry none -/
def plainFee (sem : Sem W L) (f : Frame W L) (r : Row) : Nat :=
  match r.gasConst with | some _ => 0 | none => if r.writes then sem.fee r f.l f.w else 0

/-- constant-priced entries ignore the state; the others add the transfer fee to their gas function -/
def plainCost (r : Row) (c0 fee : Nat) : Nat :=
  match r.gasConst with | some k => k | none => c0 + fee

/-- CREATE: `gas = contract.Gas`; CREATE2: `gas -= gas / 64` -/
def createTake (r : Row) (g1 : Nat) : Nat := if r.kind == 3 then g1 else g1 - g1 / 64

/-- `gasFee` is charged by gasCall only (CALL), only for a positive value, and `CalNewAmountGas` never returns less
    than MinGasLimit -/
def callFee (r : Row) (hv : Bool) (a : CallArgs) : Nat := if isPlainCallOp r && hv then max a.fee minFeeGas else 0

/-- `gt.Calls` (+ CallValueTransferGas) + fee + new-account/memory gas -/
def callBase (hv : Bool) (fee extra : Nat) : Nat := gtCalls + (if hv then callValueTransferGas else 0) + fee + extra

/-- `if value.Sign() != 0 { gas += CallStipend }` -/
def stipendOf (hv : Bool) : Nat := if hv then callStipend else 0

/-- opCall on error: `refundFees = append(refundFees, fees[startFeesIndex:]...); fees = fees[:startFeesIndex]`, the slice
    starting at this step's own entry (sum level: everything above `before`, the sum before this step) -/
def moveToRefunds (r : Row) (failed : Bool) (before : Nat) (g : Glob) : Glob :=
  if isPlainCallOp r && failed then { g with refunds := g.refunds + (g.fees - before), fees := min g.fees before } else g

/-- an entry outside the call family: price (constant, or gas function + transfer fee), `UseGas`, `execute` -/
def stepPlain (sem : Sem W L) (sub : SubCall W) (f : Frame W L) (r : Row) : StepRes W L :=
  match sem.gasCost r f.l f.w f.gas with
  | none => failHere f f.glob                                           -- gas error ⇒ ErrOutOfGas (a saved fee is popped)
  | some c0 =>
    let fee := plainFee sem f r
    let c := plainCost r c0 fee
    if f.gas < c then failHere f (oogLedger f.glob f.gas c fee)         -- UseGas fails ⇒ ErrOutOfGas
    else
      let g1 := f.gas - c
      let glob1 : Glob := { f.glob with fees := f.glob.fees + fee }
      let work1 := f.work + c
      match sem.exec r f.pc g1 f.l f.w with
      | .err => .halt { status := .failed, gas := g1, world := f.w, glob := glob1, work := work1, issued := f.issued }
      | .revertErr => .halt { status := .reverted, gas := g1, world := f.w, glob := glob1, work := work1, issued := f.issued }
      | .next l' w' jmp =>
        let glob2 : Glob := if isIssue r then { glob1 with iss := sendIssued glob1.iss } else glob1
        finishStep r f g1 l' w' (if r.jumps then jmp.getD (f.pc + 1) else f.pc + 1 + r.pcAdv) glob2 work1
          (f.issued || isIssue r)
      | .call req k =>
        if !isCreateFamily r then failHere f f.glob     -- only CREATE/CREATE2 reach evm.Create here; unreachable otherwise
        else
          -- opCreate: `gas = contract.Gas`; opCreate2: `gas -= gas / 64`; `contract.UseGas(gas)`
          let take := createTake r g1
          let res := sub { req with fwd := take } f.static glob1
          -- `contract.Gas += returnGas`
          finishStep r f (g1 - take + res.gas) (k res) res.world (f.pc + 1 + r.pcAdv) res.glob (work1 + res.work)
            (f.issued || res.issued)

/-- CALL / CALLCODE / DELEGATECALL / STATICCALL: `gasCall…` (base price, `callGas`), `UseGas`, `opCall…` -/
def stepCall (sem : Sem W L) (sub : SubCall W) (f : Frame W L) (r : Row) : StepRes W L :=
  match sem.callArgs r f.l f.w with
  | none => failHere f f.glob
  | some a =>
    let hv := sem.callHasValue r f.l
    let fee := callFee r hv a
    let base := callBase hv fee a.extra
    let temp := callGasU64 f.gas base a.requested                       -- evm.callGasTemp
    let c := base + temp
    if 2 ^ 64 ≤ c then failHere f f.glob                                -- SafeAdd overflow ⇒ error ⇒ the saved fee is popped
    else if f.gas < c then failHere f (oogLedger f.glob f.gas c fee)    -- UseGas fails
    else
      let g1 := f.gas - c
      let glob1 : Glob := { f.glob with fees := f.glob.fees + fee }
      let stipend := stipendOf hv
      -- the stipend is paid for by CallValueTransferGas and accounted to the callee
      let work1 := f.work + (base - stipend)
      match sem.exec r f.pc g1 f.l f.w with
      | .err => .halt { status := .failed, gas := g1, world := f.w, glob := glob1, work := work1 + stipend, issued := f.issued }
      | .revertErr => .halt { status := .reverted, gas := g1, world := f.w, glob := glob1, work := work1 + stipend, issued := f.issued }
      | .next l' w' _ =>
        finishStep r f g1 l' w' (f.pc + 1 + r.pcAdv) glob1 (work1 + stipend) f.issued
      | .call req k =>
        -- `gas := evm.callGasTemp; if value.Sign() != 0 { gas += CallStipend }`
        let res := sub { req with fwd := temp + stipend } f.static glob1
        let glob2 := moveToRefunds r (res.status != .ok) f.glob.fees res.glob
        finishStep r f (g1 + res.gas) (k res) res.world (f.pc + 1 + r.pcAdv) glob2 (work1 + res.work) (f.issued || res.issued)

/-- one iteration of the loop in `Interpreter.Run`; `sub` is `evm.Call…` one level deeper -/
def step (sem : Sem W L) (sub : SubCall W) (f : Frame W L) : StepRes W L :=
  match lookup (getOp f.code f.pc) with
  | none => failHere f f.glob                                          -- invalid opcode
  | some r =>
    if !stackOk r (sem.stackLen f.l) then failHere f f.glob            -- validateStack
    else if f.static && (r.writes || (isPlainCallOp r && sem.callHasValue r f.l)) then failHere f f.glob   -- errWriteProtection
    else if isCallFamily r then stepCall sem sub f r
    else stepPlain sem sub f r

/-- the loop, with explicit fuel -/
def runFrame (sem : Sem W L) (sub : SubCall W) : Nat → Frame W L → FrameRes W
  | 0, f => { status := .outOfFuel, gas := f.gas, world := f.w, glob := f.glob, work := f.work, issued := f.issued }
  | n + 1, f =>
    match step sem sub f with
    | .halt r => r
    | .cont f' => runFrame sem sub n f'

/-- the termination measure of one frame: `(gas, |code| - pc)` lexicographically, folded into one number -/
def frameMeasure (f : Frame W L) : Nat := f.gas * (f.code.length + 1) + (f.code.length - f.pc)

/-- fuel that always suffices (theorem `Props.C20.frame_terminates`) -/
def fuelFor (code : List Nat) (gas : Nat) : Nat := gas * (code.length + 1) + code.length + 1

/-- journalled world: snapshots and revert (statedb.go; C09 is about this) -/
structure Journal (W : Type) where
  Snap : Type
  snap : W → Snap
  revertTo : W → Snap → W

/-- does the wrapper's `select` on the `Issued` channel lead to `GetUTXOChangeRate`: every wrapper but StaticCall
    ignores the VALUE of the token (`case <-evm.Issued:`), StaticCall reads it (`case needCheck := <-evm.Issued`) -/
def triggersRate (static : Bool) (t : Token) : Bool :=
  match t with
  | none => false
  | some b => !static || b

/-- create: the code deposit after a successful run (`contract.UseGas(createDataGas)`, `SetCode`) -/
def afterDeposit (req : CallReq W) (r : FrameRes W) : FrameRes W :=
  if r.status == .ok then
    match req.finish r.gas r.world with
    | some (g, w) => { r with gas := min g r.gas, world := w }
    | none => { r with status := .failed }
  else r

/-- `select { case <-evm.Issued: if err == nil { GetUTXOChangeRate(contract.Address()) } default: }`.
    GetUTXOChangeRate sends `false` on the channel and makes an UN-METERED `StaticCall` with `staticCallSimulateGas`
    at the same depth (`sim`, given the EVM-wide state).  That static call's own select drains whatever token is left
    when it returns; a `true` token cannot be there (ISSUE is a `writes` entry and the frame is read-only:
    `Props.C20.issue_writes`). -/
def afterSelect (sem : Sem W L) (J : Journal W) (static : Bool) (sim : W → Glob → FrameRes W) (r : FrameRes W) : FrameRes W :=
  if triggersRate static r.glob.iss && r.status == .ok then
    let snap2 := J.snap r.world
    let s := sim r.world { r.glob with iss := some false }
    let w2 := if s.status == .ok then s.world else J.revertTo s.world snap2
    let glob2 : Glob := { s.glob with iss := none }
    if sem.rateOk s.status w2 then { r with world := w2, glob := glob2, work := r.work + s.work, issued := r.issued || s.issued }
    else { r with status := .reverted, world := w2, glob := glob2, work := r.work + s.work, issued := r.issued || s.issued }
  else { r with glob := { r.glob with iss := none } }      -- the select drains the channel (or finds it empty)

/-- `if err != nil { RevertToSnapshot(snapshot); if err != ExecutionReverted { contract.UseGas(contract.Gas) } }` -/
def settle (J : Journal W) (snapshot : J.Snap) (r : FrameRes W) : CallRes W :=
  match r.status with
  | .ok => { status := .ok, gas := r.gas, world := r.world, glob := r.glob, work := r.work, issued := r.issued }
  | .reverted => { status := .reverted, gas := r.gas, world := J.revertTo r.world snapshot, glob := r.glob, work := r.work, issued := r.issued }
  | st => { status := st, gas := 0, world := J.revertTo r.world snapshot, glob := r.glob, work := r.work, issued := r.issued }

/-- a fresh frame (empty stack and memory, pc 0) run to its end -/
def runFresh (sem : Sem W L) (sub : SubCall W) (code : List Nat) (gas : Nat) (w : W) (static : Bool) (glob : Glob) : FrameRes W :=
  runFrame sem sub (fuelFor code gas)
    { code := code, pc := 0, gas := gas, l := sem.l0, w := w, static := static, glob := glob, work := 0, issued := false }

/-- the body of `evm.Call / CallCode / DelegateCall / StaticCall / create` once the depth check has passed; `sub` is the
    same family one level deeper; `simGas` is the gas of the decimals() static call (`staticCallSimulateGas`) -/
def callBody (sem : Sem W L) (J : Journal W) (simGas : Nat) (sub : SubCall W) (req : CallReq W) (ro : Bool) (glob : Glob) : CallRes W :=
  match req.refuse with
  | some keep => { status := .failed, gas := if keep then req.fwd else 0, world := req.world, glob := glob, work := 0, issued := false }
  | none =>
    -- snapshot, then CreateAccount / Transfer, then run; deposit; the select on `Issued`; revert / burn
    settle J (J.snap req.world)
      (afterSelect sem J req.static (fun w g => runFresh sem sub (req.simCode w) simGas w true g)
        (afterDeposit req (runFresh sem sub req.code req.fwd (req.enter req.world) (ro || req.static) glob)))

/-- `evm.Call / CallCode / DelegateCall / StaticCall / create` with a depth budget
    (`evm.depth > CallCreateDepth ⇒ ErrDepth`, the gas is handed back) -/
def callAt (sem : Sem W L) (J : Journal W) : Nat → SubCall W
  | 0 => fun req _ glob => { status := .failed, gas := req.fwd, world := req.world, glob := glob, work := 0, issued := false }
  | n + 1 => callBody sem J simulateGas (callAt sem J n)

/-! ### the fee ledger of `Interpreter.Run` (`evm.fees`, `feeSaved`) on a step that cannot pay -/

/-- `if !contract.UseGas(cost) { if feeSaved { realCost := cost - fees[last]; fees = fees[:last];
    if contract.Gas > realCost { fees = append(fees, contract.Gas - realCost) } } }` (uint64 arithmetic is exact here:
    the fee is a summand of `cost`) -/
def oogFees (fees : List Nat) (gas cost : Nat) : List Nat :=
  match fees.reverse with
  | [] => fees
  | fee :: rest =>
    let realCost := cost - fee
    if gas > realCost then (rest.reverse) ++ [gas - realCost] else rest.reverse

/-! ## Part B — validating the implementation's tracer output -/
namespace Trace

/-- quadratic memory price of `memoryGasCost` for a size that is a multiple of 32 -/
def memFee (size : Nat) : Nat :=
  let words := (size + 31) / 32
  words * memoryGas + words * words / quadCoeffDiv

/-- the least price of the dynamic gas functions the model knows by name (memory expansion excluded) -/
def dynFloor (fn : String) : Nat :=
  if fn == "gasCall" || fn == "gasCallCode" || fn == "gasDelegateCall" || fn == "gasStaticCall" then gtCalls
  else if fn == "gasCreate" then createGas
  else if fn == "gasCreate2" then create2Gas
  else if fn == "gasSha3" then sha3Gas
  else if fn == "gasExp" then gasSlowStep
  else if fn == "gasSStore" then min sstoreSetGas (min sstoreClearGas sstoreResetGas)
  else if fn == "gasExtCodeCopy" then gtExtcodeCopy
  else if fn == "gasMLoad" || fn == "gasMStore" || fn == "gasMStore8" || fn == "gasCallDataCopy" || fn == "gasCodeCopy"
       || fn == "gasReturnDataCopy" then gasFastestStep
  else if fn == "makeGasLog0" then logGas
  else if fn == "makeGasLog1" then logGas + logTopicGas
  else if fn == "makeGasLog2" then logGas + 2 * logTopicGas
  else if fn == "makeGasLog3" then logGas + 3 * logTopicGas
  else if fn == "makeGasLog4" then logGas + 4 * logTopicGas
  else 0     -- gasReturn, gasRevert, gasSuicide, gasTransferToken: may be 0

/-- `codeBitmap`: positions that are opcodes (not PUSH data) -/
def codePositions (code : Array Nat) : Array Bool := Id.run do
  let mut out : Array Bool := Array.replicate code.size false
  let mut pc := 0
  for _ in [0:code.size] do
    if pc < code.size then
      out := out.set! pc true
      let adv := match lookup (code.getD pc 0) with | some r => r.pcAdv | none => 0
      -- PUSHn data is skipped whether or not the table knows the op: analysis.go keys on the PUSH1..PUSH32 range
      let op := code.getD pc 0
      let adv := if 0x60 ≤ op && op ≤ 0x7f then op - 0x5f else adv
      pc := pc + 1 + adv
  return out

structure Prev where
  pc : Nat
  row : Row
  gas : Nat
  cost : Nat
  st : Nat
  mem : Nat
  /-- entry gas of the frame this step entered, once seen -/
  child : Option Nat := none
  /-- a `decimals()` frame was seen after this step -/
  sim : Bool := false
deriving Inhabited

inductive Fin | running | ok | err
deriving DecidableEq, Inhabited

structure TFrame where
  depth : Nat
  code : Array Nat
  dests : Array Bool
  ro : Bool
  gas0 : Nat
  isSim : Bool
  prev : Option Prev := none
  fin : Fin := .running
deriving Inhabited

structure TState where
  gas : Nat := 0
  create : Bool := false
  frames : List TFrame := []        -- innermost first
  /-- over-approximation of the `Issued` channel: a `true` (ISSUE) / `false` (GetUTXOChangeRate) token may be pending -/
  mayT : Bool := false
  mayF : Bool := false
  /-- the last root-level frame that ended: (fin, gas after its last step, was it the decimals() frame) -/
  rootDone : Option (Fin × Nat × Bool) := none
  rootSeen : Bool := false
  rootSim : Bool := false
  dead : Bool := false              -- after the first bad line the rest of the run is not judged
deriving Inhabited

def gasAfter (p : Prev) : Nat := p.gas - p.cost

/-- frames deeper than `d` have returned: drop them (their return drains the Issued token) -/
def popTo (s : TState) (d : Nat) : TState :=
  let deeper := s.frames.filter (fun f => f.depth > d)
  { s with frames := s.frames.filter (fun f => f.depth ≤ d), mayT := if deeper.isEmpty then s.mayT else false,
           mayF := if deeper.isEmpty then s.mayF else false }

def isJumpDest (f : TFrame) (pc : Nat) : Bool := f.dests.getD pc false && f.code.getD pc 0 == 0x5b

/-- `enter d=… gas=… ro=… code=…`: a new interpreter frame was seen -/
def enter (s : TState) (d g : Nat) (code : Array Nat) : TState × String :=
  if d == 0 then (s, "bad:depth0") else
  -- frames at depth ≥ d have ended; remember how the one at depth d ended
  let same := s.frames.find? (fun f => f.depth == d)
  let (mayT, mayF) := (s.mayT, s.mayF)
  let s1 := popTo s d
  let s1 := { s1 with frames := s1.frames.filter (fun f => f.depth < d) }
  let mk (isSim ro : Bool) : TFrame := { depth := d, code := code, dests := codePositions code, ro := ro, gas0 := g, isSim := isSim }
  -- `staticWrapper`: the frame whose return runs the select was entered through evm.StaticCall (it reads the token's value)
  let simOk (prevFrame : Option TFrame) (staticWrapper : Bool) : Bool :=
    (mayT || (mayF && !staticWrapper)) && g == simulateGas && (match prevFrame with | some f => f.fin == .ok && !f.isSim | none => true)
  if d == 1 then
    match same with
    | none =>
      if s.rootSeen then
        if s.rootSim then (s1, "bad:second-root-frame")
        else if simOk none false && (match s.rootDone with | some (.ok, _, _) => true | _ => false) then
          ({ s1 with frames := [mk true true], mayT := false, mayF := true, rootSim := true }, "ok")
        else (s1, "bad:unexplained-root-frame")
      else if g == s.gas then ({ s1 with frames := [mk false false], rootSeen := true }, "ok")
      else (s1, "bad:root-gas")
    | some f =>
      if f.fin == .running then (s1, "bad:frame-replaced-while-running")
      else if !s.rootSim && simOk (some f) false then
        ({ s1 with frames := [mk true true], mayT := false, mayF := true, rootSim := true,
                   rootDone := some (f.fin, (f.prev.map gasAfter).getD f.gas0, f.isSim) }, "ok")
      else (s1, "bad:unexplained-root-frame")
  else
    match s1.frames with
    | [] => (s1, "bad:no-parent")
    | p :: rest =>
      if p.depth + 1 != d then (s1, "bad:depth-skip")
      else if p.fin != .running then (s1, "bad:parent-ended")
      else match p.prev with
        | none => (s1, "bad:parent-has-no-step")
        | some pv =>
          if !entersFrame pv.row then (s1, "bad:frame-without-call-op")
          else if pv.sim then (s1, "bad:frame-after-decimals-call")
          else
            let bound := if isCallFamily pv.row then pv.cost else gasAfter pv
            let ro := p.ro || isStaticCallOp pv.row
            let asChild := pv.child.isNone && same.isNone && g ≤ bound
            if asChild then
              ({ s1 with frames := mk false ro :: { p with prev := some { pv with child := some g } } :: rest, mayT := mayT, mayF := mayF }, "ok")
            else if simOk same (isStaticCallOp pv.row) then
              ({ s1 with frames := mk true true :: { p with prev := some { pv with sim := true } } :: rest, mayT := false, mayF := true }, "ok")
            else if pv.child.isNone && same.isNone && !(g ≤ bound) then (s1, "bad:child-gas-exceeds-what-was-paid")
            else (s1, "bad:unexplained-frame")

/-- is a pre-execution error (`CaptureState` with `err != nil`) explained by the table -/
def errJustified (f : TFrame) (op gas st : Nat) : Bool :=
  match lookup op with
  | none => true
  | some r =>
    !stackOk r st || (f.ro && (r.writes || isPlainCallOp r)) ||
    (match r.gasConst with
     | some c => gas < c
     | none => true)       -- a dynamic price may exceed any gas (callGas, memory, overflow)

/-- `s d=… pc=… op=… gas=… cost=… st=… mem=… err=…` -/
def stepLine (s : TState) (d pc op gas cost st mem : Nat) (err : Bool) : TState × String :=
  let s := popTo s d
  match s.frames with
  | [] => (s, "bad:step-without-frame")
  | f :: rest =>
    if f.depth != d then (s, "bad:step-without-frame")
    else if f.fin != .running then (s, "bad:step-after-end")
    else if op != f.code.getD pc 0 then (s, "bad:op-is-not-code-at-pc")
    else
      -- continuity with the previous step of this frame
      let contErr : Option String :=
        match f.prev with
        | none =>
          if pc != 0 then some "first-pc" else if gas != f.gas0 then some "first-gas" else if st != 0 then some "first-stack" else none
        | some pv =>
          let r := pv.row
          let pcOk : Bool :=
            if r.jumps then (isJumpDest f pc || (r.kind == 6 && pc == pv.pc + 1))
            else pc == pv.pc + 1 + r.pcAdv
          let gasOk : Bool :=
            if isCallFamily r then
              match pv.child with
              | some g0 => decide (gasAfter pv ≤ gas) && decide (gas ≤ gasAfter pv + g0)
              | none => decide (gasAfter pv ≤ gas) && decide (gas + gtCalls ≤ pv.gas)   -- stipend < CallValueTransferGas
            else if isCreateFamily r then decide (gas ≤ gasAfter pv)
            else gas == gasAfter pv
          if !pcOk then some "pc" else if !gasOk then some "gas-not-previous-minus-cost"
          else if st + r.pop != pv.st + r.push then some "stack-delta"
          else if mem < pv.mem then some "memory-shrank" else none
      match contErr with
      | some e => (s, "bad:" ++ e)
      | none =>
        let pmem := match f.prev with | some pv => pv.mem | none => 0
        if err then
          if errJustified f op gas st then
            -- the frame fails; all its gas is consumed by the caller's wrapper
            let f' := { f with fin := .err, prev := f.prev }
            ({ s with frames := f' :: rest }, "ok")
          else (s, "bad:unjustified-error")
        else
          match lookup op with
          | none => (s, "bad:invalid-op-executed")
          | some r =>
            if !stackOk r st then (s, "bad:stack-bounds")
            else if f.ro && r.writes then (s, "bad:write-in-static")
            else if cost > gas then (s, "bad:cost-exceeds-gas")
            else if mem % 32 != 0 then (s, "bad:memory-size")
            else if mem > pmem && !r.hasMem then (s, "bad:memory-grew-without-memorySize")
            else
              let memDelta := memFee mem - memFee pmem
              let priceOk := match r.gasConst with
                | some c => cost == c
                | none => cost ≥ dynFloor r.gasFn + (if r.gasFn == "gasTransferToken" then 0 else memDelta)
              if !priceOk then (s, "bad:price")
              else
                let pv : Prev := { pc := pc, row := r, gas := gas, cost := cost, st := st, mem := mem }
                let fin := if r.halts then Fin.ok else Fin.running
                let f' := { f with prev := some pv, fin := fin }
                ({ s with frames := f' :: rest, mayT := s.mayT || isIssue r }, "ok")

/-- `fault d=… pc=…`: `CaptureFault` — execute (or REVERT) ended the frame with an error after the step was logged -/
def faultLine (s : TState) (d pc : Nat) : TState × String :=
  let s := popTo s d
  match s.frames with
  | [] => (s, "bad:fault-without-frame")
  | f :: rest =>
    if f.depth != d then (s, "bad:fault-without-frame") else
    match f.prev with
    | none => (s, "bad:fault-without-step")
    | some pv =>
      if pv.pc != pc then (s, "bad:fault-pc")
      else if f.fin == .err then (s, "bad:double-fault")
      else if entersFrame pv.row then (s, "bad:call-op-faulted")
      else ({ s with frames := { f with fin := .err } :: rest }, "ok")

/-- `end gasleft=… status=ok|reverted|failed trunc=0|1` -/
def endLine (s : TState) (gasLeft : Nat) (status : String) (trunc : Bool) : TState × String :=
  if gasLeft > s.gas then (s, "bad:gasleft-exceeds-gas") else
  if trunc then (s, "ok") else
  let root := s.frames.find? (fun f => f.depth == 1)
  -- the root frame proper (not the decimals() frame)
  let info : Option (Fin × Nat) :=
    match root with
    | some f => if f.isSim then s.rootDone.map (fun (a, b, _) => (a, b)) else some (f.fin, (f.prev.map gasAfter).getD f.gas0)
    | none => none
  match info with
  | none =>
    -- no interpreter frame: empty code, precompile, or refused before running
    if status == "ok" && !s.create && gasLeft != s.gas then (s, "bad:gas-used-without-steps") else (s, "ok")
  | some (fin, g) =>
    if status == "failed" then (if gasLeft == 0 then (s, "ok") else (s, "bad:failed-frame-kept-gas"))
    else if fin == .running then (s, "bad:frame-never-ended")
    else if status == "ok" && fin == .err then (s, "bad:ok-after-fault")
    else if s.create then (if gasLeft ≤ g then (s, "ok") else (s, "bad:gasleft"))
    else if gasLeft == g then (s, "ok") else (s, "bad:gasleft")

end Trace
/-! ## Part C — the precompiled contracts: `RequiredGas` (pure arithmetic, transcribed; the Go bodies are pinned by hash in
`Gen.EvmTable.requiredGasBody_*`) and the charge rule of `RunPrecompiledContract` -/
namespace Pre

/-- `RunPrecompiledContract`: `gas := p.RequiredGas(input); if contract.UseGas(gas) { return p.Run(input) }; return nil, ErrOutOfGas`
    — `none`: out of gas, nothing is deducted here (the call wrapper burns the frame's gas) -/
def runPre (gas required : Nat) : Option Nat := if gas < required then none else some (gas - required)

/-- `uint64(len(input)+31)/32*perWord + base` -/
def wordGas (base perWord len : Nat) : Nat := (len + 31) / 32 * perWord + base

def bytesNat (bs : List UInt8) : Nat := bs.foldl (fun a b => a * 256 + b.toNat) 0

/-- `getData(data, start, size)`: the slice `[start, start+size)` clipped to the data, right-padded with zeros to `size` -/
def getData (data : List UInt8) (start size : Nat) : List UInt8 :=
  let s := min start data.length
  let e := min (s + size) data.length
  let sl := (data.drop s).take (e - s)
  sl ++ List.replicate (size - sl.length) 0

def bitLen (n : Nat) : Nat := if n = 0 then 0 else Nat.log2 n + 1

/-- the multiplication complexity of EIP-198 as `bigModExp.RequiredGas` computes it -/
def multComplexity (x : Nat) : Nat :=
  if x ≤ 64 then x * x
  else if x ≤ 1024 then x * x / 4 + (96 * x - 3072)
  else x * x / 16 + (480 * x - 199680)

/-- `if gas.BitLen() > 64 { return math.MaxUint64 }; return gas.Uint64()` -/
def capU64 (g : Nat) : Nat := if 2 ^ 64 ≤ g then 2 ^ 64 - 1 else g

/-- `(*bigModExp).RequiredGas`: big-integer arithmetic on the three 32-byte length headers, capped at MaxUint64 -/
def modexpGas (input : List UInt8) : Nat :=
  let baseLen := bytesNat (getData input 0 32)
  let expLen := bytesNat (getData input 32 32)
  let modLen := bytesNat (getData input 64 32)
  let body := input.drop 96
  let expHead :=
    if body.length ≤ baseLen then 0
    else if expLen > 32 then bytesNat (getData body baseLen 32)
    else bytesNat (getData body baseLen expLen)
  let msb := bitLen expHead - 1
  let adj := (if expLen > 32 then 8 * (expLen - 32) else 0) + msb
  capU64 (multComplexity (max modLen baseLen) * max adj 1 / Gen.EvmTable.modExpQuadCoeffDiv)

/-- `RequiredGas` by contract type (the names of contracts.go) -/
def requiredGas (ty : String) (input : List UInt8) : Option Nat :=
  open Gen.EvmTable in
  if ty == "ecrecover" then some ecrecoverGas
  else if ty == "sha256hash" then some (wordGas sha256BaseGas sha256PerWordGas input.length)
  else if ty == "ripemd160hash" then some (wordGas ripemd160BaseGas ripemd160PerWordGas input.length)
  else if ty == "dataCopy" then some (wordGas identityBaseGas identityPerWordGas input.length)
  else if ty == "bigModExp" then some (modexpGas input)
  else if ty == "bn256Add" then some bn256AddGas
  else if ty == "bn256ScalarMul" then some bn256ScalarMulGas
  else if ty == "bn256Pairing" then some (bn256PairingBaseGas + input.length / 192 * bn256PairingPerPointGas)
  else none

/-- the answer to `pre set=… addr=… gas=… in=…` -/
def answer (set : String) (addr gas : Nat) (input : List UInt8) : String :=
  let tab := if set == "b" then Gen.EvmTable.precompiledContractsByzantium else Gen.EvmTable.precompiledContractsHomestead
  match tab.find? (fun p => p.1 == addr) with
  | none => "none"
  | some (_, ty) =>
    match requiredGas ty input with
    | none => "bad:unknown-contract-type"
    | some req =>
      match runPre gas req with
      | none => "oog"
      | some left => s!"charged={gas - left}"

end Pre

end Model.Evm
